(* C11 — round 4 additions to Graph/NodesProofs.v (same model, Graph/Nodes.v).

   Part A  TOTALITY of reads for EVERY permutation oracle (not only stable ones): acyclicity is an invariant of
           [run] under any order, and fuel = number of nodes + 1 suffices for [value]
   Part B  reading a node that is clean is a no-op on the whole node table (so a second read changes nothing)
   Part C  a node executes AT MOST ONCE during one read (stable order); refuted for the pinned map order
   Part D  State() is complete: after a parameter of its cone is set, or a node of its cone re-wired, a node
           reports Stale (the converse of "a clean node stays clean while its cone is untouched")            *)
From Coq Require Import String Ascii Permutation.
From PF Require Import Base.Bytes Graph.Nodes Graph.NodesProofs.
Local Open Scope nat_scope.

(* ------------------------------------------------------------------------------------------ *)
(** * Part A: totality under every permutation oracle *)

Lemma perm_in_deps_rec po n sn d : perm_ok po ->
  In d (map snd (po Rec n (raw_deps (sn_ports sn)))) <-> In d (deps_ids sn).
Proof.
  intros PO. rewrite <- map_snd_raw_deps_sn. split; apply Permutation_in.
  - apply Permutation_map, PO.
  - apply Permutation_sym, Permutation_map, PO.
Qed.

Section TotalAny.
  Variable po : order.
  Hypothesis PO : perm_ok po.
  Variable rk : id -> nat.
  Variable f0 : nat.
  Hypothesis IHt : forall st n h, Pre rk st -> depth f0 (graph_of st) n = Some h ->
    exists st' v, value po f0 st n = Some (st', v).

  Definition keepsV (st st1 : store) : Prop :=
    Pre rk st1 /\ graph_of st1 = graph_of st /\ length st1 = length st.

  Lemma value_keepsV st n st' v : Pre rk st -> value po f0 st n = Some (st', v) -> keepsV st st'.
  Proof.
    intros HP E. destruct (value_spec po PO rk _ _ _ _ _ HP E) as (_ & _ & P' & (G & _ & _) & _).
    split; auto. split; auto. rewrite <- (graph_of_length st'), <- (graph_of_length st). congruence.
  Qed.

  Lemma read_list_total : forall l st, Pre rk st ->
    (forall d, In d l -> exists h, depth f0 (graph_of st) d = Some h) ->
    exists st1 xs, read_list (value po f0) st l = Some (st1, xs) /\ keepsV st st1.
  Proof.
    induction l as [|d r IHl]; simpl; intros st HP H.
    - exists st, []. split; auto. split; auto.
    - destruct (H d (or_introl eq_refl)) as [h Hd]. destruct (IHt _ _ _ HP Hd) as (sa & x & E).
      rewrite E. simpl. destruct (value_keepsV _ _ _ _ HP E) as (Pa & Ga & La).
      destruct (IHl sa Pa) as (sb & xs & E2 & Pb & Gb & Lb).
      { intros d' Hd'. rewrite Ga. apply H; auto. }
      rewrite E2. simpl. eexists _, _. split; [reflexivity|]. split; auto. split; congruence.
  Qed.

  Lemma read_ports_total : forall ps st, Pre rk st ->
    (forall d, In d (concat ps) -> exists h, depth f0 (graph_of st) d = Some h) ->
    exists st1 xss, read_ports (value po f0) st ps = Some (st1, xss) /\ keepsV st st1.
  Proof.
    induction ps as [|l r IHp]; simpl; intros st HP H.
    - exists st, []. split; auto. split; auto.
    - destruct (read_list_total l st HP) as (sa & xs & E & Pa & Ga & La).
      { intros; apply H, in_or_app; auto. }
      rewrite E. simpl.
      destruct (IHp sa Pa) as (sb & xss & E2 & Pb & Gb & Lb).
      { intros d' Hd'. rewrite Ga. apply H, in_or_app; auto. }
      rewrite E2. simpl. eexists _, _. split; [reflexivity|]. split; auto. split; congruence.
  Qed.
End TotalAny.

Lemma value_total_any po rk : perm_ok po -> forall f st n h,
  Pre rk st -> depth f (graph_of st) n = Some h -> exists st' v, value po f st n = Some (st', v).
Proof.
  intros PO. induction f as [|f0 IH]; intros st n h HP H; [discriminate|].
  destruct (stale_total po PO _ _ _ _ (proj1 HP) H) as [b Hb].
  rewrite depth_S, graph_nth in H. rewrite value_S.
  destruct (nth_error st n) as [[ver w sets|sn]|] eqn:En; simpl in H; [eauto| |discriminate].
  inv_bind H. rewrite Hb. simpl. destruct b; [|eauto].
  destruct (read_ports_total po PO rk f0 IH (ids_of sn) st HP) as (st1 & ins & E1 & P1 & G1 & L1).
  { intros d Hd. destruct (map_opt_some_in _ _ _ E d Hd) as (hd & Ed & _). eauto. }
  rewrite E1. simpl.
  destruct (map_opt_total (ver_of st1) (map snd (po Rec n (raw_deps (sn_ports sn))))) as [vers ->]; [|simpl; eauto].
  intros d Hd. apply (perm_in_deps_rec po n sn d PO) in Hd.
  destruct (map_opt_some_in _ _ _ E d Hd) as (hd & Ed & _).
  apply depth_some_lt in Ed. rewrite graph_of_length, <- L1 in Ed.
  unfold ver_of. destruct (nth_error st1 d) as [[|]|] eqn:Ex; eauto. apply nth_error_None in Ex. lia.
Qed.

(* acyclicity (the executable test Connect applies) is an invariant of every history under every order *)
Lemma step_acyclic orc s o s' r : oracle_ok orc -> WF (nodes s) -> acyclic_b (graph_of (nodes s)) = true ->
  step orc s o = Some (s', r) -> acyclic_b (graph_of (nodes s')) = true.
Proof.
  intros PO [I [rk Rk]] A H. apply step_inv in H. destruct (is_read o) eqn:Er.
  - destruct o; try discriminate. destruct (step_store_read _ _ _ _ _ H) as [v Hv].
    destruct (value_spec _ (PO _) rk _ _ _ _ _ (conj I Rk) Hv) as (_ & _ & _ & (G & _ & _) & _).
    rewrite G. exact A.
  - eapply edit_acyclic; eauto.
Qed.

Lemma run_acyclic orc : oracle_ok orc -> forall h s s', WF (nodes s) -> acyclic_b (graph_of (nodes s)) = true ->
  run orc s h = Some s' -> acyclic_b (graph_of (nodes s')) = true.
Proof.
  intros PO. induction h as [|o r IH]; simpl; intros s s' W A H.
  - injection H as <-. auto.
  - inv_bind H. destruct a as [s1 res]. eapply IH; [| |exact H].
    + eapply step_WF; eauto.
    + eapply step_acyclic; eauto.
Qed.

Lemma acyclic_depth st n : acyclic_b (graph_of st) = true -> n < length st ->
  exists h, depth (fuel_of st) (graph_of st) n = Some h.
Proof.
  intros A Hn. unfold acyclic_b in A. rewrite forallb_forall in A. specialize (A n).
  rewrite in_seq, graph_of_length in A. specialize (A (conj (Nat.le_0_l _) Hn)).
  unfold fuel_of. destruct (depth (S (length st)) (graph_of st) n) as [hh|] eqn:E; [eauto|discriminate].
Qed.

(* TOTALITY for every oracle that returns permutations — also one that changes from call to call (the pinned
   map iteration): after every history, reading any existing node returns a value *)
Theorem read_total_any_order orc ds h s n :
  oracle_ok orc -> run orc (init ds) h = Some s -> n < length (nodes s) ->
  exists s' v, read orc s n = Some (s', v).
Proof.
  intros PO R Hn.
  destruct (run_WF orc PO _ _ _ (init_WF ds) R) as [I [rk Rk]].
  pose proof (run_acyclic orc PO _ _ _ (init_WF ds) (init_acyclic ds) R) as A.
  destruct (acyclic_depth _ _ A Hn) as [hh E].
  destruct (value_total_any _ rk (PO (clock s)) _ _ _ _ (conj I Rk) E) as (st' & v & Hv).
  exists {| nodes := st'; clock := S (clock s) |}, v. unfold read, step. cbn [step_store]. rewrite Hv. reflexivity.
Qed.

(* ------------------------------------------------------------------------------------------ *)
(** * Part B: reading a clean node changes nothing *)

Lemma value_of_clean po : perm_ok po -> forall st n h, Inv st ->
  depth (fuel_of st) (graph_of st) n = Some h -> clean po st n ->
  value po (fuel_of st) st n = Some (st, outT st n).
Proof.
  intros PO st n h I D [f Hf]. unfold fuel_of in *.
  destruct (stale_total po PO _ _ _ _ I D) as [b Hb].
  pose proof (stale_det _ _ _ _ _ _ _ Hb Hf) as ->.
  rewrite value_S. unfold outT. destruct (depth_nth_store _ _ _ _ D) as [x Ex]. rewrite Ex.
  destruct x as [ver w sets|sn]; [reflexivity|]. rewrite Hb. reflexivity.
Qed.

(* after a read of n (stable order), reading n — or any node of its cone — again returns the same from-scratch
   value and leaves the WHOLE node table as it is: no node executes, no version moves, nothing is re-recorded *)
Theorem read_cone_again_noop po ds h s n s1 v m :
  stable po -> run (const_oracle po) (init ds) h = Some s -> read (const_oracle po) s n = Some (s1, v) ->
  reach (graph_of (nodes s1)) n m ->
  exists s2 w, read (const_oracle po) s1 m = Some (s2, w) /\ nodes s2 = nodes s1 /\ eval_now s1 m = Some w /\
               (m = n -> w = v).
Proof.
  intros ST R Hr Hm. pose proof (proj1 ST) as PO.
  assert (OK : oracle_ok (const_oracle po)) by (intros c; exact PO).
  apply read_inv in Hr. unfold const_oracle in Hr.
  destruct (run_WF _ OK _ _ _ (init_WF ds) R) as [I [rk Rk]].
  pose proof (run_acyclic _ OK _ _ _ (init_WF ds) (init_acyclic ds) R) as A.
  destruct (value_spec po PO rk _ _ _ _ _ (conj I Rk) Hr) as (He & Ho & [I1 Rk1] & (G & _ & _) & _).
  destruct (value_exec_clean po ST rk _ _ _ _ _ (conj I Rk) Hr) as [[f Cn] _].
  assert (Cm : clean po (nodes s1) m) by (eapply clean_cone; eauto).
  assert (Hlt : m < length (nodes s1)).
  { destruct Cm as [f' Hf']. destruct f'; [discriminate|]. rewrite stale_S in Hf'.
    destruct (nth_error (nodes s1) m) eqn:Em; [|discriminate]. eapply nth_error_some_lt; eauto. }
  rewrite <- G in A. destruct (acyclic_depth _ _ A Hlt) as [hh D].
  pose proof (value_of_clean po PO _ _ _ I1 D Cm) as Hv.
  exists {| nodes := nodes s1; clock := S (clock s1) |}, (outT (nodes s1) m).
  split; [unfold read, step, const_oracle; cbn [step_store]; rewrite Hv; reflexivity|].
  split; [reflexivity|]. split.
  - destruct (value_spec po PO rk _ _ _ _ _ (conj I1 Rk1) Hv) as (He' & _). exact He'.
  - intros ->. exact Ho.
Qed.

(* ------------------------------------------------------------------------------------------ *)
(** * Part C: at most one execution per node and read *)

Section Once.
  Variable po : order.
  Hypothesis ST : stable po.
  Variable rk : id -> nat.
  Let PO : perm_ok po := proj1 ST.

  Definition Once (st st' : store) : Prop := forall m, execs_of st' m <= S (execs_of st m).
  Definition RO (K : nat) (st st' : store) : Prop := RX po rk K st st' /\ (Pre rk st -> Once st st').

  Lemma RO_refl K st : RO K st st.
  Proof. split; [apply RX_refl|]. intros _ m. lia. Qed.

  Lemma RO_trans K a b c : RO K a b -> RO K b c -> RO K a c.
  Proof.
    intros [X1 O1] [X2 O2]. split; [eapply RX_trans; eauto|]. intros Pa m.
    destruct X1 as [K1 R1]. destruct (R1 Pa) as (Pb & _ & _ & Xc1). destruct X2 as [K2 _].
    specialize (O1 Pa m). specialize (O2 Pb m).
    destruct (Nat.eq_dec (execs_of b m) (execs_of a m)) as [E|E].
    - lia.
    - destruct (K2 m (Xc1 m E)) as [En _]. rewrite (execs_of_nth _ _ _ En). exact O1.
  Qed.

  Lemma value_once : forall f st r st' v, Pre rk st -> value po f st r = Some (st', v) -> Once st st'.
  Proof.
    induction f as [|f0 IH]; intros st r st' v HP H; [discriminate|].
    destruct (value_inv _ _ _ _ _ _ H) as (f1 & Ef & Hc). injection Ef as <-.
    destruct Hc as [(ver & sets & En & ->) | [(sn & En & Hs & -> & ->) | (sn & st1 & ins & vers & En & Hs & Hr & Hv & Ev & ->)]];
      try (intros m; lia).
    assert (Hrk : forall d, In d (concat (ids_of sn)) -> rk d < rk r).
    { intros d Hd. eapply (proj2 HP); [|exact Hd]. rewrite graph_nth, En. reflexivity. }
    destruct (read_ports_split (value po f0) (RO (rk r)) (fun d => rk d < rk r)
                (RO_refl _) (RO_trans _)) with (ps := ids_of sn) (st := st) (st1 := st1) (xss := ins)
      as [R1 _]; auto.
    { intros s d s' x Hd Hval. split; [|intros Ps; eapply IH; eauto].
      split; [eapply value_keeps; eauto|].
      intros Ps. destruct (value_spec po PO rk _ _ _ _ _ Ps Hval) as (_ & _ & P' & Fr & Lo).
      split; auto. split; auto. split; [intros m Hm; apply Lo; lia|].
      apply (value_exec_clean po ST rk _ _ _ _ _ Ps Hval). }
    { apply Forall_nested_concat; auto. }
    destruct R1 as [[K1 R1] O1]. destruct (R1 HP) as (P1 & _ & Lo1 & _). specialize (O1 HP).
    assert (En1 : nth_error st1 r = Some (Struct sn)) by (rewrite Lo1; auto).
    assert (Hlt : r < length st1) by (eapply nth_error_some_lt; eauto).
    intros m. destruct (Nat.eq_dec r m) as [<- | Hne].
    - unfold execs_of. rewrite nth_error_set_nth_eq, En; auto.
    - rewrite (execs_of_nth st1 _ m); [apply O1|]. apply nth_error_set_nth_neq; auto.
  Qed.
End Once.

Lemma store_le_execs st st' m : store_le st st' -> execs_of st m <= execs_of st' m.
Proof.
  intros [L H]. unfold execs_of. destruct (nth_error st m) as [x|] eqn:Ex; [|lia].
  destruct (H _ _ Ex) as (y & -> & Le). destruct x, y; simpl in Le; try tauto; try lia.
  destruct Le as (_ & _ & _ & k & _ & E). lia.
Qed.

(* during ONE read every node executes at most once (stable order), and never "un-executes" *)
Theorem exec_at_most_once_per_read po ds h s n s' v :
  stable po -> run (const_oracle po) (init ds) h = Some s -> read (const_oracle po) s n = Some (s', v) ->
  forall m, execs_of (nodes s) m <= execs_of (nodes s') m <= S (execs_of (nodes s) m).
Proof.
  intros ST R Hr m. pose proof (proj1 ST) as PO.
  assert (OK : oracle_ok (const_oracle po)) by (intros c; exact PO).
  apply read_inv in Hr. unfold const_oracle in Hr.
  destruct (run_WF _ OK _ _ _ (init_WF ds) R) as [I [rk Rk]]. split.
  - apply store_le_execs. eapply value_le; eauto.
  - eapply (value_once po ST rk); eauto. split; auto.
Qed.

(* the pinned map order: ONE read executes a shared two-input node twice (diamond; the second consumer compares
   the remembered versions in the other order).  Nodes: 0, 1 parameters (versions 0 and 1); 2 = A + B of them;
   3, 4 consumers of 2; 5 reads 3 and 4. *)
Definition twice_decls : list decl :=
  [DParam 3%Z; DParam 4%Z; DStruct [("A"%string, false); ("B"%string, false)] sum_proc;
   DStruct [("In"%string, false)] sum_proc; DStruct [("In"%string, false)] sum_proc;
   DStruct [("A"%string, false); ("B"%string, false)] sum_proc].
Definition twice_hist : list op :=
  [SetParam 1 5%Z; Connect 2 "A"%string 0; Connect 2 "B"%string 1; Connect 3 "In"%string 2; Connect 4 "In"%string 2;
   Connect 5 "A"%string 3; Connect 5 "B"%string 4].

Lemma twice_witness :
  exists s1 s2,
    run (const_oracle flip_order) (init twice_decls) twice_hist = Some s1 /\ execs_of (nodes s1) 2 = 0 /\
    read (const_oracle flip_order) s1 5 = Some (s2, 16%Z) /\ execs_of (nodes s2) 2 = 2 /\
    eval_now s1 5 = Some 16%Z.
Proof.
  eexists. eexists.
  split; [vm_compute; reflexivity|]. split; [vm_compute; reflexivity|].
  split; [vm_compute; reflexivity|]. split; vm_compute; reflexivity.
Qed.

Lemma once_witness :
  exists s1 s2,
    run sorted_oracle (init twice_decls) twice_hist = Some s1 /\ execs_of (nodes s1) 2 = 0 /\
    read sorted_oracle s1 5 = Some (s2, 16%Z) /\ execs_of (nodes s2) 2 = 1.
Proof.
  eexists. eexists.
  split; [vm_compute; reflexivity|]. split; [vm_compute; reflexivity|].
  split; vm_compute; reflexivity.
Qed.

(* ------------------------------------------------------------------------------------------ *)
(** * Part D: State() is complete — touching the cone makes the node Stale *)

(* what a locally clean node remembers is never AHEAD of its dependencies' versions; so a bumped dependency
   version is seen.  [Rem st]: every processed, un-rewired struct node recorded, for each dependency position of
   the enumeration it used, a version <= the current one. *)
Lemma cmp_deps_lt s st L dv d :
  (forall d', In d' L -> exists w, ver_of st d' = Some w) ->
  (forall d', In d' L -> exists b, s d' = Some b) ->
  length L = length dv ->
  In d L -> s d = Some true -> cmp_deps s st L dv = Some true.
Proof.
  revert dv; induction L as [|a r IH]; intros [|v vs] Hw Hs HL Hin Hd; simpl in *; try tauto; try discriminate.
  destruct (Hw a (or_introl eq_refl)) as [w ->]. simpl.
  destruct (negb (w =? v)); auto.
  destruct Hin as [<- | Hin].
  - rewrite Hd. reflexivity.
  - destruct (Hs a (or_introl eq_refl)) as [b ->]. simpl. destruct b; [reflexivity|].
    apply IH; auto.
Qed.

(* a stale dependency makes its consumer stale (whatever the versions say): Outdated() checks State() of every
   dependency *)
Lemma stale_dep_stale po : perm_ok po -> forall f st n sn d h,
  Inv st -> depth (S f) (graph_of st) n = Some h ->
  nth_error st n = Some (Struct sn) -> In d (deps_ids sn) ->
  stale po f st d = Some true -> stale po (S f) st n = Some true.
Proof.
  intros PO f st n sn d h I D En Hd Hs.
  rewrite stale_S, En. destruct (sn_depvers sn) as [dv|] eqn:Edv; auto. destruct (sn_dirty sn) eqn:Ed; auto.
  rewrite depth_S, graph_nth, En in D. simpl in D. inv_bind D.
  destruct (I _ _ En dv Edv Ed) as (sv & sx & l & P & E' & _).
  eapply cmp_deps_lt with (d := d).
  - intros d' Hd'. apply (perm_in_deps po n sn d' PO) in Hd'.
    destruct (map_opt_some_in _ _ _ E d' Hd') as (hd & Ed' & _).
    destruct (depth_nth_store _ _ _ _ Ed') as [x Ex]. unfold ver_of. rewrite Ex. destruct x; eauto.
  - intros d' Hd'. apply (perm_in_deps po n sn d' PO) in Hd'.
    destruct (map_opt_some_in _ _ _ E d' Hd') as (hd & Ed' & _).
    eapply stale_total; eauto.
  - subst dv. rewrite !map_length.
    etransitivity; [exact (Permutation_length (PO Cmp n (raw_deps (sn_ports sn)))) | symmetry; exact (Permutation_length P)].
  - apply (perm_in_deps po n sn d PO); auto.
  - exact Hs.
Qed.

(* staleness propagates along every path of the wiring: if m is Stale and n reaches m, n is Stale *)
Lemma stale_propagates po : perm_ok po -> forall st, Inv st -> forall n m, reach (graph_of st) n m ->
  forall f h, depth f (graph_of st) n = Some h ->
  (exists f', stale po f' st m = Some true) -> stale po f st n = Some true.
Proof.
  intros PO st I n m Hr. induction Hr as [a | a ins proc d b Ha Hd Hr IH]; intros f h D [f' Hm].
  - destruct (stale_total po PO _ _ _ _ I D) as [b Hb].
    pose proof (stale_det _ _ _ _ _ _ _ Hb Hm) as ->. exact Hb.
  - destruct f as [|f0]; [discriminate|].
    rewrite graph_nth in Ha. destruct (nth_error st a) as [[|sn]|] eqn:En; try discriminate.
    simpl in Ha. injection Ha as <- <-.
    pose proof D as D'. rewrite depth_S, graph_nth, En in D'. simpl in D'. inv_bind D'.
    destruct (map_opt_some_in _ _ _ E d Hd) as (hd & Ed & _).
    eapply stale_dep_stale; eauto.
Qed.

(* the node just edited is Stale: a re-wired struct node has its flag set *)
Lemma rewired_stale po st n input src st' : rewire st n input src = Some st' -> stale po 1 st' n = Some true.
Proof.
  intros H. destruct (rewire_inv _ _ _ _ _ H) as (sn & ps & En & _ & ->).
  rewrite stale_S, nth_error_set_nth_eq by (eapply nth_error_some_lt; eauto).
  simpl. destruct (sn_depvers sn); reflexivity.
Qed.

(* COMPLETENESS of State() for re-wiring: right after an accepted Connect / Disconnect on node t, every node
   whose cone contains t reports Stale (in particular t itself) *)
Theorem state_stale_after_rewire orc ds h s o s' r n :
  oracle_ok orc -> run orc (init ds) h = Some s -> step orc s o = Some (s', r) ->
  (match o with Connect _ _ _ | Disconnect _ _ => True | _ => False end) ->
  reach (graph_of (nodes s')) n (target o) ->
  forall po, perm_ok po -> state_of po (nodes s') n = Some true.
Proof.
  intros OK R Hs Ho Hr po PO.
  pose proof (run_WF orc OK _ _ _ (init_WF ds) R) as W.
  pose proof (run_acyclic orc OK _ _ _ (init_WF ds) (init_acyclic ds) R) as A.
  pose proof (step_WF orc _ _ _ _ OK W Hs) as [I' _].
  pose proof (step_acyclic orc _ _ _ _ OK W A Hs) as A'.
  apply step_inv in Hs.
  assert (Ht : stale po 1 (nodes s') (target o) = Some true).
  { destruct o as [? ?|t input src|t input|?]; try contradiction; cbn [step_store] in Hs; simpl.
    - destruct (src <? length (nodes s)); [|discriminate]. inv_bind Hs.
      destruct (acyclic_b (graph_of a)); [|discriminate]. injection Hs as <- _. eapply rewired_stale; eauto.
    - inv_bind Hs. injection Hs as <- _. eapply rewired_stale; eauto. }
  assert (Hn : n < length (nodes s')).
  { inversion Hr; subst.
    - destruct (nth_error (nodes s') (target o)) eqn:Em.
      + eapply nth_error_some_lt; eauto.
      + rewrite stale_S, Em in Ht. discriminate.
    - rewrite graph_nth in H. destruct (nth_error (nodes s') n) eqn:Em; [|discriminate].
      eapply nth_error_some_lt; eauto. }
  destruct (acyclic_depth _ _ A' Hn) as [hh D].
  unfold state_of. eapply stale_propagates; eauto.
Qed.

(* ---- a parameter update: the version counter moves, every direct consumer sees it ---- *)
Lemma list_sum_map_le {A} (f g : A -> nat) l :
  (forall d, In d l -> f d <= g d) -> list_sum (map f l) <= list_sum (map g l).
Proof.
  induction l as [|a r IH]; simpl; intros H; [lia|].
  pose proof (H a (or_introl eq_refl)). assert (list_sum (map f r) <= list_sum (map g r)) by (apply IH; auto). lia.
Qed.

Lemma list_sum_map_lt {A} (f g : A -> nat) l p :
  (forall d, In d l -> f d <= g d) -> In p l -> f p < g p -> list_sum (map f l) < list_sum (map g l).
Proof.
  induction l as [|a r IH]; simpl; intros H Hin Hp; [tauto|].
  pose proof (H a (or_introl eq_refl)).
  assert (list_sum (map f r) <= list_sum (map g r)) by (apply list_sum_map_le; auto).
  destruct Hin as [-> | Hin]; [lia|].
  assert (list_sum (map f r) < list_sum (map g r)) by (apply IH; auto). lia.
Qed.

(* a node that was processed and not re-wired remembers versions that are never ahead of the current ones; if the
   version of one of its dependencies has grown since (and none has shrunk), the positional comparison cannot
   come out "all equal" — under ANY enumeration order, because both enumerations list the same multiset *)
Lemma consumer_of_bumped_stale po : perm_ok po -> forall f st st' c sn p h,
  Inv st -> Inv st' ->
  nth_error st c = Some (Struct sn) -> nth_error st' c = Some (Struct sn) ->
  (forall d, verT st d <= verT st' d) -> In p (deps_ids sn) -> verT st p < verT st' p ->
  depth (S f) (graph_of st') c = Some h ->
  stale po (S f) st' c = Some true.
Proof.
  intros PO f st st' c sn p h I I' En En' Hmono Hp Hlt D.
  destruct (stale_total po PO _ _ _ _ I' D) as [b Hb]. destruct b; auto. exfalso.
  rewrite stale_S, En' in Hb.
  destruct (sn_depvers sn) as [dv|] eqn:Edv; [|discriminate].
  destruct (sn_dirty sn) eqn:Ed; [discriminate|].
  destruct (I _ _ En dv Edv Ed) as (sv & sx & l & P & E & _ & M).
  pose proof (PO Cmp c (raw_deps (sn_ports sn))) as Pc.
  set (lc := po Cmp c (raw_deps (sn_ports sn))) in *.
  apply cmp_deps_false in Hb.
  2:{ subst dv. rewrite !map_length.
      etransitivity; [exact (Permutation_length Pc) | symmetry; exact (Permutation_length P)]. }
  destruct Hb as [Hv _].
  assert (Hsum : list_sum (map sv (deps_ids sn)) = list_sum (map (verT st') (deps_ids sn))).
  { rewrite <- map_snd_raw_deps_sn.
    rewrite <- (list_sum_perm _ _ (Permutation_map sv (Permutation_map snd P))).
    rewrite <- (list_sum_perm _ _ (Permutation_map (verT st') (Permutation_map snd Pc))).
    congruence. }
  assert (Hl : list_sum (map sv (deps_ids sn)) < list_sum (map (verT st') (deps_ids sn))).
  { apply list_sum_map_lt with (p := p); auto.
    - intros d Hd. destruct (M d Hd) as [L _]. specialize (Hmono d). lia.
    - destruct (M p Hp) as [L _]. lia. }
  lia.
Qed.

(* a path to p that is not empty ends with an edge c -> p *)
Lemma reach_last g n p : reach g n p ->
  n = p \/ exists c ins proc, reach g n c /\ nth_error g c = Some (GStruct ins proc) /\ In p (concat ins).
Proof.
  induction 1 as [a | a ins proc d b Ha Hd Hr IH].
  - left; auto.
  - right. destruct IH as [-> | (c & ins' & proc' & Rc & Ec & Ic)].
    + exists a, ins, proc. split; [constructor|]. auto.
    + exists c, ins', proc'. split; auto. eapply reach_step; eauto.
Qed.

(* COMPLETENESS of State() for parameter updates: right after an accepted update of parameter p (even to the same
   value), every struct node whose cone contains p reports Stale — under every enumeration order *)
Theorem state_stale_after_set_param orc ds h s p v s' r n :
  oracle_ok orc -> run orc (init ds) h = Some s -> step orc s (SetParam p v) = Some (s', r) ->
  reach (graph_of (nodes s')) n p -> n <> p ->
  forall po, perm_ok po -> state_of po (nodes s') n = Some true.
Proof.
  intros OK R Hs Hr Hne po PO.
  pose proof (run_WF orc OK _ _ _ (init_WF ds) R) as W.
  pose proof (run_acyclic orc OK _ _ _ (init_WF ds) (init_acyclic ds) R) as A.
  pose proof (step_WF orc _ _ _ _ OK W Hs) as [I' _].
  pose proof (step_acyclic orc _ _ _ _ OK W A Hs) as A'.
  destruct W as [I _].
  apply step_inv in Hs. cbn [step_store] in Hs.
  destruct (nth_error (nodes s) p) as [[ver w sets|]|] eqn:Ep; try discriminate.
  injection Hs as Hst _.
  assert (Hpl : p < length (nodes s)) by (eapply nth_error_some_lt; eauto).
  destruct (reach_last _ _ _ Hr) as [-> | (c & ins & proc & Rc & Ec & Ic)]; [congruence|].
  rewrite graph_nth in Ec. destruct (nth_error (nodes s') c) as [[|sn]|] eqn:Ec'; try discriminate.
  simpl in Ec. injection Ec as <- <-.
  assert (Hcp : p <> c).
  { intros <-. rewrite <- Hst, nth_error_set_nth_eq in Ec'; auto. discriminate. }
  assert (Ecs : nth_error (nodes s) c = Some (Struct sn)).
  { rewrite <- Hst, nth_error_set_nth_neq in Ec'; auto. }
  assert (Hcl : c < length (nodes s')) by (eapply nth_error_some_lt; eauto).
  destruct (acyclic_depth _ _ A' Hcl) as [hc Dc]. unfold fuel_of in Dc.
  assert (Sc : stale po (S (length (nodes s'))) (nodes s') c = Some true).
  { eapply (consumer_of_bumped_stale po PO _ (nodes s) (nodes s') c sn p); eauto.
    - intros d. rewrite <- Hst. destruct (Nat.eq_dec p d) as [<- | Hd].
      + unfold verT, ver_of. rewrite nth_error_set_nth_eq, Ep; auto.
      + rewrite verT_set_nth_neq; auto.
    - rewrite <- Hst. unfold verT, ver_of. rewrite nth_error_set_nth_eq, Ep; auto. }
  assert (Hn : n < length (nodes s')).
  { inversion Rc; subst; auto.
    rewrite graph_nth in H. destruct (nth_error (nodes s') n) eqn:Em; [|discriminate].
    eapply nth_error_some_lt; eauto. }
  destruct (acyclic_depth _ _ A' Hn) as [hh D].
  unfold state_of. eapply stale_propagates; eauto.
Qed.

(* ------------------------------------------------------------------------------------------ *)
(** * Part E: the version of a node across one read *)

Lemma run_snoc orc : forall h s s1 o s2 r,
  run orc s h = Some s1 -> step orc s1 o = Some (s2, r) -> run orc s (h ++ [o]) = Some s2.
Proof.
  induction h as [|o' t IH]; simpl; intros s s1 o s2 r H Hs.
  - injection H as <-. rewrite Hs. reflexivity.
  - inv_bind H. destruct a as [sa ra]. rewrite E. simpl. eapply IH; eauto.
Qed.

Lemma read_step orc s n s' v : read orc s n = Some (s', v) -> step orc s (Read n) = Some (s', RVal v).
Proof.
  unfold read. destruct (step orc s (Read n)) as [[s1 [|w]]|]; try discriminate. intros H. injection H as <- <-. reflexivity.
Qed.

(* across one read (stable order) the version of every struct node grows by exactly the number of times it
   executed during the read, which is 0 or 1 *)
Theorem read_version_step po ds h s n s' v m sn sn' :
  stable po -> run (const_oracle po) (init ds) h = Some s -> read (const_oracle po) s n = Some (s', v) ->
  nth_error (nodes s) m = Some (Struct sn) -> nth_error (nodes s') m = Some (Struct sn') ->
  sn_ver sn' - sn_ver sn = sn_execs sn' - sn_execs sn /\ sn_ver sn <= sn_ver sn' <= S (sn_ver sn).
Proof.
  intros ST R Hr Em Em'.
  pose proof (version_counts _ ds h s R m) as V. rewrite Em in V.
  pose proof (version_counts _ ds _ s' (run_snoc _ _ _ _ _ _ _ R (read_step _ _ _ _ _ Hr)) m) as V'. rewrite Em' in V'.
  pose proof (exec_at_most_once_per_read po ds h s n s' v ST R Hr m) as B.
  unfold execs_of in B. rewrite Em, Em' in B. lia.
Qed.

(* non-vacuity of Part D: parameter 0 feeds node 2; after a read node 2 is Processed, after an update of the
   parameter (to the value it already has) it is Stale, and the next read executes it *)
Lemma state_witness :
  exists s1 s2 s3,
    run sorted_oracle (init spurious_decls) spurious_hist = Some s1 /\ state_of sorted_order (nodes s1) 2 = Some false /\
    run sorted_oracle s1 [SetParam 0 3%Z] = Some s2 /\ state_of sorted_order (nodes s2) 2 = Some true /\
    read sorted_oracle s2 2 = Some (s3, 8%Z) /\ execs_of (nodes s3) 2 = 2 /\ state_of sorted_order (nodes s3) 2 = Some false.
Proof.
  eexists. eexists. eexists.
  split; [vm_compute; reflexivity|]. split; [vm_compute; reflexivity|].
  split; [vm_compute; reflexivity|]. split; [vm_compute; reflexivity|].
  split; [vm_compute; reflexivity|]. split; vm_compute; reflexivity.
Qed.
