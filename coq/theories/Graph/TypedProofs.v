(* C12: the typed-value invariant.  If the registered records of the type table hold canonical values (the saved
   form of a well-formed typed value of the type's kind, Graph/Values.v) and every value an update hands over is
   canonical for the kind of the parameter it addresses, then after the whole history every current and default
   value of every parameter is canonical — and still is after saving and reloading.  This is the test the binding
   applies to the observed graphs ([values_canonical] in Check/C12.v), as a theorem about the model. *)
From Coq Require Import String Ascii.
From PF Require Import Base.Bytes Graph.Schema Graph.SchemaProofs Graph.Instance Graph.InstanceProofs Graph.Values.
Open Scope N_scope.

Section Typed.
  Variable vk : nat -> option vkind.       (* the value kind of the table's Value[T] types *)

  Definition opt_canon (k : vkind) (o : option jval) : Prop :=
    match o with Some v => canonical k v = true | None => True end.
  Definition par_canon (n : node) : Prop :=
    match n_par n, vk (n_ty n) with
    | Some r, Some k => opt_canon k (pr_val r) /\ opt_canon k (pr_def r)
    | _, _ => True
    end.
  Definition all_canon (s : inst) : Prop := Forall (fun e => par_canon (snd e)) (i_nodes s).

  (* the registered record of every type is canonical *)
  Definition table_canon (T : table) : Prop :=
    forall k t, nth_error T k = Some t -> par_canon (fresh t k).

  (* an update hands a canonical value to the parameter(s) it addresses *)
  Definition op_canon (s : inst) (o : op) : Prop :=
    match o with
    | OUpdate i v => forall e k, In e (i_nodes s) -> fst e = i -> vk (n_ty (snd e)) = Some k -> canonical k v = true
    | _ => True
    end.
  Fixpoint hist_canon (T : table) (s : inst) (h : list op) : Prop :=
    match h with
    | [] => True
    | o :: r => op_canon s o /\ hist_canon T (fst (step T s o)) r
    end.

  Lemma map_node_Forall_at (P : id * node -> Prop) i f l :
    Forall P l -> (forall e, In e l -> fst e = i -> P e -> P (fst e, f (snd e))) -> Forall P (map_node i f l).
  Proof.
    intros Hl Hf. unfold map_node. apply Forall_forall. intros x Hx. apply in_map_iff in Hx.
    destruct Hx as (e & <- & He). pose proof (proj1 (Forall_forall _ _) Hl e He) as HP.
    destruct (String.eqb i (fst e)) eqn:E; [|exact HP]. apply String.eqb_eq in E. apply Hf; auto.
  Qed.

  (* edits that do not touch a parameter's values keep [par_canon] *)
  Lemma par_canon_in n ins : par_canon n -> par_canon (mknode (n_ty n) ins (n_par n)).
  Proof. exact (fun H => H). Qed.

  Lemma par_canon_meta n (f : prec -> prec) :
    (forall r, pr_val (f r) = pr_val r /\ pr_def (f r) = pr_def r) -> par_canon n -> par_canon (set_par n f).
  Proof.
    intros Hf H. unfold par_canon, set_par in *. cbn. destruct (n_par n) as [r|]; [|exact I].
    destruct (vk (n_ty n)); [|exact I]. destruct (Hf r) as [-> ->]. exact H.
  Qed.

  Theorem step_canon T s o : table_canon T -> all_canon s -> op_canon s o -> all_canon (fst (step T s o)).
  Proof.
    intros HT Hs Ho. unfold all_canon in *. destruct o; cbn [step].
    - destruct (nth_error T k) eqn:E; cbn; [|exact Hs]. apply insert_Forall'; [|exact Hs]. cbn. eapply HT, E.
    - destruct (depended_on s i); cbn; [exact Hs|]. unfold del. apply filter_Forall, Hs.
    - destruct (find_node s dst) as [nd|]; [|exact Hs]. destruct (find_node s src); [|exact Hs].
      destruct (set_input T (tys s) (ports_of T (n_ty nd)) (n_in nd) port src); cbn; [|exact Hs].
      apply map_node_Forall; [exact Hs|]. intros e He. cbn.
      destruct (set_input T (tys s) (ports_of T (n_ty (snd e))) (n_in (snd e)) port src); exact He.
    - destruct (find_node s dst) as [nd|]; [|exact Hs].
      destruct (clear_input (ports_of T (n_ty nd)) (n_in nd) port); cbn; [|exact Hs].
      apply map_node_Forall; [exact Hs|]. intros e He. cbn.
      destruct (clear_input (ports_of T (n_ty (snd e))) (n_in (snd e)) port); exact He.
    - destruct (find_node s i) as [n|]; [|exact Hs]. destruct (n_par n); [|exact Hs].
      destruct (value_fits (kind_of T (n_ty n)) v); cbn; [|exact Hs].
      apply map_node_Forall_at; [exact Hs|]. intros e Hin Hi He. cbn.
      destruct (value_fits (kind_of T (n_ty (snd e))) v); [|exact He].
      unfold par_canon, set_par in *. cbn. destruct (n_par (snd e)) as [r|]; [|exact I].
      destruct (vk (n_ty (snd e))) as [k|] eqn:Ek; [|exact I]. cbn. split; [|exact (proj2 He)].
      exact (Ho e k Hin Hi Ek).
    - exact Hs.
    - destruct (is_param s i); cbn; [|exact Hs]. apply map_node_Forall; [exact Hs|]. intros e He. cbn.
      apply par_canon_meta; [|exact He]. intro r. split; reflexivity.
    - destruct (is_param s i); cbn; [|exact Hs]. apply map_node_Forall; [exact Hs|]. intros e He. cbn.
      apply par_canon_meta; [|exact He]. intro r. split; reflexivity.
    - destruct (is_artifact T (tys s) i); cbn; exact Hs.
    - destruct (meta_set (split_dots path) v (i_meta s)); cbn; exact Hs.
    - destruct (meta_del (split_dots path) (i_meta s)); cbn; exact Hs.
  Qed.

  Theorem run_from_canon T : table_canon T -> forall h s,
    all_canon s -> hist_canon T s h -> all_canon (fst (run_from T s h)).
  Proof.
    intros HT. induction h as [|o r IH]; intros s Hs Hh; cbn; [exact Hs|]. destruct Hh as [Ho Hr].
    pose proof (step_canon T s o HT Hs Ho) as H1. destruct (step T s o) as [s1 ok]. cbn in *.
    specialize (IH s1 H1 Hr). destruct (run_from T s1 r) as [s2 oks]. exact IH.
  Qed.

  (* every parameter of the graph after the history holds canonical values ... *)
  Theorem run_canon T h : table_canon T -> hist_canon T empty h -> all_canon (run T h).
  Proof. intros HT Hh. unfold run. apply run_from_canon; [exact HT|constructor|exact Hh]. Qed.

  (* ... and so does the reloaded graph *)
  Theorem reload_canon T h s' :
    table_ok T -> table_canon T -> hist_canon T empty h ->
    decode_fixed T (encode T (run T h)) = Some s' -> all_canon s'.
  Proof.
    intros HT HC Hh H. rewrite reload_same_fixed in H by assumption. injection H as <-. apply run_canon; assumption.
  Qed.
End Typed.
