(* C12: the saved-graph schema (generator/schema/app.go as written by graph.Instance.EncodeToAppSchema +
   jbtf.Encoder.ToPgtf), the generic JSON value tree, and the string machinery the dependency order
   depends on: decimal printing of array indices ("Values.10"), strings.LastIndex / strings.Index
   splitting, strconv.Atoi on digit strings, strings.ToLower on ASCII, bytewise string order, and the
   two comparators (pinned: lower-cased lexicographic; repaired: dependencyNameLess).  No proofs here. *)
From Coq Require Import String Ascii DecimalString.
From PF Require Import Base.Bytes.
Open Scope N_scope.

(* ---------- JSON value tree (objects carry their keys in the order encoding/json writes them: sorted) ---------- *)
Inductive jval :=
| JNull | JBool (b : bool) | JInt (z : Z) | JNum (bits : N) | JStr (s : string)
| JArr (l : list jval) | JObj (l : list (string * jval)) | JBytes (l : list N).

Definition kv (k : string) (v : jval) : string * jval := (k, v).

Fixpoint list_eqb {A} (eqb : A -> A -> bool) (a b : list A) : bool :=
  match a, b with
  | [], [] => true
  | x :: a', y :: b' => eqb x y && list_eqb eqb a' b'
  | _, _ => false
  end.
Definition opt_eqb {A} (eqb : A -> A -> bool) (a b : option A) : bool :=
  match a, b with Some x, Some y => eqb x y | None, None => true | _, _ => false end.

Fixpoint jval_eqb (a b : jval) : bool :=
  match a, b with
  | JNull, JNull => true
  | JBool x, JBool y => Bool.eqb x y
  | JInt x, JInt y => Z.eqb x y
  | JNum x, JNum y => N.eqb x y
  | JStr x, JStr y => String.eqb x y
  | JBytes x, JBytes y => list_eqb N.eqb x y
  | JArr x, JArr y =>
      (fix go (x y : list jval) : bool :=
         match x, y with
         | [], [] => true
         | u :: x', v :: y' => jval_eqb u v && go x' y'
         | _, _ => false
         end) x y
  | JObj x, JObj y =>
      (fix go (x y : list (string * jval)) : bool :=
         match x, y with
         | [], [] => true
         | (k, u) :: x', (l, v) :: y' => String.eqb k l && jval_eqb u v && go x' y'
         | _, _ => false
         end) x y
  | _, _ => false
  end.

(* ---------- strings ---------- *)
Definition byte_of (c : ascii) : N := N_of_ascii c.

(* Go's < on strings: bytewise *)
Fixpoint str_ltb (a b : string) : bool :=
  match a, b with
  | _, EmptyString => false
  | EmptyString, String _ _ => true
  | String x a', String y b' =>
      if byte_of x <? byte_of y then true
      else if byte_of x =? byte_of y then str_ltb a' b' else false
  end.

(* strings.ToLower restricted to ASCII (port names are Go identifiers; harness names are ASCII) *)
Definition lower_char (c : ascii) : ascii :=
  let n := byte_of c in if (65 <=? n) && (n <=? 90) then ascii_of_N (n + 32) else c.
Fixpoint lower (s : string) : string :=
  match s with EmptyString => EmptyString | String c r => String (lower_char c) (lower r) end.

Definition dot : ascii := "."%char.
Definition is_dot (c : ascii) : bool := Ascii.eqb c dot.

Fixpoint no_dot (s : string) : bool :=
  match s with EmptyString => true | String c r => negb (is_dot c) && no_dot r end.

(* strings.Index(s, "."): split at the FIRST dot (nodes.Struct.SetInput) *)
Fixpoint lsplit (s : string) : option (string * string) :=
  match s with
  | EmptyString => None
  | String c r =>
      if is_dot c then Some (EmptyString, r)
      else match lsplit r with Some (a, b) => Some (String c a, b) | None => None end
  end.

(* strings.LastIndex(s, "."): split at the LAST dot (splitArrayDependencyName) *)
Fixpoint rsplit (s : string) : option (string * string) :=
  match s with
  | EmptyString => None
  | String c r =>
      match rsplit r with
      | Some (a, b) => Some (String c a, b)
      | None => if is_dot c then Some (EmptyString, r) else None
      end
  end.

(* strings.Split(s, "."): all dots (sync.NestedSyncMap paths); always at least one element *)
Fixpoint split_dots (s : string) : list string :=
  match s with
  | EmptyString => [EmptyString]
  | String c r =>
      if is_dot c then EmptyString :: split_dots r
      else match split_dots r with
           | h :: t => String c h :: t
           | [] => [String c EmptyString]
           end
  end.

(* fmt %d of a non-negative integer *)
Definition dec (n : N) : string := NilEmpty.string_of_uint (N.to_uint n).
(* strconv.Atoi on a non-empty digit string (signs are not modelled: dependency names never carry one) *)
Definition atoi (s : string) : option N :=
  match s with
  | EmptyString => None
  | _ => match NilEmpty.uint_of_string s with Some d => Some (N.of_uint d) | None => None end
  end.

Definition cat (a b : string) : string := String.append a b.
Definition arr_name (field : string) (k : N) : string := cat field (String dot (dec k)).   (* fmt.Sprintf("%s.%d") *)
Definition node_id (k : N) : string := cat "Node-" (dec k).                               (* fmt.Sprintf("Node-%d") *)

(* ---------- the two dependency-name comparators ---------- *)
(* pinned tree: strings.ToLower(a) < strings.ToLower(b) *)
Definition dep_less_pinned (a b : string) : bool := str_ltb (lower a) (lower b).

(* repaired tree (f0765c8): dependencyNameLess / splitArrayDependencyName *)
Definition split_array_name (s : string) : option (string * N) :=
  match rsplit s with
  | Some (base, idx) => match atoi idx with Some k => Some (base, k) | None => None end
  | None => None
  end.
Definition dep_less (a b : string) : bool :=
  match split_array_name a, split_array_name b with
  | Some (ba, ia), Some (bb, ib) =>
      if String.eqb (lower ba) (lower bb) then ia <? ib else str_ltb (lower a) (lower b)
  | _, _ => str_ltb (lower a) (lower b)
  end.

(* sort.Slice with a strict order on pairwise distinct keys has exactly one result; modelled as insertion
   sort ([x] goes in front of the first element it is less than) *)
Section Sort.
  Context {A : Type} (less : A -> A -> bool).
  Fixpoint insert (x : A) (l : list A) : list A :=
    match l with
    | [] => [x]
    | y :: r => if less x y then x :: y :: r else y :: insert x r
    end.
  Fixpoint isort (l : list A) : list A :=
    match l with [] => [] | x :: r => insert x (isort r) end.
End Sort.

(* ---------- the schema ---------- *)
Definition id := string.

Record sdep := mkdep { d_name : string; d_src : id; d_port : string }.      (* schema.NodeDependency *)

(* a "currentValue"/"defaultValue" slot of a parameter's data object *)
Inductive sfield :=
| FAbsent                       (* key not present *)
| FPlain (v : jval)             (* "currentValue": v *)
| FView (off len : N).          (* "$CurrentValue": index of a buffer view (offset, length) into buffer 0 *)

Record sdata := mkdata {
  s_name : string; s_desc : option string; s_cur : sfield; s_def : sfield; s_cli : option (string * string) }.

Record snode := mksnode { s_id : id; s_ty : nat; s_deps : list sdep; s_data : option sdata }.

Record schema := mkschema {
  s_nodes : list snode;                       (* JSON object: sorted by id *)
  s_prods : list (string * id * string);      (* name -> (node id, port), sorted by name *)
  s_meta : list (string * jval);              (* metadata object *)
  s_buf : list N }.                           (* buffer 0 *)

Definition dep_eqb (a b : sdep) : bool :=
  String.eqb (d_name a) (d_name b) && String.eqb (d_src a) (d_src b) && String.eqb (d_port a) (d_port b).
Definition sfield_eqb (a b : sfield) : bool :=
  match a, b with
  | FAbsent, FAbsent => true
  | FPlain x, FPlain y => jval_eqb x y
  | FView o l, FView o' l' => (o =? o') && (l =? l')
  | _, _ => false
  end.
Definition cli_eqb (a b : option (string * string)) : bool :=
  opt_eqb (fun x y => String.eqb (fst x) (fst y) && String.eqb (snd x) (snd y)) a b.
Definition sdata_eqb (a b : sdata) : bool :=
  String.eqb (s_name a) (s_name b) && opt_eqb String.eqb (s_desc a) (s_desc b)
  && sfield_eqb (s_cur a) (s_cur b) && sfield_eqb (s_def a) (s_def b) && cli_eqb (s_cli a) (s_cli b).
Definition snode_eqb (a b : snode) : bool :=
  String.eqb (s_id a) (s_id b) && Nat.eqb (s_ty a) (s_ty b)
  && list_eqb dep_eqb (s_deps a) (s_deps b) && opt_eqb sdata_eqb (s_data a) (s_data b).
Definition prod_eqb (a b : string * id * string) : bool :=
  let '(n, i, p) := a in let '(n', i', p') := b in String.eqb n n' && String.eqb i i' && String.eqb p p'.
Definition meta_eqb (a b : list (string * jval)) : bool := jval_eqb (JObj a) (JObj b).
Definition schema_eqb (a b : schema) : bool :=
  list_eqb snode_eqb (s_nodes a) (s_nodes b) && list_eqb prod_eqb (s_prods a) (s_prods b)
  && meta_eqb (s_meta a) (s_meta b) && list_eqb N.eqb (s_buf a) (s_buf b).

(* ---------- the JSON TEXT of a save ---------- *)
(* What generator.App.Schema() returns: jbtf.Encoder.ToPgtf = encoding/json's MarshalIndent(v, "", "\t") of
   { "buffers", "bufferViews" (omitted when empty), "data": schema.App } with Go's conventions: struct fields in
   declaration order, map keys sorted, omitempty fields left out, empty containers as {} / [], HTML-safe string
   escaping.  The text of a floating-point number ([show_num], strconv's shortest round-trip formatting), of the
   buffer ([show_buf], base64) and the registered name of a node type ([tyname]) are DELEGATED: Section variables
   here, with injectivity hypotheses where theorems need them.  The one thing not reproduced: encoding/json writes
   U+2028 / U+2029 (bytes E2 80 A8 / A9) as   /  ; this printer passes every byte above 0x7F through. *)
Inductive tj :=
| TNull | TBool (b : bool) | TNum (text : string) | TStr (s : string)
| TArr (l : list tj) | TObj (l : list (string * tj)).

Local Open Scope string_scope.

Definition nl : string := String (ascii_of_N 10) EmptyString.
Definition tab : ascii := ascii_of_N 9.
Fixpoint tabs (n : nat) : string := match n with O => EmptyString | S k => String tab (tabs k) end.

Definition hexdigit (n : N) : ascii := ascii_of_N (if n <? 10 then 48 + n else 87 + n)%N.   (* lower case *)
Definition u00 (n : N) : string :=
  "\u00" ++ String (hexdigit (n / 16)%N) (String (hexdigit (n mod 16)%N) EmptyString).

(* encoding/json, escapeHTML on (Go >= 1.22: \b and \f have short forms) *)
Definition esc_char (c : ascii) : string :=
  let n := byte_of c in
  if (n =? 34)%N then "\""" else if (n =? 92)%N then "\\"
  else if (n =? 10)%N then "\n" else if (n =? 13)%N then "\r" else if (n =? 9)%N then "\t"
  else if (n =? 8)%N then "\b" else if (n =? 12)%N then "\f"
  else if (n <? 32)%N then u00 n
  else if ((n =? 60) || (n =? 62) || (n =? 38))%N then u00 n
  else String c EmptyString.
Fixpoint esc (s : string) : string :=
  match s with EmptyString => EmptyString | String c r => esc_char c ++ esc r end.
Definition quote (s : string) : string := String """"%char (esc s ++ String """"%char EmptyString).

Fixpoint pp (i : nat) (v : tj) {struct v} : string :=
  match v with
  | TNull => "null"
  | TBool true => "true"
  | TBool false => "false"
  | TNum t => t
  | TStr s => quote s
  | TArr [] => "[]"
  | TArr (x :: r) =>
      "[" ++ nl ++ tabs (S i) ++ pp (S i) x
      ++ (fix go (r : list tj) : string :=
            match r with [] => EmptyString | y :: r' => "," ++ nl ++ tabs (S i) ++ pp (S i) y ++ go r' end) r
      ++ nl ++ tabs i ++ "]"
  | TObj [] => "{}"
  | TObj ((k, x) :: r) =>
      "{" ++ nl ++ tabs (S i) ++ quote k ++ ": " ++ pp (S i) x
      ++ (fix go (r : list (string * tj)) : string :=
            match r with
            | [] => EmptyString
            | (k', y) :: r' => "," ++ nl ++ tabs (S i) ++ quote k' ++ ": " ++ pp (S i) y ++ go r'
            end) r
      ++ nl ++ tabs i ++ "}"
  end.

Definition zdec (z : Z) : string :=
  match z with Z0 => "0" | Zpos p => dec (Npos p) | Zneg p => "-" ++ dec (Npos p) end.

Record header := mkhdr { h_name : string; h_version : string; h_desc : string }.

Section Render.
  Local Open Scope list_scope.
  Variable show_num : N -> string.          (* float64 bit pattern -> its JSON text *)
  Variable show_buf : list N -> string.     (* base64 (StdEncoding) of buffer 0 *)
  Variable tyname : nat -> string.          (* registered name of a node type *)
  Variable sorted_data : nat -> bool.       (* the type's data object is written with sorted keys (File / Image:
                                               jbtf re-marshals it as a map) instead of in struct order (Value[T]) *)

  Fixpoint tj_of (v : jval) : tj :=
    match v with
    | JNull => TNull
    | JBool b => TBool b
    | JInt z => TNum (zdec z)
    | JNum b => TNum (show_num b)
    | JStr s => TStr s
    | JBytes _ => TNull                      (* never part of a plain value *)
    | JArr l => TArr (map tj_of l)
    | JObj l => TObj ((fix go (l : list (string * jval)) : list (string * tj) :=
                         match l with [] => [] | (k, x) :: r => (k, tj_of x) :: go r end) l)
    end.

  Definition tnat (n : N) : tj := TNum (dec n).
  Definition tj_cli (o : option (string * string)) : tj :=
    match o with Some (f, u) => TObj [("flagName", TStr f); ("usage", TStr u)] | None => TNull end.

  (* a parameter's data object; [k] is the index the next buffer view will get.  Returns the object and the
     views (offset, length) it refers to *)
  Definition tj_field (plain view : string) (k : N) (f : sfield) : list (string * tj) * list (N * N) :=
    match f with
    | FAbsent => ([], [])
    | FPlain v => ([(plain, tj_of v)], [])
    | FView o l => ([(view, tnat k)], [(o, l)])
    end.
  Definition tj_data (sorted : bool) (k : N) (d : sdata) : tj * list (N * N) :=
    let '(cur, vc) := tj_field "currentValue" "$CurrentValue" k (s_cur d) in
    let '(def, vd) := tj_field "defaultValue" "$DefaultValue" (k + N.of_nat (length vc))%N (s_def d) in
    let desc := match s_desc d with Some x => [("description", TStr x)] | None => [] end in
    (if sorted
     then TObj ((match s_cur d with FView _ _ => cur | _ => [] end) ++ (match s_def d with FView _ _ => def | _ => [] end)
                ++ [("cli", tj_cli (s_cli d))]
                ++ (match s_cur d with FView _ _ => [] | _ => cur end) ++ (match s_def d with FView _ _ => [] | _ => def end)
                ++ desc ++ [("name", TStr (s_name d))])
     else TObj ([("name", TStr (s_name d))] ++ desc ++ cur ++ def ++ [("cli", tj_cli (s_cli d))]),
     vc ++ vd).

  Definition tj_dep (d : sdep) : tj :=
    TObj [("dependencyID", TStr (d_src d)); ("dependencyPort", TStr (d_port d)); ("name", TStr (d_name d))].

  Definition tj_node (k : N) (sn : snode) : (string * tj) * list (N * N) :=
    let deps := match s_deps sn with [] => [] | l => [("dependencies", TArr (map tj_dep l))] end in
    match s_data sn with
    | Some d => let '(o, vs) := tj_data (sorted_data (s_ty sn)) k d in
                ((s_id sn, TObj ([("type", TStr (tyname (s_ty sn)))] ++ deps ++ [("data", o)])), vs)
    | None => ((s_id sn, TObj ([("type", TStr (tyname (s_ty sn)))] ++ deps)), [])
    end.

  Fixpoint tj_nodes (k : N) (l : list snode) : list (string * tj) * list (N * N) :=
    match l with
    | [] => ([], [])
    | sn :: r => let '(e, vs) := tj_node k sn in
                 let '(es, ws) := tj_nodes (k + N.of_nat (length vs))%N r in
                 (e :: es, vs ++ ws)
    end.

  Definition tj_view (v : N * N) : tj :=
    TObj ([("buffer", tnat 0)] ++ (if (fst v =? 0)%N then [] else [("byteOffset", tnat (fst v))])
          ++ [("byteLength", tnat (snd v))]).

  Definition opt_str (k s : string) : list (string * tj) :=
    match s with EmptyString => [] | _ => [(k, TStr s)] end.

  Definition tj_schema (h : header) (sc : schema) : tj :=
    let '(ns, views) := tj_nodes 0 (s_nodes sc) in
    TObj ([("buffers", TArr [TObj [("byteLength", tnat (N.of_nat (length (s_buf sc))));
                                   ("uri", TStr (cat "data:application/octet-stream;base64," (show_buf (s_buf sc))))]])]
          ++ (match views with [] => [] | _ => [("bufferViews", TArr (map tj_view views))] end)
          ++ [("data", TObj (opt_str "description" (h_desc h)
                             ++ (match s_meta sc with [] => [] | m => [("metadata", tj_of (JObj m))] end)
                             ++ opt_str "name" (h_name h)
                             ++ [("nodes", TObj ns);
                                 ("producers", TObj (map (fun e => let '(n, i, p) := e in
                                                             (n, TObj [("nodeID", TStr i); ("port", TStr p)])) (s_prods sc)))]
                             ++ opt_str "version" (h_version h)))]).

  Definition render (h : header) (sc : schema) : string := pp 0 (tj_schema h sc).
End Render.

(* base64.StdEncoding *)
Definition b64char (n : N) : ascii :=
  ascii_of_N (if n <? 26 then 65 + n else if n <? 52 then 71 + n else if n <? 62 then n - 4 else if n =? 62 then 43 else 47)%N.
Fixpoint base64 (l : list N) : string :=
  match l with
  | a :: b :: c :: r =>
      String (b64char (a / 4)%N) (String (b64char ((a mod 4) * 16 + b / 16)%N)
        (String (b64char ((b mod 16) * 4 + c / 64)%N) (String (b64char (c mod 64)%N) (base64 r))))
  | [a; b] =>
      String (b64char (a / 4)%N) (String (b64char ((a mod 4) * 16 + b / 16)%N)
        (String (b64char ((b mod 16) * 4)%N) "="))
  | [a] => String (b64char (a / 4)%N) (String (b64char ((a mod 4) * 16)%N) "==")
  | [] => EmptyString
  end.

(* which schemas the text comparison of the binding covers: no delegated number text, no byte 0xE2 in a string *)
Fixpoint str_plain (s : string) : bool :=
  match s with EmptyString => true | String c r => negb (byte_of c =? 226)%N && str_plain r end.
Fixpoint jval_plain (v : jval) : bool :=
  match v with
  | JNum _ | JBytes _ => false
  | JStr s => str_plain s
  | JArr l => forallb jval_plain l
  | JObj l => (fix go (l : list (string * jval)) : bool :=
                 match l with [] => true | (k, x) :: r => str_plain k && jval_plain x && go r end) l
  | _ => true
  end.
Definition sfield_plain (f : sfield) : bool := match f with FPlain v => jval_plain v | _ => true end.
Definition schema_plain (sc : schema) : bool :=
  forallb (fun sn => str_plain (s_id sn)
                     && forallb (fun d => str_plain (d_name d) && str_plain (d_src d)) (s_deps sn)
                     && match s_data sn with
                        | Some d => str_plain (s_name d) && match s_desc d with Some x => str_plain x | None => true end
                                    && sfield_plain (s_cur d) && sfield_plain (s_def d)
                                    && match s_cli d with Some (f, u) => str_plain f && str_plain u | None => true end
                        | None => true
                        end) (s_nodes sc)
  && forallb (fun e => let '(n, i, _) := e in str_plain n && str_plain i) (s_prods sc)
  && jval_plain (JObj (s_meta sc)).
