(* C12: the saved-graph schema (generator/schema/app.go as written by graph.Instance.EncodeToAppSchema +
   jbtf.Encoder.ToPgtf), the generic JSON value tree, and the string machinery the dependency order
   depends on: decimal printing of array indices ("Values.10"), strings.LastIndex / strings.Index
   splitting, strconv.Atoi on digit strings, strings.ToLower on ASCII, bytewise string order, and the
   two comparators (pinned: lower-cased lexicographic; repaired: dependencyNameLess).  No proofs here. *)
From Coq Require Import String Ascii DecimalString.
From PF Require Import Base.Bytes.
Open Scope N_scope.

(* ---------- JSON value tree (objects carry their keys in the order encoding/json writes them: sorted) ---------- *)
Inductive jval :=
| JNull | JBool (b : bool) | JInt (z : Z) | JNum (bits : N) | JStr (s : string)
| JArr (l : list jval) | JObj (l : list (string * jval)) | JBytes (l : list N).

Definition kv (k : string) (v : jval) : string * jval := (k, v).

Fixpoint list_eqb {A} (eqb : A -> A -> bool) (a b : list A) : bool :=
  match a, b with
  | [], [] => true
  | x :: a', y :: b' => eqb x y && list_eqb eqb a' b'
  | _, _ => false
  end.
Definition opt_eqb {A} (eqb : A -> A -> bool) (a b : option A) : bool :=
  match a, b with Some x, Some y => eqb x y | None, None => true | _, _ => false end.

Fixpoint jval_eqb (a b : jval) : bool :=
  match a, b with
  | JNull, JNull => true
  | JBool x, JBool y => Bool.eqb x y
  | JInt x, JInt y => Z.eqb x y
  | JNum x, JNum y => N.eqb x y
  | JStr x, JStr y => String.eqb x y
  | JBytes x, JBytes y => list_eqb N.eqb x y
  | JArr x, JArr y =>
      (fix go (x y : list jval) : bool :=
         match x, y with
         | [], [] => true
         | u :: x', v :: y' => jval_eqb u v && go x' y'
         | _, _ => false
         end) x y
  | JObj x, JObj y =>
      (fix go (x y : list (string * jval)) : bool :=
         match x, y with
         | [], [] => true
         | (k, u) :: x', (l, v) :: y' => String.eqb k l && jval_eqb u v && go x' y'
         | _, _ => false
         end) x y
  | _, _ => false
  end.

(* ---------- strings ---------- *)
Definition byte_of (c : ascii) : N := N_of_ascii c.

(* Go's < on strings: bytewise *)
Fixpoint str_ltb (a b : string) : bool :=
  match a, b with
  | _, EmptyString => false
  | EmptyString, String _ _ => true
  | String x a', String y b' =>
      if byte_of x <? byte_of y then true
      else if byte_of x =? byte_of y then str_ltb a' b' else false
  end.

(* strings.ToLower restricted to ASCII (port names are Go identifiers; harness names are ASCII) *)
Definition lower_char (c : ascii) : ascii :=
  let n := byte_of c in if (65 <=? n) && (n <=? 90) then ascii_of_N (n + 32) else c.
Fixpoint lower (s : string) : string :=
  match s with EmptyString => EmptyString | String c r => String (lower_char c) (lower r) end.

Definition dot : ascii := "."%char.
Definition is_dot (c : ascii) : bool := Ascii.eqb c dot.

Fixpoint no_dot (s : string) : bool :=
  match s with EmptyString => true | String c r => negb (is_dot c) && no_dot r end.

(* strings.Index(s, "."): split at the FIRST dot (nodes.Struct.SetInput) *)
Fixpoint lsplit (s : string) : option (string * string) :=
  match s with
  | EmptyString => None
  | String c r =>
      if is_dot c then Some (EmptyString, r)
      else match lsplit r with Some (a, b) => Some (String c a, b) | None => None end
  end.

(* strings.LastIndex(s, "."): split at the LAST dot (splitArrayDependencyName) *)
Fixpoint rsplit (s : string) : option (string * string) :=
  match s with
  | EmptyString => None
  | String c r =>
      match rsplit r with
      | Some (a, b) => Some (String c a, b)
      | None => if is_dot c then Some (EmptyString, r) else None
      end
  end.

(* strings.Split(s, "."): all dots (sync.NestedSyncMap paths); always at least one element *)
Fixpoint split_dots (s : string) : list string :=
  match s with
  | EmptyString => [EmptyString]
  | String c r =>
      if is_dot c then EmptyString :: split_dots r
      else match split_dots r with
           | h :: t => String c h :: t
           | [] => [String c EmptyString]
           end
  end.

(* fmt %d of a non-negative integer *)
Definition dec (n : N) : string := NilEmpty.string_of_uint (N.to_uint n).
(* strconv.Atoi on a non-empty digit string (signs are not modelled: dependency names never carry one) *)
Definition atoi (s : string) : option N :=
  match s with
  | EmptyString => None
  | _ => match NilEmpty.uint_of_string s with Some d => Some (N.of_uint d) | None => None end
  end.

Definition cat (a b : string) : string := String.append a b.
Definition arr_name (field : string) (k : N) : string := cat field (String dot (dec k)).   (* fmt.Sprintf("%s.%d") *)
Definition node_id (k : N) : string := cat "Node-" (dec k).                               (* fmt.Sprintf("Node-%d") *)

(* ---------- the two dependency-name comparators ---------- *)
(* pinned tree: strings.ToLower(a) < strings.ToLower(b) *)
Definition dep_less_pinned (a b : string) : bool := str_ltb (lower a) (lower b).

(* repaired tree (f0765c8): dependencyNameLess / splitArrayDependencyName *)
Definition split_array_name (s : string) : option (string * N) :=
  match rsplit s with
  | Some (base, idx) => match atoi idx with Some k => Some (base, k) | None => None end
  | None => None
  end.
Definition dep_less (a b : string) : bool :=
  match split_array_name a, split_array_name b with
  | Some (ba, ia), Some (bb, ib) =>
      if String.eqb (lower ba) (lower bb) then ia <? ib else str_ltb (lower a) (lower b)
  | _, _ => str_ltb (lower a) (lower b)
  end.

(* sort.Slice with a strict order on pairwise distinct keys has exactly one result; modelled as insertion
   sort ([x] goes in front of the first element it is less than) *)
Section Sort.
  Context {A : Type} (less : A -> A -> bool).
  Fixpoint insert (x : A) (l : list A) : list A :=
    match l with
    | [] => [x]
    | y :: r => if less x y then x :: y :: r else y :: insert x r
    end.
  Fixpoint isort (l : list A) : list A :=
    match l with [] => [] | x :: r => insert x (isort r) end.
End Sort.

(* ---------- the schema ---------- *)
Definition id := string.

Record sdep := mkdep { d_name : string; d_src : id; d_port : string }.      (* schema.NodeDependency *)

(* a "currentValue"/"defaultValue" slot of a parameter's data object *)
Inductive sfield :=
| FAbsent                       (* key not present *)
| FPlain (v : jval)             (* "currentValue": v *)
| FView (off len : N).          (* "$CurrentValue": index of a buffer view (offset, length) into buffer 0 *)

Record sdata := mkdata {
  s_name : string; s_desc : option string; s_cur : sfield; s_def : sfield; s_cli : option (string * string) }.

Record snode := mksnode { s_id : id; s_ty : nat; s_deps : list sdep; s_data : option sdata }.

Record schema := mkschema {
  s_nodes : list snode;                       (* JSON object: sorted by id *)
  s_prods : list (string * id * string);      (* name -> (node id, port), sorted by name *)
  s_meta : list (string * jval);              (* metadata object *)
  s_buf : list N }.                           (* buffer 0 *)

Definition dep_eqb (a b : sdep) : bool :=
  String.eqb (d_name a) (d_name b) && String.eqb (d_src a) (d_src b) && String.eqb (d_port a) (d_port b).
Definition sfield_eqb (a b : sfield) : bool :=
  match a, b with
  | FAbsent, FAbsent => true
  | FPlain x, FPlain y => jval_eqb x y
  | FView o l, FView o' l' => (o =? o') && (l =? l')
  | _, _ => false
  end.
Definition cli_eqb (a b : option (string * string)) : bool :=
  opt_eqb (fun x y => String.eqb (fst x) (fst y) && String.eqb (snd x) (snd y)) a b.
Definition sdata_eqb (a b : sdata) : bool :=
  String.eqb (s_name a) (s_name b) && opt_eqb String.eqb (s_desc a) (s_desc b)
  && sfield_eqb (s_cur a) (s_cur b) && sfield_eqb (s_def a) (s_def b) && cli_eqb (s_cli a) (s_cli b).
Definition snode_eqb (a b : snode) : bool :=
  String.eqb (s_id a) (s_id b) && Nat.eqb (s_ty a) (s_ty b)
  && list_eqb dep_eqb (s_deps a) (s_deps b) && opt_eqb sdata_eqb (s_data a) (s_data b).
Definition prod_eqb (a b : string * id * string) : bool :=
  let '(n, i, p) := a in let '(n', i', p') := b in String.eqb n n' && String.eqb i i' && String.eqb p p'.
Definition meta_eqb (a b : list (string * jval)) : bool := jval_eqb (JObj a) (JObj b).
Definition schema_eqb (a b : schema) : bool :=
  list_eqb snode_eqb (s_nodes a) (s_nodes b) && list_eqb prod_eqb (s_prods a) (s_prods b)
  && meta_eqb (s_meta a) (s_meta b) && list_eqb N.eqb (s_buf a) (s_buf b).
