(* C12: TYPED parameter values.  Graph/Instance.v carries the value of a parameter as the JSON tree its type's own
   Marshal produces ([jval], opaque).  This file says, per registered parameter kind (generator/parameter/types.go
   plus the two extra Value[T] instantiations of the binding), WHICH trees these are and what Go value each one
   denotes:

     kind        Go type                              typed value              JSON tree (encoding/json of the Go value)
     KF64/KF32   float64 / float32                    a number atom            the atom: an int64 integer text -> JInt z,
                                                                               any other text -> JNum (float64 bits)
     KInt        int                                  z, -2^63 <= z < 2^63     JInt z
     KStr        string                               s                        JStr s
     KBool       bool                                 b                        JBool b
     KV2 / KV3   vector2/3.Float64                    atoms                    {"x":..,"y":..[,"z":..]}
     KV3Arr      []vector3.Float64                    nil | list               null | [ {x,y,z} ... ]
     KAabb       geometry.AABB                        centre, extents          {"center":{..},"extents":{..}}
     KColor      coloring.WebColor {R,G,B,A byte}     four bytes               "#rrggbb" when A = 255, else "#rrggbbaa"
     KStrs       []string                             nil | list               null | [ "..." ... ]

   [to_json] is the type's MarshalJSON, [of_json] reads a canonical tree back (FromJSON / ApplyMessage on the saved
   text).  A float is carried as the NUMBER ATOM the binding observes (never as text): which atoms a float64 can
   produce is [f64_atom_ok] — an int64 integer, or the bit pattern of a finite float64 that is not an integer below
   2^53 (so -0, subnormals, 1e300, 5e-324 are JNum atoms, 3 is a JInt atom, 3.0's bit pattern is not an atom).  Decimal
   formatting itself (strconv) is not modelled.  WebColor is modelled in full (hex printing, the 3/4/6/8 digit forms
   of the reader).  No proofs in this file. *)
From Coq Require Import String Ascii.
From PF Require Import Base.Bytes Graph.Schema.
Open Scope N_scope.

Inductive vkind := KF64 | KF32 | KInt | KStr | KBool | KV2 | KV3 | KV3Arr | KAabb | KColor | KStrs.

(* a JSON number as the binding carries it *)
Inductive num := NInt (z : Z) | NFlt (bits : N).

Definition v3 := (num * num * num)%type.

Inductive tval :=
| VNum (a : num)
| VInt (z : Z)
| VStr (s : string)
| VBool (b : bool)
| VVec2 (x y : num)
| VVec3 (v : v3)
| VVec3s (l : option (list v3))          (* a nil slice is not an empty slice: null vs [] *)
| VAabb (center extents : v3)
| VColor (r g b a : N)
| VStrs (l : option (list string)).

(* ---------- IEEE-754 binary64, as far as "is this float an int64 integer" needs it ---------- *)
Definition two52 : N := 4503599627370496.
Definition two63 : N := 9223372036854775808.
Definition two64 : N := 18446744073709551616.

Definition f_sign (b : N) : bool := two63 <=? b.
Definition f_exp (b : N) : N := (b / two52) mod 2048.
Definition f_man (b : N) : N := b mod two52.
Definition f_finite (b : N) : bool := (b <? two64) && negb (f_exp b =? 2047).

(* the integer a finite float64 denotes, when it denotes one: |v| = (2^52 + m) * 2^(e - 1075) for e > 0 *)
Definition f_int (b : N) : option Z :=
  let e := f_exp b in let m := f_man b in
  let mag : option N :=
    if (e =? 0) then (if m =? 0 then Some 0 else None)                   (* +-0, subnormals *)
    else if 1075 <=? e then Some ((two52 + m) * 2 ^ (e - 1075))
    else let d := 2 ^ (1075 - e) in
         if (two52 + m) mod d =? 0 then Some ((two52 + m) / d) else None in
  match mag with
  | Some n => Some (if f_sign b then (- Z.of_N n)%Z else Z.of_N n)
  | None => None
  end.

Definition in_int64 (z : Z) : bool := ((- Z.of_N two63 <=? z) && (z <? Z.of_N two63))%Z.

Definition two53 : Z := 9007199254740992%Z.

(* the atoms a float64 value produces.  encoding/json writes an integer-valued float below 1e21 as plain digits — the
   SHORTEST digits that read back as the float, zero-padded: exactly the integer below 2^53, possibly a neighbouring
   integer above (2^63 is written 9223372036854776000) — and the binding reads an integer text that fits int64 (and is
   not "-0") as JInt.  So: JInt z needs z in int64; JNum b needs b finite and, when b is an integer below 2^53 in
   magnitude, b = -0 *)
Definition f64_atom_ok (a : num) : bool :=
  match a with
  | NInt z => in_int64 z
  | NFlt b => f_finite b &&
              match f_int b with
              | Some z => (two53 <=? Z.abs z)%Z || (b =? two63)
              | None => true
              end
  end.
(* float32 values are written with 32-bit shortest formatting and read back as float64 texts: only finiteness *)
Definition f32_atom_ok (a : num) : bool :=
  match a with NInt z => in_int64 z | NFlt b => f_finite b end.

(* ---------- WebColor ---------- *)
Definition hexc (n : N) : ascii := ascii_of_N (if n <? 10 then 48 + n else 87 + n).    (* %x: lower case *)
Definition unhexc (c : ascii) : option N :=                                             (* ParseUint base 16: both cases *)
  let n := N_of_ascii c in
  if (48 <=? n) && (n <=? 57) then Some (n - 48)
  else if (97 <=? n) && (n <=? 102) then Some (n - 87)
  else if (65 <=? n) && (n <=? 70) then Some (n - 55)
  else None.
Definition unhex2 (c d : ascii) : option N :=
  do h <- unhexc c; do l <- unhexc d; Some (16 * h + l).

Fixpoint chars (s : string) : list ascii :=
  match s with EmptyString => [] | String c r => c :: chars r end.

Definition hash : ascii := "#"%char.

(* WebColor.MarshalJSON *)
Definition color_str (r g b a : N) : string :=
  String hash (String (hexc (r / 16)) (String (hexc (r mod 16)) (String (hexc (g / 16)) (String (hexc (g mod 16))
    (String (hexc (b / 16)) (String (hexc (b mod 16))
      (if a =? 255 then EmptyString else String (hexc (a / 16)) (String (hexc (a mod 16)) EmptyString)))))))).

(* WebColor.UnmarshalJSON on the token's text: #rgb, #rgba (digits doubled), #rrggbb, #rrggbbaa.  Other lengths are
   outside the model (the Go code slices by position: it panics or reads leniently) *)
Definition color_parse (s : string) : option (N * N * N * N) :=
  match chars s with
  | [h; c1; c2; c3] =>
      if Ascii.eqb h hash then
        do r <- unhex2 c1 c1; do g <- unhex2 c2 c2; do b <- unhex2 c3 c3; Some (r, g, b, 255)
      else None
  | [h; c1; c2; c3; c4] =>
      if Ascii.eqb h hash then
        do r <- unhex2 c1 c1; do g <- unhex2 c2 c2; do b <- unhex2 c3 c3; do a <- unhex2 c4 c4; Some (r, g, b, a)
      else None
  | [h; c1; c2; c3; c4; c5; c6] =>
      if Ascii.eqb h hash then
        do r <- unhex2 c1 c2; do g <- unhex2 c3 c4; do b <- unhex2 c5 c6; Some (r, g, b, 255)
      else None
  | [h; c1; c2; c3; c4; c5; c6; c7; c8] =>
      if Ascii.eqb h hash then
        do r <- unhex2 c1 c2; do g <- unhex2 c3 c4; do b <- unhex2 c5 c6; do a <- unhex2 c7 c8; Some (r, g, b, a)
      else None
  | _ => None
  end.

(* ---------- to_json: the type's MarshalJSON as a tree ---------- *)
Definition num_json (a : num) : jval := match a with NInt z => JInt z | NFlt b => JNum b end.
Definition v3_json (v : v3) : jval :=
  let '(x, y, z) := v in JObj [kv "x" (num_json x); kv "y" (num_json y); kv "z" (num_json z)].

Definition to_json (v : tval) : jval :=
  match v with
  | VNum a => num_json a
  | VInt z => JInt z
  | VStr s => JStr s
  | VBool b => JBool b
  | VVec2 x y => JObj [kv "x" (num_json x); kv "y" (num_json y)]
  | VVec3 v => v3_json v
  | VVec3s None => JNull
  | VVec3s (Some l) => JArr (map v3_json l)
  | VAabb c e => JObj [kv "center" (v3_json c); kv "extents" (v3_json e)]
  | VColor r g b a => JStr (color_str r g b a)
  | VStrs None => JNull
  | VStrs (Some l) => JArr (map JStr l)
  end.

(* ---------- of_json: reading a saved tree back into the Go value ---------- *)
Definition num_of (j : jval) : option num :=
  match j with JInt z => Some (NInt z) | JNum b => Some (NFlt b) | _ => None end.

Definition v3_of (j : jval) : option v3 :=
  match j with
  | JObj [(kx, x); (ky, y); (kz, z)] =>
      if String.eqb kx "x" && String.eqb ky "y" && String.eqb kz "z"
      then do a <- num_of x; do b <- num_of y; do c <- num_of z; Some (a, b, c)
      else None
  | _ => None
  end.

Fixpoint all_opt {A B} (f : A -> option B) (l : list A) : option (list B) :=
  match l with
  | [] => Some []
  | x :: r => do y <- f x; do ys <- all_opt f r; Some (y :: ys)
  end.

Definition str_of (j : jval) : option string := match j with JStr s => Some s | _ => None end.

Definition of_json (k : vkind) (j : jval) : option tval :=
  match k with
  | KF64 | KF32 => do a <- num_of j; Some (VNum a)
  | KInt => match j with JInt z => Some (VInt z) | _ => None end
  | KStr => match j with JStr s => Some (VStr s) | _ => None end
  | KBool => match j with JBool b => Some (VBool b) | _ => None end
  | KV2 =>
      match j with
      | JObj [(kx, x); (ky, y)] =>
          if String.eqb kx "x" && String.eqb ky "y" then do a <- num_of x; do b <- num_of y; Some (VVec2 a b) else None
      | _ => None
      end
  | KV3 => do v <- v3_of j; Some (VVec3 v)
  | KV3Arr =>
      match j with
      | JNull => Some (VVec3s None)
      | JArr l => do vs <- all_opt v3_of l; Some (VVec3s (Some vs))
      | _ => None
      end
  | KAabb =>
      match j with
      | JObj [(kc, c); (ke, e)] =>
          if String.eqb kc "center" && String.eqb ke "extents"
          then do a <- v3_of c; do b <- v3_of e; Some (VAabb a b) else None
      | _ => None
      end
  | KColor =>
      match j with
      | JStr s => match color_parse s with Some (r, g, b, a) => Some (VColor r g b a) | None => None end
      | _ => None
      end
  | KStrs =>
      match j with
      | JNull => Some (VStrs None)
      | JArr l => do ss <- all_opt str_of l; Some (VStrs (Some ss))
      | _ => None
      end
  end.

(* ---------- which typed values a kind holds ---------- *)
Definition v3_ok (ok : num -> bool) (v : v3) : bool := let '(x, y, z) := v in ok x && ok y && ok z.
Definition byte_ok (n : N) : bool := n <? 256.

Definition wf (k : vkind) (v : tval) : bool :=
  match k, v with
  | KF64, VNum a => f64_atom_ok a
  | KF32, VNum a => f32_atom_ok a
  | KInt, VInt z => in_int64 z
  | KStr, VStr _ => true
  | KBool, VBool _ => true
  | KV2, VVec2 x y => f64_atom_ok x && f64_atom_ok y
  | KV3, VVec3 v => v3_ok f64_atom_ok v
  | KV3Arr, VVec3s None => true
  | KV3Arr, VVec3s (Some l) => forallb (v3_ok f64_atom_ok) l
  | KAabb, VAabb c e => v3_ok f64_atom_ok c && v3_ok f64_atom_ok e
  | KColor, VColor r g b a => byte_ok r && byte_ok g && byte_ok b && byte_ok a
  | KStrs, VStrs _ => true
  | _, _ => false
  end.

(* a tree is the saved form of a value of kind k: it reads back to a well-formed value that prints as this very
   tree (what the binding checks of every value it hands to the model and of every value it finds in a save) *)
Definition canonical (k : vkind) (j : jval) : bool :=
  match of_json k j with
  | Some v => wf k v && jval_eqb (to_json v) j
  | None => false
  end.
