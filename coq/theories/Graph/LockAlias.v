(* C13 -- responses that ALIAS parameter storage (slice-backed responses: the []byte ParameterData returns for a
   parameter.File, basics.Binary{Data: ...} artifacts).

   Model: a heap of byte buffers; the parameter holds the address and length of its current buffer; a response to a
   read is a REFERENCE (address, length) into the heap -- a Go slice header -- not a copy.  What a client that
   retained the response sees later is [deref] of the heap at that later time.
     adopt    (HEAD: File.ApplyMessage stores the uploaded slice -- a buffer nobody writes again):
              an upload allocates a fresh buffer and points the parameter to it;
     in place (seeded change C13-B: append(buf[:0], msg...)): an upload that fits the capacity of the current
              buffer overwrites it.
   [adopt_responses_are_values]: with adopt every retained response dereferences, after ANY later operations, to
   exactly the specification's value at the time of the read (the last payload uploaded before it).
   [inplace_responses_refuted]: in place, a retained response later shows another value, or a mixture. *)
From Coq Require Import List NArith Arith Lia.
Import ListNotations.

Inductive aop := AUpload (payload : list N) | ARead.

Record ast := mkast { a_heap : list (list N); a_cur : nat; a_len : nat }.
Definition ref := (nat * nat)%type.                    (* slice header: buffer address, length *)
Definition deref (h : list (list N)) (r : ref) : list N := firstn (snd r) (nth (fst r) h []).

Fixpoint replace_nth {A} (k : nat) (x : A) (l : list A) : list A :=
  match l, k with
  | [], _ => []
  | _ :: r, O => x :: r
  | y :: r, S k' => y :: replace_nth k' x r
  end.

Definition step_adopt (s : ast) (o : aop) : ast * option ref :=
  match o with
  | AUpload p => (mkast (a_heap s ++ [p]) (length (a_heap s)) (length p), None)
  | ARead => (s, Some (a_cur s, a_len s))
  end.

Definition step_inplace (s : ast) (o : aop) : ast * option ref :=
  match o with
  | AUpload p =>
      let buf := nth (a_cur s) (a_heap s) [] in
      if length p <=? length buf                          (* fits the capacity: append(buf[:0], p...) *)
      then (mkast (replace_nth (a_cur s) (p ++ skipn (length p) buf) (a_heap s)) (a_cur s) (length p), None)
      else (mkast (a_heap s ++ [p]) (length (a_heap s)) (length p), None)
  | ARead => (s, Some (a_cur s, a_len s))
  end.

Definition arun (step : ast -> aop -> ast * option ref) (s : ast) (l : list aop) : ast :=
  fold_left (fun s o => fst (step s o)) l s.

(* the specification's value of the parameter: the last payload uploaded (initially [v0]) *)
Definition spec_value (v0 : list N) (l : list aop) : list N :=
  fold_left (fun v o => match o with AUpload p => p | ARead => v end) l v0.

Definition wf (s : ast) (v : list N) : Prop :=
  a_cur s < length (a_heap s) /\ deref (a_heap s) (a_cur s, a_len s) = v.

Lemma adopt_wf : forall l s v, wf s v -> wf (arun step_adopt s l) (spec_value v l).
Proof.
  induction l as [|o l IH]; intros s v H; [exact H|].
  unfold arun, spec_value in *. simpl. apply IH. destruct o as [p|]; simpl; [|exact H].
  unfold wf, deref. simpl. rewrite app_length. simpl. split; [lia|].
  rewrite app_nth2 by lia. rewrite Nat.sub_diag. simpl. apply firstn_all.
Qed.

Lemma adopt_extends : forall l s, exists ext, a_heap (arun step_adopt s l) = a_heap s ++ ext.
Proof.
  induction l as [|o l IH]; intros s; [exists []; simpl; rewrite app_nil_r; reflexivity|].
  unfold arun in *. simpl. destruct (IH (fst (step_adopt s o))) as [ext E]. rewrite E.
  destruct o as [p|]; simpl; [|exists ext; reflexivity].
  exists ([p] ++ ext). rewrite <- app_assoc. reflexivity.
Qed.

(* Adopt: a response obtained after [l1] (any mix of uploads and reads), looked at after ANY continuation [l2],
   still shows the specification's value at the time of the read -- the response is a value. *)
Theorem adopt_responses_are_values : forall s0 v0 l1 l2,
  wf s0 v0 ->
  let s1 := arun step_adopt s0 l1 in
  forall r, snd (step_adopt s1 ARead) = Some r ->
    deref (a_heap s1) r = spec_value v0 l1 /\
    deref (a_heap (arun step_adopt s1 l2)) r = spec_value v0 l1.
Proof.
  intros s0 v0 l1 l2 H s1 r Hr. simpl in Hr. inversion Hr; subst r.
  destruct (adopt_wf l1 s0 v0 H) as [Hc Hv]. fold s1 in Hc, Hv.
  split; [exact Hv|].
  destruct (adopt_extends l2 s1) as [ext E]. rewrite E. unfold deref in *. simpl in *.
  rewrite app_nth1 by exact Hc. exact Hv.
Qed.

(* In place: the response retained before an upload of the same size shows the NEW value afterwards; before a
   shorter upload it shows a MIXTURE of the new and the old contents (neither value ever held by the parameter). *)
Theorem inplace_responses_refuted :
  let s0 := mkast [[1; 1; 1; 1]%N] 0 4 in
  (exists r, snd (step_inplace s0 ARead) = Some r /\
     deref (a_heap s0) r = [1; 1; 1; 1]%N /\
     deref (a_heap (arun step_inplace s0 [AUpload [2; 2; 2; 2]%N])) r = [2; 2; 2; 2]%N) /\
  (exists r, snd (step_inplace s0 ARead) = Some r /\
     deref (a_heap (arun step_inplace s0 [AUpload [2; 2]%N])) r = [2; 2; 1; 1]%N).
Proof. split; eexists; repeat split; reflexivity. Qed.

(* ... while the same two histories under adopt leave the retained response alone *)
Example adopt_same_histories :
  let s0 := mkast [[1; 1; 1; 1]%N] 0 4 in
  deref (a_heap (arun step_adopt s0 [AUpload [2; 2; 2; 2]%N])) (0, 4) = [1; 1; 1; 1]%N /\
  deref (a_heap (arun step_adopt s0 [AUpload [2; 2]%N])) (0, 4) = [1; 1; 1; 1]%N.
Proof. split; reflexivity. Qed.
