(* C13 -- proofs about the small-step lock semantics of Graph/Lock.v:
   C. mutual exclusion (for ANY guard assignment); with every entry point guarded (what [lock_facts_ok] gives),
      every reachable trace is linearizable w.r.t. the sequential specification, linearization point = Acquire
   D. what the lock buys: with the Artifact guard false a mixed snapshot is reachable; with the UpdateParameter
      guard false a version increment is lost. *)
From Coq Require Import List NArith Arith Bool String Lia Sorting.Sorted Sorting.Permutation.
From PF Require Import Graph.Lock Graph.LockProofs.
Import ListNotations.

(* ================================================================== *)
(** * lock facts -> every operation is guarded *)

Lemma lock_facts_guard : forall fs, lock_facts_ok fs = true -> forall o, guard_of fs o = true.
Proof.
  intros fs H o. unfold lock_facts_ok, entry_points in H. simpl in H.
  repeat (apply andb_true_iff in H; destruct H as [? H]).
  unfold guard_of. destruct o; simpl; assumption.
Qed.

(* ================================================================== *)
(** * the step function, case by case *)

Lemma set_thr_same : forall f t x, set_thr f t x t = x.
Proof. intros. unfold set_thr. rewrite Nat.eqb_refl. reflexivity. Qed.

Lemma set_thr_other : forall f t x u, u <> t -> set_thr f t x u = f u.
Proof. intros. unfold set_thr. apply Nat.eqb_neq in H. rewrite H. reflexivity. Qed.

Inductive step_spec (G : op -> bool) (c : config) (t : tid) : config -> label -> Prop :=
| SInv : forall o rest,
    ts_cur (c_thr c t) = Idle -> ts_prog (c_thr c t) = o :: rest ->
    step_spec G c t
      (mkcfg (c_vals c) (c_ver c) (c_lock c) (S (c_time c))
             (set_thr (c_thr c) t (mkts rest (InCall o (c_time c) (call_prog (G o) o) [] 0%N))))
      (LInv o)
| SResp : forall o inv acc tmp,
    ts_cur (c_thr c t) = InCall o inv [] acc tmp ->
    step_spec G c t
      (mkcfg (c_vals c) (c_ver c) (c_lock c) (S (c_time c))
             (set_thr (c_thr c) t (mkts (ts_prog (c_thr c t)) Idle)))
      (LResp (mkcall t o (result o acc) inv (c_time c)))
| SAcq : forall o inv ms acc tmp,
    ts_cur (c_thr c t) = InCall o inv (MAcq :: ms) acc tmp -> c_lock c = None ->
    step_spec G c t
      (mkcfg (c_vals c) (c_ver c) (Some t) (S (c_time c))
             (set_thr (c_thr c) t (mkts (ts_prog (c_thr c t)) (InCall o inv ms acc tmp))))
      (LStep MAcq)
| SRel : forall o inv ms acc tmp,
    ts_cur (c_thr c t) = InCall o inv (MRel :: ms) acc tmp -> c_lock c = Some t ->
    step_spec G c t
      (mkcfg (c_vals c) (c_ver c) None (S (c_time c))
             (set_thr (c_thr c) t (mkts (ts_prog (c_thr c t)) (InCall o inv ms acc tmp))))
      (LStep MRel)
| SPlain : forall o inv m ms acc tmp vals' ver' acc' tmp',
    ts_cur (c_thr c t) = InCall o inv (m :: ms) acc tmp -> m <> MAcq -> m <> MRel ->
    apply_plain m (c_vals c, c_ver c, acc, tmp) = (vals', ver', acc', tmp') ->
    step_spec G c t
      (mkcfg vals' ver' (c_lock c) (S (c_time c))
             (set_thr (c_thr c) t (mkts (ts_prog (c_thr c t)) (InCall o inv ms acc' tmp'))))
      (LStep m).

Lemma step_inv : forall G c t c' l, step G c t = Some (c', l) -> step_spec G c t c' l.
Proof.
  intros G c t c' l H. unfold step in H.
  destruct (ts_cur (c_thr c t)) as [|o inv ms acc tmp] eqn:E.
  - destruct (ts_prog (c_thr c t)) as [|o rest] eqn:EP; [discriminate|].
    inversion H; subst. eapply SInv; eauto.
  - destruct ms as [|m ms].
    + inversion H; subst. eapply SResp; eauto.
    + destruct m.
      * destruct (c_lock c) eqn:EL; [discriminate|]. inversion H; subst. eapply SAcq; eauto.
      * destruct (c_lock c) as [h|] eqn:EL; [|discriminate].
        destruct (Nat.eqb h t) eqn:Eh; [|discriminate]. apply Nat.eqb_eq in Eh. subst h.
        inversion H; subst. eapply SRel; eauto.
      * destruct (apply_plain (MRead p) (c_vals c, c_ver c, acc, tmp)) as [[[v r] a] tm] eqn:EA.
        inversion H; subst. eapply SPlain; eauto; discriminate.
      * destruct (apply_plain (MWrite p v) (c_vals c, c_ver c, acc, tmp)) as [[[v' r] a] tm] eqn:EA.
        inversion H; subst. eapply SPlain; eauto; discriminate.
      * destruct (apply_plain MVerLoad (c_vals c, c_ver c, acc, tmp)) as [[[v' r] a] tm] eqn:EA.
        inversion H; subst. eapply SPlain; eauto; discriminate.
      * destruct (apply_plain MVerStore (c_vals c, c_ver c, acc, tmp)) as [[[v' r] a] tm] eqn:EA.
        inversion H; subst. eapply SPlain; eauto; discriminate.
Qed.

(* ================================================================== *)
(** * C1. mutual exclusion, for any guard assignment *)

Definition plain (ms : list mstep) : Prop := ~ In MAcq ms /\ ~ In MRel ms.

Lemma body_plain : forall o, plain (body o).
Proof.
  destruct o; unfold plain; simpl; try (split; intros H; intuition discriminate).
  all: split; intro H; apply in_map_iff in H; destruct H as [q [E _]]; discriminate.
Qed.

Lemma plain_tail : forall m ms, plain (m :: ms) -> plain ms.
Proof. unfold plain; simpl; intros; tauto. Qed.

Definition mi_thread (c : config) (t : tid) : Prop :=
  match ts_cur (c_thr c t) with
  | Idle => c_lock c <> Some t
  | InCall o inv ms acc tmp =>
      (c_lock c <> Some t /\ (plain ms \/ exists b, ms = MAcq :: b ++ [MRel] /\ plain b)) \/
      (c_lock c = Some t /\ exists b, ms = b ++ [MRel] /\ plain b)
  end.

Lemma mi_step : forall G c t c' l,
  step G c t = Some (c', l) -> (forall u, mi_thread c u) -> forall u, mi_thread c' u.
Proof.
  intros G c t c' l Hs HI u. apply step_inv in Hs.
  destruct (Nat.eq_dec u t) as [->|Hne].
  - specialize (HI t). unfold mi_thread in *.
    destruct Hs; cbn [c_thr c_lock]; rewrite set_thr_same; cbn [ts_cur]; rewrite H in HI.
    + left. split; [exact HI|]. unfold call_prog. destruct (G o).
      * right. exists (body o). split; [reflexivity | apply body_plain].
      * left. apply body_plain.
    + destruct HI as [[HL _]|[_ [b [E _]]]]; [exact HL|]. destruct b; discriminate.
    + destruct HI as [[_ [HP|[b [E HP]]]]|[HL _]].
      * exfalso. apply (proj1 HP). left. reflexivity.
      * right. split; [reflexivity|]. exists b. inversion E; subst. split; [reflexivity | exact HP].
      * congruence.
    + destruct HI as [[HL _]|[_ [b [E HP]]]]; [congruence|].
      left. split; [discriminate|]. left.
      destruct b as [|m b]; simpl in E.
      * inversion E; subst. unfold plain; simpl; tauto.
      * inversion E; subst. exfalso. apply (proj2 HP). left. reflexivity.
    + destruct HI as [[HL [HP|[b [E HP]]]]|[HL [b [E HP]]]].
      * left. split; [exact HL|]. left. eapply plain_tail; eauto.
      * inversion E; subst. congruence.
      * right. split; [exact HL|]. destruct b as [|m' b]; simpl in E; inversion E; subst.
        -- congruence.
        -- exists b. split; [reflexivity | eapply plain_tail; eauto].
  - pose proof (HI u) as Hu. pose proof (HI t) as Ht. unfold mi_thread in *.
    destruct Hs; cbn [c_thr c_lock]; rewrite set_thr_other by assumption;
      destruct (ts_cur (c_thr c u)) as [|o' inv' ms' acc'' tmp''] eqn:Eu; try exact Hu.
    + congruence.
    + destruct Hu as [[HL X]|[HL X]]; [left; split; [congruence | exact X] | congruence].
    + discriminate.
    + destruct Hu as [[HL X]|[HL X]]; [left; split; [discriminate | exact X] | congruence].
Qed.

Lemma mi_reach : forall G s programs c tr,
  reach G (init_config s programs) c tr -> forall u, mi_thread c u.
Proof.
  intros G s programs c tr H. induction H.
  - intro u. unfold mi_thread, init_config. simpl. discriminate.
  - eapply mi_step; eauto.
Qed.

Theorem lock_held_iff_in_cs : forall G s programs c tr,
  reach G (init_config s programs) c tr -> forall t, in_cs c t <-> c_lock c = Some t.
Proof.
  intros G s programs c tr H t. pose proof (mi_reach _ _ _ _ _ H t) as M.
  unfold mi_thread, in_cs in *. destruct (ts_cur (c_thr c t)) as [|o inv ms acc tmp].
  - split; [tauto | intro; contradiction].
  - destruct M as [[HL [HP|[b [E HP]]]]|[HL [b [E HP]]]].
    + split; [intros [X _]; exfalso; apply (proj2 HP); exact X | intro; contradiction].
    + split; [intros [_ X]; exfalso; apply X; subst; left; reflexivity | intro; contradiction].
    + split; [intro; exact HL|]. intros _. subst ms. split.
      * apply in_or_app. right. left. reflexivity.
      * intro X. apply in_app_or in X. destruct X as [X|[X|[]]]; [apply (proj1 HP); exact X | discriminate].
Qed.

Theorem mutex : forall G s programs c tr,
  reach G (init_config s programs) c tr -> forall t u, in_cs c t -> in_cs c u -> t = u.
Proof.
  intros G s programs c tr H t u Ht Hu.
  apply (lock_held_iff_in_cs _ _ _ _ _ H) in Ht. apply (lock_held_iff_in_cs _ _ _ _ _ H) in Hu. congruence.
Qed.

(* ================================================================== *)
(** * C2. every entry point guarded => every reachable trace is linearizable (point = Acquire) *)

(* ghost log, newest first: (call record, time of its Acquire step, has it responded) *)
Notation lent := (call * nat * bool)%type.
Definition le_call (e : lent) : call := fst (fst e).
Definition le_acq (e : lent) : nat := snd (fst e).
Definition le_done (e : lent) : bool := snd e.

Definition acqs (L : list lent) : list nat := map le_acq L.
Definition ors (L : list lent) : list (op * resp) := map (fun e => (c_op (le_call e), c_resp (le_call e))) L.

Fixpoint replay (s : state) (os : list op) : state :=
  match os with
  | [] => s
  | o :: r => fst (seq_step (replay s r) o)
  end.
Definition SL (s : state) (L : list lent) : state := replay s (map fst (ors L)).

Fixpoint legal_rev (s : state) (l : list (op * resp)) : Prop :=
  match l with
  | [] => True
  | x :: r => snd x = snd (seq_step (replay s (map fst r)) (fst x)) /\ legal_rev s r
  end.

Definition ent_ok (now : nat) (e : lent) : Prop :=
  c_inv (le_call e) < le_acq e /\ le_acq e < now /\ (le_done e = true -> le_acq e < c_res (le_call e)).

Definition pend_of (t : tid) (e : lent) : bool := negb (le_done e) && Nat.eqb (c_tid (le_call e)) t.
Definition npend (t : tid) (L : list lent) : nat := List.length (filter (pend_of t) L).

Definition thr_inv (s : state) (c : config) (L : list lent) (t : tid) : Prop :=
  match ts_cur (c_thr c t) with
  | Idle => c_lock c <> Some t /\ npend t L = 0
  | InCall o inv ms acc tmp =>
      inv < c_time c /\
      ( (ms = call_prog true o /\ acc = [] /\ c_lock c <> Some t /\ npend t L = 0)
        \/ (c_lock c = Some t /\ npend t L = 1 /\
            exists b a L', ms = b ++ [MRel] /\ plain b /\
              L = (mkcall t o (snd (seq_step (SL s L') o)) inv 0, a, false) :: L' /\
              exists acc' tmp', run_ms b (c_vals c, c_ver c, acc, tmp) = (st_vals (SL s L), st_ver (SL s L), acc', tmp')
                                /\ result o acc' = snd (seq_step (SL s L') o))
        \/ (ms = [] /\ c_lock c <> Some t /\ npend t L = 1 /\
            exists a, In (mkcall t o (result o acc) inv 0, a, false) L) )
  end.

Record INV (s : state) (c : config) (tr : list event) (L : list lent) : Prop := {
  inv_sorted : StronglySorted gt (acqs L);
  inv_ent : Forall (ent_ok (c_time c)) L;
  inv_legal : legal_rev s (ors L);
  inv_perm : Permutation (calls_of tr) (map le_call (filter le_done L));
  inv_state : c_lock c = None -> c_vals c = st_vals (SL s L) /\ c_ver c = st_ver (SL s L);
  inv_thr : forall t, thr_inv s c L t
}.

(* ---- small facts *)
Lemma ent_ok_mono : forall n m e, n <= m -> ent_ok n e -> ent_ok m e.
Proof. unfold ent_ok. intros. intuition lia. Qed.

Lemma Forall_ent_mono : forall n m L, n <= m -> Forall (ent_ok n) L -> Forall (ent_ok m) L.
Proof. intros. eapply Forall_impl; [|eassumption]. intros. eapply ent_ok_mono; eauto. Qed.

Lemma npend_cons : forall t e L, npend t (e :: L) = (if pend_of t e then 1 else 0) + npend t L.
Proof. intros. unfold npend. simpl. destruct (pend_of t e); reflexivity. Qed.

Lemma npend_app : forall t l1 l2, npend t (l1 ++ l2) = npend t l1 + npend t l2.
Proof. intros. unfold npend. rewrite filter_app, app_length. reflexivity. Qed.

Lemma npend_zero_none : forall t L e, npend t L = 0 -> In e L -> pend_of t e = false.
Proof.
  intros t L e H Hin. destruct (pend_of t e) eqn:E; auto.
  assert (In e (filter (pend_of t) L)) by (apply filter_In; auto).
  unfold npend in H. destruct (filter (pend_of t) L); [contradiction | discriminate].
Qed.

Lemma npend_one_uniq : forall t L a b,
  npend t L = 1 -> In a L -> In b L -> pend_of t a = true -> pend_of t b = true -> a = b.
Proof.
  induction L as [|h L IH]; intros a b H Ha Hb Pa Pb; [contradiction|].
  rewrite npend_cons in H. destruct (pend_of t h) eqn:Eh.
  - assert (H0 : npend t L = 0) by lia.
    assert (forall x, In x (h :: L) -> pend_of t x = true -> x = h).
    { intros x [->|Hx] Px; auto. rewrite (npend_zero_none _ _ _ H0 Hx) in Px. discriminate. }
    rewrite (H1 a Ha Pa), (H1 b Hb Pb). reflexivity.
  - simpl in H. destruct Ha as [->|Ha]; [congruence|]. destruct Hb as [->|Hb]; [congruence|].
    eapply IH; eauto.
Qed.

Lemma run_ms_cons : forall m ms st, run_ms (m :: ms) st = run_ms ms (apply_plain m st).
Proof. reflexivity. Qed.

Lemma run_reads : forall f vals ver acc tmp,
  run_ms (map MRead f) (vals, ver, acc, tmp) = (vals, ver, acc ++ map vals f, tmp).
Proof.
  induction f as [|p f IH]; intros; cbn [map].
  - unfold run_ms. simpl. rewrite app_nil_r. reflexivity.
  - rewrite run_ms_cons. cbn [apply_plain]. rewrite IH. rewrite <- app_assoc. reflexivity.
Qed.

(* the body of a call, run without interference from the state [x], computes the sequential step *)
Lemma body_correct : forall o x tmp,
  exists acc' tmp',
    run_ms (body o) (st_vals x, st_ver x, [], tmp) =
      (st_vals (fst (seq_step x o)), st_ver (fst (seq_step x o)), acc', tmp')
    /\ result o acc' = snd (seq_step x o).
Proof.
  intros o x tmp. destruct o; simpl.
  - eexists. eexists. split; reflexivity.
  - eexists. eexists. split; reflexivity.
  - eexists. eexists. split; reflexivity.
  - rewrite run_reads. eexists. eexists. split; reflexivity.
  - rewrite run_reads. eexists. eexists. split; [reflexivity|]. simpl.
    replace (combine f (map (st_vals x) f)) with (map (fun p => (p, st_vals x p)) f); [reflexivity|].
    clear. induction f as [|p f IH]; simpl; [reflexivity | rewrite IH; reflexivity].
Qed.

Lemma SL_cons : forall s e L, SL s (e :: L) = fst (seq_step (SL s L) (c_op (le_call e))).
Proof. reflexivity. Qed.

(* replacing one entry by one with the same operation, response and acquire time *)
Section Flip.
  Variables (l1 l2 : list lent) (e e' : lent).
  Hypothesis Hop : c_op (le_call e') = c_op (le_call e).
  Hypothesis Hresp : c_resp (le_call e') = c_resp (le_call e).
  Hypothesis Hacq : le_acq e' = le_acq e.

  Lemma flip_ors : ors (l1 ++ e' :: l2) = ors (l1 ++ e :: l2).
  Proof. unfold ors. rewrite !map_app. simpl. rewrite Hop, Hresp. reflexivity. Qed.

  Lemma flip_acqs : acqs (l1 ++ e' :: l2) = acqs (l1 ++ e :: l2).
  Proof. unfold acqs. rewrite !map_app. simpl. rewrite Hacq. reflexivity. Qed.

  Lemma flip_SL : forall s, SL s (l1 ++ e' :: l2) = SL s (l1 ++ e :: l2).
  Proof. intro s. unfold SL. rewrite flip_ors. reflexivity. Qed.
End Flip.

(* ---- the invariant holds initially *)
Lemma INV_init : forall s programs, INV s (init_config s programs) [] [].
Proof.
  intros. constructor; simpl.
  - constructor.
  - constructor.
  - exact I.
  - constructor.
  - intros _. split; reflexivity.
  - intro t. unfold thr_inv. simpl. split; [discriminate | reflexivity].
Qed.

(* a thread that does not hold the lock and does not move keeps its invariant *)
Lemma thr_inv_other : forall s c c' L L' u,
  ts_cur (c_thr c' u) = ts_cur (c_thr c u) ->
  c_time c <= c_time c' ->
  c_lock c <> Some u -> c_lock c' <> Some u ->
  npend u L' = npend u L ->
  (forall x a, c_tid x = u -> In (x, a, false) L -> In (x, a, false) L') ->
  thr_inv s c L u -> thr_inv s c' L' u.
Proof.
  intros s c c' L L' u Hcur Htime HL HL' Hn Hin H. unfold thr_inv in *. rewrite Hcur.
  destruct (ts_cur (c_thr c u)) as [|o inv ms acc tmp].
  - rewrite Hn. tauto.
  - destruct H as [Hi [H|[H|H]]].
    + split; [lia|]. left. rewrite Hn. tauto.
    + tauto.
    + split; [lia|]. right. right. rewrite Hn. destruct H as [? [? [? [a Ha]]]].
      repeat split; auto. exists a. apply Hin; auto.
Qed.

Lemma option_eq_dec_tid : forall (l : option tid) (u : tid), {l = Some u} + {l <> Some u}.
Proof. intros. decide equality. apply Nat.eq_dec. Qed.

Lemma thr_inv_keep : forall s c c' L u,
  ts_cur (c_thr c' u) = ts_cur (c_thr c u) ->
  c_time c <= c_time c' -> c_lock c' = c_lock c -> c_vals c' = c_vals c -> c_ver c' = c_ver c ->
  thr_inv s c L u -> thr_inv s c' L u.
Proof.
  intros s c c' L u Hcur Ht HL Hv Hr H. unfold thr_inv in *. rewrite Hcur, HL, Hv, Hr.
  destruct (ts_cur (c_thr c u)); [exact H|]. destruct H as [Hi H]. split; [lia | exact H].
Qed.

Lemma call_prog_true : forall o, call_prog true o = MAcq :: body o ++ [MRel].
Proof. reflexivity. Qed.

Lemma calls_of_cons : forall t l tr,
  calls_of ((t, l) :: tr) = match l with LResp x => x :: calls_of tr | _ => calls_of tr end.
Proof. intros. unfold calls_of. simpl. destruct l; reflexivity. Qed.

Lemma acqs_lt : forall now L, Forall (ent_ok now) L -> Forall (fun a => now > a) (acqs L).
Proof.
  intros now L H. apply Forall_forall. intros a Ha. unfold acqs in Ha. apply in_map_iff in Ha.
  destruct Ha as [e [<- He]]. rewrite Forall_forall in H. destruct (H e He) as [_ [X _]]. lia.
Qed.

Lemma pend_of_other : forall u t e, c_tid (le_call e) = t -> u <> t -> pend_of u e = false.
Proof.
  intros u t e <- Hne. unfold pend_of. apply andb_false_iff. right. apply Nat.eqb_neq. congruence.
Qed.

Lemma npend_flip_other : forall u t l1 l2 e e',
  u <> t -> c_tid (le_call e) = t -> c_tid (le_call e') = t ->
  npend u (l1 ++ e' :: l2) = npend u (l1 ++ e :: l2).
Proof.
  intros. rewrite !npend_app, !npend_cons.
  rewrite (pend_of_other u t e), (pend_of_other u t e') by assumption. reflexivity.
Qed.

(* ---- the invariant is preserved by every step *)
Lemma INV_step : forall G s c tr L t c' l,
  (forall o, G o = true) -> INV s c tr L -> step G c t = Some (c', l) ->
  exists L', INV s c' ((t, l) :: tr) L'.
Proof.
  intros G s c tr L t c' l HG HI Hs. apply step_inv in Hs.
  destruct HI as [Hsort Hent Hleg Hperm Hst Hthr].
  pose proof (Hthr t) as Ht. unfold thr_inv in Ht.
  destruct Hs as [o rest Hcur Hprog | o inv acc tmp Hcur | o inv ms acc tmp Hcur HL0
                  | o inv ms acc tmp Hcur HL0 | o inv m ms acc tmp vals' ver' acc' tmp' Hcur Hm1 Hm2 HA];
    rewrite Hcur in Ht.
  - (* invocation *)
    destruct Ht as [HLt Hnt].
    exists L. constructor; cbn [c_time c_lock c_vals c_ver c_thr].
    + exact Hsort.
    + eapply Forall_ent_mono; [|eassumption]. lia.
    + exact Hleg.
    + rewrite calls_of_cons. exact Hperm.
    + exact Hst.
    + intro u. destruct (Nat.eq_dec u t) as [->|Hne].
      * unfold thr_inv. cbn [c_time c_lock c_vals c_ver c_thr]. rewrite set_thr_same. cbn [ts_cur].
        split; [lia|]. left. rewrite HG. auto.
      * eapply thr_inv_keep; [| | | | | apply Hthr]; cbn [c_time c_lock c_vals c_ver c_thr]; auto.
        rewrite set_thr_other by assumption. reflexivity.
  - (* response: the thread's pending entry becomes a completed call *)
    destruct Ht as [Hi [[E _]|[[_ [_ [b [a [L' [E _]]]]]]|[_ [HLt [Hnt [a Hin]]]]]]].
    { discriminate. } { destruct b; discriminate. }
    apply in_split in Hin. destruct Hin as [l1 [l2 EL]].
    set (e := (mkcall t o (result o acc) inv 0, a, false)) in *.
    set (e' := (mkcall t o (result o acc) inv (c_time c), a, true)).
    assert (Hent' : Forall (ent_ok (c_time c)) (l1 ++ e :: l2)) by (rewrite <- EL; exact Hent).
    exists (l1 ++ e' :: l2). constructor; cbn [c_time c_lock c_vals c_ver c_thr].
    + rewrite (flip_acqs l1 l2 e e') by reflexivity. rewrite <- EL. exact Hsort.
    + apply Forall_app in Hent'. destruct Hent' as [H1 H2]. inversion H2 as [|? ? He H2']; subst.
      apply Forall_app. split; [eapply Forall_ent_mono; [|exact H1]; lia|].
      constructor; [|eapply Forall_ent_mono; [|exact H2']; lia].
      destruct He as [A [B _]]. unfold ent_ok, e', le_call, le_acq, le_done in *. simpl in *.
      repeat split; try lia.
    + rewrite (flip_ors l1 l2 e e') by reflexivity. rewrite <- EL. exact Hleg.
    + rewrite calls_of_cons. rewrite EL in Hperm. rewrite filter_app, map_app in *. simpl in *.
      apply Permutation_cons_app. exact Hperm.
    + intro HLn. rewrite (flip_SL l1 l2 e e') by reflexivity. rewrite <- EL. auto.
    + intro u. destruct (Nat.eq_dec u t) as [->|Hne].
      * unfold thr_inv. cbn [c_time c_lock c_vals c_ver c_thr]. rewrite set_thr_same. cbn [ts_cur].
        split; [exact HLt|]. rewrite EL in Hnt. rewrite npend_app, npend_cons in *.
        assert (pend_of t e = true) by (unfold pend_of, e; simpl; apply Nat.eqb_refl).
        assert (pend_of t e' = false) by reflexivity.
        rewrite H in Hnt. rewrite H0. lia.
      * assert (Hnp : npend u (l1 ++ e' :: l2) = npend u L).
        { rewrite EL. apply (npend_flip_other u t); auto. }
        pose proof (Hthr u) as Hu.
        destruct (option_eq_dec_tid (c_lock c) u) as [Hh|Hh].
        -- (* u holds the lock: its entry is the head of the log, the flipped entry lies below *)
           unfold thr_inv in *. cbn [c_time c_lock c_vals c_ver c_thr]. rewrite set_thr_other by assumption.
           destruct (ts_cur (c_thr c u)) as [|o' inv' ms' acc'' tmp'']; [tauto|].
           destruct Hu as [Hi' [[_ [_ [X _]]]|[[_ [Hn' [b [a' [L' [E1 [Hpl [E2 [acc3 [tmp3 [Hrun Hres]]]]]]]]]]]|[_ [X _]]]]];
             [contradiction| |contradiction].
           split; [lia|]. right. left. split; [exact Hh|]. split; [lia|].
           destruct l1 as [|h l1'].
           { exfalso. rewrite EL in E2. simpl in E2. inversion E2. congruence. }
           rewrite EL in E2. simpl in E2. injection E2 as Eh EL'.
           exists b, a', (l1' ++ e' :: l2). split; [exact E1|]. split; [exact Hpl|].
           rewrite (flip_SL l1' l2 e e') by reflexivity. rewrite EL'.
           split; [simpl; rewrite Eh; reflexivity|].
           exists acc3, tmp3. split; [|exact Hres].
           rewrite Hrun. f_equal. f_equal. f_equal.
           ++ rewrite (flip_SL (h :: l1') l2 e e') by reflexivity. rewrite <- EL. reflexivity.
           ++ rewrite (flip_SL (h :: l1') l2 e e') by reflexivity. rewrite <- EL. reflexivity.
        -- eapply thr_inv_other; [| | | | | |exact Hu]; cbn [c_time c_lock c_vals c_ver c_thr]; auto.
           ++ rewrite set_thr_other by assumption. reflexivity.
           ++ intros x a0 Hx Hin. rewrite EL in Hin. apply in_app_or in Hin. apply in_or_app.
              destruct Hin as [Hin|[Hin|Hin]]; [left; exact Hin | | right; right; exact Hin].
              exfalso. unfold e in Hin. inversion Hin. subst x. simpl in Hx. congruence.
  - (* acquire: linearization point *)
    destruct Ht as [Hi [[E [Eacc [HLt Hnt]]]|[[X _]|[E _]]]]; [|congruence|discriminate].
    rewrite call_prog_true in E. inversion E as [Ems]. subst acc.
    set (e := (mkcall t o (snd (seq_step (SL s L) o)) inv 0, c_time c, false)).
    exists (e :: L). constructor; cbn [c_time c_lock c_vals c_ver c_thr].
    + simpl. constructor; [exact Hsort|]. apply acqs_lt. exact Hent.
    + constructor; [|eapply Forall_ent_mono; [|exact Hent]; lia].
      unfold ent_ok, e, le_call, le_acq, le_done. simpl. repeat split; try lia; try discriminate.
    + simpl. split; [reflexivity | exact Hleg].
    + rewrite calls_of_cons. simpl. exact Hperm.
    + discriminate.
    + intro u. destruct (Nat.eq_dec u t) as [->|Hne].
      * unfold thr_inv. cbn [c_time c_lock c_vals c_ver c_thr]. rewrite set_thr_same. cbn [ts_cur].
        split; [lia|]. right. left. split; [reflexivity|]. split.
        { rewrite npend_cons. assert (pend_of t e = true) by (unfold pend_of, e; simpl; apply Nat.eqb_refl).
          rewrite H. lia. }
        exists (body o), (c_time c), L. split; [reflexivity|]. split; [apply body_plain|]. split; [reflexivity|].
        destruct (Hst HL0) as [Ev Er]. rewrite Ev, Er.
        destruct (body_correct o (SL s L) tmp) as [acc' [tmp' [Hrun Hres]]].
        exists acc', tmp'. split; [|exact Hres]. rewrite Hrun. reflexivity.
      * eapply thr_inv_other; [| | | | | |apply Hthr]; cbn [c_time c_lock c_vals c_ver c_thr]; auto.
        -- rewrite set_thr_other by assumption. reflexivity.
        -- congruence.
        -- congruence.
        -- rewrite npend_cons. rewrite (pend_of_other u t e) by auto. reflexivity.
        -- intros. right. assumption.
  - (* release *)
    destruct Ht as [Hi [[E _]|[[_ [Hnt [b [a [L' [E1 [Hpl [E2 [acc3 [tmp3 [Hrun Hres]]]]]]]]]]]|[E _]]]];
      [rewrite call_prog_true in E; discriminate| |discriminate].
    destruct b as [|m b]; simpl in E1.
    2:{ inversion E1; subst. exfalso. apply (proj2 Hpl). left. reflexivity. }
    inversion E1; subst ms. unfold run_ms in Hrun. simpl in Hrun. inversion Hrun; subst acc3 tmp3.
    exists L. constructor; cbn [c_time c_lock c_vals c_ver c_thr].
    + exact Hsort.
    + eapply Forall_ent_mono; [|eassumption]. lia.
    + exact Hleg.
    + rewrite calls_of_cons. exact Hperm.
    + intros _. split; assumption.
    + intro u. destruct (Nat.eq_dec u t) as [->|Hne].
      * unfold thr_inv. cbn [c_time c_lock c_vals c_ver c_thr]. rewrite set_thr_same. cbn [ts_cur].
        split; [lia|]. right. right. split; [reflexivity|]. split; [discriminate|]. split; [exact Hnt|].
        exists a. rewrite E2 at 1. left. rewrite Hres. reflexivity.
      * eapply thr_inv_other; [| | | | | |apply Hthr]; cbn [c_time c_lock c_vals c_ver c_thr]; auto.
        -- rewrite set_thr_other by assumption. reflexivity.
        -- congruence.
        -- discriminate.
  - (* one shared-memory access inside the critical section *)
    destruct Ht as [Hi [[E _]|[[HLt [Hnt [b [a [L' [E1 [Hpl [E2 [acc3 [tmp3 [Hrun Hres]]]]]]]]]]]|[E _]]]];
      [rewrite call_prog_true in E; inversion E; congruence| |discriminate].
    destruct b as [|m' b]; simpl in E1; inversion E1; [congruence|]. subst m' ms.
    exists L. constructor; cbn [c_time c_lock c_vals c_ver c_thr].
    + exact Hsort.
    + eapply Forall_ent_mono; [|eassumption]. lia.
    + exact Hleg.
    + rewrite calls_of_cons. exact Hperm.
    + congruence.
    + intro u. destruct (Nat.eq_dec u t) as [->|Hne].
      * unfold thr_inv. cbn [c_time c_lock c_vals c_ver c_thr]. rewrite set_thr_same. cbn [ts_cur].
        split; [lia|]. right. left. split; [exact HLt|]. split; [exact Hnt|].
        exists b, a, L'. split; [reflexivity|]. split; [eapply plain_tail; eauto|]. split; [exact E2|].
        exists acc3, tmp3. split; [|exact Hres]. rewrite run_ms_cons, HA in Hrun. exact Hrun.
      * eapply thr_inv_other; [| | | | | |apply Hthr]; cbn [c_time c_lock c_vals c_ver c_thr]; auto.
        -- rewrite set_thr_other by assumption. reflexivity.
        -- congruence.
        -- congruence.
Qed.

Lemma INV_reach : forall G s programs c tr,
  (forall o, G o = true) -> reach G (init_config s programs) c tr -> exists L, INV s c tr L.
Proof.
  intros G s programs c tr HG H. induction H.
  - exists []. apply INV_init.
  - destruct IHreach as [L HI]. eapply INV_step; eauto.
Qed.

(* ---- from the log to a linearization *)
Definition set_res (x : call) (r : nat) : call := mkcall (c_tid x) (c_op x) (c_resp x) (c_inv x) r.
Definition fix_res (now : nat) (e : lent) : call := if le_done e then le_call e else set_res (le_call e) now.

(* a call that has been invoked and has not responded yet, completed with the current time as response stamp *)
Definition pending_call (c : config) (x : call) : Prop :=
  c_res x = c_time c /\
  exists ms acc tmp, ts_cur (c_thr c (c_tid x)) = InCall (c_op x) (c_inv x) ms acc tmp.

Lemma run_calls_snoc : forall s l x, run_calls s (l ++ [x]) = fst (seq_step (run_calls s l) (c_op x)).
Proof. intros. unfold run_calls. rewrite fold_left_app. reflexivity. Qed.

Lemma run_calls_rev : forall s l, run_calls s (rev l) = replay s (map c_op l).
Proof.
  induction l as [|x l IH]; simpl.
  - reflexivity.
  - rewrite run_calls_snoc, IH. reflexivity.
Qed.

Lemma legal_rev_legal : forall s l,
  legal_rev s (map (fun x => (c_op x, c_resp x)) l) -> legal s (rev l).
Proof.
  induction l as [|x l IH]; simpl; intro H.
  - exact I.
  - destruct H as [H1 H2]. apply legal_app. split; [apply IH; exact H2|].
    simpl. split; [|exact I]. rewrite run_calls_rev. rewrite map_map in H1. simpl in H1. symmetry. exact H1.
Qed.

Lemma SS_snoc : forall {A} (R : A -> A -> Prop) l x,
  StronglySorted R l -> Forall (fun y => R y x) l -> StronglySorted R (l ++ [x]).
Proof.
  induction l as [|a l IH]; simpl; intros x HS HF.
  - constructor; constructor.
  - apply StronglySorted_inv in HS. destruct HS as [HS Ha]. inversion HF; subst.
    constructor; [apply IH; assumption|]. apply Forall_app. split; [exact Ha | constructor; [assumption | constructor]].
Qed.

Lemma SS_rev : forall {A} (R : A -> A -> Prop) l,
  StronglySorted (fun a b => R b a) l -> StronglySorted R (rev l).
Proof.
  induction l as [|a l IH]; simpl; intro H.
  - constructor.
  - apply StronglySorted_inv in H. destruct H as [HS Ha]. apply SS_snoc; [apply IH; exact HS|].
    apply Forall_forall. intros y Hy. apply in_rev in Hy. rewrite Forall_forall in Ha. apply Ha. exact Hy.
Qed.

Lemma fix_res_op : forall now e, c_op (fix_res now e) = c_op (le_call e).
Proof. intros. unfold fix_res. destruct (le_done e); reflexivity. Qed.
Lemma fix_res_resp : forall now e, c_resp (fix_res now e) = c_resp (le_call e).
Proof. intros. unfold fix_res. destruct (le_done e); reflexivity. Qed.
Lemma fix_res_inv : forall now e, c_inv (fix_res now e) = c_inv (le_call e).
Proof. intros. unfold fix_res. destruct (le_done e); reflexivity. Qed.

Lemma rt_of_log : forall now L,
  StronglySorted gt (acqs L) -> Forall (ent_ok now) L ->
  StronglySorted (fun a b => c_inv b < c_res a) (map (fix_res now) L).
Proof.
  induction L as [|e L IH]; simpl; intros HS HF.
  - constructor.
  - apply StronglySorted_inv in HS. destruct HS as [HS Ha]. inversion HF as [|? ? He HF']; subst.
    constructor; [apply IH; assumption|].
    apply Forall_forall. intros y Hy. apply in_map_iff in Hy. destruct Hy as [b [<- Hb]].
    rewrite fix_res_inv.
    rewrite Forall_forall in HF'. destruct (HF' b Hb) as [B1 _].
    rewrite Forall_forall in Ha. assert (le_acq e > le_acq b) by (apply Ha; unfold acqs; apply in_map; exact Hb).
    destruct He as [_ [E2 E3]]. unfold fix_res. destruct (le_done e); simpl.
    + specialize (E3 eq_refl). lia.
    + lia.
Qed.

Lemma split_done : forall now L,
  Permutation (map (fix_res now) L)
              (map le_call (filter le_done L) ++
               map (fun e => set_res (le_call e) now) (filter (fun e => negb (le_done e)) L)).
Proof.
  induction L as [|e L IH]; simpl.
  - constructor.
  - unfold fix_res at 1. destruct (le_done e); simpl.
    + constructor. exact IH.
    + apply Permutation_cons_app. exact IH.
Qed.

Lemma pending_of_log : forall s c L e,
  (forall t, thr_inv s c L t) -> In e L -> le_done e = false ->
  pending_call c (set_res (le_call e) (c_time c)).
Proof.
  intros s c L e Hthr Hin Hd. remember (c_tid (le_call e)) as t eqn:Et.
  assert (Pe : pend_of t e = true) by (unfold pend_of; rewrite Hd, Et; simpl; apply Nat.eqb_refl).
  pose proof (Hthr t) as Ht. unfold thr_inv in Ht. unfold pending_call. simpl. split; [reflexivity|]. rewrite <- Et.
  destruct (ts_cur (c_thr c t)) as [|o inv ms acc tmp].
  - destruct Ht as [_ Hn]. rewrite (npend_zero_none _ _ _ Hn Hin) in Pe. discriminate.
  - destruct Ht as [_ [[_ [_ [_ Hn]]]|[[_ [Hn [b [a [L' [_ [_ [EL _]]]]]]]]|[_ [_ [Hn [a Hin0]]]]]]].
    + rewrite (npend_zero_none _ _ _ Hn Hin) in Pe. discriminate.
    + assert (H : e = (mkcall t o (snd (seq_step (SL s L') o)) inv 0, a, false)).
      { eapply npend_one_uniq; eauto.
        - rewrite EL. left. reflexivity.
        - unfold pend_of. simpl. apply Nat.eqb_refl. }
      rewrite H. simpl. eauto.
    + assert (H : e = (mkcall t o (result o acc) inv 0, a, false)).
      { eapply npend_one_uniq; eauto. unfold pend_of. simpl. apply Nat.eqb_refl. }
      rewrite H. simpl. eauto.
Qed.

(* The main theorem: whatever the number of threads, their programs and the interleaving, the completed calls of
   a reachable trace -- together with some of the calls still in flight (those past their Acquire) -- are
   linearizable w.r.t. the sequential specification.  The order constructed is the order of the Acquire steps. *)
Theorem guarded_linearizable : forall G s programs c tr,
  (forall o, G o = true) -> reach G (init_config s programs) c tr ->
  exists inflight, Forall (pending_call c) inflight /\ linearizable s (calls_of tr ++ inflight).
Proof.
  intros G s programs c tr HG HR.
  destruct (INV_reach _ _ _ _ _ HG HR) as [L [Hsort Hent Hleg Hperm Hst Hthr]].
  set (now := c_time c).
  exists (map (fun e => set_res (le_call e) now) (filter (fun e => negb (le_done e)) L)). split.
  - apply Forall_forall. intros x Hx. apply in_map_iff in Hx. destruct Hx as [e [<- He]].
    apply filter_In in He. destruct He as [He Hd]. eapply pending_of_log; eauto.
    destruct (le_done e); [discriminate | reflexivity].
  - exists (rev (map (fix_res now) L)). split; [|split].
    + eapply perm_trans; [apply Permutation_sym; apply Permutation_rev|].
      eapply perm_trans; [apply split_done|]. apply Permutation_app_tail. apply Permutation_sym. exact Hperm.
    + apply legal_rev_legal. rewrite map_map.
      replace (map (fun x => (c_op (fix_res now x), c_resp (fix_res now x))) L) with (ors L); [exact Hleg|].
      unfold ors. apply map_ext. intro e. rewrite fix_res_op, fix_res_resp. reflexivity.
    + unfold rt_ok. apply SS_rev. apply rt_of_log; assumption.
Qed.

Corollary guarded_linearizable_quiescent : forall G s programs c tr,
  (forall o, G o = true) -> reach G (init_config s programs) c tr -> quiescent c ->
  linearizable s (calls_of tr).
Proof.
  intros G s programs c tr HG HR HQ.
  destruct (guarded_linearizable _ _ _ _ _ HG HR) as [infl [HF HL]].
  destruct infl as [|x infl].
  - rewrite app_nil_r in HL. exact HL.
  - inversion HF as [|? ? [_ [ms [acc [tmp E]]]] _]; subst. rewrite (HQ (c_tid x)) in E. discriminate.
Qed.

Theorem coarse_lock_linearizable_proof : forall fs s programs c tr,
  lock_facts_ok fs = true -> reach (guard_of fs) (init_config s programs) c tr ->
  exists inflight, Forall (pending_call c) inflight /\ linearizable s (calls_of tr ++ inflight).
Proof. intros. eapply guarded_linearizable; eauto. apply lock_facts_guard. assumption. Qed.

(* ---- executable schedules are reachable traces *)
Lemma run_from_reach : forall G c0 sched c tr c' tr',
  reach G c0 c tr -> run_from G c tr sched = Some (c', tr') -> reach G c0 c' tr'.
Proof.
  induction sched as [|t sched IH]; simpl; intros c tr c' tr' HR H.
  - inversion H; subst. exact HR.
  - destruct (step G c t) as [[c1 l]|] eqn:E; [|discriminate].
    eapply IH; [|exact H]. econstructor; eauto.
Qed.

Lemma run_reach : forall G s programs sched c tr,
  run G s programs sched = Some (c, tr) -> reach G (init_config s programs) c tr.
Proof. intros. eapply run_from_reach; [constructor | exact H]. Qed.

(* ---- responses are values *)
Lemma calls_of_app : forall a b, calls_of (a ++ b) = calls_of a ++ calls_of b.
Proof. intros. unfold calls_of. apply flat_map_app. Qed.

(* A response, once given, is a value recorded in the trace: however the run continues ([ext] = the later
   events, e.g. further updates), the call is still part of the history with the SAME response, and that response
   is the specification's response in one state of a sequential execution of the whole (extended) run. *)
Theorem responses_are_values : forall G s programs c tr ext c' x,
  (forall o, G o = true) ->
  reach G (init_config s programs) c tr -> In x (calls_of tr) ->
  reach G (init_config s programs) c' (ext ++ tr) -> quiescent c' ->
  In x (calls_of (ext ++ tr)) /\
  exists before after,
    Permutation (before ++ x :: after) (calls_of (ext ++ tr)) /\ legal s before /\
    c_resp x = snd (seq_step (run_calls s before) (c_op x)) /\
    Forall (fun u => c_inv x < c_res u) after.
Proof.
  intros G s programs c tr ext c' x HG HR Hin HR' HQ.
  assert (Hin' : In x (calls_of (ext ++ tr))) by (rewrite calls_of_app; apply in_or_app; right; exact Hin).
  split; [exact Hin'|]. eapply call_snapshot; [|exact Hin'].
  eapply guarded_linearizable_quiescent; eauto.
Qed.

(* ================================================================== *)
(** * D. what the lock buys *)

(* the guard assignment only matters on the operations that are still to be invoked *)
Lemma step_G_ext : forall G G' c t,
  (forall o, In o (ts_prog (c_thr c t)) -> G o = G' o) -> step G c t = step G' c t.
Proof.
  intros G G' c t H. unfold step. destruct (ts_cur (c_thr c t)); [|reflexivity].
  destruct (ts_prog (c_thr c t)) as [|o rest]; [reflexivity|]. rewrite (H o) by (left; reflexivity). reflexivity.
Qed.

Lemma step_prog_subset : forall G c t c' l,
  step G c t = Some (c', l) -> forall u o, In o (ts_prog (c_thr c' u)) -> In o (ts_prog (c_thr c u)).
Proof.
  intros G c t c' l Hs u o. apply step_inv in Hs.
  destruct (Nat.eq_dec u t) as [->|Hne].
  - destruct Hs; cbn [c_thr]; rewrite set_thr_same; cbn [ts_prog]; auto.
    intro Hin. rewrite H0. right. exact Hin.
  - destruct Hs; cbn [c_thr]; rewrite set_thr_other by assumption; auto.
Qed.

Lemma run_from_ext : forall G G' sched c tr,
  (forall t o, In o (ts_prog (c_thr c t)) -> G o = G' o) -> run_from G c tr sched = run_from G' c tr sched.
Proof.
  induction sched as [|t sched IH]; simpl; intros c tr H; [reflexivity|].
  rewrite (step_G_ext G G' c t) by (apply H).
  destruct (step G' c t) as [[c1 l]|] eqn:E; [|reflexivity].
  apply IH. intros u o Hin. apply (H u). eapply step_prog_subset; eauto.
Qed.

(* -- without the Artifact lock: a reader between two updates returns a state that never existed *)
Definition G_no_artifact_lock (o : op) : bool := match o with Artifact _ => false | _ => true end.
Definition mix_init : state := state_of [0%N; 0%N] 0%N.
Definition mix_programs : list (list op) := [[Artifact [0; 1]]; [Update 0 1%N; Update 1 1%N]].
Definition mix_sched : list tid := [0; 0] ++ repeat 1 7 ++ repeat 1 7 ++ [0; 0].

Lemma mix_run_concrete : exists c tr,
  run G_no_artifact_lock mix_init mix_programs mix_sched = Some (c, tr) /\
  calls_of tr = [mkcall 0 (Artifact [0; 1]) (RArt [0%N; 1%N]) 0 17;
                 mkcall 1 (Update 1 1%N) (RUpd true) 9 15;
                 mkcall 1 (Update 0 1%N) (RUpd true) 2 8] /\
  (forall t, ts_cur (c_thr c t) = Idle).
Proof.
  eexists. eexists. split; [vm_compute; reflexivity|]. split; [vm_compute; reflexivity|].
  intros [|[|t]]; vm_compute; reflexivity.
Qed.

(* the states the parameter store goes through in this run: the two updates are sequential in real time
   (the first responds at stamp 8, the second is invoked at stamp 9) *)
Definition mix_states : list state :=
  [mix_init; fst (seq_step mix_init (Update 0 1%N));
   fst (seq_step (fst (seq_step mix_init (Update 0 1%N))) (Update 1 1%N))].

Theorem unlocked_artifact_mixed_snapshot : forall G,
  (forall f, G (Artifact f) = false) -> (forall p v, G (Update p v) = true) ->
  exists c tr x,
    reach G (init_config mix_init mix_programs) c tr /\ quiescent c /\
    In x (calls_of tr) /\ c_op x = Artifact [0; 1] /\
    (* the artifact is the evaluation of none of the states that ever existed: a mixture *)
    Forall (fun st => c_resp x <> RArt (map (st_vals st) [0; 1])) mix_states /\
    ~ linearizable mix_init (calls_of tr).
Proof.
  intros G HA HU. destruct mix_run_concrete as [c [tr [Hrun [Hcalls Hq]]]].
  assert (HR : reach G (init_config mix_init mix_programs) c tr).
  { apply run_reach with (sched := mix_sched). rewrite <- Hrun. unfold run. apply (run_from_ext G G_no_artifact_lock).
    intros t o Hin. unfold init_config in Hin. cbn [c_thr ts_prog] in Hin.
    destruct t as [|[|t]]; simpl in Hin.
    - destruct Hin as [<-|[]]. rewrite HA. reflexivity.
    - destruct Hin as [<-|[<-|[]]]; rewrite HU; reflexivity.
    - destruct t; contradiction. }
  exists c, tr, (mkcall 0 (Artifact [0; 1]) (RArt [0%N; 1%N]) 0 17).
  split; [exact HR|]. split; [exact Hq|]. rewrite Hcalls.
  split; [left; reflexivity|]. split; [reflexivity|]. split.
  - repeat constructor; simpl; discriminate.
  - apply linb_false_not_linearizable. vm_compute. reflexivity.
Qed.

(* -- without the UpdateParameter lock: two concurrent updates, one version increment is lost *)
Definition G_no_update_lock (o : op) : bool := match o with Update _ _ | BadUpdate _ => false | _ => true end.
Definition lost_programs : list (list op) := [[Update 0 1%N]; [Update 1 1%N]].
Definition lost_sched : list tid := [0; 1; 0; 1; 0; 1; 0; 1; 0; 1].

Theorem unlocked_update_loses_version : forall G,
  (forall p v, G (Update p v) = false) ->
  exists c tr,
    reach G (init_config mix_init lost_programs) c tr /\ quiescent c /\
    List.length (calls_of tr) = 2 /\ Forall (fun x => c_resp x = RUpd true) (calls_of tr) /\
    c_ver c = 1%N /\
    st_ver (run_calls mix_init (calls_of tr)) = 2%N.
Proof.
  intros G HU.
  assert (exists c tr, run G_no_update_lock mix_init lost_programs lost_sched = Some (c, tr) /\
                       (forall t, ts_cur (c_thr c t) = Idle) /\
                       List.length (calls_of tr) = 2 /\ Forall (fun x => c_resp x = RUpd true) (calls_of tr) /\
                       c_ver c = 1%N /\ st_ver (run_calls mix_init (calls_of tr)) = 2%N) as [c [tr [Hrun [Hq H]]]].
  { eexists. eexists. split; [vm_compute; reflexivity|]. split; [intros [|[|t]]; vm_compute; reflexivity|].
    split; [vm_compute; reflexivity|]. split; [vm_compute; repeat constructor|].
    split; vm_compute; reflexivity. }
  exists c, tr. split; [|split; [exact Hq | exact H]].
  apply run_reach with (sched := lost_sched). rewrite <- Hrun. unfold run. apply (run_from_ext G G_no_update_lock).
  intros t o Hin. unfold init_config in Hin. cbn [c_thr ts_prog] in Hin.
  destruct t as [|[|t]]; simpl in Hin.
  - destruct Hin as [<-|[]]. rewrite HU. reflexivity.
  - destruct Hin as [<-|[]]. rewrite HU. reflexivity.
  - destruct t; contradiction.
Qed.
