(* C13 x C11 -- the critical sections of C13's lock semantics executed with C11's cache-bearing evaluator.

   Graph/Lock.v abstracts an artifact evaluation to "read the parameters the producer depends on"; what the real
   critical section runs is [producer.Value()], i.e. C11's [value] on a node table with caches (value, version,
   depVersions, dirty flag): the critical section is STATEFUL beyond the parameter values.  This file shows

   A. the caches are a hidden state that never influences a response: a read of node n in any reachable node
      table returns the FROM-SCRATCH evaluation [eval_scratch] of the erased graph (wiring + processors +
      parameter values), and leaves the erased graph unchanged (C11: read_fresh_any_order); hence two reachable
      tables with the same erased graph answer every read alike, whatever was read before
      ([same_graph_same_artifact], [earlier_reads_do_not_matter]);
   B. executing the critical sections of a sequence of C13 calls one after the other (the linearization order
      given by Graph/LockSemProofs.v) on a C11 node table: every artifact equals the from-scratch evaluation of
      the graph whose parameter nodes hold exactly the ONE abstract parameter state [run_calls s before] at that
      point of the order, and whose other nodes are those of the initial graph ([replay_from_scratch], [artifact_real_evaluator]).

   C11's model is imported read-only (Graph/Nodes.v, Graph/NodesProofs.v). *)
From Coq Require Import List NArith ZArith Arith Bool Lia.
From PF Require Import Graph.Lock Graph.LockProofs.
From PF Require Graph.Nodes Graph.NodesProofs.
Import ListNotations.

Module N := PF.Graph.Nodes.
Module NP := PF.Graph.NodesProofs.

(* ================================================================== *)
(** * A. node caches are an invariant-preserving hidden state *)

Lemma run_snoc : forall orc h s0 s o s1 res,
  N.run orc s0 h = Some s -> N.step orc s o = Some (s1, res) -> N.run orc s0 (h ++ [o]) = Some s1.
Proof.
  induction h as [|a h IH]; intros s0 s o s1 res H Hs.
  - cbn [N.run] in H. injection H as <-. cbn [app N.run]. unfold PF.Base.Bytes.bind. rewrite Hs. reflexivity.
  - cbn [N.run] in H. unfold PF.Base.Bytes.bind in H.
    destruct (N.step orc s0 a) as [[s' r]|] eqn:E; [|discriminate].
    cbn [app N.run]. unfold PF.Base.Bytes.bind. rewrite E. eapply IH; eauto.
Qed.

Lemma step_read_inv : forall orc s n s1 res,
  N.step orc s (N.Read n) = Some (s1, res) -> exists v, res = N.RVal v /\ N.read orc s n = Some (s1, v).
Proof.
  intros orc s n s1 res H. unfold N.read. rewrite H.
  unfold N.step in H. cbn [N.step_store] in H. unfold PF.Base.Bytes.bind in H.
  destruct (N.value (orc (N.clock s)) (N.fuel_of (N.nodes s)) (N.nodes s) n) as [[st' v]|]; [|discriminate].
  inversion H; subst. exists v. split; reflexivity.
Qed.

Lemma map_set_nth : forall {A B} (f : A -> B) k x l, map f (N.set_nth k x l) = N.set_nth k (f x) (map f l).
Proof.
  intros A B f k x l. revert k. induction l as [|a l IH]; intros k; destruct k; simpl; auto. rewrite IH. reflexivity.
Qed.

Lemma step_setparam_inv : forall orc s n v s1 res,
  N.step orc s (N.SetParam n v) = Some (s1, res) ->
  (exists old, nth_error (N.graph_of (N.nodes s)) n = Some (N.GParam old)) /\
  N.graph_of (N.nodes s1) = N.set_nth n (N.GParam v) (N.graph_of (N.nodes s)).
Proof.
  intros orc s n v s1 res H. unfold N.step in H. cbn [N.step_store] in H. unfold PF.Base.Bytes.bind in H.
  destruct (nth_error (N.nodes s) n) as [[ver old sets|sn]|] eqn:E; try discriminate.
  inversion H; subst. simpl. split.
  - exists old. rewrite NP.graph_nth, E. reflexivity.
  - unfold N.graph_of. rewrite map_set_nth. reflexivity.
Qed.

(* a read returns the from-scratch evaluation of the erased graph and does not change the erased graph *)
Lemma read_is_from_scratch : forall orc ds h s n s1 res,
  NP.oracle_ok orc -> N.run orc (N.init ds) h = Some s ->
  N.step orc s (N.Read n) = Some (s1, res) ->
  exists v, res = N.RVal v /\
    N.eval_scratch (S (length (N.graph_of (N.nodes s)))) (N.graph_of (N.nodes s)) n = Some v /\
    N.graph_of (N.nodes s1) = N.graph_of (N.nodes s).
Proof.
  intros orc ds h s n s1 res PO HR Hs. destruct (step_read_inv _ _ _ _ _ Hs) as [v [-> Hread]].
  destruct (NP.read_fresh_any_order orc ds h s n s1 v PO HR Hread) as [He [_ Hg]].
  exists v. split; [reflexivity|]. split; [|exact Hg].
  unfold N.eval_now, N.fuel_of in He. unfold N.graph_of at 1. rewrite map_length. exact He.
Qed.

(* Responses do not depend on the hidden state: two reachable node tables (possibly reached through different
   histories, with different caches, versions, execution counts) that have the same erased graph answer a read of
   any node with the same value. *)
Theorem same_graph_same_artifact : forall orc1 orc2 ds1 ds2 h1 h2 s1 s2 n s1' s2' v1 v2,
  NP.oracle_ok orc1 -> NP.oracle_ok orc2 ->
  N.run orc1 (N.init ds1) h1 = Some s1 -> N.run orc2 (N.init ds2) h2 = Some s2 ->
  N.graph_of (N.nodes s1) = N.graph_of (N.nodes s2) ->
  N.read orc1 s1 n = Some (s1', v1) -> N.read orc2 s2 n = Some (s2', v2) -> v1 = v2.
Proof.
  intros orc1 orc2 ds1 ds2 h1 h2 s1 s2 n s1' s2' v1 v2 P1 P2 R1 R2 G E1 E2.
  destruct (NP.read_fresh_any_order _ _ _ _ _ _ _ P1 R1 E1) as [A _].
  destruct (NP.read_fresh_any_order _ _ _ _ _ _ _ P2 R2 E2) as [B _].
  unfold N.eval_now, N.fuel_of in *. rewrite G in A.
  replace (length (N.nodes s1)) with (length (N.nodes s2)) in A; [congruence|].
  rewrite <- (map_length N.erase (N.nodes s2)), <- (map_length N.erase (N.nodes s1)).
  fold (N.graph_of (N.nodes s1)). fold (N.graph_of (N.nodes s2)). congruence.
Qed.

(* ... in particular an earlier read (of any node m) changes nothing for a later read *)
Theorem earlier_reads_do_not_matter : forall orc ds h s m sm vm n s1 v1 s2 v2,
  NP.oracle_ok orc -> N.run orc (N.init ds) h = Some s ->
  N.read orc s m = Some (sm, vm) ->
  N.read orc sm n = Some (s1, v1) -> N.read orc s n = Some (s2, v2) -> v1 = v2.
Proof.
  intros orc ds h s m sm vm n s1 v1 s2 v2 PO HR Hm H1 H2.
  assert (Hstep : N.step orc s (N.Read m) = Some (sm, N.RVal vm)).
  { unfold N.read in Hm. destruct (N.step orc s (N.Read m)) as [[s' [|w]]|]; try discriminate. inversion Hm; subst. reflexivity. }
  pose proof (run_snoc _ _ _ _ _ _ _ HR Hstep) as HR'.
  destruct (NP.read_fresh_any_order _ _ _ _ _ _ _ PO HR Hm) as [_ [_ Hg]].
  eapply (same_graph_same_artifact orc orc ds ds _ _ sm s); eauto.
Qed.

(* ================================================================== *)
(** * B. the critical sections of a sequence of C13 calls, executed with the cache-bearing evaluator *)

Section Replay.
  Variable orc : N.oracle.
  Variable pid : param -> N.id.          (* C13 parameter index -> its node in the C11 graph *)
  Variable tag : call -> N.id.           (* the producer node an Artifact call addresses *)

  (* the node-table operation a call performs inside its critical section (parameter reads and malformed
     updates do not touch the node table) *)
  Definition cs_op (x : call) : option N.op :=
    match c_op x with
    | Update p v => Some (N.SetParam (pid p) (Z.of_N v))
    | Artifact _ | ArtifactP _ _ => Some (N.Read (tag x))
    | BadUpdate _ | Get _ => None
    end.

  (* run the critical sections in the given order, threading the node table (caches included); collect what each
     artifact evaluation returned *)
  Fixpoint replay_cs (s : N.state) (l : list call) : option (N.state * list (call * N.val)) :=
    match l with
    | [] => Some (s, [])
    | x :: r =>
        match cs_op x with
        | None => replay_cs s r
        | Some o =>
            match N.step orc s o with
            | Some (s', N.RVal v) =>
                match replay_cs s' r with Some (s'', arts) => Some (s'', (x, v) :: arts) | None => None end
            | Some (s', N.RDone) => replay_cs s' r
            | None => None
            end
        end
    end.

  (* the erased graph after the parameter updates of a call sequence *)
  Definition apply_update (g : N.graph) (x : call) : N.graph :=
    match c_op x with
    | Update p v => N.set_nth (pid p) (N.GParam (Z.of_N v)) g
    | _ => g
    end.
  Definition graph_after (g : N.graph) (l : list call) : N.graph := fold_left apply_update l g.

  Lemma graph_after_length : forall l g, length (graph_after g l) = length g.
  Proof.
    induction l as [|x l IH]; simpl; intros g; auto. unfold graph_after in *. simpl. rewrite IH.
    unfold apply_update. destruct (c_op x); auto. apply NP.set_nth_length.
  Qed.

  Hypothesis PO : NP.oracle_ok orc.

  (* every artifact obtained by the replay is the from-scratch evaluation of the graph after the updates ordered
     before it -- whatever the caches held, whatever was evaluated before *)
  Theorem replay_from_scratch : forall l ds h s s' arts,
    N.run orc (N.init ds) h = Some s ->
    replay_cs s l = Some (s', arts) ->
    forall x v, In (x, v) arts ->
      exists pre post, l = pre ++ x :: post /\
        N.eval_scratch (S (length (N.graph_of (N.nodes s))))
                       (graph_after (N.graph_of (N.nodes s)) pre) (tag x) = Some v.
  Proof.
    induction l as [|y l IH]; intros ds h s s' arts HR Hrep x v Hin.
    - simpl in Hrep. inversion Hrep; subst. contradiction.
    - simpl in Hrep. destruct (cs_op y) as [o|] eqn:Eo.
      + destruct (N.step orc s o) as [[s1 res]|] eqn:Es; [|discriminate].
        pose proof (run_snoc _ _ _ _ _ _ _ HR Es) as HR1.
        unfold cs_op in Eo. destruct (c_op y) as [p w|p|p|f|f bad] eqn:Ey; inversion Eo; subst o.
        * (* update *)
          destruct (step_setparam_inv _ _ _ _ _ _ Es) as [_ Hg].
          assert (res = N.RDone).
          { unfold N.step in Es. cbn [N.step_store] in Es. unfold PF.Base.Bytes.bind in Es.
            destruct (nth_error (N.nodes s) (pid p)) as [[? ? ?|?]|]; try discriminate. inversion Es; reflexivity. }
          subst res.
          destruct (IH _ _ _ _ _ HR1 Hrep x v Hin) as [pre [post [El He]]].
          exists (y :: pre), post. split; [simpl; rewrite El; reflexivity|].
          unfold graph_after in *. cbn [fold_left].
          assert (Hy : apply_update (N.graph_of (N.nodes s)) y = N.graph_of (N.nodes s1))
            by (unfold apply_update; rewrite Ey; symmetry; exact Hg).
          rewrite Hy.
          replace (length (N.graph_of (N.nodes s))) with (length (N.graph_of (N.nodes s1))); [exact He|].
          rewrite Hg. apply NP.set_nth_length.
        * (* artifact *)
          destruct (read_is_from_scratch _ _ _ _ _ _ _ PO HR Es) as [w [-> [He Hg]]].
          destruct (replay_cs s1 l) as [[s2 arts']|] eqn:Er; [|discriminate]. inversion Hrep; subst s' arts.
          destruct Hin as [Hin|Hin].
          -- inversion Hin; subst y w. exists [], l. split; [reflexivity|]. exact He.
          -- destruct (IH _ _ _ _ _ HR1 Er x v Hin) as [pre [post [El He']]].
             exists (y :: pre), post. split; [simpl; rewrite El; reflexivity|].
             unfold graph_after in *. cbn [fold_left].
             assert (Hy : apply_update (N.graph_of (N.nodes s)) y = N.graph_of (N.nodes s1))
               by (unfold apply_update; rewrite Ey; symmetry; exact Hg).
             rewrite Hy, <- Hg. exact He'.
        * (* artifact of a producer with panicking nodes: same critical section *)
          destruct (read_is_from_scratch _ _ _ _ _ _ _ PO HR Es) as [w [-> [He Hg]]].
          destruct (replay_cs s1 l) as [[s2 arts']|] eqn:Er; [|discriminate]. inversion Hrep; subst s' arts.
          destruct Hin as [Hin|Hin].
          -- inversion Hin; subst y w. exists [], l. split; [reflexivity|]. exact He.
          -- destruct (IH _ _ _ _ _ HR1 Er x v Hin) as [pre [post [El He']]].
             exists (y :: pre), post. split; [simpl; rewrite El; reflexivity|].
             unfold graph_after in *. cbn [fold_left].
             assert (Hy : apply_update (N.graph_of (N.nodes s)) y = N.graph_of (N.nodes s1))
               by (unfold apply_update; rewrite Ey; symmetry; exact Hg).
             rewrite Hy, <- Hg. exact He'.
      + destruct (IH _ _ _ _ _ HR Hrep x v Hin) as [pre [post [El He]]].
        exists (y :: pre), post. split; [simpl; rewrite El; reflexivity|].
        unfold graph_after in *. cbn [fold_left].
        assert (Hy : apply_update (N.graph_of (N.nodes s)) y = N.graph_of (N.nodes s))
          by (unfold apply_update; unfold cs_op in Eo; destruct (c_op y); try discriminate; reflexivity).
        rewrite Hy. exact He.
  Qed.

  (* [graph_after g pre] is the graph g at ONE parameter state: its parameter nodes hold exactly the abstract
     state after [pre], every other node is the node of g *)
  Variable np : nat.
  Hypothesis pid_inj : forall p q, p < np -> q < np -> pid p = pid q -> p = q.

  Definition params_hold (g : N.graph) (st : Lock.state) : Prop :=
    forall p, p < np -> nth_error g (pid p) = Some (N.GParam (Z.of_N (st_vals st p))).
  Definition updates_in_range (l : list call) : Prop :=
    Forall (fun x => match c_op x with Update p _ => p < np | _ => True end) l.

  Lemma graph_after_params : forall l g st,
    params_hold g st -> updates_in_range l -> params_hold (graph_after g l) (run_calls st l).
  Proof.
    induction l as [|x l IH]; intros g st H HU; [exact H|].
    inversion HU as [|? ? Hx HU']; subst. unfold graph_after, run_calls in *. simpl. apply IH; [|exact HU'].
    unfold apply_update. destruct (c_op x) as [p w|p|p|f|f bad] eqn:E; simpl; try exact H.
    intros q Hq. cbn [st_vals]. unfold upd. destruct (Nat.eqb q p) eqn:Eq.
    - apply Nat.eqb_eq in Eq. subst q. apply NP.nth_error_set_nth_eq.
      apply nth_error_Some. rewrite (H p Hx). discriminate.
    - apply Nat.eqb_neq in Eq. rewrite NP.nth_error_set_nth_neq; [apply H; exact Hq|].
      intro E'. apply Eq. apply pid_inj; auto.
  Qed.

  Lemma graph_after_other : forall l g k,
    (forall p, p < np -> pid p <> k) -> updates_in_range l -> nth_error (graph_after g l) k = nth_error g k.
  Proof.
    induction l as [|x l IH]; intros g k Hk HU; [reflexivity|].
    inversion HU as [|? ? Hx HU']; subst. unfold graph_after in *. simpl. rewrite IH by assumption.
    unfold apply_update. destruct (c_op x) as [p w|p|p|f|f bad]; try reflexivity.
    apply NP.nth_error_set_nth_neq. apply Hk. exact Hx.
  Qed.
End Replay.

(* ================================================================== *)
(** * C. lock semantics + real evaluator *)
From PF Require Import Graph.LockSemProofs.
From Coq Require Import Sorting.Permutation.

(* Every quiescent run of the lock semantics (all entry points guarded) has a linearization [order] such that,
   when the critical sections are executed in that order with C11's cache-bearing evaluator on a node table
   whose parameter nodes hold the initial abstract state, EVERY artifact equals the from-scratch evaluation of
   the node graph at ONE parameter state: the state [run_calls s before] reached by the calls ordered before it
   -- the same state the abstract response lists -- and no call that had responded before the artifact call was
   invoked is ordered after it. *)
Theorem artifact_real_evaluator : forall G s programs c tr,
  (forall o, G o = true) -> reach G (init_config s programs) c tr -> quiescent c ->
  exists order,
    Permutation order (calls_of tr) /\ legal s order /\ rt_ok order /\
    forall orc pid tag np ds h s0 s' arts,
      NP.oracle_ok orc ->
      (forall p q, p < np -> q < np -> pid p = pid q -> p = q) ->
      N.run orc (N.init ds) h = Some s0 ->
      params_hold pid np (N.graph_of (N.nodes s0)) s ->
      updates_in_range np order ->
      replay_cs orc pid tag s0 order = Some (s', arts) ->
      forall x v, In (x, v) arts ->
        exists before after,
          order = before ++ x :: after /\
          let g := graph_after pid (N.graph_of (N.nodes s0)) before in
          N.eval_scratch (S (length g)) g (tag x) = Some v /\
          params_hold pid np g (run_calls s before) /\
          (forall k, (forall p, p < np -> pid p <> k) -> nth_error g k = nth_error (N.graph_of (N.nodes s0)) k) /\
          c_resp x = snd (seq_step (run_calls s before) (c_op x)) /\
          Forall (fun u => c_inv x < c_res u) after.
Proof.
  intros G s programs c tr HG HR HQ.
  destruct (guarded_linearizable_quiescent _ _ _ _ _ HG HR HQ) as [order [HP [HL HRt]]].
  exists order. split; [exact HP|]. split; [exact HL|]. split; [exact HRt|].
  intros orc pid tag np ds h s0 s' arts PO Hinj Hrun Hpar Hupd Hrep x v Hin.
  destruct (replay_from_scratch orc pid tag PO order ds h s0 s' arts Hrun Hrep x v Hin) as [pre [post [E He]]].
  exists pre, post. split; [exact E|]. subst order.
  assert (Hupd' : updates_in_range np pre).
  { unfold updates_in_range in *. apply Forall_app in Hupd. tauto. }
  cbv zeta. rewrite graph_after_length. split; [exact He|]. split.
  - apply graph_after_params; assumption.
  - split; [intros k Hk; apply graph_after_other with (np := np); assumption|].
    apply legal_app in HL. destruct HL as [_ HL2]. simpl in HL2. destruct HL2 as [HL2 _].
    split; [symmetry; exact HL2|].
    apply rt_ok_app_r in HRt. apply rt_ok_cons in HRt. tauto.
Qed.
