(* C12: the order invariants of the instance model.  The node table is kept sorted by id with pairwise distinct
   ids (two nodes never share an id, after any history), the producer table sorted by name with distinct names,
   the top level of the metadata object sorted by key — the orders EncodeToAppSchema visits nodes in and
   encoding/json writes map keys in.  Go's bytewise string order is a strict total order. *)
From Coq Require Import String Ascii Lia.
From PF Require Import Base.Bytes Graph.Schema Graph.SchemaProofs Graph.Instance Graph.InstanceProofs.
Open Scope N_scope.

(* ---------- Go's < on strings is a strict total order ---------- *)
Lemma byte_of_inj x y : byte_of x = byte_of y -> x = y.
Proof.
  unfold byte_of. intro H. rewrite <- (ascii_N_embedding x), <- (ascii_N_embedding y), H. reflexivity.
Qed.

Lemma str_ltb_irrefl a : str_ltb a a = false.
Proof. induction a as [|c a IH]; cbn; [reflexivity|]. rewrite N.ltb_irrefl, N.eqb_refl. exact IH. Qed.

Lemma str_ltb_trans : forall a b c, str_ltb a b = true -> str_ltb b c = true -> str_ltb a c = true.
Proof.
  induction a as [|x a IH]; intros [|y b] [|z c]; cbn; try discriminate; try reflexivity.
  intros H1 H2.
  destruct (byte_of x <? byte_of y) eqn:L1.
  - apply N.ltb_lt in L1.
    destruct (byte_of y <? byte_of z) eqn:L2.
    + apply N.ltb_lt in L2. assert (byte_of x < byte_of z) as L by lia. apply N.ltb_lt in L. rewrite L. reflexivity.
    + destruct (byte_of y =? byte_of z) eqn:E2; [|discriminate]. apply N.eqb_eq in E2. rewrite <- E2.
      apply N.ltb_lt in L1. rewrite L1. reflexivity.
  - destruct (byte_of x =? byte_of y) eqn:E1; [|discriminate]. apply N.eqb_eq in E1. rewrite E1.
    destruct (byte_of y <? byte_of z) eqn:L2; [reflexivity|].
    destruct (byte_of y =? byte_of z) eqn:E2; [|discriminate]. eapply IH; eassumption.
Qed.

Lemma str_ltb_total : forall a b, str_ltb a b = false -> a <> b -> str_ltb b a = true.
Proof.
  induction a as [|x a IH]; intros [|y b]; cbn; intros H Hne; try reflexivity; try discriminate.
  - congruence.
  - destruct (byte_of x <? byte_of y) eqn:L1; [discriminate|]. apply N.ltb_ge in L1.
    destruct (byte_of x =? byte_of y) eqn:E1.
    + apply N.eqb_eq in E1. rewrite <- E1, N.ltb_irrefl, N.eqb_refl. apply IH; [assumption|].
      intro. subst. apply Hne. f_equal. apply byte_of_inj, E1.
    + apply N.eqb_neq in E1. assert (byte_of y < byte_of x) as L by lia. apply N.ltb_lt in L. rewrite L. reflexivity.
Qed.

(* ---------- association lists sorted by key ---------- *)
Section Sorted.
  Context {V : Type}.
  Definition below (k : string) (l : list (string * V)) : Prop := Forall (fun e => str_ltb k (fst e) = true) l.
  Fixpoint sorted (l : list (string * V)) : Prop :=
    match l with [] => True | e :: r => below (fst e) r /\ sorted r end.

  Lemma below_trans k k' l : str_ltb k k' = true -> below k' l -> below k l.
  Proof. intros H. apply Forall_impl. intros e He. eapply str_ltb_trans; eassumption. Qed.

  Lemma sorted_NoDup l : sorted l -> NoDup (map fst l).
  Proof.
    induction l as [|e r IH]; cbn; [constructor|]. intros [Hb Hs]. constructor; [|auto].
    intro Hin. apply in_map_iff in Hin. destruct Hin as [e' [E Hin]].
    pose proof (proj1 (Forall_forall _ _) Hb e' Hin) as Hlt. cbn in Hlt. rewrite E, str_ltb_irrefl in Hlt. discriminate.
  Qed.

  (* insertion (node table): the key is not present *)
  Lemma insert_sorted (e : string * V) l :
    sorted l -> ~ In (fst e) (map fst l) ->
    sorted (insert (fun a b => str_ltb (fst a) (fst b)) e l).
  Proof.
    induction l as [|y r IH]; cbn; intros Hs Hn; [split; [constructor|exact I]|].
    destruct Hs as [Hb Hs].
    destruct (str_ltb (fst e) (fst y)) eqn:L.
    - cbn. split; [|split; assumption]. constructor; [exact L|]. eapply below_trans; eassumption.
    - cbn. assert (str_ltb (fst y) (fst e) = true) as Hye.
      { apply str_ltb_total; [assumption|]. intro E. apply Hn. left. symmetry. exact E. }
      split.
      + apply Forall_forall. intros z Hz. apply insert_In_iff in Hz. destruct Hz as [->|Hz]; [exact Hye|].
        exact (proj1 (Forall_forall _ _) Hb z Hz).
      + apply IH; [assumption|]. intro. apply Hn. right. assumption.
  Qed.

  (* put (producers, metadata): replaces or inserts *)
  Lemma put_below k0 k v l : str_ltb k0 k = true -> below k0 l -> below k0 (put k v l).
  Proof.
    intros H0. induction l as [|[k' v'] r IH]; cbn; intro Hb.
    - constructor; [exact H0|constructor].
    - inversion Hb as [|? ? Hk' Hr]; subst. cbn in Hk'.
      destruct (String.eqb k k'); [constructor; [exact H0|exact Hr]|].
      destruct (str_ltb k k'); [constructor; [exact H0|exact Hb]|].
      constructor; [exact Hk'|apply IH, Hr].
  Qed.

  Lemma put_sorted k v l : sorted l -> sorted (put k v l).
  Proof.
    induction l as [|[k' v'] r IH]; cbn; intro Hs; [split; [constructor|exact I]|].
    destruct Hs as [Hb Hs]. cbn in Hb.
    destruct (String.eqb k k') eqn:E.
    - apply String.eqb_eq in E. subst k'. cbn. split; assumption.
    - destruct (str_ltb k k') eqn:L.
      + cbn. split; [|split; assumption]. constructor; [exact L|]. eapply below_trans; eassumption.
      + cbn. split; [|apply IH, Hs].
        apply put_below; [|exact Hb]. apply str_ltb_total; [exact L|]. apply String.eqb_neq, E.
  Qed.

  Lemma filter_below k f l : below k l -> below k (filter f l).
  Proof. intro H. apply Forall_forall. intros e He. apply filter_In in He. exact (proj1 (Forall_forall _ _) H e (proj1 He)). Qed.

  Lemma filter_sorted f l : sorted l -> sorted (filter f l).
  Proof.
    induction l as [|e r IH]; cbn; [auto|]. intros [Hb Hs]. destruct (f e); cbn; [split|]; auto using filter_below.
  Qed.
End Sorted.

Lemma map_node_keys i f l : map fst (map_node i f l) = map fst l.
Proof. unfold map_node. rewrite map_map. apply map_ext. intros e. cbn. destruct (String.eqb _ _); reflexivity. Qed.

Lemma map_node_sorted i f l : sorted l -> sorted (map_node i f l).
Proof.
  induction l as [|e r IH]; cbn; [auto|]. intros [Hb Hs]. split; [|auto].
  assert (forall x : id * node, fst (if String.eqb i (fst x) then (fst x, f (snd x)) else x) = fst x) as Hfst
    by (intro x; destruct (String.eqb _ _); reflexivity).
  rewrite Hfst.
  unfold below in *. apply Forall_forall. intros z Hz. apply in_map_iff in Hz. destruct Hz as [z0 [<- Hz0]].
  rewrite Hfst. exact (proj1 (Forall_forall _ _) Hb z0 Hz0).
Qed.

(* ---------- the invariant ---------- *)
Definition ordered (s : inst) : Prop := sorted (i_nodes s) /\ sorted (i_prods s) /\ sorted (i_meta s).

Lemma meta_set_sorted : forall keys v o o', sorted o -> meta_set keys v o = Some o' -> sorted o'.
Proof.
  induction keys as [|k ks IH]; intros v o o' Hs H; cbn in H; [discriminate|].
  destruct ks as [|k2 ks'].
  - injection H as <-. apply put_sorted, Hs.
  - destruct (get k o) as [[| | | | | |o1|]|]; try discriminate.
    + destruct (meta_set (k2 :: ks') v o1); [|discriminate]. injection H as <-. apply put_sorted, Hs.
    + destruct (meta_set (k2 :: ks') v []); [|discriminate]. injection H as <-. apply put_sorted, Hs.
Qed.

Lemma meta_del_sorted : forall keys o o', sorted o -> meta_del keys o = Some o' -> sorted o'.
Proof.
  induction keys as [|k ks IH]; intros o o' Hs H; cbn in H; [discriminate|].
  destruct ks as [|k2 ks'].
  - injection H as <-. apply filter_sorted, Hs.
  - destruct (get k o) as [[| | | | | |o1|]|]; try discriminate.
    destruct (meta_del (k2 :: ks') o1); [|discriminate]. injection H as <-. apply put_sorted, Hs.
Qed.

Theorem step_ordered T s o : ordered s -> ordered (fst (step T s o)).
Proof.
  intros (Hn & Hp & Hm). destruct o; cbn [step].
  - destruct (nth_error T k); cbn; [|repeat split; assumption].
    repeat split; try assumption. apply insert_sorted; [assumption|]. apply alloc_fresh.
  - destruct (depended_on s i); cbn; [repeat split; assumption|].
    repeat split; try assumption; apply filter_sorted; assumption.
  - destruct (find_node s dst) as [nd|]; [|repeat split; assumption].
    destruct (find_node s src); [|repeat split; assumption].
    destruct (set_input T (tys s) (ports_of T (n_ty nd)) (n_in nd) port src); cbn; [|repeat split; assumption].
    repeat split; try assumption. apply map_node_sorted, Hn.
  - destruct (find_node s dst) as [nd|]; [|repeat split; assumption].
    destruct (clear_input (ports_of T (n_ty nd)) (n_in nd) port); cbn; [|repeat split; assumption].
    repeat split; try assumption. apply map_node_sorted, Hn.
  - destruct (find_node s i) as [n|]; [|repeat split; assumption].
    destruct (n_par n); [|repeat split; assumption].
    destruct (value_fits (kind_of T (n_ty n)) v); cbn; [|repeat split; assumption].
    repeat split; try assumption. apply map_node_sorted, Hn.
  - repeat split; assumption.
  - destruct (is_param s i); cbn; [|repeat split; assumption].
    repeat split; try assumption. apply map_node_sorted, Hn.
  - destruct (is_param s i); cbn; [|repeat split; assumption].
    repeat split; try assumption. apply map_node_sorted, Hn.
  - destruct (is_artifact T (tys s) i); cbn; [|repeat split; assumption].
    repeat split; try assumption. apply put_sorted, filter_sorted, Hp.
  - destruct (meta_set (split_dots path) v (i_meta s)) eqn:E; cbn; [|repeat split; assumption].
    repeat split; try assumption. eapply meta_set_sorted; eassumption.
  - destruct (meta_del (split_dots path) (i_meta s)) eqn:E; cbn; [|repeat split; assumption].
    repeat split; try assumption. eapply meta_del_sorted; eassumption.
Qed.

Lemma run_from_ordered T : forall h s, ordered s -> ordered (fst (run_from T s h)).
Proof.
  induction h as [|o r IH]; intros s Hs; cbn; [exact Hs|].
  pose proof (step_ordered T s o Hs) as H1. destruct (step T s o) as [s1 ok]. cbn in H1.
  specialize (IH s1 H1). destruct (run_from T s1 r) as [s2 oks]. exact IH.
Qed.

(* after any history: the tables are in the order the encoder and encoding/json use ... *)
Theorem run_ordered T h : ordered (run T h).
Proof. unfold run. apply run_from_ordered. repeat split; exact I. Qed.

(* ... in particular no two nodes share an id and no two producers a name *)
Theorem ids_distinct T h : NoDup (ids (run T h)).
Proof. apply sorted_NoDup, (run_ordered T h). Qed.

Theorem producer_names_distinct T h : NoDup (map fst (i_prods (run T h))).
Proof. apply sorted_NoDup, (run_ordered T h). Qed.

(* and the same of a reloaded graph carried on *)
Theorem continuation_ordered T h c s' :
  table_ok T -> decode_fixed T (encode T (run T h)) = Some s' -> ordered (fst (run_from T s' c)).
Proof.
  intros HT H. rewrite reload_same_fixed in H by assumption. injection H as <-.
  apply run_from_ordered, run_ordered.
Qed.
