(* C13, round 4 -- extensions of the lock-level model (definitions only; proofs in Graph/LockExtProofs.v).

   1. Sequential scripts ("sweeps"): one client, calls in program order with consecutive stamps.  Long bursts of
      updates are written compactly ([SU p vs] = one successful UpdateParameter(p, v) per v).  On such a history
      the only order compatible with real time is the program order, so the oracle is the linear replay [legalb].
   2. The HTTP layer (generator/app_server.go, app_server_parameter.go): a request is served by a handler that
      performs ONE call of an entry point of graph.Instance and answers with a function of that call's result.
      What a client observes is [http_obs]: the same operation, an interval that CONTAINS the interval of the
      Instance call, and -- when the handler is "plain" according to the generated handler facts -- the response
      of its OWN call; a handler that keeps state between requests (a response cache, request coalescing) may
      answer with the response of another request's call of the same operation.
   3. Handler facts (generated into coq/gen/LockFacts.v by tools/lockfacts from the two files above).
   4. Dependency-version bookkeeping of nodes.Struct: the recorded versions are compared element by element
      ([stale_by_list]); a variant that folds them into one stamp ([fold_stamp]) is not injective. *)
From Coq Require Import List NArith Arith Bool String.
From PF Require Import Graph.Lock.
Import ListNotations.

(* ------------------------------------------------------------------ *)
(** * 1. Sequential scripts *)

Inductive seg :=
| SU (p : nat) (vs : list N)          (* consecutive UpdateParameter(p, json v) calls, each answered (true, nil) *)
| SC (o : op) (r : resp).             (* any other call, with what it returned *)

Definition seg_ops (g : seg) : list (op * resp) :=
  match g with
  | SU p vs => map (fun v => (Update p v, RUpd true)) vs
  | SC o r => [(o, r)]
  end.

(* calls of ONE client in program order: stamps i, i+1, i+2, ... *)
Fixpoint number (i : nat) (l : list (op * resp)) : list call :=
  match l with
  | [] => []
  | (o, r) :: t => mkcall 0 o r i (S i) :: number (S (S i)) t
  end.

Definition expand (segs : list seg) : list call := number 0 (flat_map seg_ops segs).

(* sequential replay in the given order *)
Fixpoint legalb (s : state) (l : list call) : bool :=
  match l with
  | [] => true
  | x :: r => if resp_eqb (snd (seq_step s (c_op x))) (c_resp x) then legalb (fst (seq_step s (c_op x))) r else false
  end.

(* ------------------------------------------------------------------ *)
(** * 2. What an HTTP client observes *)

(* [y] is what the client of the request that performed Instance call [x] observes; [all] = every Instance call of
   the run; [H o] = the handler serving operation [o] is plain (no state shared between requests) *)
Definition http_obs (H : op -> bool) (all : list call) (x y : call) : Prop :=
  c_op y = c_op x /\ c_inv y <= c_inv x /\ c_res x <= c_res y /\
  (if H (c_op x) then c_resp y = c_resp x
   else exists x0, In x0 all /\ c_op x0 = c_op x /\ c_resp y = c_resp x0).

(* ------------------------------------------------------------------ *)
(** * 3. Handler facts *)

Record hfacts := {
  hf_name : string;                    (* file:function (".func<k>" / ".<local>" for a function literal inside it) *)
  hf_entry_calls : list string;        (* entry points of graph.Instance reached (<expr>.UpdateParameter / .ParameterData /
                                          .Artifact), directly or through package functions, one per call site *)
  hf_bypass : nat;                     (* calls that reach parameter state without the entry points:
                                          .ApplyMessage(..), .ToMessage() *)
  hf_gos : nat;                        (* go statements *)
  hf_chan_ops : nat;                   (* channel sends / receives / select / close / make(chan) *)
  hf_sync_mentions : nat;              (* uses of package sync / sync/atomic *)
  hf_shared : list string              (* state that outlives the request and that the function may change: receiver
                                          fields, package variables, captured locals of the enclosing function that are
                                          assigned, deleted from, indexed, address-taken or have methods called on *)
}.

(* a function that reaches an entry point serves exactly one call site of exactly one entry point, reaches
   parameter / producer state in no other way, and keeps nothing between requests *)
Definition handler_ok (h : hfacts) : bool :=
  match hf_entry_calls h with
  | [] => Nat.eqb (hf_bypass h) 0
  | [e] =>
      str_in e entry_points && Nat.eqb (hf_bypass h) 0 && Nat.eqb (hf_gos h) 0 && Nat.eqb (hf_chan_ops h) 0
      && Nat.eqb (hf_sync_mentions h) 0
      && match hf_shared h with [] => true | _ => false end
  | _ => false
  end.

(* the handlers that serve operation [o] *)
Definition serves (o : op) (h : hfacts) : bool := str_in (entry_name o) (hf_entry_calls h).

Definition served (hs : list hfacts) (n : string) : bool := existsb (fun h => str_in n (hf_entry_calls h)) hs.

(* every entry point is served by some handler, and every handler that reaches an entry point is plain *)
Definition http_facts_ok (hs : list hfacts) : bool :=
  forallb (served hs) entry_points && forallb handler_ok hs.

Definition plain_of (hs : list hfacts) (o : op) : bool :=
  served hs (entry_name o) && forallb (fun h => negb (serves o h) || handler_ok h) hs.

(* ------------------------------------------------------------------ *)
(** * 4. Dependency versions of a node: list comparison vs one folded stamp *)

(* nodes.Struct.Outdated: the recorded versions against the current ones, element by element *)
Definition stale_by_list (recorded current : list N) : bool := negb (list_eqb N.eqb recorded current).

(* /repo HEAD since fix 6677351: dependencies the last run of Process() did not read ([unread]) are skipped *)
Definition stale_masked (unread : list bool) (recorded current : list N) : bool :=
  existsb (fun x => negb (fst x) && negb (N.eqb (fst (snd x)) (snd (snd x)))) (combine unread (combine recorded current)).

(* the folded variant: stamp = fold (fun s v => s<<sh xor v) from the seed s0 (e.g. the number of dependencies) *)
Definition fold_stamp (sh s0 : N) (vs : list N) : N := fold_left (fun s v => N.lxor (N.shiftl s sh) v) vs s0.
Definition stale_by_stamp (sh s0 : N) (recorded current : list N) : bool :=
  negb (N.eqb (fold_stamp sh s0 recorded) (fold_stamp sh s0 current)).
