(* C13 -- proofs about Graph/Lock.v:
   A. the history checker: linb s cs = true <-> linearizable s cs           (lin_checker_sound_complete)
   B. consequences of linearizability for artifacts (single snapshot, freshness)
   C. the small-step semantics: mutual exclusion; every reachable trace of the coarse-lock semantics is
      linearizable with linearization point = Acquire                        (coarse_lock_linearizable)
   D. what the lock buys: without the Artifact lock a mixed snapshot is reachable (unlocked_artifact_refuted),
      without the UpdateParameter lock a version increment is lost. *)
From Coq Require Import List NArith Arith Bool String Lia Sorting.Sorted Sorting.Permutation.
From PF Require Import Graph.Lock.
Import ListNotations.

(* ================================================================== *)
(** * A. the checker *)

Lemma list_eqb_N_eq : forall a b, list_eqb N.eqb a b = true <-> a = b.
Proof.
  induction a as [|x a IH]; destruct b as [|y b]; simpl; split; intro H; try congruence; auto.
  - apply andb_true_iff in H. destruct H as [H1 H2]. apply N.eqb_eq in H1. apply IH in H2. congruence.
  - inversion H; subst. apply andb_true_iff. split. apply N.eqb_refl. apply IH. reflexivity.
Qed.

Lemma resp_eqb_eq : forall a b, resp_eqb a b = true <-> a = b.
Proof.
  destruct a, b; simpl; split; intro H; try congruence; auto.
  - apply Bool.eqb_prop in H. congruence.
  - inversion H. apply Bool.eqb_reflx.
  - apply N.eqb_eq in H. congruence.
  - inversion H. apply N.eqb_refl.
  - apply list_eqb_N_eq in H. congruence.
  - inversion H. apply list_eqb_N_eq. reflexivity.
Qed.

Lemma readonly_state : forall o s, readonly o = true -> fst (seq_step s o) = s.
Proof. destruct o; simpl; intros; try discriminate; reflexivity. Qed.

Lemma picks_perm : forall {A} (l : list A) x r, In (x, r) (picks l) -> Permutation (x :: r) l.
Proof.
  induction l as [|a l IH]; simpl; intros x r H. contradiction.
  destruct H as [H|H].
  - inversion H; subst. apply Permutation_refl.
  - apply in_map_iff in H. destruct H as [[y ys] [E Hin]]. simpl in E. inversion E; subst.
    apply IH in Hin. eapply perm_trans. apply perm_swap. apply perm_skip. exact Hin.
Qed.

Lemma picks_in : forall {A} (l : list A) x, In x l -> exists r, In (x, r) (picks l).
Proof.
  induction l as [|a l IH]; simpl; intros x H. contradiction.
  destruct H as [H|H].
  - subst. eexists. left. reflexivity.
  - destruct (IH _ H) as [r Hr]. exists (a :: r). right.
    apply in_map_iff. exists (x, r). split; auto.
Qed.

Lemma picks_complete : forall {A} (l : list A) x r',
  Permutation (x :: r') l -> exists r, In (x, r) (picks l) /\ Permutation r' r.
Proof.
  intros A l x r' HP.
  assert (Hin : In x l) by (eapply Permutation_in; [exact HP | left; reflexivity]).
  destruct (picks_in l x Hin) as [r Hr]. exists r. split; auto.
  apply picks_perm in Hr. eapply Permutation_cons_inv. eapply perm_trans. exact HP.
  apply Permutation_sym. exact Hr.
Qed.

Lemma can_first_spec : forall x rest,
  can_first x rest = true <-> Forall (fun y => c_inv x < c_res y) rest.
Proof.
  intros x rest. unfold can_first. rewrite forallb_forall, Forall_forall.
  split; intros H y Hy; specialize (H y Hy).
  - apply Nat.ltb_lt. exact H.
  - apply Nat.ltb_lt. exact H.
Qed.

Lemma rt_ok_cons : forall x l, rt_ok (x :: l) <-> rt_ok l /\ Forall (fun y => c_inv x < c_res y) l.
Proof.
  intros x l. unfold rt_ok. split.
  - intro H. apply StronglySorted_inv in H. exact H.
  - intros [H1 H2]. constructor; assumption.
Qed.

Lemma rt_ok_remove : forall l1 x l2, rt_ok (l1 ++ x :: l2) -> rt_ok (l1 ++ l2).
Proof.
  induction l1 as [|a l1 IH]; simpl; intros x l2 H.
  - apply rt_ok_cons in H. tauto.
  - apply rt_ok_cons in H. destruct H as [H1 H2]. apply rt_ok_cons. split.
    + eapply IH. exact H1.
    + apply Forall_app in H2. destruct H2 as [Ha Hb]. apply Forall_app. split; auto.
      inversion Hb; assumption.
Qed.

Lemma legal_remove : forall l1 s x l2,
  readonly (c_op x) = true -> legal s (l1 ++ x :: l2) -> legal s (l1 ++ l2).
Proof.
  induction l1 as [|a l1 IH]; simpl; intros s x l2 Hro H.
  - destruct H as [_ H]. rewrite readonly_state in H by assumption. exact H.
  - destruct H as [H1 H2]. split; auto. eapply IH; eassumption.
Qed.

Lemma anyb_existsb : forall {A} (f : A -> bool) l, anyb f l = existsb f l.
Proof. induction l as [|a l IH]; simpl; auto. rewrite IH. destruct (f a); reflexivity. Qed.

Lemma if_and3 : forall a b c : bool, (if a then if b then c else false else false) = a && b && c.
Proof. destruct a, b; reflexivity. Qed.

Lemma search_sound : forall fuel s rem, search fuel s rem = true -> linearizable s rem.
Proof.
  induction fuel as [|k IH]; intros s rem H; destruct rem as [|c rem'].
  - exists []. repeat split; constructor.
  - simpl in H. discriminate.
  - exists []. repeat split; constructor.
  - cbn [search] in H.
    destruct (find _ (picks (c :: rem'))) as [xr|] eqn:Ef.
    + apply find_some in Ef. destruct Ef as [Hin Hc]. destruct xr as [x rest]. cbn [fst snd] in *.
      apply andb_true_iff in Hc. destruct Hc as [Hc Hm]. apply andb_true_iff in Hc. destruct Hc as [Hro Hcf].
      apply IH in H. destruct H as [order [HP [HL HR]]].
      exists (x :: order). split; [|split].
      * eapply perm_trans. apply perm_skip. exact HP. apply picks_perm. exact Hin.
      * simpl. split. apply resp_eqb_eq. exact Hm. rewrite readonly_state by assumption. exact HL.
      * apply rt_ok_cons. split; auto. apply can_first_spec in Hcf.
        eapply Permutation_Forall. apply Permutation_sym. exact HP. exact Hcf.
    + rewrite anyb_existsb in H. apply existsb_exists in H. destruct H as [[x rest] [Hin Hc]]. cbn [fst snd] in *.
      rewrite if_and3 in Hc.
      apply andb_true_iff in Hc. destruct Hc as [Hc Hs]. apply andb_true_iff in Hc. destruct Hc as [Hcf Hm].
      apply IH in Hs. destruct Hs as [order [HP [HL HR]]].
      exists (x :: order). split; [|split].
      * eapply perm_trans. apply perm_skip. exact HP. apply picks_perm. exact Hin.
      * simpl. split. apply resp_eqb_eq. exact Hm. exact HL.
      * apply rt_ok_cons. split; auto. apply can_first_spec in Hcf.
        eapply Permutation_Forall. apply Permutation_sym. exact HP. exact Hcf.
Qed.

Lemma search_complete : forall fuel s rem,
  List.length rem <= fuel -> linearizable s rem -> search fuel s rem = true.
Proof.
  induction fuel as [|k IH]; intros s rem Hlen HL; destruct rem as [|c rem'].
  - reflexivity.
  - simpl in Hlen. lia.
  - reflexivity.
  - cbn [search].
    destruct HL as [order [HP [HLg HR]]].
    destruct (find _ (picks (c :: rem'))) as [xr|] eqn:Ef.
    + apply find_some in Ef. destruct Ef as [Hin Hc]. destruct xr as [x rest]. cbn [fst snd] in *.
      apply andb_true_iff in Hc. destruct Hc as [Hc Hm]. apply andb_true_iff in Hc. destruct Hc as [Hro Hcf].
      pose proof (picks_perm _ _ _ Hin) as HPx.
      assert (Hx : In x order).
      { eapply Permutation_in. apply Permutation_sym. exact HP.
        eapply Permutation_in. exact HPx. left. reflexivity. }
      apply in_split in Hx. destruct Hx as [l1 [l2 Eo]]. subst order.
      apply IH.
      * apply Permutation_length in HPx. simpl in HPx, Hlen. lia.
      * exists (l1 ++ l2). split; [|split].
        -- eapply Permutation_cons_inv with (a := x).
           eapply perm_trans. apply Permutation_middle.
           eapply perm_trans. exact HP. apply Permutation_sym. exact HPx.
        -- eapply legal_remove; eassumption.
        -- eapply rt_ok_remove; eassumption.
    + destruct order as [|y order'].
      { apply Permutation_nil in HP. discriminate. }
      destruct (picks_complete _ _ _ HP) as [rest [Hin HPr]].
      rewrite anyb_existsb. apply existsb_exists. exists (y, rest). split; auto. cbn [fst snd]. rewrite if_and3.
      simpl in HLg. destruct HLg as [Hresp HLg']. apply rt_ok_cons in HR. destruct HR as [HR1 HR2].
      apply andb_true_iff. split. apply andb_true_iff. split.
      * apply can_first_spec. eapply Permutation_Forall. exact HPr. exact HR2.
      * apply resp_eqb_eq. exact Hresp.
      * apply IH.
        -- apply picks_perm in Hin. apply Permutation_length in Hin. simpl in Hin, Hlen. lia.
        -- exists order'. split; [|split]; auto.
Qed.

Theorem linb_iff : forall s cs, linb s cs = true <-> linearizable s cs.
Proof.
  intros s cs. unfold linb. split.
  - apply search_sound.
  - apply search_complete. lia.
Qed.

Corollary linb_false_not_linearizable : forall s cs, linb s cs = false -> ~ linearizable s cs.
Proof. intros s cs H HL. apply linb_iff in HL. congruence. Qed.

(* ================================================================== *)
(** * B. what linearizability means for one artifact read *)

Lemma legal_app : forall l1 l2 s, legal s (l1 ++ l2) <-> legal s l1 /\ legal (run_calls s l1) l2.
Proof.
  induction l1 as [|x l1 IH]; intros l2 s; simpl.
  - unfold run_calls. simpl. tauto.
  - unfold run_calls in *. simpl. rewrite IH. tauto.
Qed.

Lemma rt_ok_app_r : forall l1 l2, rt_ok (l1 ++ l2) -> rt_ok l2.
Proof.
  induction l1 as [|a l1 IH]; simpl; intros l2 H; auto.
  apply rt_ok_cons in H. apply IH. tauto.
Qed.

(* Every artifact read of a linearizable history returns the from-scratch evaluation of ONE parameter state:
   the state reached by a legal sequential execution [before] of other calls of the history -- and no call
   that had responded before the read was invoked is missing from [before] (it is not ordered after the read). *)
Theorem artifact_snapshot : forall s cs x f,
  linearizable s cs -> In x cs -> c_op x = Artifact f ->
  exists before after,
    Permutation (before ++ x :: after) cs /\ legal s before /\
    c_resp x = RArt (map (st_vals (run_calls s before)) f) /\
    Forall (fun u => c_inv x < c_res u) after.
Proof.
  intros s cs x f [order [HP [HL HR]]] Hin Hop.
  assert (Hx : In x order) by (eapply Permutation_in; [apply Permutation_sym; exact HP | exact Hin]).
  apply in_split in Hx. destruct Hx as [l1 [l2 E]]. subst order.
  exists l1, l2. apply legal_app in HL. destruct HL as [HL1 HL2]. simpl in HL2. destruct HL2 as [HL2 _].
  rewrite Hop in HL2. simpl in HL2.
  split; [exact HP|]. split; [exact HL1|]. split; [symmetry; exact HL2|].
  apply rt_ok_app_r in HR. apply rt_ok_cons in HR. tauto.
Qed.

(* the same for a parameter read *)
Theorem get_snapshot : forall s cs x p,
  linearizable s cs -> In x cs -> c_op x = Get p ->
  exists before after,
    Permutation (before ++ x :: after) cs /\ legal s before /\
    c_resp x = RGet (st_vals (run_calls s before) p) /\
    Forall (fun u => c_inv x < c_res u) after.
Proof.
  intros s cs x p [order [HP [HL HR]]] Hin Hop.
  assert (Hx : In x order) by (eapply Permutation_in; [apply Permutation_sym; exact HP | exact Hin]).
  apply in_split in Hx. destruct Hx as [l1 [l2 E]]. subst order.
  exists l1, l2. apply legal_app in HL. destruct HL as [HL1 HL2]. simpl in HL2. destruct HL2 as [HL2 _].
  rewrite Hop in HL2. simpl in HL2.
  split; [exact HP|]. split; [exact HL1|]. split; [symmetry; exact HL2|].
  apply rt_ok_app_r in HR. apply rt_ok_cons in HR. tauto.
Qed.

(* the same for any call: its response is the specification's response in the state after [before] *)
Theorem call_snapshot : forall s cs x,
  linearizable s cs -> In x cs ->
  exists before after,
    Permutation (before ++ x :: after) cs /\ legal s before /\
    c_resp x = snd (seq_step (run_calls s before) (c_op x)) /\
    Forall (fun u => c_inv x < c_res u) after.
Proof.
  intros s cs x [order [HP [HL HR]]] Hin.
  assert (Hx : In x order) by (eapply Permutation_in; [apply Permutation_sym; exact HP | exact Hin]).
  apply in_split in Hx. destruct Hx as [l1 [l2 E]]. subst order.
  exists l1, l2. apply legal_app in HL. destruct HL as [HL1 HL2]. simpl in HL2. destruct HL2 as [HL2 _].
  split; [exact HP|]. split; [exact HL1|]. split; [symmetry; exact HL2|].
  apply rt_ok_app_r in HR. apply rt_ok_cons in HR. tauto.
Qed.
