(* C12: executable model of generator/graph.Instance as far as saving and loading are concerned:
   the id table (buildIDsForNode), typed nodes with scalar and array input ports (nodes.Struct.SetInput /
   Dependencies, refutil.{SetStructField,AddToStructFieldArray,RemoveFromStructFieldArray}), parameter
   records per parameter kind (parameter.Value[T] / File / Image), producers, the metadata tree
   (sync.NestedSyncMap), the editing operations of the Go API, EncodeToAppSchema ([encode]) and
   ApplyAppSchema ([decode]).  No proofs in this file. *)
From Coq Require Import String Ascii.
From PF Require Import Base.Bytes Graph.Schema.
Open Scope N_scope.

(* ---------- node types (the factory) ---------- *)
Record port := P { p_name : string; p_array : bool; p_vt : N }.       (* p_vt: code of the value type T of NodeOutput[T] *)
Inductive pkind := PNone | PValue | PFile | PImage.

(* what a parameter node holds (Value() is [pr_val]: applied value, else the default) *)
Record prec := mkprec {
  pr_name : string; pr_desc : string; pr_def : option jval; pr_val : option jval;
  pr_cli : option (string * string) }.

Record ty := mkty {
  t_ports : list port;          (* input ports, sorted by name *)
  t_out : N;                    (* value type of the "Out" port *)
  t_kind : pkind;
  t_artifact : bool;            (* Out is a NodeOutput[artifact.Artifact] *)
  t_def : option prec }.        (* the record of a freshly built node of this type (None: not a parameter) *)

Definition table := list ty.

(* ---------- instance ---------- *)
Record node := mknode { n_ty : nat; n_in : list (list id); n_par : option prec }.   (* n_in aligned with t_ports *)

Record inst := mkinst {
  i_nodes : list (id * node);          (* kept sorted by id (the order EncodeToAppSchema visits them in) *)
  i_prods : list (string * id);        (* producer name -> node (port is always "Out"), sorted by name *)
  i_meta : list (string * jval) }.     (* metadata object, keys sorted *)

Definition empty : inst := mkinst [] [] [].

Definition ids (s : inst) : list id := map fst (i_nodes s).
Definition tys (s : inst) : list (id * nat) := map (fun e => (fst e, n_ty (snd e))) (i_nodes s).

Definition mem (x : string) (l : list string) : bool := existsb (String.eqb x) l.

(* buildIDsForNode: the first k >= len(nodeIDs) whose "Node-k" is free *)
Fixpoint alloc_from (fuel : nat) (k : N) (used : list id) : id :=
  match fuel with
  | O => node_id k
  | S f => if mem (node_id k) used then alloc_from f (k + 1) used else node_id k
  end.
Definition alloc (used : list id) : id := alloc_from (S (length used)) (N.of_nat (length used)) used.

(* sorted association lists (Go maps as encoding/json prints them) *)
Section Assoc.
  Context {V : Type}.
  Fixpoint put (k : string) (v : V) (l : list (string * V)) : list (string * V) :=
    match l with
    | [] => [(k, v)]
    | (k', v') :: r =>
        if String.eqb k k' then (k, v) :: r
        else if str_ltb k k' then (k, v) :: (k', v') :: r
        else (k', v') :: put k v r
    end.
  Fixpoint get (k : string) (l : list (string * V)) : option V :=
    match l with
    | [] => None
    | (k', v') :: r => if String.eqb k k' then Some v' else get k r
    end.
  Definition del (k : string) (l : list (string * V)) : list (string * V) :=
    filter (fun e => negb (String.eqb k (fst e))) l.
End Assoc.

Definition find_node (s : inst) (i : id) : option node := get i (i_nodes s).

Definition map_node (i : id) (f : node -> node) (l : list (id * node)) : list (id * node) :=
  map (fun e => if String.eqb i (fst e) then (fst e, f (snd e)) else e) l.

Definition fresh (t : ty) (k : nat) : node :=
  mknode k (map (fun _ => []) (t_ports t)) (t_def t).

Definition out_vt (T : table) (k : nat) : option N :=
  match nth_error T k with Some t => Some (t_out t) | None => None end.
Definition has_src (T : table) (tl : list (id * nat)) (src : id) (vt : N) : bool :=
  existsb (fun e => String.eqb (fst e) src && opt_eqb N.eqb (out_vt T (snd e)) (Some vt)) tl.
Definition is_artifact (T : table) (tl : list (id * nat)) (i : id) : bool :=
  existsb (fun e => String.eqb (fst e) i &&
                    match nth_error T (snd e) with Some t => t_artifact t | None => false end) tl.

Definition find_port (ps : list port) (f : string) : option port :=
  find (fun p => String.eqb (p_name p) f) ps.

(* the input lists are kept aligned with the port table; an update addresses the port by its field name *)
Fixpoint zip_upd (ps : list port) (ins : list (list id)) (f : string) (g : list id -> list id) : list (list id) :=
  match ps, ins with
  | p :: ps', l :: ins' => (if String.eqb (p_name p) f then g l else l) :: zip_upd ps' ins' f g
  | _, _ => []
  end.
Fixpoint port_val (ps : list port) (ins : list (list id)) (f : string) : option (list id) :=
  match ps, ins with
  | p :: ps', l :: ins' => if String.eqb (p_name p) f then Some l else port_val ps' ins' f
  | _, _ => None
  end.

Fixpoint remove_nth {A} (k : nat) (l : list A) : list A :=
  match l, k with
  | [], _ => []
  | _ :: r, O => r
  | x :: r, S k' => x :: remove_nth k' r
  end.

(* which field a SetInput name addresses, and whether it is the dotted (array) form: the FIRST dot decides *)
Definition field_of (name : string) : string := match lsplit name with Some (f, _) => f | None => name end.
Definition dotted (name : string) : bool := match lsplit name with Some _ => true | None => false end.

(* reflect accepts the assignment: the field exists, has the addressed shape, and the source's value type fits *)
Definition accepts (T : table) (tl : list (id * nat)) (ps : list port) (name : string) (src : id) : bool :=
  match find_port ps (field_of name) with
  | Some p => Bool.eqb (p_array p) (dotted name) && has_src T tl src (p_vt p)
  | None => false
  end.

(* nodes.Struct.SetInput(name, output) with a non-nil output: a dotted name appends to the slice field named
   before the FIRST dot (the index after it is ignored), an undotted name assigns the interface field.
   reflect panics (= rejected) when the field is missing, of the other shape, or of another value type. *)
Definition set_input (T : table) (tl : list (id * nat)) (ps : list port) (ins : list (list id))
           (name : string) (src : id) : option (list (list id)) :=
  if accepts T tl ps name src
  then Some (zip_upd ps ins (field_of name) (fun l => if dotted name then l ++ [src] else [src]))
  else None.

(* strconv.Atoi on the index of a disconnect request (the request's text, not a saved name): an optional sign is
   accepted — "+k" is k, "-0" is 0, any other negative index makes reflect's slicing panic *)
Definition atoi_idx (s : string) : option N :=
  match s with
  | String c r =>
      if Ascii.eqb c "+"%char then atoi r
      else if Ascii.eqb c "-"%char then match atoi r with Some 0 => Some 0 | _ => None end
      else atoi s
  | EmptyString => None
  end.

(* SetInput(name, nil): "F.k" removes element k of the slice (strconv.Atoi, then reflect slicing: k < len),
   an undotted name zeroes the field — a slice field is emptied as a whole *)
Definition clear_input (ps : list port) (ins : list (list id)) (name : string) : option (list (list id)) :=
  match lsplit name with
  | Some (f, rest) =>
      do idx <- atoi_idx rest;
      do p <- find_port ps f;
      do l <- port_val ps ins f;
      if p_array p && (idx <? N.of_nat (length l))
      then Some (zip_upd ps ins f (remove_nth (N.to_nat idx))) else None
  | None =>
      do p <- find_port ps name;
      Some (zip_upd ps ins name (fun _ => []))
  end.

Definition ports_of (T : table) (k : nat) : list port :=
  match nth_error T k with Some t => t_ports t | None => [] end.
Definition kind_of (T : table) (k : nat) : pkind :=
  match nth_error T k with Some t => t_kind t | None => PNone end.

(* ---------- metadata: sync.NestedSyncMap.Set / Delete on a path split at every dot ---------- *)
Fixpoint meta_set (keys : list string) (v : jval) (o : list (string * jval)) : option (list (string * jval)) :=
  match keys with
  | [] => None
  | [k] => Some (put k v o)
  | k :: ks =>
      match get k o with
      | Some (JObj o') => do o'' <- meta_set ks v o'; Some (put k (JObj o'') o)
      | Some _ => None                                           (* "isn't a map" *)
      | None => do o'' <- meta_set ks v []; Some (put k (JObj o'') o)
      end
  end.
Fixpoint meta_del (keys : list string) (o : list (string * jval)) : option (list (string * jval)) :=
  match keys with
  | [] => None
  | [k] => Some (del k o)
  | k :: ks =>
      match get k o with
      | Some (JObj o') => do o'' <- meta_del ks o'; Some (put k (JObj o'') o)
      | _ => None                                                (* missing key / not a map: lookup panics *)
      end
  end.

(* ---------- editing operations ---------- *)
Inductive op :=
| OCreate (k : nat)
| ODelete (i : id)
| OConnect (src dst : id) (port : string)
| ODisconnect (dst : id) (port : string)
| OUpdate (i : id) (v : jval)          (* the value the message denotes for the target's parameter type *)
| OUpdateBad (i : id)                  (* a message the target's type rejects *)
| OSetName (i : id) (s : string)
| OSetDesc (i : id) (s : string)
| OSetProducer (i : id) (name : string)
| OSetMeta (path : string) (v : jval)
| ODelMeta (path : string).

Definition insert_node (e : id * node) (l : list (id * node)) : list (id * node) :=
  insert (fun a b => str_ltb (fst a) (fst b)) e l.

Definition depended_on (s : inst) (i : id) : bool :=
  existsb (fun e => existsb (mem i) (n_in (snd e))) (i_nodes s).

Definition set_nodes (s : inst) (l : list (id * node)) : inst := mkinst l (i_prods s) (i_meta s).
Definition set_par (n : node) (f : prec -> prec) : node :=
  mknode (n_ty n) (n_in n) (match n_par n with Some r => Some (f r) | None => None end).
Definition is_param (s : inst) (i : id) : bool :=
  match find_node s i with Some n => match n_par n with Some _ => true | None => false end | None => false end.

Definition value_fits (k : pkind) (v : jval) : bool :=
  match k, v with
  | PValue, _ => true
  | PFile, JBytes _ => true
  | PImage, JBytes _ => true
  | _, _ => false
  end.

(* one operation: new state and whether the call succeeded (false: error return or panic, state unchanged) *)
Definition step (T : table) (s : inst) (o : op) : inst * bool :=
  match o with
  | OCreate k =>
      match nth_error T k with
      | Some t => (set_nodes s (insert_node (alloc (ids s), fresh t k) (i_nodes s)), true)
      | None => (s, false)
      end
  | ODelete i =>
      (* the property only speaks of deleting nodes nothing depends on *)
      if depended_on s i then (s, false)
      else (mkinst (del i (i_nodes s)) (filter (fun e => negb (String.eqb i (snd e))) (i_prods s)) (i_meta s), true)
  | OConnect src dst port =>
      match find_node s dst, find_node s src with
      | Some nd, Some _ =>
          match set_input T (tys s) (ports_of T (n_ty nd)) (n_in nd) port src with
          | Some _ =>
              (set_nodes s (map_node dst (fun n =>
                 match set_input T (tys s) (ports_of T (n_ty n)) (n_in n) port src with
                 | Some ins => mknode (n_ty n) ins (n_par n) | None => n end) (i_nodes s)), true)
          | None => (s, false)
          end
      | _, _ => (s, false)
      end
  | ODisconnect dst port =>
      match find_node s dst with
      | Some nd =>
          match clear_input (ports_of T (n_ty nd)) (n_in nd) port with
          | Some _ =>
              (set_nodes s (map_node dst (fun n =>
                 match clear_input (ports_of T (n_ty n)) (n_in n) port with
                 | Some ins => mknode (n_ty n) ins (n_par n) | None => n end) (i_nodes s)), true)
          | None => (s, false)
          end
      | None => (s, false)
      end
  | OUpdate i v =>
      match find_node s i with
      | Some n =>
          match n_par n with
          | Some _ =>
              if value_fits (kind_of T (n_ty n)) v
              then (set_nodes s (map_node i (fun n => if value_fits (kind_of T (n_ty n)) v
                      then set_par n (fun r => mkprec (pr_name r) (pr_desc r) (pr_def r) (Some v) (pr_cli r)) else n)
                      (i_nodes s)), true)
              else (s, false)
          | None => (s, false)
          end
      | None => (s, false)
      end
  | OUpdateBad _ => (s, false)
  | OSetName i x =>
      if is_param s i
      then (set_nodes s (map_node i (fun n => set_par n (fun r => mkprec x (pr_desc r) (pr_def r) (pr_val r) (pr_cli r)))
                                  (i_nodes s)), true)
      else (s, false)
  | OSetDesc i x =>
      if is_param s i
      then (set_nodes s (map_node i (fun n => set_par n (fun r => mkprec (pr_name r) x (pr_def r) (pr_val r) (pr_cli r)))
                                  (i_nodes s)), true)
      else (s, false)
  | OSetProducer i name =>
      (* SetNodeAsProducer: drop every name that pointed at this node, then bind the new name *)
      if is_artifact T (tys s) i
      then (mkinst (i_nodes s) (put name i (filter (fun e => negb (String.eqb i (snd e))) (i_prods s))) (i_meta s), true)
      else (s, false)
  | OSetMeta path v =>
      match meta_set (split_dots path) v (i_meta s) with
      | Some m => (mkinst (i_nodes s) (i_prods s) m, true)
      | None => (s, false)
      end
  | ODelMeta path =>
      match meta_del (split_dots path) (i_meta s) with
      | Some m => (mkinst (i_nodes s) (i_prods s) m, true)
      | None => (s, false)
      end
  end.

Fixpoint run_from (T : table) (s : inst) (h : list op) : inst * list bool :=
  match h with
  | [] => (s, [])
  | o :: r => let '(s1, ok) := step T s o in let '(s2, oks) := run_from T s1 r in (s2, ok :: oks)
  end.
Definition run (T : table) (h : list op) : inst := fst (run_from T empty h).

(* ---------- encode: EncodeToAppSchema ---------- *)
(* nodes.Struct.Dependencies: scalar ports by field name, array ports as field.k with decimal k *)
Fixpoint enum_arr (f : string) (k : N) (l : list id) : list sdep :=
  match l with
  | [] => []
  | x :: r => mkdep (arr_name f k) x "Out" :: enum_arr f (k + 1) r
  end.
Definition enum_port (p : port) (l : list id) : list sdep :=
  if p_array p then enum_arr (p_name p) 0 l else map (fun x => mkdep (p_name p) x "Out") l.
Fixpoint enum_deps (ps : list port) (ins : list (list id)) : list sdep :=
  match ps, ins with
  | p :: ps', l :: ins' => enum_port p l ++ enum_deps ps' ins'
  | _, _ => []
  end.

Definition sort_deps (less : string -> string -> bool) (l : list sdep) : list sdep :=
  isort (fun a b => less (d_name a) (d_name b)) l.

(* ToJSON of the three parameter kinds: the data object and what the node appends to buffer 0.
   Value[T]: everything inline.  File / Image: the current value goes to the buffer when it is non-nil;
   the default value is never written (the Go code tests the freshly built schema's nil field). *)
Definition encode_par (k : pkind) (off : N) (r : prec) : sdata * list N :=
  match k with
  | PFile | PImage =>
      match pr_val r with
      | Some (JBytes b) =>
          (mkdata (pr_name r) (Some (pr_desc r)) (FView off (N.of_nat (length b))) FAbsent (pr_cli r), b)
      | _ => (mkdata (pr_name r) (Some (pr_desc r)) FAbsent FAbsent (pr_cli r), [])
      end
  | _ =>
      (mkdata (pr_name r) (Some (pr_desc r))
              (match pr_val r with Some v => FPlain v | None => FAbsent end)
              (match pr_def r with Some v => FPlain v | None => FAbsent end) (pr_cli r), [])
  end.

Definition encode_node (less : string -> string -> bool) (T : table) (off : N) (e : id * node) : snode * list N :=
  let n := snd e in
  let deps := sort_deps less (enum_deps (ports_of T (n_ty n)) (n_in n)) in
  match n_par n with
  | Some r => let '(d, payload) := encode_par (kind_of T (n_ty n)) off r in
              (mksnode (fst e) (n_ty n) deps (Some d), payload)
  | None => (mksnode (fst e) (n_ty n) deps None, [])
  end.

(* nodes are visited in id order, each appending its payload to the buffer *)
Fixpoint encode_nodes (less : string -> string -> bool) (T : table) (off : N) (l : list (id * node))
  : list snode * list N :=
  match l with
  | [] => ([], [])
  | e :: r =>
      let '(sn, p) := encode_node less T off e in
      let '(sns, buf) := encode_nodes less T (off + N.of_nat (length p)) r in
      (sn :: sns, p ++ buf)
  end.

Definition encode_with (less : string -> string -> bool) (T : table) (s : inst) : schema :=
  let '(sns, buf) := encode_nodes less T 0 (i_nodes s) in
  mkschema sns (map (fun e => (fst e, snd e, "Out"%string)) (i_prods s)) (i_meta s) buf.

Definition encode := encode_with dep_less.                   (* /repo HEAD *)
Definition encode_pinned := encode_with dep_less_pinned.     (* pinned snapshot ea40ecc *)

(* ---------- decode: ApplyAppSchema ---------- *)
Fixpoint fold_opt {A B} (f : A -> B -> option A) (l : list B) (a : A) : option A :=
  match l with
  | [] => Some a
  | x :: r => match f a x with Some a' => fold_opt f r a' | None => None end
  end.
Fixpoint map_opt {A B} (f : A -> option B) (l : list A) : option (list B) :=
  match l with
  | [] => Some []
  | x :: r => match f x with
              | Some y => match map_opt f r with Some ys => Some (y :: ys) | None => None end
              | None => None
              end
  end.

(* jbtf hands Bytes.Deserialize a reader positioned at the view's offset but not limited to its length and
   Bytes reads to EOF; Png stops at the end of the image *)
Definition read_view (k : pkind) (buf : list N) (off len : N) : jval :=
  match k with
  | PFile => JBytes (skipn (N.to_nat off) buf)
  | _ => JBytes (firstn (N.to_nat len) (skipn (N.to_nat off) buf))
  end.

Definition decode_field (k : pkind) (buf : list N) (f : sfield) (keep : option jval) : option jval :=
  match f with
  | FAbsent => keep
  | FPlain v => Some v
  | FView off len => Some (read_view k buf off len)
  end.

(* FromJSON on a node the factory just built (record r0) *)
Definition decode_par (k : pkind) (buf : list N) (r0 : prec) (d : sdata) : prec :=
  mkprec (s_name d)
         (match s_desc d with Some x => x | None => pr_desc r0 end)
         (decode_field k buf (s_def d) (pr_def r0))
         (decode_field k buf (s_cur d) (pr_val r0))
         (s_cli d).

Definition decode_node (T : table) (tl : list (id * nat)) (buf : list N) (sn : snode) : option (id * node) :=
  do t <- nth_error T (s_ty sn);
  do ins <- fold_opt (fun ins d => if String.eqb (d_port d) "Out"
                                   then set_input T tl (t_ports t) ins (d_name d) (d_src d) else None)
                     (s_deps sn) (n_in (fresh t (s_ty sn)));
  do par <- match s_data sn, t_def t with
            | Some d, Some r0 => Some (Some (decode_par (t_kind t) buf r0 d))
            | None, None => Some None
            | _, _ => None
            end;
  Some (s_id sn, mknode (s_ty sn) ins par).

Definition decode (T : table) (sc : schema) : option inst :=
  let tl := map (fun sn => (s_id sn, s_ty sn)) (s_nodes sc) in
  do nodes <- map_opt (decode_node T tl (s_buf sc)) (s_nodes sc);
  if forallb (fun e => let '(_, i, p) := e in String.eqb p "Out" && is_artifact T tl i) (s_prods sc)
  then Some (mkinst nodes (map (fun e => let '(n, i, _) := e in (n, i)) (s_prods sc)) (s_meta sc))
  else None.

(* ---------- well-formedness (the invariant of reachable states) and the over-read condition ---------- *)
(* payload a node appends to the buffer *)
Definition payload (T : table) (n : node) : list N :=
  match n_par n with
  | Some r => snd (encode_par (kind_of T (n_ty n)) 0 r)
  | None => []
  end.
Definition buffer_of (T : table) (l : list (id * node)) : list N := flat_map (fun e => payload T (snd e)) l.
Definition file_payload (T : table) (n : node) : bool :=
  match kind_of T (n_ty n), n_par n with
  | PFile, Some r => match pr_val r with Some (JBytes _) => true | _ => false end
  | _, _ => false
  end.
(* every File parameter that wrote a buffer view is followed by no further buffer content *)
Fixpoint no_overread (T : table) (l : list (id * node)) : Prop :=
  match l with
  | [] => True
  | e :: r => (file_payload T (snd e) = true -> buffer_of T r = []) /\ no_overread T r
  end.
Fixpoint no_overreadb (T : table) (l : list (id * node)) : bool :=
  match l with
  | [] => true
  | e :: r => (negb (file_payload T (snd e)) || match buffer_of T r with [] => true | _ => false end)
              && no_overreadb T r
  end.

(* executable equality of instances *)
Definition prec_eqb (a b : prec) : bool :=
  String.eqb (pr_name a) (pr_name b) && String.eqb (pr_desc a) (pr_desc b)
  && opt_eqb jval_eqb (pr_def a) (pr_def b) && opt_eqb jval_eqb (pr_val a) (pr_val b)
  && cli_eqb (pr_cli a) (pr_cli b).
Definition node_eqb (a b : node) : bool :=
  Nat.eqb (n_ty a) (n_ty b) && list_eqb (list_eqb String.eqb) (n_in a) (n_in b)
  && opt_eqb prec_eqb (n_par a) (n_par b).
Definition inst_eqb (a b : inst) : bool :=
  list_eqb (fun x y => String.eqb (fst x) (fst y) && node_eqb (snd x) (snd y)) (i_nodes a) (i_nodes b)
  && list_eqb (fun x y => String.eqb (fst x) (fst y) && String.eqb (snd x) (snd y)) (i_prods a) (i_prods b)
  && meta_eqb (i_meta a) (i_meta b).

(* ---------- the REPAIRED reading discipline ---------- *)
(* A reader limited to the buffer view's byteLength for every payload kind (what jbtf would do with an
   io.LimitReader / io.SectionReader): the File case of [read_view] becomes the Image case.  Everything else is
   [decode] verbatim. *)
Definition read_view_fixed (buf : list N) (off len : N) : jval :=
  JBytes (firstn (N.to_nat len) (skipn (N.to_nat off) buf)).

Definition decode_field_fixed (buf : list N) (f : sfield) (keep : option jval) : option jval :=
  match f with
  | FAbsent => keep
  | FPlain v => Some v
  | FView off len => Some (read_view_fixed buf off len)
  end.

Definition decode_par_fixed (buf : list N) (r0 : prec) (d : sdata) : prec :=
  mkprec (s_name d)
         (match s_desc d with Some x => x | None => pr_desc r0 end)
         (decode_field_fixed buf (s_def d) (pr_def r0))
         (decode_field_fixed buf (s_cur d) (pr_val r0))
         (s_cli d).

Definition decode_node_fixed (T : table) (tl : list (id * nat)) (buf : list N) (sn : snode) : option (id * node) :=
  do t <- nth_error T (s_ty sn);
  do ins <- fold_opt (fun ins d => if String.eqb (d_port d) "Out"
                                   then set_input T tl (t_ports t) ins (d_name d) (d_src d) else None)
                     (s_deps sn) (n_in (fresh t (s_ty sn)));
  do par <- match s_data sn, t_def t with
            | Some d, Some r0 => Some (Some (decode_par_fixed buf r0 d))
            | None, None => Some None
            | _, _ => None
            end;
  Some (s_id sn, mknode (s_ty sn) ins par).

Definition decode_fixed (T : table) (sc : schema) : option inst :=
  let tl := map (fun sn => (s_id sn, s_ty sn)) (s_nodes sc) in
  do nodes <- map_opt (decode_node_fixed T tl (s_buf sc)) (s_nodes sc);
  if forallb (fun e => let '(_, i, p) := e in String.eqb p "Out" && is_artifact T tl i) (s_prods sc)
  then Some (mkinst nodes (map (fun e => let '(n, i, _) := e in (n, i)) (s_prods sc)) (s_meta sc))
  else None.
