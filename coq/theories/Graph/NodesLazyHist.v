(* C11 — histories over processors that skip inputs: [lvalue] preserves the record invariant [LInv], returns the
   from-scratch value, leaves clean nodes alone; hence [read_fresh] for [lrun]. *)
From Coq Require Import String Ascii Permutation.
From PF Require Import Base.Bytes Graph.Nodes Graph.NodesProofs Graph.NodesMore Graph.NodesLazy Graph.NodesLazyProofs.
Local Open Scope nat_scope.

Fixpoint unflagged (L : list id) (ur : list bool) : list id :=
  match L, ur with
  | d :: ds, u :: us => if u then unflagged ds us else d :: unflagged ds us
  | _, _ => []
  end.

Lemma unflagged_in L : forall ur d, In d (unflagged L ur) -> In d L.
Proof. induction L as [|a r IH]; intros [|u us] d H; simpl in *; try tauto. destruct u; simpl in *; intuition eauto. Qed.

Lemma unflagged_map (U : id -> bool) L d : In d (unflagged L (map U L)) -> U d = false.
Proof.
  induction L as [|a r IH]; simpl; [tauto|]. destruct (U a) eqn:Ua; simpl; auto. intros [<- | H]; auto.
Qed.
Lemma unflagged_map_in (U : id -> bool) L d : In d L -> U d = false -> In d (unflagged L (map U L)).
Proof.
  induction L as [|a r IH]; simpl; [tauto|]. intros [<- | H] Hu.
  - rewrite Hu. left; auto.
  - destruct (U a); simpl; auto.
Qed.

Lemma lcmp_deps_agree s s' st st' : forall L dv ur b,
  (forall d, In d (unflagged L ur) -> ver_of st' d = ver_of st d /\ forall b, s d = Some b -> s' d = Some b) ->
  lcmp_deps s st L dv ur = Some b -> lcmp_deps s' st' L dv ur = Some b.
Proof.
  induction L as [|d r IH]; intros [|v vs] [|u us] b H E; simpl in *; auto.
  destruct u; [apply IH; auto|].
  destruct (H d (or_introl eq_refl)) as [Hv Hs]. rewrite Hv.
  destruct (ver_of st d) as [w|]; simpl in *; [|discriminate].
  destruct (negb (w =? v)); auto.
  destruct (s d) as [sd|] eqn:Es; simpl in *; [|discriminate]. rewrite (Hs _ eq_refl). simpl.
  destruct sd; [exact E|]. apply IH; auto; intros; apply H; right; auto.
Qed.

Lemma lcmp_deps_false_all s st : forall L dv ur, lcmp_deps s st L dv ur = Some false ->
  forall d, In d (unflagged L ur) -> s d = Some false.
Proof.
  induction L as [|d r IH]; intros [|v vs] [|u us] H; simpl in *; try tauto; try discriminate.
  destruct u; [eauto|].
  inv_bind H. destruct (negb (a =? v)); [discriminate|]. inv_bind H. destruct a0; [discriminate|].
  intros d' [<- | Hd]; eauto.
Qed.

Lemma lcmp_deps_intro s st : forall L vers ur,
  map_opt (ver_of st) L = Some vers -> length ur = length L ->
  (forall d, In d (unflagged L ur) -> s d = Some false) ->
  lcmp_deps s st L vers ur = Some false.
Proof.
  induction L as [|d r IH]; simpl; intros vers ur H HL Hs.
  - auto.
  - inv_bind H. inv_bind H. injection H as <-. destruct ur as [|u us]; [discriminate|]. simpl in *.
    destruct u; simpl in *; [apply IH; [assumption|lia|auto]|].
    rewrite E. simpl. rewrite Nat.eqb_refl. simpl. rewrite Hs by auto. simpl. apply IH; [assumption|lia|auto].
Qed.

Lemma lstale_S po f st ur n : lstale po (S f) st ur n =
  match nth_error st n with
  | None => None
  | Some (Param _ _ _) => Some false
  | Some (Struct sn) =>
      match sn_depvers sn with
      | None => Some true
      | Some dv => if sn_dirty sn then Some true
                   else lcmp_deps (lstale po f st ur) st (enum po n sn) dv (flags_of ur n)
      end
  end.
Proof. reflexivity. Qed.

Lemma lstale_mono po f st ur n b : lstale po f st ur n = Some b -> lstale po (S f) st ur n = Some b.
Proof.
  revert n b; induction f; intros n b H; [discriminate|].
  rewrite lstale_S in H. rewrite lstale_S. destruct (nth_error st n) as [[|sn]|]; auto.
  destruct (sn_depvers sn); auto. destruct (sn_dirty sn); auto.
  eapply lcmp_deps_agree; [|exact H]. intros; split; auto.
Qed.
Lemma lstale_le po f f' st ur n b : f <= f' -> lstale po f st ur n = Some b -> lstale po f' st ur n = Some b.
Proof. induction 1; auto. intros. apply lstale_mono; auto. Qed.
Lemma lstale_det po f1 f2 st ur n b1 b2 : lstale po f1 st ur n = Some b1 -> lstale po f2 st ur n = Some b2 -> b1 = b2.
Proof.
  intros H1 H2. apply (lstale_le _ _ (Nat.max f1 f2)) in H1; [|lia].
  apply (lstale_le _ _ (Nat.max f1 f2)) in H2; [|lia]. congruence.
Qed.

Definition lclean (po : order) (s : lstate) (m : id) : Prop := exists f, lstale po f (fst s) (snd s) m = Some false.
Definition rows_same (s s' : lstate) (k : id) : Prop :=
  nth_error (fst s') k = nth_error (fst s) k /\ flags_of (snd s') k = flags_of (snd s) k.

(* the READ cone: through dependencies that are not flagged unread *)
Inductive rreach (po : order) (s : lstate) : id -> id -> Prop :=
| rr_refl a : rreach po s a a
| rr_step a sn d b : nth_error (fst s) a = Some (Struct sn) ->
    In d (unflagged (enum po a sn) (flags_of (snd s) a)) -> rreach po s d b -> rreach po s a b.

Lemma rreach_reach po s : perm_ok po -> forall a b, rreach po s a b -> reach (graph_of (fst s)) a b.
Proof.
  intros PO a b H. induction H as [a | a sn d b Ha Hd Hr IH]; [constructor|].
  eapply reach_trans; [|exact IH]. eapply edge_reach; eauto.
  apply (perm_in_deps po a sn d PO). eapply unflagged_in; eauto.
Qed.

(* Outdated() looks only at the read cone *)
Lemma lagree_rcone po : forall f s s' m b,
  (forall k, rreach po s m k -> rows_same s s' k) ->
  lstale po f (fst s) (snd s) m = Some b -> lstale po f (fst s') (snd s') m = Some b.
Proof.
  induction f; intros s s' m b H E; [discriminate|].
  rewrite lstale_S in E. rewrite lstale_S. destruct (H m (rr_refl _ _ _)) as [Hn Hf]. rewrite Hn, Hf.
  destruct (nth_error (fst s) m) as [[|sn]|] eqn:En; auto.
  destruct (sn_depvers sn); auto. destruct (sn_dirty sn); auto.
  eapply lcmp_deps_agree; [|exact E]. intros d Hd.
  assert (Hr : rreach po s m d) by (eapply rr_step; eauto; constructor). split.
  - unfold ver_of. rewrite (proj1 (H d Hr)). auto.
  - intros b'. apply IHf. intros k Hk. apply H. eapply rr_step; eauto.
Qed.

Lemma lclean_cone po s m k : rreach po s m k -> forall f, lstale po f (fst s) (snd s) m = Some false -> lclean po s k.
Proof.
  intros Hr. induction Hr as [a | a sn d b Ha Hd Hr IH]; intros f Hf.
  - exists f; auto.
  - destruct f; [discriminate|]. rewrite lstale_S, Ha in Hf.
    destruct (sn_depvers sn); [|discriminate]. destruct (sn_dirty sn); [discriminate|].
    apply (IH f). eapply lcmp_deps_false_all; eauto.
Qed.

Lemma lkeeps_clean po s s' :
  (forall m, lclean po s m -> rows_same s s' m) -> forall m, lclean po s m -> lclean po s' m.
Proof.
  intros H m [f Hf]. exists f. eapply lagree_rcone; [|exact Hf].
  intros k Hk. apply H. eapply lclean_cone; eauto.
Qed.

Definition KcL (po : order) (s s' : lstate) : Prop := forall m, lclean po s m -> rows_same s s' m /\ lclean po s' m.
Lemma KcL_refl po s : KcL po s s.
Proof. intros m H; split; auto. split; auto. Qed.
Lemma KcL_trans po a b c : KcL po a b -> KcL po b c -> KcL po a c.
Proof.
  intros H1 H2 m Hm. destruct (H1 m Hm) as [[E1 F1] C1]. destruct (H2 m C1) as [[E2 F2] C2].
  split; auto. split; congruence.
Qed.

Lemma flags_of_set_nth_neq ur n m x : n <> m -> flags_of (set_nth n x ur) m = flags_of ur m.
Proof.
  unfold flags_of. revert n m; induction ur as [|a r IH]; intros [|n] [|m] H; simpl; auto; try congruence.
Qed.
Lemma flags_of_set_nth_eq ur n x : n < length ur -> flags_of (set_nth n x ur) n = x.
Proof.
  unfold flags_of. revert n; induction ur as [|a r IH]; intros [|n] H; simpl in *; auto; try lia. apply IH; lia.
Qed.

(* ---------- Value() ---------- *)
Lemma lvalue_S po stops f st ur n : lvalue po stops (S f) (st, ur) n =
  match nth_error st n with
  | None => None
  | Some (Param _ v _) => Some ((st, ur), v)
  | Some (Struct sn) =>
      do o <- lstale po (S f) st ur n;
      if o then
        do '(s1, acc) <- lread_ports (lvalue po stops f) (stops n) (st, ur) (ids_of sn) [];
        let '(st1, ur1) := s1 in
        do vers <- map_opt (ver_of st1) (enum po n sn);
        do flags <- map_opt (lstale po f st1 ur1) (enum po n sn);
        Some ((set_nth n (Struct (exec_node sn (sn_proc sn acc) vers)) st1, set_nth n flags ur1), sn_proc sn acc)
      else Some ((st, ur), sn_cache sn)
  end.
Proof. reflexivity. Qed.

Section LSplit.
  Variable rd : lstate -> id -> option (lstate * val).
  Variable R : lstate -> lstate -> Prop.
  Variable D : id -> Prop.
  Hypothesis R_refl : forall s, R s s.
  Hypothesis R_trans : forall a b c, R a b -> R b c -> R a c.
  Hypothesis rd_R : forall s d s' x, D d -> rd s d = Some (s', x) -> R s s'.

  Definition lvisited (s s1 : lstate) (d : id) (x : val) : Prop :=
    D d /\ exists sa sb, R s sa /\ rd sa d = Some (sb, x) /\ R sb s1.
  Lemma lvisited_weaken s0 s s1 s2 d x : R s0 s -> R s1 s2 -> lvisited s s1 d x -> lvisited s0 s2 d x.
  Proof. intros A B (Hd & sa & sb & ? & ? & ?). split; auto. exists sa, sb. eauto. Qed.

  Lemma lread_list_split l : forall s s1 xs, Forall D l -> lread_list rd s l = Some (s1, xs) ->
    R s s1 /\ Forall2 (lvisited s s1) l xs.
  Proof.
    induction l as [|d r IH]; simpl; intros s s1 xs HD H.
    - injection H as <- <-. auto.
    - inversion HD; subst. inv_bind H. destruct a as [sa x]. inv_bind H. destruct a as [sb xs'].
      injection H as <- <-. destruct (IH _ _ _ H3 E0) as [Rr Fr].
      assert (R s sa) by eauto. split; [eauto|]. constructor.
      + split; auto. exists s, sa. auto.
      + eapply Forall2_impl; [|exact Fr]. intros. eapply (lvisited_weaken s sa sb sb); eauto.
  Qed.

  Lemma lread_ports_split stop : forall ps s acc0 s1 acc, Forall (Forall D) ps ->
    lread_ports rd stop s ps acc0 = Some (s1, acc) ->
    R s s1 /\ exists xss, acc = acc0 ++ xss /\ length xss <= length ps /\
      Forall2 (Forall2 (lvisited s s1)) (firstn (length xss) ps) xss /\
      (forall F, xss = map (map F) (firstn (length xss) ps) -> acc = cut_from stop acc0 (map (map F) ps)).
  Proof.
    induction ps as [|l r IH]; simpl; intros s acc0 s1 acc HD H.
    - injection H as <- <-. split; auto. exists []. rewrite app_nil_r. repeat split; auto. constructor.
    - inversion HD; subst. destruct (stop acc0) eqn:Es.
      + injection H as <- <-. split; auto. exists []. rewrite app_nil_r. repeat split; simpl; auto; try lia; try constructor.
      + inv_bind H. destruct a as [sa xs]. destruct (lread_list_split _ _ _ _ H2 E) as [Rl Fl].
        destruct (IH _ _ _ _ H3 H) as (Rr & xss' & Hacc & Hlen & Fr & Hcut).
        split; [eauto|]. exists (xs :: xss'). rewrite Hacc, <- app_assoc. simpl. repeat split; auto; try lia.
        * constructor.
          -- eapply Forall2_impl; [|exact Fl]. intros. eapply (lvisited_weaken s s sa s1); eauto.
          -- eapply Forall2_impl; [|exact Fr]. intros. eapply Forall2_impl; [|eassumption].
             intros. eapply (lvisited_weaken s sa s1 s1); eauto.
        * intros F HF. simpl in HF. injection HF as -> HF. simpl. rewrite <- (Hcut F HF), Hacc, <- app_assoc. reflexivity.
  Qed.
End LSplit.

Lemma in_concat_firstn {A} (ps : list (list A)) : forall k j l d,
  j < k -> nth_error ps j = Some l -> In d l -> In d (concat (firstn k ps)).
Proof.
  induction ps as [|p r IH]; intros k j l d Hj Hn Hd; [destruct j; discriminate|].
  destruct k; [lia|]. simpl. apply in_or_app. destruct j; simpl in Hn.
  - injection Hn as ->. auto.
  - right. eapply IH; eauto. lia.
Qed.
Lemma concat_firstn_incl {A} (ps : list (list A)) : forall k d, In d (concat (firstn k ps)) -> In d (concat ps).
Proof.
  induction ps as [|p r IH]; intros [|k] d H; simpl in *; try tauto.
  apply in_app_or in H as [H|H]; apply in_or_app; eauto.
Qed.

Lemma lnode_inv_ur po stops st ur ur' n sn : flags_of ur' n = flags_of ur n ->
  lnode_inv po stops st ur n sn -> lnode_inv po stops st ur' n sn.
Proof. intros E H dv Hd Hc. destruct (H dv Hd Hc) as (sv & sx & U & A & B & C). exists sv, sx, U. rewrite E. auto. Qed.

Section LSpec.
  Variable po : order.
  Hypothesis PO : perm_ok po.
  Variable stops : id -> stopfn.
  Variable rk : id -> nat.

  Definition PreL (s : lstate) : Prop :=
    LInv po stops (fst s) (snd s) /\ lazy_procs stops (fst s) /\ ranked (graph_of (fst s)) rk /\
    length (snd s) = length (fst s).
  Definition LocalL (K : nat) (s s' : lstate) : Prop := forall m, K <= rk m -> rows_same s s' m.
  Definition RL (g0 : graph) (K : nat) (s s' : lstate) : Prop :=
    PreL s -> graph_of (fst s) = g0 ->
    PreL s' /\ Frame (fst s) (fst s') /\ LocalL K s s' /\ KcL po s s'.

  Lemma RL_refl g0 K s : RL g0 K s s.
  Proof.
    intros H _. split; auto. split; [apply Frame_refl|]. split; [intros m _; split; auto|apply KcL_refl].
  Qed.
  Lemma RL_trans g0 K a b c : RL g0 K a b -> RL g0 K b c -> RL g0 K a c.
  Proof.
    intros H1 H2 Pa Ga. destruct (H1 Pa Ga) as (Pb & F1 & L1 & K1).
    assert (Gb : graph_of (fst b) = g0) by (destruct F1 as (G & _); congruence).
    destruct (H2 Pb Gb) as (Pc & F2 & L2 & K2).
    split; auto. split; [eapply Frame_trans; eauto|]. split; [|eapply KcL_trans; eauto].
    intros m Hm. destruct (L1 m Hm) as [A1 B1], (L2 m Hm) as [A2 B2]. split; congruence.
  Qed.

  Lemma lvalue_spec : forall f s n s' v h,
    PreL s -> depth f (graph_of (fst s)) n = Some h -> lvalue po stops f s n = Some (s', v) ->
    eval_scratch f (graph_of (fst s)) n = Some v /\ outT (fst s') n = v /\ lclean po s' n /\
    PreL s' /\ Frame (fst s) (fst s') /\ LocalL (S (rk n)) s s' /\ KcL po s s'.
  Proof.
    induction f as [|f0 IH]; intros [st ur] n s' v h HP D H; [discriminate|].
    rewrite lvalue_S in H. cbn [fst snd] in *.
    destruct (nth_error st n) as [[ver w sets|sn]|] eqn:En; [| |discriminate].
    - (* parameter *)
      injection H as <- <-. cbn [fst snd].
      split; [rewrite eval_S, graph_nth, En; reflexivity|]. split; [unfold outT; rewrite En; reflexivity|].
      split; [exists 1; rewrite lstale_S; cbn [fst snd]; rewrite En; reflexivity|].
      split; auto. split; [apply Frame_refl|]. split; [intros m _; split; auto|apply KcL_refl].
    - apply bind_some in H as [o [Hs H]]. destruct o.
      2:{ (* cached *)
        injection H as <- <-. cbn [fst snd].
        destruct HP as (I & LP & Rk & Len).
        pose proof (lstale_false_eval po stops PO _ _ _ _ _ I LP D Hs) as He.
        assert (Ho : outT st n = sn_cache sn) by (unfold outT; rewrite En; reflexivity). cbn [fst snd] in He. rewrite Ho in He.
        split; auto. split; [unfold outT; rewrite En; reflexivity|]. split; [exists (S f0); exact Hs|].
        split; [repeat split; auto|]. split; [apply Frame_refl|]. split; [intros m _; split; auto|apply KcL_refl]. }
      (* process() *)
      apply bind_some in H as [[[st1 ur1] acc] [Er H]].
      apply bind_some in H as [vers [Ev H]]. apply bind_some in H as [flags [Efl H]]. injection H as <- <-.
      cbn [fst snd].
      set (g0 := graph_of st) in *.
      pose proof D as D0. rewrite depth_S in D0. unfold g0 in D0. rewrite graph_nth, En in D0. simpl in D0.
      apply bind_some in D0 as [hs [Edep _]]. fold g0 in Edep.
      assert (Hrk : forall d, In d (concat (ids_of sn)) -> rk d < rk n).
      { intros d Hd. eapply (proj1 (proj2 (proj2 HP))); [|exact Hd]. cbn [fst]. rewrite graph_nth, En. reflexivity. }
      destruct (lread_ports_split (lvalue po stops f0) (RL g0 (rk n))
                  (fun d => rk d < rk n /\ exists hd, depth f0 g0 d = Some hd) (RL_refl g0 _) (RL_trans g0 _))
        with (stop := stops n) (ps := ids_of sn) (s := (st, ur)) (acc0 := @nil (list val)) (s1 := (st1, ur1)) (acc := acc)
        as [R1 (xss & Hacc & Hlen & F1 & Hcut)]; auto.
      { intros s d s1' x [Hd [hd Hdep]] Hval Ps Gs. rewrite <- Gs in Hdep.
        destruct (IH _ _ _ _ _ Ps Hdep Hval) as (_ & _ & _ & P' & Fr & Lo & Kc).
        split; auto. split; auto. split; auto. intros m Hm. apply Lo. lia. }
      { apply Forall_nested_concat. intros d Hd. split; auto.
        destruct (map_opt_some_in _ _ _ Edep d Hd) as (hd & Ehd & _). eauto. }
      simpl in Hacc. subst acc.
      destruct (R1 HP eq_refl) as (P1 & Fr1 & Lo1 & K1). cbn [fst snd] in *.
      destruct Fr1 as (G1 & V1 & FF1). fold g0 in G1.
      destruct (Lo1 n (Nat.le_refl _)) as [En1' Fn1]. cbn [fst snd] in En1', Fn1.
      assert (En1 : nth_error st1 n = Some (Struct sn)) by congruence.
      assert (Hlt : n < length st1) by (eapply nth_error_some_lt; eauto).
      destruct P1 as (I1 & LP1 & Rk1 & Len1). cbn [fst snd] in *.
      assert (Hltu : n < length ur1) by lia.
      (* what every consulted input showed *)
      assert (Q : Forall2 (Forall2 (fun d x => eval_scratch f0 g0 d = Some x /\ x = outT st1 d /\ lclean po (st1, ur1) d))
                          (firstn (length xss) (ids_of sn)) xss).
      { eapply Forall2_nested_impl; [|exact F1]. intros d x ((_ & hd & Hdep) & sa & sb & Ra & Hval & Rb).
        destruct (Ra HP eq_refl) as (Pa & (Ga & _ & _) & _ & _).
        assert (Ga0 : graph_of (fst sa) = g0) by (rewrite Ga; reflexivity).
        rewrite <- Ga0 in Hdep.
        destruct (IH _ _ _ _ _ Pa Hdep Hval) as (He & Ho & Cd & Pb & (Gb & _ & _) & _ & _).
        assert (Gb0 : graph_of (fst sb) = g0) by (rewrite Gb; exact Ga0).
        destruct (Rb Pb Gb0) as (_ & (Gc & _ & Fc) & _ & Kb). cbn [fst] in Gc.
        rewrite Ga0 in He. split; auto. split; [|apply Kb; exact Cd].
        destruct (Fc d) as [f2 H2].
        { exists f0. rewrite Gb0, Ho. exact He. }
        cbn [fst snd] in H2, Gc. rewrite Gc, Gb0 in H2. eapply eval_det; eauto. }
      assert (Hxss : xss = map (map (outT st1)) (firstn (length xss) (ids_of sn))).
      { apply Forall2_nested_map_eq. eapply Forall2_nested_impl; [|exact Q]. intros ? ? (_ & ? & _); auto. }
      assert (Hc : xss = cut (stops n) (map (map (outT st1)) (ids_of sn))) by (apply (Hcut _ Hxss)).
      assert (Qd : forall d, In d (concat (firstn (length xss) (ids_of sn))) ->
                   eval_scratch f0 g0 d = Some (outT st1 d) /\ lclean po (st1, ur1) d).
      { intros d Hd. destruct (Forall2_nested_in_l _ _ _ _ Q Hd) as (x & A & B & C). subst x. auto. }
      set (v := sn_proc sn xss) in *.
      (* from-scratch value of n *)
      set (Evf := fun d => match eval_scratch f0 g0 d with Some x => x | None => 0%Z end).
      assert (Hev0 : forall d, In d (deps_ids sn) -> eval_scratch f0 g0 d = Some (Evf d)).
      { intros d Hd. destruct (map_opt_some_in _ _ _ Edep d Hd) as (hd & Ehd & _).
        destruct (eval_total _ _ _ _ Ehd) as [x Hx]. unfold Evf. rewrite Hx. reflexivity. }
      assert (Hev : eval_scratch (S f0) g0 n = Some v).
      { rewrite eval_S. unfold g0 at 1. rewrite graph_nth, En. simpl.
        erewrite (map_opt_ext_some _ (map Evf)).
        2:{ intros l Hl. apply map_opt_ext_some. intros d Hd. apply Hev0. unfold deps_ids. apply in_concat. eauto. }
        simpl. f_equal. rewrite (proj1 (proj2 HP) _ _ En). unfold v. f_equal. rewrite Hc.
        apply cut_agree; [rewrite !map_length; reflexivity|].
        apply firstn_map_ext. intros j l Hj Hl. apply map_ext_in. intros d Hd.
        rewrite <- Hc in Hj.
        destruct (Qd d (in_concat_firstn _ _ _ _ _ Hj Hl Hd)) as [A _].
        unfold Evf. rewrite A. reflexivity. }
      set (sn' := exec_node sn v vers) in *.
      set (st' := set_nth n (Struct sn') st1).
      set (ur' := set_nth n flags ur1).
      assert (En' : nth_error st' n = Some (Struct sn')) by (apply nth_error_set_nth_eq; auto).
      assert (G' : graph_of st' = graph_of st1) by (eapply graph_of_set_nth_same; eauto).
      assert (O' : outT st' n = v) by (unfold outT; rewrite En'; auto).
      assert (Fr' : Frame st1 st').
      { split; auto. split.
        - intros m. destruct (Nat.eq_dec n m) as [<- | Hne].
          + unfold verT, ver_of. rewrite En', En1. simpl. split; [lia|]. intros; lia.
          + unfold st'. rewrite verT_set_nth_neq, outT_set_nth_neq; auto.
        - intros m Hm. destruct (Nat.eq_dec n m) as [<- | Hne].
          + exists (S f0). rewrite G', G1, O'. exact Hev.
          + eapply Fresh_transfer; [exact G'| |exact Hm]. unfold st'. apply outT_set_nth_neq; auto. }
      set (U := fun d => match lstale po f0 st1 ur1 d with Some b => b | None => false end).
      assert (Hflags : flags = map U (enum po n sn)).
      { eapply map_opt_is_map; [exact Efl|]. intros d b _ Hb. unfold U. rewrite Hb. reflexivity. }
      assert (Hne : forall d, In d (deps_ids sn) -> d <> n) by (intros d Hd ->; specialize (Hrk _ Hd); lia).
      assert (Hrow : forall k, k <> n -> rows_same (st1, ur1) (st', ur') k).
      { intros k Hk. split; cbn [fst snd]; unfold st', ur'.
        - apply nth_error_set_nth_neq; auto.
        - apply flags_of_set_nth_neq; auto. }
      split; [exact Hev|]. split; [exact O'|].
      (* n is clean afterwards *)
      assert (Cn : lclean po (st', ur') n).
      { exists (S f0). rewrite lstale_S. cbn [fst snd]. rewrite En'. cbn [sn' exec_node sn_depvers sn_dirty].
        change (enum po n (exec_node sn v vers)) with (enum po n sn).
        unfold ur'. rewrite flags_of_set_nth_eq by auto.
        apply lcmp_deps_intro.
        - eapply map_opt_mono; [|exact Ev]. intros d w Hd Hw.
          apply (perm_in_deps po n sn d PO) in Hd.
          unfold ver_of, st'. rewrite nth_error_set_nth_neq; auto. intros <-. exact (Hne _ Hd eq_refl).
        - apply (map_opt_length _ _ _ Efl).
        - intros d Hd. rewrite Hflags in Hd. pose proof (unflagged_map _ _ _ Hd) as Hu.
          apply unflagged_in in Hd. apply (perm_in_deps po n sn d PO) in Hd.
          assert (Hsd : lstale po f0 st1 ur1 d = Some false).
          { destruct (map_opt_some_in _ _ _ Efl d) as (b & Hb & _); [apply (perm_in_deps po n sn d PO); exact Hd|].
            unfold U in Hu. rewrite Hb in Hu. congruence. }
          apply (lagree_rcone po f0 (st1, ur1) (st', ur') d false); [|exact Hsd].
          intros k Hk. apply Hrow. intros ->.
          pose proof (reach_rank _ _ _ _ Rk1 (rreach_reach po _ PO _ _ Hk)). specialize (Hrk _ Hd). lia. }
      split; [exact Cn|].
      assert (Fr : Frame st st') by (eapply Frame_trans; [exact (conj G1 (conj V1 FF1))|exact Fr']).
      split; [|split; [exact Fr|split]].
      + (* the invariants after the execution *)
        split; [|split; [|split]].
        * intros k snk Ek. destruct (Nat.eq_dec n k) as [<- | Hnk].
          -- cbn [fst snd] in *. rewrite En' in Ek. injection Ek as <-. intros dv Hdv _. simpl in Hdv. injection Hdv as <-.
             exists (verT st1), (outT st1), U.
             change (enum po n sn') with (enum po n sn). change (ids_of sn') with (ids_of sn).
             change (deps_ids sn') with (deps_ids sn). change (sn_proc sn') with (sn_proc sn).
             split; [eapply map_opt_is_map; [exact Ev|]; intros d w _ Hw; unfold verT; rewrite Hw; auto|].
             split; [unfold ur'; rewrite flags_of_set_nth_eq by auto; exact Hflags|].
             split; [simpl; unfold v; rewrite <- Hc; reflexivity|]. split.
             ++ intros d Hd _. destruct Fr' as (_ & V' & _). destruct (V' d) as [L Q']. split; auto.
                intros E'. symmetry. auto.
             ++ intros j l d Hj Hl Hd. rewrite <- Hc in Hj.
                destruct (Qd d (in_concat_firstn _ _ _ _ _ Hj Hl Hd)) as [_ [fc Hfc]]. cbn [fst snd] in Hfc.
                assert (Hdd : In d (deps_ids sn)) by (unfold deps_ids; apply in_concat; exists l; split; [eapply nth_error_In; eauto|exact Hd]).
                destruct (map_opt_some_in _ _ _ Efl d) as (b & Hb & _); [apply (perm_in_deps po n sn d PO); exact Hdd|].
                unfold U. rewrite Hb. eapply lstale_det; eauto.
          -- cbn [fst snd] in *. unfold st' in Ek. rewrite nth_error_set_nth_neq in Ek; auto.
             apply (lnode_inv_ur po stops st' ur1 ur' k snk); [unfold ur'; apply flags_of_set_nth_neq; auto|].
             eapply lnode_inv_mono; [|apply (I1 _ _ Ek)]. apply Fr'.
        * intros k snk Ek. cbn [fst] in *. destruct (Nat.eq_dec n k) as [<- | Hnk].
          -- rewrite En' in Ek. assert (Hk : snk = sn') by congruence. rewrite Hk. exact (LP1 _ _ En1).
          -- unfold st' in Ek. rewrite nth_error_set_nth_neq in Ek by auto. exact (LP1 _ _ Ek).
        * cbn [fst]. rewrite G'. exact Rk1.
        * cbn [fst snd]. unfold st', ur'. rewrite !set_nth_length. exact Len1.
      + intros m Hm. destruct (Lo1 m) as [A B]; [lia|]. cbn [fst snd] in A, B.
        assert (m <> n) by (intros ->; lia).
        destruct (Hrow m H) as [A' B']. cbn [fst snd] in A', B'. split; cbn [fst snd]; congruence.
      + assert (N : forall m, lclean po (st, ur) m -> rows_same (st, ur) (st', ur') m).
        { intros m Hm. destruct (K1 m Hm) as [[A B] _]. cbn [fst snd] in A, B.
          assert (m <> n).
          { intros ->. destruct Hm as [fm Hfm]. cbn [fst snd] in Hfm.
            pose proof (lstale_det _ _ _ _ _ _ _ _ Hs Hfm). discriminate. }
          destruct (Hrow m H) as [A' B']. cbn [fst snd] in A', B'. split; cbn [fst snd]; congruence. }
        intros m Hm. split; [apply N; exact Hm|]. eapply lkeeps_clean; eauto.
  Qed.
End LSpec.

(* ---------- histories ---------- *)
Definition GoodL (po : order) (stops : id -> stopfn) (s : lstate) : Prop :=
  LInv po stops (fst s) (snd s) /\ lazy_procs stops (fst s) /\ length (snd s) = length (fst s) /\
  acyclic_b (graph_of (fst s)) = true.

Lemma linit_GoodL po stops ds : lazy_procs stops (nodes (init ds)) -> GoodL po stops (linit ds).
Proof.
  intros LP. split; [apply linit_LInv|]. split; [exact LP|]. split; [|apply init_acyclic].
  simpl. rewrite !map_length. reflexivity.
Qed.

Lemma ledit_procs po stops st o st' r : is_read o = false -> step_store po st o = Some (st', r) ->
  lazy_procs stops st -> lazy_procs stops st'.
Proof.
  intros Hr H LP. destruct o as [n v | n input src | n input | n]; try discriminate; cbn [step_store] in H.
  - destruct (nth_error st n) as [[ver w sets|]|] eqn:En; try discriminate. injection H as <- _.
    intros k snk Ek. destruct (Nat.eq_dec n k) as [<- | Hne].
    + rewrite nth_error_set_nth_eq in Ek by (eapply nth_error_some_lt; eauto). discriminate.
    + rewrite nth_error_set_nth_neq in Ek by auto. exact (LP _ _ Ek).
  - destruct (src <? length st); [|discriminate]. apply bind_some in H as [a [E H]].
    destruct (acyclic_b (graph_of a)); [|discriminate]. injection H as <- _.
    destruct (rewire_inv _ _ _ _ _ E) as (sn & ps & En & Hps & ->).
    intros k snk Ek. destruct (Nat.eq_dec n k) as [<- | Hne].
    + rewrite nth_error_set_nth_eq in Ek by (eapply nth_error_some_lt; eauto). injection Ek as <-. exact (LP _ _ En).
    + rewrite nth_error_set_nth_neq in Ek by auto. exact (LP _ _ Ek).
  - apply bind_some in H as [a [E H]]. injection H as <- _.
    destruct (rewire_inv _ _ _ _ _ E) as (sn & ps & En & Hps & ->).
    intros k snk Ek. destruct (Nat.eq_dec n k) as [<- | Hne].
    + rewrite nth_error_set_nth_eq in Ek by (eapply nth_error_some_lt; eauto). injection Ek as <-. exact (LP _ _ En).
    + rewrite nth_error_set_nth_neq in Ek by auto. exact (LP _ _ Ek).
Qed.

Lemma lvalue_some_lt po stops f st ur n r : lvalue po stops f (st, ur) n = Some r -> n < length st.
Proof.
  destruct f; [discriminate|]. rewrite lvalue_S. destruct (nth_error st n) eqn:E; [|discriminate].
  intros _. eapply nth_error_some_lt; eauto.
Qed.

(* a read on a good state: everything [lvalue_spec] says, with the rank function and the depth discharged *)
Lemma lread_good po stops s n s' v : perm_ok po -> GoodL po stops s ->
  lvalue po stops (fuel_of (fst s)) s n = Some (s', v) ->
  eval_scratch (fuel_of (fst s)) (graph_of (fst s)) n = Some v /\ outT (fst s') n = v /\ lclean po s' n /\
  GoodL po stops s' /\ graph_of (fst s') = graph_of (fst s) /\ KcL po s s'.
Proof.
  intros PO (I & LP & Len & A) H. destruct s as [st ur]. cbn [fst snd] in *.
  destruct (acyclic_ranked _ A) as [rk Rk].
  destruct (acyclic_depth _ _ A (lvalue_some_lt _ _ _ _ _ _ _ H)) as [hh D].
  assert (HP : PreL po stops rk (st, ur)) by (repeat split; auto).
  destruct (lvalue_spec po PO stops rk _ (st, ur) _ _ _ _ HP D H)
    as (He & Ho & Cn & (I' & LP' & Rk' & Len') & (G & _ & _) & _ & Kc).
  cbn [fst snd] in *.
  split; [exact He|]. split; [exact Ho|]. split; [exact Cn|].
  split; [split; [exact I'|split; [exact LP'|split; [exact Len'|rewrite G; exact A]]]|]. split; [exact G|exact Kc].
Qed.

Lemma lstep_edit_inv po stops st ur o s' : is_read o = false -> lstep po stops (st, ur) o = Some s' ->
  exists st' r, step_store po st o = Some (st', r) /\ s' = (st', ur).
Proof.
  intros Hr H. destruct o; try discriminate; cbn [lstep] in H;
    apply bind_some in H as [[st' r] [E H]]; injection H as <-; eauto.
Qed.

Lemma lstep_GoodL po stops s o s' : perm_ok po -> GoodL po stops s -> lstep po stops s o = Some s' -> GoodL po stops s'.
Proof.
  intros PO G H. destruct (is_read o) eqn:Er.
  - destruct o; try discriminate. destruct s as [st ur]. cbn [lstep] in H.
    apply bind_some in H as [[s1 v] [E H]]. injection H as <-.
    apply (lread_good po stops (st, ur) n s1 v PO G E).
  - destruct s as [st ur]. destruct (lstep_edit_inv _ _ _ _ _ _ Er H) as (st' & r & E & ->).
    destruct G as (I & LP & Len & A). cbn [fst snd] in *.
    split; [eapply (ledit_LInv po stops st ur o st' ur Er); eauto|].
    split; [eapply ledit_procs; eauto|]. split; [|eapply edit_acyclic; eauto].
    destruct (step_store_edit _ _ _ _ _ Er E) as (y & -> & _). cbn [fst snd]. rewrite set_nth_length. exact Len.
Qed.

Lemma lrun_GoodL po stops : perm_ok po -> forall h s s', GoodL po stops s -> lrun po stops s h = Some s' -> GoodL po stops s'.
Proof.
  intros PO. induction h as [|o r IH]; simpl; intros s s' G H.
  - injection H as <-. auto.
  - apply bind_some in H as [s1 [E H]]. eapply IH; [|exact H]. eapply lstep_GoodL; eauto.
Qed.

(* READ_FRESH for processors that skip inputs: after every history of [lrun] (parameter updates, re-wiring, reads,
   from the unconnected graph), the value a read returns is the from-scratch value of the current wiring and
   parameters; the read leaves the wiring alone and the node read is up to date afterwards *)
Theorem lazy_read_fresh po stops ds h s n s' v :
  perm_ok po -> lazy_procs stops (nodes (init ds)) ->
  lrun po stops (linit ds) h = Some s ->
  lvalue po stops (fuel_of (fst s)) s n = Some (s', v) ->
  eval_scratch (fuel_of (fst s)) (graph_of (fst s)) n = Some v /\
  graph_of (fst s') = graph_of (fst s) /\ lclean po s' n.
Proof.
  intros PO LP R H.
  pose proof (lrun_GoodL po stops PO _ _ _ (linit_GoodL po stops ds LP) R) as G.
  destruct (lread_good po stops s n s' v PO G H) as (He & _ & Cn & _ & Gg & _). auto.
Qed.

(* RECOMPUTE ONLY WHEN NEEDED: a node that is up to date (e.g. the node just read) does not execute, and stays up to
   date, during any continuation none of whose edits targets a node of its READ cone (the cone through the
   dependencies its last run read, taken in the state the edit is applied to) *)
Fixpoint quiet (po : order) (stops : id -> stopfn) (n : id) (s : lstate) (h : list op) : Prop :=
  match h with
  | [] => True
  | o :: r => (is_read o = true \/ ~ rreach po s n (target o)) /\
              forall s', lstep po stops s o = Some s' -> quiet po stops n s' r
  end.

Theorem lazy_exec_only_if_read_cone_touched po stops : perm_ok po -> forall h s s1 n,
  GoodL po stops s -> lclean po s n -> lrun po stops s h = Some s1 -> quiet po stops n s h ->
  execs_of (fst s1) n = execs_of (fst s) n /\ lclean po s1 n.
Proof.
  intros PO. induction h as [|o r IH]; simpl; intros s s1 n G C H Q.
  - injection H as <-. auto.
  - apply bind_some in H as [s' [E H]]. destruct Q as [Qo Qr].
    pose proof (lstep_GoodL po stops s o s' PO G E) as G'.
    assert (K : rows_same s s' n /\ lclean po s' n).
    { destruct (is_read o) eqn:Er.
      - destruct o; try discriminate. destruct s as [st ur]. cbn [lstep] in E.
        apply bind_some in E as [[s2 v] [E2 E]]. injection E as <-.
        destruct (lread_good po stops (st, ur) n0 s2 v PO G E2) as (_ & _ & _ & _ & _ & Kc). apply Kc. exact C.
      - destruct Qo as [Qo|Qo]; [congruence|].
        destruct s as [st ur]. destruct (lstep_edit_inv _ _ _ _ _ _ Er E) as (st' & rr & E2 & ->).
        destruct (step_store_edit _ _ _ _ _ Er E2) as (y & -> & _).
        assert (N : forall k, rreach po (st, ur) n k -> rows_same (st, ur) (set_nth (target o) y st, ur) k).
        { intros k Hk. split; cbn [fst snd]; auto. apply nth_error_set_nth_neq. intros <-. exact (Qo Hk). }
        split; [apply N; constructor|]. destruct C as [f Hf]. exists f. eapply lagree_rcone; eauto. }
    destruct K as [[Kn _] C'].
    destruct (IH s' s1 n G' C' H (Qr s' E)) as [X1 C1]. split; auto.
    rewrite X1. apply execs_of_nth. exact Kn.
Qed.

(* ---------- the hypothesis [lazy_procs] is what [lazy_proc] (and every processor that reads all ports) gives ---------- *)
Lemma cut_from_idem stop : forall rest acc, exists t,
  cut_from stop acc rest = acc ++ t /\ cut_from stop acc t = acc ++ t.
Proof.
  induction rest as [|x r IH]; intros acc; simpl.
  - exists []. rewrite app_nil_r. auto.
  - destruct (stop acc) eqn:Es.
    + exists []. rewrite app_nil_r. auto.
    + destruct (IH (acc ++ [x])) as (t & A & B). exists (x :: t). simpl. rewrite Es.
      rewrite A, B, <- !app_assoc. auto.
Qed.
Lemma cut_idem stop ins : cut stop (cut stop ins) = cut stop ins.
Proof. unfold cut. destruct (cut_from_idem stop ins []) as (t & A & B). rewrite A. simpl in *. exact B. Qed.
Lemma cut_never_from : forall rest acc, cut_from (fun _ => false) acc rest = acc ++ rest.
Proof. induction rest as [|x r IH]; intros acc; simpl; [rewrite app_nil_r; auto|]. rewrite IH, <- app_assoc. auto. Qed.
Lemma cut_never ins : cut (fun _ => false) ins = ins.
Proof. apply cut_never_from. Qed.

Lemma lazy_witness_procs : lazy_procs lazy_stops (nodes (init lazy_decls)).
Proof.
  intros n sn En ins. simpl in En.
  destruct n as [|[|[|[|n]]]]; simpl in En; try discriminate.
  - injection En as <-. simpl. unfold lazy_stops. simpl. rewrite cut_never. reflexivity.
  - injection En as <-. simpl. unfold lazy_stops. simpl. unfold lazy_proc. rewrite cut_idem. reflexivity.
  - destruct n; discriminate.
Qed.
