(* C11 — proofs about the node-graph model of Graph/Nodes.v.

   Part 0  list / option helpers
   Part 1  from-scratch evaluation: fuel monotonicity, determinism; acyclicity as a rank function
   Part 2  the cache invariant and freshness of every read, for EVERY dependency enumeration order
   Part 3  histories: invariants of every state reachable from [init]
   Part 4  version = number of executions
   Part 5  stable order: a clean node stays clean and is not executed while its cone is untouched
   Part 6  the pinned map-order behaviour: a spurious execution (witness)                      *)
From Coq Require Import String Ascii Permutation.
From PF Require Import Base.Bytes Graph.Nodes.
Local Open Scope nat_scope.

(* ------------------------------------------------------------------------------------------ *)
(** * Part 0: helpers *)

Lemma bind_some {A B} (o : option A) (f : A -> option B) b :
  bind o f = Some b -> exists a, o = Some a /\ f a = Some b.
Proof. destruct o; simpl; intros; [eauto | discriminate]. Qed.

Ltac inv_bind H :=
  let a := fresh "a" in let E := fresh "E" in
  apply bind_some in H; destruct H as [a [E H]].

Lemma set_nth_length {A} k (x : A) l : length (set_nth k x l) = length l.
Proof. revert k; induction l; destruct k; simpl; auto. Qed.

Lemma nth_error_set_nth_eq {A} k (x : A) l : k < length l -> nth_error (set_nth k x l) k = Some x.
Proof. revert k; induction l; destruct k; simpl; intros; try lia; auto. apply IHl; lia. Qed.

Lemma nth_error_set_nth_neq {A} k m (x : A) l : k <> m -> nth_error (set_nth k x l) m = nth_error l m.
Proof.
  revert k m; induction l; destruct k, m; simpl; intros; try congruence; auto.
Qed.

Lemma nth_error_some_lt {A} (l : list A) n x : nth_error l n = Some x -> n < length l.
Proof. intros H. apply nth_error_Some. congruence. Qed.

Lemma map_opt_mono {A B} (f1 f2 : A -> option B) l ys :
  (forall x y, In x l -> f1 x = Some y -> f2 x = Some y) -> map_opt f1 l = Some ys -> map_opt f2 l = Some ys.
Proof.
  revert ys; induction l; simpl; intros ys H E; auto.
  inv_bind E. inv_bind E. rewrite (H _ _ (or_introl eq_refl) E0). simpl.
  rewrite (IHl a1); auto.
Qed.

Lemma map_opt_some_in {A B} (f : A -> option B) l ys :
  map_opt f l = Some ys -> forall x, In x l -> exists y, f x = Some y /\ In y ys.
Proof.
  revert ys; induction l; simpl; intros ys E x Hx; [tauto|].
  inv_bind E. inv_bind E. injection E as <-. destruct Hx as [<- | Hx].
  - eexists; split; eauto. left; auto.
  - destruct (IHl _ E1 _ Hx) as [y [? ?]]. exists y; split; auto. right; auto.
Qed.

Lemma map_opt_ext_some {A B} (f : A -> option B) g l :
  (forall x, In x l -> f x = Some (g x)) -> map_opt f l = Some (map g l).
Proof.
  induction l; simpl; intros H; auto.
  rewrite H by auto. simpl. rewrite IHl by auto. reflexivity.
Qed.

Lemma map_opt_is_map {A B} (f : A -> option B) g l ys :
  map_opt f l = Some ys -> (forall x y, In x l -> f x = Some y -> g x = y) -> ys = map g l.
Proof.
  revert ys; induction l; simpl; intros ys E H.
  - congruence.
  - inv_bind E. inv_bind E. injection E as <-. f_equal; [symmetry; eauto|]. apply IHl; auto.
Qed.

Lemma map_opt_length {A B} (f : A -> option B) l ys : map_opt f l = Some ys -> length ys = length l.
Proof.
  revert ys; induction l; simpl; intros ys E; [injection E as <-; auto|].
  inv_bind E. inv_bind E. injection E as <-. simpl. f_equal; auto.
Qed.

Lemma in_concat_map {A B} (f : A -> list B) l x y : In x l -> In y (f x) -> In y (concat (map f l)).
Proof. intros. apply in_concat. exists (f x). split; auto. apply in_map; auto. Qed.

(* uniform fuel for a fuel-monotone family *)
Lemma uniform_fuel {A} (P : nat -> A -> Prop) (l : list A) :
  (forall f f' x, f <= f' -> P f x -> P f' x) ->
  (forall x, In x l -> exists f, P f x) -> exists F, forall x, In x l -> P F x.
Proof.
  intros M. induction l; intros H.
  - exists 0. intros ? [].
  - destruct IHl as [F1 H1]; [intros; apply H; right; auto|].
    destruct (H a (or_introl eq_refl)) as [F2 H2].
    exists (Nat.max F1 F2). intros x [<- | Hx].
    + eapply M; [|exact H2]. lia.
    + eapply M; [|apply H1; auto]. lia.
Qed.

(* counting lemma behind "any enumeration order": pointwise <= and equal sums force equality *)
Lemma sum_pointwise_eq {A} (f g : A -> nat) l :
  (forall x, In x l -> f x <= g x) -> list_sum (map f l) = list_sum (map g l) ->
  forall x, In x l -> f x = g x.
Proof.
  induction l; simpl; intros Hle Hs x Hx; [tauto|].
  assert (list_sum (map f l) <= list_sum (map g l)).
  { clear - Hle. induction l; simpl; auto.
    assert (f a0 <= g a0) by (apply Hle; simpl; auto).
    assert (list_sum (map f l) <= list_sum (map g l)) by (apply IHl; intros; apply Hle; simpl in *; tauto).
    lia. }
  assert (f a <= g a) by auto.
  destruct Hx as [<- | Hx]; [lia|]. apply IHl; auto. lia.
Qed.

Lemma list_sum_perm l l' : Permutation l l' -> list_sum l = list_sum l'.
Proof. induction 1; simpl; lia. Qed.

(* ------------------------------------------------------------------------------------------ *)
(** * Part 1: dependency lists, evaluation from scratch, acyclicity *)

Lemma map_snd_number_from nm k l : map snd (number_from nm k l) = l.
Proof. revert k; induction l; simpl; intros; f_equal; auto. Qed.

Lemma map_snd_raw_deps ps : map snd (raw_deps ps) = concat (map (fun p => port_ids (snd p)) ps).
Proof.
  induction ps as [|[nm p] r IH]; [reflexivity|].
  change (raw_deps ((nm, p) :: r)) with (port_deps (nm, p) ++ raw_deps r).
  cbn [map concat]. rewrite map_app. f_equal; [|exact IH]. unfold port_deps; simpl.
  destruct p as [[d|]|l]; simpl; auto. apply map_snd_number_from.
Qed.

Lemma map_snd_raw_deps_sn sn : map snd (raw_deps (sn_ports sn)) = deps_ids sn.
Proof. apply map_snd_raw_deps. Qed.

Lemma eval_S f g n : eval_scratch (S f) g n =
  match nth_error g n with
  | None => None
  | Some (GParam v) => Some v
  | Some (GStruct ins proc) => do xs <- map_opt (map_opt (eval_scratch f g)) ins; Some (proc xs)
  end.
Proof. reflexivity. Qed.

Lemma depth_S f g n : depth (S f) g n =
  match nth_error g n with
  | None => None
  | Some (GParam _) => Some 0
  | Some (GStruct ins _) => do hs <- map_opt (depth f g) (concat ins); Some (S (fold_right Nat.max 0 hs))
  end.
Proof. reflexivity. Qed.

Lemma eval_mono f g n v : eval_scratch f g n = Some v -> eval_scratch (S f) g n = Some v.
Proof.
  revert n v; induction f; intros n v H; [discriminate|].
  rewrite eval_S in H. rewrite eval_S. destruct (nth_error g n) as [[w|ins proc]|]; auto.
  inv_bind H.
  erewrite map_opt_mono; [exact H| |exact E].
  intros l ys _ El. eapply map_opt_mono; [|exact El]. intros; auto.
Qed.

Lemma eval_le f f' g n v : f <= f' -> eval_scratch f g n = Some v -> eval_scratch f' g n = Some v.
Proof. induction 1; auto. intros. apply eval_mono; auto. Qed.

Lemma eval_det f1 f2 g n v1 v2 :
  eval_scratch f1 g n = Some v1 -> eval_scratch f2 g n = Some v2 -> v1 = v2.
Proof.
  intros H1 H2. apply (eval_le _ (Nat.max f1 f2)) in H1; [|lia].
  apply (eval_le _ (Nat.max f1 f2)) in H2; [|lia]. congruence.
Qed.

(* a rank function: every dependency has a strictly smaller rank *)
Definition ranked (g : graph) (rk : id -> nat) : Prop :=
  forall n ins proc d, nth_error g n = Some (GStruct ins proc) -> In d (concat ins) -> rk d < rk n.

Lemma depth_mono f g n h : depth f g n = Some h -> depth (S f) g n = Some h.
Proof.
  revert n h; induction f; intros n h H; [discriminate|].
  rewrite depth_S in H. rewrite depth_S. destruct (nth_error g n) as [[w|ins proc]|]; auto.
  inv_bind H.
  erewrite map_opt_mono; [exact H| |exact E]. intros; auto.
Qed.

Lemma fold_max_in y ys : In y ys -> y <= fold_right Nat.max 0 ys.
Proof. induction ys; simpl; intros []; subst; try lia. Qed.

Lemma acyclic_ranked g : acyclic_b g = true -> exists rk, ranked g rk.
Proof.
  intros H. unfold acyclic_b in H. rewrite forallb_forall in H.
  exists (fun n => match depth (S (length g)) g n with Some h => h | None => 0 end).
  intros n ins proc d Hn Hd.
  assert (Hlt : n < length g) by (eapply nth_error_some_lt; eauto).
  specialize (H n). rewrite in_seq in H. specialize (H (conj (Nat.le_0_l _) Hlt)).
  destruct (depth (S (length g)) g n) as [h|] eqn:E; [|discriminate].
  rewrite depth_S, Hn in E. inv_bind E. injection E as <-.
  destruct (map_opt_some_in _ _ _ E0 _ Hd) as [hd [E1 Hin]].
  rewrite (depth_mono _ _ _ _ E1). apply fold_max_in in Hin. lia.
Qed.

Lemma ranked_incl g g' rk :
  ranked g rk ->
  (forall n ins' proc', nth_error g' n = Some (GStruct ins' proc') ->
     exists ins proc, nth_error g n = Some (GStruct ins proc) /\ incl (concat ins') (concat ins)) ->
  ranked g' rk.
Proof.
  intros R H n ins' proc' d Hn Hd. destruct (H _ _ _ Hn) as [ins [proc [Hn' Hi]]].
  eapply R; eauto.
Qed.

(* ------------------------------------------------------------------------------------------ *)
(** * Part 2: the cache invariant; every read is fresh, for every enumeration order *)

Lemma stale_S po f st n : stale po (S f) st n =
  match nth_error st n with
  | None => None
  | Some (Param _ _ _) => Some false
  | Some (Struct sn) =>
      match sn_depvers sn with
      | None => Some true
      | Some dv => if sn_dirty sn then Some true
                   else cmp_deps (stale po f st) st (map snd (po Cmp n (raw_deps (sn_ports sn)))) dv
      end
  end.
Proof. reflexivity. Qed.

(* the node record after process() *)
Definition exec_node (sn : snode) (v : val) (vers : list nat) : snode :=
  {| sn_ports := sn_ports sn; sn_proc := sn_proc sn; sn_ver := S (sn_ver sn); sn_cache := v;
     sn_depvers := Some vers; sn_dirty := false; sn_execs := S (sn_execs sn); sn_edits := sn_edits sn |}.

Lemma value_S po f st n : value po (S f) st n =
  match nth_error st n with
  | None => None
  | Some (Param _ v _) => Some (st, v)
  | Some (Struct sn) =>
      do o <- stale po (S f) st n;
      if o then
        do '(st1, ins) <- read_ports (value po f) st (ids_of sn);
        do vers <- map_opt (ver_of st1) (map snd (po Rec n (raw_deps (sn_ports sn))));
        Some (set_nth n (Struct (exec_node sn (sn_proc sn ins) vers)) st1, sn_proc sn ins)
      else Some (st, sn_cache sn)
  end.
Proof. reflexivity. Qed.

(* the three ways Value() returns *)
Lemma value_inv po f st n st' v : value po f st n = Some (st', v) ->
  exists f0, f = S f0 /\
  ( (exists ver sets, nth_error st n = Some (Param ver v sets) /\ st' = st)
  \/ (exists sn, nth_error st n = Some (Struct sn) /\ stale po f st n = Some false /\ st' = st /\ v = sn_cache sn)
  \/ (exists sn st1 ins vers, nth_error st n = Some (Struct sn) /\ stale po f st n = Some true /\
        read_ports (value po f0) st (ids_of sn) = Some (st1, ins) /\
        map_opt (ver_of st1) (map snd (po Rec n (raw_deps (sn_ports sn)))) = Some vers /\
        v = sn_proc sn ins /\ st' = set_nth n (Struct (exec_node sn v vers)) st1)).
Proof.
  destruct f as [|f0]; [discriminate|]. intros H. exists f0; split; auto.
  rewrite value_S in H. destruct (nth_error st n) as [[ver w sets|sn]|] eqn:En; [| |discriminate].
  - injection H as <- <-. left; eauto.
  - right. inv_bind H. destruct a.
    + right. inv_bind H. destruct a as [st1 ins]. inv_bind H. injection H as <- <-.
      exists sn, st1, ins, a. auto 10.
    + left. injection H as <- <-. exists sn; auto.
Qed.

Lemma Forall2_impl {A B} (Q Q' : A -> B -> Prop) l xs :
  (forall d x, Q d x -> Q' d x) -> Forall2 Q l xs -> Forall2 Q' l xs.
Proof. induction 2; constructor; auto. Qed.

(* reading a list of ports threads the store: generic decomposition along a preorder R *)
Section Split.
  Variable rd : store -> id -> option (store * val).
  Variable R : store -> store -> Prop.
  Variable D : id -> Prop.
  Hypothesis R_refl : forall s, R s s.
  Hypothesis R_trans : forall a b c, R a b -> R b c -> R a c.
  Hypothesis rd_R : forall st d st' x, D d -> rd st d = Some (st', x) -> R st st'.

  Definition visited (st st1 : store) (d : id) (x : val) : Prop :=
    exists sa sb, R st sa /\ rd sa d = Some (sb, x) /\ R sb st1.

  Lemma visited_weaken st0 st st1 st2 d x : R st0 st -> R st1 st2 -> visited st st1 d x -> visited st0 st2 d x.
  Proof. intros A B (sa & sb & ? & ? & ?). exists sa, sb. eauto. Qed.

  Lemma read_list_split l : forall st st1 xs, Forall D l -> read_list rd st l = Some (st1, xs) ->
    R st st1 /\ Forall2 (visited st st1) l xs.
  Proof.
    induction l as [|d r IH]; simpl; intros st st1 xs HD H.
    - injection H as <- <-. auto.
    - inversion HD; subst. inv_bind H. destruct a as [sa x]. inv_bind H. destruct a as [sb xs'].
      injection H as <- <-. destruct (IH _ _ _ H3 E0) as [Rr Fr].
      assert (R st sa) by eauto. split; [eauto|]. constructor.
      + exists st, sa. auto.
      + eapply Forall2_impl; [|exact Fr]. intros. eapply (visited_weaken st sa sb sb); eauto.
  Qed.

  Lemma read_ports_split ps : forall st st1 xss, Forall (Forall D) ps -> read_ports rd st ps = Some (st1, xss) ->
    R st st1 /\ Forall2 (Forall2 (visited st st1)) ps xss.
  Proof.
    induction ps as [|l r IH]; simpl; intros st st1 xss HD H.
    - injection H as <- <-. auto.
    - inversion HD; subst. inv_bind H. destruct a as [sa xs]. inv_bind H. destruct a as [sb xss'].
      injection H as <- <-. destruct (IH _ _ _ H3 E0) as [Rr Fr].
      destruct (read_list_split _ _ _ _ H2 E) as [Rl Fl]. split; [eauto|]. constructor.
      + eapply Forall2_impl; [|exact Fl]. intros. eapply (visited_weaken st st sa sb); eauto.
      + eapply Forall2_impl; [|exact Fr]. intros. eapply Forall2_impl; [|eassumption].
        intros. eapply (visited_weaken st sa sb sb); eauto.
  Qed.
End Split.

Lemma Forall2_map_eq {A B} (g : A -> B) l xs : Forall2 (fun d x => x = g d) l xs -> xs = map g l.
Proof. induction 1; simpl; congruence. Qed.

Lemma Forall2_nested_map_eq {A B} (g : A -> B) ps xss :
  Forall2 (Forall2 (fun d x => x = g d)) ps xss -> xss = map (map g) ps.
Proof. induction 1; simpl; auto. f_equal; auto. apply Forall2_map_eq; auto. Qed.

Lemma Forall2_in_l {A B} (Q : A -> B -> Prop) l xs d : Forall2 Q l xs -> In d l -> exists x, Q d x.
Proof. induction 1; intros []; subst; eauto. Qed.

Lemma Forall2_nested_in_l {A B} (Q : A -> B -> Prop) ps xss d :
  Forall2 (Forall2 Q) ps xss -> In d (concat ps) -> exists x, Q d x.
Proof.
  induction 1; simpl; intros Hd; [tauto|]. apply in_app_or in Hd. destruct Hd; auto.
  eapply Forall2_in_l; eauto.
Qed.

Lemma Forall2_nested_impl {A B} (Q Q' : A -> B -> Prop) ps xss :
  (forall d x, Q d x -> Q' d x) -> Forall2 (Forall2 Q) ps xss -> Forall2 (Forall2 Q') ps xss.
Proof. intros H F. eapply Forall2_impl; [|exact F]. intros. eapply Forall2_impl; eauto. Qed.

Lemma Forall2_map_opt {A B} (f : A -> option B) l xs :
  Forall2 (fun d x => f d = Some x) l xs -> map_opt f l = Some xs.
Proof. induction 1; simpl; auto. rewrite H, IHForall2. reflexivity. Qed.

Lemma Forall2_nested_map_opt {A B} (f : A -> option B) ps xss :
  Forall2 (Forall2 (fun d x => f d = Some x)) ps xss -> map_opt (map_opt f) ps = Some xss.
Proof. induction 1; simpl; auto. rewrite (Forall2_map_opt _ _ _ H), IHForall2. reflexivity. Qed.

Lemma Forall_nested_concat {A} (D : A -> Prop) ps : (forall d, In d (concat ps) -> D d) -> Forall (Forall D) ps.
Proof.
  induction ps; simpl; intros H; constructor.
  - apply Forall_forall. intros; apply H, in_or_app; auto.
  - apply IHps. intros; apply H, in_or_app; auto.
Qed.

(* total projections *)
Definition verT (st : store) (d : id) : nat := match ver_of st d with Some v => v | None => 0 end.
Definition outT (st : store) (d : id) : val :=
  match nth_error st d with Some (Param _ v _) => v | Some (Struct sn) => sn_cache sn | None => 0%Z end.

Definition perm_ok (po : order) : Prop := forall ph n l, Permutation (po ph n l) l.

(* What a struct node that looks clean locally (processed once, not re-wired since) remembers:
   versions sv and values sx of its dependencies at its last execution; versions only grow, and a
   dependency whose version is still the remembered one still shows the remembered value. *)
Definition node_inv (st : store) (sn : snode) : Prop :=
  forall dv, sn_depvers sn = Some dv -> sn_dirty sn = false ->
  exists (sv : id -> nat) (sx : id -> val) (l : list dep),
    Permutation l (raw_deps (sn_ports sn)) /\
    dv = map sv (map snd l) /\
    sn_cache sn = sn_proc sn (map (map sx) (ids_of sn)) /\
    forall d, In d (deps_ids sn) -> sv d <= verT st d /\ (sv d = verT st d -> sx d = outT st d).
Definition Inv (st : store) : Prop := forall n sn, nth_error st n = Some (Struct sn) -> node_inv st sn.

Definition Fresh (st : store) (m : id) : Prop := exists f, eval_scratch f (graph_of st) m = Some (outT st m).

Definition Frame (st st' : store) : Prop :=
  graph_of st' = graph_of st /\
  (forall m, verT st m <= verT st' m /\ (verT st m = verT st' m -> outT st' m = outT st m)) /\
  (forall m, Fresh st m -> Fresh st' m).

Lemma Frame_refl st : Frame st st.
Proof. repeat split; auto. Qed.
Lemma Frame_trans a b c : Frame a b -> Frame b c -> Frame a c.
Proof.
  intros (G1 & V1 & F1) (G2 & V2 & F2). repeat split; try congruence; auto.
  - destruct (V1 m), (V2 m); lia.
  - intros E. destruct (V1 m) as [L1 Q1], (V2 m) as [L2 Q2]. rewrite Q2, Q1; auto; lia.
Qed.

Lemma node_inv_mono st st' sn :
  (forall m, verT st m <= verT st' m /\ (verT st m = verT st' m -> outT st' m = outT st m)) ->
  node_inv st sn -> node_inv st' sn.
Proof.
  intros V H dv Hd Hc. destruct (H dv Hd Hc) as (sv & sx & l & P & E & C & M).
  exists sv, sx, l. repeat split; auto; destruct (M d H0) as [L Q], (V d) as [L' Q'].
  - lia.
  - intros E'. rewrite Q', Q; auto; lia.
Qed.

Lemma node_inv_frame st st' sn : Frame st st' -> node_inv st sn -> node_inv st' sn.
Proof. intros (G & V & F). apply node_inv_mono; auto. Qed.

Lemma cmp_deps_false s st L dv : cmp_deps s st L dv = Some false -> length L = length dv ->
  map (verT st) L = dv /\ forall d, In d L -> s d = Some false.
Proof.
  revert dv; induction L as [|d r IH]; intros [|v vs]; simpl; intros H HL; try discriminate; auto.
  - split; auto. tauto.
  - inv_bind H. destruct (a =? v) eqn:Ev; simpl in H; [|discriminate].
    inv_bind H. destruct a0; [discriminate|]. destruct (IH _ H) as [A B]; [lia|].
    apply Nat.eqb_eq in Ev. subst a. split.
    + f_equal; auto. unfold verT. rewrite E. auto.
    + intros d' [<- | Hd']; auto.
Qed.

Lemma graph_nth st n : nth_error (graph_of st) n = option_map erase (nth_error st n).
Proof. apply nth_error_map. Qed.

(* Outdated() = false  ==>  the cached value is the from-scratch value *)
Lemma stale_false_eval po : perm_ok po -> forall f st n, Inv st -> stale po f st n = Some false ->
  eval_scratch f (graph_of st) n = Some (outT st n).
Proof.
  intros PO. induction f; intros st n I H; [discriminate|].
  rewrite stale_S in H. rewrite eval_S, graph_nth. unfold outT.
  destruct (nth_error st n) as [[ver w sets|sn]|] eqn:En; simpl; auto; [|discriminate].
  destruct (sn_depvers sn) as [dv|] eqn:Edv; [|discriminate].
  destruct (sn_dirty sn) eqn:Ed; [discriminate|].
  destruct (I _ _ En dv Edv Ed) as (sv & sx & l & P & E & C & M).
  pose proof (PO Cmp n (raw_deps (sn_ports sn))) as Pc.
  set (lc := po Cmp n (raw_deps (sn_ports sn))) in *.
  apply cmp_deps_false in H.
  2:{ subst dv. rewrite !map_length.
      etransitivity; [exact (Permutation_length Pc) | symmetry; exact (Permutation_length P)]. }
  destruct H as [Hv Hs].
  (* counting: the two enumerations are permutations of the same list, so the sums agree *)
  assert (Hsum : list_sum (map sv (deps_ids sn)) = list_sum (map (verT st) (deps_ids sn))).
  { rewrite <- map_snd_raw_deps_sn.
    rewrite <- (list_sum_perm _ _ (Permutation_map sv (Permutation_map snd P))).
    rewrite <- (list_sum_perm _ _ (Permutation_map (verT st) (Permutation_map snd Pc))).
    congruence. }
  assert (Heq : forall d, In d (deps_ids sn) -> sv d = verT st d).
  { apply sum_pointwise_eq; auto. intros; apply M; auto. }
  assert (Hev : forall d, In d (deps_ids sn) -> eval_scratch f (graph_of st) d = Some (sx d)).
  { intros d Hd. destruct (M d Hd) as [_ Q]. rewrite (Q (Heq d Hd)). apply IHf; auto.
    apply Hs. eapply Permutation_in; [apply Permutation_sym, (Permutation_map snd Pc)|].
    rewrite map_snd_raw_deps_sn; auto. }
  erewrite (map_opt_ext_some _ (map sx)).
  - simpl. congruence.
  - intros l0 Hl0. apply map_opt_ext_some. intros d Hd. apply Hev.
    unfold deps_ids. apply in_concat. eauto.
Qed.

Lemma graph_of_set_nth_same st n x y :
  nth_error st n = Some x -> erase y = erase x -> graph_of (set_nth n y st) = graph_of st.
Proof.
  unfold graph_of. revert n; induction st; destruct n; simpl; intros H E; try discriminate.
  - injection H as ->. congruence.
  - f_equal. auto.
Qed.

Lemma verT_set_nth_neq st n m y : n <> m -> verT (set_nth n y st) m = verT st m.
Proof. intros. unfold verT, ver_of. rewrite nth_error_set_nth_neq; auto. Qed.
Lemma outT_set_nth_neq st n m y : n <> m -> outT (set_nth n y st) m = outT st m.
Proof. intros. unfold outT. rewrite nth_error_set_nth_neq; auto. Qed.

Lemma Fresh_transfer st st' m :
  graph_of st' = graph_of st -> outT st' m = outT st m -> Fresh st m -> Fresh st' m.
Proof. intros G O [f H]. exists f. congruence. Qed.

Section ValueSpec.
  Variable po : order.
  Hypothesis PO : perm_ok po.
  Variable rk : id -> nat.

  Definition Pre (st : store) : Prop := Inv st /\ ranked (graph_of st) rk.
  (* nodes of rank >= K are not touched *)
  Definition Local (K : nat) (st st' : store) : Prop := forall m, K <= rk m -> nth_error st' m = nth_error st m.
  Definition RR (K : nat) (st st' : store) : Prop := Pre st -> Pre st' /\ Frame st st' /\ Local K st st'.

  Lemma RR_refl K st : RR K st st.
  Proof. intros H. split; auto. split; [apply Frame_refl|]. intros m _; auto. Qed.
  Lemma RR_trans K a b c : RR K a b -> RR K b c -> RR K a c.
  Proof.
    intros H1 H2 Pa. destruct (H1 Pa) as (Pb & F1 & L1). destruct (H2 Pb) as (Pc & F2 & L2).
    split; auto. split; [eapply Frame_trans; eauto|]. intros m Hm. rewrite L2, L1; auto.
  Qed.

  Lemma value_spec : forall f st n st' v, Pre st -> value po f st n = Some (st', v) ->
    eval_scratch f (graph_of st) n = Some v /\ outT st' n = v /\
    Pre st' /\ Frame st st' /\ Local (S (rk n)) st st'.
  Proof.
    induction f as [|f0 IH]; intros st n st' v HP H; [discriminate|].
    destruct (value_inv _ _ _ _ _ _ H) as (f1 & Ef & Hc). injection Ef as <-.
    destruct Hc as [(ver & sets & En & ->) | [(sn & En & Hs & -> & ->) | (sn & st1 & ins & vers & En & Hs & Hr & Hv & Ev & ->)]].
    - (* parameter *)
      rewrite eval_S, graph_nth, En. unfold outT; rewrite En. simpl.
      repeat split; try apply HP; try apply Frame_refl; auto.
    - (* cached *)
      pose proof (stale_false_eval po PO _ _ _ (proj1 HP) Hs) as He.
      unfold outT in He at 1. rewrite En in He. unfold outT; rewrite En.
      repeat split; try apply HP; try apply Frame_refl; auto.
    - (* process() *)
      set (g := graph_of st) in *.
      assert (Hg : nth_error g n = Some (GStruct (ids_of sn) (sn_proc sn))).
      { unfold g. rewrite graph_nth, En. reflexivity. }
      assert (Hrk : forall d, In d (concat (ids_of sn)) -> rk d < rk n).
      { intros d Hd. eapply (proj2 HP); eauto. }
      destruct (read_ports_split (value po f0) (RR (rk n)) (fun d => rk d < rk n)
                  (RR_refl _) (RR_trans _)) with (ps := ids_of sn) (st := st) (st1 := st1) (xss := ins)
        as [R1 F1]; auto.
      { intros s d s' x Hd Hval Ps. destruct (IH _ _ _ _ Ps Hval) as (_ & _ & P' & Fr & Lo).
        split; auto. split; auto. intros m Hm. apply Lo. lia. }
      { apply Forall_nested_concat; auto. }
      destruct (R1 HP) as (P1 & Fr1 & Lo1).
      assert (En1 : nth_error st1 n = Some (Struct sn)) by (rewrite Lo1; auto).
      assert (Hlt : n < length st1) by (eapply nth_error_some_lt; eauto).
      destruct Fr1 as (G1 & V1 & FF1). fold g in G1.
      (* every input read returned its from-scratch value, which is what its node shows at st1 *)
      assert (Q : Forall2 (Forall2 (fun d x => eval_scratch f0 g d = Some x /\ x = outT st1 d)) (ids_of sn) ins).
      { eapply Forall2_nested_impl; [|exact F1]. intros d x (sa & sb & Ra & Hval & Rb).
        destruct (Ra HP) as (Pa & (Ga & _ & _) & _).
        destruct (IH _ _ _ _ Pa Hval) as (He & Ho & Pb & (Gb & _ & _) & _).
        destruct (Rb Pb) as (_ & (Gc & _ & Fc) & _).
        rewrite Ga in He. fold g in He. split; auto.
        destruct (Fc d) as [f2 H2].
        { exists f0. rewrite Gb, Ga, Ho. exact He. }
        rewrite Gc, Gb, Ga in H2. fold g in H2. eapply eval_det; eauto. }
      assert (Hins : ins = map (map (outT st1)) (ids_of sn)).
      { apply Forall2_nested_map_eq. eapply Forall2_nested_impl; [|exact Q]. intros ? ? []; auto. }
      assert (Hev : eval_scratch (S f0) g n = Some v).
      { rewrite eval_S, Hg. rewrite (Forall2_nested_map_opt (eval_scratch f0 g) (ids_of sn) ins).
        - simpl; congruence.
        - eapply Forall2_nested_impl; [|exact Q]. intros ? ? []; auto. }
      set (sn' := exec_node sn v vers) in *.
      set (st' := set_nth n (Struct sn') st1).
      assert (En' : nth_error st' n = Some (Struct sn')) by (apply nth_error_set_nth_eq; auto).
      assert (G' : graph_of st' = graph_of st1) by (eapply graph_of_set_nth_same; eauto).
      assert (O' : outT st' n = v) by (unfold outT; rewrite En'; auto).
      assert (Fr' : Frame st1 st').
      { split; auto. split.
        - intros m. destruct (Nat.eq_dec n m) as [<- | Hne].
          + unfold verT, ver_of. rewrite En', En1. simpl. split; [lia|]. intros; lia.
          + unfold st'. rewrite verT_set_nth_neq, outT_set_nth_neq; auto.
        - intros m Hm. destruct (Nat.eq_dec n m) as [<- | Hne].
          + exists (S f0). rewrite G', G1, O'. exact Hev.
          + eapply Fresh_transfer; [exact G'| |exact Hm]. unfold st'. apply outT_set_nth_neq; auto. }
      split; auto. split; auto.
      assert (Fr : Frame st st') by (eapply Frame_trans; [exact (conj G1 (conj V1 FF1))|exact Fr']).
      split; [|split; auto].
      + (* the invariant after the execution *)
        split; [|rewrite G', G1; apply HP].
        intros k snk Ek. destruct (Nat.eq_dec n k) as [<- | Hne].
        * rewrite En' in Ek. injection Ek as <-. intros dv Hdv _. simpl in Hdv. injection Hdv as <-.
          exists (verT st1), (outT st1), (po Rec n (raw_deps (sn_ports sn))).
          split; [apply PO|]. split; [|split].
          -- eapply map_opt_is_map; [exact Hv|]. intros d w _ Hw. unfold verT. rewrite Hw. auto.
          -- simpl. unfold ids_of at 1. simpl. fold (ids_of sn). congruence.
          -- intros d _. destruct Fr' as (_ & V' & _). destruct (V' d) as [L Q']. split; auto.
             intros E'. symmetry. auto.
        * unfold st' in Ek. rewrite nth_error_set_nth_neq in Ek; auto.
          eapply node_inv_frame; [exact Fr'|]. apply (proj1 P1 _ _ Ek).
      + intros m Hm. unfold st'. rewrite nth_error_set_nth_neq; [apply Lo1; lia|]. intros ->; lia.
  Qed.
End ValueSpec.

(* ------------------------------------------------------------------------------------------ *)
(** * Part 3: every state reachable from [init] is well formed; reads are fresh *)

Definition WF (st : store) : Prop := Inv st /\ exists rk, ranked (graph_of st) rk.

Lemma init_ports_empty (fs : list (string * bool)) :
  concat (map (fun p : string * port => port_ids (snd p))
              (map (fun f : string * bool => (fst f, if snd f then Array [] else Scalar None)) fs)) = [].
Proof. induction fs as [|[nm []] r IH]; simpl; auto. Qed.

Lemma init_WF ds : WF (nodes (init ds)).
Proof.
  split.
  - intros n sn En. simpl in En. rewrite nth_error_map in En.
    destruct (nth_error ds n) as [[v|fs proc]|]; try discriminate. injection En as <-.
    intros dv Hdv. discriminate.
  - exists (fun _ => 0). intros n ins proc d En Hd. exfalso.
    rewrite graph_nth in En. simpl in En. rewrite nth_error_map in En.
    destruct (nth_error ds n) as [[v|fs proc']|]; try discriminate. injection En as <- <-.
    unfold ids_of in Hd. simpl in Hd. rewrite init_ports_empty in Hd. destruct Hd.
Qed.

Definition rewired_node (sn : snode) (ps : list (string * port)) : snode :=
  {| sn_ports := ps; sn_proc := sn_proc sn; sn_ver := sn_ver sn; sn_cache := sn_cache sn;
     sn_depvers := sn_depvers sn; sn_dirty := true; sn_execs := sn_execs sn; sn_edits := S (sn_edits sn) |}.

Lemma rewire_inv st n input src st' : rewire st n input src = Some st' ->
  exists sn ps, nth_error st n = Some (Struct sn) /\ set_input (sn_ports sn) input src = Some ps /\
                st' = set_nth n (Struct (rewired_node sn ps)) st.
Proof.
  unfold rewire. destruct (nth_error st n) as [[| sn]|]; try discriminate.
  intros H. inv_bind H. injection H as <-. exists sn, a. auto.
Qed.

Lemma remove_at_incl {A} k (l : list A) : incl (remove_at k l) l.
Proof.
  revert k; induction l; destruct k; simpl; try apply incl_refl.
  - apply incl_tl, incl_refl.
  - apply incl_cons; [left; auto|]. apply incl_tl; auto.
Qed.

Lemma upd_port_incl nm f ps ps' : upd_port nm f ps = Some ps' ->
  (forall p p', f p = Some p' -> incl (port_ids p') (port_ids p)) ->
  incl (concat (map (fun p : string * port => port_ids (snd p)) ps'))
       (concat (map (fun p : string * port => port_ids (snd p)) ps)).
Proof.
  revert ps'; induction ps as [|[k p] r IH]; simpl; intros ps' H Hf; [discriminate|].
  destruct (String.eqb k nm).
  - inv_bind H. injection H as <-. simpl. apply incl_app; [apply incl_appl; eauto | apply incl_appr, incl_refl].
  - inv_bind H. injection H as <-. simpl. apply incl_app; [apply incl_appl, incl_refl | apply incl_appr; eauto].
Qed.

Lemma set_input_none_incl ps input ps' : set_input ps input None = Some ps' ->
  incl (concat (map (fun p : string * port => port_ids (snd p)) ps'))
       (concat (map (fun p : string * port => port_ids (snd p)) ps)).
Proof.
  unfold set_input. destruct (split_dot input) as [nm [suffix|]]; intros H.
  - inv_bind H. eapply upd_port_incl; [exact H|]. intros [src|l] p' Hp; [discriminate|].
    destruct (a <? N.of_nat (length l))%N; [|discriminate]. injection Hp as <-. simpl. apply remove_at_incl.
  - eapply upd_port_incl; [exact H|]. intros [src|l] p' Hp; injection Hp as <-; simpl;
      intros x [].
Qed.

Lemma inv_unchanged_vo st st' :
  (forall m, verT st' m = verT st m /\ outT st' m = outT st m) ->
  forall sn, node_inv st sn -> node_inv st' sn.
Proof.
  intros H sn. apply node_inv_mono. intros m. destruct (H m) as [-> ->]. split; auto.
Qed.

Lemma step_store_WF po st o st' r : perm_ok po -> WF st -> step_store po st o = Some (st', r) -> WF st'.
Proof.
  intros PO [I [rk Rk]] H. destruct o as [n v | n input src | n input | n]; cbn [step_store] in H.
  - (* SetParam *)
    destruct (nth_error st n) as [[ver w sets|]|] eqn:En; try discriminate. injection H as <- <-.
    split.
    + intros k snk Ek. destruct (Nat.eq_dec n k) as [<- | Hne].
      * rewrite nth_error_set_nth_eq in Ek by (eapply nth_error_some_lt; eauto). discriminate.
      * rewrite nth_error_set_nth_neq in Ek; auto. eapply node_inv_mono; [|apply (I _ _ Ek)].
        intros m. destruct (Nat.eq_dec n m) as [<- | Hnm].
        -- unfold verT, ver_of. rewrite nth_error_set_nth_eq by (eapply nth_error_some_lt; eauto).
           rewrite En. split; [lia|]. intros; lia.
        -- rewrite verT_set_nth_neq, outT_set_nth_neq; auto.
    + exists rk. eapply ranked_incl; [exact Rk|]. intros m ins' proc' Em.
      rewrite graph_nth in Em. destruct (Nat.eq_dec n m) as [<- | Hnm].
      * rewrite nth_error_set_nth_eq in Em by (eapply nth_error_some_lt; eauto). discriminate.
      * rewrite nth_error_set_nth_neq in Em; auto. exists ins', proc'. rewrite graph_nth. split; auto.
        apply incl_refl.
  - (* Connect *)
    destruct (src <? length st); [|discriminate]. inv_bind H.
    destruct (acyclic_b (graph_of a)) eqn:Ea; [|discriminate]. injection H as <- <-.
    destruct (rewire_inv _ _ _ _ _ E) as (sn & ps & En & Hps & ->).
    split; [|apply acyclic_ranked; auto].
    intros k snk Ek. destruct (Nat.eq_dec n k) as [<- | Hne].
    + rewrite nth_error_set_nth_eq in Ek by (eapply nth_error_some_lt; eauto). injection Ek as <-.
      intros dv _ Hd. discriminate.
    + rewrite nth_error_set_nth_neq in Ek; auto. eapply inv_unchanged_vo; [|apply (I _ _ Ek)].
      intros m. destruct (Nat.eq_dec n m) as [<- | Hnm].
      * unfold verT, ver_of, outT. rewrite nth_error_set_nth_eq by (eapply nth_error_some_lt; eauto).
        rewrite En. auto.
      * rewrite verT_set_nth_neq, outT_set_nth_neq; auto.
  - (* Disconnect *)
    inv_bind H. injection H as <- <-.
    destruct (rewire_inv _ _ _ _ _ E) as (sn & ps & En & Hps & ->).
    split.
    + intros k snk Ek. destruct (Nat.eq_dec n k) as [<- | Hne].
      * rewrite nth_error_set_nth_eq in Ek by (eapply nth_error_some_lt; eauto). injection Ek as <-.
        intros dv _ Hd. discriminate.
      * rewrite nth_error_set_nth_neq in Ek; auto. eapply inv_unchanged_vo; [|apply (I _ _ Ek)].
        intros m. destruct (Nat.eq_dec n m) as [<- | Hnm].
        -- unfold verT, ver_of, outT. rewrite nth_error_set_nth_eq by (eapply nth_error_some_lt; eauto).
           rewrite En. auto.
        -- rewrite verT_set_nth_neq, outT_set_nth_neq; auto.
    + exists rk. eapply ranked_incl; [exact Rk|]. intros m ins' proc' Em.
      rewrite graph_nth in Em. destruct (Nat.eq_dec n m) as [<- | Hnm].
      * rewrite nth_error_set_nth_eq in Em by (eapply nth_error_some_lt; eauto).
        simpl in Em. injection Em as <- <-. exists (ids_of sn), (sn_proc sn).
        rewrite graph_nth, En. split; auto. apply set_input_none_incl in Hps. exact Hps.
      * rewrite nth_error_set_nth_neq in Em; auto. exists ins', proc'. rewrite graph_nth. split; auto.
        apply incl_refl.
  - (* Read *)
    inv_bind H. destruct a as [st1 v]. injection H as <- <-.
    destruct (value_spec po PO rk _ _ _ _ _ (conj I Rk) E) as (_ & _ & [I' R'] & _).
    split; eauto.
Qed.

Definition oracle_ok (orc : oracle) : Prop := forall c, perm_ok (orc c).

Lemma step_WF orc s o s' r : oracle_ok orc -> WF (nodes s) -> step orc s o = Some (s', r) -> WF (nodes s').
Proof.
  intros PO W H. unfold step in H. inv_bind H. destruct a as [st' r']. injection H as <- <-.
  simpl. eapply step_store_WF; eauto.
Qed.

Lemma run_WF orc : oracle_ok orc -> forall h s s', WF (nodes s) -> run orc s h = Some s' -> WF (nodes s').
Proof.
  intros PO. induction h as [|o r IH]; simpl; intros s s' W H.
  - injection H as <-. auto.
  - inv_bind H. destruct a as [s1 res]. eapply IH; [|exact H]. eapply step_WF; eauto.
Qed.

Lemma read_inv orc s n s' v : read orc s n = Some (s', v) ->
  value (orc (clock s)) (fuel_of (nodes s)) (nodes s) n = Some (nodes s', v).
Proof.
  intros H. unfold read in H. destruct (step orc s (Read n)) as [[s1 [|w]]|] eqn:E; try discriminate.
  injection H as <- <-. unfold step in E. apply bind_some in E as [[st' r] [E1 E2]].
  injection E2 as Hs Hr. subst s1 r. cbn [step_store] in E1. apply bind_some in E1 as [[st2 w'] [E3 E4]].
  injection E4 as Hs Hr. subst st2 w'. exact E3.
Qed.

(* freshness, for every enumeration order (any oracle that returns permutations) *)
Theorem read_fresh_any_order orc ds h s n s' v :
  oracle_ok orc -> run orc (init ds) h = Some s -> read orc s n = Some (s', v) ->
  eval_now s n = Some v /\ eval_now s' n = Some v /\ graph_of (nodes s') = graph_of (nodes s).
Proof.
  intros PO Hr Hread. apply read_inv in Hread.
  destruct (run_WF orc PO _ _ _ (init_WF ds) Hr) as [I [rk Rk]].
  destruct (value_spec _ (PO _) rk _ _ _ _ _ (conj I Rk) Hread) as (He & _ & _ & (G & _ & _) & _).
  unfold eval_now. split; auto. split; auto. rewrite G. unfold fuel_of.
  replace (length (nodes s')) with (length (nodes s)); auto.
  rewrite <- (map_length erase (nodes s)), <- (map_length erase (nodes s')).
  fold (graph_of (nodes s)). fold (graph_of (nodes s')). congruence.
Qed.

Lemma insert_dep_perm x l : Permutation (insert_dep x l) (x :: l).
Proof.
  induction l as [|y r IH]; simpl; auto. destruct (str_ltb (fst y) (fst x)); auto.
  rewrite IH. apply perm_swap.
Qed.
Lemma sort_deps_perm l : Permutation (sort_deps l) l.
Proof. induction l; simpl; auto. rewrite insert_dep_perm. auto. Qed.
Lemma sorted_oracle_ok : oracle_ok sorted_oracle.
Proof. intros c ph n l. apply sort_deps_perm. Qed.

(* ------------------------------------------------------------------------------------------ *)
(** * Part 4: what a read may change; version = number of executions *)

Definition node_le (x y : node) : Prop :=
  match x, y with
  | Param _ _ _, Param _ _ _ => x = y
  | Struct s, Struct s' =>
      sn_ports s' = sn_ports s /\ sn_proc s' = sn_proc s /\ sn_edits s' = sn_edits s /\
      exists k, sn_ver s' = sn_ver s + k /\ sn_execs s' = sn_execs s + k
  | _, _ => False
  end.
Definition store_le (st st' : store) : Prop :=
  length st' = length st /\
  forall m x, nth_error st m = Some x -> exists y, nth_error st' m = Some y /\ node_le x y.

Lemma node_le_refl x : node_le x x.
Proof. destruct x; simpl; auto. repeat split; auto. exists 0. lia. Qed.
Lemma node_le_trans x y z : node_le x y -> node_le y z -> node_le x z.
Proof.
  destruct x, y, z; simpl; try tauto; try congruence.
  intros (A1 & B1 & C1 & k1 & D1 & E1) (A2 & B2 & C2 & k2 & D2 & E2).
  repeat split; try congruence. exists (k1 + k2). lia.
Qed.
Lemma store_le_refl st : store_le st st.
Proof. split; auto. intros m x H. exists x. split; auto. apply node_le_refl. Qed.
Lemma store_le_trans a b c : store_le a b -> store_le b c -> store_le a c.
Proof.
  intros [L1 H1] [L2 H2]. split; [congruence|]. intros m x Hx.
  destruct (H1 _ _ Hx) as (y & Hy & Lxy). destruct (H2 _ _ Hy) as (z & Hz & Lyz).
  exists z. split; auto. eapply node_le_trans; eauto.
Qed.

Lemma value_le po : forall f st n st' v, value po f st n = Some (st', v) -> store_le st st'.
Proof.
  induction f as [|f0 IH]; intros st n st' v H; [discriminate|].
  destruct (value_inv _ _ _ _ _ _ H) as (f1 & Ef & Hc). injection Ef as <-.
  destruct Hc as [(ver & sets & En & ->) | [(sn & En & Hs & -> & ->) | (sn & st1 & ins & vers & En & Hs & Hr & Hv & Ev & ->)]];
    try apply store_le_refl.
  destruct (read_ports_split (value po f0) store_le (fun _ => True) store_le_refl store_le_trans)
    with (ps := ids_of sn) (st := st) (st1 := st1) (xss := ins) as [[L1 R1] _]; auto.
  { intros; eapply IH; eauto. }
  { apply Forall_nested_concat; auto. }
  split; [rewrite set_nth_length; auto|]. intros m x Hx.
  destruct (Nat.eq_dec n m) as [<- | Hne].
  - rewrite nth_error_set_nth_eq by (rewrite L1; eapply nth_error_some_lt; eauto).
    eexists; split; eauto. rewrite En in Hx. injection Hx as <-. simpl.
    repeat split; auto. exists 1. lia.
  - rewrite nth_error_set_nth_neq; auto.
Qed.

Definition vc_node (x : node) : Prop :=
  match x with Param ver _ sets => ver = sets | Struct sn => sn_ver sn = sn_execs sn end.
Definition VC (st : store) : Prop := forall m x, nth_error st m = Some x -> vc_node x.

Lemma store_le_back st st' m y : store_le st st' -> nth_error st' m = Some y ->
  exists x, nth_error st m = Some x /\ node_le x y.
Proof.
  intros [L H] Hy. destruct (nth_error st m) as [x|] eqn:Ex.
  - destruct (H _ _ Ex) as (y' & Hy' & Le). exists x. split; auto. congruence.
  - apply nth_error_None in Ex. apply nth_error_some_lt in Hy. lia.
Qed.

Lemma VC_le st st' : store_le st st' -> VC st -> VC st'.
Proof.
  intros Le V m y Hy. destruct (store_le_back _ _ _ _ Le Hy) as (x & Hx & L).
  specialize (V _ _ Hx). destruct x, y; simpl in *; try tauto; try congruence.
  destruct L as (_ & _ & _ & k & A & B). lia.
Qed.

Lemma VC_set_nth st n y : VC st -> vc_node y -> VC (set_nth n y st).
Proof.
  intros V Hy m x Hx. destruct (Nat.eq_dec n m) as [<- | Hne].
  - destruct (Nat.lt_ge_cases n (length st)).
    + rewrite nth_error_set_nth_eq in Hx; auto. congruence.
    + assert (nth_error (set_nth n y st) n = None) by (apply nth_error_None; rewrite set_nth_length; auto).
      congruence.
  - rewrite nth_error_set_nth_neq in Hx; eauto.
Qed.

Lemma step_store_VC po st o st' r : VC st -> step_store po st o = Some (st', r) -> VC st'.
Proof.
  intros V H. destruct o as [n v | n input src | n input | n]; cbn [step_store] in H.
  - destruct (nth_error st n) as [[ver w sets|]|] eqn:En; try discriminate. injection H as <- <-.
    apply VC_set_nth; auto. specialize (V _ _ En). simpl in *. lia.
  - destruct (src <? length st); [|discriminate]. inv_bind H.
    destruct (acyclic_b (graph_of a)); [|discriminate]. injection H as <- <-.
    destruct (rewire_inv _ _ _ _ _ E) as (sn & ps & En & Hps & ->).
    apply VC_set_nth; auto. apply (V _ _ En).
  - inv_bind H. injection H as <- <-.
    destruct (rewire_inv _ _ _ _ _ E) as (sn & ps & En & Hps & ->).
    apply VC_set_nth; auto. apply (V _ _ En).
  - inv_bind H. destruct a as [st1 v]. injection H as <- <-.
    eapply VC_le; [eapply value_le; eauto|auto].
Qed.

Lemma run_VC orc : forall h s s', VC (nodes s) -> run orc s h = Some s' -> VC (nodes s').
Proof.
  induction h as [|o r IH]; simpl; intros s s' W H.
  - injection H as <-. auto.
  - inv_bind H. destruct a as [s1 res]. eapply IH; [|exact H].
    unfold step in E. inv_bind E. destruct a as [st' r']. injection E as <- <-. simpl.
    eapply step_store_VC; eauto.
Qed.

Lemma init_VC ds : VC (nodes (init ds)).
Proof.
  intros m x H. simpl in H. rewrite nth_error_map in H.
  destruct (nth_error ds m) as [[v|fs proc]|]; try discriminate; injection H as <-; reflexivity.
Qed.

(* Version() = number of executions (struct nodes) / number of updates (parameters), in every
   reachable state, whatever the enumeration order *)
Theorem version_counts orc ds h s :
  run orc (init ds) h = Some s ->
  forall n, match nth_error (nodes s) n with
            | Some (Struct sn) => sn_ver sn = sn_execs sn
            | Some (Param ver _ sets) => ver = sets
            | None => True
            end.
Proof.
  intros H n. pose proof (run_VC orc _ _ _ (init_VC ds) H) as V.
  destruct (nth_error (nodes s) n) as [x|] eqn:E; auto. apply (V _ _ E).
Qed.

(* ------------------------------------------------------------------------------------------ *)
(** * Part 5: stable enumeration order — no execution while the cone is untouched *)

(* m transitively depends on k (reflexive): k is in the dependency cone of m *)
Inductive reach (g : graph) : id -> id -> Prop :=
| reach_refl a : reach g a a
| reach_step a ins proc d b :
    nth_error g a = Some (GStruct ins proc) -> In d (concat ins) -> reach g d b -> reach g a b.

Lemma reach_trans g a b c : reach g a b -> reach g b c -> reach g a c.
Proof. induction 1; auto. intros. eapply reach_step; eauto. Qed.

Lemma reach_rank g rk a b : ranked g rk -> reach g a b -> rk b <= rk a.
Proof. intros R. induction 1; auto. specialize (R _ _ _ _ H H0). lia. Qed.

Lemma reach_agree g g' n :
  (forall k, reach g n k -> nth_error g' k = nth_error g k) -> forall m, reach g' n m -> reach g n m.
Proof.
  intros H m Hr. induction Hr.
  - constructor.
  - assert (E : nth_error g a = Some (GStruct ins proc)) by (rewrite <- H; auto; constructor).
    eapply reach_step; eauto. apply IHHr. intros k Hk. apply H. eapply reach_step; eauto.
Qed.

Definition clean (po : order) (st : store) (m : id) : Prop := exists f, stale po f st m = Some false.

Lemma cmp_deps_agree s s' st st' L dv b :
  (forall d, In d L -> ver_of st' d = ver_of st d /\ forall b, s d = Some b -> s' d = Some b) ->
  cmp_deps s st L dv = Some b -> cmp_deps s' st' L dv = Some b.
Proof.
  revert dv; induction L as [|d r IH]; intros [|v vs] H E; simpl in *; auto.
  destruct (H d (or_introl eq_refl)) as [Hv Hs]. rewrite Hv.
  destruct (ver_of st d) as [w|]; simpl in *; [|discriminate].
  destruct (negb (w =? v)); auto.
  destruct (s d) as [sd|] eqn:Es; simpl in *; [|discriminate]. rewrite (Hs _ eq_refl). simpl.
  destruct sd; auto.
Qed.

Lemma cmp_deps_false_all s st L dv : cmp_deps s st L dv = Some false -> forall d, In d L -> s d = Some false.
Proof.
  revert dv; induction L as [|d r IH]; intros [|v vs] H; simpl in *; try tauto; try discriminate.
  inv_bind H. destruct (negb (a =? v)); [discriminate|]. inv_bind H. destruct a0; [discriminate|].
  intros d' [<- | Hd]; eauto.
Qed.

Lemma cmp_deps_intro s st L vers :
  map_opt (ver_of st) L = Some vers -> (forall d, In d L -> s d = Some false) ->
  cmp_deps s st L vers = Some false.
Proof.
  revert vers; induction L as [|d r IH]; simpl; intros vers H Hs.
  - auto.
  - inv_bind H. inv_bind H. injection H as <-. rewrite E. simpl. rewrite Nat.eqb_refl. simpl.
    rewrite Hs by auto. simpl. auto.
Qed.

Lemma stale_mono po f st n b : stale po f st n = Some b -> stale po (S f) st n = Some b.
Proof.
  revert n b; induction f; intros n b H; [discriminate|].
  rewrite stale_S in H. rewrite stale_S. destruct (nth_error st n) as [[|sn]|]; auto.
  destruct (sn_depvers sn); auto. destruct (sn_dirty sn); auto.
  eapply cmp_deps_agree; [|exact H]. intros; split; auto.
Qed.
Lemma stale_le po f f' st n b : f <= f' -> stale po f st n = Some b -> stale po f' st n = Some b.
Proof. induction 1; auto. intros. apply stale_mono; auto. Qed.
Lemma stale_det po f1 f2 st n b1 b2 : stale po f1 st n = Some b1 -> stale po f2 st n = Some b2 -> b1 = b2.
Proof.
  intros H1 H2. apply (stale_le _ _ (Nat.max f1 f2)) in H1; [|lia].
  apply (stale_le _ _ (Nat.max f1 f2)) in H2; [|lia]. congruence.
Qed.

Lemma perm_in_deps po n sn d : perm_ok po ->
  In d (map snd (po Cmp n (raw_deps (sn_ports sn)))) <-> In d (deps_ids sn).
Proof.
  intros PO. rewrite <- map_snd_raw_deps_sn. split; apply Permutation_in.
  - apply Permutation_map, PO.
  - apply Permutation_sym, Permutation_map, PO.
Qed.

Lemma edge_reach st a sn d : nth_error st a = Some (Struct sn) -> In d (deps_ids sn) -> reach (graph_of st) a d.
Proof.
  intros En Hd. eapply reach_step; [rewrite graph_nth, En; reflexivity|exact Hd|constructor].
Qed.

(* Outdated() looks only at the cone *)
Lemma agree_on_cone po : perm_ok po -> forall f st st' m b,
  (forall k, reach (graph_of st) m k -> nth_error st' k = nth_error st k) ->
  stale po f st m = Some b -> stale po f st' m = Some b.
Proof.
  intros PO. induction f; intros st st' m b H E; [discriminate|].
  rewrite stale_S in E. rewrite stale_S. rewrite (H m (reach_refl _ _)).
  destruct (nth_error st m) as [[|sn]|] eqn:En; auto.
  destruct (sn_depvers sn); auto. destruct (sn_dirty sn); auto.
  eapply cmp_deps_agree; [|exact E]. intros d Hd. apply (perm_in_deps po m sn d PO) in Hd.
  pose proof (edge_reach _ _ _ _ En Hd) as Hr. split.
  - unfold ver_of. rewrite H; auto.
  - intros b'. apply IHf. intros k Hk. apply H. eapply reach_trans; eauto.
Qed.

Lemma clean_cone po : perm_ok po -> forall st m k,
  reach (graph_of st) m k -> forall f, stale po f st m = Some false -> clean po st k.
Proof.
  intros PO st m k Hr. induction Hr as [a | a ins proc d b Ha Hd Hr IH]; intros f Hf.
  - exists f; auto.
  - destruct f; [discriminate|]. rewrite stale_S in Hf. rewrite graph_nth in Ha.
    destruct (nth_error st a) as [[|sn]|] eqn:En; try discriminate. simpl in Ha. injection Ha as <- <-.
    destruct (sn_depvers sn); [|discriminate]. destruct (sn_dirty sn); [discriminate|].
    apply (IH f). eapply cmp_deps_false_all; [exact Hf|]. apply perm_in_deps; auto.
Qed.

Lemma keeps_clean_of_nth po st st' : perm_ok po ->
  (forall m, clean po st m -> nth_error st' m = nth_error st m) ->
  forall m, clean po st m -> clean po st' m.
Proof.
  intros PO H m [f Hf]. exists f. eapply agree_on_cone; [exact PO| |exact Hf].
  intros k Hk. apply H. eapply clean_cone; eauto.
Qed.

(* a read never touches a node that is clean *)
Definition Kc (po : order) (st st' : store) : Prop :=
  forall m, clean po st m -> nth_error st' m = nth_error st m /\ clean po st' m.

Lemma Kc_refl po st : Kc po st st.
Proof. intros m H; auto. Qed.
Lemma Kc_trans po a b c : Kc po a b -> Kc po b c -> Kc po a c.
Proof. intros H1 H2 m Hm. destruct (H1 m Hm) as [E1 C1]. destruct (H2 m C1) as [E2 C2]. split; congruence. Qed.

Lemma value_keeps po : perm_ok po -> forall f st r st' v, value po f st r = Some (st', v) -> Kc po st st'.
Proof.
  intros PO. induction f as [|f0 IH]; intros st r st' v H; [discriminate|].
  destruct (value_inv _ _ _ _ _ _ H) as (f1 & Ef & Hc). injection Ef as <-.
  destruct Hc as [(ver & sets & En & ->) | [(sn & En & Hs & -> & ->) | (sn & st1 & ins & vers & En & Hs & Hr & Hv & Ev & ->)]];
    try apply Kc_refl.
  destruct (read_ports_split (value po f0) (Kc po) (fun _ => True) (Kc_refl po) (Kc_trans po))
    with (ps := ids_of sn) (st := st) (st1 := st1) (xss := ins) as [K1 _]; auto.
  { intros; eapply IH; eauto. }
  { apply Forall_nested_concat; auto. }
  assert (N : forall m, clean po st m ->
                        nth_error (set_nth r (Struct (exec_node sn v vers)) st1) m = nth_error st m).
  { intros m Hm. destruct (K1 m Hm) as [E1 _]. rewrite nth_error_set_nth_neq; auto.
    intros <-. destruct Hm as [f Hf]. pose proof (stale_det _ _ _ _ _ _ _ Hs Hf). discriminate. }
  intros m Hm. split; auto. eapply keeps_clean_of_nth; eauto.
Qed.

(* order used when recording = order used when comparing, and it is a permutation *)
Definition stable (po : order) : Prop := perm_ok po /\ forall n l, po Rec n l = po Cmp n l.

Lemma execs_of_nth st st' n : nth_error st' n = nth_error st n -> execs_of st' n = execs_of st n.
Proof. unfold execs_of. intros ->. auto. Qed.

(* after a read, the node read and every node that executed during it are clean *)
Section ExecClean.
  Variable po : order.
  Hypothesis ST : stable po.
  Variable rk : id -> nat.
  Let PO : perm_ok po := proj1 ST.

  Definition Xc (st st' : store) : Prop := forall n, execs_of st' n <> execs_of st n -> clean po st' n.
  Definition RX (K : nat) (st st' : store) : Prop :=
    Kc po st st' /\ (Pre rk st -> Pre rk st' /\ Frame st st' /\ Local rk K st st' /\ Xc st st').

  Lemma RX_refl K st : RX K st st.
  Proof.
    split; [apply Kc_refl|]. intros P. split; auto. split; [apply Frame_refl|].
    split; [intros m _; auto|]. intros n H. congruence.
  Qed.
  Lemma RX_trans K a b c : RX K a b -> RX K b c -> RX K a c.
  Proof.
    intros (K1 & R1) (K2 & R2). split; [eapply Kc_trans; eauto|]. intros Pa.
    destruct (R1 Pa) as (Pb & F1 & L1 & X1). destruct (R2 Pb) as (Pc & F2 & L2 & X2).
    split; auto. split; [eapply Frame_trans; eauto|]. split; [intros m Hm; rewrite L2, L1; auto|].
    intros n H. destruct (Nat.eq_dec (execs_of c n) (execs_of b n)) as [E|E].
    - apply K2, X1. congruence.
    - apply X2; auto.
  Qed.

  Lemma value_exec_clean : forall f st r st' v, Pre rk st -> value po f st r = Some (st', v) ->
    clean po st' r /\ Xc st st'.
  Proof.
    induction f as [|f0 IH]; intros st r st' v HP H; [discriminate|].
    destruct (value_inv _ _ _ _ _ _ H) as (f1 & Ef & Hc). injection Ef as <-.
    destruct Hc as [(ver & sets & En & ->) | [(sn & En & Hs & -> & ->) | (sn & st1 & ins & vers & En & Hs & Hr & Hv & Ev & ->)]].
    - split; [|intros n Hn; congruence]. exists 1. rewrite stale_S, En. auto.
    - split; [|intros n Hn; congruence]. eexists; eauto.
    - assert (Hrk : forall d, In d (concat (ids_of sn)) -> rk d < rk r).
      { intros d Hd. eapply (proj2 HP); [|exact Hd]. rewrite graph_nth, En. reflexivity. }
      destruct (read_ports_split (value po f0) (RX (rk r)) (fun d => rk d < rk r)
                  (RX_refl _) (RX_trans _)) with (ps := ids_of sn) (st := st) (st1 := st1) (xss := ins)
        as [R1 F1]; auto.
      { intros s d s' x Hd Hval. split; [eapply value_keeps; eauto|].
        intros Ps. destruct (value_spec po PO rk _ _ _ _ _ Ps Hval) as (_ & _ & P' & Fr & Lo).
        split; auto. split; auto. split; [intros m Hm; apply Lo; lia|].
        apply (IH _ _ _ _ Ps Hval). }
      { apply Forall_nested_concat; auto. }
      destruct R1 as [K1 R1]. destruct (R1 HP) as (P1 & Fr1 & Lo1 & X1).
      assert (En1 : nth_error st1 r = Some (Struct sn)) by (rewrite Lo1; auto).
      assert (Hlt : r < length st1) by (eapply nth_error_some_lt; eauto).
      set (sn' := exec_node sn v vers) in *.
      set (st' := set_nth r (Struct sn') st1).
      assert (En' : nth_error st' r = Some (Struct sn')) by (apply nth_error_set_nth_eq; auto).
      (* nodes below r that are clean at st1 stay clean when r's record is replaced *)
      assert (A : forall m, clean po st1 m -> rk m < rk r -> clean po st' m).
      { intros m [f Hf] Hm. exists f. eapply agree_on_cone; [exact PO| |exact Hf].
        intros k Hk. unfold st'. apply nth_error_set_nth_neq. intros <-.
        pose proof (reach_rank _ _ _ _ (proj2 P1) Hk). lia. }
      assert (Dc : forall d, In d (deps_ids sn) -> clean po st' d).
      { intros d Hd. apply A; [|apply Hrk; exact Hd].
        destruct (Forall2_nested_in_l _ _ _ _ F1 Hd) as (x & sa & sb & Ra & Hval & Rb).
        destruct Ra as [_ Ra]. destruct (Ra HP) as (Pa & _).
        destruct (IH _ _ _ _ Pa Hval) as [Cd _]. destruct Rb as [Kb _]. apply Kb; auto. }
      assert (Cr : clean po st' r).
      { destruct (uniform_fuel (fun F d => stale po F st' d = Some false) (deps_ids sn)) as [F HF].
        { intros; eapply stale_le; eauto. }
        { intros d Hd. apply Dc; auto. }
        exists (S F). rewrite stale_S, En'. simpl.
        apply cmp_deps_intro.
        - rewrite <- (proj2 ST). eapply map_opt_mono; [|exact Hv]. intros d w Hd Hw.
          rewrite (proj2 ST) in Hd. apply (perm_in_deps po r sn d PO) in Hd.
          unfold ver_of, st'. rewrite nth_error_set_nth_neq; auto.
          intros <-. specialize (Hrk _ Hd). lia.
        - intros d Hd. apply HF. apply (perm_in_deps po r sn d PO); auto. }
      split; auto.
      intros n Hn. destruct (Nat.eq_dec r n) as [<- | Hne]; auto.
      assert (E' : execs_of st' n = execs_of st1 n).
      { apply execs_of_nth. unfold st'. apply nth_error_set_nth_neq; auto. }
      destruct (le_lt_dec (rk r) (rk n)) as [Hle | Hlt'].
      + exfalso. apply Hn. rewrite E'. apply execs_of_nth. apply Lo1; auto.
      + apply A; auto. apply X1. congruence.
  Qed.
End ExecClean.

(* ghost change counters: number of updates of a parameter / number of re-wirings of a struct node *)
Definition ctr (st : store) (m : id) : nat :=
  match nth_error st m with
  | Some (Param _ _ sets) => sets
  | Some (Struct sn) => sn_edits sn
  | None => 0
  end.
Definition target (o : op) : id :=
  match o with SetParam n _ | Connect n _ _ | Disconnect n _ | Read n => n end.
Definition is_read (o : op) : bool := match o with Read _ => true | _ => false end.

Lemma store_le_ctr st st' m : store_le st st' -> ctr st' m = ctr st m.
Proof.
  intros [L H]. unfold ctr. destruct (nth_error st m) as [x|] eqn:Ex.
  - destruct (H _ _ Ex) as (y & -> & Le). destruct x, y; simpl in Le; try tauto; try congruence.
  - apply nth_error_None in Ex. rewrite <- L in Ex. apply nth_error_None in Ex. rewrite Ex. auto.
Qed.

(* an edit replaces exactly the record of its target, and bumps its counter *)
Lemma step_store_edit po st o st' r : is_read o = false -> step_store po st o = Some (st', r) ->
  exists y, st' = set_nth (target o) y st /\ target o < length st /\
            ctr st' (target o) = S (ctr st (target o)) /\ execs_of st' (target o) = execs_of st (target o).
Proof.
  intros Hr H. destruct o as [n v | n input src | n input | n]; try discriminate; cbn [step_store] in H; simpl.
  - destruct (nth_error st n) as [[ver w sets|]|] eqn:En; try discriminate. injection H as <- <-.
    assert (n < length st) by (eapply nth_error_some_lt; eauto).
    eexists; split; [reflexivity|]. split; auto.
    unfold ctr, execs_of. rewrite nth_error_set_nth_eq, En; auto.
  - destruct (src <? length st); [|discriminate]. inv_bind H.
    destruct (acyclic_b (graph_of a)); [|discriminate]. injection H as <- <-.
    destruct (rewire_inv _ _ _ _ _ E) as (sn & ps & En & Hps & ->).
    assert (n < length st) by (eapply nth_error_some_lt; eauto).
    eexists; split; [reflexivity|]. split; auto.
    unfold ctr, execs_of. rewrite nth_error_set_nth_eq, En; auto.
  - inv_bind H. injection H as <- <-.
    destruct (rewire_inv _ _ _ _ _ E) as (sn & ps & En & Hps & ->).
    assert (n < length st) by (eapply nth_error_some_lt; eauto).
    eexists; split; [reflexivity|]. split; auto.
    unfold ctr, execs_of. rewrite nth_error_set_nth_eq, En; auto.
Qed.

Lemma step_store_read po st n st' r : step_store po st (Read n) = Some (st', r) ->
  exists v, value po (fuel_of st) st n = Some (st', v).
Proof.
  cbn [step_store]. intros H. inv_bind H. destruct a as [st1 v]. injection H as <- <-. eauto.
Qed.

Lemma step_store_ctr po st o st' r : step_store po st o = Some (st', r) ->
  forall m, ctr st m <= ctr st' m /\ (ctr st' m = ctr st m -> is_read o = false -> nth_error st' m = nth_error st m)
            /\ (is_read o = true \/ target o <> m -> ctr st' m = ctr st m).
Proof.
  intros H m. destruct (is_read o) eqn:Er.
  - destruct o; try discriminate. destruct (step_store_read _ _ _ _ _ H) as [v Hv].
    rewrite (store_le_ctr _ _ m (value_le _ _ _ _ _ _ Hv)). repeat split; auto; discriminate.
  - destruct (step_store_edit _ _ _ _ _ Er H) as (y & -> & Hlt & Hc & _).
    destruct (Nat.eq_dec (target o) m) as [<- | Hne].
    + rewrite Hc. repeat split; try lia; try (intros [|]; [discriminate|tauto]).
    + unfold ctr. rewrite nth_error_set_nth_neq; auto.
Qed.

Lemma step_idle po st o st' r n : perm_ok po -> clean po st n -> step_store po st o = Some (st', r) ->
  (forall m, reach (graph_of st) n m -> ctr st' m = ctr st m) ->
  forall m, reach (graph_of st) n m -> nth_error st' m = nth_error st m.
Proof.
  intros PO [f Hf] H Hc m Hm. destruct (is_read o) eqn:Er.
  - destruct o; try discriminate. destruct (step_store_read _ _ _ _ _ H) as [v Hv].
    apply (value_keeps po PO _ _ _ _ _ Hv). eapply clean_cone; eauto.
  - destruct (step_store_ctr _ _ _ _ _ H m) as (_ & Hn & _). apply Hn; auto.
Qed.

Definition const_oracle (po : order) : oracle := fun _ => po.

Lemma step_inv orc s o s' res : step orc s o = Some (s', res) ->
  step_store (orc (clock s)) (nodes s) o = Some (nodes s', res).
Proof.
  unfold step. intros H. apply bind_some in H as [[st' r] [E1 E2]]. injection E2 as <- <-. exact E1.
Qed.

Lemma run_ctr_mono orc : forall h s s1, run orc s h = Some s1 -> forall m, ctr (nodes s) m <= ctr (nodes s1) m.
Proof.
  induction h as [|o r IH]; simpl; intros s s1 H m.
  - injection H as <-. auto.
  - inv_bind H. destruct a as [s' res]. apply step_inv in E.
    destruct (step_store_ctr _ _ _ _ _ E m) as (L & _). specialize (IH _ _ H m). lia.
Qed.

Lemma run_ctr_untargeted orc m : forall h s s1, run orc s h = Some s1 ->
  Forall (fun o => is_read o = true \/ target o <> m) h -> ctr (nodes s1) m = ctr (nodes s) m.
Proof.
  induction h as [|o r IH]; simpl; intros s s1 H F.
  - injection H as <-. auto.
  - inversion F; subst. inv_bind H. destruct a as [s' res]. apply step_inv in E.
    destruct (step_store_ctr _ _ _ _ _ E m) as (_ & _ & U). rewrite (IH _ _ H H3). auto.
Qed.

(* while nothing in the cone of a clean node is touched, the node stays clean and does not execute *)
Lemma idle_run po : perm_ok po -> forall h s s1 n,
  run (const_oracle po) s h = Some s1 -> clean po (nodes s) n ->
  (forall m, reach (graph_of (nodes s)) n m -> ctr (nodes s1) m = ctr (nodes s) m) ->
  execs_of (nodes s1) n = execs_of (nodes s) n /\ clean po (nodes s1) n.
Proof.
  intros PO. induction h as [|o r IH]; simpl; intros s s1 n H C U.
  - injection H as <-. auto.
  - inv_bind H. destruct a as [s' res]. pose proof (step_inv _ _ _ _ _ E) as E'.
    unfold const_oracle in E'.
    assert (U' : forall m, reach (graph_of (nodes s)) n m -> ctr (nodes s') m = ctr (nodes s) m).
    { intros m Hm. destruct (step_store_ctr _ _ _ _ _ E' m) as (L & _).
      pose proof (run_ctr_mono _ _ _ _ H m). specialize (U m Hm). lia. }
    pose proof (step_idle po _ _ _ _ n PO C E' U') as N.
    assert (C' : clean po (nodes s') n).
    { destruct C as [f Hf]. exists f. eapply agree_on_cone; eauto. }
    assert (Rg : forall m, reach (graph_of (nodes s')) n m -> reach (graph_of (nodes s)) n m).
    { apply reach_agree. intros k Hk. rewrite !graph_nth, (N k Hk). auto. }
    destruct (IH _ _ n H C') as [X1 C1].
    { intros m Hm. rewrite (U m (Rg m Hm)), (U' m (Rg m Hm)). auto. }
    split; auto. rewrite X1. apply execs_of_nth. apply N. constructor.
Qed.

(* C11, second sentence (stable order), contrapositive form with the ghost counters:
   after an execution of n, n does not execute again as long as no parameter in its cone is set and
   no node of its cone (itself included) is re-wired *)
Theorem no_exec_while_cone_untouched po ds h1 s0 o s0' res h2 s1 n :
  stable po ->
  run (const_oracle po) (init ds) h1 = Some s0 ->
  step (const_oracle po) s0 o = Some (s0', res) ->
  execs_of (nodes s0') n <> execs_of (nodes s0) n ->            (* n executed in this step *)
  run (const_oracle po) s0' h2 = Some s1 ->
  (forall m, reach (graph_of (nodes s0')) n m -> ctr (nodes s1) m = ctr (nodes s0') m) ->
  execs_of (nodes s1) n = execs_of (nodes s0') n /\ clean po (nodes s1) n.
Proof.
  intros ST R0 Hs Hx R1 U.
  assert (PO : oracle_ok (const_oracle po)) by (intros c; apply ST).
  destruct (run_WF _ PO _ _ _ (init_WF ds) R0) as [I [rk Rk]].
  apply step_inv in Hs. unfold const_oracle in Hs.
  assert (C : clean po (nodes s0') n).
  { destruct (is_read o) eqn:Er.
    - destruct o; try discriminate. destruct (step_store_read _ _ _ _ _ Hs) as [v Hv].
      destruct (value_exec_clean po ST rk _ _ _ _ _ (conj I Rk) Hv) as [_ X]. apply X; auto.
    - exfalso. apply Hx. destruct (step_store_edit _ _ _ _ _ Er Hs) as (y & E & Hlt & _ & Ex).
      destruct (Nat.eq_dec (target o) n) as [<- | Hne]; auto.
      apply execs_of_nth. rewrite E. apply nth_error_set_nth_neq; auto. }
  eapply idle_run; eauto. apply ST.
Qed.

(* the same without ghost counters: no operation of h2 sets a parameter of the cone or re-wires a node of it *)
Definition touches (g : graph) (n : id) (o : op) : Prop :=
  match o with Read _ => False | _ => reach g n (target o) end.

Theorem exec_only_if_cone_touched po ds h1 s0 o s0' res h2 s1 n :
  stable po ->
  run (const_oracle po) (init ds) h1 = Some s0 ->
  step (const_oracle po) s0 o = Some (s0', res) ->
  execs_of (nodes s0') n <> execs_of (nodes s0) n ->
  run (const_oracle po) s0' h2 = Some s1 ->
  Forall (fun o => ~ touches (graph_of (nodes s0')) n o) h2 ->
  execs_of (nodes s1) n = execs_of (nodes s0') n.
Proof.
  intros ST R0 Hs Hx R1 F.
  eapply (no_exec_while_cone_untouched po ds h1 s0 o s0' res h2 s1 n); eauto.
  intros m Hm. eapply run_ctr_untargeted; eauto.
  eapply Forall_impl; [|exact F]. intros o' Ho'. destruct (is_read o') eqn:Er; auto.
  right. intros <-. apply Ho'. destruct o'; simpl in *; auto. discriminate.
Qed.

Lemma sorted_order_stable : stable sorted_order.
Proof. split; [intros ph n l; apply sort_deps_perm | reflexivity]. Qed.

(* ------------------------------------------------------------------------------------------ *)
(** * Part 6: the pinned tree (dependencies enumerated through a Go map): a spurious execution *)

(* an enumeration that lists the dependencies in one order when recording and in the reverse order
   when comparing — both are permutations, as two iterations over a Go map may be *)
Definition flip_order : order := fun ph _ l => match ph with Rec => l | Cmp => rev l end.

Lemma flip_oracle_ok : oracle_ok (const_oracle flip_order).
Proof. intros c [] n l; simpl; [apply Permutation_refl | apply Permutation_sym, Permutation_rev]. Qed.

Definition sum_proc : procfn := fun ins => fold_right Z.add 0%Z (concat ins).

Definition spurious_decls : list decl :=
  [DParam 3%Z; DParam 4%Z; DStruct [("A"%string, false); ("B"%string, false)] sum_proc].
Definition spurious_hist : list op :=
  [SetParam 1 5%Z; Connect 2 "A"%string 0; Connect 2 "B"%string 1; Read 2].

(* after the history (which ends with a read of node 2) two further reads of node 2 with NOTHING in
   between: each of them executes the node again although nothing changed (the value stays right) *)
Lemma spurious_witness :
  exists s1 s2 s3,
    run (const_oracle flip_order) (init spurious_decls) spurious_hist = Some s1 /\
    execs_of (nodes s1) 2 = 1 /\
    read (const_oracle flip_order) s1 2 = Some (s2, 8%Z) /\ execs_of (nodes s2) 2 = 2 /\
    read (const_oracle flip_order) s2 2 = Some (s3, 8%Z) /\ execs_of (nodes s3) 2 = 3 /\
    eval_now s1 2 = Some 8%Z.
Proof.
  eexists. eexists. eexists.
  split; [vm_compute; reflexivity|]. split; [vm_compute; reflexivity|].
  split; [vm_compute; reflexivity|]. split; [vm_compute; reflexivity|].
  split; [vm_compute; reflexivity|]. split; vm_compute; reflexivity.
Qed.

(* with the repaired (sorted) order the same history executes node 2 exactly once *)
Lemma sorted_witness :
  exists s1 s2 s3,
    run sorted_oracle (init spurious_decls) spurious_hist = Some s1 /\
    execs_of (nodes s1) 2 = 1 /\
    read sorted_oracle s1 2 = Some (s2, 8%Z) /\ execs_of (nodes s2) 2 = 1 /\
    read sorted_oracle s2 2 = Some (s3, 8%Z) /\ execs_of (nodes s3) 2 = 1.
Proof.
  eexists. eexists. eexists.
  split; [vm_compute; reflexivity|]. split; [vm_compute; reflexivity|].
  split; [vm_compute; reflexivity|]. split; [vm_compute; reflexivity|].
  split; vm_compute; reflexivity.
Qed.

(* ------------------------------------------------------------------------------------------ *)
(** * Part 7: processors that fail — freshness includes the error/value distinction *)

Lemma map_opt_ext {A B} (f g : A -> option B) l : (forall x, f x = g x) -> map_opt f l = map_opt g l.
Proof. intros H. induction l; simpl; auto. rewrite H, IHl. reflexivity. Qed.

Lemma eval_outcome_fst : forall f g n,
  eval_scratch f (map oerase g) n = option_map fst (eval_outcome f g n).
Proof.
  induction f; intros g n; [reflexivity|].
  rewrite eval_S. cbn [eval_outcome]. rewrite nth_error_map.
  destruct (nth_error g n) as [[v|ins p]|]; simpl; auto.
  rewrite (map_opt_ext _ (map_opt (fun d => option_map fst (eval_outcome f g d)))).
  - destruct (map_opt _ ins); reflexivity.
  - intros l. apply map_opt_ext. intros d. apply IHf.
Qed.

(* If the processors of the graph are the value components of error-returning functions (og), the value a
   read returns is the value component of the from-scratch OUTCOME of the node — whether that outcome is a
   success or an error, and whatever failed or succeeded before. *)
Theorem read_fresh_outcome orc ds h s n s' v og :
  oracle_ok orc -> run orc (init ds) h = Some s -> read orc s n = Some (s', v) ->
  graph_of (nodes s) = map oerase og ->
  exists failed, eval_outcome (fuel_of (nodes s)) og n = Some (v, failed).
Proof.
  intros PO R Hr G. destruct (read_fresh_any_order orc ds h s n s' v PO R Hr) as [E _].
  unfold eval_now in E. rewrite G, eval_outcome_fst in E.
  destruct (eval_outcome (fuel_of (nodes s)) og n) as [[w e]|]; simpl in E; [|discriminate].
  injection E as ->. eauto.
Qed.

(* witness with a failing node in a non-terminal position: parameter 0 -> node 1 (fails iff its input is
   divisible by 3, then returns -1 next to the error) -> node 2 (input + 100) *)
Definition fail_p : efn := fun ins =>
  let x := fold_right Z.add 0%Z (concat ins) in if (x mod 3 =? 0)%Z then ((-1)%Z, true) else (x, false).
Definition plus100_p : efn := fun ins => ((fold_right Z.add 0 (concat ins) + 100)%Z, false).
Definition failing_decls : list decl :=
  [DParam 3%Z; DStruct [("In"%string, false)] (served fail_p); DStruct [("In"%string, false)] (served plus100_p)].
Definition failing_og (x : val) : list onode :=
  [OParam x; OStruct [[0]] fail_p; OStruct [[1]] plus100_p].

Lemma failing_witness :
  exists s1 s2 s3,
    run sorted_oracle (init failing_decls) [Connect 1 "In"%string 0; Connect 2 "In"%string 1] = Some s1 /\
    (* the upstream node fails: the consumer is computed from the value served next to the error *)
    read sorted_oracle s1 2 = Some (s2, 99%Z) /\ eval_outcome 4 (failing_og 3%Z) 1 = Some ((-1)%Z, true) /\
    (* the parameter changes to a value the upstream node accepts; the consumer is read WITHOUT reading
       the failed node first: it is recomputed *)
    run sorted_oracle s2 [SetParam 0 4%Z] = Some s3 /\
    (exists s4, read sorted_oracle s3 2 = Some (s4, 104%Z) /\ execs_of (nodes s4) 1 = 2 /\ execs_of (nodes s4) 2 = 2) /\
    graph_of (nodes s3) = map oerase (failing_og 4%Z) /\ eval_outcome 4 (failing_og 4%Z) 2 = Some (104%Z, false).
Proof.
  eexists. eexists. eexists.
  split; [vm_compute; reflexivity|]. split; [vm_compute; reflexivity|]. split; [vm_compute; reflexivity|].
  split; [vm_compute; reflexivity|]. split; [eexists; split; [vm_compute; reflexivity|split; vm_compute; reflexivity]|].
  split; vm_compute; reflexivity.
Qed.

(* ------------------------------------------------------------------------------------------ *)
(** * Part 8: processors that panic — what a panicking read leaves behind *)

Lemma pvalue_S po pan f st n : pvalue po pan (S f) st n =
  match nth_error st n with
  | None => None
  | Some (Param _ v _) => Some (st, POk v)
  | Some (Struct sn) =>
      do o <- stale po (S f) st n;
      if o then
        do '(st1, oins) <- pread_ports (pvalue po pan f) st (ids_of sn);
        match oins with
        | None => Some (st1, PPanic)
        | Some ins =>
            if pan n ins then Some (st1, PPanic)
            else
              do vers <- map_opt (ver_of st1) (map snd (po Rec n (raw_deps (sn_ports sn))));
              Some (set_nth n (Struct (exec_node sn (sn_proc sn ins) vers)) st1, POk (sn_proc sn ins))
        end
      else Some (st, POk (sn_cache sn))
  end.
Proof. reflexivity. Qed.

Section Panics.
  Variable po : order.
  Hypothesis PO : perm_ok po.
  Variable pan : pantab.
  Variable rk : id -> nat.

  (* some processor panics on the from-scratch values of its inputs (current wiring and parameters) *)
  Definition genuine (g : graph) : Prop :=
    exists m idsm proc ins F, nth_error g m = Some (GStruct idsm proc) /\
      map_opt (map_opt (eval_scratch F g)) idsm = Some ins /\ pan m ins = true.

  Definition psim (st : store) (st' : store) : Prop :=
    Pre rk st' /\ graph_of st' = graph_of st /\ store_le st st'.

  Lemma psim_trans a b c : psim a b -> psim b c -> psim a c.
  Proof.
    intros (P1 & G1 & L1) (P2 & G2 & L2). split; auto. split; [congruence|eapply store_le_trans; eauto].
  Qed.

  Variable f0 : nat.
  Hypothesis IH : forall st n st' r, Pre rk st -> pvalue po pan f0 st n = Some (st', r) ->
    psim st st' /\ match r with POk v => value po f0 st n = Some (st', v) | PPanic => genuine (graph_of st) end.

  Lemma pread_list_sim : forall l st st1 oxs, Pre rk st -> pread_list (pvalue po pan f0) st l = Some (st1, oxs) ->
    psim st st1 /\
    match oxs with Some xs => read_list (value po f0) st l = Some (st1, xs) | None => genuine (graph_of st) end.
  Proof.
    induction l as [|d r IHl]; simpl; intros st st1 oxs HP H.
    - injection H as <- <-. split; [|reflexivity]. split; auto. split; auto. apply store_le_refl.
    - apply bind_some in H as [[sa x] [E1 H]]. destruct (IH _ _ _ _ HP E1) as [S1 O1].
      destruct x as [v|].
      + apply bind_some in H as [[sb xs] [E2 H]]. injection H as <- <-.
        destruct (IHl _ _ _ (proj1 S1) E2) as [S2 O2]. split; [eapply psim_trans; eauto|].
        destruct xs as [xs|]; simpl.
        * rewrite O1. simpl. rewrite O2. reflexivity.
        * destruct S1 as (_ & G & _). rewrite <- G. exact O2.
      + injection H as <- <-. split; auto.
  Qed.

  Lemma pread_ports_sim : forall ps st st1 oxss, Pre rk st -> pread_ports (pvalue po pan f0) st ps = Some (st1, oxss) ->
    psim st st1 /\
    match oxss with Some xss => read_ports (value po f0) st ps = Some (st1, xss) | None => genuine (graph_of st) end.
  Proof.
    induction ps as [|l r IHp]; simpl; intros st st1 oxss HP H.
    - injection H as <- <-. split; [|reflexivity]. split; auto. split; auto. apply store_le_refl.
    - apply bind_some in H as [[sa oxs] [E1 H]]. destruct (pread_list_sim _ _ _ _ HP E1) as [S1 O1].
      destruct oxs as [xs|].
      + apply bind_some in H as [[sb xss] [E2 H]]. injection H as <- <-.
        destruct (IHp _ _ _ (proj1 S1) E2) as [S2 O2]. split; [eapply psim_trans; eauto|].
        destruct xss as [xss|]; simpl.
        * rewrite O1. simpl. rewrite O2. reflexivity.
        * destruct S1 as (_ & G & _). rewrite <- G. exact O2.
      + injection H as <- <-. split; auto.
  Qed.

  (* the inputs a successful port read delivers are the from-scratch values *)
  Lemma read_ports_eval : forall ps st st1 xss, Pre rk st -> read_ports (value po f0) st ps = Some (st1, xss) ->
    map_opt (map_opt (eval_scratch f0 (graph_of st))) ps = Some xss.
  Proof.
    intros ps st st1 xss HP H.
    set (R := fun a b : store => Pre rk a -> Pre rk b /\ graph_of b = graph_of a).
    assert (Rrefl : forall s, R s s) by (intros s P; split; auto).
    assert (Rtrans : forall a b c, R a b -> R b c -> R a c).
    { intros a b c H1 H2 Pa. destruct (H1 Pa) as [Pb G1]. destruct (H2 Pb) as [Pc G2]. split; congruence. }
    assert (Rrd : forall s d s' x, True -> value po f0 s d = Some (s', x) -> R s s').
    { intros s d s' x _ Hv Ps. destruct (value_spec po PO rk _ _ _ _ _ Ps Hv) as (_ & _ & P' & (G & _) & _). split; auto. }
    assert (HD : Forall (Forall (fun _ : id => True)) ps) by (apply Forall_nested_concat; auto).
    destruct (read_ports_split (value po f0) R (fun _ => True) Rrefl Rtrans Rrd ps st st1 xss HD H) as [_ F].
    apply Forall2_nested_map_opt. eapply Forall2_nested_impl; [|exact F].
    intros d x (sa & sb & Ra & Hv & _). destruct (Ra HP) as [Pa Ga].
    destruct (value_spec po PO rk _ _ _ _ _ Pa Hv) as (He & _). rewrite Ga in He. exact He.
  Qed.
End Panics.

(* A read with panicking processors, from a well-formed state: the state it leaves is well formed again
   (same wiring, every node's record only moved forward); if it returns a value it is exactly the read of the
   panic-free model (so that value is the from-scratch value); if it panics, some processor does panic on
   the from-scratch values of its inputs — the panic is genuine for the current wiring and parameters. *)
Lemma pvalue_sim po pan rk : perm_ok po -> forall f st n st' r,
  Pre rk st -> pvalue po pan f st n = Some (st', r) ->
  psim rk st st' /\ match r with POk v => value po f st n = Some (st', v) | PPanic => genuine pan (graph_of st) end.
Proof.
  intros PO. induction f as [|f0 IH]; intros st n st' r HP H; [discriminate|].
  rewrite pvalue_S in H. rewrite value_S.
  destruct (nth_error st n) as [[ver w sets|sn]|] eqn:En; [| |discriminate].
  - injection H as <- <-. split; auto. split; auto. split; auto. apply store_le_refl.
  - apply bind_some in H as [o [Es H]]. rewrite Es. simpl. destruct o.
    + apply bind_some in H as [[st1 oins] [Ep H]].
      destruct (pread_ports_sim po pan rk f0 IH _ _ _ _ HP Ep) as [S1 O1].
      destruct oins as [ins|].
      * destruct (pan n ins) eqn:Epan.
        -- injection H as <- <-. split; auto.
           exists n, (ids_of sn), (sn_proc sn), ins, f0. split; [rewrite graph_nth, En; reflexivity|].
           split; auto. eapply read_ports_eval; eauto.
        -- apply bind_some in H as [vers [Ev H]]. injection H as <- <-.
           assert (Hval : value po (S f0) st n = Some (set_nth n (Struct (exec_node sn (sn_proc sn ins) vers)) st1, sn_proc sn ins)).
           { rewrite value_S, En, Es. simpl. rewrite O1. simpl. rewrite Ev. reflexivity. }
           split; [|rewrite value_S, En, Es in Hval; exact Hval].
           destruct (value_spec po PO rk _ _ _ _ _ HP Hval) as (_ & _ & P' & (G & _) & _).
           split; auto. split; auto. eapply value_le; eauto.
      * injection H as <- <-. split; auto.
    + injection H as <- <-. split; auto. split; auto. split; auto. apply store_le_refl.
Qed.

(* histories in which reads may panic *)
Definition pstep (pan : pantab) (orc : oracle) (s : state) (o : op) : option state :=
  match o with
  | Read n => do '(st', _) <- pvalue (orc (clock s)) pan (fuel_of (nodes s)) (nodes s) n;
              Some {| nodes := st'; clock := S (clock s) |}
  | _ => do '(s', _) <- step orc s o; Some s'
  end.
Fixpoint prun (pan : pantab) (orc : oracle) (s : state) (h : list op) : option state :=
  match h with [] => Some s | o :: r => do s' <- pstep pan orc s o; prun pan orc s' r end.

Lemma pstep_WF pan orc s o s' : oracle_ok orc -> WF (nodes s) /\ VC (nodes s) -> pstep pan orc s o = Some s' ->
  WF (nodes s') /\ VC (nodes s').
Proof.
  intros PO [W V] H. destruct o as [n v | n input src | n input | n]; cbn [pstep] in H;
    try (apply bind_some in H as [[s1 r] [E H]]; injection H as <-;
         split; [eapply step_WF; eauto | apply step_inv in E; eapply step_store_VC; eauto]).
  apply bind_some in H as [[st' r] [E H]]. injection H as <-. simpl.
  destruct W as [I [rk Rk]].
  destruct (pvalue_sim _ pan rk (PO _) _ _ _ _ _ (conj I Rk) E) as [([I' R'] & _ & L) _].
  split; [split; eauto | eapply VC_le; eauto].
Qed.

Lemma prun_WF pan orc : oracle_ok orc -> forall h s s', WF (nodes s) /\ VC (nodes s) -> prun pan orc s h = Some s' ->
  WF (nodes s') /\ VC (nodes s').
Proof.
  intros PO. induction h as [|o r IH]; simpl; intros s s' W H.
  - injection H as <-. auto.
  - apply bind_some in H as [s1 [E H]]. eapply IH; [|exact H]. eapply pstep_WF; eauto.
Qed.

(* after ANY history, panicking reads included, under every enumeration order: a read that returns a value
   returns the from-scratch value; a read that panics does so because some processor panics on the
   from-scratch values of its inputs; versions still count completed executions *)
Theorem read_fresh_with_panics pan orc ds h s n st' r :
  oracle_ok orc -> prun pan orc (init ds) h = Some s ->
  pvalue (orc (clock s)) pan (fuel_of (nodes s)) (nodes s) n = Some (st', r) ->
  match r with
  | POk v => eval_now s n = Some v
  | PPanic => genuine pan (graph_of (nodes s))
  end /\ graph_of st' = graph_of (nodes s) /\ VC st'.
Proof.
  intros PO R H.
  destruct (prun_WF pan orc PO _ _ _ (conj (init_WF ds) (init_VC ds)) R) as [[I [rk Rk]] V].
  destruct (pvalue_sim _ pan rk (PO _) _ _ _ _ _ (conj I Rk) H) as [(P' & G & L) O].
  split; [|split; auto; eapply VC_le; eauto].
  destruct r as [v|]; auto.
  destruct (value_spec _ (PO _) rk _ _ _ _ _ (conj I Rk) O) as (He & _). exact He.
Qed.

(* ------------------------------------------------------------------------------------------ *)
(** * Part 9: the panic table carried through the cache invariant — three-outcome freshness, both directions *)

Lemma eval_p_S pan f g n : eval_p pan (S f) g n =
  match nth_error g n with
  | None => None
  | Some (GParam v) => Some (POk v)
  | Some (GStruct ins proc) =>
      do oxs <- pports (eval_p pan f g) ins;
      match oxs with
      | None => Some PPanic
      | Some xs => if pan n xs then Some PPanic else Some (POk (proc xs))
      end
  end.
Proof. reflexivity. Qed.

Lemma plist_all_ok {A} (f : A -> option pres) (g : A -> val) l :
  (forall d, In d l -> f d = Some (POk (g d))) -> plist f l = Some (Some (map g l)).
Proof.
  induction l; simpl; intros H; auto. rewrite H by auto. simpl. rewrite IHl by auto. reflexivity.
Qed.
Lemma pports_all_ok (f : id -> option pres) (g : id -> val) ps :
  (forall d, In d (concat ps) -> f d = Some (POk (g d))) -> pports f ps = Some (Some (map (map g) ps)).
Proof.
  induction ps; simpl; intros H; auto.
  rewrite (plist_all_ok f g) by (intros; apply H, in_or_app; auto). simpl.
  rewrite IHps by (intros; apply H, in_or_app; auto). reflexivity.
Qed.

(* node_inv plus: the processor does not panic on the remembered input values *)
Definition node_invP (pan : pantab) (st : store) (n : id) (sn : snode) : Prop :=
  forall dv, sn_depvers sn = Some dv -> sn_dirty sn = false ->
  exists (sv : id -> nat) (sx : id -> val) (l : list dep),
    Permutation l (raw_deps (sn_ports sn)) /\
    dv = map sv (map snd l) /\
    sn_cache sn = sn_proc sn (map (map sx) (ids_of sn)) /\
    (forall d, In d (deps_ids sn) -> sv d <= verT st d /\ (sv d = verT st d -> sx d = outT st d)) /\
    pan n (map (map sx) (ids_of sn)) = false.
Definition InvP (pan : pantab) (st : store) : Prop :=
  forall n sn, nth_error st n = Some (Struct sn) -> node_invP pan st n sn.

Lemma InvP_Inv pan st : InvP pan st -> Inv st.
Proof.
  intros H n sn En dv Hd Hc. destruct (H n sn En dv Hd Hc) as (sv & sx & l & P & E & C & M & _).
  exists sv, sx, l. auto.
Qed.

Lemma node_invP_mono pan st st' n sn :
  (forall m, verT st m <= verT st' m /\ (verT st m = verT st' m -> outT st' m = outT st m)) ->
  node_invP pan st n sn -> node_invP pan st' n sn.
Proof.
  intros V H dv Hd Hc. destruct (H dv Hd Hc) as (sv & sx & l & P & E & C & M & Q).
  exists sv, sx, l. repeat split; auto; destruct (M d H0) as [L Q0], (V d) as [L' Q'].
  - lia.
  - intros E'. rewrite Q', Q0; auto; lia.
Qed.

Lemma stale_false_evalp po pan : perm_ok po -> forall f st n, InvP pan st -> stale po f st n = Some false ->
  eval_p pan f (graph_of st) n = Some (POk (outT st n)).
Proof.
  intros PO. induction f; intros st n I H; [discriminate|].
  rewrite stale_S in H. rewrite eval_p_S, graph_nth. unfold outT.
  destruct (nth_error st n) as [[ver w sets|sn]|] eqn:En; simpl; auto; [|discriminate].
  destruct (sn_depvers sn) as [dv|] eqn:Edv; [|discriminate].
  destruct (sn_dirty sn) eqn:Ed; [discriminate|].
  destruct (I _ _ En dv Edv Ed) as (sv & sx & l & P & E & C & M & Q).
  pose proof (PO Cmp n (raw_deps (sn_ports sn))) as Pc.
  set (lc := po Cmp n (raw_deps (sn_ports sn))) in *.
  apply cmp_deps_false in H.
  2:{ subst dv. rewrite !map_length.
      etransitivity; [exact (Permutation_length Pc) | symmetry; exact (Permutation_length P)]. }
  destruct H as [Hv Hs].
  assert (Hsum : list_sum (map sv (deps_ids sn)) = list_sum (map (verT st) (deps_ids sn))).
  { rewrite <- map_snd_raw_deps_sn.
    rewrite <- (list_sum_perm _ _ (Permutation_map sv (Permutation_map snd P))).
    rewrite <- (list_sum_perm _ _ (Permutation_map (verT st) (Permutation_map snd Pc))).
    congruence. }
  assert (Heq : forall d, In d (deps_ids sn) -> sv d = verT st d).
  { apply sum_pointwise_eq; auto. intros; apply M; auto. }
  assert (Hev : forall d, In d (deps_ids sn) -> eval_p pan f (graph_of st) d = Some (POk (sx d))).
  { intros d Hd. destruct (M d Hd) as [_ Q0]. rewrite (Q0 (Heq d Hd)). apply IHf; auto.
    apply Hs. eapply Permutation_in; [apply Permutation_sym, (Permutation_map snd Pc)|].
    rewrite map_snd_raw_deps_sn; auto. }
  rewrite (pports_all_ok _ sx) by exact Hev. simpl. rewrite Q. congruence.
Qed.

(* what process() has in hand when every input was read successfully *)
Lemma exec_commit_facts po rk : perm_ok po -> forall f0 st n sn st1 ins,
  Pre rk st -> nth_error st n = Some (Struct sn) ->
  read_ports (value po f0) st (ids_of sn) = Some (st1, ins) ->
  ins = map (map (outT st1)) (ids_of sn) /\ nth_error st1 n = Some (Struct sn).
Proof.
  intros PO f0 st n sn st1 ins HP En Hr.
  assert (Hrk : forall d, In d (concat (ids_of sn)) -> rk d < rk n).
  { intros d Hd. eapply (proj2 HP); [|exact Hd]. rewrite graph_nth, En. reflexivity. }
  assert (Rrd : forall s d s' x, rk d < rk n -> value po f0 s d = Some (s', x) -> RR rk (rk n) s s').
  { intros s d s' x Hd Hval Ps. destruct (value_spec po PO rk _ _ _ _ _ Ps Hval) as (_ & _ & P' & Fr & Lo).
    split; auto. split; auto. intros m Hm. apply Lo. lia. }
  assert (HD : Forall (Forall (fun d => rk d < rk n)) (ids_of sn)) by (apply Forall_nested_concat; auto).
  destruct (read_ports_split (value po f0) (RR rk (rk n)) (fun d => rk d < rk n) (RR_refl rk _) (RR_trans rk _) Rrd
              (ids_of sn) st st1 ins HD Hr) as [R1 F1].
  destruct (R1 HP) as (P1 & (G1 & _ & _) & Lo1).
  split; [|rewrite Lo1; auto].
  apply Forall2_nested_map_eq. eapply Forall2_nested_impl; [|exact F1].
  intros d x (sa & sb & Ra & Hval & Rb).
  destruct (Ra HP) as (Pa & (Ga & _ & _) & _).
  destruct (value_spec po PO rk _ _ _ _ _ Pa Hval) as (He & Ho & Pb & (Gb & _ & _) & _).
  destruct (Rb Pb) as (_ & (Gc & _ & Fc) & _).
  destruct (Fc d) as [f2 H2].
  { exists f0. rewrite Gb, Ho. exact He. }
  rewrite Gc, Gb in H2. eapply eval_det; eauto.
Qed.

Section Full.
  Variable po : order.
  Hypothesis ST : stable po.
  Variable pan : pantab.
  Variable rk : id -> nat.
  Let PO : perm_ok po := proj1 ST.

  Definition PreP (st : store) : Prop := Pre rk st /\ InvP pan st.
  Definition KX (st st' : store) : Prop := Kc po st st' /\ Xc po st st'.

  Lemma KX_refl st : KX st st.
  Proof. split; [apply Kc_refl|]. intros n H; congruence. Qed.
  Lemma KX_trans a b c : KX a b -> KX b c -> KX a c.
  Proof.
    intros [K1 X1] [K2 X2]. split; [eapply Kc_trans; eauto|].
    intros n H. destruct (Nat.eq_dec (execs_of c n) (execs_of b n)) as [E|E].
    - apply K2, X1. congruence.
    - apply X2; auto.
  Qed.

  Variable f0 : nat.
  Hypothesis IH : forall st n st' r, PreP st -> pvalue po pan f0 st n = Some (st', r) ->
    InvP pan st' /\ eval_p pan f0 (graph_of st) n = Some r /\ KX st st'.

  Lemma pread_list_full : forall l st st1 oxs, PreP st -> pread_list (pvalue po pan f0) st l = Some (st1, oxs) ->
    InvP pan st1 /\ plist (eval_p pan f0 (graph_of st)) l = Some oxs /\ KX st st1.
  Proof.
    induction l as [|d r IHl]; simpl; intros st st1 oxs HP H.
    - injection H as <- <-. split; [apply HP|]. split; auto. apply KX_refl.
    - apply bind_some in H as [[sa x] [E1 H]].
      destruct (IH _ _ _ _ HP E1) as (I1 & Ev1 & K1).
      destruct (pvalue_sim po pan rk PO _ _ _ _ _ (proj1 HP) E1) as [(P1 & G1 & _) _].
      rewrite Ev1. simpl. destruct x as [v|].
      + apply bind_some in H as [[sb xs] [E2 H]]. injection H as <- <-.
        destruct (IHl _ _ _ (conj P1 I1) E2) as (I2 & Ev2 & K2). rewrite G1 in Ev2. rewrite Ev2. simpl.
        split; auto. split; auto. eapply KX_trans; eauto.
      + injection H as <- <-. auto.
  Qed.

  Lemma pread_ports_full : forall ps st st1 oxss, PreP st -> pread_ports (pvalue po pan f0) st ps = Some (st1, oxss) ->
    InvP pan st1 /\ pports (eval_p pan f0 (graph_of st)) ps = Some oxss /\ KX st st1.
  Proof.
    induction ps as [|l r IHp]; simpl; intros st st1 oxss HP H.
    - injection H as <- <-. split; [apply HP|]. split; auto. apply KX_refl.
    - apply bind_some in H as [[sa oxs] [E1 H]].
      destruct (pread_list_full _ _ _ _ HP E1) as (I1 & Ev1 & K1).
      assert (IHsim : forall st n st' r, Pre rk st -> pvalue po pan f0 st n = Some (st', r) ->
                psim rk st st' /\ match r with POk v => value po f0 st n = Some (st', v) | PPanic => genuine pan (graph_of st) end)
        by (intros; eapply pvalue_sim; eauto).
      destruct (pread_list_sim po pan rk f0 IHsim _ _ _ _ (proj1 HP) E1) as [(P1 & G1 & _) _].
      rewrite Ev1. simpl. destruct oxs as [xs|].
      + apply bind_some in H as [[sb xss] [E2 H]]. injection H as <- <-.
        destruct (IHp _ _ _ (conj P1 I1) E2) as (I2 & Ev2 & K2). rewrite G1 in Ev2. rewrite Ev2. simpl.
        split; auto. split; auto. eapply KX_trans; eauto.
      + injection H as <- <-. auto.
  Qed.
End Full.

(* the full specification of a read with panicking processors *)
Lemma pvalue_full po pan rk : stable po -> forall f st n st' r,
  PreP pan rk st -> pvalue po pan f st n = Some (st', r) ->
  InvP pan st' /\ eval_p pan f (graph_of st) n = Some r /\ KX po st st'.
Proof.
  intros ST. pose proof (proj1 ST) as PO.
  induction f as [|f0 IH]; intros st n st' r HP H; [discriminate|].
  pose proof (pvalue_sim po pan rk PO _ _ _ _ _ (proj1 HP) H) as [(P' & G' & _) Osim].
  rewrite pvalue_S in H. rewrite eval_p_S, graph_nth.
  destruct (nth_error st n) as [[ver w sets|sn]|] eqn:En; [| |discriminate].
  - injection H as <- <-. simpl. split; [apply HP|]. split; auto. apply KX_refl.
  - apply bind_some in H as [o [Es H]]. simpl. destruct o.
    + apply bind_some in H as [[st1 oins] [Ep H]].
      destruct (pread_ports_full po ST pan rk f0 IH _ _ _ _ HP Ep) as (I1 & Ev1 & K1).
      rewrite Ev1. simpl.
      destruct oins as [ins|].
      * destruct (pan n ins) eqn:Epan.
        -- injection H as <- <-. auto.
        -- apply bind_some in H as [vers [Ev H]]. injection H as <- <-.
           split; [|split; auto].
           ++ (* the extended invariant after the commit *)
              assert (IHsim : forall st n st' r, Pre rk st -> pvalue po pan f0 st n = Some (st', r) ->
                        psim rk st st' /\ match r with POk v => value po f0 st n = Some (st', v) | PPanic => genuine pan (graph_of st) end)
                by (intros; eapply pvalue_sim; eauto).
              destruct (pread_ports_sim po pan rk f0 IHsim _ _ _ _ (proj1 HP) Ep) as [_ Hrp].
              destruct (exec_commit_facts po rk PO _ _ _ _ _ _ (proj1 HP) En Hrp) as [Hins En1].
              assert (Hlt : n < length st1) by (eapply nth_error_some_lt; eauto).
              set (sn' := exec_node sn (sn_proc sn ins) vers).
              assert (V : forall m, verT st1 m <= verT (set_nth n (Struct sn') st1) m /\
                                    (verT st1 m = verT (set_nth n (Struct sn') st1) m ->
                                     outT (set_nth n (Struct sn') st1) m = outT st1 m)).
              { intros m. destruct (Nat.eq_dec n m) as [<- | Hne].
                - unfold verT, ver_of. rewrite nth_error_set_nth_eq, En1 by auto. simpl. split; [lia|]. intros; lia.
                - rewrite verT_set_nth_neq, outT_set_nth_neq; auto. }
              intros k snk Ek. destruct (Nat.eq_dec n k) as [<- | Hne].
              ** rewrite nth_error_set_nth_eq in Ek by auto. injection Ek as <-.
                 intros dv Hdv _. simpl in Hdv. injection Hdv as <-.
                 exists (verT st1), (outT st1), (po Rec n (raw_deps (sn_ports sn))).
                 split; [apply PO|]. split; [|split; [|split]].
                 --- eapply map_opt_is_map; [exact Ev|]. intros d w _ Hw. unfold verT. rewrite Hw. auto.
                 --- simpl. unfold ids_of at 1. simpl. fold (ids_of sn). congruence.
                 --- intros d _. destruct (V d) as [L Q]. split; auto. intros E'. symmetry. auto.
                 --- unfold ids_of at 1. simpl. fold (ids_of sn). rewrite <- Hins. exact Epan.
              ** rewrite nth_error_set_nth_neq in Ek; auto. eapply node_invP_mono; [exact V|]. apply (I1 _ _ Ek).
           ++ (* clean nodes untouched, executed nodes clean: it is a read of the panic-free model *)
              split; [eapply value_keeps; eauto | eapply value_exec_clean; eauto; apply HP].
      * injection H as <- <-. auto.
    + injection H as <- <-. split; [apply HP|]. split; [|apply KX_refl].
      pose proof (stale_false_evalp po pan PO _ _ _ (proj2 HP) Es) as He.
      rewrite eval_p_S, graph_nth, En in He. simpl in He. unfold outT in He. rewrite En in He. exact He.
Qed.

(* ---- edits preserve the extended invariant ---- *)
Lemma edit_InvP po pan st o st' r : is_read o = false -> step_store po st o = Some (st', r) ->
  InvP pan st -> InvP pan st'.
Proof.
  intros Hr H I. destruct o as [n v | n input src | n input | n]; try discriminate; cbn [step_store] in H.
  - destruct (nth_error st n) as [[ver w sets|]|] eqn:En; try discriminate. injection H as <- <-.
    intros k snk Ek. destruct (Nat.eq_dec n k) as [<- | Hne].
    + rewrite nth_error_set_nth_eq in Ek by (eapply nth_error_some_lt; eauto). discriminate.
    + rewrite nth_error_set_nth_neq in Ek; auto. eapply node_invP_mono; [|apply (I _ _ Ek)].
      intros m. destruct (Nat.eq_dec n m) as [<- | Hnm].
      * unfold verT, ver_of. rewrite nth_error_set_nth_eq by (eapply nth_error_some_lt; eauto).
        rewrite En. split; [lia|]. intros; lia.
      * rewrite verT_set_nth_neq, outT_set_nth_neq; auto.
  - destruct (src <? length st); [|discriminate]. inv_bind H.
    destruct (acyclic_b (graph_of a)); [|discriminate]. injection H as <- <-.
    destruct (rewire_inv _ _ _ _ _ E) as (sn & ps & En & Hps & ->).
    intros k snk Ek. destruct (Nat.eq_dec n k) as [<- | Hne].
    + rewrite nth_error_set_nth_eq in Ek by (eapply nth_error_some_lt; eauto). injection Ek as <-.
      intros dv _ Hd. discriminate.
    + rewrite nth_error_set_nth_neq in Ek; auto. eapply node_invP_mono; [|apply (I _ _ Ek)].
      intros m. destruct (Nat.eq_dec n m) as [<- | Hnm].
      * unfold verT, ver_of, outT. rewrite nth_error_set_nth_eq by (eapply nth_error_some_lt; eauto).
        rewrite En. simpl. auto.
      * rewrite verT_set_nth_neq, outT_set_nth_neq; auto.
  - inv_bind H. injection H as <- <-.
    destruct (rewire_inv _ _ _ _ _ E) as (sn & ps & En & Hps & ->).
    intros k snk Ek. destruct (Nat.eq_dec n k) as [<- | Hne].
    + rewrite nth_error_set_nth_eq in Ek by (eapply nth_error_some_lt; eauto). injection Ek as <-.
      intros dv _ Hd. discriminate.
    + rewrite nth_error_set_nth_neq in Ek; auto. eapply node_invP_mono; [|apply (I _ _ Ek)].
      intros m. destruct (Nat.eq_dec n m) as [<- | Hnm].
      * unfold verT, ver_of, outT. rewrite nth_error_set_nth_eq by (eapply nth_error_some_lt; eauto).
        rewrite En. simpl. auto.
      * rewrite verT_set_nth_neq, outT_set_nth_neq; auto.
Qed.

(* ---- acyclicity (as the executable test) is an invariant ---- *)
Lemma map_opt_total {A B} (f : A -> option B) l : (forall x, In x l -> exists y, f x = Some y) -> exists ys, map_opt f l = Some ys.
Proof.
  induction l; simpl; intros H; [eauto|]. destruct (H a (or_introl eq_refl)) as [y ->].
  destruct IHl as [ys ->]; [intros; apply H; auto|]. simpl. eauto.
Qed.

Lemma depth_some_lt f g n h : depth f g n = Some h -> n < length g.
Proof.
  destruct f; [discriminate|]. rewrite depth_S. destruct (nth_error g n) eqn:E; [|discriminate].
  intros _. eapply nth_error_some_lt; eauto.
Qed.

Definition gsub (g' g : graph) : Prop :=
  length g' = length g /\
  forall n ins' proc', nth_error g' n = Some (GStruct ins' proc') ->
    exists ins proc, nth_error g n = Some (GStruct ins proc) /\ incl (concat ins') (concat ins).

Lemma depth_gsub g' g : gsub g' g -> forall f n h, depth f g n = Some h -> exists h', depth f g' n = Some h'.
Proof.
  intros [L S]. induction f; intros n h H; [discriminate|].
  pose proof (depth_some_lt _ _ _ _ H) as Hlt. rewrite depth_S in H. rewrite depth_S.
  destruct (nth_error g' n) as [[v|ins' proc']|] eqn:E'.
  - eauto.
  - destruct (S _ _ _ E') as (ins & proc & E & Hi). rewrite E in H. inv_bind H.
    destruct (map_opt_total (depth f g') (concat ins')) as [hs' ->]; [|simpl; eauto].
    intros d Hd. destruct (map_opt_some_in _ _ _ E0 d (Hi d Hd)) as (hd & Ed & _). eapply IHf; eauto.
  - apply nth_error_None in E'. lia.
Qed.

Lemma acyclic_gsub g' g : gsub g' g -> acyclic_b g = true -> acyclic_b g' = true.
Proof.
  intros S H. unfold acyclic_b in *. rewrite forallb_forall in *. intros n Hn.
  rewrite in_seq in Hn. destruct S as [L S']. specialize (H n). rewrite in_seq in H.
  assert (Hn' : 0 <= n < 0 + length g) by (rewrite <- L; exact Hn). specialize (H Hn').
  destruct (depth (Datatypes.S (length g)) g n) as [h|] eqn:E; [|discriminate].
  destruct (depth_gsub g' g (conj L S') _ _ _ E) as [h' E']. rewrite L, E'. reflexivity.
Qed.

Lemma graph_of_length st : length (graph_of st) = length st.
Proof. apply map_length. Qed.

Lemma edit_acyclic po st o st' r : is_read o = false -> step_store po st o = Some (st', r) ->
  acyclic_b (graph_of st) = true -> acyclic_b (graph_of st') = true.
Proof.
  intros Hr H A. destruct o as [n v | n input src | n input | n]; try discriminate; cbn [step_store] in H.
  - destruct (nth_error st n) as [[ver w sets|]|] eqn:En; try discriminate. injection H as <- <-.
    eapply acyclic_gsub; [|exact A]. split; [rewrite !graph_of_length; apply set_nth_length|].
    intros m ins' proc' Em. rewrite graph_nth in Em. destruct (Nat.eq_dec n m) as [<- | Hnm].
    + rewrite nth_error_set_nth_eq in Em by (eapply nth_error_some_lt; eauto). discriminate.
    + rewrite nth_error_set_nth_neq in Em; auto. exists ins', proc'. rewrite graph_nth. split; auto. apply incl_refl.
  - destruct (src <? length st); [|discriminate]. inv_bind H.
    destruct (acyclic_b (graph_of a)) eqn:Ea; [|discriminate]. injection H as <- <-. exact Ea.
  - inv_bind H. injection H as <- <-.
    destruct (rewire_inv _ _ _ _ _ E) as (sn & ps & En & Hps & ->).
    eapply acyclic_gsub; [|exact A]. split; [rewrite !graph_of_length; apply set_nth_length|].
    intros m ins' proc' Em. rewrite graph_nth in Em. destruct (Nat.eq_dec n m) as [<- | Hnm].
    + rewrite nth_error_set_nth_eq in Em by (eapply nth_error_some_lt; eauto).
      simpl in Em. injection Em as <- <-. exists (ids_of sn), (sn_proc sn).
      rewrite graph_nth, En. split; auto. apply set_input_none_incl in Hps. exact Hps.
    + rewrite nth_error_set_nth_neq in Em; auto. exists ins', proc'. rewrite graph_nth. split; auto. apply incl_refl.
Qed.

Lemma init_acyclic ds : acyclic_b (graph_of (nodes (init ds))) = true.
Proof.
  unfold acyclic_b. rewrite forallb_forall. intros n Hn. rewrite in_seq in Hn.
  rewrite depth_S, graph_nth. simpl. rewrite nth_error_map.
  destruct (nth_error ds n) as [[v|fs proc]|] eqn:E; simpl; auto.
  - unfold ids_of. simpl. rewrite init_ports_empty. reflexivity.
  - apply nth_error_None in E. rewrite graph_of_length in Hn. simpl in Hn. rewrite map_length in Hn. lia.
Qed.

(* ---- everything a history with panicking reads preserves ---- *)
Definition Good (pan : pantab) (st : store) : Prop :=
  WF st /\ VC st /\ InvP pan st /\ acyclic_b (graph_of st) = true.

Lemma init_Good pan ds : Good pan (nodes (init ds)).
Proof.
  split; [apply init_WF|]. split; [apply init_VC|]. split; [|apply init_acyclic].
  intros n sn En. simpl in En. rewrite nth_error_map in En.
  destruct (nth_error ds n) as [[v|fs proc]|]; try discriminate. injection En as <-.
  intros dv Hdv. discriminate.
Qed.

Definition stable_oracle (orc : oracle) : Prop := forall c, stable (orc c).

Lemma pstep_Good pan orc s o s' : stable_oracle orc -> Good pan (nodes s) -> pstep pan orc s o = Some s' -> Good pan (nodes s').
Proof.
  intros SO (W & V & IP & A) H.
  assert (PO : oracle_ok orc) by (intros c; apply SO).
  destruct (pstep_WF pan orc s o s' PO (conj W V) H) as [W' V']. split; auto. split; auto.
  destruct (is_read o) eqn:Er.
  - destruct o; try discriminate. cbn [pstep] in H. apply bind_some in H as [[st' r] [E H]]. injection H as <-. simpl.
    destruct W as [I [rk Rk]].
    destruct (pvalue_full _ pan rk (SO _) _ _ _ _ _ (conj (conj I Rk) IP) E) as (IP' & _ & _).
    destruct (pvalue_sim _ pan rk (PO _) _ _ _ _ _ (conj I Rk) E) as [(_ & G & _) _].
    split; auto. rewrite G. exact A.
  - assert (E : exists r, step_store (orc (clock s)) (nodes s) o = Some (nodes s', r)).
    { destruct o; try discriminate; cbn [pstep] in H; apply bind_some in H as [[s1 r] [E H]]; injection H as <-;
        apply step_inv in E; eauto. }
    destruct E as [r E]. split; [eapply edit_InvP; eauto | eapply edit_acyclic; eauto].
Qed.

Lemma prun_Good pan orc : stable_oracle orc -> forall h s s', Good pan (nodes s) -> prun pan orc s h = Some s' -> Good pan (nodes s').
Proof.
  intros SO. induction h as [|o r IH]; simpl; intros s s' G H.
  - injection H as <-. auto.
  - apply bind_some in H as [s1 [E H]]. eapply IH; [|exact H]. eapply pstep_Good; eauto.
Qed.

(* THREE-OUTCOME FRESHNESS, both directions: after any history (panicking reads included) the outcome of a
   read — a value or a panic — is the outcome of the from-scratch evaluation of the current wiring and
   parameter values.  (eval_p is a function, so: the read panics iff the from-scratch evaluation panics, and
   otherwise returns its value.) *)
Theorem read_outcome_fresh pan orc ds h s n st' r :
  stable_oracle orc -> prun pan orc (init ds) h = Some s ->
  pvalue (orc (clock s)) pan (fuel_of (nodes s)) (nodes s) n = Some (st', r) ->
  eval_p pan (fuel_of (nodes s)) (graph_of (nodes s)) n = Some r /\ graph_of st' = graph_of (nodes s) /\ VC st'.
Proof.
  intros SO R H.
  destruct (prun_Good pan orc SO _ _ _ (init_Good pan ds) R) as ([I [rk Rk]] & V & IP & A).
  destruct (pvalue_full _ pan rk (SO _) _ _ _ _ _ (conj (conj I Rk) IP) H) as (_ & E & _).
  destruct (pvalue_sim _ pan rk (proj1 (SO _)) _ _ _ _ _ (conj I Rk) H) as [(_ & G & L) _].
  split; auto. split; auto. eapply VC_le; eauto.
Qed.

(* ---- totality: on reachable states reads never get stuck (fuel = number of nodes + 1 suffices) ---- *)
Lemma cmp_deps_total s st L : forall dv, length L <= length dv ->
  (forall d, In d L -> (exists w, ver_of st d = Some w) /\ exists b, s d = Some b) ->
  exists b, cmp_deps s st L dv = Some b.
Proof.
  induction L as [|d r IH]; intros dv Hl H; simpl; [eauto|].
  destruct dv as [|v vs]; [simpl in Hl; lia|].
  destruct (H d (or_introl eq_refl)) as [[w ->] [b Hb]]. simpl.
  destruct (negb (w =? v)); [eauto|]. rewrite Hb. simpl. destruct b; [eauto|].
  apply IH; [simpl in Hl; lia|]. intros d' Hd'; apply H; right; exact Hd'.
Qed.

Lemma depth_nth_store f st n h : depth f (graph_of st) n = Some h -> exists x, nth_error st n = Some x.
Proof.
  intros H. apply depth_some_lt in H. rewrite graph_of_length in H.
  destruct (nth_error st n) eqn:E; eauto. apply nth_error_None in E. lia.
Qed.

Lemma stale_total po : perm_ok po -> forall f st n h, Inv st -> depth f (graph_of st) n = Some h ->
  exists b, stale po f st n = Some b.
Proof.
  intros PO. induction f; intros st n h I H; [discriminate|].
  rewrite depth_S, graph_nth in H. rewrite stale_S.
  destruct (nth_error st n) as [[ver w sets|sn]|] eqn:En; simpl in H; [eauto| |discriminate].
  inv_bind H. destruct (sn_depvers sn) as [dv|] eqn:Edv; [|eauto]. destruct (sn_dirty sn) eqn:Ed; [eauto|].
  destruct (I _ _ En dv Edv Ed) as (sv & sx & l & P & E' & _).
  apply cmp_deps_total.
  - subst dv. rewrite !map_length. apply Nat.eq_le_incl.
    etransitivity; [exact (Permutation_length (PO Cmp n (raw_deps (sn_ports sn)))) | symmetry; exact (Permutation_length P)].
  - intros d Hd. apply (perm_in_deps po n sn d PO) in Hd.
    destruct (map_opt_some_in _ _ _ E d Hd) as (hd & Ed' & _). split.
    + destruct (depth_nth_store _ _ _ _ Ed') as [x Ex]. unfold ver_of. rewrite Ex. destruct x; eauto.
    + eapply IHf; eauto.
Qed.

Section Total.
  Variable po : order.
  Hypothesis ST : stable po.
  Variable pan : pantab.
  Variable rk : id -> nat.
  Variable f0 : nat.
  Hypothesis IHt : forall st n h, PreP pan rk st -> depth f0 (graph_of st) n = Some h ->
    exists st' r, pvalue po pan f0 st n = Some (st', r).

  Definition keeps (st st1 : store) : Prop :=
    PreP pan rk st1 /\ graph_of st1 = graph_of st /\ length st1 = length st.

  Lemma pvalue_keeps st n st' r : PreP pan rk st -> pvalue po pan f0 st n = Some (st', r) -> keeps st st'.
  Proof.
    intros HP E. destruct (pvalue_full po pan rk ST _ _ _ _ _ HP E) as (I' & _ & _).
    destruct (pvalue_sim po pan rk (proj1 ST) _ _ _ _ _ (proj1 HP) E) as [(P' & G & L) _].
    split; [split; auto|]. split; auto. apply L.
  Qed.

  Lemma pread_list_total : forall l st, PreP pan rk st ->
    (forall d, In d l -> exists h, depth f0 (graph_of st) d = Some h) ->
    exists st1 oxs, pread_list (pvalue po pan f0) st l = Some (st1, oxs) /\ keeps st st1.
  Proof.
    induction l as [|d r IHl]; simpl; intros st HP H.
    - exists st, (Some []). split; auto. split; auto.
    - destruct (H d (or_introl eq_refl)) as [h Hd]. destruct (IHt _ _ _ HP Hd) as (sa & x & E).
      rewrite E. simpl. destruct (pvalue_keeps _ _ _ _ HP E) as (Pa & Ga & La).
      destruct x as [v|]; [|exists sa, None; split; auto; split; auto].
      destruct (IHl sa Pa) as (sb & oxs & E2 & Pb & Gb & Lb).
      { intros d' Hd'. rewrite Ga. apply H; auto. }
      rewrite E2. simpl. eexists _, _. split; [reflexivity|]. split; auto. split; congruence.
  Qed.

  Lemma pread_ports_total : forall ps st, PreP pan rk st ->
    (forall d, In d (concat ps) -> exists h, depth f0 (graph_of st) d = Some h) ->
    exists st1 oxss, pread_ports (pvalue po pan f0) st ps = Some (st1, oxss) /\ keeps st st1.
  Proof.
    induction ps as [|l r IHp]; simpl; intros st HP H.
    - exists st, (Some []). split; auto. split; auto.
    - destruct (pread_list_total l st HP) as (sa & oxs & E & Pa & Ga & La).
      { intros; apply H, in_or_app; auto. }
      rewrite E. simpl. destruct oxs as [xs|]; [|exists sa, None; split; auto; split; auto].
      destruct (IHp sa Pa) as (sb & oxss & E2 & Pb & Gb & Lb).
      { intros d' Hd'. rewrite Ga. apply H, in_or_app; auto. }
      rewrite E2. simpl. eexists _, _. split; [reflexivity|]. split; auto. split; congruence.
  Qed.
End Total.

Lemma pvalue_total po pan rk : stable po -> forall f st n h,
  PreP pan rk st -> depth f (graph_of st) n = Some h -> exists st' r, pvalue po pan f st n = Some (st', r).
Proof.
  intros ST. pose proof (proj1 ST) as PO. induction f as [|f0 IH]; intros st n h HP H; [discriminate|].
  destruct (stale_total po PO _ _ _ _ (proj1 (proj1 HP)) H) as [b Hb].
  rewrite depth_S, graph_nth in H. rewrite pvalue_S.
  destruct (nth_error st n) as [[ver w sets|sn]|] eqn:En; simpl in H; [eauto| |discriminate].
  inv_bind H. rewrite Hb. simpl. destruct b; [|eauto].
  destruct (pread_ports_total po ST pan rk f0 IH (ids_of sn) st HP) as (st1 & oins & E1 & P1 & G1 & L1).
  { intros d Hd. destruct (map_opt_some_in _ _ _ E d Hd) as (hd & Ed & _). eauto. }
  rewrite E1. simpl. destruct oins as [ins|]; [|eauto]. destruct (pan n ins); [eauto|].
  destruct (map_opt_total (ver_of st1) (map snd (po Rec n (raw_deps (sn_ports sn))))) as [vers ->]; [|simpl; eauto].
  intros d Hd. rewrite (proj2 ST) in Hd. apply (perm_in_deps po n sn d PO) in Hd.
  destruct (map_opt_some_in _ _ _ E d Hd) as (hd & Ed & _).
  apply depth_some_lt in Ed. rewrite graph_of_length, <- L1 in Ed.
  unfold ver_of. destruct (nth_error st1 d) as [[|]|] eqn:Ex; eauto. apply nth_error_None in Ex. lia.
Qed.

(* every read of an existing node on every reachable state returns: a value or a panic, never stuck *)
Theorem pread_total pan orc ds h s n :
  stable_oracle orc -> prun pan orc (init ds) h = Some s -> n < length (nodes s) ->
  exists st' r, pvalue (orc (clock s)) pan (fuel_of (nodes s)) (nodes s) n = Some (st', r).
Proof.
  intros SO R Hn.
  destruct (prun_Good pan orc SO _ _ _ (init_Good pan ds) R) as ([I [rk Rk]] & V & IP & A).
  unfold acyclic_b in A. rewrite forallb_forall in A. specialize (A n).
  rewrite in_seq, graph_of_length in A. specialize (A (conj (Nat.le_0_l _) Hn)).
  destruct (depth (S (length (nodes s))) (graph_of (nodes s)) n) as [hh|] eqn:E; [|discriminate].
  eapply (pvalue_total _ pan rk (SO _)); [split; [split|]; eauto | exact E].
Qed.

(* ---- the panic-free model is the instance pan = nopan ---- *)
Definition nopan : pantab := fun _ _ => false.

Section NoPan.
  Variable po : order.
  Variable f0 : nat.
  Hypothesis IHv : forall st n st' v, value po f0 st n = Some (st', v) -> pvalue po nopan f0 st n = Some (st', POk v).

  Lemma read_list_nopan : forall l st st1 xs, read_list (value po f0) st l = Some (st1, xs) ->
    pread_list (pvalue po nopan f0) st l = Some (st1, Some xs).
  Proof.
    induction l as [|d r IHl]; simpl; intros st st1 xs H.
    - injection H as <- <-. reflexivity.
    - apply bind_some in H as [[sa x] [E1 H]]. apply bind_some in H as [[sb xs'] [E2 H]]. injection H as <- <-.
      rewrite (IHv _ _ _ _ E1). simpl. rewrite (IHl _ _ _ E2). reflexivity.
  Qed.
  Lemma read_ports_nopan : forall ps st st1 xss, read_ports (value po f0) st ps = Some (st1, xss) ->
    pread_ports (pvalue po nopan f0) st ps = Some (st1, Some xss).
  Proof.
    induction ps as [|l r IHp]; simpl; intros st st1 xss H.
    - injection H as <- <-. reflexivity.
    - apply bind_some in H as [[sa xs] [E1 H]]. apply bind_some in H as [[sb xss'] [E2 H]]. injection H as <- <-.
      rewrite (read_list_nopan _ _ _ _ E1). simpl. rewrite (IHp _ _ _ E2). reflexivity.
  Qed.
End NoPan.

Lemma value_nopan po : forall f st n st' v, value po f st n = Some (st', v) -> pvalue po nopan f st n = Some (st', POk v).
Proof.
  induction f as [|f0 IH]; intros st n st' v H; [discriminate|].
  rewrite value_S in H. rewrite pvalue_S. destruct (nth_error st n) as [[ver w sets|sn]|]; [| |discriminate].
  - injection H as <- <-. reflexivity.
  - apply bind_some in H as [o [Es H]]. rewrite Es. simpl. destruct o.
    + apply bind_some in H as [[st1 ins] [Er H]]. rewrite (read_ports_nopan po f0 IH _ _ _ _ Er). simpl.
      apply bind_some in H as [vers [Ev H]]. rewrite Ev. simpl. injection H as <- <-. reflexivity.
    + injection H as <- <-. reflexivity.
Qed.

Lemma run_prun orc : forall h s s', run orc s h = Some s' -> prun nopan orc s h = Some s'.
Proof.
  induction h as [|o r IH]; simpl; intros s s' H; auto.
  apply bind_some in H as [[s1 res] [E H]].
  assert (Hp : pstep nopan orc s o = Some s1); [|rewrite Hp; simpl; apply IH; exact H].
  destruct o; cbn [pstep]; try (rewrite E; reflexivity).
  pose proof (step_inv _ _ _ _ _ E) as E'. destruct (step_store_read _ _ _ _ _ E') as [v Hv].
  rewrite (value_nopan _ _ _ _ _ _ Hv). simpl. unfold step in E. cbn [step_store] in E. rewrite Hv in E. simpl in E.
  injection E as <- _. reflexivity.
Qed.

(* TOTALITY of the panic-free model: after every history, reading any existing node returns a value *)
Theorem read_total orc ds h s n :
  stable_oracle orc -> run orc (init ds) h = Some s -> n < length (nodes s) ->
  exists s' v, read orc s n = Some (s', v).
Proof.
  intros SO R Hn. apply run_prun in R.
  destruct (pread_total nopan orc ds h s n SO R Hn) as (st' & r & E).
  destruct (prun_Good nopan orc SO _ _ _ (init_Good nopan ds) R) as ([I [rk Rk]] & _).
  destruct (pvalue_sim _ nopan rk (proj1 (SO _)) _ _ _ _ _ (conj I Rk) E) as [_ O].
  destruct r as [v|].
  - exists {| nodes := st'; clock := S (clock s) |}, v. unfold read, step. cbn [step_store]. rewrite O. reflexivity.
  - destruct O as (m & idsm & proc & ins & F & _ & _ & Hp). discriminate.
Qed.

(* ---- recompute-only-when-needed for histories with failing and panicking processors ---- *)
Lemma pstep_inv_read pan orc s n s' : pstep pan orc s (Read n) = Some s' ->
  exists r, pvalue (orc (clock s)) pan (fuel_of (nodes s)) (nodes s) n = Some (nodes s', r).
Proof. cbn [pstep]. intros H. apply bind_some in H as [[st' r] [E H]]. injection H as <-. simpl. eauto. Qed.

Lemma pstep_inv_edit pan orc s o s' : is_read o = false -> pstep pan orc s o = Some s' ->
  exists r, step_store (orc (clock s)) (nodes s) o = Some (nodes s', r).
Proof.
  intros Hr H. destruct o; try discriminate; cbn [pstep] in H; apply bind_some in H as [[s1 r] [E H]];
    injection H as <-; apply step_inv in E; eauto.
Qed.

Lemma pstep_ctr pan orc s o s' : stable_oracle orc -> Good pan (nodes s) -> pstep pan orc s o = Some s' ->
  forall m, ctr (nodes s) m <= ctr (nodes s') m
            /\ (ctr (nodes s') m = ctr (nodes s) m -> is_read o = false -> nth_error (nodes s') m = nth_error (nodes s) m)
            /\ (is_read o = true \/ target o <> m -> ctr (nodes s') m = ctr (nodes s) m).
Proof.
  intros SO ([I [rk Rk]] & _) H m. destruct (is_read o) eqn:Er.
  - destruct o; try discriminate. destruct (pstep_inv_read _ _ _ _ _ H) as [r E].
    destruct (pvalue_sim _ pan rk (proj1 (SO _)) _ _ _ _ _ (conj I Rk) E) as [(_ & _ & L) _].
    rewrite (store_le_ctr _ _ m L). repeat split; auto; discriminate.
  - destruct (pstep_inv_edit _ _ _ _ _ Er H) as [r E].
    destruct (step_store_ctr _ _ _ _ _ E m) as (A & B & C). rewrite Er in C. auto.
Qed.

Lemma prun_ctr_mono pan orc : stable_oracle orc -> forall h s s1, Good pan (nodes s) -> prun pan orc s h = Some s1 ->
  forall m, ctr (nodes s) m <= ctr (nodes s1) m.
Proof.
  intros SO. induction h as [|o r IH]; simpl; intros s s1 G H m.
  - injection H as <-. auto.
  - apply bind_some in H as [s' [E H]]. destruct (pstep_ctr _ _ _ _ _ SO G E m) as (L & _).
    specialize (IH _ _ (pstep_Good _ _ _ _ _ SO G E) H m). lia.
Qed.

Lemma prun_ctr_untargeted pan orc m : stable_oracle orc -> forall h s s1, Good pan (nodes s) -> prun pan orc s h = Some s1 ->
  Forall (fun o => is_read o = true \/ target o <> m) h -> ctr (nodes s1) m = ctr (nodes s) m.
Proof.
  intros SO. induction h as [|o r IH]; simpl; intros s s1 G H F.
  - injection H as <-. auto.
  - inversion F; subst. apply bind_some in H as [s' [E H]].
    destruct (pstep_ctr _ _ _ _ _ SO G E m) as (_ & _ & U).
    rewrite (IH _ _ (pstep_Good _ _ _ _ _ SO G E) H H3). auto.
Qed.

Lemma pidle_run pan po : stable po -> forall h s s1 n,
  Good pan (nodes s) -> prun pan (const_oracle po) s h = Some s1 -> clean po (nodes s) n ->
  (forall m, reach (graph_of (nodes s)) n m -> ctr (nodes s1) m = ctr (nodes s) m) ->
  execs_of (nodes s1) n = execs_of (nodes s) n /\ clean po (nodes s1) n.
Proof.
  intros ST. assert (SO : stable_oracle (const_oracle po)) by (intros c; exact ST). pose proof (proj1 ST) as PO.
  induction h as [|o r IH]; simpl; intros s s1 n G H C U.
  - injection H as <-. auto.
  - apply bind_some in H as [s' [E H]]. pose proof (pstep_Good _ _ _ _ _ SO G E) as G'.
    assert (U' : forall m, reach (graph_of (nodes s)) n m -> ctr (nodes s') m = ctr (nodes s) m).
    { intros m Hm. destruct (pstep_ctr _ _ _ _ _ SO G E m) as (L & _).
      pose proof (prun_ctr_mono _ _ SO _ _ _ G' H m). specialize (U m Hm). lia. }
    assert (N : forall m, reach (graph_of (nodes s)) n m -> nth_error (nodes s') m = nth_error (nodes s) m).
    { intros m Hm. destruct (is_read o) eqn:Er.
      - destruct o; try discriminate. destruct (pstep_inv_read _ _ _ _ _ E) as [res Ev].
        destruct G as ([I [rk Rk]] & _ & IP & _).
        destruct (pvalue_full _ pan rk ST _ _ _ _ _ (conj (conj I Rk) IP) Ev) as (_ & _ & [K _]).
        destruct C as [f Hf]. apply K. eapply clean_cone; eauto.
      - destruct (pstep_ctr _ _ _ _ _ SO G E m) as (_ & B & _). apply B; auto. }
    assert (C' : clean po (nodes s') n).
    { destruct C as [f Hf]. exists f. eapply agree_on_cone; eauto. }
    assert (Rg : forall m, reach (graph_of (nodes s')) n m -> reach (graph_of (nodes s)) n m).
    { apply reach_agree. intros k Hk. rewrite !graph_nth, (N k Hk). auto. }
    destruct (IH _ _ n G' H C') as [X1 C1].
    { intros m Hm. rewrite (U m (Rg m Hm)), (U' m (Rg m Hm)). auto. }
    split; auto. rewrite X1. apply execs_of_nth. apply N. constructor.
Qed.

(* C11 sentence 2 for histories in which processors may fail and panic (execs = COMPLETED executions; an
   execution that panicked does not count): once n completed an execution it neither executes nor is
   attempted again while no parameter of its cone is set and no node of its cone is re-wired — whatever
   panics elsewhere in between *)
Theorem exec_only_if_cone_touched_panics pan po ds h1 s0 o s0' h2 s1 n :
  stable po ->
  prun pan (const_oracle po) (init ds) h1 = Some s0 ->
  pstep pan (const_oracle po) s0 o = Some s0' ->
  execs_of (nodes s0') n <> execs_of (nodes s0) n ->
  prun pan (const_oracle po) s0' h2 = Some s1 ->
  Forall (fun o => ~ touches (graph_of (nodes s0')) n o) h2 ->
  execs_of (nodes s1) n = execs_of (nodes s0') n /\ clean po (nodes s1) n.
Proof.
  intros ST R0 Hs Hx R1 F.
  assert (SO : stable_oracle (const_oracle po)) by (intros c; exact ST).
  pose proof (prun_Good pan _ SO _ _ _ (init_Good pan ds) R0) as G0.
  pose proof (pstep_Good _ _ _ _ _ SO G0 Hs) as G0'.
  assert (C : clean po (nodes s0') n).
  { destruct (is_read o) eqn:Er.
    - destruct o; try discriminate. destruct (pstep_inv_read _ _ _ _ _ Hs) as [res Ev].
      destruct G0 as ([I [rk Rk]] & _ & IP & _).
      destruct (pvalue_full _ pan rk ST _ _ _ _ _ (conj (conj I Rk) IP) Ev) as (_ & _ & [_ X]). apply X; auto.
    - exfalso. apply Hx. destruct (pstep_inv_edit _ _ _ _ _ Er Hs) as [r E].
      destruct (step_store_edit _ _ _ _ _ Er E) as (y & Ey & Hlt & _ & Ex).
      destruct (Nat.eq_dec (target o) n) as [<- | Hne]; auto.
      apply execs_of_nth. rewrite Ey. apply nth_error_set_nth_neq; auto. }
  eapply pidle_run; eauto.
  intros m Hm. eapply prun_ctr_untargeted; eauto.
  eapply Forall_impl; [|exact F]. intros o' Ho'. destruct (is_read o') eqn:Er'; auto.
  right. intros <-. apply Ho'. destruct o'; simpl in *; auto. discriminate.
Qed.

Lemma plist_mono {A} (f1 f2 : A -> option pres) l o :
  (forall d y, f1 d = Some y -> f2 d = Some y) -> plist f1 l = Some o -> plist f2 l = Some o.
Proof.
  intros M. revert o; induction l as [|d r IH]; simpl; intros o H; auto.
  apply bind_some in H as [y [Ey H]]. rewrite (M _ _ Ey). simpl. destruct y; auto.
  apply bind_some in H as [xs [Exs H]]. rewrite (IH _ Exs). simpl. exact H.
Qed.
Lemma pports_mono (f1 f2 : id -> option pres) ps o :
  (forall d y, f1 d = Some y -> f2 d = Some y) -> pports f1 ps = Some o -> pports f2 ps = Some o.
Proof.
  intros M. revert o; induction ps as [|l r IH]; simpl; intros o H; auto.
  apply bind_some in H as [ol [El H]]. rewrite (plist_mono _ _ _ _ M El). simpl. destruct ol; auto.
  apply bind_some in H as [xss [Exss H]]. rewrite (IH _ Exss). simpl. exact H.
Qed.
Lemma eval_p_mono pan g : forall f n x, eval_p pan f g n = Some x -> eval_p pan (S f) g n = Some x.
Proof.
  induction f; intros n x H; [discriminate|].
  rewrite eval_p_S in H. rewrite eval_p_S. destruct (nth_error g n) as [[v|ins proc]|]; auto.
  apply bind_some in H as [oxs [E H]]. rewrite (pports_mono _ _ _ _ IHf E). simpl. exact H.
Qed.
Lemma eval_p_le pan g f f' n x : f <= f' -> eval_p pan f g n = Some x -> eval_p pan f' g n = Some x.
Proof. induction 1; auto. intros. apply eval_p_mono; auto. Qed.

(* what a PANICKING read leaves behind: nodes that were clean are untouched and stay clean; every node that
   completed an execution during it is clean; and no node whose from-scratch evaluation panics (the failed
   path: the panicking node and everything above it) is marked up to date — in particular the node read did
   not complete.  So the next read re-executes exactly the failed path (plus whatever was stale and never
   reached), and it panics again unless a parameter or the wiring changed. *)
Theorem panicked_read_commits pan po ds h s n st' r :
  stable po -> prun pan (const_oracle po) (init ds) h = Some s ->
  pvalue po pan (fuel_of (nodes s)) (nodes s) n = Some (st', r) ->
  (forall m, clean po (nodes s) m -> nth_error st' m = nth_error (nodes s) m /\ clean po st' m) /\
  (forall m, execs_of st' m <> execs_of (nodes s) m -> clean po st' m) /\
  (forall m f, eval_p pan f (graph_of st') m = Some PPanic -> ~ clean po st' m) /\
  (r = PPanic -> execs_of st' n = execs_of (nodes s) n).
Proof.
  intros ST R H.
  assert (SO : stable_oracle (const_oracle po)) by (intros c; exact ST).
  destruct (prun_Good pan _ SO _ _ _ (init_Good pan ds) R) as ([I [rk Rk]] & _ & IP & _).
  destruct (pvalue_full _ pan rk ST _ _ _ _ _ (conj (conj I Rk) IP) H) as (IP' & Ev & [K X]).
  destruct (pvalue_sim _ pan rk (proj1 ST) _ _ _ _ _ (conj I Rk) H) as [(_ & G & _) _].
  assert (NC : forall m f, eval_p pan f (graph_of st') m = Some PPanic -> ~ clean po st' m).
  { intros m f Hp [f' Hc]. pose proof (stale_false_evalp po pan (proj1 ST) _ _ _ IP' Hc) as Hok.
    apply (eval_p_le _ _ _ (Nat.max f f')) in Hp; [|lia]. apply (eval_p_le _ _ _ (Nat.max f f')) in Hok; [|lia]. congruence. }
  split; auto. split; auto. split; auto.
  intros ->. destruct (Nat.eq_dec (execs_of st' n) (execs_of (nodes s) n)) as [E|E]; auto.
  exfalso. apply (NC n (fuel_of (nodes s))); [rewrite G; exact Ev | apply X; exact E].
Qed.
