// Package hx: shared pieces of the correspondence harnesses — one PRNG, Coq literal printers,
// case/meta files, run bookkeeping.
package hx

import (
	"bufio"
	"encoding/json"
	"flag"
	"fmt"
	"os"
	"path/filepath"
	"sort"
	"strings"
)

// ---- PRNG: splitmix64; every random choice of a run derives from one state ----
type Rng struct{ s uint64 }

// NewRng scrambles the seed before using it as the splitmix64 state: with the state seed*gamma + c the
// stream of seed n+1 was the stream of seed n shifted by one draw, so "three seeds" explored one stream.
func NewRng(seed uint64) *Rng {
	r := &Rng{s: seed*0x9E3779B97F4A7C15 + 0x1234567}
	return &Rng{s: r.U64() ^ 0xD1B54A32D192ED03*(seed+1)}
}
func (r *Rng) U64() uint64 {
	r.s += 0x9E3779B97F4A7C15
	z := r.s
	z = (z ^ (z >> 30)) * 0xBF58476D1CE4E5B9
	z = (z ^ (z >> 27)) * 0x94D049BB133111EB
	return z ^ (z >> 31)
}
func (r *Rng) Intn(n int) int {
	if n <= 0 {
		return 0
	}
	return int(r.U64() % uint64(n))
}
func (r *Rng) Range(lo, hi int) int     { return lo + r.Intn(hi-lo+1) } // inclusive
func (r *Rng) Bool() bool               { return r.U64()&1 == 1 }
func (r *Rng) Chance(num, den int) bool { return r.Intn(den) < num }
func (r *Rng) Float() float64           { return float64(r.U64()>>11) / float64(1<<53) }
func (r *Rng) Fork() *Rng               { return &Rng{s: r.U64()} }
func Pick[T any](r *Rng, xs []T) T      { return xs[r.Intn(len(xs))] }
func (r *Rng) Perm(n int) []int {
	p := make([]int, n)
	for i := range p {
		p[i] = i
	}
	for i := n - 1; i > 0; i-- {
		j := r.Intn(i + 1)
		p[i], p[j] = p[j], p[i]
	}
	return p
}

// ---- Coq literal printers ----
func CoqListN[T ~uint8 | ~uint16 | ~uint32 | ~uint64 | ~int](xs []T) string {
	var b strings.Builder
	b.WriteByte('[')
	for i, x := range xs {
		if i > 0 {
			b.WriteByte(';')
		}
		fmt.Fprintf(&b, "%d", x)
	}
	b.WriteByte(']')
	return b.String()
}
func CoqListNat(xs []int) string {
	var b strings.Builder
	b.WriteString("[")
	for i, x := range xs {
		if i > 0 {
			b.WriteByte(';')
		}
		fmt.Fprintf(&b, "%d", x)
	}
	b.WriteString("]%nat")
	return b.String()
}
func CoqZ(x int64) string {
	if x < 0 {
		return fmt.Sprintf("(%d)%%Z", x)
	}
	return fmt.Sprintf("%d%%Z", x)
}
func CoqListZ(xs []int64) string {
	var b strings.Builder
	b.WriteString("[")
	for i, x := range xs {
		if i > 0 {
			b.WriteByte(';')
		}
		if x < 0 {
			fmt.Fprintf(&b, "(%d)", x)
		} else {
			fmt.Fprintf(&b, "%d", x)
		}
	}
	b.WriteString("]%Z")
	return b.String()
}
func CoqList(items []string) string { return "[" + strings.Join(items, ";\n   ") + "]" }
func CoqOpt(present bool, v string) string {
	if !present {
		return "None"
	}
	return "(Some " + v + ")"
}
func CoqBool(b bool) string {
	if b {
		return "true"
	}
	return "false"
}
func CoqString(s string) string { return "\"" + strings.ReplaceAll(s, "\"", "\"\"") + "\"" }

// ---- run bookkeeping ----
type Case struct {
	ID      int         `json:"id"`
	Kind    string      `json:"kind"`
	Desc    interface{} `json:"desc"` // human-readable / replayable description of the input
	Coq     string      `json:"-"`    // Coq term of type Check.Cxx.case
	Nontriv bool        `json:"nontrivial"`
	Key     string      `json:"-"`                        // canonical key for distinctness
	GoFail  string      `json:"go_oracle_fail,omitempty"` // non-empty: harness-side direct oracle failed (float parts)
	FailKey string      `json:"fail_key,omitempty"`       // structural key for known-finding matching
}

type Run struct {
	Prop     string
	Module   string // Coq module with case/corr_ok/prop_ok, e.g. "Check.C07"
	OutDir   string
	Seed     uint64
	N        int
	Tier     string
	Replay   string
	Corpus   string
	Cases    []Case
	Dist     map[string]int
	Extra    map[string]interface{}
	ShardMax int
}

func ParseFlags(prop, module string) *Run {
	r := &Run{Prop: prop, Module: module, Dist: map[string]int{}, Extra: map[string]interface{}{}, ShardMax: 250}
	seed := flag.Uint64("seed", 1, "PRNG seed")
	flag.IntVar(&r.N, "n", 100, "number of generated cases")
	flag.StringVar(&r.OutDir, "out", "", "output directory")
	flag.StringVar(&r.Tier, "tier", "quick", "quick|thorough")
	flag.StringVar(&r.Replay, "replay", "", "replay file (json with a desc field)")
	flag.StringVar(&r.Corpus, "corpus", "", "directory of corpus cases (replay-file format), run first")
	flag.Parse()
	r.Seed = *seed
	if r.OutDir == "" {
		fmt.Fprintln(os.Stderr, "need -out")
		os.Exit(2)
	}
	os.MkdirAll(r.OutDir, 0o755)
	return r
}

func (r *Run) Add(c Case) {
	c.ID = len(r.Cases)
	r.Cases = append(r.Cases, c)
	r.Dist["kind:"+c.Kind]++
}
func (r *Run) Count(key string) { r.Dist[key]++ }

// Input is one replayable case description (from --replay or from the corpus directory).
type Input struct {
	Kind string
	Raw  json.RawMessage
	From string
}

func loadInput(path string) (Input, error) {
	raw, err := os.ReadFile(path)
	if err != nil {
		return Input{}, err
	}
	var w struct {
		Kind string          `json:"kind"`
		Desc json.RawMessage `json:"desc"`
		Case *struct {
			Kind string          `json:"kind"`
			Desc json.RawMessage `json:"desc"`
		} `json:"case"`
	}
	if err := json.Unmarshal(raw, &w); err != nil {
		return Input{}, err
	}
	if w.Case != nil {
		w.Kind, w.Desc = w.Case.Kind, w.Case.Desc
	}
	return Input{Kind: w.Kind, Raw: w.Desc, From: path}, nil
}

// Inputs returns the replay file's case (if -replay) or every corpus case (if -corpus), in name order.
func (r *Run) Inputs() []Input {
	var out []Input
	if r.Replay != "" {
		in, err := loadInput(r.Replay)
		if err != nil {
			fmt.Fprintln(os.Stderr, "replay:", err)
			os.Exit(2)
		}
		if len(in.Raw) > 0 {
			out = append(out, in)
		}
		return out
	}
	if r.Corpus != "" {
		files, _ := filepath.Glob(filepath.Join(r.Corpus, "*.json"))
		sort.Strings(files)
		for _, f := range files {
			if in, err := loadInput(f); err == nil && len(in.Raw) > 0 {
				out = append(out, in)
				r.Dist["corpus"]++
			}
		}
	}
	return out
}

// Finish writes cases_<k>.v shards, cases.jsonl and meta.json.
func (r *Run) Finish() {
	// shards
	nsh := 0
	if per := (len(r.Cases) + 15) / 16; per < r.ShardMax {
		r.ShardMax = per // spread over 16 cores
	}
	if r.ShardMax < 4 {
		r.ShardMax = 4
	}
	for start := 0; start < len(r.Cases); start += r.ShardMax {
		end := start + r.ShardMax
		if end > len(r.Cases) {
			end = len(r.Cases)
		}
		f, _ := os.Create(filepath.Join(r.OutDir, fmt.Sprintf("cases_%d.v", nsh)))
		w := bufio.NewWriterSize(f, 1<<20)
		fmt.Fprintf(w, "From PF Require Import %s Check.Common.\nFrom Coq Require Import List NArith ZArith String.\nImport ListNotations.\nOpen Scope N_scope.\n", r.Module)
		fmt.Fprintf(w, "Definition cases : list case := [\n")
		for i := start; i < end; i++ {
			if i > start {
				fmt.Fprint(w, ";\n")
			}
			fmt.Fprintf(w, "(* %d *) %s", i, r.Cases[i].Coq)
		}
		fmt.Fprintf(w, "\n].\n")
		fmt.Fprintf(w, "Definition bad_corr := Eval vm_compute in failing_from corr_ok %d cases.\n", start)
		fmt.Fprintf(w, "Definition bad_prop := Eval vm_compute in failing_from prop_ok %d cases.\n", start)
		fmt.Fprintf(w, "Print bad_corr.\nPrint bad_prop.\n")
		w.Flush()
		f.Close()
		nsh++
	}
	// cases.jsonl
	f, _ := os.Create(filepath.Join(r.OutDir, "cases.jsonl"))
	w := bufio.NewWriterSize(f, 1<<20)
	enc := json.NewEncoder(w)
	keys := map[string]bool{}
	nontriv := 0
	gofail := []int{}
	for _, c := range r.Cases {
		enc.Encode(c)
		if c.Nontriv && !keys[c.Key] {
			nontriv++
		}
		keys[c.Key] = true
		if c.GoFail != "" {
			gofail = append(gofail, c.ID)
		}
	}
	w.Flush()
	f.Close()
	// meta
	samples := []interface{}{}
	for i, c := range r.Cases {
		if i < 3 || (i == len(r.Cases)-1 && i >= 3) {
			s, _ := json.Marshal(c)
			if len(s) < 2000 {
				samples = append(samples, json.RawMessage(s))
			} else {
				samples = append(samples, string(s[:2000])+"…")
			}
		}
	}
	dk := make([]string, 0, len(r.Dist))
	for k := range r.Dist {
		dk = append(dk, k)
	}
	sort.Strings(dk)
	meta := map[string]interface{}{
		"property": r.Prop, "seed": r.Seed, "tier": r.Tier, "evaluations": len(r.Cases),
		"distinct": len(keys), "distinct_nontrivial": nontriv, "shards": nsh,
		"distribution": r.Dist, "samples": samples, "go_oracle_failures": gofail, "extra": r.Extra,
	}
	mb, _ := json.MarshalIndent(meta, "", " ")
	os.WriteFile(filepath.Join(r.OutDir, "meta.json"), mb, 0o644)
}
