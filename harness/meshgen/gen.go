package meshgen

import (
	"github.com/EliCDavis/polyform/modeling"

	"verif/harness/hx"
)

// Options steer Random. The zero value gives the default mix.
type Options struct {
	Topo      int  // -1 / 0 with AnyTopo: random; otherwise fixed when FixTopo
	FixTopo   bool // use Topo
	Even      bool // even coordinates only (CenterFloat3Attribute is then exact)
	NeedPos   bool // always include a 3-component "Position"
	MaxVerts  int  // default 10
	MaxPrims  int  // default 6
	Materials int  // 0: default mix, 1: never, 2: always (consistent ranges)
}

var namePool = []string{"Position", "Normal", "TexCoord", "Color", "Opacity", "a", "b", "Joint"}

func indexSize(t modeling.Topology) int {
	switch t {
	case modeling.TriangleTopology:
		return 3
	case modeling.QuadTopology:
		return 4
	case modeling.PointTopology:
		return 1
	}
	return 2
}

func randVal(r *hx.Rng, even bool) int64 {
	var v int64
	switch r.Intn(7) {
	case 6:
		v = 0 // the special value: "empty" / "unset" shortcuts show on exact zeros (any attribute, any component)
	case 0:
		v = int64(r.Range(-2, 2))
	case 1:
		v = int64(r.Range(-40, 40))
	case 2:
		v = int64(r.Range(-3, 3)) * 5 // halves of ten: ties of the weld rounding
	default:
		v = int64(r.Range(-6, 6))
	}
	if even {
		v *= 2
	}
	return v
}

// Random returns a well-formed mesh description: every attribute has the same length, every index
// is in range, triangle/quad index counts are multiples of 3/4. Index patterns: identity, permuted,
// repeated, sparse (unreferenced vertices), empty; duplicated vertex values are likely.
func Random(r *hx.Rng, opt Options) Desc {
	if opt.MaxVerts == 0 {
		opt.MaxVerts = 10
	}
	if opt.MaxPrims == 0 {
		opt.MaxPrims = 6
	}
	topo := modeling.TriangleTopology
	if opt.FixTopo {
		topo = modeling.Topology(opt.Topo)
	} else {
		switch r.Intn(10) {
		case 0, 1, 2, 3:
			topo = modeling.TriangleTopology
		case 4, 5, 6:
			topo = modeling.PointTopology
		case 7:
			topo = modeling.QuadTopology
		case 8:
			topo = hx.Pick(r, []modeling.Topology{modeling.LineTopology, modeling.LineLoopTopology})
		default:
			topo = modeling.LineStripTopology
		}
	}
	d := Desc{Topo: int(topo), Idx: []int{}, Mats: []Mat{}, Attrs: []Attr{}}

	nv := r.Range(0, opt.MaxVerts)
	if r.Chance(1, 12) {
		nv = 0
	}
	// attribute set
	type kn struct {
		arity int
		name  string
	}
	chosen := []kn{}
	seen := map[kn]bool{}
	noPos := false
	if opt.NeedPos || r.Chance(4, 5) {
		chosen = append(chosen, kn{3, "Position"})
		seen[kn{3, "Position"}] = true
	} else {
		noPos = true // a mesh WITHOUT the conventional Position: code that reads a size or a default off "Position" shows here
	}
	extra := r.Intn(4)
	if noPos && extra == 0 {
		extra = r.Range(1, 3)
	}
	for i := 0; i < extra; i++ {
		k := kn{r.Range(1, 4), hx.Pick(r, namePool)}
		if noPos && i == 0 && r.Bool() {
			k = kn{3, hx.Pick(r, []string{"Normal", "Color", "a", "b"})} // another Float3 attribute in its place
		}
		if r.Chance(1, 3) {
			k = hx.Pick(r, []kn{{3, "Normal"}, {2, "TexCoord"}, {4, "Color"}, {1, "Opacity"}})
		}
		if !seen[k] {
			seen[k] = true
			chosen = append(chosen, k)
		}
	}
	if len(chosen) == 0 {
		nv = 0
	}
	if nv == 0 && r.Chance(2, 3) && !opt.NeedPos {
		chosen = nil // no attributes at all; otherwise keys with empty arrays
	}
	// duplicated vertex values: draw from a small pool of rows per attribute
	for _, k := range chosen {
		a := Attr{Arity: k.arity, Name: k.name, Data: [][]int64{}}
		pool := [][]int64{}
		for i := 0; i < nv; i++ {
			if len(pool) > 0 && r.Chance(1, 4) {
				a.Data = append(a.Data, append([]int64{}, hx.Pick(r, pool)...))
				continue
			}
			row := make([]int64, k.arity)
			for c := range row {
				row[c] = randVal(r, opt.Even)
			}
			pool = append(pool, row)
			a.Data = append(a.Data, row)
		}
		d.Attrs = append(d.Attrs, a)
	}
	// indices
	isz := indexSize(topo)
	np := 0
	if nv > 0 {
		np = r.Range(0, opt.MaxPrims)
		if r.Chance(1, 10) {
			np = 0
		}
	}
	n := np * isz
	if topo == modeling.PointTopology || topo == modeling.LineStripTopology || topo == modeling.LineLoopTopology || topo == modeling.LineTopology {
		n = np * 2
		if topo == modeling.PointTopology && r.Bool() {
			n = nv // the usual point cloud
		}
	}
	switch pat := r.Intn(5); {
	case n == 0:
	case pat == 0: // identity (as far as it goes)
		for i := 0; i < n; i++ {
			d.Idx = append(d.Idx, i%nv)
		}
	case pat == 1: // permutation, repeated as needed
		p := r.Perm(nv)
		for i := 0; i < n; i++ {
			d.Idx = append(d.Idx, p[i%nv])
		}
	case pat == 2: // sparse: only a few vertices referenced
		k := 1 + r.Intn(nv)
		sub := r.Perm(nv)[:k]
		for i := 0; i < n; i++ {
			d.Idx = append(d.Idx, hx.Pick(r, sub))
		}
	default: // arbitrary
		for i := 0; i < n; i++ {
			d.Idx = append(d.Idx, r.Intn(nv))
		}
	}
	// materials
	prims := len(d.Idx) / isz
	if topo != modeling.TriangleTopology && topo != modeling.QuadTopology {
		prims = len(d.Idx)
	}
	wantMats := opt.Materials == 2 || (opt.Materials == 0 && r.Chance(2, 5))
	if wantMats {
		d.Mats = randMats(r, prims)
	}
	return d
}

// material range patterns: letters are material identities; a material may RE-OCCUR after another one
// (a,b,a / a,b,a,b / a,b,c,a ...), which is what SplitOnUniqueMaterials has to merge
var matPatterns = []string{"a", "ab", "abc", "aa", "aba", "aba", "abab", "abca", "abba", "aaba", "abcb", "abac"}

// randMats draws material ranges for a mesh with prims primitives.  Mostly the ranges cover the
// primitives exactly and each has at least one primitive (when there are enough); empty ranges, and
// rarely ranges that cover too many primitives, also occur.
func randMats(r *hx.Rng, prims int) []Mat {
	pat := hx.Pick(r, matPatterns)
	ids := r.Perm(4)
	counts := make([]int, len(pat))
	left := prims
	if prims >= len(pat) && !r.Chance(1, 5) {
		for i := range counts {
			counts[i] = 1
		}
		left -= len(pat)
	}
	for left > 0 {
		counts[r.Intn(len(counts))]++
		left--
	}
	if r.Chance(1, 25) {
		counts[len(counts)-1] += r.Range(1, 2) // more primitives announced than present
	}
	out := make([]Mat, len(pat))
	for i, ch := range pat {
		out[i] = Mat{Count: counts[i], ID: ids[int(ch-'a')]}
	}
	return out
}
