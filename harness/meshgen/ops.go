package meshgen

import (
	"fmt"
	"math"
	"math/big"
	"runtime"
	"strings"

	"github.com/EliCDavis/polyform/math/geometry"
	"github.com/EliCDavis/polyform/math/quaternion"
	"github.com/EliCDavis/polyform/math/trs"
	"github.com/EliCDavis/polyform/modeling"
	"github.com/EliCDavis/polyform/modeling/meshops"
	"github.com/EliCDavis/polyform/modeling/repeat"
	"github.com/EliCDavis/vector/vector2"
	"github.com/EliCDavis/vector/vector3"
	"github.com/EliCDavis/vector/vector4"

	"verif/harness/hx"
)

type TRSDesc struct {
	P []int64 `json:"p"`
	S []int64 `json:"s"`
	Q []int64 `json:"q"` // x y z w, not normalised (Rotate is polynomial)
}

// OpDesc is a replayable description of one operation call.
type OpDesc struct {
	Op      string    `json:"op"`
	Variant string    `json:"variant,omitempty"` // "" function, "t" Transformer struct, "m" Mesh method
	Attr    string    `json:"attr,omitempty"`
	Arity   int       `json:"arity,omitempty"`
	Attr2   string    `json:"attr2,omitempty"`
	V       []int64   `json:"v,omitempty"`
	V2      []int64   `json:"v2,omitempty"`
	Pred    string    `json:"pred,omitempty"` // ge le even all none
	PC      int       `json:"pc,omitempty"`
	PT      int64     `json:"pt,omitempty"`
	Idx     []int     `json:"idx,omitempty"`
	Data    [][]int64 `json:"data,omitempty"`
	Mats    []Mat     `json:"mats,omitempty"`
	TRS     []TRSDesc `json:"trs,omitempty"`
	Min2    int64     `json:"min2,omitempty"`    // 2*minArea
	Decimal int       `json:"decimal,omitempty"` // weld decimal place
	Iter    int       `json:"iter,omitempty"`
	Factor  float64   `json:"factor,omitempty"`
	Exp     int       `json:"exp,omitempty"` // scale of the input mesh (Desc.Exp): areas scale by 2^-2Exp
}

var ExactOps = []string{"append", "unweld", "remove_unref", "remove_null", "flip", "to_points", "filter", "crop",
	"split", "weld", "set_indices", "set_attr", "set_materials", "repeat", "translate", "scale3", "scale2",
	"rotate", "apply_trs", "center", "slice", "scale_along_normal"}
var FrameOps = []string{"normalize3", "normalize2", "smooth_normals", "flat_normals", "smooth_implicit", "laplacian", "laplacian_axis"}

func IsFrameOp(op string) bool {
	for _, f := range FrameOps {
		if f == op {
			return true
		}
	}
	return false
}

func v3(v []int64) vector3.Float64 { return vector3.New(float64(v[0]), float64(v[1]), float64(v[2])) }
func v2(v []int64) vector2.Float64 { return vector2.New(float64(v[0]), float64(v[1])) }
func quat(q []int64) quaternion.Quaternion {
	return quaternion.New(vector3.New(float64(q[0]), float64(q[1]), float64(q[2])), float64(q[3]))
}
func (t TRSDesc) TRS() trs.TRS { return trs.New(v3(t.P), quat(t.Q), v3(t.S)) }

func (o OpDesc) pred(v []float64) bool {
	switch o.Pred {
	case "ge":
		return v[o.PC] >= float64(o.PT)
	case "le":
		return v[o.PC] <= float64(o.PT)
	case "even":
		return math.Mod(v[o.PC], 2) == 0
	case "all":
		return true
	}
	return false
}

// Classify a recovered panic value / returned error.
func classify(rec interface{}) (string, string) {
	if rec == nil {
		return "ok", ""
	}
	if _, isRt := rec.(runtime.Error); isRt {
		return "crash", fmt.Sprint(rec)
	}
	if e, isErr := rec.(error); isErr {
		return "declared", e.Error()
	}
	return "crash", fmt.Sprint(rec)
}

// transform goes through Mesh.Transform (which calls t.Transform and panics with its error)
func transform(t modeling.Transformer, m modeling.Mesh) []modeling.Mesh {
	return []modeling.Mesh{m.Transform(t)}
}

// Apply runs the real implementation. class: "ok", "declared" (error return / panic(error)), "crash".
func Apply(o OpDesc, ins []modeling.Mesh) (outs []modeling.Mesh, class string, msg string) {
	defer func() {
		if rec := recover(); rec != nil {
			outs = nil
			class, msg = classify(rec)
		}
	}()
	one := func(m modeling.Mesh) []modeling.Mesh { return []modeling.Mesh{m} }
	m := ins[0]
	tv := o.Variant == "t"
	switch o.Op {
	case "append":
		return one(m.Append(ins[1])), "ok", ""
	case "unweld":
		if tv {
			return transform(meshops.UnweldTransformer{}, m), "ok", ""
		}
		return one(meshops.Unweld(m)), "ok", ""
	case "remove_unref":
		if tv {
			return transform(meshops.RemovedUnreferencedVerticesTransformer{}, m), "ok", ""
		}
		return one(meshops.RemovedUnreferencedVertices(m)), "ok", ""
	case "remove_null":
		minArea := math.Ldexp(float64(o.Min2)/2, -2*o.Exp)
		if tv {
			return transform(meshops.RemoveNullFaces3DTransformer{Attribute: o.Attr, MinArea: minArea}, m), "ok", ""
		}
		return one(meshops.RemoveNullFaces3D(m, o.Attr, minArea)), "ok", ""
	case "flip":
		if tv {
			return transform(meshops.FlipTriangleWindingTransformer{}, m), "ok", ""
		}
		return one(meshops.FlipTriangleWinding(m)), "ok", ""
	case "to_points":
		return one(m.ToPointCloud()), "ok", ""
	case "filter":
		switch o.Arity {
		case 1:
			f := func(v float64) bool { return o.pred([]float64{v}) }
			if tv {
				return transform(meshops.FilterFloat1Transformer{Attribute: o.Attr, Filter: f}, m), "ok", ""
			}
			return one(meshops.FilterFloat1(m, o.Attr, f)), "ok", ""
		case 2:
			f := func(v vector2.Float64) bool { return o.pred([]float64{v.X(), v.Y()}) }
			if tv {
				return transform(meshops.FilterFloat2Transformer{Attribute: o.Attr, Filter: f}, m), "ok", ""
			}
			return one(meshops.FilterFloat2(m, o.Attr, f)), "ok", ""
		case 3:
			f := func(v vector3.Float64) bool { return o.pred([]float64{v.X(), v.Y(), v.Z()}) }
			if tv {
				return transform(meshops.FilterFloat3Transformer{Attribute: o.Attr, Filter: f}, m), "ok", ""
			}
			return one(meshops.FilterFloat3(m, o.Attr, f)), "ok", ""
		default:
			f := func(v vector4.Float64) bool { return o.pred([]float64{v.X(), v.Y(), v.Z(), v.W()}) }
			if tv {
				return transform(meshops.FilterFloat4Transformer{Attribute: o.Attr, Filter: f}, m), "ok", ""
			}
			return one(meshops.FilterFloat4(m, o.Attr, f)), "ok", ""
		}
	case "crop":
		box := geometry.NewAABBFromPoints(v3(o.V), v3(o.V2))
		if tv {
			return transform(meshops.CropAttribute3DTransformer{Attribute: o.Attr, BoundingBox: box}, m), "ok", ""
		}
		return one(meshops.CropFloat3Attribute(m, o.Attr, box)), "ok", ""
	case "split":
		return meshops.SplitOnUniqueMaterials(m), "ok", ""
	case "weld":
		return one(m.WeldByFloat3Attribute(o.Attr, o.Decimal)), "ok", ""
	case "set_indices":
		return one(m.SetIndices(append([]int{}, o.Idx...))), "ok", ""
	case "set_attr":
		if o.Variant == "c" { // CopyFloatNAttribute: the data come from another mesh's attribute of that name
			src := Desc{Topo: int(modeling.PointTopology), Idx: []int{}, Attrs: []Attr{{Arity: o.Arity, Name: o.Attr, Data: o.Data}}}.Mesh()
			switch o.Arity {
			case 1:
				return one(m.CopyFloat1Attribute(src, o.Attr)), "ok", ""
			case 2:
				return one(m.CopyFloat2Attribute(src, o.Attr)), "ok", ""
			case 3:
				return one(m.CopyFloat3Attribute(src, o.Attr)), "ok", ""
			default:
				return one(m.CopyFloat4Attribute(src, o.Attr)), "ok", ""
			}
		}
		switch o.Arity {
		case 1:
			x := make([]float64, len(o.Data))
			for i, v := range o.Data {
				x[i] = float64(v[0])
			}
			return one(m.SetFloat1Attribute(o.Attr, x)), "ok", ""
		case 2:
			x := make([]vector2.Float64, len(o.Data))
			for i, v := range o.Data {
				x[i] = v2(v)
			}
			return one(m.SetFloat2Attribute(o.Attr, x)), "ok", ""
		case 3:
			x := make([]vector3.Float64, len(o.Data))
			for i, v := range o.Data {
				x[i] = v3(v)
			}
			return one(m.SetFloat3Attribute(o.Attr, x)), "ok", ""
		default:
			x := make([]vector4.Float64, len(o.Data))
			for i, v := range o.Data {
				x[i] = vector4.New(float64(v[0]), float64(v[1]), float64(v[2]), float64(v[3]))
			}
			return one(m.SetFloat4Attribute(o.Attr, x)), "ok", ""
		}
	case "set_materials":
		ms := make([]modeling.MeshMaterial, len(o.Mats))
		for i, x := range o.Mats {
			ms[i] = modeling.MeshMaterial{PrimitiveCount: x.Count, Material: Material(x.ID)}
		}
		return one(m.SetMaterials(ms)), "ok", ""
	case "repeat":
		ts := make([]trs.TRS, len(o.TRS))
		for i, t := range o.TRS {
			ts[i] = t.TRS()
		}
		return one(repeat.Mesh(m, ts)), "ok", ""
	case "translate":
		switch o.Variant {
		case "m":
			return one(m.Translate(v3(o.V))), "ok", ""
		case "t":
			return transform(meshops.TranslateAttribute3DTransformer{Attribute: o.Attr, Amount: v3(o.V)}, m), "ok", ""
		case "p": // the same map through the generic parallel modifier (pool of 1..5 workers)
			amount := v3(o.V)
			return one(m.ModifyFloat3AttributeParallelWithPoolSize(o.Attr, 1+len(o.Attr)%5, func(i int, v vector3.Float64) vector3.Float64 { return v.Add(amount) })), "ok", ""
		case "q":
			amount := v3(o.V)
			return one(m.ModifyFloat3Attribute(o.Attr, func(i int, v vector3.Float64) vector3.Float64 { return v.Add(amount) })), "ok", ""
		}
		return one(meshops.TranslateAttribute3D(m, o.Attr, v3(o.V))), "ok", ""
	case "scale3":
		switch o.Variant {
		case "m":
			return one(m.Scale(v3(o.V2))), "ok", ""
		case "t":
			return transform(meshops.ScaleAttribute3DTransformer{Attribute: o.Attr, Origin: v3(o.V), Amount: v3(o.V2)}, m), "ok", ""
		}
		return one(meshops.ScaleAttribute3D(m, o.Attr, v3(o.V), v3(o.V2))), "ok", ""
	case "scale2":
		if tv {
			return transform(meshops.ScaleAttribute2DTransformer{Attribute: o.Attr, Origin: v2(o.V), Amount: v2(o.V2)}, m), "ok", ""
		}
		if o.Variant == "p" {
			origin, amount := v2(o.V), v2(o.V2)
			return one(m.ModifyFloat2AttributeParallelWithPoolSize(o.Attr, 1+len(o.Attr)%5, func(i int, v vector2.Float64) vector2.Float64 {
				return origin.Add(v.Sub(origin).MultByVector(amount))
			})), "ok", ""
		}
		return one(meshops.ScaleAttribute2D(m, o.Attr, v2(o.V), v2(o.V2))), "ok", ""
	case "rotate":
		switch o.Variant {
		case "m":
			return one(m.Rotate(quat(o.V))), "ok", ""
		case "t":
			return transform(meshops.RotateAttribute3DTransformer{Attribute: o.Attr, Amount: quat(o.V)}, m), "ok", ""
		}
		return one(meshops.RotateAttribute3D(m, o.Attr, quat(o.V))), "ok", ""
	case "apply_trs":
		return one(m.ApplyTRS(o.TRS[0].TRS())), "ok", ""
	case "center":
		if tv {
			return transform(meshops.CenterAttribute3DTransformer{Attribute: o.Attr}, m), "ok", ""
		}
		return one(meshops.CenterFloat3Attribute(m, o.Attr)), "ok", ""
	case "slice":
		plane := geometry.NewPlaneFromPoints(v3(o.Data[0]), v3(o.Data[1]), v3(o.Data[2]))
		if tv {
			above := transform(meshops.SliceByPlaneTransformer{Attribute: o.Attr, SliceToKeep: meshops.AbovePlane, Plane: plane}, m)
			below := transform(meshops.SliceByPlaneTransformer{Attribute: o.Attr, SliceToKeep: meshops.BelowPlane, Plane: plane}, m)
			return []modeling.Mesh{above[0], below[0]}, "ok", ""
		}
		above, below := meshops.SliceByPlaneWithAttribute(m, plane, o.Attr)
		return []modeling.Mesh{above, below}, "ok", ""
	// ---- float-valued single-attribute transforms
	case "normalize3":
		if tv {
			return transform(meshops.NormalizeAttribute3DTransformer{Attribute: o.Attr}, m), "ok", ""
		}
		return one(meshops.NormalizeAttribute3D(m, o.Attr)), "ok", ""
	case "normalize2":
		if tv {
			return transform(meshops.NormalizeAttribute2DTransformer{Attribute: o.Attr}, m), "ok", ""
		}
		return one(meshops.NormalizeAttribute2D(m, o.Attr)), "ok", ""
	case "smooth_normals":
		if tv {
			return transform(meshops.SmoothNormalsTransformer{}, m), "ok", ""
		}
		return one(meshops.SmoothNormals(m)), "ok", ""
	case "flat_normals":
		if tv {
			return transform(meshops.FlatNormalsTransformer{}, m), "ok", ""
		}
		return one(meshops.FlatNormals(m)), "ok", ""
	case "smooth_implicit":
		dist := math.Ldexp(0.5, -o.Exp) // half a lattice unit at the mesh's scale
		if tv {
			return transform(meshops.SmoothNormalsImplicitWeldTransformer{Distance: dist}, m), "ok", ""
		}
		return one(meshops.SmoothNormalsImplicitWeld(m, dist)), "ok", ""
	case "laplacian":
		if tv {
			return transform(meshops.LaplacianSmoothTransformer{Attribute: o.Attr, Iterations: o.Iter, SmoothingFactor: o.Factor}, m), "ok", ""
		}
		return one(meshops.LaplacianSmooth(m, o.Attr, o.Iter, o.Factor)), "ok", ""
	case "laplacian_axis":
		return one(meshops.LaplacianSmoothAlongAxis(m, o.Attr, o.Iter, o.Factor, v3(o.V))), "ok", ""
	case "scale_along_normal":
		if tv {
			return transform(meshops.ScaleAttributeAlongNormalTransformer{AttributeToScale: o.Attr, NormalAttribute: o.Attr2, Amount: float64(o.PT)}, m), "ok", ""
		}
		return one(meshops.ScaleAttributeAlongNormal(m, o.Attr, o.Attr2, float64(o.PT))), "ok", ""
	}
	panic("meshgen: unknown op " + o.Op)
}

// RegisterNames adds every attribute name the op mentions.
func (o OpDesc) RegisterNames(n *Names) {
	n.Add("Position", "Normal")
	if a := o.attrName(); a != "" {
		n.Add(a)
	}
	if o.Attr != "" {
		n.Add(o.Attr)
	}
	if o.Attr2 != "" {
		n.Add(o.Attr2)
	}
}

func weldDivisor(decimal int) int64 {
	if decimal >= 0 {
		return 1
	}
	d := int64(1)
	for i := 0; i < -decimal; i++ {
		d *= 10
	}
	return d
}

func coqZVec(v []int64) string { return CoqVec(v) + "%Z" }
func coqTRS(t TRSDesc) string {
	return fmt.Sprintf("(%s,%s,%s)", coqZVec(t.P), coqZVec(t.S), coqZVec(t.Q))
}

func (o OpDesc) predCoq() string {
	switch o.Pred {
	case "ge":
		return fmt.Sprintf("(pred_of (PGe %d%%nat %s))", o.PC, hx.CoqZ(o.PT))
	case "le":
		return fmt.Sprintf("(pred_of (PLe %d%%nat %s))", o.PC, hx.CoqZ(o.PT))
	case "even":
		return fmt.Sprintf("(pred_of (PEven %d%%nat))", o.PC)
	case "all":
		return "(pred_of PAll)"
	}
	return "(pred_of PNone)"
}

// attrName is the attribute the implementation will use (Transformer structs fall back to a default
// when the name is blank).
func (o OpDesc) attrName() string {
	if o.Variant == "m" {
		return "Position"
	}
	if o.Variant == "t" && strings.TrimSpace(o.Attr) == "" {
		switch o.Op {
		case "scale2":
			return "TexCoord"
		case "normalize2":
			return o.Attr
		}
		return "Position"
	}
	return o.Attr
}

// Coq renders an exact op as a term of type PF.Mesh.Pure.op.
func (o OpDesc) Coq(n *Names) string {
	a := 0
	if o.Op != "apply_trs" && o.Op != "repeat" {
		if nm := o.attrName(); nm != "" {
			n.ID(nm)
			a = n.ID(nm)
		}
	}
	switch o.Op {
	case "append":
		return "OAppend"
	case "unweld":
		return "OUnweld"
	case "remove_unref":
		return "ORemoveUnref"
	case "remove_null":
		min4 := new(big.Int).Mul(big.NewInt(o.Min2), big.NewInt(o.Min2)) // may exceed int64 on the needle stream
		return fmt.Sprintf("(ORemoveNull %d (area_keep %s%%Z))", a, min4.String())
	case "flip":
		return "OFlip"
	case "to_points":
		return "OToPoints"
	case "filter":
		return fmt.Sprintf("(OFilter %s %s)", CoqKey(o.Arity, a), o.predCoq())
	case "crop":
		lo, hi := make([]int64, 3), make([]int64, 3)
		for k := 0; k < 3; k++ {
			lo[k], hi[k] = o.V[k], o.V2[k]
			if lo[k] > hi[k] {
				lo[k], hi[k] = hi[k], lo[k]
			}
		}
		return fmt.Sprintf("(OCrop %d %s %s)", a, coqZVec(lo), coqZVec(hi))
	case "split":
		return "OSplit"
	case "weld":
		return fmt.Sprintf("(OWeld %d (round_key %s))", a, hx.CoqZ(weldDivisor(o.Decimal)))
	case "set_indices":
		return fmt.Sprintf("(OSetIndices %s)", CoqNats(o.Idx))
	case "set_attr":
		return fmt.Sprintf("(OSetAttr %s %s)", CoqKey(o.Arity, a), CoqVecs(o.Data))
	case "set_materials":
		return fmt.Sprintf("(OSetMaterials %s)", CoqMats(o.Mats))
	case "repeat":
		items := make([]string, len(o.TRS))
		for i, t := range o.TRS {
			items[i] = coqTRS(t)
		}
		return fmt.Sprintf("(ORepeat %d [%s])", n.ID("Position"), strings.Join(items, ";"))
	case "translate":
		return fmt.Sprintf("(OTranslate %d %s)", a, coqZVec(o.V))
	case "scale3":
		origin := o.V
		if o.Variant == "m" {
			origin = []int64{0, 0, 0}
		}
		return fmt.Sprintf("(OScale3 %d %s %s)", a, coqZVec(origin), coqZVec(o.V2))
	case "scale2":
		return fmt.Sprintf("(OScale2 %d %s %s)", a, coqZVec(o.V), coqZVec(o.V2))
	case "rotate":
		return fmt.Sprintf("(ORotate %d %s)", a, coqZVec(o.V))
	case "apply_trs":
		return fmt.Sprintf("(OApplyTRS %d %s)", n.ID("Position"), coqTRS(o.TRS[0]))
	case "center":
		return fmt.Sprintf("(OCenter %d)", a)
	case "slice":
		A, B, C := coqZVec(o.Data[0]), coqZVec(o.Data[1]), coqZVec(o.Data[2])
		return fmt.Sprintf("(OSlice %d (plane_clip (cross (vzip Z.sub %s %s) (vzip Z.sub %s %s)) %s))", a, B, A, C, A, A)
	case "scale_along_normal":
		a2 := o.Attr2
		if o.Variant == "t" && strings.TrimSpace(a2) == "" {
			a2 = "Normal"
		}
		return fmt.Sprintf("(OScaleAlongNormal %d %d %s)", a, n.ID(a2), hx.CoqZ(o.PT))
	}
	panic("meshgen: not an exact op: " + o.Op)
}

// FrameCoq renders a float-valued op as PF.Mesh.Case.fop; target is the attribute it rewrites.
func (o OpDesc) FrameCoq(n *Names) (term string, targetArity int, targetName string) {
	a := o.attrName()
	switch o.Op {
	case "normalize3":
		return fmt.Sprintf("(FNormalize3 %d)", n.ID(a)), 3, a
	case "normalize2":
		return fmt.Sprintf("(FNormalize2 %d)", n.ID(a)), 2, a
	case "smooth_normals":
		return fmt.Sprintf("(FSmoothNormals %d %d)", n.ID("Position"), n.ID("Normal")), 3, "Normal"
	case "flat_normals":
		return fmt.Sprintf("(FFlatNormals %d %d)", n.ID("Position"), n.ID("Normal")), 3, "Normal"
	case "smooth_implicit":
		return fmt.Sprintf("(FSmoothImplicit %d %d)", n.ID("Position"), n.ID("Normal")), 3, "Normal"
	case "laplacian", "laplacian_axis":
		return fmt.Sprintf("(FLaplacian %d)", n.ID(a)), 3, a
	}
	panic("meshgen: not a frame op: " + o.Op)
}

// ---- random operation for a given (projected) input mesh ----
func pickAttr(r *hx.Rng, d Desc, arity int, fallback string) string {
	var have []string
	for _, a := range d.Attrs {
		if a.Arity == arity {
			have = append(have, a.Name)
		}
	}
	if len(have) > 0 && !r.Chance(1, 12) {
		return hx.Pick(r, have)
	}
	if r.Bool() {
		return fallback
	}
	return hx.Pick(r, namePool)
}

// pickAttrOther: like pickAttr, but an attribute OTHER than the conventional one (Position / TexCoord) is
// preferred two times in three when the mesh has one
func pickAttrOther(r *hx.Rng, d Desc, arity int, conventional string) string {
	var others []string
	for _, a := range d.Attrs {
		if a.Arity == arity && a.Name != conventional {
			others = append(others, a.Name)
		}
	}
	if len(others) > 0 && r.Chance(2, 3) {
		return hx.Pick(r, others)
	}
	return pickAttr(r, d, arity, conventional)
}

func randVec(r *hx.Rng, n, lo, hi int) []int64 {
	v := make([]int64, n)
	for i := range v {
		v[i] = int64(r.Range(lo, hi))
	}
	return v
}

func randTRS(r *hx.Rng) TRSDesc {
	t := TRSDesc{P: randVec(r, 3, -5, 5), S: []int64{1, 1, 1}, Q: []int64{0, 0, 0, 1}}
	if r.Chance(1, 2) {
		t.S = randVec(r, 3, -2, 3)
	}
	if r.Chance(1, 2) {
		t.Q = randVec(r, 4, -2, 2)
	}
	return t
}

// opVariants: "" function, "t" Transformer struct, "m" Mesh method, "p"/"q" generic (parallel) modifier, "c" Copy*
var opVariants = map[string][]string{
	"unweld": {"", "t"}, "remove_unref": {"", "t"}, "remove_null": {"", "t"}, "flip": {"", "t"},
	"filter": {"", "t"}, "crop": {"", "t"}, "translate": {"", "t", "m", "p", "q"}, "scale3": {"", "t", "m"},
	"scale2": {"", "t", "p"}, "set_attr": {"", "", "c"}, "rotate": {"", "t", "m"}, "center": {"", "t"}, "normalize3": {"", "t"},
	"normalize2": {"", "t"}, "smooth_normals": {"", "t"}, "flat_normals": {"", "t"},
	"smooth_implicit": {"", "t"}, "laplacian": {"", "t"}, "scale_along_normal": {"", "t"}, "laplacian_axis": {""}, "slice": {"", "t"},
}

// RandomOp draws an operation that mostly fits the mesh d (about one in ten does not: wrong
// topology or missing attribute, to exercise the declared failures).
func RandomOp(r *hx.Rng, d Desc, kinds []string) OpDesc {
	topo := modeling.Topology(d.Topo)
	var op string
	for tries := 0; ; tries++ {
		op = hx.Pick(r, kinds)
		fits := true
		switch op {
		case "remove_null", "flip", "weld", "split", "smooth_normals", "flat_normals", "smooth_implicit", "slice":
			fits = topo == modeling.TriangleTopology
		case "crop":
			fits = topo == modeling.PointTopology
		case "laplacian", "laplacian_axis":
			fits = topo != modeling.PointTopology && topo != modeling.QuadTopology
		}
		// an operation on an attribute of some arity mostly goes to a mesh that has one
		hasArity := func(n int) bool {
			for _, a := range d.Attrs {
				if a.Arity == n {
					return true
				}
			}
			return false
		}
		switch op {
		case "scale2", "normalize2":
			fits = fits && hasArity(2)
		case "translate", "scale3", "rotate", "center", "normalize3", "laplacian", "laplacian_axis", "weld", "remove_null", "crop", "scale_along_normal", "slice":
			fits = fits && hasArity(3)
		case "apply_trs", "repeat", "smooth_normals", "flat_normals", "smooth_implicit":
			fits = fits && d.Has(3, "Position")
		}
		if fits || tries > 6 || r.Chance(1, 10) {
			break
		}
	}
	o := OpDesc{Op: op}
	if vs, ok := opVariants[op]; ok {
		o.Variant = hx.Pick(r, vs)
	}
	switch op {
	case "remove_null":
		o.Attr = pickAttr(r, d, 3, "Position")
		o.Min2 = hx.Pick(r, []int64{0, 0, 1, 2, 5, 12, 40})
	case "filter":
		o.Arity = r.Range(1, 4)
		if len(d.Attrs) > 0 && !r.Chance(1, 10) {
			o.Arity = hx.Pick(r, d.Attrs).Arity
		}
		o.Attr = pickAttr(r, d, o.Arity, "Position")
		o.Pred = hx.Pick(r, []string{"ge", "ge", "le", "le", "even", "even", "all", "none"})
		o.PC = r.Intn(o.Arity)
		o.PT = int64(r.Range(-4, 4))
		if data := attrData(d, o.Arity, o.Attr); len(data) > 0 && r.Bool() {
			// a threshold taken from the data: splits the vertices whatever their scale
			o.PT = hx.Pick(r, data)[o.PC] + int64(r.Range(-1, 1))
		}
	case "crop":
		o.Attr = pickAttr(r, d, 3, "Position")
		o.V, o.V2 = randVec(r, 3, -8, 2), randVec(r, 3, -2, 8)
		if data := attrData(d, 3, o.Attr); len(data) > 0 && r.Chance(2, 3) {
			// the box spanned by two of the points, grown or shrunk by one: boundary points on either side
			p, q := hx.Pick(r, data), hx.Pick(r, data)
			g := int64(r.Range(-1, 1))
			for k := 0; k < 3; k++ {
				lo, hi := p[k], q[k]
				if lo > hi {
					lo, hi = hi, lo
				}
				o.V[k], o.V2[k] = lo-g, hi+g
				if o.V[k] > o.V2[k] {
					o.V[k], o.V2[k] = o.V2[k], o.V[k]
				}
			}
		}
	case "weld":
		o.Attr = pickAttr(r, d, 3, "Position")
		o.Decimal = hx.Pick(r, []int{0, 0, 1, 2, 3, -1, -1, -2, -2})
		if preferDecimal != 99 && r.Chance(3, 4) {
			o.Decimal = preferDecimal
		}
	case "set_indices":
		nv := d.NVerts()
		n := 0
		if nv > 0 {
			n = r.Range(0, 3) * indexSize(topo)
		}
		o.Idx = make([]int, n)
		for i := range o.Idx {
			o.Idx[i] = r.Intn(nv)
		}
	case "set_attr":
		o.Arity = r.Range(1, 4)
		o.Attr = hx.Pick(r, namePool)
		nv := d.NVerts()
		if r.Chance(1, 6) && len(d.Idx) == 0 {
			nv = 0 // deletion (only allowed when nothing references the vertices)
		}
		if nv == 0 && len(d.Idx) != 0 {
			nv = d.NVerts()
		}
		o.Data = make([][]int64, nv)
		for i := range o.Data {
			o.Data[i] = randVec(r, o.Arity, -6, 6)
		}
	case "set_materials":
		if r.Chance(1, 3) {
			n := r.Range(0, 3)
			for i := 0; i < n; i++ {
				o.Mats = append(o.Mats, Mat{Count: r.Range(0, 3), ID: r.Intn(3)})
			}
		} else {
			o.Mats = randMats(r, len(d.Idx)/indexSize(topo)) // ranges that fit the mesh, recurring materials included
		}
	case "repeat":
		n := r.Range(0, 3)
		for i := 0; i < n; i++ {
			o.TRS = append(o.TRS, randTRS(r))
		}
	// attribute-addressed transforms: {Position, another attribute (also on meshes WITHOUT Position)} x {neutral
	// parameters - origin exactly zero, amount exactly one, translation exactly zero, identity rotation - and
	// non-neutral ones}: shortcuts for the neutral values must still address the NAMED attribute
	case "translate":
		o.Attr = pickAttrOther(r, d, 3, "Position")
		o.V = randVec(r, 3, -9, 9)
		if r.Chance(1, 5) {
			o.V = []int64{0, 0, 0}
		}
	case "scale3":
		o.Attr = pickAttrOther(r, d, 3, "Position")
		o.V, o.V2 = randVec(r, 3, -4, 4), randVec(r, 3, -3, 3)
		if r.Chance(1, 3) {
			o.V = []int64{0, 0, 0}
		}
		if r.Chance(1, 6) {
			o.V2 = []int64{1, 1, 1}
		}
	case "scale2":
		o.Attr = pickAttrOther(r, d, 2, "TexCoord")
		o.V, o.V2 = randVec(r, 2, -4, 4), randVec(r, 2, -3, 3)
		if r.Chance(1, 3) {
			o.V = []int64{0, 0}
		}
		if r.Chance(1, 6) {
			o.V2 = []int64{1, 1}
		}
	case "rotate":
		o.Attr = pickAttrOther(r, d, 3, "Position")
		o.V = randVec(r, 4, -3, 3)
		if r.Chance(1, 5) {
			o.V = []int64{0, 0, 0, 1}
		}
	case "apply_trs":
		o.TRS = []TRSDesc{randTRS(r)}
		if r.Chance(1, 6) {
			o.TRS = []TRSDesc{{P: []int64{0, 0, 0}, S: []int64{1, 1, 1}, Q: []int64{0, 0, 0, 1}}}
		}
	case "center":
		o.Attr = pickAttrOther(r, d, 3, "Position")
	case "normalize3":
		o.Attr = pickAttrOther(r, d, 3, "Position")
	case "normalize2":
		o.Attr = pickAttrOther(r, d, 2, "TexCoord")
	case "laplacian", "laplacian_axis":
		o.Attr = pickAttr(r, d, 3, "Position")
		o.Iter = r.Range(0, 3)
		o.Factor = hx.Pick(r, []float64{0.5, 0.1, 1, 0.25, 0.125})
		if op == "laplacian_axis" {
			o.V = randVec(r, 3, -3, 3)
			if o.V[0] == 0 && o.V[1] == 0 && o.V[2] == 0 {
				o.V[r.Intn(3)] = 1
			}
		}
	case "scale_along_normal":
		o.Attr = pickAttr(r, d, 3, "Position")
		o.Attr2 = pickAttr(r, d, 3, "Normal")
		o.PT = int64(r.Range(-3, 3))
	case "slice":
		o.Attr = pickAttr(r, d, 3, "Position")
		o.Data = randPlane(r, attrData(d, 3, o.Attr))
	}
	if o.Variant == "t" && o.Op != "filter" && o.Op != "normalize2" && o.Op != "scale_along_normal" {
		// Transformer fallback attribute: likely when the mesh has the default attribute
		fallbackPresent := d.Has(3, "Position")
		if o.Op == "scale2" {
			fallbackPresent = d.Has(2, "TexCoord")
		}
		if (fallbackPresent && r.Chance(1, 2)) || r.Chance(1, 8) {
			o.Attr = ""
		}
	}
	return o
}

// randPlane returns three integer points A, B, C spanning the slicing plane (normal (B-A) x (C-A)).
// Either axis-aligned through (or one unit beside) a vertex of the data - vertices exactly ON the plane
// are then decided exactly by the float code (normal +-e_k, origin on the axis) - or a generic plane on
// which no vertex of the data lies (|n.(p-A)| >= 1 in integers, far above float rounding).
func randPlane(r *hx.Rng, data [][]int64) [][]int64 {
	axis := func() [][]int64 {
		k := r.Intn(3)
		A := randVec(r, 3, -6, 6)
		if len(data) > 0 && r.Chance(4, 5) {
			A = append([]int64{}, hx.Pick(r, data)...)
			A[k] += int64(r.Range(-1, 1))
		}
		u, w := (k+1)%3, (k+2)%3
		if r.Bool() {
			u, w = w, u // flips the normal
		}
		B, C := append([]int64{}, A...), append([]int64{}, A...)
		B[u] += int64(r.Range(1, 3))
		C[w] += int64(r.Range(1, 3))
		return [][]int64{A, B, C}
	}
	if len(data) == 0 || r.Chance(1, 2) {
		return axis()
	}
	for tries := 0; tries < 12; tries++ {
		A := append([]int64{}, hx.Pick(r, data)...)
		for k := range A {
			A[k] += int64(r.Range(-2, 2))
		}
		B, C := randVec(r, 3, -4, 4), randVec(r, 3, -4, 4)
		for k := range A {
			B[k] += A[k]
			C[k] += A[k]
		}
		n := crossI64(A, B, C)
		if n == [3]int64{} {
			continue
		}
		ok := true
		for _, p := range data {
			if n[0]*(p[0]-A[0])+n[1]*(p[1]-A[1])+n[2]*(p[2]-A[2]) == 0 {
				ok = false
				break
			}
		}
		if ok {
			return [][]int64{A, B, C}
		}
	}
	return axis()
}

func crossI64(a, b, c []int64) [3]int64 {
	u := [3]int64{b[0] - a[0], b[1] - a[1], b[2] - a[2]}
	v := [3]int64{c[0] - a[0], c[1] - a[1], c[2] - a[2]}
	return [3]int64{u[1]*v[2] - u[2]*v[1], u[2]*v[0] - u[0]*v[2], u[0]*v[1] - u[1]*v[0]}
}
