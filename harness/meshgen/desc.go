// Package meshgen: random well-formed mesh descriptions with integer-valued attributes, conversion
// to modeling.Mesh, projection of a modeling.Mesh back to a description and rendering as a Coq term
// of type PF.Mesh.Pure.mesh.  Shared by the C02/C03 harnesses (other harnesses may import it).
//
// API in short:
//
//	d := meshgen.Random(r, meshgen.Options{})   // Desc: topology, indices, materials, attributes (int64 tuples)
//	m := d.Mesh()                               // modeling.Mesh (materials come from a process-wide pool, identity = *Material)
//	p, err := meshgen.Project(m)                // Desc again (err if a value is not an integer)
//	names := meshgen.NewNames(); names.AddDesc(p); names.Freeze()
//	term := p.Coq(names)                        // "(Mesh Triangle [0;1;2]%nat [...] [...])"
package meshgen

import (
	"fmt"
	"math"
	"sort"
	"strings"
	"sync"

	"github.com/EliCDavis/polyform/modeling"
	"github.com/EliCDavis/vector/vector2"
	"github.com/EliCDavis/vector/vector3"
	"github.com/EliCDavis/vector/vector4"
)

// Attr is one attribute array; every Data[i] has Arity components.
type Attr struct {
	Arity int       `json:"arity"`
	Name  string    `json:"name"`
	Data  [][]int64 `json:"data"`
	Blank int       `json:"blank,omitempty"` // >0: values unknown/irrelevant, only the length (generator cases)
}

// Mat is one material range: PrimitiveCount and the identity of the *modeling.Material.
type Mat struct {
	Count int `json:"count"`
	ID    int `json:"id"`
}

// Desc is a replayable, JSON-serialisable mesh description.
type Desc struct {
	Topo  int    `json:"topo"` // modeling.Topology value
	Idx   []int  `json:"idx"`
	Mats  []Mat  `json:"mats"`
	Attrs []Attr `json:"attrs"`
	// Exp: every attribute value of the Go mesh is Data * 2^-Exp (exact in float64).  Used by the
	// scale-invariant operations to run the same integer case at tiny and huge scales; the Coq case
	// always carries the integers.
	Exp int `json:"exp,omitempty"`
}

var topoCoq = map[modeling.Topology]string{
	modeling.TriangleTopology: "Triangle", modeling.PointTopology: "Point", modeling.QuadTopology: "Quad",
	modeling.LineTopology: "Line", modeling.LineStripTopology: "LineStrip", modeling.LineLoopTopology: "LineLoop",
}

// ---- material pool: identity of a material is its pointer; the name encodes the id ----
var (
	matMu   sync.Mutex
	matPool = map[int]*modeling.Material{}
)

func Material(id int) *modeling.Material {
	matMu.Lock()
	defer matMu.Unlock()
	if m, ok := matPool[id]; ok {
		return m
	}
	m := &modeling.Material{Name: fmt.Sprintf("m%d", id)}
	matPool[id] = m
	return m
}

func matID(m *modeling.Material) int {
	if m == nil {
		return -1
	}
	var id int
	if _, err := fmt.Sscanf(m.Name, "m%d", &id); err != nil {
		return -2
	}
	return id
}

// Mesh builds the modeling.Mesh (fresh slices on every call).
func (d Desc) Mesh() modeling.Mesh {
	sc := math.Ldexp(1, -d.Exp)
	idx := append([]int{}, d.Idx...)
	m := modeling.NewMesh(modeling.Topology(d.Topo), idx)
	v1 := map[string][]float64{}
	v2 := map[string][]vector2.Float64{}
	v3 := map[string][]vector3.Float64{}
	v4 := map[string][]vector4.Float64{}
	for _, a := range d.Attrs {
		switch a.Arity {
		case 1:
			x := make([]float64, len(a.Data))
			for i, v := range a.Data {
				x[i] = float64(v[0]) * sc
			}
			v1[a.Name] = x
		case 2:
			x := make([]vector2.Float64, len(a.Data))
			for i, v := range a.Data {
				x[i] = vector2.New(float64(v[0])*sc, float64(v[1])*sc)
			}
			v2[a.Name] = x
		case 3:
			x := make([]vector3.Float64, len(a.Data))
			for i, v := range a.Data {
				x[i] = vector3.New(float64(v[0])*sc, float64(v[1])*sc, float64(v[2])*sc)
			}
			v3[a.Name] = x
		case 4:
			x := make([]vector4.Float64, len(a.Data))
			for i, v := range a.Data {
				x[i] = vector4.New(float64(v[0])*sc, float64(v[1])*sc, float64(v[2])*sc, float64(v[3])*sc)
			}
			v4[a.Name] = x
		}
	}
	m = m.SetFloat1Data(v1).SetFloat2Data(v2).SetFloat3Data(v3).SetFloat4Data(v4)
	if d.Mats != nil {
		ms := make([]modeling.MeshMaterial, len(d.Mats))
		for i, x := range d.Mats {
			ms[i] = modeling.MeshMaterial{PrimitiveCount: x.Count, Material: Material(x.ID)}
		}
		m = m.SetMaterials(ms)
	}
	return m
}

func toInt(x float64) (int64, bool) {
	if math.IsNaN(x) || math.IsInf(x, 0) || x != math.Trunc(x) || math.Abs(x) > 1e15 {
		return 0, false
	}
	return int64(x), true
}

// ProjectOpt controls Project.
type ProjectOpt struct {
	Skip      map[[2]string]bool // attributes (arity as string "3", name) left out
	BlankVals bool               // do not read values, only lengths (generator outputs)
	Exp       int                // values are read as v * 2^Exp (see Desc.Exp)
}

// Project reads a mesh through its public accessors. Attributes are returned sorted by arity
// descending, then name ascending (the order of the Coq model's association list).
func Project(m modeling.Mesh) (Desc, error) { return ProjectWith(m, ProjectOpt{}) }

func ProjectWith(m modeling.Mesh, opt ProjectOpt) (Desc, error) {
	d := Desc{Topo: int(m.Topology()), Idx: []int{}, Mats: []Mat{}, Attrs: []Attr{}, Exp: opt.Exp}
	unscale := math.Ldexp(1, opt.Exp)
	ix := m.Indices()
	for i := 0; i < ix.Len(); i++ {
		d.Idx = append(d.Idx, ix.At(i))
	}
	for _, mm := range m.Materials() {
		d.Mats = append(d.Mats, Mat{Count: mm.PrimitiveCount, ID: matID(mm.Material)})
	}
	var firstErr error
	conv := func(name string, arity int, n int, at func(i int) []float64) {
		if opt.Skip[[2]string{fmt.Sprint(arity), name}] {
			return
		}
		a := Attr{Arity: arity, Name: name, Data: [][]int64{}}
		if opt.BlankVals {
			a.Blank = n
			a.Data = nil
			d.Attrs = append(d.Attrs, a)
			return
		}
		for i := 0; i < n; i++ {
			fs := at(i)
			row := make([]int64, arity)
			for k, f := range fs {
				v, ok := toInt(f * unscale)
				if !ok && firstErr == nil {
					firstErr = fmt.Errorf("attribute %s[%d] component %d is not an integer: %v", name, i, k, f)
				}
				row[k] = v
			}
			a.Data = append(a.Data, row)
		}
		d.Attrs = append(d.Attrs, a)
	}
	for _, n := range m.Float4Attributes() {
		it := m.Float4Attribute(n)
		conv(n, 4, it.Len(), func(i int) []float64 { v := it.At(i); return []float64{v.X(), v.Y(), v.Z(), v.W()} })
	}
	for _, n := range m.Float3Attributes() {
		it := m.Float3Attribute(n)
		conv(n, 3, it.Len(), func(i int) []float64 { v := it.At(i); return []float64{v.X(), v.Y(), v.Z()} })
	}
	for _, n := range m.Float2Attributes() {
		it := m.Float2Attribute(n)
		conv(n, 2, it.Len(), func(i int) []float64 { v := it.At(i); return []float64{v.X(), v.Y()} })
	}
	for _, n := range m.Float1Attributes() {
		it := m.Float1Attribute(n)
		conv(n, 1, it.Len(), func(i int) []float64 { return []float64{it.At(i)} })
	}
	// a nat literal cannot be negative: an out-of-range stand-in keeps the mesh ill-formed for the Coq
	// side and the negative index is reported as a harness-side failure as well
	for k, i := range d.Idx {
		if i < 0 || i > 1000000 {
			if firstErr == nil {
				firstErr = fmt.Errorf("index %d at position %d is negative or absurd", i, k)
			}
			d.Idx[k] = d.NVerts() + 7
		}
	}
	return d, firstErr
}

// ---- attribute name numbering: ids follow the lexicographic order of the names of one case ----
type Names struct {
	set map[string]bool
	ids map[string]int
}

func NewNames() *Names { return &Names{set: map[string]bool{}} }
func (n *Names) Add(names ...string) {
	for _, s := range names {
		n.set[s] = true
	}
}
func (n *Names) AddDesc(ds ...Desc) {
	for _, d := range ds {
		for _, a := range d.Attrs {
			n.set[a.Name] = true
		}
	}
}
func (n *Names) Freeze() {
	all := make([]string, 0, len(n.set))
	for s := range n.set {
		all = append(all, s)
	}
	sort.Strings(all)
	n.ids = map[string]int{}
	for i, s := range all {
		n.ids[s] = i
	}
}
func (n *Names) ID(s string) int {
	id, ok := n.ids[s]
	if !ok {
		panic("meshgen: name not registered: " + s)
	}
	return id
}

// ---- Coq rendering ----
func CoqVec(v []int64) string {
	var b strings.Builder
	b.WriteByte('[')
	for i, x := range v {
		if i > 0 {
			b.WriteByte(';')
		}
		if x < 0 {
			fmt.Fprintf(&b, "(%d)", x)
		} else {
			fmt.Fprintf(&b, "%d", x)
		}
	}
	b.WriteByte(']')
	return b.String()
}
func CoqVecs(vs [][]int64) string {
	var b strings.Builder
	b.WriteByte('[')
	for i, v := range vs {
		if i > 0 {
			b.WriteByte(';')
		}
		b.WriteString(CoqVec(v))
	}
	b.WriteString("]%Z")
	return b.String()
}
func CoqNats(xs []int) string {
	var b strings.Builder
	b.WriteByte('[')
	for i, x := range xs {
		if i > 0 {
			b.WriteByte(';')
		}
		fmt.Fprintf(&b, "%d", x)
	}
	b.WriteString("]%nat")
	return b.String()
}
func CoqMats(ms []Mat) string {
	items := make([]string, len(ms))
	for i, x := range ms {
		items[i] = fmt.Sprintf("(%d%%nat,%d)", x.Count, x.ID)
	}
	return "[" + strings.Join(items, ";") + "]"
}
func CoqKey(arity int, id int) string { return fmt.Sprintf("(%d,%d)", arity, id) }

func (d Desc) sortedAttrs(n *Names) []Attr {
	as := append([]Attr{}, d.Attrs...)
	sort.SliceStable(as, func(i, j int) bool {
		if as[i].Arity != as[j].Arity {
			return as[i].Arity > as[j].Arity
		}
		return n.ID(as[i].Name) < n.ID(as[j].Name)
	})
	return as
}

func (d Desc) Coq(n *Names) string {
	as := d.sortedAttrs(n)
	items := make([]string, len(as))
	for i, a := range as {
		data := CoqVecs(a.Data)
		if a.Blank > 0 || a.Data == nil {
			data = fmt.Sprintf("(blank %d%%nat)", a.Blank)
		}
		items[i] = fmt.Sprintf("(%s,%s)", CoqKey(a.Arity, n.ID(a.Name)), data)
	}
	return fmt.Sprintf("(Mesh %s %s %s [%s])", topoCoq[modeling.Topology(d.Topo)], CoqNats(d.Idx), CoqMats(d.Mats), strings.Join(items, ";"))
}

func CoqMeshes(ds []Desc, n *Names) string {
	items := make([]string, len(ds))
	for i, d := range ds {
		items[i] = d.Coq(n)
	}
	return "[" + strings.Join(items, ";\n    ") + "]"
}

// NVerts is the common attribute length (0 without attributes).
func (d Desc) NVerts() int {
	for _, a := range d.Attrs {
		if a.Data == nil {
			return a.Blank
		}
		return len(a.Data)
	}
	return 0
}

func (d Desc) Has(arity int, name string) bool {
	for _, a := range d.Attrs {
		if a.Arity == arity && a.Name == name {
			return true
		}
	}
	return false
}

func (d Desc) Key() string { return fmt.Sprintf("%d|%v|%v|%v", d.Topo, d.Idx, d.Mats, d.Attrs) }
