package meshgen

// Unit-vector value maps compared IN COQ (Mesh/Normals.v): NormalizeAttribute3D/2D, SmoothNormals,
// SmoothNormalsImplicitWeld, FlatNormals produce (integer vector) / sqrt(integer) on integer meshes.  The
// implementation's output goes to Coq as exact dyadic rationals; Coq computes the numerator vector and the
// squared length from the mesh and decides |o - n/sqrt(len2)| <= 2e-9 by squaring (units_ok).

import (
	"encoding/json"
	"fmt"
	"math"
	"strings"

	"github.com/EliCDavis/polyform/modeling"

	"verif/harness/hx"
)

// UnitCase returns ok = false when the call does not apply (other operation, failure, non-finite output).
func UnitCase(sd StepDesc) (c hx.Case, ok bool) {
	d := sd.Ins[0]
	o := sd.Op
	var kind, target string
	arity := 3
	src := "Position"
	switch o.Op {
	case "smooth_normals":
		kind, target = "NSmooth", "Normal"
	case "smooth_implicit":
		kind, target = "NImplicit", "Normal"
	case "flat_normals":
		kind, target = "NFlat", "Normal"
	case "normalize3":
		kind, target, src = "NNormalize", o.attrName(), o.attrName()
	case "normalize2":
		kind, target, src, arity = "NNormalize", o.attrName(), o.attrName(), 2
	default:
		return c, false
	}
	data := attrData(d, arity, src)
	if data == nil || len(data) == 0 {
		return c, false
	}
	if kind != "NNormalize" && modeling.Topology(d.Topo) != modeling.TriangleTopology {
		return c, false
	}
	o.Exp = d.Exp
	res, class, _ := Apply(o, []modeling.Mesh{d.Mesh()})
	if class != "ok" {
		return c, false
	}
	var rows []string
	finite := true
	num := func(x float64) string {
		if math.IsNaN(x) || math.IsInf(x, 0) {
			finite = false
			return "(0,0)%Z"
		}
		return dyadic(x, 0)
	}
	if arity == 3 {
		if !res[0].HasFloat3Attribute(target) {
			return c, false
		}
		it := res[0].Float3Attribute(target)
		for i := 0; i < it.Len(); i++ {
			v := it.At(i)
			rows = append(rows, fmt.Sprintf("[%s;%s;%s]", num(v.X()), num(v.Y()), num(v.Z())))
		}
	} else {
		if !res[0].HasFloat2Attribute(target) {
			return c, false
		}
		it := res[0].Float2Attribute(target)
		for i := 0; i < it.Len(); i++ {
			v := it.At(i)
			rows = append(rows, fmt.Sprintf("[%s;%s]", num(v.X()), num(v.Y())))
		}
	}
	if !finite {
		return c, false // 0/0 (all-zero attribute, degenerate face): outside Q; the float reference handles NaN = NaN
	}
	idx := d.Idx
	if kind == "NNormalize" {
		idx = []int{}
	}
	c = hx.Case{Kind: "unit", Desc: sd}
	c.Coq = fmt.Sprintf("CUnit %s %s %s [%s]", kind, CoqNats(idx), CoqVecs(data), strings.Join(rows, ";"))
	kb, _ := json.Marshal(sd)
	c.Key = "unit|" + string(kb)
	c.Nontriv = len(d.Idx) > 0
	return c, true
}
