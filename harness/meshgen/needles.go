package meshgen

// Two more structured sources.
//
// Needles: triangles whose true area is far from what a numerically naive formula gives - long thin
// needles and slivers (aspect 10^3 .. 10^9), next to regular, exactly collinear and coincident ones -
// at tiny, unit and huge scales (Desc.Exp), for RemoveNullFaces3D with MinArea 0, small, and close to
// (but outside a relative 1e-8 band around) the true area.  Coordinates are integers (times a power
// of two), so the true squared area |cross|^2/4 is exact in Z and the Coq contract (area_keep) decides
// "kept <=> true area > MinArea" exactly.
//
// Surfaces: open fans, strips and grids (boundary edges), non-manifold edges, repeated-index
// triangles, closed tetrahedra, line strips / loops / segment lists, with unreferenced vertices, for
// the neighbourhood-based operations (Laplacian smoothing, normals).

import (
	"math/big"

	"github.com/EliCDavis/polyform/modeling"

	"verif/harness/hx"
)

func crossSq(p1, p2, p3 []int64) *big.Int {
	u := [3]*big.Int{}
	v := [3]*big.Int{}
	for k := 0; k < 3; k++ {
		u[k] = big.NewInt(p2[k] - p1[k])
		v[k] = big.NewInt(p3[k] - p1[k])
	}
	c := func(a, b int) *big.Int {
		x := new(big.Int).Mul(u[a], v[b])
		return x.Sub(x, new(big.Int).Mul(u[b], v[a]))
	}
	s := new(big.Int)
	for _, t := range []*big.Int{c(1, 2), c(2, 0), c(0, 1)} {
		s.Add(s, new(big.Int).Mul(t, t))
	}
	return s
}

// Needles returns an unwelded triangle mesh of needle / sliver / regular / degenerate triangles and a
// RemoveNullFaces3D call whose threshold is decided robustly by exact arithmetic.
func Needles(r *hx.Rng) (d Desc, o OpDesc, kinds []string) {
	nt := r.Range(1, 4)
	pos := Attr{Arity: 3, Name: "Position", Data: [][]int64{}}
	id := Attr{Arity: 1, Name: "a", Data: [][]int64{}}
	d = Desc{Topo: int(modeling.TriangleTopology), Idx: []int{}, Mats: []Mat{}, Exp: hx.Pick(r, []int{0, 0, 20, 40, -20})}
	lengths := []int64{1000, 1 << 10, 100000, 1 << 20, 10000000, 1 << 27, 1000000000, 1 << 30}
	var areas []*big.Int // |cross|^2 of every triangle
	for t := 0; t < nt; t++ {
		kind := hx.Pick(r, []string{"needle", "needle", "needle", "sliver", "regular", "collinear", "coincident"})
		kinds = append(kinds, kind)
		ax := r.Intn(3)
		b := []int64{int64(r.Range(-5, 5)), int64(r.Range(-5, 5)), int64(r.Range(-5, 5))}
		small := func() []int64 {
			v := []int64{int64(r.Range(-2, 2)), int64(r.Range(-2, 2)), int64(r.Range(-2, 2))}
			v[ax] = 0
			return v
		}
		L := hx.Pick(r, lengths)
		p1 := append([]int64{}, b...)
		p2 := append([]int64{}, b...)
		p3 := append([]int64{}, b...)
		switch kind {
		case "needle": // long edge L along one axis, apex 1..3 units off the axis, anywhere along it
			s := small()
			h := small()
			for h[0] == 0 && h[1] == 0 && h[2] == 0 {
				h = small()
			}
			for k := 0; k < 3; k++ {
				p2[k] += s[k]
				p3[k] += h[k]
			}
			p2[ax] += L
			p3[ax] += L / int64(r.Range(1, 4))
		case "sliver": // two long edges, apex close to the first vertex's side
			h := small()
			for h[0] == 0 && h[1] == 0 && h[2] == 0 {
				h = small()
			}
			p2[ax] += L
			p3[ax] += L
			for k := 0; k < 3; k++ {
				p3[k] += h[k]
			}
		case "regular":
			for k := 0; k < 3; k++ {
				p2[k] += int64(r.Range(-9, 9))
				p3[k] += int64(r.Range(-9, 9))
			}
		case "collinear": // exactly zero area, long
			p2[ax] += L
			p3[ax] += L / 2
		case "coincident":
			p3 = append([]int64{}, p2...)
		}
		if r.Bool() {
			p1, p2, p3 = p3, p1, p2
		}
		base := len(pos.Data)
		pos.Data = append(pos.Data, p1, p2, p3)
		for k := 0; k < 3; k++ {
			id.Data = append(id.Data, []int64{int64(100 + base + k)})
		}
		d.Idx = append(d.Idx, base, base+1, base+2)
		areas = append(areas, crossSq(p1, p2, p3))
	}
	d.Attrs = []Attr{pos, id}
	// threshold: 2*MinArea = Min2, compared with |cross|.  Candidates: 0, small, and values close to
	// one triangle's |cross|; a candidate is used only if for EVERY triangle |cross|^2 and Min2^2
	// differ by more than 1e-8 relative (so float64 rounding in the implementation cannot matter).
	cands := []int64{0, 0, 1, 5}
	tq := areas[r.Intn(len(areas))]
	root := new(big.Int).Sqrt(tq).Int64()
	for _, eps := range []float64{1e-3, 1e-5, 1e-7} {
		delta := int64(float64(root) * eps)
		if delta < 1 {
			delta = 1
		}
		cands = append(cands, root-delta, root+delta)
	}
	o = OpDesc{Op: "remove_null", Attr: "Position", Variant: hx.Pick(r, []string{"", "t"})}
	for tries := 0; tries < 20; tries++ {
		m2 := hx.Pick(r, cands)
		if m2 < 0 {
			continue
		}
		sq := new(big.Int).Mul(big.NewInt(m2), big.NewInt(m2))
		robust := true
		for _, a := range areas {
			diff := new(big.Int).Sub(a, sq)
			diff.Abs(diff)
			// diff * 10^8 > max(a, sq)  (or both zero is NOT robust unless m2 == 0 and a == 0: exact zeros are exact)
			mx := a
			if sq.Cmp(a) > 0 {
				mx = sq
			}
			if mx.Sign() == 0 {
				continue
			}
			if new(big.Int).Mul(diff, big.NewInt(100000000)).Cmp(mx) <= 0 {
				robust = false
			}
		}
		if robust {
			o.Min2 = m2
			return d, o, kinds
		}
	}
	o.Min2 = 0
	return d, o, kinds
}

// Surface returns a small mesh with a definite neighbourhood structure.
func Surface(r *hx.Rng) (d Desc, shape string) {
	shape = hx.Pick(r, []string{"fan-open", "fan-open", "strip", "grid", "non-manifold", "repeated-index", "tetrahedron", "bowtie",
		"line-strip", "line-loop", "lines"})
	topo := modeling.TriangleTopology
	var idx []int
	nv := 0
	switch shape {
	case "fan-open": // centre 0, rim 1..n, n-1 triangles: rim ends are boundary vertices
		n := r.Range(3, 6)
		nv = n + 1
		for i := 1; i < n; i++ {
			idx = append(idx, 0, i, i+1)
		}
	case "strip":
		n := r.Range(2, 5) // n quads split, 2(n+1) vertices
		nv = 2 * (n + 1)
		for i := 0; i < n; i++ {
			a, b, c, e := 2*i, 2*i+1, 2*i+2, 2*i+3
			idx = append(idx, a, b, c, c, b, e)
		}
	case "grid":
		w := r.Range(2, 3)
		nv = (w + 1) * (w + 1)
		for y := 0; y < w; y++ {
			for x := 0; x < w; x++ {
				a := y*(w+1) + x
				idx = append(idx, a, a+1, a+w+1, a+1, a+w+2, a+w+1)
			}
		}
	case "non-manifold": // three triangles around the edge 0-1
		nv = 5
		idx = []int{0, 1, 2, 1, 0, 3, 0, 1, 4}
	case "repeated-index":
		nv = 4
		idx = []int{0, 1, 1, 1, 2, 3, 3, 3, 3, 0, 2, 1}
	case "tetrahedron":
		nv = 4
		idx = []int{0, 1, 2, 0, 3, 1, 1, 3, 2, 2, 3, 0}
	case "bowtie": // two triangles sharing one vertex only
		nv = 5
		idx = []int{0, 1, 2, 2, 3, 4}
	case "line-strip":
		topo = modeling.LineStripTopology
		nv = r.Range(2, 6)
		for i := 0; i < nv; i++ {
			idx = append(idx, i)
		}
		if r.Bool() {
			idx = append(idx, r.Intn(nv)) // revisits a vertex
		}
	case "line-loop":
		topo = modeling.LineLoopTopology
		nv = r.Range(2, 6)
		for i := 0; i < nv; i++ {
			idx = append(idx, i)
		}
	default:
		topo = modeling.LineTopology
		nv = r.Range(2, 6)
		for i := 0; i+1 < nv; i++ {
			idx = append(idx, i, i+1)
		}
		if r.Bool() {
			idx = append(idx, 0, 1) // a repeated segment
		}
	}
	extra := 0
	if r.Chance(1, 3) {
		extra = r.Range(1, 2) // unreferenced vertices at the end
	}
	if r.Chance(1, 4) && topo == modeling.TriangleTopology {
		// an unreferenced vertex in front: shift everything by one
		for i := range idx {
			idx[i]++
		}
		nv++
	}
	nv += extra
	pos := Attr{Arity: 3, Name: "Position", Data: make([][]int64, nv)}
	id := Attr{Arity: 1, Name: "a", Data: make([][]int64, nv)}
	for v := 0; v < nv; v++ {
		pos.Data[v] = []int64{int64(r.Range(-20, 20)), int64(r.Range(-20, 20)), int64(r.Range(-20, 20))}
		id.Data[v] = []int64{int64(100 + v)}
	}
	d = Desc{Topo: int(topo), Idx: idx, Mats: []Mat{}, Attrs: []Attr{pos, id}}
	if r.Chance(1, 3) {
		nrm := Attr{Arity: 3, Name: "Normal", Data: make([][]int64, nv)}
		for v := range nrm.Data {
			nrm.Data[v] = []int64{int64(r.Range(-3, 3)), int64(r.Range(-3, 3)), int64(r.Range(1, 3))}
		}
		d.Attrs = append(d.Attrs, nrm)
	}
	return d, shape
}

// SurfaceOps: what is drawn first on a Surface mesh.
var SurfaceOps = []string{"laplacian", "laplacian", "laplacian_axis", "laplacian_axis", "smooth_normals", "flat_normals",
	"smooth_implicit", "scale_along_normal", "normalize3"}
