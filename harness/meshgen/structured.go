package meshgen

// Structured inputs for the index-remapping operations (weld, remove-unreferenced, remove-null-faces,
// filter, crop, split, unweld, append, set-indices): every combination of
//   - unreferenced vertices at the front / in the middle / at the back / several / none,
//   - degenerate primitives: none / some / all (repeated index, or two vertices at one position),
//   - well-separated integer coordinates (nothing merges by accident at any decimal place used:
//     consecutive vertices are >= 130 apart on x, rounding cells are at most 100 wide), optionally
//     placed on the boundaries of the rounding cells and on both sides of zero,
//   - every vertex carries an identifying scalar, so content taken from the wrong vertex shows.
// Plus meshes derived from a generator's triangle list (integer positions = 1000 x the generator's)
// from which SetIndices then selects a subset of the triangles.

import (
	"math"

	"github.com/EliCDavis/polyform/modeling"
	"github.com/EliCDavis/polyform/modeling/primitives"

	"verif/harness/hx"
)

// cell-boundary offsets for the rounding keys (decimal places 0, -1, -2: cells of width 1, 10, 100)
var boundaryJitter = []int64{-60, -51, -50, -49, -40, -15, -6, -5, -4, -1, 0, 1, 4, 5, 6, 15, 40, 49, 50, 51, 60}

// FocusOps: the operations that remap indices or select vertices.
var FocusOps = []string{"weld", "weld", "weld", "remove_unref", "remove_null", "filter", "split", "unweld", "append",
	"crop", "to_points", "flip", "set_indices", "slice"}

// Structured returns a well-formed mesh built to the recipe above; stray says where the
// unreferenced vertices are ("none","front","middle","back","several"), degen is "none","some","all".
func Structured(r *hx.Rng) (d Desc, stray, degen string) {
	stray = hx.Pick(r, []string{"none", "front", "front", "middle", "middle", "back", "several", "several"})
	degen = hx.Pick(r, []string{"none", "none", "none", "some", "some", "all"})
	topo := modeling.TriangleTopology
	switch r.Intn(10) {
	case 0, 1:
		topo = modeling.PointTopology
	case 2:
		topo = modeling.QuadTopology
	}
	isz := indexSize(topo)
	nref := r.Range(isz, isz+4) // referenced vertices
	// layout: true = referenced
	var layout []bool
	add := func(ref bool, n int) {
		for i := 0; i < n; i++ {
			layout = append(layout, ref)
		}
	}
	switch stray {
	case "none":
		add(true, nref)
	case "front":
		add(false, r.Range(1, 2))
		add(true, nref)
	case "back":
		add(true, nref)
		add(false, r.Range(1, 2))
	case "middle":
		k := r.Range(1, nref-1)
		add(true, k)
		add(false, r.Range(1, 2))
		add(true, nref-k)
	default:
		add(false, r.Intn(2))
		for i := 0; i < nref; i++ {
			add(true, 1)
			if r.Chance(1, 2) {
				add(false, 1)
			}
		}
		add(false, 1)
	}
	nv := len(layout)
	var refs []int
	for v, ref := range layout {
		if ref {
			refs = append(refs, v)
		}
	}
	// positions: vertex v at x = 250*(v - shift) + jitter, so both signs occur and zero is straddled
	shift := int64(r.Range(0, nv))
	onBoundary := r.Chance(1, 2)
	pos := Attr{Arity: 3, Name: "Position", Data: make([][]int64, nv)}
	for v := 0; v < nv; v++ {
		j := [3]int64{}
		for c := 0; c < 3; c++ {
			if onBoundary {
				j[c] = hx.Pick(r, boundaryJitter)
			} else {
				j[c] = int64(r.Range(-60, 60))
			}
		}
		pos.Data[v] = []int64{250*(int64(v)-shift) + j[0], j[1], 250*int64((v*3)%5-2) + j[2]}
	}
	id := Attr{Arity: 1, Name: "a", Data: make([][]int64, nv)}
	for v := range id.Data {
		id.Data[v] = []int64{int64(100 + v)}
	}
	d = Desc{Topo: int(topo), Idx: []int{}, Mats: []Mat{}, Attrs: []Attr{pos, id}}
	if r.Chance(1, 3) {
		uv := Attr{Arity: 2, Name: "TexCoord", Data: make([][]int64, nv)}
		for v := range uv.Data {
			uv.Data[v] = []int64{int64(2 * v), int64(-2 * v)}
		}
		d.Attrs = append(d.Attrs, uv)
	}
	if r.Chance(1, 4) {
		col := Attr{Arity: 4, Name: "Color", Data: make([][]int64, nv)}
		for v := range col.Data {
			col.Data[v] = []int64{int64(v), 1, int64(v * v), -1}
		}
		d.Attrs = append(d.Attrs, col)
	}
	// primitives: every referenced vertex occurs; corners of one primitive are distinct vertices
	np := r.Range(1, 6)
	if len(refs) > np*isz {
		np = (len(refs) + isz - 1) / isz
	}
	next := 0
	for p := 0; p < np; p++ {
		prim := make([]int, 0, isz)
		for len(prim) < isz {
			var v int
			if next < len(refs) {
				v = refs[next]
				next++
			} else {
				v = hx.Pick(r, refs)
			}
			dup := false
			for _, x := range prim {
				if x == v {
					dup = true
				}
			}
			if !dup || len(refs) < isz {
				prim = append(prim, v)
			}
		}
		d.Idx = append(d.Idx, prim...)
	}
	// degenerate primitives
	if topo != modeling.PointTopology && degen != "none" {
		for p := 0; p < np; p++ {
			if degen == "some" && p%2 == 1 {
				continue
			}
			if degen == "some" && np == 1 {
				// a single primitive cannot be "some": add a degenerate one behind it
				d.Idx = append(d.Idx, d.Idx[:isz]...)
				np++
				p = np - 1
			}
			a, b := d.Idx[p*isz], d.Idx[p*isz+1]
			if r.Bool() {
				d.Idx[p*isz+1] = a // repeated index
			} else {
				// two vertices at one position (and equal in every other attribute but the id)
				d.Attrs[0].Data[b] = append([]int64{}, d.Attrs[0].Data[a]...)
			}
		}
	}
	// materials: consistent ranges, often several
	if topo == modeling.TriangleTopology && r.Chance(1, 2) {
		d.Mats = randMats(r, len(d.Idx)/3)
	}
	return d, stray, degen
}

// FromGenerator: the triangle list of a small primitive with integer positions (1000 x the float
// positions, which keeps distinct vertices distinct and far apart) and an identifying scalar.
func FromGenerator(r *hx.Rng) (d Desc, name string) {
	var m modeling.Mesh
	switch r.Intn(5) {
	case 0:
		rows, cols := r.Range(2, 4), r.Range(3, 6)
		m, name = primitives.UVSphere(1, rows, cols), "uvsphere"
	case 1:
		m, name = primitives.Cube{Height: 1, Width: 1, Depth: 1}.Welded(), "cube"
	case 2:
		m, name = primitives.Cylinder{Sides: r.Range(3, 5), Height: 1, Radius: 1}.ToMesh(), "cylinder"
	case 3:
		m, name = primitives.Circle{Sides: r.Range(3, 7), Radius: 1}.ToMesh(), "circle"
	default:
		m, name = primitives.Hemisphere{Radius: 1}.UV(r.Range(2, 3), r.Range(3, 5)), "hemisphere"
	}
	ix := m.Indices()
	d = Desc{Topo: int(m.Topology()), Idx: make([]int, ix.Len()), Mats: []Mat{}, Attrs: []Attr{}}
	for i := range d.Idx {
		d.Idx[i] = ix.At(i)
	}
	p := m.Float3Attribute(modeling.PositionAttribute)
	pos := Attr{Arity: 3, Name: "Position", Data: make([][]int64, p.Len())}
	id := Attr{Arity: 1, Name: "a", Data: make([][]int64, p.Len())}
	for i := 0; i < p.Len(); i++ {
		v := p.At(i)
		pos.Data[i] = []int64{int64(math.Round(v.X() * 1000)), int64(math.Round(v.Y() * 1000)), int64(math.Round(v.Z() * 1000))}
		id.Data[i] = []int64{int64(100 + i)}
	}
	d.Attrs = []Attr{pos, id}
	return d, name
}

// SubselectOp: SetIndices with a subset of the mesh's own primitives (whole primitives, in order):
// drop a prefix (the cap of a sphere), a suffix, or a random subset.  Leaves unreferenced vertices
// behind without creating degenerate primitives.
func SubselectOp(r *hx.Rng, d Desc) OpDesc {
	isz := indexSize(modeling.Topology(d.Topo))
	if modeling.Topology(d.Topo) != modeling.TriangleTopology && modeling.Topology(d.Topo) != modeling.QuadTopology {
		isz = 1
	}
	np := len(d.Idx) / isz
	keep := make([]bool, np)
	switch r.Intn(3) {
	case 0: // drop a prefix
		k := 0
		if np > 0 {
			k = r.Range(1, (np+1)/2)
		}
		for p := k; p < np; p++ {
			keep[p] = true
		}
	case 1: // drop a suffix
		k := 0
		if np > 0 {
			k = r.Range(1, (np+1)/2)
		}
		for p := 0; p < np-k; p++ {
			keep[p] = true
		}
	default:
		for p := range keep {
			keep[p] = r.Chance(2, 3)
		}
	}
	o := OpDesc{Op: "set_indices", Idx: []int{}}
	for p := 0; p < np; p++ {
		if keep[p] {
			o.Idx = append(o.Idx, d.Idx[p*isz:(p+1)*isz]...)
		}
	}
	return o
}

// preferDecimal is a hint from the mesh source to the next weld drawn for it (99: none): a clustered
// mesh is built for one rounding-cell width and is mostly welded at exactly that decimal place.
var preferDecimal = 99

// Clustered: vertices that sit in the same or in ADJACENT rounding cells (cell width dv = 1, 10 or
// 100, i.e. decimal place 0, -1, -2), on both sides of zero, at the cell centres, just inside and
// exactly on the cell boundaries (+-0.4, +-0.49, +-0.5 of a cell).  Which vertices weld together, and
// which triangles collapse, then depends on every boundary decision of the rounding key.
func Clustered(r *hx.Rng) (d Desc, decimal int) {
	dv := hx.Pick(r, []int64{1, 10, 10, 100, 100})
	decimal = map[int64]int{1: 0, 10: -1, 100: -2}[dv]
	offs := []int64{0}
	switch dv {
	case 10:
		offs = []int64{-5, -4, -1, 0, 1, 4, 5}
	case 100:
		offs = []int64{-50, -49, -40, -1, 0, 1, 40, 49, 50}
	}
	lo, hi := -2, 1
	if r.Bool() {
		lo, hi = -1, 2
	}
	nv := r.Range(4, 9)
	pos := Attr{Arity: 3, Name: "Position", Data: make([][]int64, nv)}
	id := Attr{Arity: 1, Name: "a", Data: make([][]int64, nv)}
	// two of the three axes vary over very few cells, so that many vertices differ on one axis only
	narrow := r.Intn(3)
	for v := 0; v < nv; v++ {
		row := make([]int64, 3)
		for c := 0; c < 3; c++ {
			cell := int64(r.Range(lo, hi))
			if c != narrow && r.Chance(2, 3) {
				cell = 0
			}
			row[c] = cell*dv + hx.Pick(r, offs)
		}
		pos.Data[v] = row
		id.Data[v] = []int64{int64(100 + v)}
	}
	d = Desc{Topo: int(modeling.TriangleTopology), Idx: []int{}, Mats: []Mat{}, Attrs: []Attr{pos, id}}
	nref := nv
	if r.Chance(1, 3) {
		nref = r.Range(3, nv) // the last vertices stay unreferenced
	}
	order := r.Perm(nv)[:nref]
	nt := r.Range(1, 5)
	for t := 0; t < nt; t++ {
		p := r.Perm(nref)
		d.Idx = append(d.Idx, order[p[0]], order[p[1]], order[p[2]])
	}
	return d, decimal
}
