package meshgen

// Sizes past internal block limits (both properties).  The other streams use meshes of at most a few dozen
// vertices; an implementation that fans work out per block of N vertices / primitives behaves differently
// only above N.  Meshes of thousands of vertices cannot be handed to Coq as literals (nat indices are
// unary), so this stream uses a law that needs no second model: every operation below is LOCAL - it
// commutes with the disjoint union of meshes that are far apart -
//
//	op (S_0 + S_1 + ... + S_k)  =  op S_0 + op S_1 + ... + op S_k      (+ = disjoint union, indices offset)
//
// where S_j is one small tile shifted by j * 100000 along x, and the right-hand side is assembled by the
// harness from the implementation's results on the small tiles (the kind of call the other streams check
// against the Coq model; tile 0 is also emitted as an ordinary case).  The sizes are a ladder with one rung just
// above every power of two from 2^10 to 2^15 (2^17 in the thorough tier), tail of the vertex array referenced or not.
// C02 judges the big result with the harness copy of wfb; C03 compares it with the union, value by value.

import (
	"encoding/json"
	"fmt"
	"math"
	"strings"

	"github.com/EliCDavis/polyform/modeling"

	"verif/harness/hx"
)

const tileShift = 100000

// TileDesc is the replayable input of a "tile" case.
type TileDesc struct {
	Tile   Desc   `json:"tile"`
	Copies int    `json:"copies"`
	Rest   int    `json:"rest"` // a last tile made of the first Rest vertices of the tile, unreferenced
	Op     OpDesc `json:"op"`
}

// TileOps: the local operations.
var TileOps = []string{"unweld", "remove_unref", "remove_null", "flip", "to_points", "filter", "crop", "slice", "weld",
	"translate", "scale3", "scale2", "rotate", "apply_trs", "scale_along_normal",
	"smooth_normals", "flat_normals", "smooth_implicit", "laplacian", "laplacian_axis"}

// TileRungs: the ladder of vertex-count targets.  Internal block limits that do not exist yet are invented at
// powers of two: one rung just above each of 2^10 .. 2^15 in the quick tier, 2^16 and 2^17 in addition in the
// thorough tier.  Every local operation meets BOTH rungs >= 2^14 in every quick run, plus one lower rung that
// rotates with the seed; the thorough tier climbs the whole ladder.
var TileRungsLow = []int{1<<10 + 1, 1<<11 + 1, 1<<12 + 1, 1<<13 + 1}
var TileRungsHigh = []int{1<<14 + 1, 1<<15 + 1}
var TileRungsThorough = []int{1<<16 + 1, 1<<17 + 1}

func shifted(d Desc, j int) Desc {
	out := d
	out.Attrs = make([]Attr, len(d.Attrs))
	for i, a := range d.Attrs {
		b := Attr{Arity: a.Arity, Name: a.Name, Data: a.Data}
		if a.Arity == 3 {
			b.Data = make([][]int64, len(a.Data))
			for k, row := range a.Data {
				b.Data[k] = []int64{row[0] + int64(j)*tileShift, row[1], row[2]}
			}
		}
		out.Attrs[i] = b
	}
	return out
}

func restTile(d Desc, n int) Desc {
	out := Desc{Topo: d.Topo, Idx: []int{}, Mats: nil, Attrs: make([]Attr, len(d.Attrs))}
	for i, a := range d.Attrs {
		out.Attrs[i] = Attr{Arity: a.Arity, Name: a.Name, Data: a.Data[:n]}
	}
	return out
}

func (td TileDesc) tiles() []Desc {
	var ts []Desc
	for j := 0; j < td.Copies; j++ {
		ts = append(ts, shifted(td.Tile, j))
	}
	if td.Rest > 0 {
		ts = append(ts, shifted(restTile(td.Tile, td.Rest), td.Copies))
	}
	return ts
}

// union of descriptions (no materials)
func unionDesc(ts []Desc) Desc {
	u := Desc{Topo: ts[0].Topo, Idx: []int{}, Mats: nil}
	off := 0
	for _, a := range ts[0].Attrs {
		u.Attrs = append(u.Attrs, Attr{Arity: a.Arity, Name: a.Name, Data: [][]int64{}})
	}
	for _, t := range ts {
		for _, i := range t.Idx {
			u.Idx = append(u.Idx, i+off)
		}
		for k, a := range t.Attrs {
			u.Attrs[k].Data = append(u.Attrs[k].Data, a.Data...)
		}
		off += t.NVerts()
	}
	return u
}

// floatMesh: a mesh read through its accessors as float64 (no integrality requirement).
type floatMesh struct {
	topo  int
	idx   []int
	attrs map[string][]float64 // "arity|name" -> flattened values
	nv    int                  // Mesh.AttributeLength()
}

func readFloatMesh(m modeling.Mesh) floatMesh {
	s := takeSnap(m)
	f := floatMesh{topo: s.topo, idx: s.idx, attrs: map[string][]float64{}}
	for k, bits := range s.attrs {
		vals := make([]float64, len(bits))
		for i, b := range bits {
			vals[i] = math.Float64frombits(b)
		}
		f.attrs[k] = vals
	}
	func() {
		defer func() { recover() }()
		f.nv = m.AttributeLength()
	}()
	return f
}

func (f floatMesh) nverts() int { return f.nv }

// compareUnion: is `big` the disjoint union of `parts` (in order)?  "" when it is.
func compareUnion(big floatMesh, parts []floatMesh) string {
	if len(parts) == 0 {
		return ""
	}
	if big.topo != parts[0].topo {
		return fmt.Sprintf("topology %d, the tiles give %d", big.topo, parts[0].topo)
	}
	var idx []int
	attrs := map[string][]float64{}
	off := 0
	for _, p := range parts {
		for _, i := range p.idx {
			idx = append(idx, i+off)
		}
		for k, v := range p.attrs {
			attrs[k] = append(attrs[k], v...)
		}
		off += p.nverts()
	}
	if len(idx) != len(big.idx) {
		return fmt.Sprintf("%d indices, the tiles give %d", len(big.idx), len(idx))
	}
	for i := range idx {
		if idx[i] != big.idx[i] {
			return fmt.Sprintf("index %d is %d, the tiles give %d", i, big.idx[i], idx[i])
		}
	}
	for k, want := range attrs {
		got := big.attrs[k]
		if len(got) != len(want) {
			return fmt.Sprintf("attribute %s has %d numbers, the tiles give %d", k, len(got), len(want))
		}
		for i := range want {
			if !closeTo(got[i], want[i]) {
				ar := int(k[0] - '0')
				return fmt.Sprintf("attribute %s of vertex %d component %d is %v, the tiles give %v", k, i/ar, i%ar, got[i], want[i])
			}
		}
	}
	for k, got := range big.attrs {
		if _, ok := attrs[k]; !ok && len(got) > 0 {
			return fmt.Sprintf("attribute %s (%d numbers) does not come from any tile", k, len(got))
		}
	}
	return ""
}

// TileCase runs the operation on the big mesh and on every tile and compares.
func TileCase(td TileDesc) hx.Case {
	c := hx.Case{Kind: "tile", Desc: td}
	ts := td.tiles()
	bigDesc := unionDesc(ts)
	nv := bigDesc.NVerts()
	c.Coq = fmt.Sprintf("CNote %d%%N", nv)
	kb, _ := json.Marshal(td)
	c.Key = "tile|" + string(kb)
	bigOut, class, msg := Apply(td.Op, []modeling.Mesh{bigDesc.Mesh()})
	if class == "crash" {
		c.GoFail = fmt.Sprintf("%s on %d vertices / %d indices: runtime panic: %s", td.Op.Op, nv, len(bigDesc.Idx), msg)
		return c
	}
	// the tiles
	var parts [][]floatMesh
	for j, t := range ts {
		outs, cl, m2 := Apply(td.Op, []modeling.Mesh{t.Mesh()})
		if cl != class {
			if cl == "crash" {
				// a tile-sized failure is the business of the ordinary streams
				return c
			}
			c.GoFail = fmt.Sprintf("%s on %d vertices is %q but %q (%s) on tile %d", td.Op.Op, nv, class, cl, m2, j)
			return c
		}
		if class != "ok" {
			return c // declared on the big mesh and on the first tile alike
		}
		for o, m := range outs {
			if o >= len(parts) {
				parts = append(parts, nil)
			}
			parts[o] = append(parts[o], readFloatMesh(m))
		}
	}
	c.Nontriv = len(bigDesc.Idx) > 0
	for o, m := range bigOut {
		p, _ := ProjectWith(m, ProjectOpt{BlankVals: true})
		if !wfDesc(p) {
			c.GoFail = fmt.Sprintf("%s on %d vertices / %d indices: result %d is not well-formed (%d indices, %d vertices)", td.Op.Op, nv, len(bigDesc.Idx), o, len(p.Idx), p.NVerts())
			return c
		}
		if !ValueOracle || o >= len(parts) {
			continue
		}
		if diff := compareUnion(readFloatMesh(m), parts[o]); diff != "" {
			c.GoFail = fmt.Sprintf("%s on %d vertices / %d indices (%d tiles of %d vertices + %d): result %d: %s", td.Op.Op, nv, len(bigDesc.Idx), td.Copies, td.Tile.NVerts(), td.Rest, o, diff)
			return c
		}
	}
	return c
}

// tileFor draws a small tile that fits the operation; the topology rotates with `turn` over the ones the
// operation accepts.
func tileFor(r *hx.Rng, op string, turn int) Desc {
	topos := []modeling.Topology{modeling.TriangleTopology}
	switch op {
	case "crop":
		topos = []modeling.Topology{modeling.PointTopology}
	case "unweld", "remove_unref", "to_points", "filter", "translate", "scale3", "scale2", "rotate", "apply_trs", "scale_along_normal":
		topos = []modeling.Topology{modeling.TriangleTopology, modeling.PointTopology, modeling.QuadTopology, modeling.TriangleTopology, modeling.LineTopology}
	case "laplacian", "laplacian_axis":
		topos = []modeling.Topology{modeling.TriangleTopology, modeling.LineTopology, modeling.TriangleTopology} // (a line strip runs on into the next tile: not a disjoint union)
	}
	topo := topos[turn%len(topos)]
	for {
		d := Random(r, Options{Topo: int(topo), FixTopo: true, NeedPos: true, MaxVerts: 9, Materials: 1})
		if d.NVerts() < 3 || len(d.Idx) == 0 {
			continue
		}
		d.Mats = nil
		// the attributes the default operations look for
		have := map[string]bool{}
		for _, a := range d.Attrs {
			have[fmt.Sprint(a.Arity, a.Name)] = true
		}
		add := func(ar int, name string) {
			if have[fmt.Sprint(ar, name)] {
				return
			}
			a := Attr{Arity: ar, Name: name}
			for i := 0; i < d.NVerts(); i++ {
				a.Data = append(a.Data, randVec(r, ar, -6, 6))
			}
			d.Attrs = append(d.Attrs, a)
			have[fmt.Sprint(ar, name)] = true
		}
		switch op {
		case "scale_along_normal":
			add(3, "Normal")
		case "scale2":
			add(2, "TexCoord")
		}
		// any attribute mix at size: one more attribute of each arity, each half of the time
		if r.Bool() {
			add(1, "Opacity")
		}
		if r.Bool() {
			add(2, "TexCoord")
		}
		if r.Bool() {
			add(4, "Color")
		}
		if r.Bool() {
			add(3, "Normal")
		}
		return d
	}
}

// Tiles adds the systematic pass: every local operation at both high rungs and one rotating low rung (quick), at
// every rung (thorough); topologies rotate over the rungs; tile 0 of the first rung is also an ordinary case.
func Tiles(run *hx.Run, r *hx.Rng, thorough bool) {
	start := r.Intn(len(TileRungsLow))
	for k, op := range TileOps {
		rungs := []int{TileRungsLow[(start+k)%len(TileRungsLow)], TileRungsHigh[0], TileRungsHigh[1]}
		if thorough {
			rungs = append(append(append([]int{}, TileRungsLow...), TileRungsHigh...), TileRungsThorough...)
		}
		for ri, target := range rungs {
			if op == "smooth_implicit" && target > 1<<15+1 {
				continue // its neighbourhood search is quadratic in practice
			}
			tile := tileFor(r, op, start+k+ri)
			var o OpDesc
			for tries := 0; ; tries++ {
				o = RandomOp(r, tile, []string{op})
				if o.Op == op && (suitable(op, tile) || tries > 20) {
					break
				}
			}
			if vs, ok := opVariants[op]; ok {
				if strings.TrimSpace(o.Attr) == "" {
					o.Attr = o.attrName() // the Transformer's fallback attribute, spelled out
				}
				o.Variant = vs[(start+k+ri)%len(vs)] // function / Transformer / Mesh method / generic modifier rotate over the rungs
			}
			if (op == "laplacian" || op == "laplacian_axis") && o.Iter == 0 {
				o.Iter = 1
			}
			if op == "weld" && o.Decimal < -2 {
				o.Decimal = -2
			}
			nv := tile.NVerts()
			td := TileDesc{Tile: tile, Op: o}
			if (start+k+ri)%2 == 0 && op != "remove_null" { // (RemoveNullFaces3D returns its input untouched when no face goes: not local for stray vertices)
				// the tail of the vertex array is unreferenced
				td.Copies, td.Rest = target/nv, target%nv
			} else {
				// the tail is referenced: the first multiple of the tile size at or above the target
				td.Copies = (target + nv - 1) / nv
			}
			run.Count("tile:op:" + op)
			run.Count(fmt.Sprintf("tile:rung:%d", target))
			run.Count("tile:topology:" + topoCoq[modeling.Topology(tile.Topo)])
			run.Add(TileCase(td))
			if ri == 0 {
				// tile 0 as an ordinary case (checked against the Coq model)
				sd := StepDesc{Ins: []Desc{tile}, Op: o}
				if IsFrameOp(op) {
					run.Add(FrameCase(sd))
				} else {
					c0, _, _ := OpCase(sd)
					run.Add(c0)
				}
			}
		}
	}
}

// ReplayTile re-runs a stored tile case.
func ReplayTile(run *hx.Run, raw json.RawMessage) bool {
	var td TileDesc
	if json.Unmarshal(raw, &td) != nil {
		return false
	}
	run.Add(TileCase(td))
	return true
}
