package meshgen

// Retained results (both properties).  Chain() rebuilds the input of every step from a value projection
// (Desc.Mesh()), so it can never see an operation that spoils a mesh it returned EARLIER (or one of its
// inputs) through shared backing arrays.  This stream keeps the real modeling.Mesh values of a BRANCHING
// history - several operations applied to the same base, results fed on - and re-reads every retained
// value after every later operation:
//
//	C02: a mesh that was well-formed when it was returned is still well-formed,
//	C03: it still has exactly the content it was returned with.
//
// The initial meshes are built with spare capacity behind their index / attribute / material slices (what
// slices grown with append look like); results carry whatever capacity the implementation gave them.
// One case per retained value: "CKeep was now" (was: read when the value entered the pool; now: read after
// the first later operation that changed it, else after the last operation).

import (
	"encoding/json"
	"fmt"
	"math"

	"github.com/EliCDavis/polyform/modeling"
	"github.com/EliCDavis/vector/vector2"
	"github.com/EliCDavis/vector/vector3"
	"github.com/EliCDavis/vector/vector4"

	"verif/harness/hx"
)

type PStep struct {
	Op   OpDesc `json:"op"`
	Args []int  `json:"args"` // pool positions of the arguments
}

// PersistDesc is the replayable input of a "keep" case.
type PersistDesc struct {
	Init  []Desc  `json:"init"`
	Spare []int   `json:"spare"` // spare capacity behind the slices of each initial mesh
	Steps []PStep `json:"steps"`
	Watch int     `json:"watch"` // pool position of the retained value this case observes
}

// MeshSpare is Mesh() with `spare` unused elements of capacity behind every slice.
func (d Desc) MeshSpare(spare int) modeling.Mesh {
	sc := math.Ldexp(1, -d.Exp)
	idx := make([]int, len(d.Idx), len(d.Idx)+spare)
	copy(idx, d.Idx)
	m := modeling.NewMesh(modeling.Topology(d.Topo), idx)
	v1 := map[string][]float64{}
	v2 := map[string][]vector2.Float64{}
	v3 := map[string][]vector3.Float64{}
	v4 := map[string][]vector4.Float64{}
	for _, a := range d.Attrs {
		n := len(a.Data)
		switch a.Arity {
		case 1:
			x := make([]float64, n, n+spare)
			for i, v := range a.Data {
				x[i] = float64(v[0]) * sc
			}
			v1[a.Name] = x
		case 2:
			x := make([]vector2.Float64, n, n+spare)
			for i, v := range a.Data {
				x[i] = vector2.New(float64(v[0])*sc, float64(v[1])*sc)
			}
			v2[a.Name] = x
		case 3:
			x := make([]vector3.Float64, n, n+spare)
			for i, v := range a.Data {
				x[i] = vector3.New(float64(v[0])*sc, float64(v[1])*sc, float64(v[2])*sc)
			}
			v3[a.Name] = x
		case 4:
			x := make([]vector4.Float64, n, n+spare)
			for i, v := range a.Data {
				x[i] = vector4.New(float64(v[0])*sc, float64(v[1])*sc, float64(v[2])*sc, float64(v[3])*sc)
			}
			v4[a.Name] = x
		}
	}
	m = m.SetFloat1Data(v1).SetFloat2Data(v2).SetFloat3Data(v3).SetFloat4Data(v4)
	if d.Mats != nil {
		ms := make([]modeling.MeshMaterial, len(d.Mats), len(d.Mats)+spare)
		for i, x := range d.Mats {
			ms[i] = modeling.MeshMaterial{PrimitiveCount: x.Count, Material: Material(x.ID)}
		}
		m = m.SetMaterials(ms)
	}
	return m
}

// rawSnap: everything the accessors return, bit for bit.
type rawSnap struct {
	topo  int
	idx   []int
	mats  []Mat
	attrs map[string][]uint64
}

func takeSnap(m modeling.Mesh) (s rawSnap) {
	defer func() {
		if rec := recover(); rec != nil { // an accessor that panics on a spoiled mesh: a snapshot unlike any other
			s.topo = -1
		}
	}()
	s = rawSnap{topo: int(m.Topology()), attrs: map[string][]uint64{}}
	ix := m.Indices()
	for i := 0; i < ix.Len(); i++ {
		s.idx = append(s.idx, ix.At(i))
	}
	for _, mm := range m.Materials() {
		s.mats = append(s.mats, Mat{Count: mm.PrimitiveCount, ID: matID(mm.Material)})
	}
	for _, n := range m.Float4Attributes() {
		it := m.Float4Attribute(n)
		var b []uint64
		for i := 0; i < it.Len(); i++ {
			v := it.At(i)
			b = append(b, math.Float64bits(v.X()), math.Float64bits(v.Y()), math.Float64bits(v.Z()), math.Float64bits(v.W()))
		}
		s.attrs["4|"+n] = b
	}
	for _, n := range m.Float3Attributes() {
		it := m.Float3Attribute(n)
		var b []uint64
		for i := 0; i < it.Len(); i++ {
			v := it.At(i)
			b = append(b, math.Float64bits(v.X()), math.Float64bits(v.Y()), math.Float64bits(v.Z()))
		}
		s.attrs["3|"+n] = b
	}
	for _, n := range m.Float2Attributes() {
		it := m.Float2Attribute(n)
		var b []uint64
		for i := 0; i < it.Len(); i++ {
			v := it.At(i)
			b = append(b, math.Float64bits(v.X()), math.Float64bits(v.Y()))
		}
		s.attrs["2|"+n] = b
	}
	for _, n := range m.Float1Attributes() {
		it := m.Float1Attribute(n)
		var b []uint64
		for i := 0; i < it.Len(); i++ {
			b = append(b, math.Float64bits(it.At(i)))
		}
		s.attrs["1|"+n] = b
	}
	return s
}

func (a rawSnap) equal(b rawSnap) bool {
	if a.topo != b.topo || len(a.idx) != len(b.idx) || len(a.mats) != len(b.mats) || len(a.attrs) != len(b.attrs) {
		return false
	}
	for i := range a.idx {
		if a.idx[i] != b.idx[i] {
			return false
		}
	}
	for i := range a.mats {
		if a.mats[i] != b.mats[i] {
			return false
		}
	}
	for k, x := range a.attrs {
		y, ok := b.attrs[k]
		if !ok || len(x) != len(y) {
			return false
		}
		for i := range x {
			if x[i] != y[i] {
				return false
			}
		}
	}
	return true
}

// projectAny: the exact projection when every value is an integer, else lengths only.
func projectAny(m modeling.Mesh) (d Desc, exact bool) {
	defer func() {
		if rec := recover(); rec != nil {
			d, exact = Desc{Topo: int(modeling.TriangleTopology), Idx: []int{7}, Mats: []Mat{}, Attrs: []Attr{}}, false // unreadable: an ill-formed stand-in
		}
	}()
	p, err := ProjectWith(m, ProjectOpt{})
	if err == nil {
		return p, true
	}
	p, _ = ProjectWith(m, ProjectOpt{BlankVals: true})
	return p, false
}

type pent struct {
	m         modeling.Mesh
	snap      rawSnap
	was       Desc
	exact     bool
	born      int // number of steps executed before the value entered the pool
	changedAt int // first later step after which the value read differently (-1: never)
	now       Desc
	nowExact  bool
	later     int // later steps that returned a mesh
}

// execPersist runs the history on real values, re-reading every retained value after every step.
func execPersist(pd PersistDesc) []*pent {
	var pool []*pent
	add := func(m modeling.Mesh, born int) {
		was, exact := projectAny(m)
		pool = append(pool, &pent{m: m, snap: takeSnap(m), was: was, exact: exact, born: born, changedAt: -1})
	}
	for i, d := range pd.Init {
		sp := 0
		if i < len(pd.Spare) {
			sp = pd.Spare[i]
		}
		add(d.MeshSpare(sp), 0)
	}
	for s, st := range pd.Steps {
		ins := make([]modeling.Mesh, 0, len(st.Args))
		okArgs := true
		for _, a := range st.Args {
			if a < 0 || a >= len(pool) {
				okArgs = false
				break
			}
			ins = append(ins, pool[a].m)
		}
		if !okArgs || len(ins) == 0 {
			continue
		}
		before := len(pool)
		outs, class, _ := Apply(st.Op, ins)
		// re-read everything that existed before this step
		for _, e := range pool[:before] {
			if e.changedAt == -1 && !e.snap.equal(takeSnap(e.m)) {
				e.changedAt = s
				e.now, e.nowExact = projectAny(e.m)
			}
			if class == "ok" {
				e.later++
			}
		}
		if class == "ok" {
			for _, m := range outs {
				add(m, s+1)
			}
		}
	}
	for _, e := range pool {
		if e.changedAt == -1 {
			e.now, e.nowExact = projectAny(e.m) // an independent second read
		}
	}
	return pool
}

func blanked(d Desc) Desc {
	out := d
	out.Attrs = make([]Attr, len(d.Attrs))
	for i, a := range d.Attrs {
		n := a.Blank
		if a.Data != nil {
			n = len(a.Data)
		}
		out.Attrs[i] = Attr{Arity: a.Arity, Name: a.Name, Blank: n}
	}
	return out
}

// keepCase renders the observation of pool entry w.
func keepCase(pd PersistDesc, pool []*pent, w int) hx.Case {
	pd.Watch = w
	c := hx.Case{Kind: "keep", Desc: pd}
	e := pool[w]
	was, now := e.was, e.now
	if !(e.exact && e.nowExact) { // float-valued content: Coq sees the shape, the bitwise comparison is reported here
		was, now = blanked(was), blanked(now)
	}
	names := NewNames()
	names.AddDesc(was, now)
	names.Freeze()
	c.Coq = fmt.Sprintf("CKeep %s\n    %s", was.Coq(names), now.Coq(names))
	if e.changedAt >= 0 {
		st := pd.Steps[e.changedAt]
		msg := fmt.Sprintf("the mesh at pool position %d (returned after %d operations) reads differently after operation %d (%s on pool positions %v)",
			w, e.born, e.changedAt, st.Op.Op, st.Args)
		if ValueOracle {
			c.GoFail = msg // C03: content (bitwise); the Coq case shows the difference when the values are integers
		}
		// C02: Coq alone decides whether the value is still well-formed
	}
	kb, _ := json.Marshal(pd)
	c.Key = "keep|" + string(kb)
	c.Nontriv = len(e.was.Idx) > 0 && e.later > 0
	return c
}

// persistKinds: operations of a retained-value history (every exact and float-valued operation; the ones
// that build new arrays on top of their receiver's are drawn more often)
func persistKinds(kinds []string) []string {
	out := append([]string{}, kinds...)
	return append(out, "append", "append", "append", "append", "repeat", "set_attr", "set_indices", "set_materials",
		"translate", "scale3", "rotate", "apply_trs", "weld", "unweld", "remove_unref", "flip", "to_points", "slice")
}

// Persist generates one branching history and adds one "keep" case per retained value that saw a later operation.
func Persist(run *hx.Run, r *hx.Rng, kinds []string) {
	var base Desc
	switch r.Intn(4) {
	case 0:
		base, _, _ = Structured(r)
		run.Count("keep:source:structured")
	case 1:
		base, _ = FromGenerator(r)
		run.Count("keep:source:generator")
	default:
		base = Random(r, Options{})
		run.Count("keep:source:random")
	}
	pd := PersistDesc{Init: []Desc{base}}
	for i := r.Range(1, 2); i > 0; i-- {
		pd.Init = append(pd.Init, Random(r, Options{Topo: base.Topo, FixTopo: true}))
	}
	for range pd.Init {
		pd.Spare = append(pd.Spare, hx.Pick(r, []int{0, 1, 3, 8, 16, 24, 64, 64}))
	}
	kinds = persistKinds(kinds)
	nsteps := r.Range(3, 7)
	// siblings: results that share backing arrays with one receiver spoil EACH OTHER only when the same kind of
	// call is made twice on that receiver (r1 := base.Append(x); r2 := base.Append(y)).  Half of the histories
	// start with 2-4 calls of one operation on the base, with fresh parameters / partners of different sizes
	// (small first or big first), on slices with room to grow into.
	siblingOp := ""
	siblings := 0
	ascending := r.Bool()
	if r.Bool() {
		siblingOp = hx.Pick(r, []string{"append", "append", "append", "append", "append", "append", "repeat", "weld", "set_attr", "set_indices", "translate", "scale3", "rotate",
			"apply_trs", "unweld", "remove_unref", "filter", "slice", "flip", "set_materials", "scale_along_normal"})
		siblings = r.Range(2, 4)
		pd.Init = pd.Init[:1]
		pd.Spare = []int{hx.Pick(r, []int{8, 16, 24, 64, 64})}
		for i := 0; i < 3; i++ { // partners from small to big
			pd.Init = append(pd.Init, Random(r, Options{Topo: base.Topo, FixTopo: true, MaxVerts: 3 + 5*i, MaxPrims: 1 + 3*i}))
			pd.Spare = append(pd.Spare, hx.Pick(r, []int{0, 8, 64}))
		}
		if siblingOp == "append" {
			// sibling appends: the earlier partner tiny (its result has few vertices), later ones bigger with
			// permuted indices, room for all of them behind the base's slices, mostly small -> big
			pd.Spare[0] = 64
			ascending = !r.Chance(1, 4)
			siblings = 3
			for i := 1; i <= 3; i++ {
				for tries := 0; tries < 8 && (len(pd.Init[i].Idx) == 0 || pd.Init[i].NVerts() < 1+3*(i-1)); tries++ {
					pd.Init[i] = Random(r, Options{Topo: base.Topo, FixTopo: true, MaxVerts: 3 + 5*(i-1), MaxPrims: 1 + 3*(i-1)})
				}
			}
		}
		if nsteps < siblings+1 {
			nsteps = siblings + 1
		}
		run.Count("keep:siblings:" + siblingOp)
	}
	for s := 0; s < nsteps; s++ {
		pool := execPersist(pd) // deterministic: the prefix executed so far
		// the receiver: mostly the base or another value that was already used (branching), else the latest
		var ai int
		switch r.Intn(4) {
		case 0, 1:
			ai = 0
		case 2:
			ai = r.Intn(len(pool))
		default:
			ai = len(pool) - 1
		}
		if !pool[ai].exact {
			ai = 0
		}
		stepKinds := kinds
		if s < siblings {
			ai, stepKinds = 0, []string{siblingOp}
		}
		d := pool[ai].was
		var o OpDesc
		for tries := 0; tries < 20; tries++ {
			o = RandomOp(r, d, stepKinds)
			if suitable(o.Op, d) {
				break
			}
			o = OpDesc{Op: "unweld"}
		}
		st := PStep{Op: o, Args: []int{ai}}
		if o.Op == "append" {
			// the partner: an initial partner mesh, any retained value, or the receiver itself
			bi := r.Intn(len(pool))
			if (r.Chance(1, 2) || s < siblings) && len(pd.Init) > 1 {
				bi = r.Range(1, len(pd.Init)-1)
			}
			if s < siblings && ascending && s+1 < len(pd.Init) {
				bi = s + 1 // sibling appends with partners from small to big: the later, bigger one grows over the earlier
			}
			st.Args = []int{ai, bi}
		}
		run.Count("keep:op:" + o.Op)
		pd.Steps = append(pd.Steps, st)
	}
	pool := execPersist(pd)
	for w, e := range pool {
		if e.born >= len(pd.Steps) {
			continue // nothing ran after it
		}
		c := keepCase(pd, pool, w)
		if e.changedAt >= 0 {
			run.Count("keep:changed")
		}
		run.Count("keep:observed")
		run.Add(c)
	}
}

// ReplayKeep re-runs a stored history and re-emits the watched observation.
func ReplayKeep(run *hx.Run, raw json.RawMessage) bool {
	var pd PersistDesc
	if json.Unmarshal(raw, &pd) != nil {
		return false
	}
	pool := execPersist(pd)
	if pd.Watch < 0 || pd.Watch >= len(pool) {
		return false
	}
	run.Add(keepCase(pd, pool, pd.Watch))
	return true
}
