package meshgen

import (
	"encoding/json"
	"fmt"
	"math"
	"sort"
	"strings"

	"github.com/EliCDavis/polyform/modeling"
	"github.com/EliCDavis/polyform/modeling/meshops"

	"verif/harness/hx"
)

// ValueOracle: compare the float values of the frame operations with the independent computation
// (property C03).  C02 is about well-formedness only and switches it off.
var ValueOracle = true

// frameScales: Desc.Exp values for the float-valued operations (mesh = integers x 2^-Exp): unit shapes
// authored in units of 2^-40 (about 1e-12) up to 2^20 (about 1e6)
var frameScales = []int{40, 30, 20, 17, 10, 5, -5, -10, -20}

// StepDesc is the replayable input of one "op" / "frame" case: the projected input meshes and the call.
type StepDesc struct {
	Ins []Desc `json:"ins"`
	Op  OpDesc `json:"op"`
}

// LawDesc is the replayable input of one "law" case (a composition law on one mesh).
type LawDesc struct {
	Law     string `json:"law"` // flipflip unweld2 rmunref2 weldunweld
	In      Desc   `json:"in"`
	Attr    string `json:"attr,omitempty"`
	Decimal int    `json:"decimal,omitempty"`
}

func resCoq(class string, outs []Desc, n *Names) string {
	switch class {
	case "ok":
		return "(Ok " + CoqMeshes(outs, n) + ")"
	case "declared":
		return "Declared"
	}
	return "Crash"
}

func maxAbs(d Desc) int64 {
	var m int64
	for _, a := range d.Attrs {
		for _, row := range a.Data {
			for _, x := range row {
				if x < 0 {
					x = -x
				}
				if x > m {
					m = x
				}
			}
		}
	}
	return m
}

// structural keys of the candidate findings (see notes/C02.md, notes/C03.md): set on exactly the
// inputs that exercise them, whether or not the case fails
func failKey(sd StepDesc) string {
	d := sd.Ins[0]
	topo := modeling.Topology(d.Topo)
	o := sd.Op
	switch o.Op {
	case "filter":
		if (topo == modeling.TriangleTopology || topo == modeling.QuadTopology) && d.Has(o.Arity, o.Attr) {
			isz := indexSize(topo)
			var data [][]int64
			for _, a := range d.Attrs {
				if a.Arity == o.Arity && a.Name == o.Attr {
					data = a.Data
				}
			}
			for p := 0; p+isz <= len(d.Idx); p += isz {
				pass := 0
				for k := 0; k < isz; k++ {
					row := data[d.Idx[p+k]]
					fs := make([]float64, len(row))
					for i, x := range row {
						fs[i] = float64(x)
					}
					if o.pred(fs) {
						pass++
					}
				}
				if pass != 0 && pass != isz {
					return "filter:partial-primitive"
				}
			}
		}
	case "split":
		if topo == modeling.TriangleTopology && len(d.Mats) >= 2 {
			total := 0
			for _, m := range d.Mats {
				total += m.Count
			}
			if total < len(d.Idx)/3 {
				return "split:material-counts-short"
			}
			for i, m := range d.Mats {
				if m.Count == 0 && i+1 < len(d.Mats) {
					return "split:empty-range"
				}
			}
		}
	case "crop":
		if topo == modeling.PointTopology && d.Has(3, o.attrName()) {
			ident := len(d.Idx) == d.NVerts()
			for i, x := range d.Idx {
				if x != i {
					ident = false
				}
			}
			if !ident {
				return "crop:non-identity-indices"
			}
		}
	case "slice":
		if topo != modeling.TriangleTopology && d.Has(3, o.attrName()) {
			return "slice:non-triangle-topology"
		}
		if topo == modeling.TriangleTopology && !d.Has(3, o.attrName()) && o.Variant != "t" && len(d.Idx) >= 3 {
			return "slice:missing-attribute"
		}
	case "laplacian", "laplacian_axis":
		if d.Has(3, o.attrName()) && o.Iter > 0 {
			if topo == modeling.LineLoopTopology && len(d.Idx) == 0 {
				return "laplacian:empty-line-loop"
			}
			used := map[int]bool{}
			for _, x := range d.Idx {
				used[x] = true
			}
			if len(used) < d.NVerts() {
				return "laplacian:isolated-vertex"
			}
		}
	}
	return ""
}

// OpCase runs one exact operation and renders the observation as "COp op ins out".
func OpCase(sd StepDesc) (c hx.Case, outs []Desc, class string) {
	names := NewNames()
	names.AddDesc(sd.Ins...)
	sd.Op.RegisterNames(names)
	ins := make([]modeling.Mesh, len(sd.Ins))
	for i, d := range sd.Ins {
		ins[i] = d.Mesh()
	}
	sd.Op.Exp = sd.Ins[0].Exp
	res, class, msg := Apply(sd.Op, ins)
	c = hx.Case{Kind: "op", Desc: sd, FailKey: failKey(sd)}
	for _, m := range res {
		p, err := ProjectWith(m, ProjectOpt{Exp: sd.Ins[0].Exp})
		if err != nil {
			c.GoFail = "exact operation " + sd.Op.Op + " returned a value outside the exact domain: " + err.Error()
		}
		outs = append(outs, p)
	}
	names.AddDesc(outs...)
	names.Freeze()
	c.Coq = fmt.Sprintf("COp %s %s %s", sd.Op.Coq(names), CoqMeshes(sd.Ins, names), resCoq(class, outs, names))
	if class == "crash" {
		c.GoFail = "runtime panic: " + msg
	}
	kb, _ := json.Marshal(sd)
	c.Key = "op|" + string(kb)
	c.Nontriv = class == "ok" && len(sd.Ins[0].Idx) > 0 && len(sd.Ins[0].Attrs) > 0
	return c, outs, class
}

func closeTo(a, b float64) bool {
	if math.IsNaN(a) || math.IsNaN(b) {
		return math.IsNaN(a) && math.IsNaN(b)
	}
	return math.Abs(a-b) <= 1e-9*(1+math.Abs(b))
}

func attrData(d Desc, arity int, name string) [][]int64 {
	for _, a := range d.Attrs {
		if a.Arity == arity && a.Name == name {
			return a.Data
		}
	}
	return nil
}

func crossI(a, b, c []int64) [3]float64 { // (b-a) x (c-a), exact in int64 then converted
	u := [3]int64{b[0] - a[0], b[1] - a[1], b[2] - a[2]}
	v := [3]int64{c[0] - a[0], c[1] - a[1], c[2] - a[2]}
	return [3]float64{float64(u[1]*v[2] - u[2]*v[1]), float64(u[2]*v[0] - u[0]*v[2]), float64(u[0]*v[1] - u[1]*v[0])}
}

func normalize(v [3]float64) [3]float64 {
	l := math.Sqrt(v[0]*v[0] + v[1]*v[1] + v[2]*v[2])
	return [3]float64{v[0] / l, v[1] / l, v[2] / l}
}

// expectedValues is an independent float64 computation of the stated pointwise map of a frame op
// (nil: no value check for this input).
func expectedValues(sd StepDesc) [][]float64 {
	d := sd.Ins[0]
	o := sd.Op
	switch o.Op {
	case "normalize3", "normalize2":
		ar := 3
		if o.Op == "normalize2" {
			ar = 2
		}
		data := attrData(d, ar, o.attrName())
		maxLen := 0.0
		for _, row := range data {
			s := 0.0
			for _, x := range row {
				s += float64(x) * float64(x)
			}
			maxLen = math.Max(maxLen, math.Sqrt(s))
		}
		if maxLen == 0 {
			return nil // 0/0: the map is undefined on the all-zero attribute
		}
		out := make([][]float64, len(data))
		for i, row := range data {
			out[i] = make([]float64, ar)
			for k, x := range row {
				out[i][k] = float64(x) / maxLen
			}
		}
		return out
	case "scale_along_normal":
		a2 := o.Attr2
		if o.Variant == "t" && a2 == "" {
			a2 = "Normal"
		}
		p, n := attrData(d, 3, o.attrName()), attrData(d, 3, a2)
		out := make([][]float64, len(p))
		for i := range p {
			out[i] = []float64{float64(p[i][0] + n[i][0]*o.PT), float64(p[i][1] + n[i][1]*o.PT), float64(p[i][2] + n[i][2]*o.PT)}
		}
		return out
	case "smooth_normals", "smooth_implicit":
		pos := attrData(d, 3, "Position")
		sum := make([][3]float64, len(pos))
		same := func(a, b []int64) bool { return a[0] == b[0] && a[1] == b[1] && a[2] == b[2] }
		for t := 0; t+2 < len(d.Idx); t += 3 {
			c := crossI(pos[d.Idx[t]], pos[d.Idx[t+1]], pos[d.Idx[t+2]])
			for k := 0; k < 3; k++ {
				p := d.Idx[t+k]
				if o.Op == "smooth_normals" {
					for j := 0; j < 3; j++ {
						sum[p][j] += c[j]
					}
				} else {
					for w := range pos { // every vertex at the same position receives the face normal
						if same(pos[w], pos[p]) {
							for j := 0; j < 3; j++ {
								sum[w][j] += c[j]
							}
						}
					}
				}
			}
		}
		out := make([][]float64, len(pos))
		for i, s := range sum {
			if s == [3]float64{} {
				out[i] = []float64{0, 0, 0}
			} else {
				n := normalize(s)
				out[i] = n[:]
			}
		}
		return out
	case "flat_normals":
		pos := attrData(d, 3, "Position")
		out := make([][]float64, len(pos))
		for i := range out {
			n := normalize([3]float64{1, 1, 1})
			out[i] = n[:]
		}
		for t := 0; t+2 < len(d.Idx); t += 3 { // a shared vertex keeps the normal of the last face that uses it
			n := normalize(crossI(pos[d.Idx[t]], pos[d.Idx[t+1]], pos[d.Idx[t+2]]))
			for k := 0; k < 3; k++ {
				out[d.Idx[t+k]] = []float64{n[0], n[1], n[2]}
			}
		}
		return out
	case "laplacian", "laplacian_axis":
		pos := attrData(d, 3, o.attrName())
		topo := modeling.Topology(d.Topo)
		nb := make([]map[int]bool, len(pos))
		link := func(a, b int) {
			if nb[a] == nil {
				nb[a] = map[int]bool{}
			}
			if nb[b] == nil {
				nb[b] = map[int]bool{}
			}
			nb[a][b], nb[b][a] = true, true
		}
		switch topo {
		case modeling.TriangleTopology:
			for t := 0; t+2 < len(d.Idx); t += 3 {
				link(d.Idx[t], d.Idx[t+1])
				link(d.Idx[t+1], d.Idx[t+2])
				link(d.Idx[t], d.Idx[t+2])
			}
		case modeling.LineStripTopology:
			for i := 1; i < len(d.Idx); i++ {
				link(d.Idx[i-1], d.Idx[i])
			}
		case modeling.LineTopology:
			for i := 1; i < len(d.Idx); i += 2 {
				link(d.Idx[i-1], d.Idx[i])
			}
		case modeling.LineLoopTopology:
			for i := 1; i < len(d.Idx); i++ {
				link(d.Idx[i-1], d.Idx[i])
			}
			if len(d.Idx) > 0 {
				link(d.Idx[0], d.Idx[len(d.Idx)-1])
			}
		}
		cur := make([][]float64, len(pos))
		for i, p := range pos {
			cur[i] = []float64{float64(p[0]), float64(p[1]), float64(p[2])}
		}
		for it := 0; it < o.Iter; it++ {
			for vi := range cur {
				if len(nb[vi]) == 0 {
					continue // a vertex without neighbours stays where it is
				}
				ns := make([]int, 0, len(nb[vi]))
				for n := range nb[vi] {
					ns = append(ns, n)
				}
				sort.Ints(ns)
				var s [3]float64
				for _, n := range ns {
					for k := 0; k < 3; k++ {
						s[k] += cur[n][k]
					}
				}
				ax := [3]float64{1, 1, 1}
				if o.Op == "laplacian_axis" { // LaplacianSmoothAlongAxis: the step is multiplied by |axis| / ||axis||
					l := math.Sqrt(float64(o.V[0]*o.V[0] + o.V[1]*o.V[1] + o.V[2]*o.V[2]))
					ax = [3]float64{math.Abs(float64(o.V[0])) / l, math.Abs(float64(o.V[1])) / l, math.Abs(float64(o.V[2])) / l}
				}
				for k := 0; k < 3; k++ {
					cur[vi][k] = cur[vi][k] + (s[k]/float64(len(ns))-cur[vi][k])*o.Factor*ax[k]
				}
			}
		}
		return cur
	}
	return nil
}

// FrameCase runs one float-valued single-attribute transform: Coq checks the frame (everything
// but the target attribute untouched, target length), the values are compared here within 1e-9.
func FrameCase(sd StepDesc) hx.Case {
	names := NewNames()
	names.AddDesc(sd.Ins...)
	sd.Op.RegisterNames(names)
	names.Freeze()
	term, tAr, tName := sd.Op.FrameCoq(names)
	// scale: the Go mesh holds the integers x 2^-Exp (exact); the reference is computed from the
	// integers and mapped by the operation's scaling law: normals and normalise are scale-invariant,
	// Laplacian and scale-along-normal are linear.  Multiplying by a power of two is exact, so the
	// comparison got x 2^Exp ~ want (linear) resp. got ~ want (invariant) is a RELATIVE 1e-9 test.
	exp := sd.Ins[0].Exp
	sd.Op.Exp = exp
	unscale := 1.0
	switch sd.Op.Op {
	case "laplacian", "laplacian_axis", "scale_along_normal":
		unscale = math.Ldexp(1, exp)
	}
	in := sd.Ins[0].Mesh()
	res, class, msg := Apply(sd.Op, []modeling.Mesh{in})
	c := hx.Case{Kind: "frame", Desc: sd, FailKey: failKey(sd)}
	klen := "None"
	var outs []Desc
	if class == "ok" {
		m := res[0]
		p, err := ProjectWith(m, ProjectOpt{Skip: map[[2]string]bool{{fmt.Sprint(tAr), tName}: true}, Exp: exp})
		if err != nil {
			c.GoFail = "an attribute other than the target changed to a non-integer value: " + err.Error()
		}
		outs = []Desc{p}
		var got [][]float64
		present := false
		if tAr == 3 && m.HasFloat3Attribute(tName) {
			present = true
			it := m.Float3Attribute(tName)
			for i := 0; i < it.Len(); i++ {
				v := it.At(i)
				got = append(got, []float64{v.X(), v.Y(), v.Z()})
			}
		} else if tAr == 2 && m.HasFloat2Attribute(tName) {
			present = true
			it := m.Float2Attribute(tName)
			for i := 0; i < it.Len(); i++ {
				v := it.At(i)
				got = append(got, []float64{v.X(), v.Y()})
			}
		}
		if present {
			klen = fmt.Sprintf("(Some %d%%nat)", len(got))
		}
		if want := expectedValues(sd); ValueOracle && want != nil && present && c.GoFail == "" {
			if len(want) != len(got) {
				c.GoFail = fmt.Sprintf("%s: %d values, expected %d", sd.Op.Op, len(got), len(want))
			} else {
			outer:
				for i := range want {
					for k := range want[i] {
						if !closeTo(got[i][k]*unscale, want[i][k]) {
							c.GoFail = fmt.Sprintf("%s at scale 2^%d: value %d component %d is %v (x 2^%d = %v), the stated map on the integer mesh gives %v",
								sd.Op.Op, -exp, i, k, got[i][k], exp, got[i][k]*unscale, want[i][k])
							break outer
						}
					}
				}
			}
		}
	}
	if class == "crash" {
		c.GoFail = "runtime panic: " + msg
	}
	// the frame check needs the names of the output too (they are a subset of the input's + target)
	c.Coq = fmt.Sprintf("CFrame %s %s %s %s", term, sd.Ins[0].Coq(names), resCoq(class, outs, names), klen)
	kb, _ := json.Marshal(sd)
	c.Key = "frame|" + string(kb)
	c.Nontriv = class == "ok" && len(sd.Ins[0].Idx) > 0
	return c
}

// dyadic renders a finite float64 (times 2^shift) as the Coq pair (mantissa, exponent)%Z.
func dyadic(x float64, shift int) string {
	if x == 0 {
		return "(0,0)%Z"
	}
	frac, e := math.Frexp(x) // x = frac * 2^e, 0.5 <= |frac| < 1
	m := int64(math.Ldexp(frac, 53))
	return fmt.Sprintf("(%s,%s)", zlit(m), zlit(int64(e-53+shift)))
}

func zlit(x int64) string {
	if x < 0 {
		return fmt.Sprintf("(%d)%%Z", x)
	}
	return fmt.Sprintf("%d%%Z", x)
}

// LapCase: LaplacianSmooth once more, its output values handed to Coq as exact dyadic rationals and
// compared there (relative 1e-9) with the rational model Mesh/Smooth.v laplacian_mesh, for which the
// laws of Properties/C03.v are proved.  Returns ok = false when the call does not apply.
func LapCase(sd StepDesc) (c hx.Case, ok bool) {
	d := sd.Ins[0]
	o := sd.Op
	pos := attrData(d, 3, o.attrName())
	if o.Op != "laplacian" || pos == nil {
		return c, false
	}
	o.Exp = d.Exp
	res, class, _ := Apply(o, []modeling.Mesh{d.Mesh()})
	if class != "ok" || !res[0].HasFloat3Attribute(o.attrName()) {
		return c, false
	}
	c = hx.Case{Kind: "lap", Desc: sd}
	it := res[0].Float3Attribute(o.attrName())
	rows := make([]string, it.Len())
	for i := 0; i < it.Len(); i++ {
		v := it.At(i)
		for _, x := range []float64{v.X(), v.Y(), v.Z()} {
			if math.IsNaN(x) || math.IsInf(x, 0) {
				c.GoFail = fmt.Sprintf("laplacian: value %d is %v", i, x)
				x = 0
			}
		}
		rows[i] = fmt.Sprintf("[%s;%s;%s]", dyadic(v.X(), d.Exp), dyadic(v.Y(), d.Exp), dyadic(v.Z(), d.Exp))
	}
	c.Coq = fmt.Sprintf("CLap %s %s %s %s %d%%nat [%s]", topoCoq[modeling.Topology(d.Topo)], CoqNats(d.Idx),
		CoqVecs(pos), dyadic(o.Factor, 0), o.Iter, strings.Join(rows, ";"))
	kb, _ := json.Marshal(sd)
	c.Key = "lap|" + string(kb)
	c.Nontriv = len(d.Idx) > 0 && o.Iter > 0
	return c, true
}

// LawCase evaluates a composition law on the implementation.
func LawCase(ld LawDesc) hx.Case {
	c := hx.Case{Kind: "law", Desc: ld}
	names := NewNames()
	names.Add("Position", "Normal")
	if ld.Attr != "" {
		names.Add(ld.Attr)
	}
	names.AddDesc(ld.In)
	var x, y modeling.Mesh
	law := "LEq"
	class := "ok"
	msg := ""
	func() {
		defer func() {
			if rec := recover(); rec != nil {
				class, msg = classify(rec)
			}
		}()
		m := ld.In.Mesh()
		switch ld.Law {
		case "flipflip":
			x, y = m, meshops.FlipTriangleWinding(meshops.FlipTriangleWinding(m))
		case "unweld2":
			x = meshops.Unweld(m)
			y = meshops.Unweld(x)
		case "rmunref2":
			x = meshops.RemovedUnreferencedVertices(m)
			y = meshops.RemovedUnreferencedVertices(x)
		case "weldunweld":
			x = m.WeldByFloat3Attribute(ld.Attr, ld.Decimal)
			y = meshops.Unweld(m).WeldByFloat3Attribute(ld.Attr, ld.Decimal)
		}
	}()
	if class != "ok" {
		// laws are only generated on inputs the operations accept
		c.GoFail = "law " + ld.Law + ": operation failed: " + msg
		c.Coq = "CLaw LEq []"
		return c
	}
	px, e1 := Project(x)
	py, e2 := Project(y)
	if e1 != nil || e2 != nil {
		c.GoFail = "law " + ld.Law + ": non-integer value or negative index"
	}
	names.AddDesc(px, py)
	names.Freeze()
	if ld.Law == "weldunweld" {
		law = fmt.Sprintf("(LWeldUnweld %d %s)", names.ID(ld.Attr), hx.CoqZ(weldDivisor(ld.Decimal)))
	}
	c.Coq = fmt.Sprintf("CLaw %s %s", law, CoqMeshes([]Desc{px, py}, names))
	kb, _ := json.Marshal(ld)
	c.Key = "law|" + string(kb)
	c.Nontriv = len(ld.In.Idx) > 0
	return c
}

// suitable: exactness guards (integer arithmetic must stay far below 2^53) and the even-coordinate
// requirement of the centre operation.
func suitable(op string, d Desc) bool {
	m := maxAbs(d)
	switch op {
	case "remove_null":
		return m <= 10000 // the area test is only close to its threshold for small cross products, which are exact
	case "rotate", "apply_trs", "repeat", "scale3", "scale2", "scale_along_normal":
		return m <= 1000000
	case "slice":
		return m <= 100000 // plane distances stay far above float rounding
	case "center":
		for _, a := range d.Attrs {
			if a.Arity == 3 {
				for _, row := range a.Data {
					for _, x := range row {
						if x%2 != 0 {
							return false
						}
					}
				}
			}
		}
	}
	return true
}

// Chain generates one random history of depth <= maxDepth starting from a random well-formed mesh
// and adds one case per step (the inputs of each step are the implementation's own previous outputs).
func Chain(run *hx.Run, r *hx.Rng, kinds []string, maxDepth int) {
	opt := Options{}
	if r.Chance(1, 5) {
		opt.Even = true // even coordinates: the centre operation is exact on them
	}
	var cur Desc
	focus := false  // structured source: mostly the index-remapping operations
	subsel := false // first step: SetIndices with a subset of the mesh's own primitives
	preferDecimal = 99
	weldFirst := false
	centreFirst := false
	switch r.Intn(24) {
	case 0, 1: // needles: one RemoveNullFaces3D call with an exactly decided threshold, at some scale
		d, o, tkinds := Needles(r)
		run.Count("source:needles")
		for _, k := range tkinds {
			run.Count("needles:" + k)
		}
		run.Count(fmt.Sprintf("needles:exp=%d", d.Exp))
		run.Count("op:remove_null")
		c, _, class := OpCase(StepDesc{Ins: []Desc{d}, Op: o})
		run.Count("class:" + class)
		run.Add(c)
		return
	case 2, 3, 4: // surfaces with a definite neighbourhood structure: neighbourhood-based operations first
		d, shape := Surface(r)
		run.Count("source:surface:" + shape)
		var o OpDesc
		for tries := 0; tries < 10; tries++ {
			o = RandomOp(r, d, SurfaceOps)
			if o.Op == "laplacian" || o.Op == "laplacian_axis" {
				if o.Iter == 0 {
					o.Iter = r.Range(1, 3)
				}
				o.Attr, o.Variant = "Position", hx.Pick(r, []string{"", "t"})
				if o.Op == "laplacian_axis" {
					o.Variant = ""
				}
			}
			if suitable(o.Op, d) {
				break
			}
		}
		run.Count("op:" + o.Op)
		if r.Chance(2, 3) {
			d.Exp = hx.Pick(r, frameScales)
		}
		if !IsFrameOp(o.Op) { // an exact operation (scale along the normal): judged in Coq at scale 1
			d.Exp = 0
			c, _, class := OpCase(StepDesc{Ins: []Desc{d}, Op: o})
			run.Count("class:" + class)
			run.Add(c)
			return
		}
		run.Count(fmt.Sprintf("frame-scale:2^%d", -d.Exp))
		run.Add(FrameCase(StepDesc{Ins: []Desc{d}, Op: o}))
		if lc, ok := LapCase(StepDesc{Ins: []Desc{d}, Op: o}); ok && ValueOracle {
			run.Count("lap:rational-model")
			run.Add(lc)
		}
		if uc, ok := UnitCase(StepDesc{Ins: []Desc{d}, Op: o}); ok && ValueOracle {
			run.Count("unit:rational-test")
			run.Add(uc)
		}
		return
	}
	switch r.Intn(10) {
	case 8, 9:
		cur, preferDecimal = Clustered(r)
		weldFirst = r.Chance(2, 3)
		run.Count(fmt.Sprintf("source:clustered:decimal=%d", preferDecimal))
		focus = true
	case 0, 1, 2:
		var stray, degen string
		cur, stray, degen = Structured(r)
		run.Count("source:structured")
		run.Count("structured:stray=" + stray)
		run.Count("structured:degenerate=" + degen)
		focus = true
		subsel = r.Chance(1, 4)
	case 3:
		var name string
		cur, name = FromGenerator(r)
		run.Count("source:generator:" + name)
		focus = true
		subsel = r.Chance(4, 5)
	default:
		cur = Random(r, opt)
		run.Count("source:random")
		subsel = r.Chance(1, 12)
		centreFirst = opt.Even && r.Chance(1, 2)
	}
	pool := []Desc{cur}
	depth := r.Range(1, maxDepth)
	if subsel && depth < 2 {
		depth = 2
	}
	for s := 0; s < depth; s++ {
		var o OpDesc
		stepKinds := kinds
		if focus && r.Chance(3, 4) {
			stepKinds = FocusOps
		}
		for tries := 0; tries < 20; tries++ {
			o = RandomOp(r, cur, stepKinds)
			if suitable(o.Op, cur) {
				break
			}
			o = OpDesc{Op: "unweld"}
		}
		if centreFirst && s == 0 && !subsel && suitable("center", cur) {
			o = RandomOp(r, cur, []string{"center"})
			if r.Bool() {
				// the centre operation is linear: the same integer case at a power-of-two scale, one step only
				cur.Exp = hx.Pick(r, frameScales)
				run.Count(fmt.Sprintf("centre-scale:2^%d", -cur.Exp))
				run.Count("op:center")
				c, _, class := OpCase(StepDesc{Ins: []Desc{cur}, Op: o})
				run.Count("class:" + class)
				run.Add(c)
				return
			}
		}
		if s == 0 && !subsel && !weldFirst && cur.Topo == int(modeling.TriangleTopology) && len(cur.Mats) >= 2 && r.Chance(1, 3) {
			o = OpDesc{Op: "split"} // a mesh with several material ranges is split straight away one time in three
		}
		if weldFirst && s == 0 {
			o = RandomOp(r, cur, []string{"weld"})
		}
		if subsel && s == 0 {
			o = SubselectOp(r, cur)
			run.Count("op:set_indices:subselect")
		}
		sd := StepDesc{Ins: []Desc{cur}, Op: o}
		if o.Op == "append" {
			var other Desc
			switch r.Intn(4) {
			case 0:
				other = cur // self-append
			case 1:
				other = hx.Pick(r, pool)
			default:
				other = Random(r, Options{Topo: cur.Topo, FixTopo: !r.Chance(1, 12)})
			}
			sd.Ins = []Desc{cur, other}
		}
		run.Count("op:" + o.Op)
		run.Count(fmt.Sprintf("depth:%d", s+1))
		run.Count("topology:" + topoCoq[modeling.Topology(cur.Topo)])
		if IsFrameOp(o.Op) {
			if r.Chance(2, 3) {
				sd.Ins[0].Exp = hx.Pick(r, frameScales)
			}
			run.Count(fmt.Sprintf("frame-scale:2^%d", -sd.Ins[0].Exp))
			c := FrameCase(sd)
			if c.FailKey != "" {
				run.Count("candidate:" + c.FailKey)
			}
			run.Add(c)
			if lc, ok := LapCase(sd); ok && ValueOracle {
				run.Count("lap:rational-model")
				run.Add(lc)
			}
			if uc, ok := UnitCase(sd); ok && ValueOracle {
				run.Count("unit:rational-test")
				run.Add(uc)
			}
			return
		}
		c, outs, class := OpCase(sd)
		run.Count("class:" + class)
		if c.FailKey != "" {
			run.Count("candidate:" + c.FailKey)
		}
		run.Add(c)
		if class != "ok" || len(outs) == 0 || c.GoFail != "" {
			return
		}
		cur = hx.Pick(r, outs)
		if !wfDesc(cur) {
			return // an ill-formed result is reported by this step; later steps would be outside the quantifier
		}
		pool = append(pool, outs...)
	}
}

// Law generates one composition-law case.
func Law(run *hx.Run, r *hx.Rng) {
	law := hx.Pick(r, []string{"flipflip", "unweld2", "rmunref2", "weldunweld", "weldunweld"})
	opt := Options{}
	if law == "flipflip" || law == "weldunweld" {
		opt.Topo, opt.FixTopo = int(modeling.TriangleTopology), true
	}
	if law == "weldunweld" {
		opt.NeedPos = true
	}
	ld := LawDesc{Law: law, In: Random(r, opt), Decimal: hx.Pick(r, []int{0, 1, 2, -1, -2})}
	if law == "weldunweld" && r.Chance(1, 3) {
		ld.In, ld.Decimal = Clustered(r)
		run.Count("law:clustered-input")
	} else if r.Chance(1, 2) {
		for tries := 0; tries < 8; tries++ {
			d, _, _ := Structured(r)
			if !opt.FixTopo || d.Topo == opt.Topo {
				ld.In = d
				run.Count("law:structured-input")
				break
			}
		}
	}
	if law == "weldunweld" {
		ld.Attr = "Position"
	} else {
		ld.Decimal = 0
	}
	run.Count("law:" + law)
	run.Add(LawCase(ld))
}

// Replay decodes a stored case description.
func Replay(run *hx.Run, kind string, raw json.RawMessage) bool {
	switch kind {
	case "op":
		var sd StepDesc
		if json.Unmarshal(raw, &sd) != nil {
			return false
		}
		c, _, _ := OpCase(sd)
		run.Add(c)
	case "frame":
		var sd StepDesc
		if json.Unmarshal(raw, &sd) != nil {
			return false
		}
		run.Add(FrameCase(sd))
	case "law":
		var ld LawDesc
		if json.Unmarshal(raw, &ld) != nil {
			return false
		}
		run.Add(LawCase(ld))
	case "lap":
		var sd StepDesc
		if json.Unmarshal(raw, &sd) != nil {
			return false
		}
		if lc, ok := LapCase(sd); ok {
			run.Add(lc)
		}
	case "gen":
		return ReplayGen(run, raw)
	case "keep":
		return ReplayKeep(run, raw)
	case "tile":
		return ReplayTile(run, raw)
	case "ladder":
		var g GenDesc
		if json.Unmarshal(raw, &g) != nil {
			return false
		}
		run.Add(LadderCase(g, 0))
	case "unit":
		var sd StepDesc
		if json.Unmarshal(raw, &sd) != nil {
			return false
		}
		if uc, ok := UnitCase(sd); ok {
			run.Add(uc)
		}
	default:
		return false
	}
	return true
}

// FixedCases: hand-written corner cases run before the generated stream (both properties).
func FixedCases(run *hx.Run) {
	pos := func(rows ...[]int64) Attr { return Attr{Arity: 3, Name: "Position", Data: rows} }
	k := func(vals ...int64) Attr {
		a := Attr{Arity: 1, Name: "k", Data: [][]int64{}}
		for _, v := range vals {
			a.Data = append(a.Data, []int64{v})
		}
		return a
	}
	tri := int(modeling.TriangleTopology)
	pt := int(modeling.PointTopology)
	add := func(sd StepDesc) {
		if IsFrameOp(sd.Op.Op) {
			run.Add(FrameCase(sd))
			return
		}
		c, _, _ := OpCase(sd)
		run.Add(c)
	}
	// DESIGN 5 #2: point cloud, indices [3,2,1,0], keep k>=2
	add(StepDesc{Ins: []Desc{{Topo: pt, Idx: []int{3, 2, 1, 0}, Attrs: []Attr{k(0, 1, 2, 3)}}}, Op: OpDesc{Op: "filter", Arity: 1, Attr: "k", Pred: "ge", PT: 2}})
	// triangle filter that keeps two corners of a triangle
	add(StepDesc{Ins: []Desc{{Topo: tri, Idx: []int{0, 1, 2, 2, 1, 3}, Attrs: []Attr{pos([]int64{0, 0, 0}, []int64{1, 0, 0}, []int64{0, 1, 0}, []int64{1, 1, 0})}}},
		Op: OpDesc{Op: "filter", Arity: 3, Attr: "Position", Pred: "ge", PC: 0, PT: 1}})
	// DESIGN 5 #24: material ranges a:1, b:0, a:2
	add(StepDesc{Ins: []Desc{{Topo: tri, Idx: []int{0, 1, 2, 1, 2, 3, 2, 3, 0}, Mats: []Mat{{1, 0}, {0, 1}, {2, 0}},
		Attrs: []Attr{pos([]int64{0, 0, 0}, []int64{1, 0, 0}, []int64{0, 1, 0}, []int64{1, 1, 0})}}}, Op: OpDesc{Op: "split"}})
	// DESIGN 5 #25: point mesh, indices [4,4,0], vertex 4 outside the box
	add(StepDesc{Ins: []Desc{{Topo: pt, Idx: []int{4, 4, 0}, Attrs: []Attr{pos([]int64{0, 0, 0}, []int64{1, 0, 0}, []int64{2, 0, 0}, []int64{3, 0, 0}, []int64{9, 9, 9})}}},
		Op: OpDesc{Op: "crop", Attr: "Position", V: []int64{-1, -1, -1}, V2: []int64{4, 4, 4}}})
	// DESIGN 5 #26: Laplacian with an unreferenced vertex
	add(StepDesc{Ins: []Desc{{Topo: tri, Idx: []int{0, 1, 2}, Attrs: []Attr{pos([]int64{0, 0, 0}, []int64{4, 0, 0}, []int64{0, 4, 0}, []int64{7, 7, 7})}}},
		Op: OpDesc{Op: "laplacian", Attr: "Position", Iter: 1, Factor: 0.5}})
	// empty meshes through the layout operations
	for _, op := range []string{"unweld", "remove_unref", "to_points", "flip", "split"} {
		add(StepDesc{Ins: []Desc{{Topo: tri, Idx: []int{}}}, Op: OpDesc{Op: op}})
	}
	// weld: duplicated positions, one degenerate triangle, one unused class, non-position attribute taken from the first of a class
	add(StepDesc{Ins: []Desc{{Topo: tri, Idx: []int{0, 1, 2, 3, 4, 5, 0, 3, 1},
		Attrs: []Attr{pos([]int64{0, 0, 0}, []int64{5, 0, 0}, []int64{0, 5, 0}, []int64{0, 0, 0}, []int64{5, 0, 0}, []int64{5, 5, 0}, []int64{9, 9, 9}), k(10, 11, 12, 13, 14, 15, 16)}}},
		Op: OpDesc{Op: "weld", Attr: "Position", Decimal: 0}})
	// slice by plane: (a) a quad mesh - the pinned code cut ANY index list into threes and kept the topology
	// (fixes/C02-slice-requires-triangles), function and Transformer; (b) a triangle mesh without the
	// attribute; (c) a point cloud; (d) a triangle mesh with a scalar attribute and a plane THROUGH a triangle
	quadPos := pos([]int64{0, 0, 0}, []int64{1, 0, 0}, []int64{1, 1, 0}, []int64{0, 1, 0}, []int64{5, 0, 0}, []int64{6, 0, 0}, []int64{6, 1, 0}, []int64{5, 1, 0})
	planeX3 := [][]int64{{3, 0, 0}, {3, 1, 0}, {3, 0, 1}}
	for _, variant := range []string{"", "t"} {
		add(StepDesc{Ins: []Desc{{Topo: int(modeling.QuadTopology), Idx: []int{0, 1, 2, 3, 4, 5, 6, 7}, Attrs: []Attr{quadPos}}},
			Op: OpDesc{Op: "slice", Variant: variant, Attr: "Position", Data: planeX3}})
	}
	add(StepDesc{Ins: []Desc{{Topo: tri, Idx: []int{0, 1, 2}, Attrs: []Attr{k(1, 2, 3)}}}, Op: OpDesc{Op: "slice", Attr: "Position", Data: planeX3}})
	add(StepDesc{Ins: []Desc{{Topo: pt, Idx: []int{0, 1, 2, 3}, Attrs: []Attr{quadPos}}}, Op: OpDesc{Op: "slice", Attr: "Position", Data: planeX3}})
	add(StepDesc{Ins: []Desc{{Topo: tri, Idx: []int{0, 1, 2, 2, 1, 3, 4, 5, 6}, Attrs: []Attr{
		pos([]int64{0, 0, 0}, []int64{2, 0, 0}, []int64{0, 2, 0}, []int64{8, 8, 0}, []int64{5, 0, 0}, []int64{6, 0, 0}, []int64{6, 1, 0}, []int64{9, 9, 9}), k(10, 11, 12, 13, 14, 15, 16, 17)}}},
		Op: OpDesc{Op: "slice", Attr: "Position", Data: planeX3}})
	// attribute-addressed transforms x neutral parameters x {Position, another attribute, no Position at all}
	vel := func(rows ...[]int64) Attr { return Attr{Arity: 3, Name: "Velocity", Data: rows} }
	both := Desc{Topo: tri, Idx: []int{0, 1, 2}, Attrs: []Attr{pos([]int64{2, 4, 6}, []int64{4, 0, -2}, []int64{0, 6, 2}), vel([]int64{2, -4, 6}, []int64{8, 2, 0}, []int64{-2, 4, 10})}}
	noPos := Desc{Topo: tri, Idx: []int{0, 1, 2}, Attrs: []Attr{vel([]int64{2, -4, 6}, []int64{8, 2, 0}, []int64{-2, 4, 10}), k(1, 2, 3)}}
	for _, in := range []Desc{both, noPos} {
		for _, attr := range []string{"Velocity", "Position"} {
			for _, variant := range []string{"", "t"} {
				add(StepDesc{Ins: []Desc{in}, Op: OpDesc{Op: "scale3", Variant: variant, Attr: attr, V: []int64{0, 0, 0}, V2: []int64{2, 3, -1}}})
				add(StepDesc{Ins: []Desc{in}, Op: OpDesc{Op: "scale3", Variant: variant, Attr: attr, V: []int64{1, -2, 0}, V2: []int64{1, 1, 1}}})
				add(StepDesc{Ins: []Desc{in}, Op: OpDesc{Op: "translate", Variant: variant, Attr: attr, V: []int64{0, 0, 0}}})
				add(StepDesc{Ins: []Desc{in}, Op: OpDesc{Op: "rotate", Variant: variant, Attr: attr, V: []int64{0, 0, 0, 1}}})
				add(StepDesc{Ins: []Desc{in}, Op: OpDesc{Op: "center", Variant: variant, Attr: attr}})
			}
			add(StepDesc{Ins: []Desc{in}, Op: OpDesc{Op: "translate", Variant: "p", Attr: attr, V: []int64{0, 0, 0}}})
			add(StepDesc{Ins: []Desc{in}, Op: OpDesc{Op: "normalize3", Attr: attr}})
		}
	}
	// append with attributes missing on either side
	add(StepDesc{Ins: []Desc{
		{Topo: tri, Idx: []int{2, 1, 0}, Mats: []Mat{{1, 0}}, Attrs: []Attr{pos([]int64{0, 0, 0}, []int64{1, 0, 0}, []int64{0, 1, 0}), k(1, 2, 3)}},
		{Topo: tri, Idx: []int{0, 2, 1}, Mats: []Mat{{1, 1}}, Attrs: []Attr{pos([]int64{3, 0, 0}, []int64{4, 0, 0}, []int64{3, 1, 0}), {Arity: 2, Name: "TexCoord", Data: [][]int64{{0, 0}, {1, 0}, {0, 1}}}}},
	}, Op: OpDesc{Op: "append"}})
}
