package meshgen

// Generator cases (C02): every geometry generator is run on a parameterisation and the returned
// mesh is projected to (topology, indices, attribute names and lengths, materials); Coq applies
// the certified well-formedness test wfb to it (case CGen).

import (
	"encoding/json"
	"fmt"
	"strings"
	"time"

	"github.com/EliCDavis/polyform/math/trs"
	"github.com/EliCDavis/polyform/modeling"
	"github.com/EliCDavis/polyform/modeling/extrude"
	"github.com/EliCDavis/polyform/modeling/marching"
	"github.com/EliCDavis/polyform/modeling/primitives"
	"github.com/EliCDavis/polyform/modeling/repeat"
	"github.com/EliCDavis/polyform/modeling/triangulation"
	"github.com/EliCDavis/vector/vector2"
	"github.com/EliCDavis/vector/vector3"

	"verif/harness/hx"
)

// GenDesc is the replayable parameterisation of one generator call.
type GenDesc struct {
	Gen string    `json:"gen"`
	I   []int     `json:"i,omitempty"`    // integer parameters (rows, columns, sides, counts ...)
	F   []float64 `json:"f,omitempty"`    // float parameters (radius, sizes ...)
	B   []bool    `json:"b,omitempty"`    // flags
	P   []float64 `json:"p,omitempty"`    // flattened point list (x y [z]) for paths / point sets
	P2  []float64 `json:"p2,omitempty"`   // second point list (stencil shapes)
	O   []bool    `json:"opt,omitempty"`  // which per-element OPTIONAL fields are set (cube faces, cylinder UV parts, per-point UVs); nil: all
	M   string    `json:"mode,omitempty"` // how the point lists were drawn (documentation only; the lists are explicit)
}

var GenKinds = []string{"uvsphere", "uvsphere_unwelded", "hemisphere", "cube_welded", "cube_quads", "quad", "circle",
	"cylinder", "cone", "extrude_polygon", "extrude_circle", "extrude_line", "extrude_shape", "extrude_closed_shape",
	"repeat_circle", "repeat_line", "repeat_fibonacci", "marching_sphere", "marching_box", "marching_line", "bowyer_watson"}

func pts3(p []float64) []vector3.Float64 {
	out := make([]vector3.Float64, 0, len(p)/3)
	for i := 0; i+2 < len(p); i += 3 {
		out = append(out, vector3.New(p[i], p[i+1], p[i+2]))
	}
	return out
}
func pts2(p []float64) []vector2.Float64 {
	out := make([]vector2.Float64, 0, len(p)/2)
	for i := 0; i+1 < len(p); i += 2 {
		out = append(out, vector2.New(p[i], p[i+1]))
	}
	return out
}

func geti(g GenDesc, k int) int {
	if k < len(g.I) {
		return g.I[k]
	}
	return 0
}
func getf(g GenDesc, k int, d float64) float64 {
	if k < len(g.F) {
		return g.F[k]
	}
	return d
}
func getb(g GenDesc, k int) bool { return k < len(g.B) && g.B[k] }

// geto: is the k-th optional element set (no mask: every one is)
func geto(g GenDesc, k int) bool { return g.O == nil || (k < len(g.O) && g.O[k]) }

func cubeUVs(g GenDesc) *primitives.CubeUVs {
	d := primitives.DefaultCubeUVs()
	faces := []**primitives.StripUVs{&d.Top, &d.Bottom, &d.Left, &d.Right, &d.Front, &d.Back}
	for k, f := range faces {
		if !geto(g, k) {
			*f = nil
		}
	}
	return d
}

// RunGenerator calls the real generator.
func RunGenerator(g GenDesc) (out modeling.Mesh, class string, msg string) {
	defer func() {
		if rec := recover(); rec != nil {
			class, msg = classify(rec)
			if _, isStr := rec.(string); isStr {
				class = "declared" // panic("can not make cone with less that 3 sides")
			}
		}
	}()
	class = "ok"
	switch g.Gen {
	case "uvsphere":
		out = primitives.UVSphere(getf(g, 0, 1), geti(g, 0), geti(g, 1))
	case "uvsphere_unwelded":
		out = primitives.UVSphereUnwelded(getf(g, 0, 1), geti(g, 0), geti(g, 1))
	case "hemisphere":
		out = primitives.Hemisphere{Radius: getf(g, 0, 1), Capped: getb(g, 0)}.UV(geti(g, 0), geti(g, 1))
	case "cube_welded":
		c := primitives.Cube{Height: getf(g, 0, 1), Width: getf(g, 1, 1), Depth: getf(g, 2, 1)}
		if getb(g, 0) {
			c.UVs = cubeUVs(g)
		}
		out = c.Welded()
	case "cube_quads":
		c := primitives.Cube{Height: getf(g, 0, 1), Width: getf(g, 1, 1), Depth: getf(g, 2, 1)}
		if getb(g, 0) {
			c.UVs = cubeUVs(g)
		}
		out = c.UnweldedQuads()
	case "quad":
		q := primitives.Quad{Width: getf(g, 0, 1), Depth: getf(g, 1, 1)}
		if getb(g, 0) {
			q.UVs = &primitives.StripUVs{Start: vector2.New(0., 0.), End: vector2.New(0., 1.), Width: 1}
		}
		out = q.ToMesh()
	case "circle":
		c := primitives.Circle{Sides: geti(g, 0), Radius: getf(g, 0, 1)}
		if getb(g, 0) {
			c.UVs = &primitives.CircleUVs{Center: vector2.New(0.5, 0.5), Radius: 0.5}
		}
		out = c.ToMesh()
	case "cylinder":
		c := primitives.Cylinder{Sides: geti(g, 0), Height: getf(g, 0, 1), Radius: getf(g, 1, 1), NoTop: getb(g, 0), NoBottom: getb(g, 1)}
		if getb(g, 2) {
			c.UVs = &primitives.CylinderUVs{}
			if geto(g, 0) {
				c.UVs.Top = &primitives.CircleUVs{Center: vector2.New(0.5, 0.5), Radius: 0.5}
			}
			if geto(g, 1) {
				c.UVs.Bottom = &primitives.CircleUVs{Center: vector2.New(0.5, 0.5), Radius: 0.5}
			}
			if geto(g, 2) {
				c.UVs.Side = &primitives.StripUVs{Start: vector2.New(0., 0.), End: vector2.New(0., 1.), Width: 1}
			}
		}
		out = c.ToMesh()
	case "cone":
		out = primitives.Cone{Height: getf(g, 0, 1), Radius: getf(g, 1, 1), Sides: geti(g, 0)}.ToMesh()
	case "extrude_polygon":
		path := pts3(g.P)
		eps := make([]extrude.ExtrusionPoint, len(path))
		for i, p := range path {
			eps[i] = extrude.ExtrusionPoint{Point: p, Thickness: getf(g, 0, 1)}
			if getb(g, 0) && geto(g, i) {
				eps[i].UV = &extrude.ExtrusionPointUV{Point: vector2.New(0, float64(i)), Thickness: 1}
			}
			if k := len(path) + i; g.O != nil && k < len(g.O) && g.O[k] {
				eps[i].Direction = &extrude.ExtrusionPointDirection{Direction: vector3.New(0., 1., 0.)}
			}
		}
		out = extrude.Polygon(geti(g, 0), eps)
	case "extrude_circle":
		out = extrude.Circle{Resolution: geti(g, 0), Radius: getf(g, 0, 1), ClosePath: getb(g, 0), Path: pts3(g.P)}.Extrude()
	case "extrude_line":
		path := pts3(g.P)
		lps := make([]extrude.LinePoint, len(path))
		for i, p := range path {
			lps[i] = extrude.LinePoint{Point: p, Up: vector3.Up[float64](), Width: getf(g, 0, 1), Height: getf(g, 1, 0), Uv: vector2.New(0, float64(i)), UvWidth: 1}
		}
		out = extrude.Line(lps)
	case "extrude_shape":
		out = extrude.Shape(pts2(g.P2), pts3(g.P))
	case "extrude_closed_shape":
		out = extrude.ClosedShape(pts2(g.P2), pts3(g.P))
	case "repeat_circle":
		out = repeat.Mesh(genBase(geti(g, 1)), repeat.Circle(geti(g, 0), getf(g, 0, 3)))
	case "repeat_line":
		out = repeat.Mesh(genBase(geti(g, 1)), repeat.Line(vector3.New(0., 0., 0.), vector3.New(10., 0., 3.), geti(g, 0)))
	case "repeat_fibonacci":
		out = repeat.Mesh(genBase(geti(g, 1)), repeat.FibonacciSphere(geti(g, 0), getf(g, 0, 3)))
	case "marching_sphere":
		f := marching.Sphere(vector3.New(getf(g, 1, 0), 0, 0), getf(g, 0, 1), 1)
		out = marchField(f, g)
	case "marching_box":
		f := marching.Box(vector3.New(0., 0., 0.), vector3.New(getf(g, 0, 1), getf(g, 1, 1), getf(g, 0, 1)), 1)
		out = marchField(f, g)
	case "marching_line":
		f := marching.Line(vector3.New(0., 0., 0.), vector3.New(getf(g, 1, 1), 0.5, 0), getf(g, 0, 0.4), 1)
		out = marchField(f, g)
	case "bowyer_watson":
		out = triangulation.BowyerWatson(pts2(g.P2))
	default:
		panic("meshgen: unknown generator " + g.Gen)
	}
	return out, class, msg
}

func marchField(f marching.Field, g GenDesc) modeling.Mesh {
	cubes := float64(geti(g, 0))
	cutoff := getf(g, 2, 0)
	switch geti(g, 1) {
	case 1:
		c := marching.NewMarchingCanvas(cubes)
		c.AddField(f)
		return c.MarchOnAttribute(modeling.PositionAttribute, cutoff)
	case 2:
		c := marching.NewMarchingCanvas(cubes)
		c.AddFieldParallel(f)
		return c.MarchOnAttributeParallel(modeling.PositionAttribute, cutoff)
	}
	return f.March(modeling.PositionAttribute, cubes, cutoff)
}

// genBase: the mesh that the repeat generators duplicate
func genBase(kind int) modeling.Mesh {
	switch kind {
	case 1:
		return primitives.Quad{Width: 1, Depth: 1}.ToMesh()
	case 2:
		return primitives.UVSphere(1, 2, 3)
	case 3:
		return modeling.NewPointCloud(nil, map[string][]vector3.Float64{modeling.PositionAttribute: {vector3.New(0., 0., 0.), vector3.New(1., 0., 0.)}}, nil, nil, nil)
	case 4:
		return modeling.EmptyMesh(modeling.TriangleTopology).SetFloat3Attribute(modeling.PositionAttribute, nil)
	}
	return primitives.UnitCube()
}

var _ = trs.New

// GenCase runs one generator and renders "CGen out".
func GenCase(g GenDesc) hx.Case {
	c := hx.Case{Kind: "gen", Desc: g}
	if g.Gen == "circle" && geti(g, 0) == 0 {
		c.FailKey = "circle:zero-sides" // fixes/C02-circle-zero-sides
	}
	if g.Gen == "cube_welded" && getb(g, 0) && !geto(g, 1) && (geto(g, 2) || geto(g, 3) || geto(g, 4)) {
		c.FailKey = "cube:welded-partial-uvs" // fixes/C02-cube-welded-partial-uvs
	}
	m, class, msg := RunGenerator(g)
	if class != "ok" && admissible(g) {
		// inside the documented domain the generator must return a mesh: a panic here is not a
		// "rejected parameterisation"
		c.GoFail = fmt.Sprintf("generator %s failed on an admissible parameterisation (%s): %s", g.Gen, class, msg)
	}
	names := NewNames()
	var outs []Desc
	if class == "ok" {
		p, perr := ProjectWith(m, ProjectOpt{BlankVals: true})
		if perr != nil {
			c.GoFail = fmt.Sprintf("generator %s: %v", g.Gen, perr)
		}
		// keep the Coq literals small: a mesh above the cap is judged here with the same test
		// (recorded as a harness-side failure if ill-formed) and rendered without its indices
		if len(p.Idx) > 4000 || p.NVerts() > 2500 {
			if !wfDesc(p) {
				c.GoFail = fmt.Sprintf("generator %s returned an ill-formed mesh (%d indices, %d vertices)", g.Gen, len(p.Idx), p.NVerts())
			}
			p.Idx = []int{}
		}
		outs = []Desc{p}
		names.AddDesc(p)
		c.Nontriv = len(p.Idx) > 0
	}
	names.Freeze()
	c.Coq = "CGen " + resCoq(class, outs, names)
	if gd, fl, ok := genIdxModel(g, class, outs); ok && EmitGenIdx {
		// generators with an index model in Mesh/GenIdx.v: the correspondence compares the index list
		c.Coq = fmt.Sprintf("CGenI %s %s %s", gd, fl, resCoq(class, outs, names))
	}
	_ = msg
	kb, _ := json.Marshal(g)
	c.Key = "gen|" + string(kb)
	return c
}

// admissible: parameterisations every generator documents as valid (its own guards accept them).
func admissible(g GenDesc) bool {
	switch g.Gen {
	case "uvsphere", "uvsphere_unwelded", "hemisphere":
		return geti(g, 0) >= 2 && geti(g, 1) >= 3
	case "circle", "cone", "cylinder":
		return geti(g, 0) >= 3
	case "cube_welded", "cube_quads", "quad":
		return true
	case "extrude_polygon", "extrude_circle":
		return geti(g, 0) >= 3 && len(g.P) >= 6
	case "extrude_line":
		return len(g.P) >= 6
	case "repeat_circle", "repeat_line", "repeat_fibonacci":
		return geti(g, 0) >= 1 && geti(g, 1) != 4
	}
	return false
}

// EmitGenIdx: render fan / tube generator cases as CGenI (index list compared with Mesh/GenIdx.v).
var EmitGenIdx = true

// genIdxModel names the Gallina index model of a generator call, if it has one, and the flip table
// of the tube (one boolean per quad, read off the winding the implementation chose).
func genIdxModel(g GenDesc, class string, outs []Desc) (gd string, flips string, ok bool) {
	if class != "ok" || len(outs) != 1 {
		return "", "", false
	}
	switch g.Gen {
	case "circle", "cone":
		return fmt.Sprintf("(GFan %d%%nat)", geti(g, 0)), "[]", true
	case "extrude_polygon", "extrude_circle":
		idx := outs[0].Idx
		fl := make([]string, 0, len(idx)/6)
		for q := 0; q+5 < len(idx); q += 6 {
			fl = append(fl, hx.CoqBool(idx[q+1] < idx[q+2]))
		}
		return fmt.Sprintf("(GTube %d%%nat %d%%nat)", geti(g, 0), len(g.P)/3), "[" + strings.Join(fl, ";") + "]", true
	case "quad":
		return "GQuad", "[]", true
	case "extrude_line":
		return fmt.Sprintf("(GRibbon %d%%nat)", len(g.P)/3), "[]", true
	case "extrude_shape", "extrude_closed_shape":
		if len(g.P2) < 2 {
			return "", "", false // an empty stencil gives a mesh without vertices: nverts is read off no attribute
		}
		return fmt.Sprintf("(GShape %d%%nat %d%%nat %s)", len(g.P2)/2, len(g.P)/3, hx.CoqBool(g.Gen == "extrude_closed_shape")), "[]", true
	case "bowyer_watson":
		// Mesh/GenIntern.v bw_mesh: one vertex per input point, Position and TexCoord
		return fmt.Sprintf("(GBw %d%%nat)", len(g.P2)/2), "[]", true
	case "marching_sphere", "marching_box", "marching_line":
		// Mesh/GenIntern.v marching_mesh: interned block vertices, welded: no vertex is unreferenced
		if len(outs[0].Idx) == 0 && outs[0].NVerts() > 0 {
			return "", "", false // above the literal cap the indices are not rendered
		}
		return "GMarch", "[]", true
	}
	return "", "", false
}

// wfDesc: harness-side copy of wfb, used only for meshes too large to be rendered as Coq literals.
func wfDesc(d Desc) bool {
	n := d.NVerts()
	for _, a := range d.Attrs {
		l := len(a.Data)
		if a.Data == nil {
			l = a.Blank
		}
		if l != n {
			return false
		}
	}
	for _, i := range d.Idx {
		if i < 0 || i >= n {
			return false
		}
	}
	switch modeling.Topology(d.Topo) {
	case modeling.TriangleTopology:
		return len(d.Idx)%3 == 0
	case modeling.QuadTopology:
		return len(d.Idx)%4 == 0
	}
	return true
}

// PathModes: legitimate but degenerate extrusion paths next to the generic ones.
var PathModes = []string{"generic", "generic", "generic", "collinear", "one-collinear", "repeated-point", "closed", "backtrack", "axis"}

// randPath draws n path points (x y z flattened) in the given mode:
//
//	generic         consecutive points differ, no three consecutive points in line (height strictly increasing, random drift)
//	collinear       all points on one line, equal or unequal steps
//	one-collinear   generic, but one interior point lies exactly in line with its two neighbours
//	repeated-point  generic, but one point occurs twice in a row (a zero-length segment)
//	closed          generic, but the last point returns to the first
//	backtrack       p, q, p, ...: a segment walked back exactly
//	axis            along one coordinate axis (perpendicular helpers degenerate differently per axis)
func randPath(r *hx.Rng, n int, mode string) []float64 {
	pts := make([][3]float64, 0, n)
	x, y, z := float64(r.Range(-2, 2)), float64(r.Range(-2, 2)), float64(r.Range(-2, 2))
	for i := 0; i < n; i++ {
		pts = append(pts, [3]float64{x, y, z})
		x += float64(r.Range(-2, 2))
		y += float64(r.Range(1, 3))
		z += float64(r.Range(-2, 2))
	}
	switch mode {
	case "collinear":
		d := [3]float64{float64(r.Range(-2, 2)), float64(r.Range(1, 2)), float64(r.Range(-2, 2))}
		t := 0.0
		for i := range pts {
			pts[i] = [3]float64{pts[0][0] + d[0]*t, pts[0][1] + d[1]*t, pts[0][2] + d[2]*t}
			t += float64(r.Range(1, 2))
		}
	case "axis":
		ax := r.Intn(3)
		for i := range pts {
			pts[i] = [3]float64{}
			pts[i][ax] = float64(i * r.Range(1, 2))
		}
	case "one-collinear":
		if n >= 3 {
			k := r.Range(1, n-2)
			for c := 0; c < 3; c++ {
				pts[k][c] = (pts[k-1][c] + pts[k+1][c]) / 2 // exact: integers halved
			}
		}
	case "repeated-point":
		if n >= 2 {
			k := r.Range(1, n-1)
			pts[k] = pts[k-1]
		}
	case "closed":
		if n >= 3 {
			pts[n-1] = pts[0]
		}
	case "backtrack":
		for i := 2; i < n; i++ {
			pts[i] = pts[i-2]
		}
	}
	out := make([]float64, 0, 3*n)
	for _, p := range pts {
		out = append(out, p[0], p[1], p[2])
	}
	return out
}

// randShape draws a stencil of n 2-D points: generic, or with repeated / collinear points.
func randShape(r *hx.Rng, n int) []float64 {
	out := make([]float64, 0, 2*n)
	mode := r.Intn(4)
	for i := 0; i < n; i++ {
		px, py := float64(r.Range(-4, 4))+float64(i)*0.01, float64(r.Range(-4, 4))
		switch {
		case mode == 1 && i > 0 && r.Chance(1, 3): // a repeated stencil point
			px, py = out[2*(i-1)], out[2*(i-1)+1]
		case mode == 2: // all on one line
			px, py = float64(i), float64(2*i)
		}
		out = append(out, px, py)
	}
	return out
}

// randPoints2 draws the input of the triangulation: generic position, or with exactly repeated
// points, exactly collinear runs, points on a lattice (cocircular quadruples).
func randPoints2(r *hx.Rng, n int) (pts []float64, mode string) {
	mode = hx.Pick(r, []string{"generic", "generic", "duplicates", "duplicates", "collinear-run", "lattice", "all-equal"})
	pts = make([]float64, 0, 2*n)
	for i := 0; i < n; i++ {
		// generic position: a tiny index-dependent offset avoids exactly collinear / cocircular inputs
		px, py := float64(r.Range(-8, 8))+float64(i)*0.013, float64(r.Range(-8, 8))+float64(i*i)*0.0007
		switch mode {
		case "duplicates":
			if i > 0 && r.Chance(1, 3) {
				k := r.Intn(i)
				px, py = pts[2*k], pts[2*k+1]
			}
		case "collinear-run":
			if i%2 == 0 {
				px, py = float64(i), float64(i)*0.5
			}
		case "lattice":
			px, py = float64(r.Range(-3, 3)), float64(r.Range(-3, 3))
		case "all-equal":
			px, py = 1, 2
		}
		pts = append(pts, px, py)
	}
	return pts, mode
}

// RandomGen draws a parameterisation: mostly small accepted values (0..12), degenerate and
// negative ones included, occasionally larger.
func RandomGen(r *hx.Rng, big bool) GenDesc {
	g := GenDesc{Gen: hx.Pick(r, GenKinds)}
	if r.Chance(1, 4) {
		// the generators driven by caller-supplied point lists have the largest input space
		g.Gen = hx.Pick(r, []string{"extrude_polygon", "extrude_circle", "extrude_line", "extrude_shape", "extrude_closed_shape", "bowyer_watson", "bowyer_watson"})
	}
	if len(g.Gen) > 8 && g.Gen[:8] == "marching" && (r.Chance(1, 2) || (big && r.Chance(2, 3))) {
		g.Gen = hx.Pick(r, GenKinds[:17]) // marching is the costly generator: drawn less often
	}
	small := func() int {
		switch r.Intn(12) {
		case 0:
			return r.Range(-2, 1)
		case 1:
			if big {
				return r.Range(13, 20)
			}
			return r.Range(9, 14)
		}
		return r.Range(2, 9)
	}
	switch g.Gen {
	case "uvsphere", "uvsphere_unwelded", "hemisphere":
		g.I = []int{small(), small()}
		g.B = []bool{r.Bool()}
		g.F = []float64{float64(r.Range(1, 3))}
	case "cube_welded", "cube_quads":
		g.F = []float64{float64(r.Range(0, 3)), float64(r.Range(1, 3)), float64(r.Range(1, 3))}
		g.B = []bool{r.Bool()}
		g.O = randMask(r, 6)
	case "quad":
		g.F = []float64{float64(r.Range(0, 3)), float64(r.Range(1, 3))}
		g.B = []bool{r.Bool()}
	case "circle", "cone":
		g.I = []int{small()}
		g.F = []float64{float64(r.Range(1, 3)), float64(r.Range(1, 3))}
		g.B = []bool{r.Bool()}
	case "cylinder":
		g.I = []int{small()}
		g.F = []float64{float64(r.Range(1, 3)), float64(r.Range(1, 3))}
		g.B = []bool{r.Bool(), r.Bool(), r.Bool()}
		g.O = randMask(r, 3)
	case "extrude_polygon", "extrude_circle":
		g.I = []int{small()}
		g.F = []float64{float64(r.Range(1, 2))}
		g.B = []bool{r.Bool()}
		g.M = hx.Pick(r, PathModes)
		g.P = randPath(r, r.Range(0, 6), g.M)
		g.O = randMask(r, 2*(len(g.P)/3)) // per point: UV set, explicit direction set
	case "extrude_line":
		g.F = []float64{float64(r.Range(0, 2)), float64(r.Range(0, 1))}
		g.M = hx.Pick(r, PathModes)
		g.P = randPath(r, r.Range(0, 7), g.M)
	case "extrude_shape", "extrude_closed_shape":
		g.M = hx.Pick(r, PathModes)
		g.P = randPath(r, r.Range(0, 6), g.M)
		g.P2 = randShape(r, r.Range(0, 7))
	case "repeat_circle", "repeat_line", "repeat_fibonacci":
		g.I = []int{r.Range(-1, 7), r.Intn(5)}
		g.F = []float64{3}
	case "marching_sphere", "marching_box", "marching_line":
		mode := 0 // Field.March; 1: canvas, sequential; 2: canvas, parallel (costly on a loaded machine: 1 in 6)
		switch r.Intn(6) {
		case 0, 1:
			mode = 1
		case 2:
			mode = 2
		}
		g.I = []int{hx.Pick(r, []int{1, 1, 2, 2, 2, 3}), mode}
		g.F = []float64{hx.Pick(r, []float64{0.4, 0.7, 1, 1.3}), hx.Pick(r, []float64{0, 0.3, 1}), hx.Pick(r, []float64{0, 0, 0.1, -0.1, 5})}
	case "bowyer_watson":
		g.P2, g.M = randPoints2(r, r.Range(0, 12))
	}
	return g
}

// randMask: every per-element optional field is drawn independently (nil, i.e. "all set", one time in four)
func randMask(r *hx.Rng, n int) []bool {
	if r.Chance(1, 4) {
		return nil
	}
	m := make([]bool, n)
	for i := range m {
		m[i] = r.Bool()
	}
	return m
}

// SmallGens enumerates the exhaustive small stream: every counted generator on every count 0..max.
func SmallGens(max int) []GenDesc {
	var out []GenDesc
	for a := 0; a <= max; a++ {
		out = append(out, GenDesc{Gen: "circle", I: []int{a}}, GenDesc{Gen: "cone", I: []int{a}},
			GenDesc{Gen: "cylinder", I: []int{a}}, GenDesc{Gen: "cylinder", I: []int{a}, B: []bool{true, false, true}},
			GenDesc{Gen: "cylinder", I: []int{a}, B: []bool{true, true, false}})
		for b := 0; b <= max; b++ {
			out = append(out, GenDesc{Gen: "uvsphere", I: []int{a, b}}, GenDesc{Gen: "uvsphere_unwelded", I: []int{a, b}},
				GenDesc{Gen: "hemisphere", I: []int{a, b}})
		}
	}
	return out
}

// FixedGens: corner parameterisations run on every invocation (smallest accepted counts, the counts
// just below, the zero-sided circle of fixes/C02-circle-zero-sides, empty inputs).
func FixedGens(run *hx.Run) {
	for _, g := range []GenDesc{
		{Gen: "circle", I: []int{0}}, {Gen: "circle", I: []int{1}}, {Gen: "circle", I: []int{3}, B: []bool{true}},
		{Gen: "cone", I: []int{2}}, {Gen: "cone", I: []int{3}},
		{Gen: "cylinder", I: []int{0}}, {Gen: "cylinder", I: []int{3}, B: []bool{true, true, true}}, {Gen: "cylinder", I: []int{3}, B: []bool{false, false, true}},
		{Gen: "uvsphere", I: []int{2, 3}}, {Gen: "uvsphere", I: []int{1, 3}}, {Gen: "uvsphere", I: []int{2, 2}},
		{Gen: "uvsphere_unwelded", I: []int{2, 3}}, {Gen: "hemisphere", I: []int{2, 3}, B: []bool{true}},
		{Gen: "cube_welded", B: []bool{true}}, {Gen: "cube_quads", B: []bool{true}}, {Gen: "quad", B: []bool{true}},
		{Gen: "extrude_polygon", I: []int{3}, P: []float64{0, 0, 0, 0, 1, 0}, B: []bool{true}},
		{Gen: "extrude_polygon", I: []int{3}, P: []float64{0, 0, 0}},
		{Gen: "extrude_line", P: []float64{0, 0, 0, 0, 1, 0}, F: []float64{1, 0}},
		{Gen: "extrude_shape", P: []float64{0, 0, 0, 0, 1, 0, 1, 2, 0}, P2: []float64{0, 0, 1, 0, 0, 1}},
		{Gen: "extrude_closed_shape", P: []float64{0, 0, 0, 0, 1, 0, 1, 2, 0}, P2: []float64{0, 0, 1, 0, 0, 1}},
		{Gen: "repeat_circle", I: []int{0, 0}}, {Gen: "repeat_circle", I: []int{3, 4}}, {Gen: "repeat_line", I: []int{2, 3}},
		{Gen: "marching_sphere", I: []int{2, 1}, F: []float64{1, 0, 5}}, // cutoff above the field: nothing crosses
		{Gen: "marching_sphere", I: []int{2, 0}, F: []float64{1, 0, 0}},
		{Gen: "bowyer_watson"}, {Gen: "bowyer_watson", P2: []float64{0, 0, 1, 0, 0, 1}},
		{Gen: "bowyer_watson", P2: []float64{0, 0, 4, 0.1, 0.2, 3, 3.9, 4.2, 2, 2.1}},
	} {
		run.Count("gen:" + g.Gen)
		run.Add(GenCase(g))
	}
	// every path-driven generator on every degenerate-but-legitimate path class (own fixed PRNG: the
	// same explicit point lists on every run), stencils with 0-3 points, and the triangulation on
	// repeated / collinear / coincident / lattice point sets
	fr := hx.NewRng(20240229)
	for _, mode := range []string{"collinear", "one-collinear", "repeated-point", "closed", "backtrack", "axis"} {
		for _, n := range []int{3, 5} {
			path := randPath(fr, n, mode)
			for _, g := range []GenDesc{
				{Gen: "extrude_polygon", I: []int{3}, F: []float64{1}, P: path, M: mode},
				{Gen: "extrude_circle", I: []int{4}, F: []float64{1}, P: path, M: mode},
				{Gen: "extrude_line", F: []float64{1, 0}, P: path, M: mode},
				{Gen: "extrude_shape", P: path, P2: []float64{0, 0, 1, 0, 0, 1}, M: mode},
				{Gen: "extrude_closed_shape", P: path, P2: []float64{0, 0, 1, 0, 1, 1, 0, 1}, M: mode},
			} {
				run.Count("gen:" + g.Gen)
				run.Count("gen-path:" + mode)
				run.Add(GenCase(g))
			}
		}
	}
	generic := []float64{0, 0, 0, 1, 2, 0, 0, 4, 1}
	// per-element optional fields set on some elements only
	for _, g := range []GenDesc{
		{Gen: "extrude_polygon", I: []int{3}, F: []float64{1}, B: []bool{true}, P: generic, O: []bool{true, false, true}},
		{Gen: "extrude_polygon", I: []int{4}, F: []float64{1}, B: []bool{true}, P: generic, O: []bool{false, true, true}},
		{Gen: "extrude_polygon", I: []int{3}, F: []float64{1}, B: []bool{true}, P: generic, O: []bool{true, true, false, false, true, false}},
		{Gen: "cube_welded", B: []bool{true}, O: []bool{true, false, true, false, true, false}},
		{Gen: "cube_quads", B: []bool{true}, O: []bool{false, true, false, false, false, true}},
		{Gen: "cube_quads", B: []bool{true}, O: []bool{false, false, false, false, false, false}},
		{Gen: "cylinder", I: []int{4}, B: []bool{false, false, true}, O: []bool{true, false, false}},
		{Gen: "cylinder", I: []int{4}, B: []bool{false, false, true}, O: []bool{false, false, true}},
		{Gen: "cylinder", I: []int{4}, B: []bool{true, false, true}, O: []bool{true, true, false}},
	} {
		run.Count("gen:" + g.Gen)
		run.Count("gen-optional:mixed")
		run.Add(GenCase(g))
	}
	for _, shape := range [][]float64{{}, {1, 1}, {0, 0, 1, 0}, {0, 0, 0, 0, 1, 1}} {
		run.Add(GenCase(GenDesc{Gen: "extrude_shape", P: generic, P2: shape, M: "small-stencil"}))
		run.Add(GenCase(GenDesc{Gen: "extrude_closed_shape", P: generic, P2: shape, M: "small-stencil"}))
	}
	for _, pts := range [][]float64{
		{0, 0, 4, 0, 0, 3, 4, 0},                               // a repeated point
		{0, 0, 4, 0, 0, 3, 0, 0, 4, 0, 2, 2},                   // two repeated points
		{1, 2, 1, 2, 1, 2},                                     // all coincident
		{0, 0, 1, 1, 2, 2, 3, 3},                               // all collinear
		{0, 0, 1, 0, 2, 0, 0, 1, 1, 1, 2, 1, 0, 2, 1, 2, 2, 2}, // 3x3 lattice: collinear and cocircular
		{0, 0, 1, 0},                                           // two points
	} {
		run.Count("gen:bowyer_watson")
		run.Add(GenCase(GenDesc{Gen: "bowyer_watson", P2: pts, M: "fixed-degenerate"}))
	}
}

// Generators adds n generator cases: a rotating window of the exhaustive small stream plus random ones.
func Generators(run *hx.Run, r *hx.Rng, n int, thorough bool) {
	max := 8
	if thorough {
		max = 12
	}
	small := SmallGens(max)
	start := 0
	if !thorough && len(small) > 0 {
		start = r.Intn(len(small))
	}
	nsmall := n / 2
	if thorough || nsmall > len(small) {
		nsmall = len(small)
	}
	ms := map[string]int64{}
	run.Extra["generator_ms"] = ms
	add := func(g GenDesc) {
		t0 := time.Now()
		c := GenCase(g)
		ms[g.Gen] += time.Since(t0).Milliseconds()
		run.Count("gen:" + g.Gen)
		cls := "accepted"
		if c.Coq == "CGen Declared" {
			cls = "rejected"
		} else if c.Coq == "CGen Crash" {
			cls = "rejected-by-runtime-panic"
		}
		run.Count("gen-class:" + cls)
		run.Add(c)
	}
	stride := 7 // spreads a quick run over all generators and counts
	if thorough {
		stride = 1
	}
	for i := 0; i < nsmall; i++ {
		add(small[(start+i*stride)%len(small)])
	}
	for i := nsmall; i < n; i++ {
		add(RandomGen(r, thorough))
	}
}

// ReplayGen decodes a stored generator case.
func ReplayGen(run *hx.Run, raw json.RawMessage) bool {
	var g GenDesc
	if json.Unmarshal(raw, &g) != nil {
		return false
	}
	run.Add(GenCase(g))
	return true
}

// ---- generators on the ladder (sizes past internal block limits, see tile.go) ----

func ladderPath(m int) []float64 { // m path points, consecutive ones distinct, never three in line
	p := make([]float64, 0, 3*m)
	for i := 0; i < m; i++ {
		p = append(p, float64(i%7), float64(i), float64((i*3)%5))
	}
	return p
}

// ladderGen: the parameterisation of generator `kind` that gives at least n vertices.
func ladderGen(kind string, n int) GenDesc {
	switch kind {
	case "uvsphere", "uvsphere_unwelded", "hemisphere":
		return GenDesc{Gen: kind, I: []int{n/128 + 2, 128}}
	case "cylinder":
		return GenDesc{Gen: kind, I: []int{n / 2}, B: []bool{false, false, true}}
	case "circle", "cone":
		return GenDesc{Gen: kind, I: []int{n}}
	case "extrude_polygon", "extrude_circle":
		return GenDesc{Gen: kind, I: []int{63}, P: ladderPath(n/64 + 1), B: []bool{true}}
	case "extrude_line":
		return GenDesc{Gen: kind, P: ladderPath(n/3 + 1)}
	case "repeat_quads": // quad counts: n/4 copies of primitives.Quad
		if n > 1<<13+1 {
			return GenDesc{Gen: "repeat_line", I: []int{n / 8, 0}} // (repeat.Mesh is quadratic in the copy count: 8-vertex cubes above 2^13)
		}
		return GenDesc{Gen: "repeat_line", I: []int{n / 4, 1}}
	case "repeat_cubes":
		return GenDesc{Gen: "repeat_circle", I: []int{n/8 + 1, 0}}
	}
	return GenDesc{Gen: "repeat_fibonacci", I: []int{n/8 + 1, 0}}
}

var LadderGens = []string{"uvsphere", "uvsphere_unwelded", "hemisphere", "cylinder", "circle", "cone", "extrude_polygon",
	"extrude_circle", "extrude_line", "repeat_quads", "repeat_cubes", "repeat_fibonacci"}

// LadderCase runs one generator at a rung; the output is far above the literal cap, so the harness copy of wfb
// judges it (CNote).
func LadderCase(g GenDesc, rung int) hx.Case {
	c := hx.Case{Kind: "ladder", Desc: g, Coq: fmt.Sprintf("CNote %d%%N", rung)}
	kb, _ := json.Marshal(g)
	c.Key = "ladder|" + string(kb)
	m, class, msg := RunGenerator(g)
	if class != "ok" {
		c.GoFail = fmt.Sprintf("generator %s failed at rung %d (%s): %s", g.Gen, rung, class, msg)
		return c
	}
	p, perr := ProjectWith(m, ProjectOpt{BlankVals: true})
	if perr != nil {
		c.GoFail = fmt.Sprintf("generator %s at rung %d: %v", g.Gen, rung, perr)
	} else if !wfDesc(p) {
		c.GoFail = fmt.Sprintf("generator %s at rung %d returned an ill-formed mesh (%d indices, %d vertices)", g.Gen, rung, len(p.Idx), p.NVerts())
	} else if p.NVerts() < rung {
		c.GoFail = fmt.Sprintf("ladder: generator %s gave %d vertices, rung %d not reached (harness parameterisation)", g.Gen, p.NVerts(), rung)
	}
	c.Nontriv = len(p.Idx) > 0
	return c
}

// GenLadder: the generators rotate over the rungs (two per rung in the quick tier, every generator at every rung
// in the thorough tier), so each generator meets every rung across seeds.
func GenLadder(run *hx.Run, r *hx.Rng, thorough bool) {
	rungs := append(append([]int{}, TileRungsLow...), TileRungsHigh...)
	if thorough {
		rungs = append(rungs, TileRungsThorough[0])
	}
	start := r.Intn(len(LadderGens))
	for ri, rung := range rungs {
		per := 2
		if thorough {
			per = len(LadderGens)
		}
		for j := 0; j < per; j++ {
			kind := LadderGens[(start+ri*per+j)%len(LadderGens)]
			run.Count("ladder:gen:" + kind)
			run.Count(fmt.Sprintf("ladder:rung:%d", rung))
			run.Add(LadderCase(ladderGen(kind, rung), rung))
		}
	}
}
