module verif/harness

go 1.21.0

require (
	github.com/EliCDavis/iter v1.0.2
	github.com/EliCDavis/jbtf v0.2.0
	github.com/EliCDavis/polyform v0.0.0
	github.com/EliCDavis/vector v1.8.0
)

require (
	github.com/EliCDavis/bitlib v1.2.0 // indirect
	github.com/EliCDavis/sfm v1.2.0 // indirect
	github.com/fogleman/gg v1.3.0 // indirect
	github.com/golang/freetype v0.0.0-20170609003504-e2365dfdc4a0 // indirect
	github.com/gorilla/websocket v1.5.3 // indirect
	golang.org/x/image v0.18.0 // indirect
)

replace github.com/EliCDavis/polyform => /repo
