// C09 harness: marching cubes through the real canvas (NewMarchingCanvas / AddField / March /
// MarchParallel).  For every case it
//   - rebuilds the sign grid from the implementation's own field functions (same sample positions,
//     same accumulation order as AddField),
//   - maps every output vertex to its weld bucket (modeling.Vector3ToInt(position, 3)) and every grid
//     edge with a sign change to the bucket of its crossing point,
//   - writes the observation as a Coq case for Check/C09.v (model comparison + closedness oracle),
//   - runs the float oracles here: enclosed volume > 0, every vertex on a grid edge with a sign change
//     (parameter in [0,1]), orientation against the sign change, and an independent closedness count.
// Round 4: MarchOnAttribute(Parallel) on a non-position attribute of two-attribute fields (Desc.Attr), repeated
// March of one canvas and a March between two AddField calls (Desc.Remarch), AddFieldParallel2 (Desc.AddPar2), and
// the second marching path Field.March / Field.Voxelize compared with the canvas result (Desc.FieldMarch).
package main

import (
	"bytes"
	"context"
	"encoding/json"
	"flag"
	"fmt"
	"math"
	"os"
	"os/exec"
	"runtime"
	"sort"
	"strings"
	"sync"
	"time"

	"verif/harness/hx"

	"github.com/EliCDavis/polyform/math/geometry"
	"github.com/EliCDavis/polyform/math/sample"
	"github.com/EliCDavis/polyform/math/sdf"
	"github.com/EliCDavis/polyform/modeling"
	"github.com/EliCDavis/polyform/modeling/marching"
	"github.com/EliCDavis/vector/vector3"
)

const blockSize = 100

type Shape struct {
	Kind string     `json:"kind"` // sphere | box | line
	P    [3]float64 `json:"p"`    // centre / line start (units)
	Q    [3]float64 `json:"q"`    // box size / line end (units)
	R    float64    `json:"r"`    // radius (units)
	S    float64    `json:"s"`    // strength
	// multiline (MultiSegmentLine: Pts, R) and vline (VarryingThicknessLine: Pts, Rs)
	Pts [][3]float64 `json:"pts,omitempty"`
	Rs  []float64    `json:"rs,omitempty"`
}

type Desc struct {
	Cpu      float64    `json:"cpu"`
	Cutoff   float64    `json:"cutoff"`
	Mode     string     `json:"mode"` // add | combine | subtract (shape 0 minus shape 1) | mirror (shape 0, Axis) | lattice
	Axis     int        `json:"axis,omitempty"`
	Shift    [3]float64 `json:"shift,omitempty"` // Field.Translate applied to every field
	Shapes   []Shape    `json:"shapes,omitempty"`
	Parallel bool       `json:"parallel"`     // MarchParallel
	AddPar   bool       `json:"add_parallel"` // AddFieldParallel
	AddPar2  bool       `json:"add_parallel2,omitempty"` // AddFieldParallel2
	Org      [3]int     `json:"org,omitempty"`
	Dim      [3]int     `json:"dim,omitempty"`
	Vals     []float64  `json:"vals,omitempty"`
	Note     string     `json:"note,omitempty"`
	// Attr: the shapes are registered under this Float1 attribute (a decoy shape sits under the position
	// attribute of the same fields) and the canvas is marched with MarchOnAttribute(Attr) / ...Parallel
	Attr string `json:"attr,omitempty"`
	// Decoys: number of further Float1 functions of every field besides Attr (default / 1: the position attribute;
	// 2: also "aux")
	Decoys int `json:"decoys,omitempty"`
	// Remarch: the canvas is marched twice before the judged call (once at a lower cutoff, once at the same)
	Remarch bool `json:"remarch,omitempty"`
	// FieldMarch: the single field is also marched through Field.March / Field.Voxelize
	FieldMarch bool `json:"field_march,omitempty"`
}

// the Float1 attribute that is marched (Desc.Attr, default the position attribute)
var marchAttr = modeling.PositionAttribute

func fieldFn(f marching.Field) sample.Vec3ToFloat { return f.Float1Functions[marchAttr] }

type ipt [3]int

func v3(a [3]float64) vector3.Float64 { return vector3.New(a[0], a[1], a[2]) }

// ---------------------------------------------------------------- fields
func latticeField(d Desc) marching.Field {
	cpu := d.Cpu
	org, dim, vals := d.Org, d.Dim, d.Vals
	lo := vector3.New(float64(org[0])/cpu, float64(org[1])/cpu, float64(org[2])/cpu)
	hi := vector3.New(float64(org[0]+dim[0]-1)/cpu, float64(org[1]+dim[1]-1)/cpu, float64(org[2]+dim[2]-1)/cpu)
	fn := func(v vector3.Float64) float64 {
		x := int(math.Round(v.X()*cpu)) - org[0]
		y := int(math.Round(v.Y()*cpu)) - org[1]
		z := int(math.Round(v.Z()*cpu)) - org[2]
		if x < 0 || y < 0 || z < 0 || x >= dim[0] || y >= dim[1] || z >= dim[2] {
			return 1
		}
		return vals[x+dim[0]*(y+dim[1]*z)]
	}
	return marching.Field{
		Domain:          geometry.NewAABBFromPoints(lo, hi),
		Float1Functions: map[string]sample.Vec3ToFloat{modeling.PositionAttribute: fn},
	}
}

func buildFields(d Desc) []marching.Field {
	if d.Mode == "lattice" {
		return []marching.Field{latticeField(d)}
	}
	fs := make([]marching.Field, 0, len(d.Shapes))
	for _, s := range d.Shapes {
		switch s.Kind {
		case "sphere":
			fs = append(fs, marching.Sphere(v3(s.P), s.R, s.S))
		case "box":
			fs = append(fs, marching.Box(v3(s.P), v3(s.Q), s.S))
		case "multiline":
			pts := make([]vector3.Float64, len(s.Pts))
			for i, p := range s.Pts {
				pts[i] = v3(p)
			}
			fs = append(fs, marching.MultiSegmentLine(pts, s.R, s.S))
		case "vline":
			pts := make([]sdf.LinePoint, len(s.Pts))
			for i, p := range s.Pts {
				pts[i] = sdf.LinePoint{Point: v3(p), Radius: s.Rs[i]}
			}
			fs = append(fs, marching.VarryingThicknessLine(pts, s.S))
		default:
			fs = append(fs, marching.Line(v3(s.P), v3(s.Q), s.R, s.S))
		}
	}
	switch {
	case d.Mode == "combine" && len(fs) > 1:
		fs = []marching.Field{marching.CombineFields(fs...)}
	case d.Mode == "subtract" && len(fs) == 2:
		fs = []marching.Field{marching.Subtract(fs[0], fs[1])}
	case d.Mode == "mirror" && len(fs) == 1:
		fs = []marching.Field{marching.MirrorAxis(fs[0], marching.Axis(d.Axis))}
	}
	if d.Attr != "" && d.Attr != modeling.PositionAttribute && d.Mode != "lattice" {
		// before the combinators: they have to carry both attributes
		return buildFieldsAttr(d)
	}
	if d.Shift != [3]float64{} {
		for i := range fs {
			fs[i] = fs[i].Translate(v3(d.Shift))
		}
	}
	return fs
}

// the same fields with the shape under Desc.Attr and a decoy (a small ball around the centre of the declared
// domain) under the position attribute; combinators are applied to the two-attribute fields
func buildFieldsAttr(d Desc) []marching.Field {
	plain := d
	plain.Attr, plain.Mode, plain.Shift = "", "add", [3]float64{}
	fs := buildFields(plain)
	for i, f := range fs {
		c := f.Domain.Center()
		fn := f.Float1Functions[modeling.PositionAttribute]
		fns := map[string]sample.Vec3ToFloat{
			d.Attr:                     fn,
			modeling.PositionAttribute: func(v vector3.Float64) float64 { return v.Distance(c) - 1.7/d.Cpu },
		}
		if d.Decoys >= 2 {
			fns["aux"] = func(v vector3.Float64) float64 { return v.Distance(c) - 2.3/d.Cpu }
		}
		fs[i] = marching.Field{Domain: f.Domain, Float1Functions: fns}
	}
	switch {
	case d.Mode == "combine" && len(fs) > 1:
		fs = []marching.Field{marching.CombineFields(fs...)}
	case d.Mode == "subtract" && len(fs) == 2:
		fs = []marching.Field{marching.Subtract(fs[0], fs[1])}
	case d.Mode == "mirror" && len(fs) == 1:
		fs = []marching.Field{marching.MirrorAxis(fs[0], marching.Axis(d.Axis))}
	}
	if d.Shift != [3]float64{} {
		for i := range fs {
			fs[i] = fs[i].Translate(v3(d.Shift))
		}
	}
	return fs
}

// the sample range of one AddField call (MarchingCanvas.fieldBounds)
func bounds(f marching.Field, cpu float64) (ipt, ipt) {
	mn, mx := f.Domain.Min(), f.Domain.Max()
	return ipt{int(math.Floor(mn.X()*cpu)) - 1, int(math.Floor(mn.Y()*cpu)) - 1, int(math.Floor(mn.Z()*cpu)) - 1},
		ipt{int(math.Ceil(mx.X()*cpu)) + 1, int(math.Ceil(mx.Y()*cpu)) + 1, int(math.Ceil(mx.Z()*cpu)) + 1}
}

// ---------------------------------------------------------------- dense sample grid
type grid struct {
	lo, hi ipt // lattice points lo..hi inclusive
	w, h   int
	val    []float64
}

func (g *grid) idx(p ipt) int { return (p[0] - g.lo[0]) + g.w*((p[1]-g.lo[1])+g.h*(p[2]-g.lo[2])) }
func (g *grid) in(p ipt) bool {
	return p[0] >= g.lo[0] && p[0] <= g.hi[0] && p[1] >= g.lo[1] && p[1] <= g.hi[1] && p[2] >= g.lo[2] && p[2] <= g.hi[2]
}
func (g *grid) at(p ipt) float64 {
	if !g.in(p) {
		return 0 // never written: the canvas allocates zeroed blocks
	}
	return g.val[g.idx(p)]
}
func (g *grid) size() int { return len(g.val) }

func unionBox(fs []marching.Field, cpu float64) (ipt, ipt) {
	lo := ipt{math.MaxInt32, math.MaxInt32, math.MaxInt32}
	hi := ipt{math.MinInt32, math.MinInt32, math.MinInt32}
	for _, f := range fs {
		a, b := bounds(f, cpu)
		for k := 0; k < 3; k++ {
			if a[k] < lo[k] {
				lo[k] = a[k]
			}
			if b[k]-1 > hi[k] {
				hi[k] = b[k] - 1
			}
		}
	}
	return lo, hi
}

func sampleGrid(fs []marching.Field, cpu float64) *grid {
	lo, hi := unionBox(fs, cpu)
	g := &grid{lo: lo, hi: hi, w: hi[0] - lo[0] + 1, h: hi[1] - lo[1] + 1}
	g.val = make([]float64, g.w*g.h*(hi[2]-lo[2]+1))
	for _, f := range fs {
		fn := fieldFn(f)
		a, b := bounds(f, cpu)
		for z := a[2]; z < b[2]; z++ {
			for y := a[1]; y < b[1]; y++ {
				for x := a[0]; x < b[0]; x++ {
					pos := vector3.New(float64(x), float64(y), float64(z)).DivByConstant(cpu)
					g.val[g.idx(ipt{x, y, z})] += fn(pos)
				}
			}
		}
	}
	return g
}

// the part of the sampled grid around the below-cutoff samples: their bounding box grown by one lattice
// point (all the model needs: cells elsewhere have no below-cutoff corner)
func tightGrid(d *grid, cutoff float64) *grid {
	lo := ipt{math.MaxInt32, math.MaxInt32, math.MaxInt32}
	hi := ipt{math.MinInt32, math.MinInt32, math.MinInt32}
	any := false
	for z := d.lo[2]; z <= d.hi[2]; z++ {
		for y := d.lo[1]; y <= d.hi[1]; y++ {
			for x := d.lo[0]; x <= d.hi[0]; x++ {
				p := ipt{x, y, z}
				if d.val[d.idx(p)] < cutoff {
					any = true
					for k := 0; k < 3; k++ {
						if p[k]-1 < lo[k] {
							lo[k] = p[k] - 1
						}
						if p[k]+1 > hi[k] {
							hi[k] = p[k] + 1
						}
					}
				}
			}
		}
	}
	if !any {
		lo, hi = d.lo, d.lo
	}
	g := &grid{lo: lo, hi: hi, w: hi[0] - lo[0] + 1, h: hi[1] - lo[1] + 1}
	g.val = make([]float64, g.w*g.h*(hi[2]-lo[2]+1))
	for z := lo[2]; z <= hi[2]; z++ {
		for y := lo[1]; y <= hi[1]; y++ {
			for x := lo[0]; x <= hi[0]; x++ {
				p := ipt{x, y, z}
				g.val[g.idx(p)] = d.at(p)
			}
		}
	}
	return g
}

// sample at one lattice point without a dense grid (large cases)
func sampleAt(fs []marching.Field, cpu float64, p ipt) float64 {
	v := 0.0
	for _, f := range fs {
		a, b := bounds(f, cpu)
		if p[0] < a[0] || p[0] >= b[0] || p[1] < a[1] || p[1] >= b[1] || p[2] < a[2] || p[2] >= b[2] {
			continue
		}
		v += fieldFn(f)(vector3.New(float64(p[0]), float64(p[1]), float64(p[2])).DivByConstant(cpu))
	}
	return v
}

func floorDiv(a, b int) int {
	q := a / b
	if (a%b != 0) && ((a < 0) != (b < 0)) {
		q--
	}
	return q
}

// how the implementation welds: the rounding that decides which vertices become one, and whether the
// interpolation parameter is kept away from the corners
type weldScheme struct {
	cells   bool // bucket = round(position in cells * 10^dec) instead of position in world units
	dec     int
	tMargin float64 // crossing parameter clamped to [tMargin, 1-tMargin]
}

var schemeUnits3 = weldScheme{cells: false, dec: 3}
var schemeCells4 = weldScheme{cells: true, dec: 4, tMargin: 1e-3}

func (w weldScheme) key(posUnits vector3.Float64, cpu float64) modeling.VectorInt {
	if w.cells {
		return modeling.Vector3ToInt(posUnits.Scale(cpu), w.dec)
	}
	return modeling.Vector3ToInt(posUnits, w.dec)
}

// crossing point of the grid edge p -> p+axis exactly as marchFloat1BlockPosition computes it when the
// cell `cell` (one of the four around the edge) interpolates from p to p+axis (or the reverse)
func crossingVariant(p ipt, axis int, cell ipt, reverse bool, va, vb, cutoff, cpu float64, w weldScheme) (vector3.Float64, float64) {
	blk := ipt{floorDiv(cell[0], blockSize), floorDiv(cell[1], blockSize), floorDiv(cell[2], blockSize)}
	var a, b [3]float64
	for k := 0; k < 3; k++ {
		a[k] = float64(p[k] - blk[k]*blockSize)
		b[k] = a[k]
	}
	b[axis] = a[axis] + 1
	if reverse {
		a, b = b, a
		va, vb = vb, va
	}
	t := (cutoff - va) / (vb - va)
	if w.tMargin > 0 {
		t = math.Min(math.Max(t, w.tMargin), 1-w.tMargin)
	}
	var q [3]float64
	for k := 0; k < 3; k++ {
		q[k] = (b[k]-a[k])*t + a[k]
		q[k] = q[k] + float64(blk[k])*blockSize
		q[k] = 0 + (q[k]-0)*(1/cpu)
	}
	if reverse {
		t = 1 - t
	}
	return vector3.New(q[0], q[1], q[2]), t
}

type edgeInfo struct {
	p      ipt
	axis   int
	t      float64
	pos    vector3.Float64
	keys   []modeling.VectorInt // distinct weld buckets over the variants
	bucket int
}

// ---------------------------------------------------------------- one case
type outcome struct {
	Big     bool           `json:"big"`
	Coq     string         `json:"coq"`
	GoFail  string         `json:"go_fail"`
	Nontriv bool           `json:"nontriv"`
	Tris    int            `json:"tris"`
	Stats   map[string]int `json:"stats"`
}

func runImpl(d Desc, fs []marching.Field) (m modeling.Mesh, crash string) {
	defer func() {
		if r := recover(); r != nil {
			crash = fmt.Sprint(r)
		}
	}()
	canvas := marching.NewMarchingCanvas(d.Cpu)
	for i, f := range fs {
		if d.AddPar2 {
			canvas.AddFieldParallel2(f)
		} else if d.AddPar {
			canvas.AddFieldParallel(f)
		} else {
			canvas.AddField(f)
		}
		if d.Remarch && i == 0 && len(fs) > 1 {
			// a march between two AddField calls must not influence the later one
			if d.Attr != "" {
				_ = canvas.MarchOnAttribute(d.Attr, d.Cutoff)
			} else {
				_ = canvas.March(d.Cutoff)
			}
		}
	}
	march := func(cutoff float64) modeling.Mesh {
		switch {
		case d.Attr != "" && d.Parallel:
			return canvas.MarchOnAttributeParallel(d.Attr, cutoff)
		case d.Attr != "":
			return canvas.MarchOnAttribute(d.Attr, cutoff)
		case d.Parallel:
			return canvas.MarchParallel(cutoff)
		}
		return canvas.March(cutoff)
	}
	if d.Remarch {
		// marching must not change the canvas: a march at a lower cutoff and one at the same cutoff come first
		_ = march(d.Cutoff - 0.37/d.Cpu)
		first := march(d.Cutoff)
		m = march(d.Cutoff)
		if first.PrimitiveCount() != m.PrimitiveCount() || first.AttributeLength() != m.AttributeLength() {
			crash = fmt.Sprintf("second March of the same canvas differs: %d triangles / %d vertices, then %d / %d",
				first.PrimitiveCount(), first.AttributeLength(), m.PrimitiveCount(), m.AttributeLength())
		}
		return
	}
	m = march(d.Cutoff)
	return
}

func meshData(m modeling.Mesh) ([]vector3.Float64, []int) {
	if m.PrimitiveCount() == 0 {
		return nil, nil
	}
	pos := m.Float3Attribute(marchAttr)
	ps := make([]vector3.Float64, pos.Len())
	for i := range ps {
		ps[i] = pos.At(i)
	}
	ind := m.Indices()
	is := make([]int, ind.Len())
	for i := range is {
		is[i] = ind.At(i)
	}
	return ps, is
}

// long lists are written as first differences: (undz [d0; d1; ...]) / (undn [...]) in Check/C09.v
func deltas(n int, at func(int) int64) []int64 {
	out := make([]int64, n)
	prev := int64(0)
	for i := 0; i < n; i++ {
		out[i] = at(i) - prev
		prev = at(i)
	}
	return out
}
func deltaZ(xs []int64) string {
	return "(undz " + hx.CoqListZ(deltas(len(xs), func(i int) int64 { return xs[i] })) + ")"
}
func deltaN(xs []int) string {
	return "(undn " + hx.CoqListZ(deltas(len(xs), func(i int) int64 { return int64(xs[i]) })) + ")"
}

// NaN / Inf anywhere in the float attributes of the output
func nonFinite(m modeling.Mesh) int {
	n := 0
	bad := func(x float64) bool { return math.IsNaN(x) || math.IsInf(x, 0) }
	for _, atr := range m.Float3Attributes() {
		a := m.Float3Attribute(atr)
		for i := 0; i < a.Len(); i++ {
			v := a.At(i)
			if bad(v.X()) || bad(v.Y()) || bad(v.Z()) {
				n++
			}
		}
	}
	for _, atr := range m.Float1Attributes() {
		a := m.Float1Attribute(atr)
		for i := 0; i < a.Len(); i++ {
			if bad(a.At(i)) {
				n++
			}
		}
	}
	return n
}

// independent closedness count on the index list
func goClosed(idx []int) (dup, unmatched, degenerate int) {
	cnt := map[[2]int]int{}
	for i := 0; i+2 < len(idx); i += 3 {
		a, b, c := idx[i], idx[i+1], idx[i+2]
		if a == b || b == c || a == c {
			degenerate++
		}
		cnt[[2]int{a, b}]++
		cnt[[2]int{b, c}]++
		cnt[[2]int{c, a}]++
	}
	for e, n := range cnt {
		if n > 1 {
			dup++
		}
		if cnt[[2]int{e[1], e[0]}] != n {
			unmatched++
		}
	}
	return
}

func signedVolumeCells(ps []vector3.Float64, idx []int, cpu float64) float64 {
	if len(idx) == 0 {
		return 0
	}
	o := ps[idx[0]]
	vol := 0.0
	for i := 0; i+2 < len(idx); i += 3 {
		a := ps[idx[i]].Sub(o).Scale(cpu)
		b := ps[idx[i+1]].Sub(o).Scale(cpu)
		c := ps[idx[i+2]].Sub(o).Scale(cpu)
		vol += a.Dot(b.Cross(c)) / 6
	}
	return vol
}

// CombineFields / MirrorAxis / Subtract of a field with several Float1 functions depend on the iteration order of a Go
// map (which attribute's closure is built last), and AddFieldParallel2 on the order in which its workers deliver: such
// cases are built and judged up to four times, the first failing outcome is reported.
func evalCase(d Desc) outcome {
	n := 1
	if d.Attr != "" && (d.Mode == "combine" || d.Mode == "mirror" || d.Mode == "subtract" || d.AddPar2) {
		n = 4
	}
	var o outcome
	for i := 0; i < n; i++ {
		o = evalCaseOnce(d)
		if o.GoFail != "" {
			break
		}
	}
	return o
}

func evalCaseOnce(d Desc) outcome {
	out := outcome{Stats: map[string]int{}}
	if d.Attr != "" {
		marchAttr = d.Attr
	}
	fs := buildFields(d)
	ulo, uhi := unionBox(fs, d.Cpu)
	big := (uhi[0]-ulo[0]+1)*(uhi[1]-ulo[1]+1)*(uhi[2]-ulo[2]+1) > maxDensePoints
	var dense *grid
	var g *grid
	if !big {
		dense = sampleGrid(fs, d.Cpu)
		g = tightGrid(dense, d.Cutoff)
		big = g.size() > maxGridPoints
	}
	out.Big = big
	m, crash := runImpl(d, fs)
	if strings.HasPrefix(crash, "second March") {
		out.GoFail = crash
		out.Coq = "CGoOnly"
		return out
	}
	if crash != "" {
		out.GoFail = "implementation panicked: " + crash
		out.Coq = "CGoOnly"
		return out
	}
	ps, idx := meshData(m)
	out.Tris = len(idx) / 3
	out.Nontriv = out.Tris > 0
	fails := []string{}
	if n := nonFinite(m); n > 0 {
		fails = append(fails, fmt.Sprintf("%d non-finite (NaN/Inf) components in the output attributes", n))
	}

	dup, unm, deg := goClosed(idx)
	if dup+unm+deg > 0 {
		fails = append(fails, fmt.Sprintf("not closed: %d directed edges used twice, %d without matching reverse, %d degenerate faces (of %d triangles)", dup, unm, deg, out.Tris))
	}
	if out.Tris > 0 {
		if vol := signedVolumeCells(ps, idx, d.Cpu); !(vol > 0) {
			fails = append(fails, fmt.Sprintf("enclosed volume %g cells^3 is not positive", vol))
		}
	}

	// independent reference field (reference.go): samples, volume, distance from the true isosurface
	if d.Mode != "lattice" {
		ref, complaint := newReference(d, fs)
		if complaint != "" {
			fails = append(fails, complaint)
		}
		if msg := ref.checkDomain(); msg != "" {
			out.Stats["domain-too-small"]++
			fails = append(fails, "declared domain does not contain the below-cutoff region: "+msg)
		}
		if msg := ref.checkVertices(ps); msg != "" {
			fails = append(fails, msg)
		}
		if dense != nil {
			fails = append(fails, ref.checkGrid(dense, signedVolumeCells(ps, idx, d.Cpu), out.Tris)...)
		}
	}

	if big {
		// every vertex lies in a cell with a sign change among its corners
		bad := 0
		for _, v := range ps {
			c := ipt{int(math.Floor(v.X()*d.Cpu + 1e-9)), int(math.Floor(v.Y()*d.Cpu + 1e-9)), int(math.Floor(v.Z()*d.Cpu + 1e-9))}
			neg, pos := false, false
			for dz := -1; dz <= 1; dz++ {
				for dy := -1; dy <= 1; dy++ {
					for dx := -1; dx <= 1; dx++ {
						if sampleAt(fs, d.Cpu, ipt{c[0] + dx, c[1] + dy, c[2] + dz}) < d.Cutoff {
							neg = true
						} else {
							pos = true
						}
					}
				}
			}
			if !(neg && pos) {
				bad++
			}
		}
		if bad > 0 {
			fails = append(fails, fmt.Sprintf("%d vertices farther than one cell from any sign change", bad))
		}
		out.Coq = "CGoOnly"
		out.GoFail = strings.Join(fails, "; ")
		return out
	}

	sign := func(p ipt) bool { return g.at(p) < d.Cutoff }

	// inside points
	inside := []int64{}
	for z := g.lo[2]; z <= g.hi[2]; z++ {
		for y := g.lo[1]; y <= g.hi[1]; y++ {
			for x := g.lo[0]; x <= g.hi[0]; x++ {
				p := ipt{x, y, z}
				if sign(p) {
					inside = append(inside, int64(g.idx(p)))
				}
			}
		}
	}

	// The bucket analysis is done under the weld scheme of the code as it is (positions in world units rounded to
	// 3 decimals) and, if the output does not fit that, under the scheme of the proposed repair
	// fixes/C09-weld-in-cell-units.patch (crossing parameter kept 1e-3 away from the corners, weld in cell units
	// at the 4 decimals of LookupOrAdd).
	type analysis struct {
		vb        []int
		edges     []*edgeInfo
		byBucket  map[int][]*edgeInfo
		skip      bool
		offEdge   int
		dupBucket int
		fails     []string
		stats     map[string]int
	}
	analyse := func(sch weldScheme) *analysis {
		an := &analysis{stats: map[string]int{}}
		// output vertices -> weld buckets
		bucketID := map[modeling.VectorInt]int{}
		vb := make([]int, len(ps))
		dupBucket := 0
		for i, v := range ps {
			k := sch.key(v, d.Cpu)
			if _, ok := bucketID[k]; ok {
				dupBucket++
				// two output vertices in one bucket: the Coq side sees the repeated id (prop_ok fails)
				vb[i] = bucketID[k]
				continue
			}
			bucketID[k] = len(bucketID)
			vb[i] = bucketID[k]
		}
		nVertexBuckets := len(bucketID)
		_ = nVertexBuckets

		// crossed grid edges
		edges := []*edgeInfo{}
		cornerKeys := map[ipt]map[modeling.VectorInt]bool{} // near-corner crossings per lattice point
		ambiguous := 0
		for z := g.lo[2]; z <= g.hi[2]; z++ {
			for y := g.lo[1]; y <= g.hi[1]; y++ {
				for x := g.lo[0]; x <= g.hi[0]; x++ {
					p := ipt{x, y, z}
					for axis := 0; axis < 3; axis++ {
						q := p
						q[axis]++
						if !g.in(q) || sign(p) == sign(q) {
							continue
						}
						va, vbv := g.at(p), g.at(q)
						e := &edgeInfo{p: p, axis: axis}
						u, w := (axis+1)%3, (axis+2)%3
						seen := map[modeling.VectorInt]bool{}
						for du := 0; du <= 1; du++ {
							for dw := 0; dw <= 1; dw++ {
								cell := p
								cell[u] -= du
								cell[w] -= dw
								for _, rev := range []bool{false, true} {
									pos, t := crossingVariant(p, axis, cell, rev, va, vbv, d.Cutoff, d.Cpu, sch)
									if du == 0 && dw == 0 && !rev {
										e.pos, e.t = pos, t
									}
									k := sch.key(pos, d.Cpu)
									if !seen[k] {
										seen[k] = true
										e.keys = append(e.keys, k)
									}
								}
							}
						}
						if !(e.t >= 0 && e.t <= 1) {
							an.fails = append(an.fails, fmt.Sprintf("crossing parameter %g outside [0,1] on edge %v axis %d", e.t, p, axis))
						}
						edges = append(edges, e)
						const near = 2e-4
						if e.t > 0 && e.t < near {
							if cornerKeys[p] == nil {
								cornerKeys[p] = map[modeling.VectorInt]bool{}
							}
							cornerKeys[p][e.keys[0]] = true
						}
						if e.t < 1 && e.t > 1-near {
							if cornerKeys[q] == nil {
								cornerKeys[q] = map[modeling.VectorInt]bool{}
							}
							cornerKeys[q][e.keys[0]] = true
						}
					}
				}
			}
		}
		skip := false
		for _, ks := range cornerKeys {
			if len(ks) > 1 {
				skip = true
				an.stats["skip:inblock-dedupe-vs-final-bucket"]++
				break
			}
		}
		for _, e := range edges {
			chosen := -1
			if len(e.keys) > 1 {
				present := 0
				for i, k := range e.keys {
					if _, ok := bucketID[k]; ok {
						present++
						chosen = i
					}
				}
				if present != 1 {
					ambiguous++
					chosen = 0
				}
			} else {
				chosen = 0
			}
			k := e.keys[chosen]
			id, ok := bucketID[k]
			if !ok {
				id = len(bucketID)
				bucketID[k] = id
			}
			e.bucket = id
		}
		if ambiguous > 0 {
			skip = true
			an.stats["skip:crossing-on-bucket-boundary"]++
		}

		// every output vertex coincides with the crossing point of an edge of its bucket
		byBucket := map[int][]*edgeInfo{}
		for _, e := range edges {
			byBucket[e.bucket] = append(byBucket[e.bucket], e)
		}
		for _, es := range byBucket {
			if len(es) > 1 {
				an.stats["merged-buckets"]++
			}
		}
		offEdge := 0
		for i, v := range ps {
			best := math.Inf(1)
			for _, e := range byBucket[vb[i]] {
				if dd := v.Distance(e.pos); dd < best {
					best = dd
				}
			}
			if best > 1e-9 {
				offEdge++
			}
		}
		an.vb, an.edges, an.byBucket, an.skip, an.offEdge, an.dupBucket = vb, edges, byBucket, skip, offEdge, dupBucket
		return an
	}
	// the weld of the code as repaired by 3a3ee8c (cell units, 4 decimals, parameter kept 1e-3 off the corners); the
	// old scheme (world units, 3 decimals) is no longer accepted as an alternative: a vertex that sits ON a lattice
	// corner fits the old scheme but not the model
	an := analyse(schemeCells4)
	out.Stats["weld-scheme:cells-4-decimals"]++
	_ = schemeUnits3
	vb, edges, byBucket, skip, offEdge, dupBucket := an.vb, an.edges, an.byBucket, an.skip, an.offEdge, an.dupBucket
	fails = append(fails, an.fails...)
	for k, v := range an.stats {
		out.Stats[k] += v
	}
	if offEdge > 0 && !skip {
		fails = append(fails, fmt.Sprintf("%d output vertices are not the crossing point of a grid edge with a sign change", offEdge))
	}

	// orientation: for every triangle, normal . (sum of the inside->outside directions of the grid
	// edges its vertices sit on) > 0.  Only evaluated when every vertex bucket holds a single edge.
	if !skip {
		badOrient, judged := 0, 0
		for i := 0; i+2 < len(idx); i += 3 {
			var dsum vector3.Float64
			ok := true
			for k := 0; k < 3; k++ {
				es := byBucket[vb[idx[i+k]]]
				if len(es) != 1 {
					ok = false
					break
				}
				e := es[0]
				dir := [3]float64{}
				if sign(e.p) {
					dir[e.axis] = 1
				} else {
					dir[e.axis] = -1
				}
				dsum = dsum.Add(v3(dir))
			}
			if !ok {
				continue
			}
			judged++
			a, b, c := ps[idx[i]], ps[idx[i+1]], ps[idx[i+2]]
			n := b.Sub(a).Cross(c.Sub(a))
			if !(n.Dot(dsum) > 0) {
				badOrient++
			}
		}
		out.Stats["orient:judged"] += judged
		if badOrient > 0 {
			fails = append(fails, fmt.Sprintf("%d of %d triangles face from outside to inside", badOrient, judged))
		}
	}

	if d.FieldMarch && len(fs) == 1 {
		fm, st := checkFieldMarch(d, fs[0], dense, g, ps, idx)
		fails = append(fails, fm...)
		for k, v := range st {
			out.Stats[k] += v
		}
	}

	// Coq term
	var sb strings.Builder
	ecodes := make([]int64, len(edges))
	ebuckets := make([]int, len(edges))
	for i, e := range edges {
		ecodes[i] = int64(3*g.idx(e.p) + e.axis)
		ebuckets[i] = e.bucket
	}
	fmt.Fprintf(&sb, "CGrid (%s,%s,%s) (%s,%s,%s)\n  %s\n  %s\n  %s\n  %s\n  %s %s",
		hx.CoqZ(int64(g.lo[0])), hx.CoqZ(int64(g.lo[1])), hx.CoqZ(int64(g.lo[2])),
		hx.CoqZ(int64(g.hi[0])), hx.CoqZ(int64(g.hi[1])), hx.CoqZ(int64(g.hi[2])),
		deltaZ(inside), deltaZ(ecodes), deltaN(ebuckets), deltaN(vb), deltaN(idx), hx.CoqBool(skip))
	out.Coq = sb.String()
	out.GoFail = strings.Join(fails, "; ")
	out.Stats["grid-points"] = g.size()
	if dupBucket > 0 {
		out.Stats["two-vertices-one-bucket"]++
	}
	return out
}

// ---------------------------------------------------------------- Field.March / Field.Voxelize
// The second marching path of the package (field.go): no canvas, every cell evaluates the field function at its
// own eight corners (world units), vertices are not kept off the corners and the weld rounds WORLD positions to 3
// decimals.  It is judged only where that weld cannot tell on the result: every sample at least 1e-7 away from the
// cutoff (the corner positions of neighbouring cells differ in the last bit), no two crossing points in one weld
// bucket and none within 1e-6 of a bucket boundary.  Then: no crash, nothing non-finite, closed, as many triangles
// and vertices as the canvas gave, every vertex within 1.5e-3 cells of a canvas vertex, positive volume, the
// interpolated Float1 value at every vertex equal to the cutoff; Voxelize returns exactly the below-cutoff samples.
func checkFieldMarch(d Desc, f marching.Field, dense, g *grid, ps []vector3.Float64, idx []int) (fails []string, st map[string]int) {
	st = map[string]int{}
	if dense == nil || dense.size() > 400000 {
		st["field-march:skipped-large"]++
		return
	}
	// C09_FM_NOGUARD=1 (exploration only): judge Field.March also where its weld is known to interfere
	noGuard := os.Getenv("C09_FM_NOGUARD") != ""
	scale := 0.0
	inside := 0
	for _, v := range dense.val {
		if math.Abs(v-d.Cutoff) < 1e-7 && !noGuard {
			st["field-march:skipped-sample-on-cutoff"]++
			return
		}
		if v < d.Cutoff {
			inside++
		}
		if a := math.Abs(v); a > scale {
			scale = a
		}
	}
	// crossing points as Field.March computes them (no clamp), their weld buckets in world units
	seen := map[modeling.VectorInt]bool{}
	for z := g.lo[2]; z <= g.hi[2]; z++ {
		for y := g.lo[1]; y <= g.hi[1]; y++ {
			for x := g.lo[0]; x <= g.hi[0]; x++ {
				p := ipt{x, y, z}
				for axis := 0; axis < 3; axis++ {
					q := p
					q[axis]++
					if !g.in(q) || (g.at(p) < d.Cutoff) == (g.at(q) < d.Cutoff) {
						continue
					}
					t := (d.Cutoff - g.at(p)) / (g.at(q) - g.at(p))
					var c [3]float64
					for k := 0; k < 3; k++ {
						c[k] = float64(p[k])
					}
					c[axis] += t
					for k := 0; k < 3; k++ {
						c[k] /= d.Cpu
						fr := c[k]*1000 - math.Floor(c[k]*1000)
						if math.Abs(fr-0.5) < 1e-6 && !noGuard {
							st["field-march:skipped-crossing-on-bucket-boundary"]++
							return
						}
					}
					k := modeling.Vector3ToInt(vector3.New(c[0], c[1], c[2]), 3)
					if seen[k] && !noGuard {
						st["field-march:skipped-weld-would-merge"]++
						return
					}
					seen[k] = true
				}
			}
		}
	}
	var m modeling.Mesh
	var vox []vector3.Float64
	crash := ""
	func() {
		defer func() {
			if r := recover(); r != nil {
				crash = fmt.Sprint(r)
			}
		}()
		m = f.March(marchAttr, d.Cpu, d.Cutoff)
		vox = f.Voxelize(marchAttr, d.Cpu, d.Cutoff)
	}()
	if crash != "" {
		return []string{"Field.March / Voxelize panicked: " + crash}, st
	}
	st["field-march:judged"]++
	if len(vox) != inside {
		fails = append(fails, fmt.Sprintf("Field.Voxelize returns %d points, %d lattice samples are below the cutoff", len(vox), inside))
	}
	if n := nonFinite(m); n > 0 {
		fails = append(fails, fmt.Sprintf("Field.March: %d non-finite components in the output attributes", n))
	}
	fps, fidx := meshData(m)
	if len(fidx) != len(idx) || len(fps) != len(ps) {
		fails = append(fails, fmt.Sprintf("Field.March gives %d triangles / %d vertices, the canvas %d / %d", len(fidx)/3, len(fps), len(idx)/3, len(ps)))
	}
	if dup, unm, deg := goClosed(fidx); dup+unm+deg > 0 {
		fails = append(fails, fmt.Sprintf("Field.March output not closed: %d directed edges used twice, %d without matching reverse, %d degenerate faces (of %d triangles)", dup, unm, deg, len(fidx)/3))
	}
	if len(fidx) > 0 {
		if vol := signedVolumeCells(fps, fidx, d.Cpu); !(vol > 0) {
			fails = append(fails, fmt.Sprintf("Field.March: enclosed volume %g cells^3 is not positive", vol))
		}
	}
	// vertex sets agree (the canvas keeps its vertices 1e-3 cells off the corners)
	near := map[modeling.VectorInt][]vector3.Float64{}
	for _, v := range ps {
		k := modeling.Vector3ToInt(v.Scale(d.Cpu), 1)
		near[k] = append(near[k], v)
	}
	far := 0
	for _, v := range fps {
		k := modeling.Vector3ToInt(v.Scale(d.Cpu), 1)
		best := math.Inf(1)
		for dx := -1; dx <= 1; dx++ {
			for dy := -1; dy <= 1; dy++ {
				for dz := -1; dz <= 1; dz++ {
					for _, w := range near[modeling.VectorInt{X: k.X + dx, Y: k.Y + dy, Z: k.Z + dz}] {
						if dd := v.Distance(w) * d.Cpu; dd < best {
							best = dd
						}
					}
				}
			}
		}
		if best > 1.5e-3 {
			far++
		}
	}
	if far > 0 {
		fails = append(fails, fmt.Sprintf("Field.March: %d of %d vertices are not within 1.5e-3 cells of a vertex of the canvas surface", far, len(fps)))
	}
	// the field value interpolated to the vertex is the cutoff
	// (not where the field has huge samples -- MultiSegmentLine's "no segment here" is math.MaxFloat64 --: the lerp
	// (v2 - v1) * t + v1 then loses every digit)
	if scale > 1e6 {
		st["field-march:value-check-skipped-huge-samples"]++
	} else if len(fidx) > 0 && m.HasFloat1Attribute(marchAttr) {
		a := m.Float1Attribute(marchAttr)
		off := 0
		for i := 0; i < a.Len(); i++ {
			if math.Abs(a.At(i)-d.Cutoff) > 1e-9*(1+scale) {
				off++
			}
		}
		if off > 0 {
			fails = append(fails, fmt.Sprintf("Field.March: the interpolated field value differs from the cutoff at %d of %d vertices", off, a.Len()))
		}
	}
	return
}

// ---------------------------------------------------------------- generators
var cpus = []float64{3, 4, 5, 6, 7.5, 8, 10, 12.5, 16, 20, 25, 32, 33, 40}

func genCpu(r *hx.Rng) float64 {
	if r.Chance(1, 4) {
		return 3 + 37*r.Float()
	}
	return hx.Pick(r, cpus)
}

func genCutoff(r *hx.Rng, cpu float64) float64 {
	switch r.Intn(4) {
	case 0:
		return -0.3 * r.Float() / cpu
	case 1:
		return -1 / cpu
	}
	return 0
}

// anchor (in cells) of a shape: on or near a block boundary in 0..3 axes (possibly negative), elsewhere
// anywhere.  Marching one 100^3 block costs seconds, so the number of blocks touched is kept small.
func genAnchor(r *hx.Rng) [3]float64 {
	var a [3]float64
	nStraddle := 0
	switch x := r.Intn(100); {
	case x < 35:
		nStraddle = 0
	case x < 75:
		nStraddle = 1
	case x < 92:
		nStraddle = 2
	default:
		nStraddle = 3
	}
	perm := r.Perm(3)
	for i, k := range perm {
		if i < nStraddle {
			if r.Chance(1, 3) {
				a[k] = float64(blockSize * r.Range(-2, 2)) // exactly on it
			} else {
				a[k] = float64(blockSize*r.Range(-2, 2)) + float64(r.Range(-3, 3)) + r.Float()
			}
			continue
		}
		// well inside a block
		a[k] = float64(blockSize*r.Range(-2, 1)) + float64(r.Range(25, 75)) + r.Float()
	}
	return a
}

func genShape(r *hx.Rng, cpu float64, anchor [3]float64, spread float64, allowLong bool) Shape {
	var c [3]float64
	for k := 0; k < 3; k++ {
		c[k] = (anchor[k] + (r.Float()*2-1)*spread) / cpu
	}
	strength := 1.0
	if r.Chance(1, 3) {
		strength = 1 + 2*r.Float()
	}
	switch r.Intn(3) {
	case 0:
		return Shape{Kind: "sphere", P: c, R: (0.8 + 5*r.Float()) / cpu, S: strength}
	case 1:
		var q [3]float64
		for k := 0; k < 3; k++ {
			q[k] = (1 + 7*r.Float()) / cpu
			if r.Chance(1, 4) {
				q[k] = float64(r.Range(1, 6)) / cpu
			}
		}
		if r.Chance(1, 3) { // lattice aligned: samples exactly on the faces
			for k := 0; k < 3; k++ {
				c[k] = math.Round(c[k]*cpu) / cpu
			}
		}
		return Shape{Kind: "box", P: c, Q: q, S: strength}
	}
	var e [3]float64
	if allowLong && r.Chance(1, 4) {
		// long thin capsule along one axis: crosses one or two block boundaries
		ax := r.Intn(3)
		e = c
		e[ax] += float64(r.Range(90, 215)) / cpu
		e[(ax+1)%3] += (r.Float()*4 - 2) / cpu
		e[(ax+2)%3] += (r.Float()*4 - 2) / cpu
		return Shape{Kind: "line", P: c, Q: e, R: (0.8 + 1.5*r.Float()) / cpu, S: strength}
	}
	for k := 0; k < 3; k++ {
		e[k] = c[k] + (r.Float()*16-8)/cpu
	}
	return Shape{Kind: "line", P: c, Q: e, R: (0.8 + 2.5*r.Float()) / cpu, S: strength}
}

func genShapes(r *hx.Rng) Desc {
	cpu := genCpu(r)
	d := Desc{Cpu: cpu, Cutoff: genCutoff(r, cpu), Mode: "add", Parallel: r.Chance(1, 3), AddPar: r.Chance(1, 5)}
	if r.Chance(1, 2) {
		d.Mode = "combine"
	}
	if r.Chance(1, 10) {
		// a single thin shape longer than a block
		ds := throughBlockStream(r)
		return ds[r.Intn(len(ds)-1)]
	}
	n := 1 + r.Intn(4)
	anchor := genAnchor(r)
	for i := 0; i < n; i++ {
		d.Shapes = append(d.Shapes, genShape(r, cpu, anchor, 5, n == 1))
	}
	return d
}

// ---- systematic streams tied to the storage blocks ----

// a lattice-aligned box whose below-cutoff samples are exactly the lattice points lo..hi (faces half a cell
// outside them); 8 cubes per unit so that every coordinate is exact
func sampleBox(lo, hi [3]int, cpu float64, note string) Desc {
	var c, q [3]float64
	for k := 0; k < 3; k++ {
		c[k] = (float64(lo[k]+hi[k]) / 2) / cpu
		q[k] = float64(hi[k]-lo[k]+1) / cpu
	}
	return Desc{Cpu: cpu, Mode: "add", Note: note, Shapes: []Shape{{Kind: "box", P: c, Q: q, S: 1}}}
}

// interior coordinate of some block (possibly a negative one) for the axes a shape does not run along
func interiorCoord(r *hx.Rng) int { return blockSize*r.Range(-2, 1) + r.Range(20, 70) }

// Shapes that run THROUGH a whole block along one axis: longer than 100 cells, thin, entering and leaving the
// block through its first and last sample plane.
//   - per axis a beam whose below-cutoff samples span exactly 100m-1 .. 100m+100 (last plane of block m-1, all of
//     block m, first plane of block m+1) and one spanning exactly 100m .. 100m+99 (the block's own planes),
//   - per axis a capsule 101..260 cells long starting up to 30 cells before a block boundary, slightly tilted,
//   - one capsule diagonal in a coordinate plane, more than 100 cells along both axes.
func throughBlockStream(r *hx.Rng) []Desc {
	out := []Desc{}
	for ax := 0; ax < 3; ax++ {
		for v := 0; v < 2; v++ {
			m := r.Range(-2, 1)
			var lo, hi [3]int
			for k := 0; k < 3; k++ {
				lo[k] = interiorCoord(r)
				hi[k] = lo[k] + r.Range(1, 2)
			}
			if v == 0 {
				lo[ax], hi[ax] = blockSize*m-1, blockSize*m+blockSize
			} else {
				lo[ax], hi[ax] = blockSize*m, blockSize*m+blockSize-1
			}
			d := sampleBox(lo, hi, 8, fmt.Sprintf("beam through block %d along axis %d, below-cutoff samples %d..%d", m, ax, lo[ax], hi[ax]))
			d.Parallel = r.Chance(1, 3)
			out = append(out, d)
		}
		cpu := hx.Pick(r, []float64{3, 4, 5, 6, 8, 10})
		m := r.Range(-2, 1)
		var a, b [3]float64
		for k := 0; k < 3; k++ {
			a[k] = float64(interiorCoord(r)) + r.Float()
			b[k] = a[k] + (r.Float()*2 - 1)
		}
		a[ax] = float64(blockSize*m) - float64(r.Range(1, 30)) - r.Float()
		b[ax] = a[ax] + float64(r.Range(101, 260)) + r.Float()
		var p, q [3]float64
		for k := 0; k < 3; k++ {
			p[k], q[k] = a[k]/cpu, b[k]/cpu
		}
		if r.Bool() {
			p, q = q, p
		}
		out = append(out, Desc{Cpu: cpu, Cutoff: genCutoff(r, cpu), Mode: "add", Parallel: r.Chance(1, 3),
			Note:   fmt.Sprintf("capsule through whole blocks along axis %d", ax),
			Shapes: []Shape{{Kind: "line", P: p, Q: q, R: (0.9 + 0.8*r.Float()) / cpu, S: 1}}})
	}
	// diagonal in a coordinate plane
	{
		cpu := hx.Pick(r, []float64{3, 4, 5})
		u := r.Intn(3)
		w := (u + 1 + r.Intn(2)) % 3
		var a, b [3]float64
		for k := 0; k < 3; k++ {
			a[k] = float64(interiorCoord(r)) + r.Float()
			b[k] = a[k] + (r.Float()*2 - 1)
		}
		for _, k := range []int{u, w} {
			a[k] = float64(blockSize*r.Range(-1, 0)) - float64(r.Range(1, 25)) - r.Float()
			b[k] = a[k] + float64(r.Range(128, 160)) + r.Float()
		}
		var p, q [3]float64
		for k := 0; k < 3; k++ {
			p[k], q[k] = a[k]/cpu, b[k]/cpu
		}
		out = append(out, Desc{Cpu: cpu, Mode: "add", Note: fmt.Sprintf("capsule diagonal in the plane of axes %d and %d, through whole blocks", u, w),
			Shapes: []Shape{{Kind: "line", P: p, Q: q, R: (0.9 + 0.5*r.Float()) / cpu, S: 1}}})
	}
	return out
}

// Every exported field constructor / combinator of modeling/marching that follows the signed-distance convention,
// at strength 0.5, 1, 2 and 10, thin (about one cell) and thick (three to four cells) relative to the grid, all
// judged against the reference field.  `all` = both thicknesses for every (constructor, strength); otherwise they
// alternate.  `smallDomains` also generates the parameter ranges for which the constructor declares a domain that
// does not contain the shape (Sphere with strength < 1, VarryingThicknessLine with strength < radius).
func constructorStream(r *hx.Rng, all, smallDomains bool, seed int) []Desc {
	out := []Desc{}
	kinds := []string{"sphere", "box", "line", "multiline", "vline", "subtract", "mirror", "translate", "combine"}
	for ki, kind := range kinds {
		for si, strength := range []float64{0.5, 1, 2, 10} {
			for thick := 0; thick < 2; thick++ {
				// quick: one (strength, thickness) per constructor, rotating with the seed
				keep := all || (si == (ki+seed)%4 && thick == (ki+seed/4)%2)
				cpu := hx.Pick(r, []float64{2, 3, 4, 5, 8})
				if strength == 10 {
					cpu = hx.Pick(r, []float64{2, 3, 4}) // Box pads its domain by `strength` world units
				}
				rad := (0.7 + 0.6*r.Float()) / cpu
				if thick == 1 {
					rad = (3 + r.Float()) / cpu
				}
				var c [3]float64
				for k := 0; k < 3; k++ {
					c[k] = float64(interiorCoord(r)) + r.Float()
				}
				at := func(dx, dy, dz float64) [3]float64 {
					return [3]float64{(c[0] + dx) / cpu, (c[1] + dy) / cpu, (c[2] + dz) / cpu}
				}
				poly := [][3]float64{at(0, 0, 0), at(5+r.Float(), 0.3*r.Float(), 0), at(5.5, 4+r.Float(), 0.3*r.Float()), at(5.5, 4.5, 5+r.Float())}
				d := Desc{Cpu: cpu, Mode: "add", Parallel: r.Chance(1, 4)}
				if r.Chance(1, 3) {
					d.Cutoff = -0.3 * strength / cpu
				}
				small := false
				switch kind {
				case "sphere":
					d.Shapes = []Shape{{Kind: "sphere", P: at(0, 0, 0), R: rad, S: strength}}
					small = strength < 1
				case "box":
					d.Shapes = []Shape{{Kind: "box", P: at(0, 0, 0), Q: [3]float64{2 * rad, 2.5 * rad, 1.6 * rad}, S: strength}}
				case "line":
					d.Shapes = []Shape{{Kind: "line", P: poly[0], Q: poly[2], R: rad, S: strength}}
				case "multiline":
					d.Shapes = []Shape{{Kind: "multiline", Pts: poly, R: rad, S: strength}}
				case "vline":
					d.Shapes = []Shape{{Kind: "vline", Pts: poly, Rs: []float64{rad, 0.7 * rad, 1.2 * rad, 0.8 * rad}, S: strength}}
					small = strength < 1.2*rad*1.0001+2/cpu
				case "subtract":
					// marching.Subtract starts its domain from geometry.NewEmptyAABB(), which is the point (0,0,0), so
					// the sampled box always reaches to the world origin: keep the shape close to it
					for k := 0; k < 3; k++ {
						c[k] = float64(r.Range(-12, 12)) + r.Float()
					}
					d.Mode = "subtract"
					d.Shapes = []Shape{{Kind: "box", P: at(0, 0, 0), Q: [3]float64{2.5 * rad, 2.5 * rad, 2.5 * rad}, S: strength},
						{Kind: "sphere", P: at(rad*cpu, rad*cpu, 0.2), R: rad, S: math.Max(strength, 1)}}
				case "mirror":
					d.Mode, d.Axis = "mirror", r.Intn(3)
					// the mirror plane is a coordinate plane of the world: put the shape next to it
					var p [3]float64
					for k := 0; k < 3; k++ {
						p[k] = (float64(r.Range(10, 40)) + r.Float()) / cpu
					}
					p[d.Axis] = rad * (0.3 + r.Float())
					d.Shapes = []Shape{{Kind: "line", P: p, Q: [3]float64{p[0] + 3/cpu, p[1] + 2/cpu, p[2] + 1/cpu}, R: rad, S: strength}}
				case "translate":
					d.Shift = [3]float64{-7.25, 3.5, 11.125}
					d.Shapes = []Shape{{Kind: "line", P: poly[0], Q: poly[1], R: rad, S: strength}}
				case "combine":
					d.Mode = "combine"
					d.Shapes = []Shape{{Kind: "multiline", Pts: poly, R: rad, S: strength}, {Kind: "box", P: poly[1], Q: [3]float64{2 * rad, 2 * rad, 2 * rad}, S: strength}}
				}
				if (small && !smallDomains) || !keep {
					continue
				}
				th := "thin"
				if thick == 1 {
					th = "thick"
				}
				d.Note = fmt.Sprintf("constructor %s, strength %g, %s", kind, strength, th)
				out = append(out, d)
			}
		}
	}
	// degenerate capsules (start = end: a sphere), alone, inside a union, and as a repeated point of a polyline
	{
		cpu := hx.Pick(r, []float64{5, 8, 10})
		var c [3]float64
		for k := 0; k < 3; k++ {
			c[k] = (float64(interiorCoord(r)) + r.Float()) / cpu
		}
		p := [3]float64{c[0] + 5/cpu, c[1] + 0.6/cpu, c[2] + 0.4/cpu}
		ball := Shape{Kind: "line", P: p, Q: p, R: 3.5 / cpu, S: 1}
		box := Shape{Kind: "box", P: c, Q: [3]float64{9 / cpu, 8 / cpu, 7 / cpu}, S: 1}
		out = append(out,
			Desc{Cpu: cpu, Mode: "add", Shapes: []Shape{ball}, Note: "constructor line with coinciding end points"},
			Desc{Cpu: cpu, Mode: "combine", Shapes: []Shape{box, ball}, Note: "constructor combine: box and a line with coinciding end points"},
			Desc{Cpu: cpu, Mode: "add", Shapes: []Shape{{Kind: "multiline", Pts: [][3]float64{c, p, p, {p[0], p[1] + 6/cpu, p[2]}}, R: 2.2 / cpu, S: 1}},
				Note: "constructor multiline with a repeated point"})
	}
	return out
}

// Unions judged against the independent reference field: two or three members that overlap, are nested or are
// disjoint, at cutoff 0, half a cell and one and a half cells below zero, through CombineFields and through one
// AddField per member (18 cases, all well inside one block).
func unionStream(r *hx.Rng, all bool, seed int) []Desc {
	out := []Desc{}
	for li, layout := range []string{"overlapping", "nested", "disjoint"} {
		for ci, depth := range []float64{0, 0.5, 1.5} {
			for mi, mode := range []string{"combine", "add"} {
				keep := all || (li+ci+mi+seed)%3 == 0
				cpu := hx.Pick(r, []float64{4, 5, 8, 10, 12.5, 16})
				var c [3]float64
				for k := 0; k < 3; k++ {
					c[k] = float64(interiorCoord(r)) + r.Float()
				}
				at := func(dx, dy, dz float64) [3]float64 {
					return [3]float64{(c[0] + dx) / cpu, (c[1] + dy) / cpu, (c[2] + dz) / cpu}
				}
				var shapes []Shape
				switch layout {
				case "overlapping":
					shapes = []Shape{
						{Kind: "sphere", P: at(0, 0, 0), R: (4 + r.Float()) / cpu, S: 1},
						{Kind: "sphere", P: at(3+r.Float(), 1, 0), R: (3.5 + r.Float()) / cpu, S: 1},
						{Kind: "line", P: at(-2, -1, 1), Q: at(4, 3, -1), R: (2.5 + r.Float()) / cpu, S: 1},
					}
				case "nested":
					shapes = []Shape{
						{Kind: "sphere", P: at(0.5, 0, 0), R: (2 + r.Float()) / cpu, S: 1},
						{Kind: "sphere", P: at(0, 0, 0), R: (5.5 + r.Float()) / cpu, S: 1},
						{Kind: "box", P: at(0, 0.5, 0), Q: [3]float64{3 / cpu, 4 / cpu, 2.5 / cpu}, S: 1},
					}
				default:
					shapes = []Shape{
						{Kind: "sphere", P: at(-6, 0, 0), R: (3 + r.Float()) / cpu, S: 1},
						{Kind: "sphere", P: at(6, 0, 0), R: (3 + r.Float()) / cpu, S: 1},
					}
				}
				if (ci+len(out))%2 == 1 {
					shapes[0], shapes[1] = shapes[1], shapes[0]
				}
				if !keep {
					continue
				}
				out = append(out, Desc{Cpu: cpu, Cutoff: -depth / cpu, Mode: mode, Shapes: shapes, Parallel: r.Chance(1, 4),
					Note: fmt.Sprintf("%s members, cutoff %.1f cells below zero", layout, depth)})
			}
		}
	}
	return out
}

// Short shapes whose extreme below-cutoff sample lies exactly on the first (index 0) or last (index 99) sample
// plane of a block: for every axis, for the lower and the upper end of the shape, for both planes, alternating
// between negative and non-negative blocks (12 cases).
func blockPlaneStream(r *hx.Rng) []Desc {
	out := []Desc{}
	n := 0
	for ax := 0; ax < 3; ax++ {
		for _, upper := range []bool{false, true} {
			for _, plane := range []int{0, blockSize - 1} {
				m := r.Range(0, 1)
				if n%2 == 1 {
					m = r.Range(-2, -1)
				}
				n++
				var lo, hi [3]int
				for k := 0; k < 3; k++ {
					lo[k] = interiorCoord(r)
					hi[k] = lo[k] + r.Range(1, 3)
				}
				ext := blockSize*m + plane
				if upper {
					lo[ax], hi[ax] = ext-r.Range(2, 4), ext
				} else {
					lo[ax], hi[ax] = ext, ext+r.Range(2, 4)
				}
				end := "lowest"
				if upper {
					end = "highest"
				}
				d := sampleBox(lo, hi, hx.Pick(r, []float64{4, 8, 16}), fmt.Sprintf("%s below-cutoff sample along axis %d at lattice coordinate %d (index %d of block %d)", end, ax, ext, plane, m))
				d.Parallel = r.Chance(1, 3)
				out = append(out, d)
			}
		}
	}
	return out
}

// arbitrary sign pattern on a small lattice (outer layer above the cutoff).  Without `pinch` every sample is
// at least 0.2 away from the cutoff and at most 2, so that two crossing points are never closer than 0.09
// cells; with it, samples may sit exactly on the cutoff or very close to it (the surface then passes
// through a lattice point and the position-based weld merges the crossing points around it).
func genLattice(r *hx.Rng, pinch bool) Desc {
	cpu := genCpu(r)
	d := Desc{Cpu: cpu, Mode: "lattice", Parallel: r.Chance(1, 3)}
	if r.Chance(1, 3) {
		d.Cutoff = -0.5
	}
	for k := 0; k < 3; k++ {
		d.Dim[k] = r.Range(3, 7)
		a := genAnchor(r)
		d.Org[k] = int(math.Floor(a[k])) - d.Dim[k]/2
	}
	density := r.Range(1, 7)
	d.Vals = make([]float64, d.Dim[0]*d.Dim[1]*d.Dim[2])
	for z := 0; z < d.Dim[2]; z++ {
		for y := 0; y < d.Dim[1]; y++ {
			for x := 0; x < d.Dim[0]; x++ {
				i := x + d.Dim[0]*(y+d.Dim[1]*z)
				border := x == 0 || y == 0 || z == 0 || x == d.Dim[0]-1 || y == d.Dim[1]-1 || z == d.Dim[2]-1
				mag := 0.2 + 1.8*r.Float()
				if r.Chance(1, 3) {
					mag = hx.Pick(r, []float64{0.25, 0.5, 1, 2})
				}
				switch {
				case border:
					d.Vals[i] = d.Cutoff + mag
				case r.Intn(8) < density:
					d.Vals[i] = d.Cutoff - mag
				default:
					d.Vals[i] = d.Cutoff + mag
					if pinch && r.Chance(1, 6) {
						d.Vals[i] = d.Cutoff + hx.Pick(r, []float64{0, 0, 1e-3, 1e-6})
					}
				}
			}
		}
	}
	if pinch {
		d.Note = "samples on or next to the cutoff"
	}
	return d
}

// the cell whose corner signs are the bits of `bits` (x fastest), everything around it outside
func caseLattice(bits int, org [3]int, cpu float64, r *hx.Rng) Desc {
	d := Desc{Cpu: cpu, Mode: "lattice", Org: org, Dim: [3]int{4, 4, 4}, Note: fmt.Sprintf("cell pattern %#02x", bits)}
	d.Vals = make([]float64, 64)
	for i := range d.Vals {
		d.Vals[i] = 0.2 + r.Float()
	}
	for k := 0; k < 8; k++ {
		if bits>>k&1 == 1 {
			x, y, z := 1+k&1, 1+k>>1&1, 1+k>>2&1
			d.Vals[x+4*(y+4*z)] = -0.2 - r.Float()
		}
	}
	return d
}

// all 256 corner patterns side by side: a sheet that is 4 lattice points thick along `thin` and
// 49 x 49 in the other two axes; pattern 16*k+j sits in the 4x4x4 sub-lattice at (3j, 3k) of the sheet
// (neighbouring patterns share their outer layer of above-cutoff samples)
func sheetLattice(thin int, org [3]int, cpu float64, r *hx.Rng, k0 int) Desc {
	u, w := (thin+1)%3, (thin+2)%3
	d := Desc{Cpu: cpu, Mode: "lattice", Org: org, Note: fmt.Sprintf("cell patterns %d..%d, sheet normal to axis %d", 16*k0, 16*k0+127, thin)}
	d.Org[w] += 3 * k0
	d.Dim[thin], d.Dim[u], d.Dim[w] = 4, 49, 25
	d.Vals = make([]float64, 4*49*25)
	for i := range d.Vals {
		d.Vals[i] = 0.2 + r.Float()
	}
	for bits := 16 * k0; bits < 16*k0+128; bits++ {
		j, k := bits%16, bits/16-k0
		for c := 0; c < 8; c++ {
			if bits>>c&1 == 1 {
				var p [3]int
				p[thin] = 1 + c&1
				p[u] = 3*j + 1 + c>>1&1
				p[w] = 3*k + 1 + c>>2&1
				d.Vals[p[0]+d.Dim[0]*(p[1]+d.Dim[1]*p[2])] = -0.2 - r.Float()
			}
		}
	}
	return d
}

// the single pattern (j, k) of a sheet, at the same place
func sheetSingle(sheet Desc, thin, bits, k0 int) Desc {
	u, w := (thin+1)%3, (thin+2)%3
	j, k := bits%16, bits/16-k0
	d := Desc{Cpu: sheet.Cpu, Mode: "lattice", Dim: [3]int{4, 4, 4}, Parallel: sheet.Parallel,
		Note: fmt.Sprintf("cell pattern %d of the sheet normal to axis %d", bits, thin)}
	d.Org = sheet.Org
	d.Org[u] += 3 * j
	d.Org[w] += 3 * k
	d.Vals = make([]float64, 64)
	for z := 0; z < 4; z++ {
		for y := 0; y < 4; y++ {
			for x := 0; x < 4; x++ {
				p := [3]int{x, y, z}
				q := p
				q[u] += 3 * j
				q[w] += 3 * k
				v := sheet.Vals[q[0]+sheet.Dim[0]*(q[1]+sheet.Dim[1]*q[2])]
				if v < 0 && (p[u] == 0 || p[u] == 3 || p[w] == 0 || p[w] == 3) {
					v = 0.5 // a corner of the neighbouring pattern
				}
				d.Vals[x+4*(y+4*z)] = v
			}
		}
	}
	return d
}

func genBig(r *hx.Rng) Desc {
	cpu := hx.Pick(r, []float64{20, 25, 32, 40})
	d := Desc{Cpu: cpu, Mode: "add", Parallel: r.Bool(), Note: "large: harness-side oracles only"}
	if r.Bool() {
		d.Mode = "combine"
	}
	anchor := genAnchor(r)
	n := 1 + r.Intn(3)
	for i := 0; i < n; i++ {
		s := genShape(r, cpu, anchor, 25, false)
		switch s.Kind {
		case "sphere":
			s.R *= 4
		case "box":
			for k := 0; k < 3; k++ {
				s.Q[k] *= 4
			}
		default:
			s.R *= 3
			for k := 0; k < 3; k++ {
				s.Q[k] = s.P[k] + (s.Q[k]-s.P[k])*5
			}
		}
		d.Shapes = append(d.Shapes, s)
	}
	return d
}

// resolutions far above the range of the property's quantifier text: the final weld (1e-3 units) is
// then a sizeable fraction of a cell
func genHiRes(r *hx.Rng) Desc {
	cpu := hx.Pick(r, []float64{100, 200, 400, 1000})
	d := Desc{Cpu: cpu, Mode: "add", Note: "high resolution"}
	anchor := genAnchor(r)
	d.Shapes = []Shape{genShape(r, cpu, anchor, 3, false)}
	if d.Shapes[0].Kind == "box" {
		d.Shapes[0].S = 8 / cpu // marching.Box pads its domain by `strength` world units
	}
	return d
}

// Fields whose samples hit the cutoff exactly on whole planes, with below-cutoff samples on BOTH sides: two sheets of
// the surface 0.002 cells apart around one plane of lattice points (the vertices next to a sample that equals the
// cutoff are kept 1e-3 cells off the corner).  Unit boxes with integer world coordinates sharing a face (the face
// lies on a sample plane at every whole number of cubes per unit; x / cpu is exact there), a block standing on a
// slab, the shared plane on a storage-block boundary, and lattices with a plane (or part of one) of samples equal
// to the cutoff between two below-cutoff slabs, at cutoff 0 and below.
func touchingStream(r *hx.Rng, all bool, seed int) []Desc {
	out := []Desc{}
	perm := func(ax int, v [3]float64) [3]float64 {
		var o [3]float64
		for k := 0; k < 3; k++ {
			o[(k+ax)%3] = v[k]
		}
		return o
	}
	layouts := []string{"side by side", "block on a slab", "partial face", "shared plane on a block boundary"}
	for li, layout := range layouts {
		for ci, cpu := range []float64{4, 8, 10, 5} {
			if !all && (li+ci+seed)%4 != 0 {
				continue
			}
			ax := (li + ci + seed) % 3
			X, Y, Z := float64(r.Range(-2, 2)), float64(r.Range(-2, 2)), float64(r.Range(-2, 2))
			var a, b Shape
			switch layout {
			case "side by side":
				a = Shape{Kind: "box", P: perm(ax, [3]float64{X + 0.5, Y + 0.5, Z + 0.5}), Q: [3]float64{1, 1, 1}, S: 1}
				b = Shape{Kind: "box", P: perm(ax, [3]float64{X + 1.5, Y + 0.5, Z + 0.5}), Q: [3]float64{1, 1, 1}, S: 1}
			case "block on a slab":
				a = Shape{Kind: "box", P: perm(ax, [3]float64{X + 0.5, Y + 0.5, Z + 0.5}), Q: [3]float64{1, 1, 1}, S: 1}
				b = Shape{Kind: "box", P: perm(ax, [3]float64{X - 0.25, Y + 0.5, Z + 0.5}), Q: perm(ax, [3]float64{0.5, 2, 2}), S: 1}
			case "partial face":
				a = Shape{Kind: "box", P: perm(ax, [3]float64{X + 0.5, Y + 0.5, Z + 0.5}), Q: [3]float64{1, 1, 1}, S: 1}
				b = Shape{Kind: "box", P: perm(ax, [3]float64{X + 1.25, Y + 0.75, Z + 0.25}), Q: perm(ax, [3]float64{0.5, 1, 1}), S: 1}
			default:
				// the shared plane x = X + 1 is lattice plane 0 / 100 / -100 of the canvas
				X = hx.Pick(r, []float64{-1, 100/cpu - 1, -100/cpu - 1})
				a = Shape{Kind: "box", P: perm(ax, [3]float64{X + 0.5, Y + 0.5, Z + 0.5}), Q: [3]float64{1, 1, 1}, S: 1}
				b = Shape{Kind: "box", P: perm(ax, [3]float64{X + 1.5, Y + 0.5, Z + 0.5}), Q: [3]float64{1, 1, 1}, S: 1}
			}
			shapes := []Shape{a, b}
			if r.Bool() {
				shapes = []Shape{b, a}
			}
			out = append(out, Desc{Cpu: cpu, Mode: "combine", Shapes: shapes, Parallel: r.Chance(1, 3),
				Note: fmt.Sprintf("boxes touching on a sample plane (%s, normal to axis %d)", layout, ax)})
		}
	}
	// lattices: slab, plane of samples == cutoff (whole or half), slab
	nl := 2
	if all {
		nl = 8
	}
	for i := 0; i < nl; i++ {
		cpu := genCpu(r)
		d := Desc{Cpu: cpu, Mode: "lattice", Parallel: r.Chance(1, 3), Note: "plane of samples equal to the cutoff between two below-cutoff slabs"}
		if r.Bool() {
			d.Cutoff = -0.5
		}
		ax := r.Intn(3)
		for k := 0; k < 3; k++ {
			d.Dim[k] = r.Range(5, 7)
			a := genAnchor(r)
			d.Org[k] = int(math.Floor(a[k])) - d.Dim[k]/2
		}
		d.Dim[ax] = 7
		if i%2 == 1 {
			// the plane of on-cutoff samples is the first plane of a storage block
			d.Org[ax] = blockSize*r.Range(-1, 1) - 3
		}
		half := r.Bool()
		d.Vals = make([]float64, d.Dim[0]*d.Dim[1]*d.Dim[2])
		for z := 0; z < d.Dim[2]; z++ {
			for y := 0; y < d.Dim[1]; y++ {
				for x := 0; x < d.Dim[0]; x++ {
					q := [3]int{x, y, z}
					border := false
					for k := 0; k < 3; k++ {
						border = border || q[k] == 0 || q[k] == d.Dim[k]-1
					}
					v := d.Cutoff - 0.25 - r.Float()
					switch {
					case border:
						v = d.Cutoff + 0.25 + r.Float()
					case q[ax] == 3 && !(half && q[(ax+1)%3] > d.Dim[(ax+1)%3]/2):
						v = d.Cutoff
					}
					d.Vals[x+d.Dim[0]*(y+d.Dim[1]*z)] = v
				}
			}
		}
		out = append(out, d)
	}
	return out
}

// Extents at powers of two of the weld's discretisation (1e-4 cells): a thin box whose two end faces are EXACTLY
// 2^k / 10^4 cells apart along one axis (k = 16 .. 22: 6.5536 .. 419.4304 cells; 2^21 = 209.7152 cells spans more
// than two storage blocks), reaching from negative to positive coordinates; the face positions are chosen so that
// the crossing points fall on whole weld buckets (no rounding doubt).  Any vertex key that packs or truncates the
// bucket coordinates maps the two end caps onto each other.
func pow2Stream(r *hx.Rng, all bool, seed int) []Desc {
	out := []Desc{}
	for k := 16; k <= 22; k++ {
		if !all && k != 21 && k != 16+(seed%5) {
			continue
		}
		if !all && k == 22 {
			continue
		}
		ax := (k + seed) % 3
		cpu := hx.Pick(r, []float64{4, 5, 8})
		L := math.Ldexp(1, k) / 1e4 // cells
		lo := -math.Floor(L/2) - 0.7 // cells: the crossing sits at parameter 0.3 of its grid edge
		var p, q [3]float64
		for j := 0; j < 3; j++ {
			c := float64(interiorCoord(r)) + 0.5
			p[j], q[j] = c/cpu, 2.6/cpu
		}
		p[ax], q[ax] = (lo+L/2)/cpu, L/cpu
		out = append(out, Desc{Cpu: cpu, Mode: "add", Parallel: r.Chance(1, 3),
			Shapes: []Shape{{Kind: "box", P: p, Q: q, S: 1}},
			Note:   fmt.Sprintf("box with end faces exactly 2^%d / 10^4 = %.4f cells apart along axis %d", k, L, ax)})
	}
	return out
}

// The Float1 attribute that is marched is not the position attribute: every field carries the shape under
// "density" and a decoy ball under the position attribute (two sections of the canvas sharing one block array),
// marched with MarchOnAttribute / MarchOnAttributeParallel.  `combinators` adds CombineFields / MirrorAxis /
// Subtract / Translate of such two-attribute fields.
func attributeStream(r *hx.Rng, all, combinators bool, seed int) []Desc {
	out := []Desc{}
	modes := []string{"add", "add2"}
	if combinators {
		modes = append(modes, "combine", "mirror", "translate", "subtract")
	}
	for mi, mode := range modes {
		// every mode in every run (small shapes inside one block)
		_, _, _ = all, seed, mi
		cpu := hx.Pick(r, []float64{4, 5, 8, 10})
		var c [3]float64
		for k := 0; k < 3; k++ {
			c[k] = float64(interiorCoord(r)) + r.Float()
		}
		at := func(dx, dy, dz float64) [3]float64 {
			return [3]float64{(c[0] + dx) / cpu, (c[1] + dy) / cpu, (c[2] + dz) / cpu}
		}
		ball := Shape{Kind: "sphere", P: at(0, 0, 0), R: (3 + r.Float()) / cpu, S: 1}
		rod := Shape{Kind: "line", P: at(-1, 4, 0), Q: at(6, 5, 2), R: (2 + r.Float()) / cpu, S: 1}
		d := Desc{Cpu: cpu, Mode: "add", Attr: "density", Parallel: r.Bool(), Shapes: []Shape{ball}}
		switch mode {
		case "add2":
			d.Shapes = []Shape{rod, {Kind: "box", P: at(12, 0, 0), Q: [3]float64{4 / cpu, 3 / cpu, 5 / cpu}, S: 1}}
		case "combine":
			d.Mode, d.Shapes = "combine", []Shape{ball, rod}
		case "mirror":
			d.Mode, d.Axis = "mirror", r.Intn(3)
			var p [3]float64
			for k := 0; k < 3; k++ {
				p[k] = (float64(r.Range(10, 40)) + r.Float()) / cpu
			}
			p[d.Axis] = 1.2 / cpu
			d.Shapes = []Shape{{Kind: "line", P: p, Q: [3]float64{p[0] + 3/cpu, p[1] + 2/cpu, p[2] + 1/cpu}, R: 2.5 / cpu, S: 1}}
		case "translate":
			d.Shift = [3]float64{-3.25, 1.5, 2.125}
		case "subtract":
			for k := 0; k < 3; k++ {
				c[k] = float64(r.Range(-10, 10)) + r.Float()
			}
			d.Mode = "subtract"
			d.Shapes = []Shape{{Kind: "box", P: at(0, 0, 0), Q: [3]float64{7 / cpu, 7 / cpu, 7 / cpu}, S: 1},
				{Kind: "sphere", P: at(3, 3, 0.2), R: 3 / cpu, S: 1}}
		}
		d.Note = "marched on the Float1 attribute `density` (decoy under the position attribute), " + mode
		out = append(out, d)
	}
	return out
}

// ---------------------------------------------------------------- main
const maxGridPoints = 30000    // lattice points of the box handed to Coq
const maxDensePoints = 6000000 // lattice points the harness samples densely

func key(d Desc) string { b, _ := json.Marshal(d); return string(b) }

type job struct {
	kind    string
	d       Desc
	big     bool
	lo      ipt
	hi      ipt
	o       outcome
	sheet   int // >= 0: sheet case with that thin axis
	sheetK0 int // first pattern row of the half sheet
}

func newJob(kind string, d Desc) *job {
	fs := buildFields(d)
	lo, hi := unionBox(fs, d.Cpu)
	vol := (hi[0] - lo[0] + 1) * (hi[1] - lo[1] + 1) * (hi[2] - lo[2] + 1)
	_ = vol
	return &job{kind: kind, d: d, lo: lo, hi: hi, sheet: -1}
}

// evalIsolated runs one case in a child process (the harness itself with -one): a panic in one of the
// implementation's own goroutines (MarchParallel) or a hang cannot be recovered in-process.
func evalIsolated(d Desc) outcome {
	in, _ := json.Marshal(d)
	ctx, cancel := context.WithTimeout(context.Background(), 900*time.Second)
	defer cancel()
	cmd := exec.CommandContext(ctx, os.Args[0], "-one")
	cmd.Stdin = bytes.NewReader(in)
	var stdout, stderr bytes.Buffer
	cmd.Stdout, cmd.Stderr = &stdout, &stderr
	err := cmd.Run()
	var o outcome
	if err == nil {
		if json.Unmarshal(stdout.Bytes(), &o) == nil && o.Coq != "" {
			return o
		}
		err = fmt.Errorf("unreadable child output")
	}
	msg := stderr.String()
	if len(msg) > 600 {
		msg = msg[:600]
	}
	what := "implementation crashed"
	if ctx.Err() != nil {
		what = "implementation did not return within 900 s"
	}
	return outcome{Coq: "CGoOnly", GoFail: fmt.Sprintf("%s (%v): %s", what, err, msg), Stats: map[string]int{}}
}

func evalAll(jobs []*job) {
	workers := runtime.NumCPU() * 3 / 4
	if workers < 1 {
		workers = 1
	}
	if workers > 8 {
		workers = 8
	}
	ch := make(chan *job)
	var wg sync.WaitGroup
	for w := 0; w < workers; w++ {
		wg.Add(1)
		go func() {
			defer wg.Done()
			for j := range ch {
				t0 := time.Now()
				j.o = evalIsolated(j.d)
				j.big = j.o.Big
				if el := time.Since(t0); el > 20*time.Second {
					fmt.Fprintf(os.Stderr, "c09: slow case (%s, %.0fs): %s\n", j.kind, el.Seconds(), key(j.d)[:min(len(key(j.d)), 300)])
				}
			}
		}()
	}
	for _, j := range jobs {
		ch <- j
	}
	close(ch)
	wg.Wait()
}

func record(run *hx.Run, j *job) {
	d, o, lo, hi := j.d, j.o, j.lo, j.hi
	c := hx.Case{Kind: j.kind, Desc: d, Coq: o.Coq, Nontriv: o.Nontriv, Key: key(d), GoFail: o.GoFail}
	if d.AddPar2 {
		c.FailKey = "march:addfieldparallel2-axes-swapped"
	} else if d.Attr != "" && (d.Mode == "combine" || d.Mode == "mirror" || d.Mode == "subtract") {
		c.FailKey = "march:multi-attribute-closures"
	} else if d.Attr != "" {
		c.FailKey = "march:march-on-attribute-non-position"
	} else if o.Stats["domain-too-small"] > 0 {
		// the constructor declared a domain that does not contain the shape: hypothesis of the property not met
		c.FailKey = "march:constructor-domain-too-small"
		run.Count("declared-domain-smaller-than-shape")
	} else if o.Stats["merged-buckets"] > 0 {
		// the final weld put the crossing points of two different grid edges into one vertex
		c.FailKey = "march:weld-precision-vs-resolution"
		run.Count("weld-merged-distinct-crossings")
	}
	run.Add(c)
	for k, v := range o.Stats {
		if strings.HasPrefix(k, "skip:") || strings.HasPrefix(k, "weld-scheme:") || strings.HasPrefix(k, "field-march:") || k == "two-vertices-one-bucket" {
			run.Dist[k] += v
		}
	}
	if j.big {
		run.Count("go-only(large)")
	}
	run.Count(fmt.Sprintf("cpu:%s", cpuClass(d.Cpu)))
	run.Count("mode:" + d.Mode)
	if d.Parallel {
		run.Count("MarchParallel")
	}
	if d.AddPar2 {
		run.Count("AddFieldParallel2")
	} else if d.AddPar {
		run.Count("AddFieldParallel")
	}
	if d.Attr != "" {
		run.Count("MarchOnAttribute(non-position)")
	}
	if d.Remarch {
		run.Count("marched-three-times")
	}
	if d.Cutoff < 0 {
		run.Count("cutoff<0")
	}
	switch {
	case o.Tris == 0:
		run.Count("tris:0")
	case o.Tris < 100:
		run.Count("tris:1-99")
	case o.Tris < 1000:
		run.Count("tris:100-999")
	default:
		run.Count("tris:1000+")
	}
	// where the sampled box sits relative to the storage blocks
	cross, neg := 0, false
	for k := 0; k < 3; k++ {
		if floorDiv(lo[k]+1, blockSize) != floorDiv(hi[k]-1, blockSize) {
			cross++
		}
		if lo[k] < 0 {
			neg = true
		}
	}
	run.Count(fmt.Sprintf("block-boundaries-crossed-axes:%d", cross))
	if neg {
		run.Count("negative-coordinates")
	}
}

func cpuClass(c float64) string {
	switch {
	case c <= 5:
		return "3-5"
	case c <= 10:
		return "5-10"
	case c <= 20:
		return "10-20"
	case c <= 40:
		return "20-40"
	}
	return ">40"
}

func main() {
	if len(os.Args) > 1 && os.Args[1] == "-one" {
		var d Desc
		if err := json.NewDecoder(os.Stdin).Decode(&d); err != nil {
			fmt.Fprintln(os.Stderr, err)
			os.Exit(2)
		}
		o := evalCase(d)
		json.NewEncoder(os.Stdout).Encode(o)
		return
	}
	run := hx.ParseFlags("C09", "Check.C09")
	// the attribute / combinator / AddFieldParallel2 streams are unconditional since da2fa8f, 7eac22f, 913f893, 924b580
	hires, pinch, smallDomains, attrStream, attrCombinators, addPar2 := false, false, false, true, true, true
	for _, a := range flag.Args() {
		switch a {
		case "hires":
			hires = true
		case "pinch":
			pinch = true
		case "small-domains":
			smallDomains = true
		case "attr":
			attrStream = true
		case "addpar2":
			addPar2 = true
		case "attr-combinators":
			attrCombinators = true
		}
	}
	jobs := []*job{}
	for _, in := range run.Inputs() {
		var d Desc
		if err := json.Unmarshal(in.Raw, &d); err != nil {
			continue
		}
		jobs = append(jobs, newJob(in.Kind, d))
	}
	if run.Replay != "" {
		evalAll(jobs)
		for _, j := range jobs {
			record(run, j)
		}
		run.Finish()
		return
	}
	r := hx.NewRng(run.Seed)

	// fixed: every corner pattern of a single cell -- inside one block, and with the pattern cell being the
	// last cell of a block along x, y, z (its far corners are fetched from the neighbouring block)
	sheets := []struct {
		thin int
		org  [3]int
	}{
		{0, [3]int{10, 20, 30}},
		{0, [3]int{98, 10, -80}},
		{1, [3]int{-90, -102, 20}},
		{2, [3]int{15, -75, 198}},
	}
	for i, sh := range sheets {
		cpu := hx.Pick(r, cpus)
		for _, k0 := range []int{0, 8} {
			// quick: all 256 patterns inside a block, one half (rotating with the seed) at each block face
			if run.Tier != "thorough" && i > 0 && k0 != 8*((i+int(run.Seed))%2) {
				continue
			}
			d := sheetLattice(sh.thin, sh.org, cpu, r, k0)
			d.Parallel = i == 3
			j := newJob("cell-patterns", d)
			j.sheet, j.sheetK0 = sh.thin, k0
			jobs = append(jobs, j)
		}
	}
	// one pattern across a block corner (eight blocks)
	jobs = append(jobs, newJob("cell-pattern", caseLattice(0x5a, [3]int{98, -102, 198}, 8, r)))
	jobs = append(jobs, newJob("shapes", Desc{Cpu: 10, Mode: "add", Shapes: []Shape{{Kind: "sphere", P: [3]float64{0, 0, 0}, R: 0.5, S: 1}}}))
	jobs = append(jobs, newJob("shapes", Desc{Cpu: 8, Mode: "add", Parallel: true, Shapes: []Shape{{Kind: "box", P: [3]float64{12.5, -6.25, 3}, Q: [3]float64{1, 0.5, 0.75}, S: 1}}}))

	thorough := run.Tier == "thorough"
	// quick keeps one representative per class, rotating with the seed; thorough runs the full streams
	// the fields of the block streams are added through AddField and AddFieldParallel alternately (which of the
	// two a given shape gets rotates with the seed)
	for i, d := range throughBlockStream(r) {
		// 0..8: per axis beam, beam, capsule; 9: diagonal capsule (nine blocks)
		if thorough || (i < 9 && i%3 == (i/3+int(run.Seed))%3) {
			d.AddPar = (i/3+int(run.Seed))%2 == 0
			jobs = append(jobs, newJob("through-block", d))
		}
	}
	for i, d := range blockPlaneStream(r) {
		if thorough || i%2 == int(run.Seed)%2 {
			d.AddPar = (i/2+int(run.Seed))%2 == 0
			jobs = append(jobs, newJob("block-plane", d))
		}
	}
	for _, d := range unionStream(r, thorough, int(run.Seed)) {
		d.FieldMarch = d.Mode == "combine"
		jobs = append(jobs, newJob("union", d))
	}
	for _, d := range constructorStream(r, thorough, smallDomains, int(run.Seed)) {
		d.FieldMarch = d.Mode != "add" || len(d.Shapes) == 1
		jobs = append(jobs, newJob("constructor", d))
	}
	for _, d := range touchingStream(r, thorough, int(run.Seed)) {
		jobs = append(jobs, newJob("touching", d))
	}
	for i, d := range pow2Stream(r, thorough, int(run.Seed)) {
		d.AddPar = (i+int(run.Seed))%2 == 1
		jobs = append(jobs, newJob("pow2-extent", d))
	}
	if addPar2 {
		// AddFieldParallel2: single-function fields (913f893: samples at (x, y, z)) ...
		n2 := 3
		if thorough {
			n2 = 12
		}
		for i := 0; i < n2; i++ {
			d := genShapes(r)
			d.AddPar, d.AddPar2 = false, true
			d.Note = "canvas filled through AddFieldParallel2"
			jobs = append(jobs, newJob("addfieldparallel2", d))
		}
	}
	if attrStream {
		// MarchOnAttribute(Parallel) on a non-position attribute of fields with two Float1 functions (da2fa8f), alone
		// and through CombineFields / MirrorAxis / Subtract / Translate (7eac22f)
		for _, d := range attributeStream(r, thorough, attrCombinators, int(run.Seed)) {
			jobs = append(jobs, newJob("attribute", d))
			// ... and AddFieldParallel2 of fields with two and three Float1 functions (924b580: one result per
			// function and block)
			if addPar2 && d.Mode == "add" && d.Shift == [3]float64{} {
				for dec := 1; dec <= 2; dec++ {
					e := d
					e.AddPar2, e.Decoys = true, dec
					e.Note = fmt.Sprintf("fields with %d Float1 functions added through AddFieldParallel2, marched on `density`", dec+1)
					jobs = append(jobs, newJob("addfieldparallel2", e))
				}
			}
		}
	}

	nBig, nFinding := 2, 3
	if run.Tier == "thorough" {
		nBig, nFinding = 16, 24
	}
	for i := 0; i < run.N; i++ {
		switch {
		case i%4 == 3:
			d := genLattice(r, false)
			d.FieldMarch = true
			jobs = append(jobs, newJob("lattice", d))
		default:
			d := genShapes(r)
			d.FieldMarch = d.Mode == "combine" || len(d.Shapes) == 1
			d.Remarch = r.Chance(1, 4)
			jobs = append(jobs, newJob("shapes", d))
		}
	}
	for i := 0; i < nBig; i++ {
		jobs = append(jobs, newJob("large", genBig(r)))
	}
	if hires {
		for i := 0; i < nFinding; i++ {
			jobs = append(jobs, newJob("hires", genHiRes(r)))
		}
	}
	if pinch {
		for i := 0; i < nFinding; i++ {
			jobs = append(jobs, newJob("lattice-on-cutoff", genLattice(r, true)))
		}
	}
	evalAll(jobs)

	// a failing sheet: find the single patterns that fail, as small replayable cases
	extra := []*job{}
	for _, j := range jobs {
		if j.sheet >= 0 && j.o.GoFail != "" {
			singles := []*job{}
			for bits := 16 * j.sheetK0; bits < 16*j.sheetK0+128; bits++ {
				if bits > 0 {
					singles = append(singles, newJob("cell-pattern", sheetSingle(j.d, j.sheet, bits, j.sheetK0)))
				}
			}
			evalAll(singles)
			n := 0
			for _, sj := range singles {
				if sj.o.GoFail != "" && n < 4 {
					extra = append(extra, sj)
					n++
				}
			}
		}
	}
	// small failing cases first: the driver reports the first few failures
	for _, j := range extra {
		record(run, j)
	}
	// balance the Coq shards (hx cuts the case list into consecutive pieces of ceil(n/16) cases): heaviest terms
	// first, each to the lightest piece that still has room
	sort.SliceStable(jobs, func(a, b int) bool { return len(jobs[a].o.Coq) > len(jobs[b].o.Coq) })
	per := (len(jobs) + 15) / 16
	if per < 4 {
		per = 4
	}
	nb := (len(jobs) + per - 1) / per
	bins := make([][]*job, nb)
	weight := make([]int, nb)
	for _, j := range jobs {
		best := -1
		for k := 0; k < nb; k++ {
			room := per
			if k == nb-1 {
				room = len(jobs) - per*(nb-1)
			}
			if len(bins[k]) < room && (best < 0 || weight[k] < weight[best]) {
				best = k
			}
		}
		bins[best] = append(bins[best], j)
		weight[best] += len(j.o.Coq) + 2000
	}
	for _, b := range bins {
		for _, j := range b {
			record(run, j)
		}
	}
	run.Finish()
}
