// Independent reference for the fields of C09: every member's closed-form signed distance is evaluated here in
// plain float64 arithmetic and the members are combined here (minimum for CombineFields, sum for repeated
// AddField) -- nothing of math/sdf, marching.CombineFields or sdf.Union is called.  Used for
//
//	(a) the distance of every output vertex from the TRUE isosurface (reference field at the vertex within
//	    strength * one cell of the cutoff),
//	(b) the enclosed volume against cell counts of the reference sign grid,
//	(c) the samples the implementation's own field functions produce at the lattice points.
package main

import (
	"fmt"
	"math"

	"github.com/EliCDavis/polyform/modeling/marching"
	"github.com/EliCDavis/vector/vector3"
)

type vec [3]float64

func vsub(a, b vec) vec     { return vec{a[0] - b[0], a[1] - b[1], a[2] - b[2]} }
func vdot(a, b vec) float64 { return a[0]*b[0] + a[1]*b[1] + a[2]*b[2] }
func vlen(a vec) float64    { return math.Sqrt(vdot(a, a)) }

// strength * signed distance of one member
func refShape(s Shape, v vec) float64 {
	p, q := vec(s.P), vec(s.Q)
	switch s.Kind {
	case "sphere":
		return s.S * (vlen(vsub(v, p)) - s.R)
	case "box":
		d := vsub(v, p)
		var out vec
		inside := math.Inf(-1)
		for k := 0; k < 3; k++ {
			e := math.Abs(d[k]) - q[k]/2
			inside = math.Max(inside, e)
			out[k] = math.Max(e, 0)
		}
		return s.S * (vlen(out) + math.Min(inside, 0))
	default: // capsule around the segment p-q
		ab := vsub(q, p)
		l2 := vdot(ab, ab)
		t := 0.0
		if l2 > 0 {
			t = math.Min(1, math.Max(0, vdot(vsub(v, p), ab)/l2))
		}
		c := vec{p[0] + ab[0]*t, p[1] + ab[1]*t, p[2] + ab[2]*t}
		return s.S * (vlen(vsub(v, c)) - s.R)
	}
}

// declared domain of one member (sphere.go, cube.go, line.go)
func refDomain(s Shape) (vec, vec) {
	p, q := vec(s.P), vec(s.Q)
	var lo, hi vec
	for k := 0; k < 3; k++ {
		switch s.Kind {
		case "sphere":
			lo[k], hi[k] = p[k]-s.S*s.R, p[k]+s.S*s.R
		case "box":
			lo[k], hi[k] = p[k]-q[k]/2-s.S/2, p[k]+q[k]/2+s.S/2
		default:
			lo[k], hi[k] = math.Min(p[k], q[k])-s.R, math.Max(p[k], q[k])+s.R
		}
	}
	return lo, hi
}

func inDomain(lo, hi, v vec, grow float64) bool {
	for k := 0; k < 3; k++ {
		if v[k] < lo[k]-grow || v[k] > hi[k]+grow {
			return false
		}
	}
	return true
}

type reference struct {
	d      Desc
	lo, hi []vec // declared domains
	blo    []ipt // sample ranges of the members (add mode)
	bhi    []ipt
	lip    float64 // Lipschitz constant of the true union (largest strength)
}

func newReference(d Desc, fs []marching.Field) (*reference, string) {
	r := &reference{d: d}
	complaint := ""
	for _, s := range d.Shapes {
		lo, hi := refDomain(s)
		r.lo, r.hi = append(r.lo, lo), append(r.hi, hi)
		r.lip = math.Max(r.lip, s.S)
	}
	if d.Mode == "add" || len(d.Shapes) == 1 {
		for i, f := range fs {
			if i >= len(d.Shapes) {
				break
			}
			mn, mx := f.Domain.Min(), f.Domain.Max()
			got := [2]vec{{mn.X(), mn.Y(), mn.Z()}, {mx.X(), mx.Y(), mx.Z()}}
			for k := 0; k < 3; k++ {
				if math.Abs(got[0][k]-r.lo[i][k]) > 1e-9 || math.Abs(got[1][k]-r.hi[i][k]) > 1e-9 {
					complaint = fmt.Sprintf("declared domain of member %d is %v..%v, reference %v..%v", i, got[0], got[1], r.lo[i], r.hi[i])
				}
			}
			a, b := bounds(f, d.Cpu)
			r.blo, r.bhi = append(r.blo, a), append(r.bhi, b)
		}
	}
	return r, complaint
}

// the true union / the single member: minimum of the members everywhere
func (r *reference) trueUnion(v vec) float64 {
	m := math.Inf(1)
	for _, s := range r.d.Shapes {
		m = math.Min(m, refShape(s, v))
	}
	return m
}

// what a lattice sample must be; ok = false where membership of a declared domain is a matter of rounding
func (r *reference) sample(p ipt) (val float64, ok bool) {
	cpu := r.d.Cpu
	v := vec{float64(p[0]) / cpu, float64(p[1]) / cpu, float64(p[2]) / cpu}
	if r.d.Mode == "combine" && len(r.d.Shapes) > 1 {
		strict, loose := math.Inf(1), math.Inf(1)
		for i, s := range r.d.Shapes {
			if inDomain(r.lo[i], r.hi[i], v, 1e-9) {
				x := refShape(s, v)
				loose = math.Min(loose, x)
				if inDomain(r.lo[i], r.hi[i], v, -1e-9) {
					strict = math.Min(strict, x)
				}
			}
		}
		if math.IsInf(strict, 1) {
			strict = 10
		}
		if math.IsInf(loose, 1) {
			loose = 10
		}
		return strict, strict == loose
	}
	sum := 0.0
	for i, s := range r.d.Shapes {
		if i >= len(r.blo) {
			break
		}
		a, b := r.blo[i], r.bhi[i]
		if p[0] < a[0] || p[0] >= b[0] || p[1] < a[1] || p[1] >= b[1] || p[2] < a[2] || p[2] >= b[2] {
			continue
		}
		sum += refShape(s, v)
	}
	return sum, true
}

// (a): every output vertex within one cell of the true isosurface.  Judged for true unions and single members.
func (r *reference) checkVertices(ps []vector3.Float64) string {
	if r.d.Mode == "add" && len(r.d.Shapes) > 1 {
		return ""
	}
	cell := 1 / r.d.Cpu
	bound := r.lip*cell*(1+1e-6) + 1e-9
	bad, worst := 0, 0.0
	var at vec
	for _, p := range ps {
		v := vec{p.X(), p.Y(), p.Z()}
		if e := math.Abs(r.trueUnion(v) - r.d.Cutoff); e > bound {
			bad++
			if e > worst {
				worst, at = e, v
			}
		}
	}
	if bad > 0 {
		return fmt.Sprintf("%d of %d vertices are farther than one cell from the true isosurface (reference union at %v is %.4g cells off the cutoff)",
			bad, len(ps), at, worst/(r.lip*cell))
	}
	return ""
}

// (b) + (c) on the densely sampled grid `dense` (values of the implementation's own field functions)
func (r *reference) checkGrid(dense *grid, volCells float64, tris int) []string {
	out := []string{}
	mism, amb := 0, 0
	var first string
	cut := r.d.Cutoff
	w, h := dense.w, dense.h
	dz := (len(dense.val)) / (w * h)
	refSign := make([]bool, len(dense.val))
	for z := 0; z < dz; z++ {
		for y := 0; y < h; y++ {
			for x := 0; x < w; x++ {
				p := ipt{dense.lo[0] + x, dense.lo[1] + y, dense.lo[2] + z}
				i := x + w*(y+h*z)
				want, ok := r.sample(p)
				refSign[i] = want < cut
				if !ok {
					amb++
					continue
				}
				got := dense.val[i]
				if math.Abs(got-want) > 1e-9*(1+math.Abs(want)) {
					mism++
					if first == "" {
						first = fmt.Sprintf("lattice point %v: field function gives %.12g, reference %.12g", p, got, want)
					}
				}
			}
		}
	}
	if mism > 0 {
		out = append(out, fmt.Sprintf("%d lattice samples differ from the independent reference field (%s)", mism, first))
	}
	// volume: every cell with eight below-cutoff corners lies inside, every cell without one outside
	full, some := 0, 0
	for z := 0; z+1 < dz; z++ {
		for y := 0; y+1 < h; y++ {
			for x := 0; x+1 < w; x++ {
				n := 0
				for c := 0; c < 8; c++ {
					if refSign[(x+c&1)+w*((y+c>>1&1)+h*(z+c>>2&1))] {
						n++
					}
				}
				if n == 8 {
					full++
				}
				if n > 0 {
					some++
				}
			}
		}
	}
	tol := 0.01*float64(some-full) + 1e-6
	if tris > 0 || some > 0 {
		if volCells < float64(full)-tol || volCells > float64(some)+tol {
			out = append(out, fmt.Sprintf("enclosed volume %.4f cells^3 outside the range %d..%d given by the reference sign grid (cells with 8 / with at least 1 below-cutoff corner)", volCells, full, some))
		}
	}
	_ = amb
	return out
}
