// Independent reference for the fields of C09: every member's closed-form signed distance is evaluated here in
// plain float64 arithmetic and the members are combined here (minimum for CombineFields, sum for repeated
// AddField) -- nothing of math/sdf, marching.CombineFields or sdf.Union is called.  Used for
//
//	(a) the distance of every output vertex from the TRUE isosurface (reference field at the vertex within
//	    strength * one cell of the cutoff),
//	(b) the enclosed volume against cell counts of the reference sign grid,
//	(c) the samples the implementation's own field functions produce at the lattice points.
package main

import (
	"fmt"
	"math"

	"github.com/EliCDavis/polyform/modeling/marching"
	"github.com/EliCDavis/vector/vector3"
)

type vec [3]float64

func vsub(a, b vec) vec     { return vec{a[0] - b[0], a[1] - b[1], a[2] - b[2]} }
func vdot(a, b vec) float64 { return a[0]*b[0] + a[1]*b[1] + a[2]*b[2] }
func vlen(a vec) float64    { return math.Sqrt(vdot(a, a)) }

// strength * signed distance of one member
func refShape(s Shape, v vec) float64 {
	p, q := vec(s.P), vec(s.Q)
	switch s.Kind {
	case "sphere":
		return s.S * (vlen(vsub(v, p)) - s.R)
	case "box":
		d := vsub(v, p)
		var out vec
		inside := math.Inf(-1)
		for k := 0; k < 3; k++ {
			e := math.Abs(d[k]) - q[k]/2
			inside = math.Max(inside, e)
			out[k] = math.Max(e, 0)
		}
		return s.S * (vlen(out) + math.Min(inside, 0))
	case "multiline": // union of capsules of one radius
		m := math.Inf(1)
		for i := 1; i < len(s.Pts); i++ {
			m = math.Min(m, refCapsule(vec(s.Pts[i-1]), vec(s.Pts[i]), s.R, s.R, v))
		}
		return s.S * m
	case "vline": // union of rounded cones
		m := math.Inf(1)
		for i := 1; i < len(s.Pts); i++ {
			m = math.Min(m, refCapsule(vec(s.Pts[i-1]), vec(s.Pts[i]), s.Rs[i-1], s.Rs[i], v))
		}
		return s.S * m
	default: // capsule around the segment p-q
		ab := vsub(q, p)
		l2 := vdot(ab, ab)
		t := 0.0
		if l2 > 0 {
			t = math.Min(1, math.Max(0, vdot(vsub(v, p), ab)/l2))
		}
		c := vec{p[0] + ab[0]*t, p[1] + ab[1]*t, p[2] + ab[2]*t}
		return s.S * (vlen(vsub(v, c)) - s.R)
	}
}

// signed distance of the union of the balls of radius r1 + t (r2 - r1) around a + t (b - a), t in [0,1]
// (capsule for r1 = r2, rounded cone otherwise): min over t of |v - c(t)| - r(t), a convex function of t whose
// stationary point has a closed form
func refCapsule(a, b vec, r1, r2 float64, v vec) float64 {
	ab := vsub(b, a)
	l := vlen(ab)
	if l == 0 || math.Abs(r1-r2) >= l {
		// one end ball contains the other
		if r1 >= r2 {
			return vlen(vsub(v, a)) - r1
		}
		return vlen(vsub(v, b)) - r2
	}
	pa := vsub(v, a)
	u := vdot(pa, ab) / l // coordinate along the axis
	h2 := vdot(pa, pa) - u*u
	if h2 < 0 {
		h2 = 0
	}
	h := math.Sqrt(h2) // distance from the axis
	k := (r1 - r2) / l
	t := (u - h*k/math.Sqrt(1-k*k)) / l
	t = math.Min(1, math.Max(0, t))
	return math.Sqrt(h2+(u-t*l)*(u-t*l)) - (r1 + t*(r2-r1))
}

// declared domain of one member (sphere.go, cube.go, line.go)
func refDomain(s Shape) (vec, vec) {
	p, q := vec(s.P), vec(s.Q)
	var lo, hi vec
	for k := 0; k < 3; k++ {
		switch s.Kind {
		case "sphere":
			lo[k], hi[k] = p[k]-s.S*s.R, p[k]+s.S*s.R
		case "box":
			lo[k], hi[k] = p[k]-q[k]/2-s.S/2, p[k]+q[k]/2+s.S/2
		case "multiline":
			lo[k], hi[k] = math.Inf(1), math.Inf(-1)
			for _, pt := range s.Pts {
				lo[k], hi[k] = math.Min(lo[k], pt[k]-s.R*math.Sqrt2), math.Max(hi[k], pt[k]+s.R*math.Sqrt2)
			}
		case "vline":
			// what a domain containing the shape needs at least; VarryingThicknessLine declares
			// (max radius + strength) / 2 around every point
			lo[k], hi[k] = math.Inf(1), math.Inf(-1)
			for i, pt := range s.Pts {
				lo[k], hi[k] = math.Min(lo[k], pt[k]-s.Rs[i]), math.Max(hi[k], pt[k]+s.Rs[i])
			}
		default:
			lo[k], hi[k] = math.Min(p[k], q[k])-s.R, math.Max(p[k], q[k])+s.R
		}
	}
	return lo, hi
}

func inDomain(lo, hi, v vec, grow float64) bool {
	for k := 0; k < 3; k++ {
		if v[k] < lo[k]-grow || v[k] > hi[k]+grow {
			return false
		}
	}
	return true
}

type reference struct {
	d        Desc
	lo, hi   []vec   // declared domains of the members (reference)
	blo, bhi []ipt   // sample ranges of the added fields (from the implementation's Field.Domain)
	lip      float64 // Lipschitz constant of the true field (largest strength)
	// the below-cutoff region of the reference is not inside the sample range of the field: the hypothesis of
	// the property does not hold for what the constructor declared
	domainTooSmall string
}

func newReference(d Desc, fs []marching.Field) (*reference, string) {
	r := &reference{d: d}
	complaint := ""
	for _, s := range d.Shapes {
		lo, hi := refDomain(s)
		r.lo, r.hi = append(r.lo, lo), append(r.hi, hi)
		r.lip = math.Max(r.lip, s.S)
	}
	for _, f := range fs {
		a, b := bounds(f, d.Cpu)
		r.blo, r.bhi = append(r.blo, a), append(r.bhi, b)
	}
	if (d.Mode == "add" || len(d.Shapes) == 1) && d.Mode != "mirror" && d.Shift == [3]float64{} {
		for i, f := range fs {
			if i >= len(d.Shapes) || d.Shapes[i].Kind == "vline" {
				continue
			}
			mn, mx := f.Domain.Min(), f.Domain.Max()
			got := [2]vec{{mn.X(), mn.Y(), mn.Z()}, {mx.X(), mx.Y(), mx.Z()}}
			wlo, whi := r.lo[i], r.hi[i]
			if sh := d.Shapes[i]; sh.Kind == "sphere" && sh.S < 1 && math.Abs(got[0][0]-(sh.P[0]-sh.R)) <= 1e-9 {
				// fixes/C09-sphere-domain-strength.patch: the domain of a sphere is never smaller than the sphere
				for k := 0; k < 3; k++ {
					wlo[k], whi[k] = sh.P[k]-sh.R, sh.P[k]+sh.R
				}
			}
			for k := 0; k < 3; k++ {
				if math.Abs(got[0][k]-wlo[k]) > 1e-9 || math.Abs(got[1][k]-whi[k]) > 1e-9 {
					complaint = fmt.Sprintf("declared domain of member %d is %v..%v, reference %v..%v", i, got[0], got[1], r.lo[i], r.hi[i])
				}
			}
		}
	}
	return r, complaint
}

func (r *reference) unshift(v vec) vec { return vsub(v, vec(r.d.Shift)) }

// the true field: union / difference / mirror image of the members' exact distances, everywhere
func (r *reference) trueUnion(v vec) float64 {
	v = r.unshift(v)
	sh := r.d.Shapes
	switch r.d.Mode {
	case "subtract":
		return math.Max(refShape(sh[0], v), -refShape(sh[1], v))
	case "mirror":
		v[r.d.Axis] = math.Abs(v[r.d.Axis])
		return refShape(sh[0], v)
	}
	m := math.Inf(1)
	for _, s := range sh {
		m = math.Min(m, refShape(s, v))
	}
	return m
}

// value of member i as its constructor defines it (MultiSegmentLine only looks at the segments whose culling
// box contains the point and returns MaxFloat64 when there is none); ok = false where that is a matter of rounding
func (r *reference) member(i int, v vec) (float64, bool) {
	s := r.d.Shapes[i]
	if s.Kind != "multiline" {
		return refShape(s, v), true
	}
	strict, loose := math.MaxFloat64, math.MaxFloat64
	pad := s.R * math.Sqrt2
	for k := 1; k < len(s.Pts); k++ {
		a, b := vec(s.Pts[k-1]), vec(s.Pts[k])
		var lo, hi vec
		for c := 0; c < 3; c++ {
			lo[c], hi[c] = math.Min(a[c], b[c])-pad, math.Max(a[c], b[c])+pad
		}
		if inDomain(lo, hi, v, 1e-9) {
			x := s.S * refCapsule(a, b, s.R, s.R, v)
			loose = math.Min(loose, x)
			if inDomain(lo, hi, v, -1e-9) {
				strict = math.Min(strict, x)
			}
		}
	}
	return strict, strict == loose
}

// what the field function of added field number f must return at v
func (r *reference) fieldValue(f int, v vec) (float64, bool) {
	v = r.unshift(v)
	switch r.d.Mode {
	case "subtract":
		a, ok1 := r.member(0, v)
		b, ok2 := r.member(1, v)
		return math.Max(a, -b), ok1 && ok2
	case "mirror":
		v[r.d.Axis] = math.Abs(v[r.d.Axis])
		return r.member(0, v)
	case "combine":
		if len(r.d.Shapes) > 1 {
			strict, loose, ok := math.Inf(1), math.Inf(1), true
			for i := range r.d.Shapes {
				if inDomain(r.lo[i], r.hi[i], v, 1e-9) {
					x, o := r.member(i, v)
					ok = ok && o
					loose = math.Min(loose, x)
					if inDomain(r.lo[i], r.hi[i], v, -1e-9) {
						strict = math.Min(strict, x)
					}
				}
			}
			if math.IsInf(strict, 1) {
				strict = 10
			}
			if math.IsInf(loose, 1) {
				loose = 10
			}
			return strict, ok && strict == loose
		}
	}
	return r.member(f, v)
}

// what a lattice sample must be: the sum of the added fields over their sample ranges
func (r *reference) sample(p ipt) (val float64, ok bool) {
	cpu := r.d.Cpu
	v := vec{float64(p[0]) / cpu, float64(p[1]) / cpu, float64(p[2]) / cpu}
	sum, ok := 0.0, true
	for f := range r.blo {
		a, b := r.blo[f], r.bhi[f]
		if p[0] < a[0] || p[0] >= b[0] || p[1] < a[1] || p[1] >= b[1] || p[2] < a[2] || p[2] >= b[2] {
			continue
		}
		x, o := r.fieldValue(f, v)
		sum += x
		ok = ok && o
	}
	return sum, ok
}

// Is the below-cutoff region of the true field inside what gets sampled?  Scans the lattice points of the
// reference's own bounding boxes of the members.
func (r *reference) checkDomain() string {
	cpu := r.d.Cpu
	for i, s := range r.d.Shapes {
		if r.d.Mode == "subtract" && i == 1 {
			continue
		}
		lo, hi := r.lo[i], r.hi[i]
		if s.Kind == "sphere" {
			for k := 0; k < 3; k++ {
				lo[k], hi[k] = s.P[k]-s.R, s.P[k]+s.R
			}
		}
		if s.Kind == "box" {
			for k := 0; k < 3; k++ {
				lo[k], hi[k] = s.P[k]-s.Q[k]/2, s.P[k]+s.Q[k]/2
			}
		}
		var a, b ipt
		for k := 0; k < 3; k++ {
			a[k] = int(math.Floor((lo[k]+r.d.Shift[k])*cpu)) - 1
			b[k] = int(math.Ceil((hi[k]+r.d.Shift[k])*cpu)) + 1
			if b[k]-a[k] > 400 {
				return ""
			}
		}
		for z := a[2]; z <= b[2]; z++ {
			for y := a[1]; y <= b[1]; y++ {
				for x := a[0]; x <= b[0]; x++ {
					p := ipt{x, y, z}
					v := vec{float64(x) / cpu, float64(y) / cpu, float64(z) / cpu}
					if r.d.Mode == "mirror" {
						continue
					}
					if r.trueUnion(v) >= r.d.Cutoff {
						continue
					}
					sampled := false
					for f := range r.blo {
						lo, hi := r.blo[f], r.bhi[f]
						if p[0] > lo[0] && p[0] < hi[0]-1 && p[1] > lo[1] && p[1] < hi[1]-1 && p[2] > lo[2] && p[2] < hi[2]-1 {
							sampled = true
						}
					}
					if !sampled {
						return fmt.Sprintf("lattice point %v is below the cutoff in the true field (%.4g) but not strictly inside the sampled range of the declared domain", p, r.trueUnion(v))
					}
				}
			}
		}
	}
	return ""
}

func (r *reference) tol() float64 {
	for _, s := range r.d.Shapes {
		if s.Kind == "vline" {
			return 1e-7 // the rounded-cone formula of math/sdf squares lengths several times
		}
	}
	return 1e-9
}

// (a): every output vertex within one cell of the true isosurface.  Judged for true unions and single members.
func (r *reference) checkVertices(ps []vector3.Float64) string {
	if r.d.Mode == "add" && len(r.d.Shapes) > 1 {
		return ""
	}
	cell := 1 / r.d.Cpu
	bound := r.lip*cell*(1+1e-6) + 1e-9
	bad, worst := 0, 0.0
	var at vec
	for _, p := range ps {
		v := vec{p.X(), p.Y(), p.Z()}
		if e := math.Abs(r.trueUnion(v) - r.d.Cutoff); e > bound {
			bad++
			if e > worst {
				worst, at = e, v
			}
		}
	}
	if bad > 0 {
		return fmt.Sprintf("%d of %d vertices are farther than one cell from the true isosurface (reference union at %v is %.4g cells off the cutoff)",
			bad, len(ps), at, worst/(r.lip*cell))
	}
	return ""
}

// (b) + (c) on the densely sampled grid `dense` (values of the implementation's own field functions)
func (r *reference) checkGrid(dense *grid, volCells float64, tris int) []string {
	out := []string{}
	mism, amb := 0, 0
	var first string
	cut := r.d.Cutoff
	w, h := dense.w, dense.h
	dz := (len(dense.val)) / (w * h)
	refSign := make([]bool, len(dense.val))
	for z := 0; z < dz; z++ {
		for y := 0; y < h; y++ {
			for x := 0; x < w; x++ {
				p := ipt{dense.lo[0] + x, dense.lo[1] + y, dense.lo[2] + z}
				i := x + w*(y+h*z)
				want, ok := r.sample(p)
				refSign[i] = want < cut
				if !ok {
					amb++
					continue
				}
				got := dense.val[i]
				if math.IsNaN(got) || (math.Abs(got-want) > r.tol()*(1+math.Abs(want)) && !(got == want)) {
					mism++
					if first == "" {
						first = fmt.Sprintf("lattice point %v: field function gives %.12g, reference %.12g", p, got, want)
					}
				}
			}
		}
	}
	if mism > 0 {
		out = append(out, fmt.Sprintf("%d lattice samples differ from the independent reference field (%s)", mism, first))
	}
	// volume: every cell with eight below-cutoff corners lies inside, every cell without one outside
	full, some := 0, 0
	for z := 0; z+1 < dz; z++ {
		for y := 0; y+1 < h; y++ {
			for x := 0; x+1 < w; x++ {
				n := 0
				for c := 0; c < 8; c++ {
					if refSign[(x+c&1)+w*((y+c>>1&1)+h*(z+c>>2&1))] {
						n++
					}
				}
				if n == 8 {
					full++
				}
				if n > 0 {
					some++
				}
			}
		}
	}
	tol := 0.01*float64(some-full) + 1e-6
	if tris > 0 || some > 0 {
		if volCells < float64(full)-tol || volCells > float64(some)+tol {
			out = append(out, fmt.Sprintf("enclosed volume %.4f cells^3 outside the range %d..%d given by the reference sign grid (cells with 8 / with at least 1 below-cutoff corner)", volCells, full, some))
		}
	}
	_ = amb
	return out
}
