// Graphs under test for C13: parameters of several types, harness-defined nodes.Struct string nodes whose
// output lists every parameter value they saw ("p<idx>=<code>;"), text producers on top.
package main

import (
	"bytes"
	"encoding/binary"
	"encoding/json"
	"flag"
	"fmt"
	"image"
	"image/color"
	"image/jpeg"
	"image/png"
	"io"
	"os"
	"path/filepath"
	"runtime"
	"strconv"
	"strings"
	"sync"
	"sync/atomic"
	"time"

	"verif/harness/hx"

	"github.com/EliCDavis/polyform/generator/artifact"
	"github.com/EliCDavis/polyform/generator/artifact/basics"
	"github.com/EliCDavis/polyform/generator/graph"
	"github.com/EliCDavis/polyform/formats/gltf"
	"github.com/EliCDavis/polyform/generator/parameter"
	"github.com/EliCDavis/polyform/generator/schema"
	"github.com/EliCDavis/polyform/modeling"
	"github.com/EliCDavis/polyform/nodes"
	"github.com/EliCDavis/polyform/refutil"
	"github.com/EliCDavis/vector/vector3"
)

// ---------------------------------------------------------------- description (replayable)
type nodeD struct {
	Kind string `json:"kind"`         // "show" (one parameter input) | "join" (2-3 string inputs) | "fshow": a loader that FAILS
	//                                   (returns "", error) for int values divisible by 3, followed by a node that falls back to the raw parameter
	//                                   | "pshow": a show node whose processor PANICS (integer division by zero) for int values divisible by 4
	//                                   | "multi": ONE node with 2-3 int parameters Ps as its DIRECT dependencies (lists them in order)
	P    int    `json:"p,omitempty"`  // show: parameter index
	In   []int  `json:"in,omitempty"` // join: indices of earlier nodes
	Ps   []int  `json:"ps,omitempty"` // multi: parameter indices
}

// isText: producers whose artifact is the text of node Node ("gated": served through an artifact whose Write can be
// held at a gate -- a slow serialisation)
func isText(kind string) bool { return kind == "" || kind == "gated" }
type prodD struct {
	Name string `json:"name"`
	Kind string `json:"kind,omitempty"` // "" = text producer on node Node; "bin" = basics.Binary on file parameter P; "img" = basics.ImageNode on image parameter P;
	//                                     "ints" = harness slice artifact on ints parameter P (both keep the slice they were given);
	//                                     "gltf" = the repository's gltf.ArtifactNode over Models gltf.ModelNode that share ONE mesh node
	//                                     (harness TriMesh on int parameter P) and ONE gltf.MaterialNode (roughness = float parameter PB / 16)
	Node   int `json:"node,omitempty"`
	P      int `json:"p,omitempty"`
	PB     int `json:"pb,omitempty"`
	Models int `json:"models,omitempty"`
}
type shapeD struct {
	Name   string   `json:"name"`
	PTypes []string `json:"ptypes"` // "probe" (parameter.Int reporting its ApplyMessage/ToMessage to the critical-section probe) | "int" | "float" | "string" | "bool" | "file" (parameter.File) | "ints" (Value[[]int]) | "image" (parameter.Image)
	Nodes  []nodeD  `json:"nodes"`
	Prods  []prodD  `json:"prods"`
}

// parameters listed by node n's text, in order
func (s *shapeD) lists(n int) []int {
	d := s.Nodes[n]
	if d.Kind == "show" || d.Kind == "fshow" || d.Kind == "pshow" {
		return []int{d.P}
	}
	if d.Kind == "multi" {
		return append([]int{}, d.Ps...)
	}
	var out []int
	for _, c := range d.In {
		out = append(out, s.lists(c)...)
	}
	return out
}
// panicking parameters below node n
func (s *shapeD) panicParams(n int, acc map[int]bool) {
	d := s.Nodes[n]
	if d.Kind == "pshow" {
		acc[d.P] = true
	}
	for _, c := range d.In {
		s.panicParams(c, acc)
	}
}

// prodBad: the (parameter, value) pairs for which evaluating producer k panics
func (s *shapeD) prodBad(k int) [][2]int {
	if !isText(s.Prods[k].Kind) {
		return nil
	}
	acc := map[int]bool{}
	s.panicParams(s.Prods[k].Node, acc)
	var out [][2]int
	for p := 0; p < len(s.PTypes); p++ {
		if acc[p] {
			for v := 0; v < 10; v += 4 {
				out = append(out, [2]int{p, v})
			}
		}
	}
	return out
}

func (s *shapeD) prodLists(k int) []int {
	if s.Prods[k].Kind == "gltf" {
		var out []int
		for m := 0; m < s.Prods[k].Models; m++ {
			out = append(out, s.Prods[k].P, s.Prods[k].PB)
		}
		return out
	}
	if !isText(s.Prods[k].Kind) {
		return []int{s.Prods[k].P}
	}
	return s.lists(s.Prods[k].Node)
}
func (s *shapeD) depth(n int) int {
	d := s.Nodes[n]
	if d.Kind == "show" || d.Kind == "fshow" || d.Kind == "pshow" || d.Kind == "multi" {
		return 1
	}
	m := 0
	for _, c := range d.In {
		if k := s.depth(c); k > m {
			m = k
		}
	}
	return m + 1
}

// ---------------------------------------------------------------- jitter inside node processors
// widens the window between two input reads of one evaluation; harmless under the lock
type jit struct {
	level int // 0: none; k: Gosched + busy wait of 0..k microseconds
	ctr   atomic.Uint64
}

func (j *jit) pause() {
	if j == nil || j.level <= 0 {
		return
	}
	runtime.Gosched()
	x := j.ctr.Add(0x9E3779B97F4A7C15)
	x ^= x >> 29
	us := int(x % uint64(j.level+1))
	if us == 0 {
		return
	}
	end := time.Now().Add(time.Duration(us) * time.Microsecond)
	for time.Now().Before(end) {
	}
}

// ---------------------------------------------------------------- node types
type cfg struct {
	idx      int
	idxs     []int // multi nodes: the parameter indices listed
	j        *jit
	inflight atomic.Int32  // clients currently inside this node's Process
	overlaps *atomic.Int64 // graph-wide: how often a client entered a Process another client was already inside
	pr       *probe
}

// probe: graph-wide view of who is inside the Instance's critical section: node evaluations (Process calls, nested
// in one goroutine) and parameter operations (ApplyMessage / ToMessage of the probe parameters).  Under a correct
// lock a parameter operation never overlaps an evaluation or another parameter operation.
type probe struct {
	evals    atomic.Int32
	paramOps atomic.Int32
	overlaps *atomic.Int64
}

func (p *probe) evalEnter() {
	if p == nil {
		return
	}
	p.evals.Add(1)
	if p.paramOps.Load() > 0 {
		p.overlaps.Add(1)
	}
}
func (p *probe) evalLeave() {
	if p != nil {
		p.evals.Add(-1)
	}
}
func (p *probe) paramEnter() {
	if p.paramOps.Add(1) > 1 || p.evals.Load() > 0 {
		p.overlaps.Add(1)
	}
}
func (p *probe) paramLeave() { p.paramOps.Add(-1) }

// ProbeInt: the repository's parameter.Int whose ApplyMessage / ToMessage (called by UpdateParameter /
// ParameterData inside the critical section) report to the probe
type ProbeInt struct {
	*parameter.Int
	pr *probe
	j  *jit
}

func (p *ProbeInt) ApplyMessage(msg []byte) (bool, error) {
	p.pr.paramEnter()
	defer p.pr.paramLeave()
	p.j.pause()
	return p.Int.ApplyMessage(msg)
}
func (p *ProbeInt) ToMessage() []byte {
	p.pr.paramEnter()
	defer p.pr.paramLeave()
	p.j.pause()
	return p.Int.ToMessage()
}
func (p *ProbeInt) Node() nodes.Node { return p }
func (p *ProbeInt) Out() ProbeOut    { return ProbeOut{P: p} }
func (p *ProbeInt) Outputs() []nodes.Output {
	return []nodes.Output{{Type: "int", NodeOutput: ProbeOut{P: p}}}
}
func (p *ProbeInt) Inputs() []nodes.Input { return []nodes.Input{} }
func (p *ProbeInt) Schema() schema.Parameter {
	if p.Int == nil { // the type factory instantiates an empty one for the type schema
		return schema.ParameterBase{Name: "probe", Type: "int"}
	}
	return p.Int.Schema()
}

type ProbeOut struct{ P *ProbeInt }

func (o ProbeOut) Value() int       { return o.P.Int.Value() }
func (o ProbeOut) Node() nodes.Node { return o.P }
func (o ProbeOut) Port() string     { return "Out" }

// enter/leave bracket every Process: evaluation happens inside the Instance's critical section, so a second
// client inside the same node is a direct observation that mutual exclusion is broken
func (c *cfg) enter() {
	if c.inflight.Add(1) > 1 && c.overlaps != nil {
		c.overlaps.Add(1)
	}
	c.pr.evalEnter()
}
func (c *cfg) leave() {
	c.pr.evalLeave()
	c.inflight.Add(-1)
}

// ---- slice-valued payloads: code v <-> a payload whose LENGTH also depends on v, so that an in-place overwrite
// by a same-size payload shows another valid code and by a shorter one an invalid mixture
func payloadLen(v int) int { return 8 + 8*((v*7+3)%3) } // 8, 16 or 24
func filePayload(v int) []byte {
	return bytes.Repeat([]byte{byte('A' + v%26)}, payloadLen(v))
}
func decodeFile(b []byte) (int, bool) {
	if len(b) == 0 || b[0] < 'A' || b[0] > 'Z' {
		return 0, false
	}
	v := int(b[0] - 'A')
	if len(b) != payloadLen(v) {
		return 0, false
	}
	for _, x := range b {
		if x != b[0] {
			return 0, false
		}
	}
	return v, true
}
func intsPayload(v int) []int {
	out := make([]int, payloadLen(v)/4)
	for i := range out {
		out[i] = v
	}
	return out
}
func decodeInts(xs []int) (int, bool) {
	if len(xs) == 0 || xs[0] < 0 || len(xs) != payloadLen(xs[0])/4 {
		return 0, false
	}
	for _, x := range xs {
		if x != xs[0] {
			return 0, false
		}
	}
	return xs[0], true
}
func codeText(v int, ok bool) string {
	if !ok {
		return "X"
	}
	return strconv.Itoa(v)
}

// ---- images: code v <-> a uniform gray square of side 4 + v%3 and level 15 + 25*v; uploads in several encodings
// (PNG gray / RGBA / best compression, JPEG quality 95 - lossy, hence the tolerance when decoding)
func imageSide(v int) int { return 4 + v%3 }
func imageOf(v int) image.Image {
	n := imageSide(v)
	img := image.NewGray(image.Rect(0, 0, n, n))
	for i := range img.Pix {
		img.Pix[i] = uint8(15 + 25*(v%10))
	}
	return img
}
func imagePayload(v int, enc string) []byte {
	var buf bytes.Buffer
	src := imageOf(v)
	switch enc {
	case "jpeg":
		jpeg.Encode(&buf, src, &jpeg.Options{Quality: 95})
	case "png-rgba":
		n := imageSide(v)
		rgba := image.NewRGBA(image.Rect(0, 0, n, n))
		for y := 0; y < n; y++ {
			for x := 0; x < n; x++ {
				rgba.Set(x, y, src.At(x, y))
			}
		}
		png.Encode(&buf, rgba)
	case "png-best":
		(&png.Encoder{CompressionLevel: png.BestCompression}).Encode(&buf, src)
	default:
		png.Encode(&buf, src)
	}
	return buf.Bytes()
}
func decodeImage(img image.Image) (int, bool) {
	if img == nil {
		return 0, false
	}
	b := img.Bounds()
	if b.Dx() != b.Dy() || b.Dx() < 4 || b.Dx() > 6 {
		return 0, false
	}
	first := int(color.GrayModel.Convert(img.At(b.Min.X, b.Min.Y)).(color.Gray).Y)
	v := (first - 15 + 12) / 25
	if v < 0 || v > 9 || imageSide(v) != b.Dx() {
		return 0, false
	}
	for y := b.Min.Y; y < b.Max.Y; y++ {
		for x := b.Min.X; x < b.Max.X; x++ {
			l := int(color.GrayModel.Convert(img.At(x, y)).(color.Gray).Y)
			if d := l - (15 + 25*v); d < -8 || d > 8 {
				return 0, false
			}
		}
	}
	return v, true
}
func decodeImageBytes(b []byte) (int, bool) {
	img, _, err := image.Decode(bytes.NewReader(b))
	if err != nil {
		return 0, false
	}
	return decodeImage(img)
}

type ShowImageData struct {
	c  *cfg
	In nodes.NodeOutput[image.Image]
}

func (d ShowImageData) Process() (string, error) {
	d.c.enter()
	defer d.c.leave()
	d.c.j.pause()
	return fmt.Sprintf("p%d=%s;", d.c.idx, codeText(decodeImage(d.In.Value()))), nil
}

// IntsArtifact keeps the slice it was given (like basics.Binary keeps its bytes) and serialises on demand
type IntsArtifact struct{ Data []int }

func (a IntsArtifact) Write(w io.Writer) error {
	b, err := json.Marshal(a.Data)
	if err != nil {
		return err
	}
	_, err = w.Write(b)
	return err
}
func (IntsArtifact) Mime() string { return "application/json" }

type IntsArtifactData struct {
	c  *cfg
	In nodes.NodeOutput[[]int]
}

func (d IntsArtifactData) Process() (artifact.Artifact, error) {
	d.c.enter()
	defer d.c.leave()
	d.c.j.pause()
	return IntsArtifact{Data: d.In.Value()}, nil
}

type ShowFileData struct {
	c  *cfg
	In nodes.NodeOutput[[]byte]
}

func (d ShowFileData) Process() (string, error) {
	d.c.enter()
	defer d.c.leave()
	d.c.j.pause()
	return fmt.Sprintf("p%d=%s;", d.c.idx, codeText(decodeFile(d.In.Value()))), nil
}

type ShowIntsData struct {
	c  *cfg
	In nodes.NodeOutput[[]int]
}

func (d ShowIntsData) Process() (string, error) {
	d.c.enter()
	defer d.c.leave()
	d.c.j.pause()
	return fmt.Sprintf("p%d=%s;", d.c.idx, codeText(decodeInts(d.In.Value()))), nil
}

type ShowIntData struct {
	c  *cfg
	In nodes.NodeOutput[int]
}

func (d ShowIntData) Process() (string, error) {
	d.c.enter()
	defer d.c.leave()
	d.c.j.pause()
	return fmt.Sprintf("p%d=%d;", d.c.idx, d.In.Value()), nil
}

type ShowFloatData struct {
	c  *cfg
	In nodes.NodeOutput[float64]
}

func (d ShowFloatData) Process() (string, error) {
	d.c.enter()
	defer d.c.leave()
	d.c.j.pause()
	return fmt.Sprintf("p%d=%d;", d.c.idx, int(d.In.Value())), nil
}

type ShowStringData struct {
	c  *cfg
	In nodes.NodeOutput[string]
}

func (d ShowStringData) Process() (string, error) {
	d.c.enter()
	defer d.c.leave()
	d.c.j.pause()
	return fmt.Sprintf("p%d=%s;", d.c.idx, d.In.Value()), nil
}

type ShowBoolData struct {
	c  *cfg
	In nodes.NodeOutput[bool]
}

func (d ShowBoolData) Process() (string, error) {
	d.c.enter()
	defer d.c.leave()
	d.c.j.pause()
	v := 0
	if d.In.Value() {
		v = 1
	}
	return fmt.Sprintf("p%d=%d;", d.c.idx, v), nil
}

// PanicShowData: divides by (v mod 4): panics (runtime error: integer divide by zero) for values divisible by 4
type PanicShowData struct {
	c  *cfg
	In nodes.NodeOutput[int]
}

func (d PanicShowData) Process() (string, error) {
	d.c.enter()
	defer d.c.leave()
	d.c.j.pause()
	v := d.In.Value()
	scale := 12 / (v % 4)
	return fmt.Sprintf("p%d=%d;", d.c.idx, v*scale/scale), nil
}

// FailShowData: a loader-like node: fails (zero value + error) for values divisible by 3
type FailShowData struct {
	c  *cfg
	In nodes.NodeOutput[int]
}

func (d FailShowData) Process() (string, error) {
	d.c.enter()
	defer d.c.leave()
	d.c.j.pause()
	v := d.In.Value()
	if v%3 == 0 {
		return "", fmt.Errorf("p%d: cannot load value %d", d.c.idx, v)
	}
	return fmt.Sprintf("p%d=%d;", d.c.idx, v), nil
}

// MarkData: consumer of a loader: when the loader produced nothing it falls back to the raw parameter
type MarkData struct {
	c   *cfg
	In  nodes.NodeOutput[string]
	Raw nodes.NodeOutput[int]
}

func (d MarkData) Process() (string, error) {
	d.c.enter()
	defer d.c.leave()
	s := d.In.Value()
	d.c.j.pause()
	if s == "" {
		return fmt.Sprintf("p%d=%d;", d.c.idx, d.Raw.Value()), nil
	}
	return s, nil
}

// TriMeshData: a mesh of (n+1) triangles, n = an int parameter; shared by all models of a glTF scene
type TriMeshData struct {
	c *cfg
	N nodes.NodeOutput[int]
}

func (d TriMeshData) Process() (modeling.Mesh, error) {
	d.c.enter()
	defer d.c.leave()
	d.c.j.pause()
	n := d.N.Value() + 1
	idx := make([]int, 0, 3*n)
	pos := make([]vector3.Float64, 0, 3*n)
	for t := 0; t < n; t++ {
		idx = append(idx, 3*t, 3*t+1, 3*t+2)
		pos = append(pos, vector3.New(float64(t), 0., 0.), vector3.New(float64(t), 1., 0.), vector3.New(float64(t), 0., 1.))
	}
	d.c.j.pause()
	return modeling.NewTriangleMesh(idx).SetFloat3Attribute(modeling.PositionAttribute, pos), nil
}

// SixteenthData: float parameter v -> v/16 (exact), the roughness factor of the shared material
type SixteenthData struct {
	c  *cfg
	In nodes.NodeOutput[float64]
}

func (d SixteenthData) Process() (float64, error) {
	d.c.enter()
	defer d.c.leave()
	d.c.j.pause()
	return d.In.Value() / 16, nil
}

// decodeGLB: per scene node (mesh triangles - 1, roughness * 16)
func decodeGLB(b []byte) ([]int, bool) {
	if len(b) < 20 || string(b[0:4]) != "glTF" {
		return nil, false
	}
	l := int(binary.LittleEndian.Uint32(b[12:16]))
	if 20+l > len(b) {
		return nil, false
	}
	var doc struct {
		Accessors []struct {
			Count int `json:"count"`
		} `json:"accessors"`
		Materials []struct {
			Pbr *struct {
				Roughness *float64 `json:"roughnessFactor"`
			} `json:"pbrMetallicRoughness"`
		} `json:"materials"`
		Meshes []struct {
			Primitives []struct {
				Indices  *int `json:"indices"`
				Material *int `json:"material"`
			} `json:"primitives"`
		} `json:"meshes"`
		Nodes []struct {
			Mesh *int `json:"mesh"`
		} `json:"nodes"`
		Scenes []struct {
			Nodes []int `json:"nodes"`
		} `json:"scenes"`
	}
	if json.Unmarshal(b[20:20+l], &doc) != nil || len(doc.Scenes) != 1 {
		return nil, false
	}
	var out []int
	for _, n := range doc.Scenes[0].Nodes {
		if n < 0 || n >= len(doc.Nodes) || doc.Nodes[n].Mesh == nil {
			return nil, false
		}
		mi := *doc.Nodes[n].Mesh
		if mi < 0 || mi >= len(doc.Meshes) || len(doc.Meshes[mi].Primitives) != 1 {
			return nil, false
		}
		pr := doc.Meshes[mi].Primitives[0]
		if pr.Indices == nil || pr.Material == nil || *pr.Indices >= len(doc.Accessors) || *pr.Material >= len(doc.Materials) {
			return nil, false
		}
		cnt := doc.Accessors[*pr.Indices].Count
		mat := doc.Materials[*pr.Material]
		if cnt%3 != 0 || cnt < 3 || mat.Pbr == nil || mat.Pbr.Roughness == nil {
			return nil, false
		}
		r := *mat.Pbr.Roughness * 16
		if r < 0 || r != float64(int(r)) {
			return nil, false
		}
		out = append(out, cnt/3-1, int(r))
	}
	return out, true
}

// Multi2Data / Multi3Data: ONE node whose direct dependencies are 2-3 int parameters (a parameter's version grows
// by one per accepted update, so the recorded dependency versions of such a node move by arbitrary amounts
// between two evaluations)
type Multi2Data struct {
	c *cfg
	A nodes.NodeOutput[int]
	B nodes.NodeOutput[int]
}

func (d Multi2Data) Process() (string, error) {
	d.c.enter()
	defer d.c.leave()
	a := d.A.Value()
	d.c.j.pause()
	b := d.B.Value()
	return fmt.Sprintf("p%d=%d;p%d=%d;", d.c.idxs[0], a, d.c.idxs[1], b), nil
}

type Multi3Data struct {
	c *cfg
	A nodes.NodeOutput[int]
	B nodes.NodeOutput[int]
	C nodes.NodeOutput[int]
}

func (d Multi3Data) Process() (string, error) {
	d.c.enter()
	defer d.c.leave()
	a := d.A.Value()
	d.c.j.pause()
	b := d.B.Value()
	d.c.j.pause()
	c := d.C.Value()
	return fmt.Sprintf("p%d=%d;p%d=%d;p%d=%d;", d.c.idxs[0], a, d.c.idxs[1], b, d.c.idxs[2], c), nil
}

// ---- a gate in front of an artifact's serialisation: normally open; the serialisation-overlap scenario arms it so
// that the next Write calls wait (bounded) until the harness releases them -- a slow download in progress
type gate struct {
	mu      sync.Mutex
	armed   int
	entered chan struct{}
	release chan struct{}
	maxWait time.Duration
}

func (g *gate) arm(n int, maxWait time.Duration) {
	g.mu.Lock()
	defer g.mu.Unlock()
	g.armed, g.entered, g.release, g.maxWait = n, make(chan struct{}, n), make(chan struct{}), maxWait
}
func (g *gate) open() {
	g.mu.Lock()
	defer g.mu.Unlock()
	if g.release != nil {
		close(g.release)
		g.release = nil
	}
	g.armed = 0
}
func (g *gate) pass() {
	if g == nil {
		return
	}
	g.mu.Lock()
	if g.armed <= 0 || g.release == nil {
		g.mu.Unlock()
		return
	}
	g.armed--
	e, r, mw := g.entered, g.release, g.maxWait
	g.mu.Unlock()
	e <- struct{}{}
	select {
	case <-r:
	case <-time.After(mw):
	}
}

// GatedArtifact: a text artifact (an immutable string) whose serialisation passes the gate and is written in pieces
type GatedArtifact struct {
	Txt string
	g   *gate
	j   *jit
}

func (a GatedArtifact) Write(w io.Writer) error {
	a.g.pass()
	half := len(a.Txt) / 2
	if _, err := io.WriteString(w, a.Txt[:half]); err != nil {
		return err
	}
	a.j.pause()
	_, err := io.WriteString(w, a.Txt[half:])
	return err
}
func (GatedArtifact) Mime() string { return "text/plain" }

type GatedTextData struct {
	c  *cfg
	g  *gate
	In nodes.NodeOutput[string]
}

func (d GatedTextData) Process() (artifact.Artifact, error) {
	d.c.enter()
	defer d.c.leave()
	d.c.j.pause()
	return GatedArtifact{Txt: d.In.Value(), g: d.g, j: d.c.j}, nil
}

type Join2Data struct {
	c *cfg
	A nodes.NodeOutput[string]
	B nodes.NodeOutput[string]
}

func (d Join2Data) Process() (string, error) {
	d.c.enter()
	defer d.c.leave()
	a := d.A.Value()
	d.c.j.pause()
	b := d.B.Value()
	return a + b, nil
}

type Join3Data struct {
	c *cfg
	A nodes.NodeOutput[string]
	B nodes.NodeOutput[string]
	C nodes.NodeOutput[string]
}

func (d Join3Data) Process() (string, error) {
	d.c.enter()
	defer d.c.leave()
	a := d.A.Value()
	d.c.j.pause()
	b := d.B.Value()
	d.c.j.pause()
	c := d.C.Value()
	return a + b + c, nil
}

// ---------------------------------------------------------------- live graph
type liveParam struct {
	typ  string
	id   string
	node nodes.Node
}

type liveGraph struct {
	shape *shapeD
	inst  *graph.Instance
	par   []liveParam
	prodF [][]int // per producer: parameter indices listed by its text
	prodB [][][2]int // per producer: (parameter, value) pairs for which its evaluation panics
	over  atomic.Int64
	pr    probe
	// responses of earlier windows that are backed by slices (binary / ints artifacts, file ParameterData)
	retained []*rec
	gate     gate     // in front of the serialisation of "gated" producers
	srv      *httpSrv // non-nil: every call goes through the edit server's HTTP handlers (transport.go)
}

func encodeVal(typ string, v int, enc string) []byte {
	switch typ {
	case "int", "float", "probe":
		return []byte(strconv.Itoa(v))
	case "string":
		return []byte(`"` + strconv.Itoa(v) + `"`)
	case "bool":
		if v != 0 {
			return []byte("true")
		}
		return []byte("false")
	case "file":
		return filePayload(v) // a fresh slice per update: File.ApplyMessage adopts it
	case "ints":
		b, _ := json.Marshal(intsPayload(v))
		return b
	case "image":
		return imagePayload(v, enc)
	}
	panic("type")
}

// decodeVal: JSON returned by ParameterData -> code
func decodeVal(typ string, msg []byte) (int, bool) {
	switch typ {
	case "int", "probe":
		var x int
		if json.Unmarshal(msg, &x) != nil {
			return 0, false
		}
		return x, x >= 0
	case "float":
		var x float64
		if json.Unmarshal(msg, &x) != nil || x < 0 || x != float64(int(x)) {
			return 0, false
		}
		return int(x), true
	case "string":
		var s string
		if json.Unmarshal(msg, &s) != nil {
			return 0, false
		}
		x, err := strconv.Atoi(s)
		return x, err == nil && x >= 0
	case "bool":
		var b bool
		if json.Unmarshal(msg, &b) != nil {
			return 0, false
		}
		if b {
			return 1, true
		}
		return 0, true
	case "file":
		return decodeFile(msg)
	case "ints":
		var xs []int
		if json.Unmarshal(msg, &xs) != nil {
			return 0, false
		}
		return decodeInts(xs)
	case "image":
		return decodeImageBytes(msg) // judged by decoded content, whatever encoding comes back
	}
	return 0, false
}

func build(s *shapeD, init []int, j *jit) *liveGraph { return buildCLI(s, init, j, nil, "") }

// buildHTTP: the same graph behind the repository's edit server (generator.App + AppServer handlers, transport.go);
// nil when the server could not be started
func buildHTTP(s *shapeD, init []int, j *jit) *liveGraph { return buildX(s, init, j, nil, "", true) }

// buildCLI: the parameters in cli (File / Image) get their value from a command line flag naming a file in dir
// (flag parsed, nothing read yet: Value() loads the file lazily on its FIRST read)
func buildCLI(s *shapeD, init []int, j *jit, cli []int, dir string) *liveGraph {
	return buildX(s, init, j, cli, dir, false)
}

func buildX(s *shapeD, init []int, j *jit, cli []int, dir string, viaHTTP bool) *liveGraph {
	isCLI := map[int]bool{}
	for _, p := range cli {
		isCLI[p] = true
	}
	g := &liveGraph{shape: s}
	files := map[string]nodes.NodeOutput[artifact.Artifact]{}
	addProducer := func(name string, out nodes.NodeOutput[artifact.Artifact]) { files[name] = out }
	if !viaHTTP {
		g.inst = graph.New(&refutil.TypeFactory{})
		addProducer = g.inst.AddProducer
	}
	g.pr.overlaps = &g.over
	ints := map[int]nodes.NodeOutput[int]{}
	floats := map[int]nodes.NodeOutput[float64]{}
	strs := map[int]nodes.NodeOutput[string]{}
	bools := map[int]nodes.NodeOutput[bool]{}
	fileOuts := map[int]nodes.NodeOutput[[]byte]{}
	intss := map[int]nodes.NodeOutput[[]int]{}
	images := map[int]nodes.NodeOutput[image.Image]{}
	for p, t := range s.PTypes {
		name := fmt.Sprintf("p%d", p)
		switch t {
		case "probe":
			n := &ProbeInt{Int: &parameter.Int{Name: name, DefaultValue: init[p]}, pr: &g.pr, j: j}
			ints[p] = n.Out()
			g.par = append(g.par, liveParam{typ: t, node: n})
		case "int":
			n := &parameter.Int{Name: name, DefaultValue: init[p]}
			if isCLI[p] { // the value comes from the command line flag; the default is another one
				n.DefaultValue = (init[p] + 1) % 10
				n.CLI = &parameter.CliConfig[int]{FlagName: name, Usage: "harness"}
			}
			ints[p] = n.Out()
			g.par = append(g.par, liveParam{typ: t, node: n})
		case "float":
			n := &parameter.Float64{Name: name, DefaultValue: float64(init[p])}
			if isCLI[p] {
				n.DefaultValue = float64((init[p] + 1) % 10)
				n.CLI = &parameter.CliConfig[float64]{FlagName: name, Usage: "harness"}
			}
			floats[p] = n.Out()
			g.par = append(g.par, liveParam{typ: t, node: n})
		case "string":
			n := &parameter.String{Name: name, DefaultValue: strconv.Itoa(init[p])}
			if isCLI[p] {
				n.DefaultValue = strconv.Itoa((init[p] + 1) % 10)
				n.CLI = &parameter.CliConfig[string]{FlagName: name, Usage: "harness"}
			}
			strs[p] = n.Out()
			g.par = append(g.par, liveParam{typ: t, node: n})
		case "bool":
			n := &parameter.Bool{Name: name, DefaultValue: init[p] != 0}
			if isCLI[p] {
				n.DefaultValue = init[p] == 0
				n.CLI = &parameter.CliConfig[bool]{FlagName: name, Usage: "harness"}
			}
			bools[p] = n.Out()
			g.par = append(g.par, liveParam{typ: t, node: n})
		case "file":
			n := &parameter.File{Name: name, DefaultValue: filePayload(init[p])}
			if isCLI[p] {
				n.CLI = &parameter.CliConfig[string]{FlagName: name, Usage: "harness"}
			}
			fileOuts[p] = n.Out()
			g.par = append(g.par, liveParam{typ: t, node: n})
		case "ints":
			n := &parameter.Value[[]int]{Name: name, DefaultValue: intsPayload(init[p])}
			intss[p] = n.Out()
			g.par = append(g.par, liveParam{typ: t, node: n})
		case "image":
			n := &parameter.Image{Name: name, DefaultValue: imageOf(init[p])}
			if isCLI[p] {
				n.CLI = &parameter.CliConfig[string]{FlagName: name, Usage: "harness"}
			}
			images[p] = n.Out()
			g.par = append(g.par, liveParam{typ: t, node: n})
		default:
			panic("ptype " + t)
		}
	}
	outs := make([]nodes.NodeOutput[string], len(s.Nodes))
	for k, d := range s.Nodes {
		c := &cfg{idx: d.P, j: j, overlaps: &g.over, pr: &g.pr}
		switch d.Kind {
		case "show":
			switch s.PTypes[d.P] {
			case "int", "probe":
				outs[k] = (&nodes.Struct[string, ShowIntData]{Data: ShowIntData{c: c, In: ints[d.P]}}).Out()
			case "float":
				outs[k] = (&nodes.Struct[string, ShowFloatData]{Data: ShowFloatData{c: c, In: floats[d.P]}}).Out()
			case "string":
				outs[k] = (&nodes.Struct[string, ShowStringData]{Data: ShowStringData{c: c, In: strs[d.P]}}).Out()
			case "bool":
				outs[k] = (&nodes.Struct[string, ShowBoolData]{Data: ShowBoolData{c: c, In: bools[d.P]}}).Out()
			case "file":
				outs[k] = (&nodes.Struct[string, ShowFileData]{Data: ShowFileData{c: c, In: fileOuts[d.P]}}).Out()
			case "ints":
				outs[k] = (&nodes.Struct[string, ShowIntsData]{Data: ShowIntsData{c: c, In: intss[d.P]}}).Out()
			case "image":
				outs[k] = (&nodes.Struct[string, ShowImageData]{Data: ShowImageData{c: c, In: images[d.P]}}).Out()
			}
		case "pshow":
			if s.PTypes[d.P] != "int" {
				panic("pshow needs an int parameter")
			}
			outs[k] = (&nodes.Struct[string, PanicShowData]{Data: PanicShowData{c: c, In: ints[d.P]}}).Out()
		case "fshow":
			if s.PTypes[d.P] != "int" {
				panic("fshow needs an int parameter")
			}
			f := (&nodes.Struct[string, FailShowData]{Data: FailShowData{c: c, In: ints[d.P]}}).Out()
			c2 := &cfg{idx: d.P, j: j, overlaps: &g.over, pr: &g.pr}
			outs[k] = (&nodes.Struct[string, MarkData]{Data: MarkData{c: c2, In: f, Raw: ints[d.P]}}).Out()
		case "multi":
			c.idxs = d.Ps
			for _, q := range d.Ps {
				if ints[q] == nil {
					panic("multi needs int parameters")
				}
			}
			switch len(d.Ps) {
			case 2:
				outs[k] = (&nodes.Struct[string, Multi2Data]{Data: Multi2Data{c: c, A: ints[d.Ps[0]], B: ints[d.Ps[1]]}}).Out()
			case 3:
				outs[k] = (&nodes.Struct[string, Multi3Data]{Data: Multi3Data{c: c, A: ints[d.Ps[0]], B: ints[d.Ps[1]], C: ints[d.Ps[2]]}}).Out()
			default:
				panic("multi arity")
			}
		case "join":
			switch len(d.In) {
			case 2:
				outs[k] = (&nodes.Struct[string, Join2Data]{Data: Join2Data{c: c, A: outs[d.In[0]], B: outs[d.In[1]]}}).Out()
			case 3:
				outs[k] = (&nodes.Struct[string, Join3Data]{Data: Join3Data{c: c, A: outs[d.In[0]], B: outs[d.In[1]], C: outs[d.In[2]]}}).Out()
			default:
				panic("join arity")
			}
		default:
			panic("node kind " + d.Kind)
		}
	}
	for k, p := range s.Prods {
		switch p.Kind {
		case "":
			addProducer(p.Name, basics.NewTextNode(outs[p.Node]))
		case "gated":
			c := &cfg{idx: -1, j: j, overlaps: &g.over, pr: &g.pr}
			addProducer(p.Name, (&nodes.Struct[artifact.Artifact, GatedTextData]{Data: GatedTextData{c: c, g: &g.gate, In: outs[p.Node]}}).Out())
		case "bin":
			addProducer(p.Name, basics.NewBinaryNode(fileOuts[p.P]))
		case "img":
			addProducer(p.Name, basics.NewImageNode(images[p.P]))
		case "ints":
			c := &cfg{idx: p.P, j: j, overlaps: &g.over, pr: &g.pr}
			addProducer(p.Name, (&nodes.Struct[artifact.Artifact, IntsArtifactData]{Data: IntsArtifactData{c: c, In: intss[p.P]}}).Out())
		case "gltf":
			// the repository's own scene producer: Models x gltf.ModelNode sharing one mesh node and one material node
			mesh := (&nodes.Struct[modeling.Mesh, TriMeshData]{Data: TriMeshData{c: &cfg{idx: p.P, j: j, overlaps: &g.over, pr: &g.pr}, N: ints[p.P]}}).Out()
			rough := (&nodes.Struct[float64, SixteenthData]{Data: SixteenthData{c: &cfg{idx: p.PB, j: j, overlaps: &g.over, pr: &g.pr}, In: floats[p.PB]}}).Out()
			mat := (&gltf.MaterialNode{Data: gltf.MaterialNodeData{RoughnessFactor: rough}}).Out()
			var models []nodes.NodeOutput[gltf.PolyformModel]
			for m := 0; m < p.Models; m++ {
				models = append(models, (&gltf.ModelNode{Data: gltf.ModelNodeData{Mesh: mesh, Material: mat}}).Out())
			}
			addProducer(p.Name, (&gltf.ArtifactNode{Data: gltf.ArtifactNodeData{Models: models}}).Out())
		default:
			panic("producer kind " + p.Kind)
		}
		g.prodF = append(g.prodF, s.prodLists(k))
		g.prodB = append(g.prodB, s.prodBad(k))
	}
	if viaHTTP {
		srv, err := startServer(files)
		if err != nil {
			return nil
		}
		g.srv = srv
		ids, err := srv.paramIDs()
		if err != nil {
			return nil
		}
		for p := range g.par {
			id, ok := ids[fmt.Sprintf("p%d", p)]
			if !ok {
				panic(fmt.Sprintf("parameter p%d is not in the served schema", p))
			}
			g.par[p].id = id
		}
		return g
	}
	if len(cli) > 0 {
		fs := flag.NewFlagSet("cold", flag.ContinueOnError)
		g.inst.InitializeParameters(fs)
		var args []string
		for _, p := range cli {
			switch s.PTypes[p] {
			case "int", "float", "string":
				args = append(args, fmt.Sprintf("-p%d=%d", p, init[p]))
			case "bool":
				args = append(args, fmt.Sprintf("-p%d=%v", p, init[p] != 0))
			default:
				path := filepath.Join(dir, fmt.Sprintf("p%d.dat", p))
				os.WriteFile(path, encodeVal(s.PTypes[p], init[p], "png"), 0o644)
				args = append(args, fmt.Sprintf("-p%d", p), path)
			}
		}
		if err := fs.Parse(args); err != nil {
			panic(err)
		}
	}
	for p := range g.par {
		g.par[p].id = g.inst.NodeId(g.par[p].node)
		if g.par[p].id == "" {
			panic(fmt.Sprintf("parameter p%d is not reachable from any producer", p))
		}
	}
	return g
}

// parseText: "p0=5;p3=1;" -> values, provided the listed indices are exactly f
func parseText(txt string, f []int) ([]int, bool) {
	items := strings.Split(txt, ";")
	if len(items) == 0 || items[len(items)-1] != "" {
		return nil, false
	}
	items = items[:len(items)-1]
	if len(items) != len(f) {
		return nil, false
	}
	vs := make([]int, len(f))
	for k, it := range items {
		name, val, ok := strings.Cut(it, "=")
		if !ok || name != "p"+strconv.Itoa(f[k]) {
			return nil, false
		}
		x, err := strconv.Atoi(val)
		if err != nil || x < 0 {
			return nil, false
		}
		vs[k] = x
	}
	return vs, true
}

// decodeArtifact: the bytes an artifact writes -> the values it shows (by producer kind)
func (g *liveGraph) decodeArtifact(prod int, data []byte) ([]int, bool) {
	switch g.shape.Prods[prod].Kind {
	case "gltf":
		vs, ok := decodeGLB(data)
		return vs, ok && len(vs) == len(g.prodF[prod])
	case "bin":
		v, ok := decodeFile(data)
		return []int{v}, ok
	case "img":
		v, ok := decodeImageBytes(data)
		return []int{v}, ok
	case "ints":
		var xs []int
		if json.Unmarshal(data, &xs) != nil {
			return nil, false
		}
		v, ok := decodeInts(xs)
		return []int{v}, ok
	}
	return parseText(string(data), g.prodF[prod])
}

func artifactText(a artifact.Artifact) (string, bool) {
	if a == nil {
		return "", false
	}
	var buf bytes.Buffer
	if err := a.Write(&buf); err != nil {
		return "", false
	}
	return buf.String(), true
}

// ---------------------------------------------------------------- shapes
var ptypeCycle = []string{"int", "file", "float", "probe", "image", "ints", "string", "bool"}

func fixedShapes() []*shapeD {
	return []*shapeD{
		{ // shared join jA used by two producers, two-level join, a parameter listed through a second show node
			Name: "shared-two-level", PTypes: []string{"int", "float", "string", "bool"},
			Nodes: []nodeD{
				{Kind: "show", P: 0}, {Kind: "show", P: 1}, {Kind: "show", P: 2}, {Kind: "show", P: 3}, // 0-3
				{Kind: "join", In: []int{0, 1}}, // 4 = jA (shared)
				{Kind: "join", In: []int{2, 3}}, // 5 = jB
				{Kind: "join", In: []int{4, 2}}, // 6 -> a.txt  [0,1,2]
				{Kind: "join", In: []int{4, 5}}, // 7 -> b.txt  [0,1,2,3]
				{Kind: "show", P: 0},            // 8 second reader of p0
				{Kind: "join", In: []int{3, 8}}, // 9 -> c.txt  [3,0]
			},
			Prods: []prodD{{Name: "a.txt", Node: 6}, {Name: "b.txt", Node: 7}, {Name: "c.txt", Node: 9}, {Name: "slow.txt", Kind: "gated", Node: 7}},
		},
		{ // the same parameters through two different paths: [0,1,1,0]
			Name: "two-paths", PTypes: []string{"int", "int", "float", "string", "int"},
			Nodes: []nodeD{
				{Kind: "show", P: 0}, {Kind: "show", P: 1}, {Kind: "show", P: 1}, {Kind: "show", P: 0}, // 0-3
				{Kind: "join", In: []int{0, 1}},    // 4
				{Kind: "join", In: []int{2, 3}},    // 5
				{Kind: "join", In: []int{4, 5}},    // 6 -> a.txt [0,1,1,0]
				{Kind: "show", P: 2},               // 7
				{Kind: "show", P: 3},               // 8
				{Kind: "show", P: 4},               // 9
				{Kind: "join", In: []int{7, 8, 9}}, // 10
				{Kind: "join", In: []int{4, 10}},   // 11 -> b.txt [0,1,2,3,4]... trimmed below
				{Kind: "join", In: []int{9, 0}},    // 12 -> c.txt [4,0]
			},
			Prods: []prodD{{Name: "a.txt", Node: 6}, {Name: "b.txt", Node: 10}, {Name: "c.txt", Node: 12}, {Name: "d.txt", Node: 11}, {Name: "slow.txt", Kind: "gated", Node: 11}},
		},
		{ // three-input joins, six parameters
			Name: "wide", PTypes: []string{"int", "float", "string", "bool", "int", "float"},
			Nodes: []nodeD{
				{Kind: "show", P: 0}, {Kind: "show", P: 1}, {Kind: "show", P: 2}, {Kind: "show", P: 3},
				{Kind: "show", P: 4}, {Kind: "show", P: 5}, // 0-5
				{Kind: "join", In: []int{1, 2}},    // 6
				{Kind: "join", In: []int{0, 6, 3}}, // 7 -> a.txt [0,1,2,3]
				{Kind: "join", In: []int{4, 5}},    // 8 (shared)
				{Kind: "join", In: []int{8, 0}},    // 9 -> b.txt [4,5,0]
				{Kind: "join", In: []int{2, 8}},    // 10 -> c.txt [2,4,5]
			},
			Prods: []prodD{{Name: "a.txt", Node: 7}, {Name: "b.txt", Node: 9}, {Name: "c.txt", Node: 10}, {Name: "slow.txt", Kind: "gated", Node: 9}},
		},
		{ // loaders that fail for some values (behind a shared join) and the repository's glTF scene producer
			Name: "scene", PTypes: []string{"int", "float", "int", "string", "int"},
			Nodes: []nodeD{
				{Kind: "fshow", P: 0}, {Kind: "show", P: 1}, {Kind: "fshow", P: 2}, {Kind: "show", P: 3}, {Kind: "show", P: 4}, // 0-4
				{Kind: "join", In: []int{0, 3}},    // 5 (shared)
				{Kind: "join", In: []int{5, 2}},    // 6 -> a.txt [0,3,2]
				{Kind: "join", In: []int{4, 5, 1}}, // 7 -> b.txt [4,0,3,1]
			},
			Prods: []prodD{{Name: "a.txt", Node: 6}, {Name: "b.txt", Node: 7}, {Name: "scene.glb", Kind: "gltf", P: 4, PB: 1, Models: 3},
				{Name: "pair.glb", Kind: "gltf", P: 0, PB: 1, Models: 2}, {Name: "slow.txt", Kind: "gated", Node: 7}},
		},
		{ // a node that PANICS for some values below a shared join; one producer is not affected
			Name: "panics", PTypes: []string{"int", "int", "float", "string"},
			Nodes: []nodeD{
				{Kind: "pshow", P: 0}, {Kind: "show", P: 1}, {Kind: "show", P: 2}, {Kind: "show", P: 3}, // 0-3
				{Kind: "join", In: []int{1, 0}}, // 4 (shared; evaluates p1 before the panicking node)
				{Kind: "join", In: []int{4, 2}}, // 5 -> a.txt [1,0,2]
				{Kind: "join", In: []int{3, 4}}, // 6 -> b.txt [3,1,0]
				{Kind: "join", In: []int{1, 2}}, // 7 -> c.txt [1,2]
			},
			Prods: []prodD{{Name: "a.txt", Node: 5}, {Name: "b.txt", Node: 6}, {Name: "c.txt", Node: 7}, {Name: "slow.txt", Kind: "gated", Node: 6}},
		},
		{ // image parameters (uploads in several encodings), shown in text artifacts and served by basics.ImageNode
			Name: "images", PTypes: []string{"image", "probe", "image", "string"},
			Nodes: []nodeD{
				{Kind: "show", P: 0}, {Kind: "show", P: 1}, {Kind: "show", P: 2}, {Kind: "show", P: 3}, // 0-3
				{Kind: "join", In: []int{0, 1}}, // 4 (shared)
				{Kind: "join", In: []int{4, 2}}, // 5 -> a.txt [0,1,2]
				{Kind: "join", In: []int{3, 4}}, // 6 -> b.txt [3,0,1]
			},
			Prods: []prodD{{Name: "a.txt", Node: 5}, {Name: "b.txt", Node: 6}, {Name: "pic.png", Kind: "img", P: 0}, {Name: "pic2.png", Kind: "img", P: 2},
				{Name: "slow.txt", Kind: "gated", Node: 5}},
		},
		{ // slice-valued parameters: an uploaded file feeding a binary artifact and a text artifact, an int slice
			Name: "slices", PTypes: []string{"file", "probe", "ints", "string", "file"},
			Nodes: []nodeD{
				{Kind: "show", P: 0}, {Kind: "show", P: 1}, {Kind: "show", P: 2}, {Kind: "show", P: 3}, {Kind: "show", P: 4}, // 0-4
				{Kind: "join", In: []int{0, 1}},    // 5 (shared)
				{Kind: "join", In: []int{5, 2}},    // 6 -> info.txt [0,1,2]
				{Kind: "join", In: []int{3, 4, 5}}, // 7 -> more.txt [3,4,0,1]
			},
			Prods: []prodD{{Name: "model.bin", Kind: "bin", P: 0}, {Name: "info.txt", Node: 6}, {Name: "more.txt", Node: 7},
				{Name: "ints.json", Kind: "ints", P: 2}, {Name: "other.bin", Kind: "bin", P: 4}, {Name: "slow.txt", Kind: "gated", Node: 6}},
		},
		{ // nodes with 2-3 parameters as DIRECT dependencies (their recorded dependency versions move by one per
			// update), shared by several producers
			Name: "multi-dep", PTypes: []string{"int", "int", "int", "probe", "float"},
			Nodes: []nodeD{
				{Kind: "multi", Ps: []int{0, 1}},    // 0 -> a.txt [0,1]
				{Kind: "multi", Ps: []int{2, 0, 1}}, // 1
				{Kind: "show", P: 3},                // 2
				{Kind: "show", P: 4},                // 3
				{Kind: "join", In: []int{0, 2}},     // 4 -> b.txt [0,1,3]
				{Kind: "join", In: []int{1, 3}},     // 5 -> c.txt [2,0,1,4]
				{Kind: "multi", Ps: []int{1, 3}},    // 6 -> d.txt [1,3]
				{Kind: "join", In: []int{0, 6}},     // 7 -> e.txt [0,1,1,3]
			},
			Prods: []prodD{{Name: "a.txt", Node: 0}, {Name: "b.txt", Node: 4}, {Name: "c.txt", Node: 5}, {Name: "d.txt", Node: 6},
				{Name: "e.txt", Node: 7}, {Name: "slow.txt", Kind: "gated", Node: 5}},
		},
	}
}

// randomShape: 4-6 parameters (types cycle), 2-3 producers each listing 2-4 parameters through joins of
// (shared or fresh) show nodes and (shared) sub-joins; every parameter is used by some producer.
func randomShape(r *hx.Rng, k int) *shapeD {
	P := r.Range(4, 6)
	s := &shapeD{Name: fmt.Sprintf("random-%d", k)}
	off := r.Intn(len(ptypeCycle))
	for p := 0; p < P; p++ {
		s.PTypes = append(s.PTypes, ptypeCycle[(p+off)%len(ptypeCycle)])
	}
	showPool := map[int][]int{}
	show := func(p int) int {
		if ns := showPool[p]; len(ns) > 0 && r.Chance(1, 2) {
			return hx.Pick(r, ns)
		}
		kind := "show"
		if s.PTypes[p] == "int" && r.Chance(1, 3) {
			kind = "fshow"
		} else if s.PTypes[p] == "int" && r.Chance(1, 3) {
			kind = "pshow"
		}
		s.Nodes = append(s.Nodes, nodeD{Kind: kind, P: p})
		showPool[p] = append(showPool[p], len(s.Nodes)-1)
		return len(s.Nodes) - 1
	}
	var joinPool []int
	used := map[int]bool{}
	nprod := r.Range(2, 3)
	for q := 0; q < nprod; q++ {
		want := r.Range(2, 4)
		var leaves []int
		// optionally start from a shared sub-join
		if len(joinPool) > 0 && r.Chance(1, 2) {
			j := hx.Pick(r, joinPool)
			if len(s.lists(j)) < want {
				leaves = append(leaves, j)
				want -= len(s.lists(j))
			}
		}
		for want > 0 {
			// a leaf with several int parameters as direct dependencies
			var intish []int
			for p, t := range s.PTypes {
				if t == "int" || t == "probe" {
					intish = append(intish, p)
				}
			}
			if want >= 2 && len(intish) >= 2 && r.Chance(1, 4) {
				ar := 2
				if want >= 3 && len(intish) >= 3 && r.Bool() {
					ar = 3
				}
				var ps []int
				for _, i := range r.Perm(len(intish))[:ar] {
					ps = append(ps, intish[i])
					used[intish[i]] = true
				}
				s.Nodes = append(s.Nodes, nodeD{Kind: "multi", Ps: ps})
				leaves = append(leaves, len(s.Nodes)-1)
				want -= ar
				continue
			}
			p := r.Intn(P)
			// prefer parameters not used yet
			for t := 0; t < 3 && used[p]; t++ {
				p = r.Intn(P)
			}
			used[p] = true
			leaves = append(leaves, show(p))
			want--
		}
		// fold leaves into joins of arity 2-3 (two levels when there are enough leaves)
		for len(leaves) > 1 {
			ar := 2
			if len(leaves) >= 3 && r.Chance(1, 3) {
				ar = 3
			}
			s.Nodes = append(s.Nodes, nodeD{Kind: "join", In: append([]int{}, leaves[:ar]...)})
			j := len(s.Nodes) - 1
			joinPool = append(joinPool, j)
			leaves = append([]int{j}, leaves[ar:]...)
			if len(leaves) > 1 && r.Bool() { // rotate so that the tree is not always left-deep
				leaves = append(leaves[1:], leaves[0])
			}
		}
		if s.Nodes[leaves[0]].Kind == "show" { // a producer needs at least two listed values
			s.Nodes = append(s.Nodes, nodeD{Kind: "join", In: []int{leaves[0], show(r.Intn(P))}})
			leaves[0] = len(s.Nodes) - 1
		}
		s.Prods = append(s.Prods, prodD{Name: fmt.Sprintf("%c.txt", 'a'+q), Node: leaves[0]})
	}
	// parameters not reachable from a producer get one more producer
	var rest []int
	seen := map[int]bool{}
	for k := range s.Prods {
		for _, x := range s.prodLists(k) {
			seen[x] = true
		}
	}
	for p := 0; p < P; p++ {
		if !seen[p] {
			rest = append(rest, show(p))
		}
	}
	if len(rest) == 1 {
		rest = append(rest, show(r.Intn(P)))
	}
	for len(rest) > 1 {
		ar := 2
		if len(rest) == 3 {
			ar = 3
		}
		s.Nodes = append(s.Nodes, nodeD{Kind: "join", In: append([]int{}, rest[:ar]...)})
		rest = append([]int{len(s.Nodes) - 1}, rest[ar:]...)
	}
	if len(rest) == 1 {
		s.Prods = append(s.Prods, prodD{Name: "rest.txt", Node: rest[0]})
	}
	// a producer whose serialisation can be held at the gate (text of an existing producer's node)
	if r.Chance(2, 3) {
		s.Prods = append(s.Prods, prodD{Name: "slow.txt", Kind: "gated", Node: s.Prods[r.Intn(len(s.Prods))].Node})
	}
	// a glTF scene over an int and a float parameter
	pi, pf := -1, -1
	for p, t := range s.PTypes {
		if t == "int" && (pi < 0 || r.Bool()) {
			pi = p
		}
		if t == "float" && (pf < 0 || r.Bool()) {
			pf = p
		}
	}
	if pi >= 0 && pf >= 0 && r.Chance(1, 2) {
		s.Prods = append(s.Prods, prodD{Name: "scene.glb", Kind: "gltf", P: pi, PB: pf, Models: r.Range(2, 3)})
	}
	// slice-valued parameters also feed artifacts that keep the slice itself
	for p, t := range s.PTypes {
		if t == "file" && r.Chance(3, 4) {
			s.Prods = append(s.Prods, prodD{Name: fmt.Sprintf("raw%d.bin", p), Kind: "bin", P: p})
		}
		if t == "ints" && r.Chance(3, 4) {
			s.Prods = append(s.Prods, prodD{Name: fmt.Sprintf("raw%d.json", p), Kind: "ints", P: p})
		}
		if t == "image" && r.Chance(3, 4) {
			s.Prods = append(s.Prods, prodD{Name: fmt.Sprintf("pic%d.png", p), Kind: "img", P: p})
		}
	}
	return s
}
