// Unverified Go mirror of the linearizability check (Wing-Gong search with memoisation).  Used only for
// statistics, for choosing which windows to emit when very many fail, and for replay attempts: the verdict on
// every emitted window is computed in Coq by the verified [linb].
package main

import (
	"fmt"
	"strings"

	"github.com/EliCDavis/polyform/generator/artifact"
)

type opD struct {
	K    string `json:"k"`              // u(pdate) | b(ad update) | g(et) | a(rtifact) | v(ersion read) | s(chema) | c(onsume a retained response slowly; P = which) | z(ip: every artifact in one HTTP request)
	N    int    `json:"n,omitempty"`    // sweep scripts: repeat count of an update burst
	Side []int  `json:"side,omitempty"` // sweep scripts: producers read after every update of the burst
	P    int    `json:"p,omitempty"`    // parameter index (u, b, g)
	V    int    `json:"v,omitempty"`    // value code (u)
	Prod int    `json:"prod,omitempty"` // producer index (a)
	Enc  string `json:"enc,omitempty"`  // image updates: png | png-rgba | png-best | jpeg
}

type respD struct {
	K  string `json:"k"` // upd | get | art | ver | schema | fail
	Ok bool   `json:"ok,omitempty"`
	V  int    `json:"v,omitempty"`
	Vs []int  `json:"vs,omitempty"`
}

type rec struct {
	T    int    `json:"t"`
	Op   opD    `json:"op"`
	F    []int  `json:"f,omitempty"` // artifact: parameters listed
	Bad  [][2]int `json:"bad,omitempty"` // artifact: (parameter, value) pairs for which the producer's evaluation panics
	Resp respD  `json:"resp"`
	Inv  uint64 `json:"inv"`
	Res  uint64 `json:"res"`
	Note string `json:"note,omitempty"`
	// retained response objects (never serialised): the artifact value / the slice ParameterData returned
	art      artifact.Artifact
	raw      []byte
	g        *liveGraph
	extra    []rec // zip request: the artifacts of the other producers in the same archive
	lateOf   *rec  // consume op: the retained response it re-read ...
	lateResp respD // ... and what it decoded to
}

// latePair: a retained response read again later
type latePair struct {
	Orig respD  `json:"orig"`
	Late respD  `json:"late"`
	When string `json:"when"` // window-end | later-window | slow-consumer
	Op   opD    `json:"op"`
}

func respEq(a, b respD) bool {
	if a.K != b.K || a.Ok != b.Ok || a.V != b.V || len(a.Vs) != len(b.Vs) {
		return false
	}
	for i := range a.Vs {
		if a.Vs[i] != b.Vs[i] {
			return false
		}
	}
	return true
}

func coqResp(r respD) string {
	switch r.K {
	case "upd":
		if r.Ok {
			return "(RUpd true)"
		}
		return "(RUpd false)"
	case "get":
		return fmt.Sprintf("(RGet %d)", r.V)
	case "art":
		return fmt.Sprintf("(RArt %s)", coqNs(r.Vs))
	case "panic":
		return "RPanic"
	}
	return "RFail"
}

func isUpdate(o opD) bool { return o.K == "u" || o.K == "b" }

// sequential response of the specification
func seqMatches(vals []int, c *rec) bool {
	switch c.Op.K {
	case "u":
		return c.Resp.K == "upd" && c.Resp.Ok
	case "b":
		return c.Resp.K == "upd" && !c.Resp.Ok
	case "g":
		return c.Resp.K == "get" && c.Resp.V == vals[c.Op.P]
	case "a":
		for _, b := range c.Bad {
			for _, p := range c.F {
				if p == b[0] && vals[p] == b[1] {
					return c.Resp.K == "panic"
				}
			}
		}
		if c.Resp.K != "art" || len(c.Resp.Vs) != len(c.F) {
			return false
		}
		for k, p := range c.F {
			if c.Resp.Vs[k] != vals[p] {
				return false
			}
		}
		return true
	}
	return false
}

func goLinearizable(init []int, calls []rec) bool {
	n := len(calls)
	if n > 24 {
		return true // not decided here
	}
	memo := map[string]bool{}
	var search func(mask uint32, vals []int) bool
	search = func(mask uint32, vals []int) bool {
		if mask == 0 {
			return true
		}
		key := fmt.Sprint(mask, vals)
		if v, ok := memo[key]; ok {
			return v
		}
		res := false
		for i := 0; i < n && !res; i++ {
			if mask&(1<<i) == 0 {
				continue
			}
			// can call i be first among the remaining ones?
			ok := true
			for j := 0; j < n; j++ {
				if j != i && mask&(1<<j) != 0 && !(calls[i].Inv < calls[j].Res) {
					ok = false
					break
				}
			}
			if !ok || !seqMatches(vals, &calls[i]) {
				continue
			}
			nv := vals
			if calls[i].Op.K == "u" {
				nv = append([]int{}, vals...)
				nv[calls[i].Op.P] = calls[i].Op.V
			}
			res = search(mask&^(1<<i), nv)
		}
		memo[key] = res
		return res
	}
	return search(uint32(1)<<n-1, init)
}

// ---- Coq rendering
func coqNs(xs []int) string {
	var b strings.Builder
	b.WriteByte('[')
	for i, x := range xs {
		if i > 0 {
			b.WriteByte(';')
		}
		fmt.Fprintf(&b, "%d", x)
	}
	b.WriteByte(']')
	return b.String()
}

func coqCall(c *rec) string {
	return fmt.Sprintf("K %d %s %s %d %d", c.T, coqOp(c), coqResp(c.Resp), c.Inv, c.Res)
}

func coqOp(c *rec) string {
	var op string
	switch c.Op.K {
	case "u":
		op = fmt.Sprintf("(U %d %d)", c.Op.P, c.Op.V)
	case "b":
		op = fmt.Sprintf("(B %d)", c.Op.P)
	case "g":
		op = fmt.Sprintf("(G %d)", c.Op.P)
	case "a":
		op = fmt.Sprintf("(A %s%%nat)", coqNs(c.F))
		if len(c.Bad) > 0 {
			var bs []string
			for _, b := range c.Bad {
				bs = append(bs, fmt.Sprintf("PB %d %d", b[0], b[1]))
			}
			op = fmt.Sprintf("(AP %s%%nat [%s])", coqNs(c.F), strings.Join(bs, "; "))
		}
	}
	return op
}
