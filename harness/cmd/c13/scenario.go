// Orchestrated window: SERIALISATION OVERLAP through the real HTTP handlers.
//
//	client 0   GET /producer/value/<gated producer>     its artifact's Write is held at the gate: the Instance call
//	                                                    has returned (lock released), the download is in progress
//	client 1   POST /parameter/value/<p> (1-2 updates of parameters the producer shows), acknowledged while client
//	           0's download is still in progress
//	client 2.. GET the same producer (and parameter reads) -- invoked after the updates were acknowledged
//	then the gate is released.
//
// Under a correct implementation the followers show the updated values (they were invoked after the update had
// completed); a handler that shares work between requests (response cache, coalescing of in-flight requests) serves
// them what client 0 is still downloading.  Every wait below is bounded and only gives the scenario its power: if a
// deadline expires (loaded machine, or an implementation that blocks a follower behind client 0) the next phase
// simply starts later -- the recorded history is judged like any other window.
package main

import (
	"sync/atomic"
	"time"

	"verif/harness/hx"
)

// overlapPrograms: nil when the shape has no gated producer
func overlapPrograms(r *hx.Rng, g *liveGraph, cur []int) [][]opD {
	var gated []int
	for k, pr := range g.shape.Prods {
		if pr.Kind == "gated" {
			gated = append(gated, k)
		}
	}
	if len(gated) == 0 {
		return nil
	}
	q := hx.Pick(r, gated)
	f := g.prodF[q]
	planned := append([]int{}, cur...)
	var writer []opD
	for k := r.Range(1, 2); k > 0; k-- {
		p := f[r.Intn(len(f))]
		if g.par[p].typ == "bool" {
			planned[p] = 1 - planned[p]%2
		} else {
			planned[p] = (planned[p] + 1 + r.Intn(3)) % 10
		}
		writer = append(writer, opD{K: "u", P: p, V: planned[p], Enc: "png"})
	}
	progs := [][]opD{{{K: "a", Prod: q}}, writer}
	for k := r.Range(1, 3); k > 0; k-- {
		prog := []opD{{K: "a", Prod: q}}
		if r.Chance(1, 3) {
			prog = append(prog, opD{K: "g", P: f[r.Intn(len(f))]})
		}
		if r.Chance(1, 3) { // another producer sharing nodes with the gated one
			prog = append([]opD{{K: "a", Prod: r.Intn(len(g.shape.Prods))}}, prog...)
		}
		progs = append(progs, prog)
	}
	return progs
}

func runOverlap(g *liveGraph, progs [][]opD, clock *atomic.Uint64) (recs []rec, timedOut bool) {
	type doneT struct {
		t    int
		recs []rec
	}
	out := make(chan doneT, len(progs))
	start := func(t int) {
		go func() {
			var rs []rec
			for _, op := range progs[t] {
				r := g.do(t, op, clock)
				rs = append(rs, r)
				rs = append(rs, r.extra...)
			}
			out <- doneT{t, rs}
		}()
	}
	finished := map[int]bool{}
	collect := func(d time.Duration, want ...int) { // wait (bounded) until the listed clients are done
		deadline := time.After(d)
		for {
			missing := false
			for _, t := range want {
				if !finished[t] {
					missing = true
				}
			}
			if !missing {
				return
			}
			select {
			case x := <-out:
				finished[x.t] = true
				recs = append(recs, x.recs...)
			case <-deadline:
				return
			}
		}
	}
	g.gate.arm(1, *windowTimeout)
	entered := g.gate.entered
	defer g.gate.open()
	start(0)
	select { // the slow download has started (the Instance call is over)
	case <-entered:
	case <-time.After(3 * time.Second):
	}
	if len(progs) > 1 {
		start(1)
		collect(3*time.Second, 1)
	}
	var followers []int
	for t := 2; t < len(progs); t++ {
		start(t)
		followers = append(followers, t)
	}
	collect(2*time.Second, followers...)
	g.gate.open()
	all := make([]int, len(progs))
	for t := range all {
		all[t] = t
	}
	collect(*windowTimeout+*windowTimeout/2, all...)
	for t := range progs {
		if !finished[t] {
			// a client that never came back: its first call is reported as failed
			op := progs[t][0]
			rc := rec{T: t, Op: op, Resp: respD{K: "fail"}, Note: "call did not return within the window deadline"}
			if op.K == "a" {
				rc.F, rc.Bad = g.prodF[op.Prod], g.prodB[op.Prod]
			}
			rc.Inv = clock.Add(1)
			rc.Res = clock.Add(1)
			recs = append(recs, rc)
			timedOut = true
		}
	}
	return recs, timedOut
}
