// Sequential sweep scripts: ONE client, a fresh instance, long bursts of updates between two reads of an artifact.
//
// What changes between two evaluations of a node is a vector of dependency versions: a parameter's version grows by
// one per accepted update, a node's version by one per re-evaluation (which other producers sharing the node
// trigger).  The scripts walk through update-count COINCIDENCES: every parameter of a multi-dependency node updated
// k_i times with k_i from {1, 2, 3} x {small numbers, powers of two and their neighbours up to 257}, in both
// orders, sequentially and interleaved, optionally with reads of the OTHER producers after every update (so that the
// versions of shared inner nodes move by the same amounts), from version 0 and from random bases.  Deterministic:
// a replay re-runs the script.  Judged in Coq as CSweep (linear replay against the sequential specification).
package main

import (
	"fmt"
	"strings"
	"sync/atomic"

	"verif/harness/hx"
)

type segD struct {
	K    string `json:"k"` // "su": accepted updates of P with the values Vs; "c": one call
	P    int    `json:"p,omitempty"`
	Vs   []int  `json:"vs,omitempty"`
	Call *rec   `json:"call,omitempty"`
}

type sweepD struct {
	Shape    *shapeD     `json:"shape"`
	Plan     string      `json:"plan"` // how the script was drawn
	Init     []int       `json:"init"`
	Steps    []opD       `json:"steps"` // the script: u (N accepted updates of P, values cycling from V; Side = producers read after each), b, g, a
	HTTP     bool        `json:"http,omitempty"`
	Segs     []segD      `json:"segs"` // recorded
	Final    []int       `json:"final"`
	VerAfter uint32      `json:"ver_after"`
	Fresh    []freshPair `json:"fresh,omitempty"`
	Wrong    int         `json:"wrong_by_go_mirror,omitempty"` // responses the Go mirror of the specification rejects (selection only)
	Updates  int         `json:"updates"`
	Calls    int         `json:"calls"`
}

var burstCounts = []int{1, 2, 3, 4, 5, 7, 8, 9, 15, 16, 17, 31, 32, 33, 63, 64, 65, 127, 128, 129, 255, 256, 257}

// runSweep executes the script on a fresh instance and records it
func runSweep(sw *sweepD, clock *atomic.Uint64) bool {
	var g *liveGraph
	if sw.HTTP {
		g = buildHTTP(sw.Shape, sw.Init, &jit{})
	}
	if g == nil {
		sw.HTTP = false
		g = build(sw.Shape, sw.Init, &jit{})
	}
	vals := append([]int{}, sw.Init...)
	sw.Segs, sw.Wrong, sw.Updates, sw.Calls = nil, 0, 0, 0
	call := func(op opD) {
		rc := g.do(0, op, clock)
		sw.Calls++
		if isUpdate(op) {
			sw.Updates++
		}
		if !seqMatches(vals, &rc) {
			sw.Wrong++
		}
		if op.K == "u" && rc.Resp.K == "upd" && rc.Resp.Ok {
			vals[op.P] = op.V
			if n := len(sw.Segs); n > 0 && sw.Segs[n-1].K == "su" && sw.Segs[n-1].P == op.P {
				sw.Segs[n-1].Vs = append(sw.Segs[n-1].Vs, op.V)
			} else {
				sw.Segs = append(sw.Segs, segD{K: "su", P: op.P, Vs: []int{op.V}})
			}
			return
		}
		cp := rc
		sw.Segs = append(sw.Segs, segD{K: "c", Call: &cp})
	}
	for _, st := range sw.Steps {
		switch st.K {
		case "u":
			v := st.V
			for k := 0; k < st.N; k++ {
				x := (v + k) % 10
				if g.par[st.P].typ == "bool" {
					x = (v + k) % 2
				}
				call(opD{K: "u", P: st.P, V: x, Enc: "png"})
				for _, q := range st.Side {
					call(opD{K: "a", Prod: q})
				}
			}
		default:
			call(st)
		}
	}
	final, ver, ok := g.readState()
	if !ok {
		final, ver = vals, 0
		sw.Wrong++
	}
	sw.Final, sw.VerAfter = final, ver
	w := &windowD{Shape: sw.Shape, Final: final}
	freshOracle(g, w, -1, clock)
	sw.Fresh = w.Fresh
	sw.Wrong += w.FreshBad
	return sw.Wrong == 0
}

func sweepCase(sw *sweepD, kindPrefix string) hx.Case {
	var segs []string
	for _, s := range sw.Segs {
		if s.K == "su" {
			segs = append(segs, fmt.Sprintf("SU %d %s", s.P, coqNs(s.Vs)))
		} else {
			segs = append(segs, fmt.Sprintf("SC %s %s", coqOp(s.Call), coqResp(s.Call.Resp)))
		}
	}
	var fs []string
	for _, f := range sw.Fresh {
		fs = append(fs, fmt.Sprintf("L %s %s", coqResp(f.Live), coqResp(f.Fresh)))
	}
	coq := fmt.Sprintf("CSweep %s 0 [%s] %s %d [%s]", coqNs(sw.Init), strings.Join(segs, "; "), coqNs(sw.Final), sw.VerAfter,
		strings.Join(fs, "; "))
	key := "sweep|" + sw.Shape.Name + "|" + fmt.Sprint(sw.Init) + "|" + strings.Join(segs, ";")
	kind := "sweep"
	if sw.HTTP {
		kind = "http-sweep"
	}
	// non-trivial: between two reads of one producer at least two of its parameters were updated
	return hx.Case{Kind: kindPrefix + kind, Desc: sw, Coq: coq, Nontriv: sw.Updates >= 2 && sw.Calls > sw.Updates, Key: key}
}

func sweepStats(run *hx.Run, sw *sweepD) {
	run.Count("sweep:" + sw.Plan)
	if sw.HTTP {
		run.Count("sweep:over-http")
	}
	switch {
	case sw.Updates >= 256:
		run.Count("sweep-updates:256+")
	case sw.Updates >= 64:
		run.Count("sweep-updates:064-255")
	case sw.Updates >= 16:
		run.Count("sweep-updates:016-063")
	default:
		run.Count("sweep-updates:000-015")
	}
	if sw.Wrong > 0 {
		run.Count("sweep:rejected-by-go-mirror")
	}
}

// ---------------------------------------------------------------- plans
func allProds(s *shapeD) []opD {
	var out []opD
	for k := range s.Prods {
		out = append(out, opD{K: "a", Prod: k})
	}
	return out
}

// multi-dependency nodes of the shape: (node index, producers whose text contains it)
func multiNodes(s *shapeD) [][]int {
	var out [][]int
	for n, d := range s.Nodes {
		if d.Kind == "multi" {
			out = append(out, append([]int{n}, d.Ps...))
		}
	}
	return out
}

// gridSweep: burst counts ks on the parameters ps (one multi node's dependencies); base: accepted updates applied
// before the first read (so that the versions recorded by the first evaluation are not all zero)
func gridSweep(r *hx.Rng, s *shapeD, ps []int, ks []int, base []int, interleave bool, plan string) *sweepD {
	sw := &sweepD{Shape: s, Plan: plan, Init: randomInit(r, s)}
	for i, p := range ps {
		if base != nil && base[i] > 0 {
			sw.Steps = append(sw.Steps, opD{K: "u", P: p, V: r.Intn(10), N: base[i]})
		}
	}
	sw.Steps = append(sw.Steps, allProds(s)...)
	if interleave {
		left := append([]int{}, ks...)
		for more := true; more; {
			more = false
			for i, p := range ps {
				if left[i] > 0 {
					left[i]--
					more = true
					sw.Steps = append(sw.Steps, opD{K: "u", P: p, V: r.Intn(10), N: 1})
				}
			}
		}
	} else {
		for _, i := range r.Perm(len(ps)) {
			if ks[i] > 0 {
				sw.Steps = append(sw.Steps, opD{K: "u", P: ps[i], V: r.Intn(10), N: ks[i]})
			}
		}
	}
	sw.Steps = append(sw.Steps, allProds(s)...)
	return sw
}

// sideSweep: on a shape with shared inner nodes: parameter pa updated ka times and pb kb times, every update
// followed by a read of every producer except the target; then the target is read
func sideSweep(r *hx.Rng, s *shapeD, target int, pa, ka, pb, kb int) *sweepD {
	sw := &sweepD{Shape: s, Plan: "side-reads", Init: randomInit(r, s)}
	var side []int
	for k := range s.Prods {
		if k != target {
			side = append(side, k)
		}
	}
	sw.Steps = append(sw.Steps, allProds(s)...)
	sw.Steps = append(sw.Steps, opD{K: "u", P: pa, V: r.Intn(10), N: ka, Side: side}, opD{K: "u", P: pb, V: r.Intn(10), N: kb, Side: side})
	sw.Steps = append(sw.Steps, opD{K: "a", Prod: target})
	sw.Steps = append(sw.Steps, allProds(s)...)
	return sw
}

// randomSweep: several rounds on one instance: random bursts (counts mostly small, sometimes a special count) on
// the parameters of one producer, then reads
func randomSweep(r *hx.Rng, s *shapeD, budget int) *sweepD {
	sw := &sweepD{Shape: s, Plan: "random-rounds", Init: randomInit(r, s)}
	sw.Steps = append(sw.Steps, allProds(s)...)
	for round := r.Range(2, 5); round > 0 && budget > 0; round-- {
		q := r.Intn(len(s.Prods))
		f := s.prodLists(q)
		for _, i := range r.Perm(len(f)) {
			p := f[i]
			k := 0
			switch x := r.Intn(10); {
			case x < 3:
				k = 0
			case x < 7:
				k = r.Range(1, 3)
			default:
				k = hx.Pick(r, burstCounts)
			}
			if k > budget {
				k = budget
			}
			if k == 0 {
				continue
			}
			budget -= k
			if r.Chance(1, 10) && s.PTypes[p] != "file" {
				sw.Steps = append(sw.Steps, opD{K: "b", P: p})
			}
			st := opD{K: "u", P: p, V: r.Intn(10), N: k}
			if k <= 16 && r.Chance(1, 4) {
				st.Side = []int{r.Intn(len(s.Prods))}
			}
			sw.Steps = append(sw.Steps, st)
		}
		sw.Steps = append(sw.Steps, opD{K: "a", Prod: q})
		if r.Bool() {
			sw.Steps = append(sw.Steps, allProds(s)...)
		}
		if r.Chance(1, 3) {
			sw.Steps = append(sw.Steps, opD{K: "g", P: f[r.Intn(len(f))]})
		}
	}
	return sw
}

// sweepPlans: the scripts of one run
func sweepPlans(r *hx.Rng, fixed []*shapeD, thorough bool) []*sweepD {
	var out []*sweepD
	var md *shapeD
	for _, f := range fixed {
		if f.Name == "multi-dep" {
			md = f
		}
	}
	// (1) the grid on the two-dependency node and the three-dependency node of the fixed shape, from version 0
	for _, mn := range multiNodes(md) {
		ps := mn[1:]
		for a := 0; a <= 3; a++ { // a = 0: ONE dependency moves by b, the others not at all (a version counter that wraps)
			for _, b := range burstCounts {
				pow2 := b >= 64 && b&(b-1) == 0
				if !thorough && a != 1 && !(a == 0 && pow2) && !r.Chance(1, 3) {
					continue
				}
				if a == 0 && b < 15 && !thorough {
					continue
				}
				for flip := 0; flip < 2; flip++ {
					ks := make([]int, len(ps))
					i, j := 0, len(ps)-1
					if len(ps) == 3 && r.Bool() {
						j = 1
					}
					if len(ps) == 3 && r.Chance(1, 3) {
						i, j = 1, 2
					}
					if flip == 1 {
						i, j = j, i
					}
					ks[i], ks[j] = a, b
					out = append(out, gridSweep(r, md, ps, ks, nil, false, fmt.Sprintf("grid-%ddeps-from-version-0", len(ps))))
				}
			}
		}
	}
	// (2) the same coincidences from random bases, interleaved bursts
	n2 := 24
	if thorough {
		n2 = 400
	}
	for k := 0; k < n2; k++ {
		mn := hx.Pick(r, multiNodes(md))
		ps := mn[1:]
		ks, base := make([]int, len(ps)), make([]int, len(ps))
		for i := range ps {
			base[i] = r.Intn(40)
			switch r.Intn(3) {
			case 0:
				ks[i] = r.Range(1, 3)
			case 1:
				ks[i] = hx.Pick(r, burstCounts)
			}
		}
		ks[r.Intn(len(ps))] = hx.Pick(r, burstCounts[:17])
		out = append(out, gridSweep(r, md, ps, ks, base, r.Bool(), "grid-random-base"))
	}
	// (3) shared inner nodes: the other producers are read after every update
	type sidePlan struct {
		shape          string
		target, pa, pb int
	}
	sides := []sidePlan{{"shared-two-level", 0, 0, 2}, {"shared-two-level", 0, 2, 0}, {"shared-two-level", 1, 1, 3}, {"wide", 0, 0, 2}, {"wide", 1, 4, 0},
		{"wide", 2, 2, 5}, {"two-paths", 3, 0, 3}, {"two-paths", 0, 1, 0}, {"multi-dep", 1, 0, 3}, {"multi-dep", 2, 1, 4}}
	for _, sp := range sides {
		for _, f := range fixed {
			if f.Name != sp.shape {
				continue
			}
			for _, kb := range []int{1, 2, 4, 8, 16, 32, 64} {
				if !thorough && !r.Chance(2, 5) {
					continue
				}
				ka := r.Range(1, 2)
				if r.Bool() {
					out = append(out, sideSweep(r, f, sp.target, sp.pa, ka, sp.pb, kb))
				} else {
					out = append(out, sideSweep(r, f, sp.target, sp.pb, kb, sp.pa, ka))
				}
			}
		}
	}
	// (4) random rounds on random and fixed shapes
	n4 := 16
	if thorough {
		n4 = 300
	}
	for k := 0; k < n4; k++ {
		var s *shapeD
		if r.Chance(1, 3) {
			s = hx.Pick(r, fixed)
		} else {
			s = randomShape(r, 5000+k)
		}
		sw := randomSweep(r, s, 300)
		sw.HTTP = k%4 == 3 && k < 80 // every HTTP script leaves an edit server behind
		out = append(out, sw)
	}
	return out
}
