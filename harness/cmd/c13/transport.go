// HTTP transport: the graph under test is served by the repository's own edit server -- generator.App.Run("edit")
// builds the graph.Instance from App.Files, constructs the AppServer and serves AppServer.Handler() -- and every
// client call of a window is a real HTTP request against it:
//
//	UpdateParameter(id, msg)  POST /parameter/value/<id>   (parameterValueEndpoint, endpoint.BodyMethod)
//	ParameterData(id)         GET  /parameter/value/<id>   (parameterValueEndpoint, endpoint.ResponseMethod)
//	Artifact(name)            GET  /producer/value/<name>  (AppServer.ProducerEndpoint -> writeProducerDataToRequest)
//	all artifacts             GET  /zip                    (AppServer.ZipEndpoint -> App.WriteZip)
//	ModelVersion()            GET  /started
//	Schema()                  GET  /schema
//
// Only exported API is used (App{Files}, App.Run, the command line flags of the edit command).  The listener cannot
// be shut down: one server (and its hub goroutine) per HTTP epoch stays behind until the process ends.
package main

import (
	"archive/zip"
	"bytes"
	"encoding/json"
	"fmt"
	"io"
	"net"
	"net/http"
	"os"
	"strconv"
	"strings"
	"sync/atomic"
	"time"

	"github.com/EliCDavis/polyform/generator"
	"github.com/EliCDavis/polyform/generator/artifact"
	"github.com/EliCDavis/polyform/nodes"
)

var serverCounter atomic.Int64

type httpSrv struct {
	base   string
	client *http.Client
}

func freePort() (string, error) {
	l, err := net.Listen("tcp", "127.0.0.1:0")
	if err != nil {
		return "", err
	}
	defer l.Close()
	return strconv.Itoa(l.Addr().(*net.TCPAddr).Port), nil
}

// startServer: App.Run blocks in http.ListenAndServe; it returns only when the port cannot be bound (another port
// is tried then).  Readiness = /started answers.  Generous deadlines: the machine may be heavily loaded.
func startServer(files map[string]nodes.NodeOutput[artifact.Artifact]) (*httpSrv, error) {
	var last error
	for attempt := 0; attempt < 4; attempt++ {
		port, err := freePort()
		if err != nil {
			last = err
			continue
		}
		// a name nobody else uses: the page served at "/" shows it, which tells OUR server from a foreign one that
		// grabbed the port between freePort() and the bind (several checks run on this machine at the same time)
		name := fmt.Sprintf("c13-%d-%d-%d", os.Getpid(), serverCounter.Add(1), time.Now().UnixNano())
		app := &generator.App{Name: name, Version: "v0", Files: files, Out: io.Discard}
		failed := make(chan error, 1)
		go func() {
			defer func() {
				if e := recover(); e != nil {
					failed <- fmt.Errorf("edit server panicked: %v", e)
				}
			}()
			failed <- app.Run([]string{"c13", "edit", "-host", "127.0.0.1", "-port", port, "-launch-browser=false"})
		}()
		srv := &httpSrv{base: "http://127.0.0.1:" + port, client: &http.Client{Transport: &http.Transport{
			MaxIdleConns: 64, MaxIdleConnsPerHost: 64, IdleConnTimeout: 30 * time.Second}}}
		deadline := time.Now().Add(30 * time.Second)
		last = fmt.Errorf("edit server did not answer on port %s", port)
		for bound := true; bound && time.Now().Before(deadline); {
			select {
			case last = <-failed:
				bound = false
				continue
			default:
			}
			if _, _, err := srv.do("GET", "/started", nil); err == nil {
				if _, page, err := srv.do("GET", "/", nil); err == nil && bytes.Contains(page, []byte(name)) {
					return srv, nil
				}
			}
			time.Sleep(5 * time.Millisecond)
		}
	}
	return nil, last
}

func (s *httpSrv) do(method, path string, body []byte) (int, []byte, error) {
	var rd io.Reader
	if body != nil {
		rd = bytes.NewReader(body)
	}
	req, err := http.NewRequest(method, s.base+path, rd)
	if err != nil {
		return 0, nil, err
	}
	resp, err := s.client.Do(req)
	if err != nil {
		return 0, nil, err
	}
	defer resp.Body.Close()
	data, err := io.ReadAll(resp.Body)
	return resp.StatusCode, data, err
}

// paramIDs: display name -> node id, from the served schema
func (s *httpSrv) paramIDs() (map[string]string, error) {
	_, data, err := s.do("GET", "/schema", nil)
	if err != nil {
		return nil, err
	}
	var sch struct {
		Nodes map[string]struct {
			Name      string          `json:"name"`
			Parameter json.RawMessage `json:"parameter"`
		} `json:"nodes"`
	}
	if err := json.Unmarshal(data, &sch); err != nil {
		return nil, err
	}
	out := map[string]string{}
	for id, n := range sch.Nodes {
		if len(n.Parameter) > 0 && string(n.Parameter) != "null" {
			out[n.Name] = id
		}
	}
	return out, nil
}

func (s *httpSrv) schemaNodes() (int, error) {
	_, data, err := s.do("GET", "/schema", nil)
	if err != nil {
		return 0, err
	}
	var sch struct {
		Nodes map[string]json.RawMessage `json:"nodes"`
	}
	if err := json.Unmarshal(data, &sch); err != nil {
		return 0, err
	}
	return len(sch.Nodes), nil
}

// update: (ok, err) as UpdateParameter's caller sees them through the handler: an empty 200 answer = accepted,
// {"error": ...} = rejected (a panic inside the handler is reported the same way and is then a wrong answer for a
// well-formed message)
func (s *httpSrv) update(id string, msg []byte) (bool, string, error) {
	st, data, err := s.do("POST", "/parameter/value/"+id, msg)
	if err != nil {
		return false, "", err
	}
	if st == 200 && len(data) == 0 {
		return true, "", nil
	}
	return false, string(data), nil
}

func jsonError(data []byte) (string, bool) {
	var e struct {
		Error *string `json:"error"`
	}
	if len(data) > 0 && data[0] == '{' && json.Unmarshal(data, &e) == nil && e.Error != nil {
		return *e.Error, true
	}
	return "", false
}

func (s *httpSrv) parameterData(id string) ([]byte, error) {
	st, data, err := s.do("GET", "/parameter/value/"+id, nil)
	if err != nil {
		return nil, err
	}
	if st != 200 {
		return nil, fmt.Errorf("status %d: %s", st, data)
	}
	return data, nil
}

// artifact: the bytes served; panicked = the handler recovered a panic of the evaluation (500 + "panic recover")
func (s *httpSrv) artifact(name string) (data []byte, panicked bool, err error) {
	st, data, err := s.do("GET", "/producer/value/"+name, nil)
	if err != nil {
		return nil, false, err
	}
	if st == 500 {
		if msg, ok := jsonError(data); ok && strings.HasPrefix(msg, "panic recover") {
			return nil, true, nil
		}
	}
	if st != 200 {
		return nil, false, fmt.Errorf("status %d: %s", st, data)
	}
	return data, false, nil
}

func (s *httpSrv) modelVersion() (uint32, error) {
	_, data, err := s.do("GET", "/started", nil)
	if err != nil {
		return 0, err
	}
	var v struct {
		ModelVersion uint32 `json:"modelVersion"`
	}
	if err := json.Unmarshal(data, &v); err != nil {
		return 0, err
	}
	return v.ModelVersion, nil
}

// zipFiles: every producer's artifact as served in one archive
func (s *httpSrv) zipFiles() (map[string][]byte, error) {
	st, data, err := s.do("GET", "/zip", nil)
	if err != nil {
		return nil, err
	}
	if st != 200 {
		return nil, fmt.Errorf("status %d", st)
	}
	zr, err := zip.NewReader(bytes.NewReader(data), int64(len(data)))
	if err != nil {
		return nil, err
	}
	out := map[string][]byte{}
	for _, f := range zr.File {
		rc, err := f.Open()
		if err != nil {
			return nil, err
		}
		b, err := io.ReadAll(rc)
		rc.Close()
		if err != nil {
			return nil, err
		}
		out[f.Name] = b
	}
	return out, nil
}
