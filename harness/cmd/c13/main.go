// C13 harness: real concurrent runs against the real graph.Instance.
//
// An epoch = one Instance (graph shape from graph.go) + T client goroutines (1..8).  The run is cut into
// windows separated by quiescence: for each window the main goroutine draws per-thread programs (<= 12
// calls, <= 5 update-type calls) from the single PRNG, releases the clients together, waits for all of them,
// then (single-threaded) reads every parameter and the model version.  Every call carries invocation and
// response stamps from one atomic counter taken immediately around the Instance method.  Each window is
// emitted as a Coq case (Check/C13.v: CHist / CSeq) and judged there by the verified checker [linb]; the Go
// mirror in lin.go is used for statistics and selection only.
package main

import (
	"bytes"
	"context"
	"encoding/json"
	"flag"
	"fmt"
	"io"
	"log"
	"os"
	"os/exec"
	"runtime"
	"sort"
	"strings"
	"sync/atomic"
	"time"

	"verif/harness/hx"
)

type windowD struct {
	Shape    *shapeD `json:"shape"`
	Threads  int     `json:"threads"`
	Jitter   int     `json:"jitter"`
	Progs    [][]opD `json:"progs"`
	Init     []int   `json:"init"`
	Ver      uint32  `json:"ver"`
	Calls    []rec   `json:"calls"`  // recorded, stamps renumbered from 0
	VReads   []rec   `json:"vreads"` // ModelVersion() reads by clients
	Final    []int   `json:"final"`
	VerAfter uint32  `json:"ver_after"`
	Timeout  bool    `json:"timeout,omitempty"`
	Schema   int     `json:"schema_calls,omitempty"`
	SchemaP  int     `json:"schema_panics,omitempty"`
	GoNonLin bool    `json:"go_mirror_nonlinearizable,omitempty"`
	Late     []latePair `json:"late,omitempty"`     // retained responses read again later
	Overlaps int64      `json:"overlaps,omitempty"` // concurrent entries into one node's Process during the window
	LateBad  int        `json:"late_mismatches,omitempty"`
	CLI      []int       `json:"cli,omitempty"`     // cold windows: File/Image parameters whose value comes from a command line flag (lazy first read)
	TmpDir   string      `json:"tmp_dir,omitempty"` // ... and the directory holding their files
	Rounds   int         `json:"rounds,omitempty"` // cold windows: attempts on fresh instances inside one child process
	Cold     bool        `json:"cold,omitempty"`  // the window ran in a child process on a FRESH instance: no id was ever looked up before
	Crash    string      `json:"crash,omitempty"` // the child process died (e.g. "fatal error: concurrent map writes")
	Race     string      `json:"race,omitempty"`  // race detector report printed by the child (only in -race builds)
	Fresh    []freshPair `json:"fresh,omitempty"` // live artifact vs fresh instance with the same parameter values
	FreshBad int         `json:"fresh_mismatches,omitempty"`
	HTTP     bool        `json:"http,omitempty"`     // every call of the window is an HTTP request against the edit server (transport.go)
	Scenario string      `json:"scenario,omitempty"` // "overlap": orchestrated serialisation overlap (scenario.go)
	Inconclusive string  `json:"inconclusive,omitempty"` // the window could not be run (harness-side deadline): dropped
}

type freshPair struct {
	Prod  int   `json:"prod"`
	Live  respD `json:"live"`
	Fresh respD `json:"fresh"`
}

func (w *windowD) flagged() bool {
	return w.GoNonLin || w.Timeout || w.LateBad > 0 || w.Overlaps > 0 || w.FreshBad > 0 || w.Crash != "" || w.Race != ""
}

var (
	jitterFlag    = flag.Int("jitter", 8, "max busy wait (microseconds) between input reads inside harness-defined nodes; 0 = none")
	unlockedReads = flag.Bool("unlocked-reads", true, "clients also call ModelVersion() and Schema() (documented-unlocked readers)")
	attempts      = flag.Int("attempts", 300, "replay: number of re-runs of the recorded programs")
	windowTimeout = flag.Duration("window-timeout", 10*time.Second, "deadline for one window")
	coldFlag      = flag.Int("cold", -1, "number of cold-start windows run in child processes (-1: n/16, at most 400)")
	httpFlag      = flag.Int("http-epochs", -1, "epochs served through the edit server's HTTP handlers (-1: every third epoch, at most 60)")
	sweepFlag     = flag.Bool("sweeps", true, "sequential sweep scripts (update-count coincidences)")
	consumeFlag   = flag.Bool("consume", true, "clients also re-read retained responses of earlier windows slowly while updates run")
)

// ---------------------------------------------------------------- one call against the implementation
func (g *liveGraph) do(t int, op opD, clock *atomic.Uint64) (rc rec) {
	rc = rec{T: t, Op: op}
	defer func() {
		if e := recover(); e != nil {
			rc.Res = clock.Add(1)
			rc.Resp = respD{K: "fail"}
			if op.K == "a" && rc.Inv != 0 {
				// the client recovers a panicking artifact request (AppServer.writeProducerDataToRequest does):
				// response class "panicked"; whether that is a legal response is decided by the specification
				rc.Resp = respD{K: "panic"}
			}
			rc.Note = "panic: " + fmt.Sprint(e)
		}
	}()
	switch op.K {
	case "u", "b":
		msg := []byte("{")
		if op.K == "u" {
			msg = encodeVal(g.par[op.P].typ, op.V, op.Enc)
		}
		id := g.par[op.P].id
		if g.srv != nil {
			rc.Inv = clock.Add(1)
			ok, note, err := g.srv.update(id, msg)
			rc.Res = clock.Add(1)
			rc.Resp, rc.Note = respD{K: "upd", Ok: ok}, note
			if err != nil {
				rc.Resp, rc.Note = respD{K: "fail"}, "http: "+err.Error()
			}
			break
		}
		rc.Inv = clock.Add(1)
		ok, err := g.inst.UpdateParameter(id, msg)
		rc.Res = clock.Add(1)
		rc.Resp = respD{K: "upd", Ok: ok}
		if ok != (err == nil) {
			rc.Resp = respD{K: "fail"}
			rc.Note = fmt.Sprintf("UpdateParameter returned (%v, %v)", ok, err)
		}
	case "g":
		id := g.par[op.P].id
		var data []byte
		if g.srv != nil {
			var err error
			rc.Inv = clock.Add(1)
			data, err = g.srv.parameterData(id)
			rc.Res = clock.Add(1)
			if err != nil {
				rc.Resp, rc.Note = respD{K: "fail"}, "http: "+err.Error()
				break
			}
		} else {
			rc.Inv = clock.Add(1)
			data = g.inst.ParameterData(id)
			rc.Res = clock.Add(1)
		}
		rc.raw, rc.g = data, g
		if v, ok := decodeVal(g.par[op.P].typ, append([]byte{}, data...)); ok {
			rc.Resp = respD{K: "get", V: v}
		} else {
			rc.Resp = respD{K: "fail"}
			rc.Note = "ParameterData returned " + string(data)
		}
	case "a":
		name := g.shape.Prods[op.Prod].Name
		rc.F, rc.Bad = g.prodF[op.Prod], g.prodB[op.Prod]
		if g.srv != nil {
			rc.Inv = clock.Add(1)
			data, panicked, err := g.srv.artifact(name)
			rc.Res = clock.Add(1)
			rc.g = g
			switch {
			case err != nil:
				rc.Resp, rc.Note = respD{K: "fail"}, "http: "+err.Error()
			case panicked:
				rc.Resp, rc.Note = respD{K: "panic"}, "the handler recovered a panic of the evaluation"
			default:
				if vs, ok := g.decodeArtifact(op.Prod, data); ok {
					rc.Resp = respD{K: "art", Vs: vs}
				} else {
					rc.Resp, rc.Note = respD{K: "fail"}, "artifact shows "+clip(string(data))
				}
			}
			break
		}
		rc.Inv = clock.Add(1)
		a := g.inst.Artifact(name)
		rc.Res = clock.Add(1)
		rc.art, rc.g = a, g
		txt, ok := artifactText(a) // a copy of what the artifact shows at response time
		if vs, ok2 := g.decodeArtifact(op.Prod, []byte(txt)); ok && ok2 {
			rc.Resp = respD{K: "art", Vs: vs}
		} else {
			rc.Resp = respD{K: "fail"}
			rc.Note = "artifact shows " + txt
		}
	case "v":
		rc.Inv = clock.Add(1)
		v, ok := g.modelVersion()
		rc.Res = clock.Add(1)
		rc.Resp = respD{K: "ver", V: int(v)}
		if !ok {
			rc.Resp = respD{K: "fail"}
		}
	case "s":
		rc.Inv = clock.Add(1)
		n := 0
		if g.srv != nil {
			n, _ = g.srv.schemaNodes()
		} else {
			n = len(g.inst.Schema().Nodes)
		}
		rc.Res = clock.Add(1)
		rc.Resp = respD{K: "schema", V: n}
	case "z":
		// GET /zip (HTTP only): one archive with every producer's artifact = one Artifact call per producer, all
		// inside the interval of the request
		rc.Op = opD{K: "a", Prod: 0}
		rc.F, rc.Bad = g.prodF[0], g.prodB[0]
		rc.Inv = clock.Add(1)
		files, err := g.srv.zipFiles()
		rc.Res = clock.Add(1)
		rc.g = g
		for k := range g.shape.Prods {
			x := rec{T: t, Op: opD{K: "a", Prod: k}, F: g.prodF[k], Bad: g.prodB[k], Inv: rc.Inv, Res: rc.Res, g: g, Note: "zip"}
			data, ok := files[g.shape.Prods[k].Name]
			if vs, ok2 := g.decodeArtifact(k, data); err == nil && ok && ok2 {
				x.Resp = respD{K: "art", Vs: vs}
			} else {
				x.Resp = respD{K: "fail"}
				x.Note = fmt.Sprintf("zip: %v / %s", err, clip(string(data)))
			}
			if k == 0 {
				rc.Resp, rc.Note = x.Resp, x.Note
			} else {
				rc.extra = append(rc.extra, x)
			}
		}
	case "c":
		// slow consumer: read a response retained from an earlier window chunk by chunk while updates run
		rc.Inv = clock.Add(1)
		if len(g.retained) > 0 {
			old := g.retained[op.P%len(g.retained)]
			rc.Resp = respD{K: "consumed"}
			rc.Note = "ok"
			late := old.reread(true)
			rc.F = []int{op.P % len(g.retained)}
			rc.Resp.Ok = respEq(old.Resp, late)
			rc.lateOf, rc.lateResp = old, late
		}
		rc.Res = clock.Add(1)
	}
	return rc
}

func clip(s string) string {
	if len(s) > 200 {
		return s[:200] + "..."
	}
	return s
}

// modelVersion: Instance.ModelVersion(), or what /started reports
func (g *liveGraph) modelVersion() (uint32, bool) {
	if g.srv != nil {
		v, err := g.srv.modelVersion()
		return v, err == nil
	}
	return g.inst.ModelVersion(), true
}

// slowWriter copies what it is given in small chunks, yielding in between (a slow download)
type slowWriter struct {
	buf  []byte
	slow bool
}

func (w *slowWriter) Write(p []byte) (int, error) {
	for off := 0; off < len(p); off += 4 {
		end := off + 4
		if end > len(p) {
			end = len(p)
		}
		w.buf = append(w.buf, p[off:end]...)
		if w.slow {
			runtime.Gosched()
		}
	}
	return len(p), nil
}

// reread decodes the RETAINED object again (not the copy taken at response time)
func (rc *rec) reread(slow bool) (out respD) {
	defer func() {
		if e := recover(); e != nil {
			out = respD{K: "fail"}
		}
	}()
	g := rc.g
	switch rc.Op.K {
	case "a":
		if rc.art == nil || g == nil {
			return rc.Resp
		}
		w := &slowWriter{slow: slow}
		if err := rc.art.Write(w); err != nil {
			return respD{K: "fail"}
		}
		if vs, ok := g.decodeArtifact(rc.Op.Prod, w.buf); ok {
			return respD{K: "art", Vs: vs}
		}
		return respD{K: "fail"}
	case "g":
		if g == nil || rc.Resp.K != "get" {
			return rc.Resp
		}
		w := &slowWriter{slow: slow}
		w.Write(rc.raw)
		if v, ok := decodeVal(g.par[rc.Op.P].typ, w.buf); ok {
			return respD{K: "get", V: v}
		}
		return respD{K: "fail"}
	}
	return rc.Resp
}

// sliceBacked: responses whose retained object may share memory with the parameter store
func (rc *rec) sliceBacked() bool {
	if rc.g == nil {
		return false
	}
	switch rc.Op.K {
	case "a":
		return !isText(rc.g.shape.Prods[rc.Op.Prod].Kind)
	case "g":
		t := rc.g.par[rc.Op.P].typ
		return t == "file" || t == "ints" || t == "image"
	}
	return false
}

func (g *liveGraph) readAll() []int {
	out := make([]int, len(g.par))
	var clock atomic.Uint64
	for p := range g.par {
		rc := g.do(0, opD{K: "g", P: p}, &clock)
		if rc.Resp.K == "get" {
			out[p] = rc.Resp.V
		} else {
			out[p] = 999999
		}
	}
	return out
}

// readState: every parameter + the model version, read by a helper goroutine under the window deadline (an
// implementation that never releases the mutex must not hang the harness).  ok=false: the read did not return.
func (g *liveGraph) readState() (vals []int, ver uint32, ok bool) {
	type st struct {
		vals []int
		ver  uint32
	}
	ch := make(chan st, 1)
	go func() {
		vals := g.readAll()
		ver, ok := g.modelVersion()
		if !ok {
			vals[0] = 999999
		}
		ch <- st{vals, ver}
	}()
	if x, ok := waitDone(ch, *windowTimeout+*windowTimeout/2); ok {
		return x.vals, x.ver, true
	}
	return nil, 0, false
}

// waitDone: wait for done, at most d of time during which THIS PROCESS was running normally.  The deadline is
// consumed in slices of 250 ms; a slice whose timer fires late by more than its own length (the whole process was
// stalled: overloaded or throttled machine, stopped container) is not counted, so that a stall never turns a
// healthy call into a "stuck" one, while a call that is really stuck is still reported after d.
func waitDone[T any](done <-chan T, d time.Duration) (T, bool) {
	const slice = 250 * time.Millisecond
	var zero T
	for used := time.Duration(0); used < d; {
		t0 := time.Now()
		timer := time.NewTimer(slice)
		select {
		case x := <-done:
			timer.Stop()
			return x, true
		case <-timer.C:
			if time.Since(t0) < 2*slice {
				used += slice
			}
		}
	}
	select { // a last look: the answer may have arrived while the final slice was being accounted
	case x := <-done:
		return x, true
	default:
	}
	return zero, false
}

func stuckRead(clock *atomic.Uint64) rec {
	rc := rec{T: 0, Op: opD{K: "g", P: 0}, Resp: respD{K: "fail"}, Note: "ParameterData did not return at a quiescent point"}
	rc.Inv = clock.Add(1)
	rc.Res = clock.Add(1)
	return rc
}

// ---------------------------------------------------------------- one window
type msgT struct {
	done bool
	t    int
	r    rec
}

func runWindow(g *liveGraph, progs [][]opD, clock *atomic.Uint64) (recs []rec, timedOut bool) {
	T := len(progs)
	total := 0
	for _, p := range progs {
		total += len(p)
	}
	ch := make(chan msgT, total+T+4)
	for t := range progs { // "count" below indexes the programmed ops: skipped ones must not be counted as stuck
		var kept []opD
		for _, op := range progs[t] {
			if ((op.K == "v" || op.K == "s") && !*unlockedReads) || (op.K == "z" && g.srv == nil) {
				continue
			}
			kept = append(kept, op)
		}
		progs[t] = kept
	}
	var ready atomic.Int32
	for t := range progs {
		go func(t int, prog []opD) {
			ready.Add(1)
			for ready.Load() < int32(T) { // start together
				runtime.Gosched()
			}
			for _, op := range prog {
				if (op.K == "v" || op.K == "s") && !*unlockedReads {
					continue // replayed programs may contain them; the -race run leaves the documented-unlocked readers out
				}
				if op.K == "z" && g.srv == nil {
					continue
				}
				ch <- msgT{t: t, r: g.do(t, op, clock)}
			}
			ch <- msgT{done: true, t: t}
		}(t, progs[t])
	}
	finished := 0
	count := make([]int, T)
	handle := func(m msgT) {
		if m.done {
			finished++
		} else {
			recs = append(recs, m.r)
			recs = append(recs, m.r.extra...)
			count[m.t]++
		}
	}
	// The deadline is an INACTIVITY deadline with a grace period: when the whole process is stalled (overloaded
	// or throttled machine) the timer fires as soon as it resumes although nothing is wrong, so a window is
	// declared stuck only when no client made progress for the deadline AND for a further grace period.
	timer := time.NewTimer(*windowTimeout)
	defer timer.Stop()
	for finished < T {
		select {
		case m := <-ch:
			handle(m)
			if !timer.Stop() {
				select {
				case <-timer.C:
				default:
				}
			}
			timer.Reset(*windowTimeout)
		case <-timer.C:
			if m, ok := waitDone(ch, *windowTimeout/2); ok {
				handle(m)
				timer.Reset(*windowTimeout)
				continue
			}
			// stuck clients (deadlock in the implementation): their current call never returned
			for t := range progs {
				if count[t] < len(progs[t]) {
					op := progs[t][count[t]]
					if op.K == "z" { // reported as the first artifact of the archive
						op = opD{K: "a", Prod: 0}
					}
					rc := rec{T: t, Op: op, Resp: respD{K: "fail"}, Note: "call did not return within the window deadline"}
					if op.K == "a" {
						rc.F, rc.Bad = g.prodF[op.Prod], g.prodB[op.Prod]
					}
					rc.Inv = clock.Add(1)
					rc.Res = clock.Add(1)
					recs = append(recs, rc)
				}
			}
			return recs, true
		}
	}
	return recs, false
}

// renumber the stamps of a window to 0..k-1 (order preserved)
func renumber(recs []rec) {
	var st []uint64
	for _, r := range recs {
		st = append(st, r.Inv, r.Res)
	}
	sort.Slice(st, func(i, j int) bool { return st[i] < st[j] })
	idx := map[uint64]uint64{}
	for _, s := range st {
		if _, ok := idx[s]; !ok {
			idx[s] = uint64(len(idx))
		}
	}
	for k := range recs {
		recs[k].Inv, recs[k].Res = idx[recs[k].Inv], idx[recs[k].Res]
	}
}

// ---------------------------------------------------------------- program generation
func genPrograms(r *hx.Rng, g *liveGraph, T int, cur []int, withUnlocked bool) [][]opD {
	P := len(g.par)
	progs := make([][]opD, T)
	total := 12
	if T < 12 {
		total = r.Range(maxInt(T, 4), 12)
	}
	if T == 1 {
		total = r.Range(3, 12)
	}
	// roles: 0 reader, 1 writer, 2 mixed
	roles := make([]int, T)
	for t := range roles {
		roles[t] = r.Intn(3)
	}
	if T >= 2 {
		roles[0], roles[1] = 0, 1
	}
	// how many calls per thread
	n := make([]int, T)
	for t := 0; t < T && t < total; t++ {
		n[t] = 1
	}
	for k := T; k < total; k++ {
		n[r.Intn(T)]++
	}
	planned := append([]int{}, cur...)
	updates := 0
	// writers walk through the parameter list of one producer so that several parameters of one artifact change
	focus := g.prodF[r.Intn(len(g.prodF))]
	fpos := r.Intn(len(focus))
	mkUpdate := func() opD {
		p := focus[fpos%len(focus)]
		fpos++
		if r.Chance(1, 4) {
			p = r.Intn(P)
		}
		if r.Chance(1, 8) && g.par[p].typ != "file" { // parameter.File accepts every byte string
			return opD{K: "b", P: p}
		}
		v := (planned[p] + 1 + r.Intn(3)) % 10
		if g.par[p].typ == "bool" {
			v = 1 - planned[p]%2
			if planned[p] > 1 {
				v = 0
			}
		}
		planned[p] = v
		if g.par[p].typ == "image" {
			return opD{K: "u", P: p, V: v, Enc: hx.Pick(r, []string{"png", "png-rgba", "png-best", "jpeg", "jpeg", "jpeg"})}
		}
		return opD{K: "u", P: p, V: v}
	}
	mkRead := func(artPct int) opD {
		if r.Intn(100) < artPct {
			// prefer producers that list a focus parameter
			q := r.Intn(len(g.prodF))
			return opD{K: "a", Prod: q}
		}
		return opD{K: "g", P: r.Intn(P)}
	}
	// interleave the generation over threads so that the update budget is spread
	left := append([]int{}, n...)
	for remaining := total; remaining > 0; {
		t := r.Intn(T)
		if left[t] == 0 {
			continue
		}
		left[t]--
		remaining--
		var op opD
		x := r.Intn(100)
		switch roles[t] {
		case 0:
			if x < 5 && updates < 5 {
				op = mkUpdate()
			} else {
				op = mkRead(75)
			}
		case 1:
			if x < 80 && updates < 5 {
				op = mkUpdate()
			} else {
				op = mkRead(50)
			}
		default:
			if x < 40 && updates < 5 {
				op = mkUpdate()
			} else {
				op = mkRead(66)
			}
		}
		if isUpdate(op) {
			updates++
		}
		progs[t] = append(progs[t], op)
	}
	if withUnlocked {
		for k := r.Intn(3); k > 0; k-- {
			t := r.Intn(T)
			pos := r.Intn(len(progs[t]) + 1)
			progs[t] = append(progs[t][:pos], append([]opD{{K: "v"}}, progs[t][pos:]...)...)
		}
		if r.Chance(1, 6) {
			t := r.Intn(T)
			pos := r.Intn(len(progs[t]) + 1)
			progs[t] = append(progs[t][:pos], append([]opD{{K: "s"}}, progs[t][pos:]...)...)
		}
	}
	if g.srv != nil && r.Chance(1, 5) {
		panicky := false
		for _, b := range g.prodB {
			panicky = panicky || len(b) > 0
		}
		if !panicky { // App.WriteZip does not recover a panicking producer: the connection is dropped
			t := r.Intn(T)
			pos := r.Intn(len(progs[t]) + 1)
			progs[t] = append(progs[t][:pos], append([]opD{{K: "z"}}, progs[t][pos:]...)...)
		}
	}
	if *consumeFlag && len(g.retained) > 0 {
		for k := r.Intn(3); k > 0; k-- {
			t := r.Intn(T)
			pos := r.Intn(len(progs[t]) + 1)
			progs[t] = append(progs[t][:pos], append([]opD{{K: "c", P: r.Intn(len(g.retained))}}, progs[t][pos:]...)...)
		}
	}
	return progs
}

func maxInt(a, b int) int {
	if a > b {
		return a
	}
	return b
}

// ---------------------------------------------------------------- window -> case
func overlap(a, b *rec) bool { return a.Inv < b.Res && b.Inv < a.Res }

func finishWindow(w *windowD, recs []rec) {
	renumber(recs)
	sort.SliceStable(recs, func(i, j int) bool { return recs[i].Inv < recs[j].Inv })
	for _, r := range recs {
		switch r.Op.K {
		case "v":
			w.VReads = append(w.VReads, r)
		case "s":
			w.Schema++
			if r.Resp.K == "fail" {
				w.SchemaP++
			}
		case "c":
			if r.lateOf != nil {
				w.Late = append(w.Late, latePair{Orig: r.lateOf.Resp, Late: r.lateResp, When: "slow-consumer", Op: r.lateOf.Op})
			}
		default:
			w.Calls = append(w.Calls, r)
		}
	}
	w.GoNonLin = !goLinearizable(w.Init, w.Calls)
}

// afterWindow (quiescent, main goroutine): every response of the window and the slice-backed responses retained
// from earlier windows are read again and compared with what they showed at response time; then the window's
// slice-backed responses join the retained set
func afterWindow(g *liveGraph, w *windowD) {
	var fresh []*rec
	for k := range w.Calls {
		c := &w.Calls[k]
		if (c.Op.K == "a" || c.Op.K == "g") && c.Resp.K != "fail" {
			late := c.reread(false)
			w.Late = append(w.Late, latePair{Orig: c.Resp, Late: late, When: "window-end", Op: c.Op})
			if respEq(c.Resp, late) && c.sliceBacked() {
				cp := *c
				fresh = append(fresh, &cp)
			}
		}
	}
	// a retained response found changed is reported once, in the window whose updates changed it
	kept := g.retained[:0:0]
	for _, old := range g.retained {
		late := old.reread(false)
		w.Late = append(w.Late, latePair{Orig: old.Resp, Late: late, When: "later-window", Op: old.Op})
		if respEq(old.Resp, late) {
			kept = append(kept, old)
		}
	}
	g.retained = append(kept, fresh...)
	if n := len(g.retained); n > 8 {
		g.retained = g.retained[n-8:]
	}
	w.Overlaps = g.over.Swap(0)
	w.LateBad = 0
	for _, l := range w.Late {
		if !respEq(l.Orig, l.Late) {
			w.LateBad++
		}
	}
}

// prime (quiescent, main goroutine): re-upload the current value of every slice-valued parameter (so that the
// parameter owns a buffer of exactly that size) and retain one read of each of them and of each artifact that
// keeps the slice -- later windows re-read these after their updates
func (g *liveGraph) prime(cur []int, clock *atomic.Uint64) {
	for p := range g.par {
		if t := g.par[p].typ; t == "file" || t == "ints" || t == "image" {
			g.do(0, opD{K: "u", P: p, V: cur[p], Enc: "png"}, clock)
		}
	}
	for p := range g.par {
		if t := g.par[p].typ; t == "file" || t == "ints" || t == "image" {
			rc := g.do(0, opD{K: "g", P: p}, clock)
			if rc.Resp.K == "get" {
				g.retained = append(g.retained, &rc)
			}
		}
	}
	// every producer is evaluated once (all node caches hold the initial state: a node that fails later has
	// succeeded before); artifacts that keep slices are retained
	for k, pr := range g.shape.Prods {
		rc := g.do(0, opD{K: "a", Prod: k}, clock)
		if !isText(pr.Kind) && rc.Resp.K == "art" {
			g.retained = append(g.retained, &rc)
		}
	}
}

// primeGuarded: prime under the window deadline (an implementation that never releases the mutex must not hang us)
func (g *liveGraph) primeGuarded(cur []int, clock *atomic.Uint64) bool {
	done := make(chan bool, 1)
	go func() { g.prime(cur, clock); done <- true }()
	_, ok := waitDone(done, *windowTimeout+*windowTimeout/2)
	return ok
}

// oneWindow: run the programs of w on g, read the state at the following quiescent point, re-read retained responses
// freshOracle (quiescent, main goroutine): the artifact the live instance serves now (through its caches) against
// the artifact of a FRESH instance built with the same parameter values; which = producer index, -1 = all
func freshOracle(g *liveGraph, w *windowD, which int, clock *atomic.Uint64) {
	done := make(chan bool, 1)
	go func() {
		defer func() { done <- true }()
		fg := build(g.shape, w.Final, &jit{})
		for k := range g.shape.Prods {
			if which >= 0 && k != which%len(g.shape.Prods) {
				continue
			}
			live := g.do(0, opD{K: "a", Prod: k}, clock)
			fr := fg.do(0, opD{K: "a", Prod: k}, clock)
			w.Fresh = append(w.Fresh, freshPair{Prod: k, Live: live.Resp, Fresh: fr.Resp})
		}
	}()
	if _, ok := waitDone(done, *windowTimeout+*windowTimeout/2); !ok {
		w.Fresh = []freshPair{{Prod: 0, Live: respD{K: "fail"}, Fresh: respD{K: "art"}}}
	}
	w.FreshBad = 0
	for _, f := range w.Fresh {
		if !respEq(f.Live, f.Fresh) {
			w.FreshBad++
		}
	}
	w.Overlaps += g.over.Swap(0) // the live read evaluates nodes too
}

func oneWindow(g *liveGraph, w *windowD, which int, clock *atomic.Uint64) {
	g.over.Store(0)
	var recs []rec
	var to bool
	if w.Scenario == "overlap" {
		recs, to = runOverlap(g, w.Progs, clock)
	} else {
		recs, to = runWindow(g, w.Progs, clock)
	}
	w.Timeout = to
	w.Final, w.VerAfter = w.Init, w.Ver // kept when the instance is wedged: it is not touched again
	if !to {
		if f, v, ok := g.readState(); ok {
			w.Final, w.VerAfter = f, v
		} else {
			w.Timeout = true
			recs = append(recs, stuckRead(clock))
		}
	}
	finishWindow(w, recs)
	if !w.Timeout {
		afterWindow(g, w)
		for _, v := range w.Final { // only when every parameter could be read
			if v == 999999 {
				return
			}
		}
		freshOracle(g, w, which, clock)
	} else {
		w.Overlaps = g.over.Swap(0)
	}
}

func toCase(w *windowD, kindPrefix string) hx.Case {
	var cs, vs []string
	for k := range w.Calls {
		cs = append(cs, coqCall(&w.Calls[k]))
	}
	for _, v := range w.VReads {
		vs = append(vs, fmt.Sprintf("V %d %d %d", v.Inv, v.Res, v.Resp.V))
	}
	calls := "[" + strings.Join(cs, "; ") + "]"
	var ls []string
	for _, l := range w.Late {
		ls = append(ls, fmt.Sprintf("L %s %s", coqResp(l.Orig), coqResp(l.Late)))
	}
	late := "[" + strings.Join(ls, "; ") + "]"
	var fs []string
	for _, f := range w.Fresh {
		fs = append(fs, fmt.Sprintf("L %s %s", coqResp(f.Live), coqResp(f.Fresh)))
	}
	fresh := "[" + strings.Join(fs, "; ") + "]"
	var coq, kind string
	if w.Threads == 1 && len(w.VReads) == 0 && w.Overlaps == 0 && w.Scenario == "" {
		// program order = stamp order for a single client
		kind = "seq"
		coq = fmt.Sprintf("CSeq %s %d %s %s %d %s %s", coqNs(w.Init), w.Ver, calls, coqNs(w.Final), w.VerAfter, late, fresh)
	} else {
		kind = "hist"
		coq = fmt.Sprintf("CHist %d %s %d %s %s %d [%s] %s %d %s", w.Threads, coqNs(w.Init), w.Ver, calls, coqNs(w.Final), w.VerAfter,
			strings.Join(vs, "; "), late, w.Overlaps, fresh)
	}
	nontriv := false
	if w.Threads >= 2 {
		for i := range w.Calls {
			for j := range w.Calls {
				a, b := &w.Calls[i], &w.Calls[j]
				if a.T != b.T && isUpdate(a.Op) && (b.Op.K == "a" || b.Op.K == "g") && overlap(a, b) {
					nontriv = true
				}
			}
		}
	}
	key := w.Shape.Name + "|" + fmt.Sprint(w.Init) + "|" + calls + "|" + strings.Join(vs, ";") + "|" + late + "|" + fresh
	if w.Cold {
		kind = "cold-" + kind
	}
	if w.HTTP {
		kind = "http-" + kind
	}
	if w.Scenario != "" {
		kind = w.Scenario + "-" + kind
	}
	c := hx.Case{Kind: kindPrefix + kind, Desc: w, Coq: coq, Nontriv: nontriv, Key: key}
	if w.Race != "" { // only in -race builds: the detector's report belongs to exactly this window
		c.GoFail = "go race detector: " + w.Race
	}
	return c
}

func stats(run *hx.Run, w *windowD) {
	run.Count(fmt.Sprintf("threads:%d", w.Threads))
	run.Count("shape:" + strings.SplitN(w.Shape.Name, "-", 2)[0])
	for k := range w.Calls {
		c := &w.Calls[k]
		run.Count("op:" + c.Op.K)
		if c.Resp.K == "fail" {
			run.Count("resp:fail")
		}
		if c.Op.K == "a" {
			run.Count(fmt.Sprintf("artifact-lists:%d", len(c.F)))
			seen := map[int]bool{}
			for _, p := range c.F {
				if seen[p] {
					run.Count("artifact-lists-a-parameter-twice")
					break
				}
				seen[p] = true
			}
		}
	}
	run.Count(fmt.Sprintf("calls-per-window:%02d", len(w.Calls)))
	if len(w.VReads) > 0 {
		run.Count("window:with-version-reads")
	}
	if w.Schema > 0 {
		run.Count("window:with-schema-call")
	}
	if w.SchemaP > 0 {
		run.Count("schema:panic")
	}
	if w.Timeout {
		run.Count("window:timeout")
	}
	if w.Cold {
		run.Count("window:cold-start-in-child-process")
	}
	if w.HTTP {
		run.Count("window:through-http-handlers")
	}
	if w.Scenario != "" {
		run.Count("window:scenario-" + w.Scenario)
		// did the scenario get its shape: a follower artifact request invoked after an update responded, while
		// the gated request was still open?
		for i := range w.Calls {
			a := &w.Calls[i]
			if a.T != 0 || a.Op.K != "a" {
				continue
			}
			for j := range w.Calls {
				u := &w.Calls[j]
				if !isUpdate(u.Op) || !(a.Inv < u.Inv && u.Res < a.Res) {
					continue
				}
				for k := range w.Calls {
					c := &w.Calls[k]
					if c.T >= 2 && c.Op.K == "a" && c.Op.Prod == a.Op.Prod && u.Res < c.Inv && c.Inv < a.Res {
						run.Count("scenario-overlap:follower-invoked-after-ack-during-slow-download")
						goto shaped
					}
				}
			}
		}
	shaped:
	}
	for k := range w.Calls {
		if w.Calls[k].Note == "zip" {
			run.Count("op:artifact-through-zip-endpoint")
		}
	}
	if w.Crash != "" {
		run.Count("window:child-crashed")
	}
	if w.Race != "" {
		run.Count("window:race-report-in-child")
	}
	if w.GoNonLin {
		run.Count("window:nonlinearizable-by-go-mirror")
	}
	for _, l := range w.Late {
		run.Count("reread:" + l.When)
		if !respEq(l.Orig, l.Late) {
			run.Count("reread-mismatch:" + l.When)
		}
	}
	if w.Overlaps > 0 {
		run.Count("window:concurrent-node-evaluation")
	}
	for _, f := range w.Fresh {
		run.Count("fresh-instance-compare:" + w.Shape.Prods[f.Prod].Kind + "-producer")
		if !respEq(f.Live, f.Fresh) {
			run.Count("fresh-instance-mismatch")
		}
	}
	for _, n := range w.Shape.Nodes {
		if n.Kind == "fshow" {
			run.Count("window:with-failing-nodes")
			break
		}
	}
	for _, n := range w.Shape.Nodes {
		if n.Kind == "pshow" {
			run.Count("window:with-panicking-nodes")
			break
		}
	}
	for k := range w.Calls {
		if w.Calls[k].Resp.K == "panic" {
			run.Count("resp:artifact-panicked")
		}
	}
	if len(w.CLI) > 0 {
		run.Count("window:cold-with-cli-backed-parameters")
	}
	for _, pr := range w.Shape.Prods {
		if pr.Kind == "gltf" {
			run.Count("window:with-gltf-scene")
			break
		}
	}
	for _, t := range w.Shape.PTypes {
		if t == "file" || t == "ints" {
			run.Count("window:with-slice-parameters")
			break
		}
	}
	for _, t := range w.Shape.PTypes {
		if t == "image" {
			run.Count("window:with-image-parameters")
			break
		}
	}
}

// ---------------------------------------------------------------- cold windows (child process)
// A cold window runs on a FRESH instance on which nothing was ever looked up (the situation right after start-up or
// a reload): all clients are released together and address node ids for the first time.  It runs in a child
// process (this binary with -cold-child, description on stdin, result on stdout) because what goes wrong there
// can be an unrecoverable runtime error ("fatal error: concurrent map writes") that no recover() catches.
func coldChild() {
	var w windowD
	if err := json.NewDecoder(os.Stdin).Decode(&w); err != nil || w.Shape == nil {
		fmt.Fprintln(os.Stderr, "cold-child: cannot decode the window description:", err)
		os.Exit(3)
	}
	clock := &atomic.Uint64{}
	// the same cold start is attempted on several fresh instances (the first lookups overlap only now and then);
	// the first rejected attempt, else the last one, is the result -- a fatal runtime error ends the process
	rounds := w.Rounds
	if rounds < 1 {
		rounds = 1
	}
	var res windowD
	for k := 0; k < rounds; k++ {
		res = w
		res.Ver = 0 // a fresh instance; nothing is read before the clients start
		g := buildCLI(w.Shape, w.Init, &jit{level: w.Jitter}, w.CLI, w.TmpDir)
		oneWindow(g, &res, -1, clock)
		if res.flagged() {
			break
		}
	}
	json.NewEncoder(os.Stdout).Encode(&res)
}

func runCold(w *windowD) {
	w.Cold = true
	if w.Rounds == 0 {
		w.Rounds = 8
	}
	if len(w.CLI) > 0 {
		dir, err := os.MkdirTemp("", "c13-cold-")
		if err != nil {
			w.CLI = nil
		} else {
			w.TmpDir = dir
			defer os.RemoveAll(dir)
		}
	}
	in, _ := json.Marshal(w)
	// The child reports a stuck implementation itself (its own window deadline, one round).  The deadline here only
	// guards against a child that does not come back at all; when it expires the attempt is repeated once with a
	// longer deadline, and a second expiry is recorded as INCONCLUSIVE (the window is dropped, nothing is reported):
	// on an overloaded machine starting a process and running eight rounds can take arbitrarily long.
	var out, errb bytes.Buffer
	var err error
	for try, limit := 0, 3**windowTimeout+30*time.Second; try < 2; try, limit = try+1, 3*limit {
		ctx, cancel := context.WithTimeout(context.Background(), limit)
		cmd := exec.CommandContext(ctx, os.Args[0], "-cold-child", "-window-timeout", windowTimeout.String())
		cmd.Stdin = bytes.NewReader(in)
		out.Reset()
		errb.Reset()
		cmd.Stdout, cmd.Stderr = &out, &errb
		err = cmd.Run()
		expired := ctx.Err() == context.DeadlineExceeded
		cancel()
		if !expired {
			break
		}
		if try == 1 {
			w.Inconclusive = "the cold-start child process did not finish within its deadline (overloaded machine?)"
			return
		}
	}
	stderr := errb.String()
	var res windowD
	if json.Unmarshal(out.Bytes(), &res) == nil && res.Shape != nil {
		*w = res
		w.Cold = true
	} else {
		// the child died: every programmed call is reported as failed
		w.Crash = "child process exited abnormally"
		if err != nil {
			w.Crash += " (" + err.Error() + ")"
		}
		for _, l := range strings.Split(stderr, "\n") {
			if strings.HasPrefix(l, "fatal error:") || strings.HasPrefix(l, "panic:") {
				w.Crash = l
				break
			}
		}
		var recs []rec
		st := uint64(0)
		for t, prog := range w.Progs {
			for _, op := range prog {
				if op.K == "u" || op.K == "b" || op.K == "g" || op.K == "a" {
					rc := rec{T: t, Op: op, Resp: respD{K: "fail"}, Note: w.Crash, Inv: st, Res: st + 1}
					if op.K == "a" {
						rc.F, rc.Bad = w.Shape.prodLists(op.Prod), w.Shape.prodBad(op.Prod)
					}
					st += 2
					recs = append(recs, rc)
				}
			}
		}
		w.Final, w.VerAfter = w.Init, 0
		finishWindow(w, recs)
	}
	if k := strings.Index(stderr, "WARNING: DATA RACE"); k >= 0 {
		rep := stderr[k:]
		if e := strings.Index(rep, "=================="); e > 0 {
			rep = rep[:e]
		}
		if len(rep) > 3000 {
			rep = rep[:3000]
		}
		w.Race = rep
		os.Stderr.WriteString(stderr) // the driver counts the reports
	}
}

// coldPrograms: every client starts with a parameter call on an id nobody has looked up yet
func coldPrograms(r *hx.Rng, g *liveGraph, T int, init []int, cli []int) [][]opD {
	progs := genPrograms(r, g, T, init, false)
	defer func() {
		// a CLI-backed parameter is loaded lazily by its FIRST read: let that first read be contended between
		// ParameterData (client 0) and an artifact depending on it (client 1)
		if len(cli) == 0 || T < 2 {
			return
		}
		p := cli[r.Intn(len(cli))]
		for k, f := range g.prodF {
			for _, q := range f {
				if q == p {
					progs[0] = append([]opD{{K: "g", P: p}}, progs[0]...)
					progs[1] = append([]opD{{K: "a", Prod: k}}, progs[1]...)
					return
				}
			}
		}
	}()
	P := len(g.par)
	off := r.Intn(P)
	for t := range progs {
		p := (t + off) % P
		first := opD{K: "g", P: p}
		if len(progs[t]) > 0 && (progs[t][0].K == "g" || progs[t][0].K == "a") {
			progs[t][0] = first
		} else if len(progs[t]) > 0 && isUpdate(progs[t][0]) {
			// keep the update (it addresses an id as well)
		} else {
			progs[t] = append([]opD{first}, progs[t]...)
		}
	}
	return progs
}

// ---------------------------------------------------------------- main
func randomInit(r *hx.Rng, s *shapeD) []int {
	init := make([]int, len(s.PTypes))
	for p, t := range s.PTypes {
		if t == "bool" {
			init[p] = r.Intn(2)
		} else {
			init[p] = r.Intn(10)
		}
	}
	return init
}

func main() {
	for _, a := range os.Args[1:] {
		if a == "-cold-child" {
			fs := flag.NewFlagSet("cold", flag.ExitOnError)
			fs.Bool("cold-child", true, "")
			fs.DurationVar(windowTimeout, "window-timeout", *windowTimeout, "")
			fs.Parse(os.Args[1:])
			coldChild()
			return
		}
	}
	run := hx.ParseFlags("C13", "Check.C13")
	clock := &atomic.Uint64{}
	// the edit server prints ("Serving over ...", stack traces of recovered panics) and logs: not our output
	if null, err := os.OpenFile(os.DevNull, os.O_WRONLY, 0); err == nil {
		os.Stdout = null
	}
	log.SetOutput(io.Discard)

	// ---- replay: re-judge the recorded history, then try to reproduce it by re-running the same programs
	for _, in := range run.Inputs() {
		if strings.Contains(in.Kind, "sweep") {
			// a sequential script is deterministic: run it again
			var sw sweepD
			if err := json.Unmarshal(in.Raw, &sw); err != nil || sw.Shape == nil {
				fmt.Fprintln(os.Stderr, "replay: cannot decode", in.From, err)
				continue
			}
			re := &sweepD{Shape: sw.Shape, Plan: sw.Plan, Init: sw.Init, Steps: sw.Steps, HTTP: sw.HTTP}
			runSweep(re, clock)
			sweepStats(run, re)
			run.Add(sweepCase(re, "rerun-"))
			run.Count("replay:sweep-rerun")
			continue
		}
		var w windowD
		if err := json.Unmarshal(in.Raw, &w); err != nil || w.Shape == nil {
			fmt.Fprintln(os.Stderr, "replay: cannot decode", in.From, err)
			continue
		}
		// a schedule cannot be replayed deterministically: re-run the recorded programs from the recorded
		// initial values; the recorded history itself is re-emitted (and re-judged by Coq) only when some
		// re-run is rejected by the mirror too, so that replaying against a repaired tree passes
		var reruns []*windowD
		reproduced := 0
		nAttempts := *attempts
		if w.HTTP && nAttempts > 40 { // every attempt leaves an edit server behind
			nAttempts = 40
		}
		for a := 0; a < nAttempts && reproduced < 3; a++ {
			run.Count("replay:attempt")
			if w.Cold {
				nw := &windowD{Shape: w.Shape, Threads: w.Threads, Jitter: w.Jitter, Progs: w.Progs, Init: w.Init, Rounds: w.Rounds, CLI: w.CLI}
				runCold(nw)
				if nw.Inconclusive != "" {
					run.Count("cold:inconclusive-child-deadline")
					continue
				}
				if nw.flagged() {
					reproduced++
					reruns = append(reruns, nw)
				} else if a%15 == 0 {
					reruns = append(reruns, nw)
				}
				continue
			}
			var g *liveGraph
			if w.HTTP {
				g = buildHTTP(w.Shape, w.Init, &jit{level: w.Jitter})
			}
			if g == nil {
				g = build(w.Shape, w.Init, &jit{level: w.Jitter})
			}
			progs := make([][]opD, len(w.Progs))
			for t := range progs {
				progs[t] = append([]opD{}, w.Progs[t]...)
			}
			nw := &windowD{Shape: w.Shape, Threads: w.Threads, Jitter: w.Jitter, Progs: progs, HTTP: g.srv != nil, Scenario: w.Scenario}
			okp := g.primeGuarded(w.Init, clock)
			var ok0 bool
			if okp {
				nw.Init, nw.Ver, ok0 = g.readState()
			}
			if !ok0 {
				nw.Init, nw.Final, nw.Timeout = w.Init, w.Init, true
				finishWindow(nw, []rec{stuckRead(clock)})
			} else {
				oneWindow(g, nw, -1, clock)
			}
			if nw.flagged() {
				reproduced++
				reruns = append(reruns, nw)
			} else if a%15 == 0 { // a sample of the accepted re-runs is judged by Coq as well
				reruns = append(reruns, nw)
			}
			if nw.Timeout {
				break
			}
		}
		if reproduced > 0 {
			rec0 := w
			run.Add(toCase(&rec0, "recorded-"))
			run.Count("replay:reproduced")
		} else {
			run.Count("replay:not-reproduced")
		}
		for _, nw := range reruns {
			stats(run, nw)
			run.Add(toCase(nw, "rerun-"))
		}
	}
	if run.Replay != "" {
		run.Finish()
		return
	}

	r := hx.NewRng(run.Seed)
	fixed := fixedShapes()
	var windows []*windowD
	epoch, wedged := 0, 0
	// cold-start windows: each on its own fresh instance in a child process, all clients released together on ids
	// nobody has looked up yet
	ncold := *coldFlag
	if ncold < 0 {
		if ncold = run.N / 16; ncold > 400 {
			ncold = 400
		}
	}
	for k := 0; k < ncold && len(windows) < run.N; k++ {
		var shape *shapeD
		switch {
		case k%3 == 0: // the fixed shapes with File / Image parameters
			for _, f := range fixed {
				if (f.Name == "slices" && k%2 == 0) || (f.Name == "images" && k%2 == 1) {
					shape = f
				}
			}
		case r.Chance(1, 3):
			shape = hx.Pick(r, fixed)
		default:
			shape = randomShape(r, 1000+k)
		}
		T := r.Range(2, 8)
		init0 := randomInit(r, shape)
		g := build(shape, init0, &jit{})
		cw := &windowD{Shape: shape, Threads: T, Jitter: *jitterFlag, Init: init0}
		if r.Chance(3, 4) {
			for p, t := range shape.PTypes {
				if t == "file" || t == "image" || ((t == "int" || t == "float" || t == "string" || t == "bool") && r.Bool()) {
					cw.CLI = append(cw.CLI, p) // value from a command line flag (File / Image: loaded lazily by the first read)
				}
			}
		}
		cw.Progs = coldPrograms(r, g, T, init0, cw.CLI)
		runCold(cw)
		if cw.Inconclusive != "" {
			run.Count("cold:inconclusive-child-deadline")
			ncold-- // do not spin on an overloaded machine
			continue
		}
		windows = append(windows, cw)
	}
	httpBudget := *httpFlag
	if httpBudget < 0 {
		httpBudget = 60
	}
	for len(windows) < run.N {
		var shape *shapeD
		if epoch < len(fixed) {
			shape = fixed[epoch]
		} else if r.Chance(1, 4) {
			shape = hx.Pick(r, fixed)
		} else {
			shape = randomShape(r, epoch)
		}
		T := r.Range(2, 8)
		if r.Chance(1, 12) {
			T = 1
		}
		if epoch < 3 {
			T = []int{4, 2, 8}[epoch]
		}
		epoch++
		jl := *jitterFlag
		if jl > 0 && r.Chance(1, 5) {
			jl = r.Intn(jl + 1)
		}
		init0 := randomInit(r, shape)
		var g *liveGraph
		if httpBudget > 0 && epoch%3 == 2 { // (epoch was incremented above: the second, fifth, ... epoch)
			if g = buildHTTP(shape, init0, &jit{level: jl}); g == nil {
				run.Count("http:edit-server-did-not-start")
			} else {
				httpBudget--
				run.Count("epoch:through-http-handlers")
			}
		}
		if g == nil {
			g = build(shape, init0, &jit{level: jl})
		}
		cur, ver, ok0 := g.readState()
		if ok0 {
			if ok0 = g.primeGuarded(cur, clock); ok0 {
				cur, ver, ok0 = g.readState()
			}
		}
		if !ok0 {
			// the very first sequential reads hang: report it as a one-call window and try another epoch
			w := &windowD{Shape: shape, Threads: 1, Jitter: jl, Init: init0, Final: init0, Timeout: true}
			finishWindow(w, []rec{stuckRead(clock)})
			windows = append(windows, w)
			if wedged++; wedged >= 4 {
				break
			}
			continue
		}
		nwin := r.Range(20, 50)
		for k := 0; k < nwin && len(windows) < run.N; k++ {
			w := &windowD{Shape: shape, Threads: T, Jitter: jl, Init: cur, Ver: ver, HTTP: g.srv != nil}
			if progs := overlapPrograms(r, g, cur); g.srv != nil && k%4 == 1 && progs != nil {
				w.Scenario, w.Progs, w.Threads = "overlap", progs, len(progs)
			} else {
				w.Progs = genPrograms(r, g, T, cur, *unlockedReads)
			}
			oneWindow(g, w, -1, clock)
			windows = append(windows, w)
			cur, ver = w.Final, w.VerAfter
			if w.flagged() && !w.Timeout {
				break // the instance may be left in a corrupt state: later windows would only repeat the symptom
			}
			if w.Timeout {
				if wedged++; wedged >= 4 {
					run.N = len(windows) // a wedged implementation: a few reports are enough
				}
				break // abandon the epoch (stuck goroutines are leaked)
			}
		}
	}

	// sequential sweep scripts (deterministic; each on its own fresh instance)
	var sweeps []*sweepD
	if *sweepFlag {
		sweeps = sweepPlans(r, fixed, run.Tier == "thorough")
		bad := 0
		for _, sw := range sweeps {
			if bad >= 6 { // a broken implementation: a few reports are enough
				break
			}
			if !runSweep(sw, clock) {
				bad++
			}
			sweepStats(run, sw)
			run.Add(sweepCase(sw, ""))
		}
	}

	// emit: all windows the Go mirror accepts, and at most 6 of those it rejects (fewest updates first) --
	// a non-linearizable window with many concurrent updates is slow for the Coq search
	var flagged []*windowD
	for _, w := range windows {
		if w.flagged() {
			flagged = append(flagged, w)
		}
	}
	nUpd := func(w *windowD) int {
		n := 0
		for _, c := range w.Calls {
			if isUpdate(c.Op) {
				n++
			}
		}
		return n
	}
	sort.SliceStable(flagged, func(i, j int) bool { return nUpd(flagged[i]) < nUpd(flagged[j]) })
	keep := map[*windowD]bool{}
	for k, w := range flagged {
		if k < 6 {
			keep[w] = true
		}
	}
	calls, total := 0, 0
	for _, w := range windows {
		total++
		if w.flagged() && !keep[w] {
			run.Count("window:rejected-by-go-mirror-not-emitted")
			continue
		}
		stats(run, w)
		calls += len(w.Calls)
		run.Add(toCase(w, ""))
	}
	run.Extra["windows"] = total
	run.Extra["calls"] = calls
	run.Extra["epochs"] = epoch
	run.Extra["go_mirror_rejected"] = len(flagged)
	run.Extra["jitter_us"] = *jitterFlag
	run.Extra["unlocked_reads"] = *unlockedReads
	run.Extra["gomaxprocs"] = runtime.GOMAXPROCS(0)
	run.Finish()
}
