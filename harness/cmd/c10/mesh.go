package main

// Execution of the modeling.Mesh entry points: scans, modifications and primitive scans, parallel and
// sequential, with a recording callback.

import (
	"fmt"
	"runtime"
	"sort"
	"sync"
	"sync/atomic"

	"github.com/EliCDavis/polyform/modeling"
	"github.com/EliCDavis/vector/vector2"
	"github.com/EliCDavis/vector/vector3"
)

const attrName = "c10data"

// ---- the deterministic test data (same formulas as Check/C10.v) ----
func dat(salt, i int) uint64 { return uint64((salt + 7*i) % 1000) }
func code(a int, h [3]uint64) uint64 {
	c := h[0]
	if a >= 2 {
		c += 65536 * h[1]
	}
	if a >= 3 {
		c += 4294967296 * h[2]
	}
	return c
}
func datCode(a, salt, i int) uint64 {
	x := dat(salt, i)
	return code(a, [3]uint64{x, x + 1, x + 2})
}
func gfun(i int, v float64) float64 { return 3*v + 5*float64(i) + 1 }
func outCode(a, salt, i int) uint64 {
	x := dat(salt, i)
	g := func(k uint64) uint64 { return 3*(x+k) + 5*uint64(i) + 1 }
	return code(a, [3]uint64{g(0), g(1), g(2)})
}
func idxAt(salt, nverts, j int) int { return (salt + 5*j) % nverts }
func primCount(topo, nidx int) int {
	switch topo {
	case 0:
		return nidx / 3
	case 1:
		return nidx
	}
	return nidx - 1
}
func primCode(topo, salt, nverts, i int) uint64 {
	switch topo {
	case 0:
		return uint64(idxAt(salt, nverts, 3*i)) + 65536*uint64(idxAt(salt, nverts, 3*i+1)) + 4294967296*uint64(idxAt(salt, nverts, 3*i+2))
	case 1:
		return uint64((salt + 11*i) % 997)
	}
	return uint64(idxAt(salt, nverts, i)) + 65536*uint64(idxAt(salt, nverts, i+1))
}

// ---- recording callback ----
type recorder struct {
	n       int
	cnt     []int64  // calls per index (atomic)
	val     []uint64 // sum of the value codes per index (atomic)
	mu      sync.Mutex
	oob     []int64 // calls outside [0,n)
	gosched int
}

func newRecorder(n, gosched int) *recorder {
	return &recorder{n: n, cnt: make([]int64, n), val: make([]uint64, n), gosched: gosched}
}
func (r *recorder) call(i int, c uint64) {
	if i < 0 || i >= r.n {
		r.mu.Lock()
		r.oob = append(r.oob, int64(i))
		r.mu.Unlock()
		return
	}
	atomic.AddInt64(&r.cnt[i], 1)
	atomic.AddUint64(&r.val[i], c)
	if r.gosched > 0 && i%r.gosched == 0 {
		runtime.Gosched()
	}
}

type obs struct {
	cnt []int64
	val []uint64
	oob []int64
}

func (r *recorder) obs() obs {
	o := obs{cnt: r.cnt, val: r.val, oob: append([]int64{}, r.oob...)}
	sort.Slice(o.oob, func(a, b int) bool { return o.oob[a] < o.oob[b] })
	return o
}
func (o obs) equal(p obs) bool {
	if len(o.cnt) != len(p.cnt) || len(o.oob) != len(p.oob) {
		return false
	}
	for i := range o.cnt {
		if o.cnt[i] != p.cnt[i] || o.val[i] != p.val[i] {
			return false
		}
	}
	for i := range o.oob {
		if o.oob[i] != p.oob[i] {
			return false
		}
	}
	return true
}

// outcome of one entry-point execution
type outcome struct {
	o        obs
	out      []uint64 // modify: value codes of the returned attribute
	kept     bool     // modify: the input mesh still holds its original data
	panicked string   // recovered panic ("" = returned normally)
}

func guard(out *outcome, f func()) {
	defer func() {
		if r := recover(); r != nil {
			out.panicked = fmt.Sprint(r)
		}
	}()
	f()
}

// ---- attribute entry points ----
type attrData struct {
	a  int
	f1 []float64
	f2 []vector2.Float64
	f3 []vector3.Float64
	m  modeling.Mesh
}

func buildAttr(a, salt, n int) *attrData {
	d := &attrData{a: a}
	m := modeling.NewMesh(modeling.PointTopology, nil)
	switch a {
	case 1:
		d.f1 = make([]float64, n)
		for i := range d.f1 {
			d.f1[i] = float64(dat(salt, i))
		}
		m = m.SetFloat1Data(map[string][]float64{attrName: d.f1}) // keeps an empty attribute (SetFloat1Attribute would drop it)
	case 2:
		d.f2 = make([]vector2.Float64, n)
		for i := range d.f2 {
			x := float64(dat(salt, i))
			d.f2[i] = vector2.New(x, x+1)
		}
		m = m.SetFloat2Data(map[string][]vector2.Float64{attrName: d.f2})
	default:
		d.f3 = make([]vector3.Float64, n)
		for i := range d.f3 {
			x := float64(dat(salt, i))
			d.f3[i] = vector3.New(x, x+1, x+2)
		}
		m = m.SetFloat3Data(map[string][]vector3.Float64{attrName: d.f3})
	}
	d.m = m
	return d
}

// the input arrays still hold the generated data
func (d *attrData) pristine(salt int) bool {
	for i, v := range d.f1 {
		if v != float64(dat(salt, i)) {
			return false
		}
	}
	for i, v := range d.f2 {
		x := float64(dat(salt, i))
		if v.X() != x || v.Y() != x+1 {
			return false
		}
	}
	for i, v := range d.f3 {
		x := float64(dat(salt, i))
		if v.X() != x || v.Y() != x+1 || v.Z() != x+2 {
			return false
		}
	}
	return true
}

func c1(v float64) uint64         { return code(1, [3]uint64{uint64(v), 0, 0}) }
func c2(v vector2.Float64) uint64 { return code(2, [3]uint64{uint64(v.X()), uint64(v.Y()), 0}) }
func c3(v vector3.Float64) uint64 {
	return code(3, [3]uint64{uint64(v.X()), uint64(v.Y()), uint64(v.Z())})
}

// mode: 0 sequential entry point, 1 ...ParallelWithPoolSize(s), 2 ...Parallel() (pool size = runtime.NumCPU())
func runScan(a, salt, n, s, mode, gosched int) outcome {
	d := buildAttr(a, salt, n)
	rec := newRecorder(n, gosched)
	var out outcome
	guard(&out, func() {
		switch a {
		case 1:
			f := func(i int, v float64) { rec.call(i, c1(v)) }
			switch mode {
			case 0:
				d.m.ScanFloat1Attribute(attrName, f)
			case 1:
				d.m.ScanFloat1AttributeParallelWithPoolSize(attrName, s, f)
			default:
				d.m.ScanFloat1AttributeParallel(attrName, f)
			}
		case 2:
			f := func(i int, v vector2.Float64) { rec.call(i, c2(v)) }
			switch mode {
			case 0:
				d.m.ScanFloat2Attribute(attrName, f)
			case 1:
				d.m.ScanFloat2AttributeParallelWithPoolSize(attrName, s, f)
			default:
				d.m.ScanFloat2AttributeParallel(attrName, f)
			}
		default:
			f := func(i int, v vector3.Float64) { rec.call(i, c3(v)) }
			switch mode {
			case 0:
				d.m.ScanFloat3Attribute(attrName, f)
			case 1:
				d.m.ScanFloat3AttributeParallelWithPoolSize(attrName, s, f)
			default:
				d.m.ScanFloat3AttributeParallel(attrName, f)
			}
		}
	})
	out.o = rec.obs()
	out.kept = d.pristine(salt)
	return out
}

func runModify(a, salt, n, s, mode, gosched int) outcome {
	d := buildAttr(a, salt, n)
	rec := newRecorder(n, gosched)
	var out outcome
	var res modeling.Mesh
	guard(&out, func() {
		switch a {
		case 1:
			f := func(i int, v float64) float64 { rec.call(i, c1(v)); return gfun(i, v) }
			switch mode {
			case 0:
				res = d.m.ModifyFloat1Attribute(attrName, f)
			case 1:
				res = d.m.ModifyFloat1AttributeParallelWithPoolSize(attrName, s, f)
			default:
				res = d.m.ModifyFloat1AttributeParallel(attrName, f)
			}
		case 2:
			f := func(i int, v vector2.Float64) vector2.Float64 {
				rec.call(i, c2(v))
				return vector2.New(gfun(i, v.X()), gfun(i, v.Y()))
			}
			switch mode {
			case 0:
				res = d.m.ModifyFloat2Attribute(attrName, f)
			case 1:
				res = d.m.ModifyFloat2AttributeParallelWithPoolSize(attrName, s, f)
			default:
				res = d.m.ModifyFloat2AttributeParallel(attrName, f)
			}
		default:
			f := func(i int, v vector3.Float64) vector3.Float64 {
				rec.call(i, c3(v))
				return vector3.New(gfun(i, v.X()), gfun(i, v.Y()), gfun(i, v.Z()))
			}
			switch mode {
			case 0:
				res = d.m.ModifyFloat3Attribute(attrName, f)
			case 1:
				res = d.m.ModifyFloat3AttributeParallelWithPoolSize(attrName, s, f)
			default:
				res = d.m.ModifyFloat3AttributeParallel(attrName, f)
			}
		}
	})
	out.o = rec.obs()
	out.kept = d.pristine(salt)
	out.out = []uint64{}
	if out.panicked == "" {
		switch a {
		case 1:
			if res.HasFloat1Attribute(attrName) {
				it := res.Float1Attribute(attrName)
				for i := 0; i < it.Len(); i++ {
					out.out = append(out.out, c1(it.At(i)))
				}
			}
		case 2:
			if res.HasFloat2Attribute(attrName) {
				it := res.Float2Attribute(attrName)
				for i := 0; i < it.Len(); i++ {
					out.out = append(out.out, c2(it.At(i)))
				}
			}
		default:
			if res.HasFloat3Attribute(attrName) {
				it := res.Float3Attribute(attrName)
				for i := 0; i < it.Len(); i++ {
					out.out = append(out.out, c3(it.At(i)))
				}
			}
		}
	}
	return out
}

// ---- primitives ----
func topoOf(t int) modeling.Topology {
	switch t {
	case 0:
		return modeling.TriangleTopology
	case 1:
		return modeling.PointTopology
	}
	return modeling.LineStripTopology
}

func runPrims(topo, salt, nidx, nverts, s, mode, gosched int) outcome {
	idx := make([]int, nidx)
	for j := range idx {
		if topo == 1 {
			idx[j] = j
		} else {
			idx[j] = idxAt(salt, nverts, j)
		}
	}
	np := nverts
	if topo == 1 && nidx > np {
		np = nidx
	}
	pos := make([]vector3.Float64, np)
	for v := range pos {
		pos[v] = vector3.New(float64((salt+11*v)%997), 0, 0)
	}
	m := modeling.NewMesh(topoOf(topo), idx).SetFloat3Data(map[string][]vector3.Float64{modeling.PositionAttribute: pos})
	n := primCount(topo, nidx)
	if n < 0 {
		n = 0
	}
	rec := newRecorder(n, gosched)
	f := func(i int, p modeling.Primitive) {
		if i < 0 || i >= n {
			rec.call(i, 0)
			return
		}
		c := uint64(1) << 61
		func() {
			defer func() { recover() }() // a primitive that points outside the buffers is a wrong value, not a crash
			switch t := p.(type) {
			case modeling.Tri:
				c = uint64(t.P1()) + 65536*uint64(t.P2()) + 4294967296*uint64(t.P3())
			case *modeling.Tri:
				c = uint64(t.P1()) + 65536*uint64(t.P2()) + 4294967296*uint64(t.P3())
			case *modeling.Point:
				c = uint64(t.ClosestPoint(modeling.PositionAttribute, vector3.Zero[float64]()).X())
			case *modeling.Line:
				c = uint64(t.P1()) + 65536*uint64(t.P2())
			}
		}()
		rec.call(i, c)
	}
	var out outcome
	guard(&out, func() {
		switch mode {
		case 0:
			m.ScanPrimitives(f)
		case 1:
			m.ScanPrimitivesParallelWithPoolSize(s, f)
		default:
			m.ScanPrimitivesParallel(f)
		}
	})
	out.o = rec.obs()
	out.kept = true
	return out
}
