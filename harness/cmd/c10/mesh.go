package main

// Execution of the modeling.Mesh entry points: scans, modifications and primitive scans, parallel and
// sequential, with a recording callback.

import (
	"fmt"
	"math"
	"runtime"
	"sort"
	"sync"
	"sync/atomic"

	"github.com/EliCDavis/polyform/modeling"
	"github.com/EliCDavis/vector/vector2"
	"github.com/EliCDavis/vector/vector3"
)

const attrName = "c10data"

// ---- the deterministic test data (same formulas as Check/C10.v) ----
func dat(salt, i int) uint64 { return uint64((salt + 7*i) % 1000) }
func code(a int, h [3]uint64) uint64 {
	c := h[0]
	if a >= 2 {
		c += 65536 * h[1]
	}
	if a >= 3 {
		c += 4294967296 * h[2]
	}
	return c
}
func datCode(a, salt, i int) uint64 {
	x := dat(salt, i)
	return code(a, [3]uint64{x, x + 1, x + 2})
}
func gfun(i int, v float64) float64 { return 3*v + 5*float64(i) + 1 }
func outCode(a, salt, i int) uint64 {
	x := dat(salt, i)
	g := func(k uint64) uint64 { return 3*(x+k) + 5*uint64(i) + 1 }
	return code(a, [3]uint64{g(0), g(1), g(2)})
}
func idxAt(salt, nverts, j int) int { return (salt + 5*j) % nverts }
func primCount(topo, nidx int) int {
	switch topo {
	case 0:
		return nidx / 3
	case 1:
		return nidx
	}
	return nidx - 1
}
func primCode(topo, salt, nverts, i int) uint64 {
	switch topo {
	case 0:
		return uint64(idxAt(salt, nverts, 3*i)) + 65536*uint64(idxAt(salt, nverts, 3*i+1)) + 4294967296*uint64(idxAt(salt, nverts, 3*i+2))
	case 1:
		return uint64((salt + 11*i) % 997)
	}
	return uint64(idxAt(salt, nverts, i)) + 65536*uint64(idxAt(salt, nverts, i+1))
}

// ---- recording callback ----
type recorder struct {
	n       int
	cnt     []int64  // calls per index (atomic)
	val     []uint64 // sum of the value codes per index (atomic)
	mu      sync.Mutex
	oob     []int64 // calls outside [0,n)
	gosched int
}

func newRecorder(n, gosched int) *recorder {
	return &recorder{n: n, cnt: make([]int64, n), val: make([]uint64, n), gosched: gosched}
}
func (r *recorder) call(i int, c uint64) {
	if i < 0 || i >= r.n {
		r.mu.Lock()
		r.oob = append(r.oob, int64(i))
		r.mu.Unlock()
		return
	}
	atomic.AddInt64(&r.cnt[i], 1)
	atomic.AddUint64(&r.val[i], c)
	if r.gosched > 0 && i%r.gosched == 0 {
		runtime.Gosched()
	}
}

type obs struct {
	cnt []int64
	val []uint64
	oob []int64
}

func (r *recorder) obs() obs {
	o := obs{cnt: r.cnt, val: r.val, oob: append([]int64{}, r.oob...)}
	sort.Slice(o.oob, func(a, b int) bool { return o.oob[a] < o.oob[b] })
	return o
}
func (o obs) equal(p obs) bool {
	if len(o.cnt) != len(p.cnt) || len(o.oob) != len(p.oob) {
		return false
	}
	for i := range o.cnt {
		if o.cnt[i] != p.cnt[i] || o.val[i] != p.val[i] {
			return false
		}
	}
	for i := range o.oob {
		if o.oob[i] != p.oob[i] {
			return false
		}
	}
	return true
}

// outcome of one entry-point execution
type outcome struct {
	o        obs
	out      []uint64 // modify: value codes of the returned attribute
	kept     bool     // the input mesh still holds its original data
	rest     bool     // everything of the returned mesh the entry point does not compute is the input's
	panicked string   // recovered panic ("" = returned normally)
}

func guard(out *outcome, f func()) {
	defer func() {
		if r := recover(); r != nil {
			out.panicked = fmt.Sprint(r)
		}
	}()
	f()
}

// ---- attribute entry points ----
type attrData struct {
	a       int
	variant int
	f1      []float64
	f2      []vector2.Float64
	f3      []vector3.Float64
	m       modeling.Mesh
	print   uint64 // fingerprint of the whole input mesh
	rest    uint64 // fingerprint of everything except the attribute under test
}

const (
	otherName = "c10other" // a second attribute of the arity under test
	auxName   = "c10aux"   // attributes of the other arities
)

// Mesh variants for the attribute entry points.  0: point cloud without indices holding only the attribute under
// test.  1..5: every topology, an index buffer whose length is unrelated to the element count, a second attribute of
// the same arity and attributes of the other arities (lengths n and n+1): an entry point must take its element
// count from the attribute it was asked for and must hand everything else on untouched.
const meshVariants = 6

func variantTopo(variant, n int) (modeling.Topology, []int) {
	mk := func(k int) []int {
		idx := make([]int, k)
		for j := range idx {
			idx[j] = (3 + 7*j) % (n + 1)
		}
		return idx
	}
	switch variant {
	case 1:
		return modeling.TriangleTopology, mk(3 * (n/2 + 1))
	case 2:
		return modeling.LineStripTopology, mk(n/3 + 2)
	case 3:
		return modeling.QuadTopology, mk(4 * (n / 5))
	case 4:
		return modeling.LineLoopTopology, mk(n + 3)
	case 5:
		return modeling.LineTopology, mk(2 * (n/4 + 1))
	}
	return modeling.PointTopology, nil
}

func buildAttr(a, salt, n, variant int) *attrData {
	d := &attrData{a: a, variant: variant}
	topo, idx := variantTopo(variant, n)
	m := modeling.NewMesh(topo, idx)
	m1 := map[string][]float64{}
	m2 := map[string][]vector2.Float64{}
	m3 := map[string][]vector3.Float64{}
	switch a {
	case 1:
		d.f1 = make([]float64, n)
		for i := range d.f1 {
			d.f1[i] = float64(dat(salt, i))
		}
		m1[attrName] = d.f1 // SetFloat1Data keeps an empty attribute (SetFloat1Attribute would drop it)
	case 2:
		d.f2 = make([]vector2.Float64, n)
		for i := range d.f2 {
			x := float64(dat(salt, i))
			d.f2[i] = vector2.New(x, x+1)
		}
		m2[attrName] = d.f2
	default:
		d.f3 = make([]vector3.Float64, n)
		for i := range d.f3 {
			x := float64(dat(salt, i))
			d.f3[i] = vector3.New(x, x+1, x+2)
		}
		m3[attrName] = d.f3
	}
	if variant > 0 {
		o1 := func(k, salt int) []float64 {
			out := make([]float64, k)
			for i := range out {
				out[i] = float64(dat(salt, i)) + 0.5
			}
			return out
		}
		o2 := func(k, salt int) []vector2.Float64 {
			out := make([]vector2.Float64, k)
			for i := range out {
				out[i] = vector2.New(float64(dat(salt, i))+0.25, -float64(i))
			}
			return out
		}
		o3 := func(k, salt int) []vector3.Float64 {
			out := make([]vector3.Float64, k)
			for i := range out {
				out[i] = vector3.New(float64(dat(salt, i))+0.125, float64(i), -1)
			}
			return out
		}
		// the second attribute of the same arity is one element longer or shorter than the one under test
		ol := n + 1
		if variant%2 == 0 && n > 0 {
			ol = n - 1
		}
		switch a {
		case 1:
			m1[otherName], m2[auxName], m3[auxName] = o1(ol, salt+1), o2(n, salt+2), o3(n+1, salt+3)
		case 2:
			m2[otherName], m1[auxName], m3[auxName] = o2(ol, salt+1), o1(n, salt+2), o3(n+1, salt+3)
		default:
			m3[otherName], m1[auxName], m2[auxName] = o3(ol, salt+1), o1(n, salt+2), o2(n+1, salt+3)
		}
		m = m.SetFloat1Data(m1).SetFloat2Data(m2).SetFloat3Data(m3)
	} else {
		switch a {
		case 1:
			m = m.SetFloat1Data(m1)
		case 2:
			m = m.SetFloat2Data(m2)
		default:
			m = m.SetFloat3Data(m3)
		}
	}
	d.m = m
	d.print = meshPrint(m, 0, "")
	d.rest = meshPrint(m, a, attrName)
	return d
}

// FNV-style hash (one multiplication per 64-bit word) over topology, index buffer and every attribute (names in sorted order, values bitwise) of a mesh, leaving
// out the attribute skipName of arity skipArity
func meshPrint(m modeling.Mesh, skipArity int, skipName string) uint64 {
	h := uint64(14695981039346656037)
	w := func(x uint64) {
		h = (h ^ x) * 1099511628211
		h ^= h >> 29
	}
	ws := func(s string) {
		w(uint64(len(s)))
		for _, c := range []byte(s) {
			w(uint64(c))
		}
	}
	w(uint64(m.Topology()))
	idx := m.Indices()
	w(uint64(idx.Len()))
	for i := 0; i < idx.Len(); i++ {
		w(uint64(idx.At(i)))
	}
	n1 := append([]string{}, m.Float1Attributes()...)
	sort.Strings(n1)
	for _, name := range n1 {
		if skipArity == 1 && name == skipName {
			continue
		}
		ws("1:" + name)
		it := m.Float1Attribute(name)
		w(uint64(it.Len()))
		for i := 0; i < it.Len(); i++ {
			w(math.Float64bits(it.At(i)))
		}
	}
	n2 := append([]string{}, m.Float2Attributes()...)
	sort.Strings(n2)
	for _, name := range n2 {
		if skipArity == 2 && name == skipName {
			continue
		}
		ws("2:" + name)
		it := m.Float2Attribute(name)
		w(uint64(it.Len()))
		for i := 0; i < it.Len(); i++ {
			v := it.At(i)
			w(math.Float64bits(v.X()))
			w(math.Float64bits(v.Y()))
		}
	}
	n3 := append([]string{}, m.Float3Attributes()...)
	sort.Strings(n3)
	for _, name := range n3 {
		if skipArity == 3 && name == skipName {
			continue
		}
		ws("3:" + name)
		it := m.Float3Attribute(name)
		w(uint64(it.Len()))
		for i := 0; i < it.Len(); i++ {
			v := it.At(i)
			w(math.Float64bits(v.X()))
			w(math.Float64bits(v.Y()))
			w(math.Float64bits(v.Z()))
		}
	}
	n4 := append([]string{}, m.Float4Attributes()...)
	sort.Strings(n4)
	for _, name := range n4 {
		ws("4:" + name)
	}
	return h
}

// the input arrays still hold the generated data
func (d *attrData) pristine(salt int) bool {
	for i, v := range d.f1 {
		if v != float64(dat(salt, i)) {
			return false
		}
	}
	for i, v := range d.f2 {
		x := float64(dat(salt, i))
		if v.X() != x || v.Y() != x+1 {
			return false
		}
	}
	for i, v := range d.f3 {
		x := float64(dat(salt, i))
		if v.X() != x || v.Y() != x+1 || v.Z() != x+2 {
			return false
		}
	}
	return meshPrint(d.m, 0, "") == d.print
}

func c1(v float64) uint64         { return code(1, [3]uint64{uint64(v), 0, 0}) }
func c2(v vector2.Float64) uint64 { return code(2, [3]uint64{uint64(v.X()), uint64(v.Y()), 0}) }
func c3(v vector3.Float64) uint64 {
	return code(3, [3]uint64{uint64(v.X()), uint64(v.Y()), uint64(v.Z())})
}

// how a case calls the entry point
type callOpts struct {
	variant int // mesh variant (see meshVariants)
	conc    int // >= 2: that many goroutines call the entry point on the SAME mesh at the same time
	retain  int // modify: the result is read back only after that many further calls on other meshes
}

// one call of a scan entry point.  mode: 0 sequential entry point, 1 ...ParallelWithPoolSize(s),
// 2 ...Parallel() (pool size = runtime.NumCPU())
func scanCall(d *attrData, s, mode int, rec *recorder) (ret modeling.Mesh) {
	switch d.a {
	case 1:
		f := func(i int, v float64) { rec.call(i, c1(v)) }
		switch mode {
		case 0:
			ret = d.m.ScanFloat1Attribute(attrName, f)
		case 1:
			ret = d.m.ScanFloat1AttributeParallelWithPoolSize(attrName, s, f)
		default:
			ret = d.m.ScanFloat1AttributeParallel(attrName, f)
		}
	case 2:
		f := func(i int, v vector2.Float64) { rec.call(i, c2(v)) }
		switch mode {
		case 0:
			ret = d.m.ScanFloat2Attribute(attrName, f)
		case 1:
			ret = d.m.ScanFloat2AttributeParallelWithPoolSize(attrName, s, f)
		default:
			ret = d.m.ScanFloat2AttributeParallel(attrName, f)
		}
	default:
		f := func(i int, v vector3.Float64) { rec.call(i, c3(v)) }
		switch mode {
		case 0:
			ret = d.m.ScanFloat3Attribute(attrName, f)
		case 1:
			ret = d.m.ScanFloat3AttributeParallelWithPoolSize(attrName, s, f)
		default:
			ret = d.m.ScanFloat3AttributeParallel(attrName, f)
		}
	}
	return ret
}

func modifyCall(d *attrData, s, mode int, rec *recorder) (res modeling.Mesh) {
	switch d.a {
	case 1:
		f := func(i int, v float64) float64 { rec.call(i, c1(v)); return gfun(i, v) }
		switch mode {
		case 0:
			res = d.m.ModifyFloat1Attribute(attrName, f)
		case 1:
			res = d.m.ModifyFloat1AttributeParallelWithPoolSize(attrName, s, f)
		default:
			res = d.m.ModifyFloat1AttributeParallel(attrName, f)
		}
	case 2:
		f := func(i int, v vector2.Float64) vector2.Float64 {
			rec.call(i, c2(v))
			return vector2.New(gfun(i, v.X()), gfun(i, v.Y()))
		}
		switch mode {
		case 0:
			res = d.m.ModifyFloat2Attribute(attrName, f)
		case 1:
			res = d.m.ModifyFloat2AttributeParallelWithPoolSize(attrName, s, f)
		default:
			res = d.m.ModifyFloat2AttributeParallel(attrName, f)
		}
	default:
		f := func(i int, v vector3.Float64) vector3.Float64 {
			rec.call(i, c3(v))
			return vector3.New(gfun(i, v.X()), gfun(i, v.Y()), gfun(i, v.Z()))
		}
		switch mode {
		case 0:
			res = d.m.ModifyFloat3Attribute(attrName, f)
		case 1:
			res = d.m.ModifyFloat3AttributeParallelWithPoolSize(attrName, s, f)
		default:
			res = d.m.ModifyFloat3AttributeParallel(attrName, f)
		}
	}
	return res
}

func outCodes(a int, res modeling.Mesh) []uint64 {
	out := []uint64{}
	switch a {
	case 1:
		if res.HasFloat1Attribute(attrName) {
			it := res.Float1Attribute(attrName)
			for i := 0; i < it.Len(); i++ {
				out = append(out, c1(it.At(i)))
			}
		}
	case 2:
		if res.HasFloat2Attribute(attrName) {
			it := res.Float2Attribute(attrName)
			for i := 0; i < it.Len(); i++ {
				out = append(out, c2(it.At(i)))
			}
		}
	default:
		if res.HasFloat3Attribute(attrName) {
			it := res.Float3Attribute(attrName)
			for i := 0; i < it.Len(); i++ {
				out = append(out, c3(it.At(i)))
			}
		}
	}
	return out
}

// run `one` in opt.conc goroutines released together (one caller when conc < 2); the outcome reported is the first
// that differs from caller 0's (so a caller that was disturbed by the others is what the case shows)
func concurrently(conc int, one func() outcome) outcome {
	if conc < 2 {
		return one()
	}
	outs := make([]outcome, conc)
	var ready, done sync.WaitGroup
	gate := make(chan struct{})
	for k := 0; k < conc; k++ {
		ready.Add(1)
		done.Add(1)
		go func(k int) {
			defer done.Done()
			ready.Done()
			<-gate
			outs[k] = one()
		}(k)
	}
	ready.Wait()
	close(gate)
	done.Wait()
	for k := 1; k < conc; k++ {
		if !outs[k].same(outs[0]) {
			return outs[k]
		}
	}
	return outs[0]
}

func (o outcome) same(p outcome) bool {
	return o.o.equal(p.o) && sameU64(o.out, p.out) && o.kept == p.kept && o.rest == p.rest && o.panicked == p.panicked
}

func runScan(a, salt, n, s, mode, gosched int, opt callOpts) outcome {
	d := buildAttr(a, salt, n, opt.variant)
	out := concurrently(opt.conc, func() outcome {
		rec := newRecorder(n, gosched)
		var out outcome
		var ret modeling.Mesh
		guard(&out, func() { ret = scanCall(d, s, mode, rec) })
		out.o = rec.obs()
		out.rest = out.panicked != "" || meshPrint(ret, 0, "") == d.print // a scan returns its receiver
		return out
	})
	out.kept = d.pristine(salt)
	return out
}

func runModify(a, salt, n, s, mode, gosched int, opt callOpts) outcome {
	d := buildAttr(a, salt, n, opt.variant)
	out := concurrently(opt.conc, func() outcome {
		rec := newRecorder(n, gosched)
		var out outcome
		var res modeling.Mesh
		guard(&out, func() { res = modifyCall(d, s, mode, rec) })
		out.o = rec.obs()
		// a retained result must not change: more calls of the same entry point on other meshes (same and other
		// sizes) before the result is read
		for k := 0; k < opt.retain; k++ {
			var ignore outcome
			other := buildAttr(a, salt+17+k, n+3*(k%2), opt.variant)
			guard(&ignore, func() { modifyCall(other, s, mode, newRecorder(n+3*(k%2), 0)) })
		}
		out.out = []uint64{}
		out.rest = true
		if out.panicked == "" {
			out.out = outCodes(a, res)
			out.rest = meshPrint(res, a, attrName) == d.rest
		}
		return out
	})
	out.kept = d.pristine(salt)
	return out
}

// ---- primitives ----
func topoOf(t int) modeling.Topology {
	switch t {
	case 0:
		return modeling.TriangleTopology
	case 1:
		return modeling.PointTopology
	}
	return modeling.LineStripTopology
}

func runPrims(topo, salt, nidx, nverts, s, mode, gosched int, opt callOpts) outcome {
	idx := make([]int, nidx)
	for j := range idx {
		if topo == 1 {
			idx[j] = j
		} else {
			idx[j] = idxAt(salt, nverts, j)
		}
	}
	np := nverts
	if topo == 1 && nidx > np {
		np = nidx
	}
	pos := make([]vector3.Float64, np)
	for v := range pos {
		pos[v] = vector3.New(float64((salt+11*v)%997), 0, 0)
	}
	m := modeling.NewMesh(topoOf(topo), idx).SetFloat3Data(map[string][]vector3.Float64{modeling.PositionAttribute: pos})
	n := primCount(topo, nidx)
	if n < 0 {
		n = 0
	}
	if opt.variant > 0 {
		// further attributes whose lengths differ from the vertex count and from the primitive count
		aux1 := make([]float64, n+2)
		for i := range aux1 {
			aux1[i] = float64(i) + 0.5
		}
		aux3 := make([]vector3.Float64, np+opt.variant)
		for i := range aux3 {
			aux3[i] = vector3.New(float64(i), 1, 2)
		}
		m = m.SetFloat1Data(map[string][]float64{auxName: aux1}).SetFloat3Attribute(otherName, aux3)
	}
	before := meshPrint(m, 0, "")
	out := concurrently(opt.conc, func() outcome {
		rec := newRecorder(n, gosched)
		f := func(i int, p modeling.Primitive) {
			if i < 0 || i >= n {
				rec.call(i, 0)
				return
			}
			c := uint64(1) << 61
			func() {
				defer func() { recover() }() // a primitive that points outside the buffers is a wrong value, not a crash
				switch t := p.(type) {
				case modeling.Tri:
					c = uint64(t.P1()) + 65536*uint64(t.P2()) + 4294967296*uint64(t.P3())
				case *modeling.Tri:
					c = uint64(t.P1()) + 65536*uint64(t.P2()) + 4294967296*uint64(t.P3())
				case *modeling.Point:
					c = uint64(t.ClosestPoint(modeling.PositionAttribute, vector3.Zero[float64]()).X())
				case *modeling.Line:
					c = uint64(t.P1()) + 65536*uint64(t.P2())
				}
			}()
			rec.call(i, c)
		}
		var out outcome
		var ret modeling.Mesh
		guard(&out, func() {
			switch mode {
			case 0:
				ret = m.ScanPrimitives(f)
			case 1:
				ret = m.ScanPrimitivesParallelWithPoolSize(s, f)
			default:
				ret = m.ScanPrimitivesParallel(f)
			}
		})
		out.o = rec.obs()
		out.rest = out.panicked != "" || meshPrint(ret, 0, "") == before
		return out
	})
	out.kept = meshPrint(m, 0, "") == before
	return out
}
