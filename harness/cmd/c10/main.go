// C10 harness: parallel entry points of modeling.Mesh and marching.MarchingCanvas against their sequential
// counterparts and against the model of Par/Partition.v + Par/Interleave.v (Check/C10.v).
//
// Process layout.  The parent builds the deterministic plan (list of case descriptions) and executes it in
// child processes of itself ("-worker"), because a defect in a worker goroutine of the code under test
// (index out of range, negative index) kills the whole process: the child prints a marker before every
// case, so a crash is attributed to a case, reported, and the child is restarted behind it.  The same plan
// (a subset in the quick tier) is executed a second time by the binary built with -race ("-racebin"); data
// race reports are attributed to the case running when they were printed.
package main

import (
	"bufio"
	"bytes"
	"context"
	"encoding/json"
	"flag"
	"fmt"
	"math"
	"os"
	"os/exec"
	"path/filepath"
	"regexp"
	"runtime"
	"strconv"
	"strings"
	"sync"
	"time"

	"verif/harness/hx"
)

type desc struct {
	Entry   string      `json:"entry"`        // scan | modify | prims | panic | march
	Of      string      `json:"of,omitempty"` // panic: the entry kind exercised (scan | modify | prims)
	Arity   int         `json:"arity,omitempty"`
	Salt    int         `json:"salt"`
	N       int         `json:"n"` // elements (prims: primitives, derived from topo/nidx)
	S       int         `json:"s"` // pool size
	Topo    int         `json:"topo,omitempty"`
	NIdx    int         `json:"nidx,omitempty"`
	NVerts  int         `json:"nverts,omitempty"`
	Seq     bool        `json:"sequential,omitempty"`   // the sequential entry point on the same input (pool size unused)
	Default bool        `json:"default_pool,omitempty"` // entry point without pool size (runtime.NumCPU() workers)
	Large   bool        `json:"large,omitempty"`        // judged through the run-length summary (CLarge)
	Mesh    int         `json:"mesh,omitempty"`         // mesh variant: topology, index buffer, extra attributes (mesh.go meshVariants)
	Conc    int         `json:"conc,omitempty"`         // >= 2: that many goroutines call the entry point on the same mesh at once
	Retain  int         `json:"retain,omitempty"`       // modify: result read back after that many further calls on other meshes
	Gosched int         `json:"gosched,omitempty"`      // callback yields on every k-th index
	Procs   int         `json:"gomaxprocs,omitempty"`   // 0 = leave the default
	Reps    int         `json:"reps,omitempty"`         // repetitions; every distinct observation becomes a case
	Fields  []fieldDesc `json:"fields,omitempty"`
	NFun    int         `json:"nfun,omitempty"`
	Cutoff  float64     `json:"cutoff,omitempty"`
	CPU     float64     `json:"cpu,omitempty"`        // marching cases: cubes per unit of the canvases (0 = 1)
	Add2    bool        `json:"add_parallel2,omitempty"` // marching cases: the parallel canvas is filled by AddFieldParallel2 (workers compute value arrays, the caller adds them in arrival order)
	MAttr   int         `json:"march_attr,omitempty"` // marching cases: attribute marched (0 = March/MarchParallel, k = MarchOnAttribute[Parallel]("a<k>"))
	NoMarch bool        `json:"no_march,omitempty"` // marching cases: only AddField vs AddFieldParallel
	Seam    bool        `json:"seam,omitempty"`     // marching cases: surface extremes placed around a block border
	ParOnly bool        `json:"par_only,omitempty"` // marching cases for the -race binary: parallel variants only
	Ops     []opDesc    `json:"ops,omitempty"`      // marching cases: a sequence of add / march operations on one canvas
	Race    bool        `json:"race,omitempty"`     // replay: execute with the -race binary
	RaceSub bool        `json:"race_sub,omitempty"` // part of the subset executed by the -race binary in this tier
	Report  string      `json:"report,omitempty"`   // race cases: the detector's report (informational)
}

func (d desc) key() string {
	e := d
	e.Reps, e.RaceSub, e.Report = 0, false, ""
	b, _ := json.Marshal(e)
	return string(b)
}

// what a worker hands back for one plan item
type wcase struct {
	Kind    string `json:"kind"`
	Coq     string `json:"coq"`
	Nontriv bool   `json:"nontriv"`
	GoFail  string `json:"gofail,omitempty"`
	FailKey string `json:"failkey,omitempty"`
	Note    string `json:"note,omitempty"`
}
type wresult struct {
	Idx    int               `json:"idx"`
	Cases  []wcase           `json:"cases"`
	Counts map[string]int    `json:"counts,omitempty"`
	Differ string            `json:"differ,omitempty"` // race worker: Go-side comparison failed
	Extra  map[string]string `json:"extra,omitempty"`
}

// ---------------------------------------------------------------- Coq rendering
func obsCoq(o obs) string {
	return fmt.Sprintf("{| r_cnt := %s; r_val := %s; r_oob := %s |}", coqInts(u64(o.cnt)), coqInts(o.val), hx.CoqListZ(o.oob))
}

// primitive 63-bit integers (Check/C10.v robs): one kernel node per literal
func coqInts(xs []uint64) string {
	ys := make([]uint64, len(xs))
	for i, x := range xs {
		if x > 1<<62 {
			x = 1 << 62 // far above every legitimate code: still a wrong value, and still a valid literal
		}
		ys[i] = x
	}
	return hx.CoqListN(ys) + "%uint63"
}
func u64(xs []int64) []uint64 {
	out := make([]uint64, len(xs))
	for i, x := range xs {
		out[i] = uint64(x)
	}
	return out
}

func entryRun(d desc, mode int) outcome {
	opt := callOpts{variant: d.Mesh, conc: d.Conc, retain: d.Retain}
	switch d.Entry {
	case "scan":
		return runScan(d.Arity, d.Salt, d.N, d.S, mode, d.Gosched, opt)
	case "modify":
		return runModify(d.Arity, d.Salt, d.N, d.S, mode, d.Gosched, opt)
	default:
		return runPrims(d.Topo, d.Salt, d.NIdx, d.NVerts, d.S, mode, d.Gosched, opt)
	}
}

func expectCode(d desc, i int) uint64 {
	if d.Entry == "prims" {
		return primCode(d.Topo, d.Salt, d.NVerts, i)
	}
	return datCode(d.Arity, d.Salt, i)
}

func sameU64(a, b []uint64) bool {
	if len(a) != len(b) {
		return false
	}
	for i := range a {
		if a[i] != b[i] {
			return false
		}
	}
	return true
}

// Go-side verdict used by the race worker and for large cases
func idealOutcome(d desc, o outcome) bool {
	if o.panicked != "" || len(o.o.oob) != 0 || !o.kept || !o.rest {
		return false
	}
	for i := range o.o.cnt {
		if o.o.cnt[i] != 1 || o.o.val[i] != expectCode(d, i) {
			return false
		}
	}
	if d.Entry == "modify" {
		if len(o.out) != d.N {
			return false
		}
		for i := range o.out {
			if o.out[i] != outCode(d.Arity, d.Salt, i) {
				return false
			}
		}
	}
	return true
}

func effectiveS(d desc) int {
	if d.Default {
		return runtime.NumCPU()
	}
	return d.S
}

// one execution of a mesh case rendered for Check/C10.v
func meshCase(d desc) wcase {
	mode := 1
	if d.Default {
		mode = 2
	}
	s := effectiveS(d)
	if d.Seq {
		o := entryRun(d, 0)
		w := wcase{Kind: "seq-" + d.Entry, Nontriv: d.N >= 2}
		if o.panicked != "" {
			w.GoFail = "sequential entry point panicked: " + o.panicked
		}
		switch d.Entry {
		case "scan":
			w.Coq = fmt.Sprintf("CSeqScan %d%%nat %d %d%%nat %s %s", d.Arity, d.Salt, d.N, obsCoq(o.o), hx.CoqBool(o.rest && o.kept))
		case "modify":
			w.Coq = fmt.Sprintf("CSeqMod %d%%nat %d %d%%nat %s %s %s %s", d.Arity, d.Salt, d.N, obsCoq(o.o), coqInts(o.out), hx.CoqBool(o.kept), hx.CoqBool(o.rest))
		default:
			w.Coq = fmt.Sprintf("CSeqPrims %d%%nat %d %d%%nat %d%%nat %s %s", d.Topo, d.Salt, d.NIdx, d.NVerts, obsCoq(o.o), hx.CoqBool(o.rest && o.kept))
		}
		return w
	}
	par := entryRun(d, mode)
	w := wcase{Kind: d.Entry, Nontriv: d.N >= 2 && s >= 2}
	if par.panicked != "" {
		// also for an empty input: the sequential entry points accept it (checked by the seq-* cases)
		w.GoFail = "parallel entry point panicked: " + par.panicked
	}
	if d.Large {
		seq := entryRun(d, 0)
		w.Kind = "large"
		var runs [][2]uint64
		for _, c := range par.o.cnt {
			if k := len(runs); k > 0 && runs[k-1][0] == uint64(c) {
				runs[k-1][1]++
			} else {
				runs = append(runs, [2]uint64{uint64(c), 1})
			}
		}
		if len(runs) > 64 {
			runs = runs[:64]
		}
		bad := 0
		for i := range par.o.val {
			if par.o.val[i] != expectCode(d, i)*uint64(par.o.cnt[i]) {
				bad++
			}
		}
		if d.Entry == "modify" {
			for i := 0; i < d.N; i++ {
				if i >= len(par.out) || par.out[i] != outCode(d.Arity, d.Salt, i) {
					bad++
				}
			}
			if len(par.out) > d.N {
				bad += len(par.out) - d.N
			}
		}
		if !par.kept || !par.rest {
			bad++
		}
		same := par.o.equal(seq.o) && sameU64(par.out, seq.out) && par.panicked == seq.panicked
		rs := make([]string, len(runs))
		for i, r := range runs {
			rs[i] = fmt.Sprintf("(%d,%d)", r[0], r[1])
		}
		w.Coq = fmt.Sprintf("CLarge %d %d [%s] %d %d %s", d.N, s, strings.Join(rs, ";"), bad, len(par.o.oob), hx.CoqBool(same))
		return w
	}
	switch d.Entry {
	case "scan":
		w.Coq = fmt.Sprintf("CScan %d%%nat %d %d%%nat %d%%nat %s %s", d.Arity, d.Salt, d.N, s, obsCoq(par.o), hx.CoqBool(par.rest && par.kept))
	case "modify":
		w.Coq = fmt.Sprintf("CMod %d%%nat %d %d%%nat %d%%nat %s %s %s %s", d.Arity, d.Salt, d.N, s, obsCoq(par.o),
			coqInts(par.out), hx.CoqBool(par.kept), hx.CoqBool(par.rest))
	default:
		w.Coq = fmt.Sprintf("CPrims %d%%nat %d %d%%nat %d%%nat %d%%nat %s %s", d.Topo, d.Salt, d.NIdx, d.NVerts, s, obsCoq(par.o), hx.CoqBool(par.rest && par.kept))
	}
	return w
}

func panicCase(d desc) wcase {
	var o outcome
	o = entryRun(d, 1)
	return wcase{Kind: "panic", Nontriv: false,
		Coq: fmt.Sprintf("CPanic %d%%nat %s %s", d.N, hx.CoqZ(int64(d.S)), hx.CoqBool(o.panicked != ""))}
}

func execute(d desc) wresult {
	var res wresult
	res.Counts = map[string]int{}
	if d.Procs > 0 {
		runtime.GOMAXPROCS(d.Procs)
	} else {
		runtime.GOMAXPROCS(runtime.NumCPU())
	}
	reps := d.Reps
	if reps < 1 {
		reps = 1
	}
	seen := map[string]bool{}
	for r := 0; r < reps; r++ {
		var w wcase
		switch d.Entry {
		case "panic":
			w = panicCase(d)
		case "march":
			if len(d.Ops) > 0 {
				outs := runSequence(d)
				for k, o := range outs {
					ws := wcase{Kind: "march-seq", Coq: o.coq, Nontriv: o.tris > 0 && o.blocks >= 2 && k > 0, Note: o.detail}
					res.Counts[fmt.Sprintf("march-seq:step=%d", k)]++
					if k+1 < len(outs) {
						if !seen[ws.Coq] {
							seen[ws.Coq] = true
							res.Cases = append(res.Cases, ws)
						}
					} else {
						w = ws
					}
				}
				if len(outs) == 0 {
					w = wcase{Kind: "march-seq", Coq: "CRace 0 0"}
				}
				break
			}
			o := runMarch(d)
			w = wcase{Kind: "march", Coq: o.coq, Nontriv: (o.tris > 0 || d.NoMarch) && o.blocks >= 2}
			if !o.marchEq || !o.canvasEq {
				w.Note = o.detail
			}
			res.Counts[fmt.Sprintf("march:blocks=%d", o.blocks)]++
			if o.tris == 0 {
				res.Counts["march:no-triangles"]++
			}
		default:
			w = meshCase(d)
		}
		res.Counts["executions"]++
		if !seen[w.Coq+w.GoFail] {
			seen[w.Coq+w.GoFail] = true
			res.Cases = append(res.Cases, w)
		}
	}
	return res
}

// the race worker only needs a verdict: does the parallel variant still agree with the ideal result
func executeRace(d desc) string {
	if d.Procs > 0 {
		runtime.GOMAXPROCS(d.Procs)
	} else {
		runtime.GOMAXPROCS(runtime.NumCPU())
	}
	reps := d.Reps
	if reps < 1 {
		reps = 1
	}
	for r := 0; r < reps; r++ {
		switch d.Entry {
		case "panic":
			continue
		case "march":
			if len(d.Ops) > 0 {
				for _, o := range runSequence(d) {
					if !o.marchEq || !o.canvasEq {
						return "sequence under -race: " + o.detail
					}
				}
				continue
			}
			o := runMarch(d)
			if !o.marchEq || !o.canvasEq {
				return "march under -race: " + o.detail
			}
		default:
			mode := 1
			if d.Default {
				mode = 2
			}
			par := entryRun(d, mode)
			if !idealOutcome(d, par) {
				return "result under -race differs from the ideal observation"
			}
		}
	}
	return ""
}

// ---------------------------------------------------------------- the plan
func saltOf(n, k int) int { return (n*31 + k*13) % 1000 }

func primsDesc(topo, n, s, variant int) desc {
	d := desc{Entry: "prims", Topo: topo, N: n, S: s, Salt: saltOf(n, topo+variant), NVerts: n + 3}
	switch topo {
	case 0:
		d.NIdx = 3*n + (n+variant)%3 // trailing partial triangle: PrimitiveCount rounds down
	case 1:
		d.NIdx = n
	default:
		d.NIdx = n + 1
		if n == 0 && variant%2 == 0 {
			d.NIdx = 0 // PrimitiveCount() = -1
		}
	}
	return d
}

var entries = []desc{
	{Entry: "scan", Arity: 1}, {Entry: "scan", Arity: 2}, {Entry: "scan", Arity: 3},
	{Entry: "modify", Arity: 1}, {Entry: "modify", Arity: 2}, {Entry: "modify", Arity: 3},
	{Entry: "prims", Topo: 0}, {Entry: "prims", Topo: 1}, {Entry: "prims", Topo: 2},
}

// mesh variant k for an entry point: the attribute entry points meet all of mesh.go's variants, the primitive
// scans meshes without (0) and with (1, 2) further attributes
func meshVariant(e desc, k int) int {
	if e.Entry == "prims" {
		return k % 3
	}
	return k % meshVariants
}

func instantiate(e desc, n, s, variant int) desc {
	if e.Entry == "prims" {
		return primsDesc(e.Topo, n, s, variant)
	}
	d := e
	d.N, d.S, d.Salt = n, s, saltOf(n, e.Arity+variant)
	return d
}

func sphereField(lo, hi [3]int, r2 int) fieldDesc {
	return fieldDesc{Lo: lo, Hi: hi, C: [3]int{(lo[0] + hi[0]) / 2, (lo[1] + hi[1]) / 2, (lo[2] + hi[2]) / 2}, R2: r2, Off: surfaceOffset}
}

func fixedMarch() []desc {
	m := func(nfun int, cutoff float64, fs ...fieldDesc) desc {
		return desc{Entry: "march", NFun: nfun, Cutoff: cutoff, Fields: fs}
	}
	return []desc{
		// one block
		m(1, surfaceOffset, sphereField([3]int{10, 10, 10}, [3]int{30, 30, 30}, 15)),
		// two blocks across x = 100, two attributes
		m(2, surfaceOffset, sphereField([3]int{85, 10, 10}, [3]int{115, 40, 40}, 21)),
		// eight blocks around (100,100,100)
		m(1, surfaceOffset, sphereField([3]int{85, 85, 85}, [3]int{115, 115, 115}, 21)),
		// negative coordinates: chunks -1 and 0
		m(1, surfaceOffset, sphereField([3]int{-15, 5, 5}, [3]int{15, 35, 35}, 21)),
		// the box ends exactly on a chunk boundary: chunk 1 is listed with an empty job
		m(1, surfaceOffset, sphereField([3]int{70, 10, 10}, [3]int{99, 40, 40}, 19)),
		// nothing crosses the cutoff: both variants return the empty mesh
		m(1, -1000, sphereField([3]int{10, 10, 10}, [3]int{30, 30, 30}, 15)),
		// two overlapping fields added one after the other
		m(1, surfaceOffset, sphereField([3]int{60, 10, 10}, [3]int{90, 40, 40}, 21), sphereField([3]int{80, 10, 10}, [3]int{120, 40, 40}, 25)),
		// empty canvas: both variants panic with the declared error
		m(0, surfaceOffset),
	}
}

// ---- several attributes / other resolutions ------------------------------------------------------------------
// Attribute k >= 1 of a field is the plane x + 2y + 3z + k + 0.5 (march.go); marched at the value it takes in the
// middle of the field's box it gives a surface through every block the box spans.
func planeCutoff(f fieldDesc, k int) float64 {
	return float64(f.C[0]) + 2*float64(f.C[1]) + 3*float64(f.C[2]) + float64(k) + 0.5
}

func attrMarch(thorough bool) []desc {
	var out []desc
	a := sphereField([3]int{85, 10, 10}, [3]int{115, 40, 40}, 21)   // blocks (0,0,0) and (1,0,0)
	b := sphereField([3]int{30, 80, 20}, [3]int{60, 120, 50}, 25)   // blocks (0,0,0) and (0,1,0)
	c := sphereField([3]int{-20, -20, 10}, [3]int{15, 15, 40}, 21)  // blocks (-1,-1,0) .. (0,0,0)
	b2, c3 := b, c
	b2.NFun, c3.NFun = 2, 3
	// the marched attribute owns block (0,0,0) and shares the canvas' block store with two other attributes
	out = append(out, desc{Entry: "march", NFun: 3, Cutoff: surfaceOffset, Fields: []fieldDesc{a}})
	// the second attribute is marched; a later field introduces it
	out = append(out, desc{Entry: "march", NFun: 1, Cutoff: planeCutoff(b, 1), MAttr: 1, Fields: []fieldDesc{a, b2}})
	// default attribute marched on the same canvas
	out = append(out, desc{Entry: "march", NFun: 1, Cutoff: surfaceOffset, Fields: []fieldDesc{a, b2}})
	// three attributes over negative and positive blocks, the last one marched
	out = append(out, desc{Entry: "march", NFun: 1, Cutoff: planeCutoff(c, 2), MAttr: 2, Fields: []fieldDesc{c3, a}})
	// an attribute the canvas does not hold: both variants panic with the declared error
	out = append(out, desc{Entry: "march", NFun: 1, Cutoff: 0, MAttr: 2, Fields: []fieldDesc{sphereField([3]int{10, 10, 10}, [3]int{30, 30, 30}, 15)}})
	// two cubes per unit: the box [42,58]x[5,20]^2 covers cells 83..117 (two blocks); half a cube per unit: one block
	out = append(out, desc{Entry: "march", NFun: 2, Cutoff: surfaceOffset, CPU: 2, Fields: []fieldDesc{sphereField([3]int{42, 5, 5}, [3]int{58, 20, 20}, 15)}})
	out = append(out, desc{Entry: "march", NFun: 1, Cutoff: surfaceOffset, CPU: 0.5, Fields: []fieldDesc{sphereField([3]int{150, 20, 20}, [3]int{250, 100, 100}, 71)}})
	// 32 cubes per unit and samples EXACTLY on the cutoff: the signed-distance sphere of radius 10/32 around (1,1,1)
	// passes through the lattice points (10,0,0), (6,8,0), (0,6,8) ... cells from its centre, so surface vertices sit
	// vertexCornerMargin = 1e-3 cells = 3e-5 units from lattice corners: whatever is done after the block marches
	// (weld, scale) must be done in the same order and units by both variants.  The second field keeps the canvas
	// out of the single-field cell count (cells that are exactly 0 are not counted as written).
	out = append(out, desc{Entry: "march", NFun: 1, Cutoff: 0, CPU: 32, Fields: []fieldDesc{
		{Lo: [3]int{1, 1, 1}, Hi: [3]int{2, 2, 2}, C: [3]int{1, 1, 1}, R: 0.3125},
		{Lo: [3]int{2, 2, 2}, Hi: [3]int{2, 2, 2}, C: [3]int{2, 2, 2}, R: 0.01}}})
	if thorough {
		h := sphereField([3]int{42, 5, 5}, [3]int{58, 20, 20}, 15)
		out = append(out, desc{Entry: "march", NFun: 2, Cutoff: planeCutoff(h, 1), MAttr: 1, CPU: 2, Fields: []fieldDesc{h}})
		out = append(out, desc{Entry: "march", NFun: 1, Cutoff: surfaceOffset, Fields: []fieldDesc{c3, b2, a}})
		out = append(out, desc{Entry: "march", NFun: 1, Cutoff: planeCutoff(b, 1), MAttr: 1, Fields: []fieldDesc{c3, b2, a}})
	}
	return out
}

// ---- AddFieldParallel2 -------------------------------------------------------------------------------------------
func add2Plan(thorough bool) []desc {
	var out []desc
	add := func(d desc, race bool) {
		d.Entry, d.Add2, d.RaceSub = "march", true, race
		if d.Cutoff == 0 && !d.NoMarch {
			d.Cutoff = surfaceOffset
		}
		out = append(out, d)
	}
	one := sphereField([3]int{10, 10, 10}, [3]int{30, 30, 30}, 15)
	two := sphereField([3]int{85, 10, 10}, [3]int{115, 40, 40}, 21)
	eight := sphereField([3]int{85, 85, 85}, [3]int{115, 115, 115}, 21)
	neg := sphereField([3]int{-15, 5, 5}, [3]int{15, 35, 35}, 21)
	edge := sphereField([3]int{70, 10, 10}, [3]int{99, 40, 40}, 19) // the box ends on a chunk boundary: an empty job
	tube := fieldDesc{R: 3.5, Tube: 1, C: [3]int{0, 50, 50}, Lo: [3]int{-294, 43, 43}, Hi: [3]int{294, 57, 57}}
	add(desc{NFun: 1, Fields: []fieldDesc{one}}, true)
	add(desc{NFun: 2, Fields: []fieldDesc{two}}, false)
	add(desc{NFun: 2, Fields: []fieldDesc{two}, NoMarch: true, Reps: 2}, true)
	add(desc{NFun: 3, Fields: []fieldDesc{two}, NoMarch: true, Reps: 2}, true)
	add(desc{NFun: 1, Fields: []fieldDesc{eight}, NoMarch: true}, true)
	// 6 chunks x 3 functions = 18 jobs for runtime.NumCPU() workers
	add(desc{NFun: 3, Fields: []fieldDesc{tube}, NoMarch: true}, true)
	add(desc{NFun: 2, Fields: []fieldDesc{neg, edge}, NoMarch: true}, false)
	add(desc{NFun: 2, CPU: 2, Fields: []fieldDesc{sphereField([3]int{42, 5, 5}, [3]int{58, 20, 20}, 15)}, NoMarch: true}, true)
	if thorough {
		two3 := two
		two3.NFun = 3
		add(desc{NFun: 1, Fields: []fieldDesc{one, two3, neg}}, true) // a later field introduces two attributes
		add(desc{NFun: 1, Fields: []fieldDesc{eight}}, false)
		for _, p := range []int{1, 2, 4} {
			add(desc{NFun: 3, Fields: []fieldDesc{two}, NoMarch: true, Reps: 4, Procs: p}, true)
		}
	}
	return out
}

// ---- seam canvases -------------------------------------------------------------------------------------
// The last layer of cubes of a block (local index 99) takes its +x/+y/+z corners from the first samples of the
// neighbouring block.  A small signed-distance sphere (cutoff 0, never-written cells are outside) is placed so that
// its extreme along one axis lies at a chosen position relative to a block border B: within the seam layer
// (B-1, B), a hair above B-1 or below B, just short of the layer or just across the border.  Only the two blocks
// next to the border are allocated.  side = -1: the sphere sits in the upper block and its MINIMUM reaches
// towards the lower block; side = +1: it sits in the lower block and its MAXIMUM reaches up.
const hair = 1.0 / (1 << 20)

var seamIn = []float64{-1 + hair, -0.75, -0.5, -0.25, -hair}     // extreme - B: inside the seam layer
var seamOut = []float64{-1.5, -1.25, -1 - hair, hair, 0.25, 0.5} // just short of the layer / on or across the border

// sphere whose extreme along axis is B+delta; slot selects one of four disjoint places in the other two axes
func seamSphere(axis, side, border int, delta float64, slot int, base [3]int) fieldDesc {
	var f fieldDesc
	e := float64(border) + delta
	var c int
	var r float64
	if side < 0 {
		c = border + 6
		r = float64(c) - e
	} else {
		c = border - 7
		r = e - float64(c)
	}
	o1, o2 := (axis+1)%3, (axis+2)%3
	f.C[axis] = c
	f.C[o1] = base[o1] + 25 + 45*(slot%2)
	f.C[o2] = base[o2] + 25 + 45*(slot/2%2)
	ri := int(r) + 3
	for a := 0; a < 3; a++ {
		f.Lo[a], f.Hi[a] = f.C[a]-ri, f.C[a]+ri
	}
	// make sure the block on the far side of the border is allocated by the field's margin
	if side < 0 && f.Lo[axis]-1 > border-2 {
		f.Lo[axis] = border - 1
	}
	if side > 0 && f.Hi[axis]+1 < border+1 {
		f.Hi[axis] = border
	}
	f.R = r
	return f
}

func seamCanvas(axis, side, border int, deltas []float64, base [3]int, nfun int) desc {
	d := desc{Entry: "march", NFun: nfun, Cutoff: 0, Seam: true}
	for i, dl := range deltas {
		if i >= 4 {
			break
		}
		d.Fields = append(d.Fields, seamSphere(axis, side, border, dl, i, base))
	}
	return d
}

func seamPlan(thorough bool) []desc {
	var out []desc
	borders := []int{0, 100}
	if thorough {
		borders = []int{-100, 0, 100, 200}
	}
	if !thorough {
		// quick: one "tripod" per border: the block below the border in all three axes owns seam triangles of
		// spheres sitting in its three upper neighbours and has no sample of its own inside any of them
		for bi, b := range borders {
			d := desc{Entry: "march", NFun: 1, Cutoff: 0, Seam: true}
			base := [3]int{b - 100, b - 100, b - 100}
			for axis := 0; axis < 3; axis++ {
				d.Fields = append(d.Fields,
					seamSphere(axis, -1, b, seamIn[(axis+bi)%2], 0, base),   // a hair inside the layer / -0.75
					seamSphere(axis, -1, b, seamIn[3+(axis+bi)%2], 1, base)) // -0.25 / a hair below the border
			}
			out = append(out, d)
		}
		for axis := 0; axis < 3; axis++ {
			b := []int{100, -100, 0}[axis]
			if axis%2 == 0 {
				out = append(out, seamCanvas(axis, +1, b, []float64{seamIn[1], seamIn[4], seamOut[3], seamOut[5]}, [3]int{0, 0, 0}, 1))
			} else {
				out = append(out, seamCanvas(axis, -1, b, []float64{seamOut[0], seamOut[2], seamOut[3], seamOut[4]}, [3]int{-100, -100, -100}, 2))
			}
		}
		return out
	}
	for axis := 0; axis < 3; axis++ {
		for bi, b := range borders {
			base := [3]int{0, 0, 0}
			if (axis+bi)%2 == 1 {
				base = [3]int{-100, -100, -100} // the other two axes in block -1
			}
			// lower block owns seam triangles without a sample of its own inside the surface
			out = append(out, seamCanvas(axis, -1, b, []float64{seamIn[0], seamIn[1], seamIn[3], seamIn[4]}, base, 1))
			out = append(out, seamCanvas(axis, -1, b, []float64{seamIn[2]}, base, 2))
			out = append(out, seamCanvas(axis, +1, b, []float64{seamIn[0], seamIn[2], seamIn[4]}, base, 1))
			out = append(out, seamCanvas(axis, -1, b, seamOut[:4], base, 1))
			out = append(out, seamCanvas(axis, +1, b, seamOut[2:], base, 1))
		}
	}
	return out
}

// ---- operation sequences ----------------------------------------------------------------------------------
func addOp(f fieldDesc, par bool) opDesc { return opDesc{Op: "add", Field: &f, Par: par} }
func marchOp(c float64) opDesc           { return opDesc{Op: "march", Cutoff: c} }

// a sphere well inside the block below the border (other axes as the seam slots)
func innerSphere(axis, border int, base [3]int, slot int) fieldDesc {
	f := seamSphere(axis, +1, border, -0.5, slot, base)
	f.C[axis] -= 40 // maximum 40.5 cells below the border
	f.Lo[axis], f.Hi[axis] = f.C[axis]-10, f.C[axis]+10
	return f
}

// clip a field's box so that its canvas bounds begin (side -1) or end (side +1) exactly on the border:
// the edit is then stored entirely on one side of it
func clipAt(f fieldDesc, axis, side, border int) fieldDesc {
	if side < 0 {
		f.Lo[axis] = border + 1 // canvas min = Lo-1 = border
	} else {
		f.Hi[axis] = border - 1 // canvas max = Hi+1 = border
	}
	return f
}

// march, edit only the neighbour block (the surface reaches into the lower block's seam layer), march again with
// the same and with another cutoff, edit across the border, march again
func seamSequence(axis, border int, base [3]int, nfun int, par bool) desc {
	d := desc{Entry: "march", NFun: nfun, Seam: true}
	up := clipAt(seamSphere(axis, -1, border, -0.5, 1, base), axis, -1, border)   // stored in the upper block only
	low := clipAt(seamSphere(axis, +1, border, -0.25, 2, base), axis, +1, border) // stored in the lower block only, ends on the border
	both := seamSphere(axis, -1, border, -1.25, 3, base)                          // crosses the border
	d.Ops = []opDesc{
		addOp(innerSphere(axis, border, base, 0), par), marchOp(0),
		addOp(up, par), marchOp(0), marchOp(-1.5),
		addOp(low, !par), addOp(both, par), marchOp(0),
	}
	return d
}

func randomSequence(r *hx.Rng) desc {
	axis := r.Intn(3)
	border := hx.Pick(r, []int{-100, 0, 100, 200})
	base := [3]int{0, 0, 0}
	if r.Bool() {
		base = [3]int{-100, -100, -100}
	}
	d := desc{Entry: "march", NFun: 1, Seam: true}
	if r.Chance(1, 5) {
		d.NFun = 2
	}
	cut := func() float64 { return hx.Pick(r, []float64{0, 0, 0, -1.5, -0.75}) }
	if r.Bool() {
		d.Ops = append(d.Ops, addOp(innerSphere(axis, border, base, 0), r.Bool()))
	} else {
		d.Ops = append(d.Ops, addOp(seamSphere(axis, hx.Pick(r, []int{-1, 1}), border, hx.Pick(r, seamOut), 0, base), r.Bool()))
	}
	d.Ops = append(d.Ops, marchOp(cut()))
	slot := 1
	for k, n := 0, r.Range(1, 3); k < n; k++ {
		side := hx.Pick(r, []int{-1, -1, 1})
		f := seamSphere(axis, side, border, hx.Pick(r, append(append([]float64{}, seamIn...), seamOut...)), slot%4, base)
		if r.Chance(2, 3) {
			f = clipAt(f, axis, side, border)
		}
		slot++
		op := addOp(f, r.Bool())
		op.Par2 = r.Chance(1, 3)
		d.Ops = append(d.Ops, op, marchOp(cut()))
		if r.Chance(1, 3) {
			d.Ops = append(d.Ops, marchOp(cut()))
		}
	}
	return d
}

// random placement: 1-3 small spheres next to random borders of random axes, extremes drawn from the lists above or
// uniformly in [-1.5, 0.5]
func randomSeam(r *hx.Rng) desc {
	d := desc{Entry: "march", NFun: 1, Cutoff: 0, Seam: true}
	if r.Chance(1, 4) {
		d.NFun = 2
	}
	axis, side := r.Intn(3), hx.Pick(r, []int{-1, -1, 1})
	border := hx.Pick(r, []int{-100, 0, 100, 200})
	base := [3]int{0, 0, 0}
	if r.Bool() {
		base = [3]int{-100, -100, -100}
	}
	n := r.Range(1, 3)
	class := r.Intn(3)
	for i := 0; i < n; i++ {
		var dl float64
		switch class {
		case 0:
			dl = hx.Pick(r, seamIn)
		case 1:
			dl = -1 + float64(r.Range(1, 63))/64 // inside the layer
		default:
			dl = -1.5 + float64(r.Range(0, 128))/64
			if dl == -1 || dl == 0 {
				dl += hair
			}
		}
		d.Fields = append(d.Fields, seamSphere(axis, side, border, dl, i, base))
	}
	return d
}

func randomMarch(r *hx.Rng) desc {
	d := desc{Entry: "march", NFun: r.Range(1, 3), Cutoff: surfaceOffset}
	nf := 1
	if r.Chance(1, 3) {
		nf = 2
	}
	for k := 0; k < nf; k++ {
		var lo, hi [3]int
		span := 0
		for a := 0; a < 3; a++ {
			lo[a] = r.Range(-130, 170)
			ext := r.Range(12, 40)
			if r.Chance(1, 4) && span < 1 {
				ext = r.Range(90, 130) // three chunks along one axis
				span++
			}
			hi[a] = lo[a] + ext
			if r.Chance(1, 6) {
				hi[a] = ((hi[a]+100)/100)*100 - 101 // canvas max lands on a chunk boundary
				if hi[a] <= lo[a]+4 {
					hi[a] = lo[a] + 20
				}
			}
		}
		e := hi[0] - lo[0]
		for a := 1; a < 3; a++ {
			if hi[a]-lo[a] < e {
				e = hi[a] - lo[a]
			}
		}
		if span > 0 {
			d.NFun = 1 // up to 12 blocks of 8 MB per attribute and canvas: keep the footprint bounded
		}
		d.Fields = append(d.Fields, sphereField(lo, hi, r.Range(e/2, e)|1))
	}
	if r.Chance(1, 8) {
		d.Cutoff = -1000
	}
	return d
}

func logUniform(r *hx.Rng, lo, hi float64) int {
	return int(math.Exp(math.Log(lo) + r.Float()*(math.Log(hi)-math.Log(lo))))
}

func poolFor(r *hx.Rng, n, maxS int) int {
	var s int
	switch r.Intn(6) {
	case 0:
		s = r.Range(1, 20)
	case 1:
		s = r.Range(2, 64)
	case 2:
		s = n + r.Range(-1, 1)
	case 3:
		s = 2*n + r.Range(0, 3)
	case 4:
		s = hx.Pick(r, []int{2, 3, 5, 7, 11, 13, 17, 31, 61, 127, 251})
	default:
		s = r.Range(2, 300)
	}
	if s < 1 {
		s = 1
	}
	if s > maxS {
		s = maxS
	}
	return s
}

func buildPlan(tier string, seed uint64, n int) []desc {
	var plan []desc
	thorough := tier == "thorough"
	type variant struct{ procs, gosched, reps int }
	variants := []variant{{0, 0, 1}}
	if thorough {
		variants = nil
		for _, p := range []int{1, 2, 16} {
			for _, g := range []int{0, 1} {
				variants = append(variants, variant{p, g, 12})
			}
		}
	}
	// A. exhaustive: every entry point, every n <= 40, every pool size <= 20
	for vi, v := range variants {
		for _, e := range entries {
			for nn := 0; nn <= 40; nn++ {
				alts := []int{vi}
				if e.Entry == "prims" && e.Topo == 2 && nn == 0 {
					alts = []int{vi, vi + 1} // line strip without indices (count -1) and with one index (count 0)
				}
				for _, alt := range alts {
					sq := instantiate(e, nn, 1, alt)
					sq.Seq = true
					sq.Mesh = meshVariant(e, nn+vi)
					plan = append(plan, sq)
					for s := 1; s <= 20; s++ {
						d := instantiate(e, nn, s, alt)
						d.Procs, d.Gosched, d.Reps = v.procs, v.gosched, v.reps
						d.Mesh = meshVariant(e, nn+s+vi) // every topology / attribute mix meets every entry point, n and s
						d.RaceSub = true
						plan = append(plan, d)
					}
				}
			}
		}
	}
	// B. pool sizes below one: declared panic
	for _, e := range entries {
		for _, s := range []int{0, -1, -7} {
			for _, nn := range []int{0, 5} {
				d := instantiate(e, nn, 2, 0)
				d.S, d.Of, d.Entry = s, e.Entry, "panic"
				plan = append(plan, d)
			}
		}
	}
	// C. the entry points without a pool size (runtime.NumCPU() workers)
	for _, e := range entries {
		for _, nn := range []int{0, 1, 15, 16, 17, 33, 100} {
			d := instantiate(e, nn, runtime.NumCPU(), 1)
			sq := d
			sq.Seq, sq.S = true, 1
			d.Default = true
			d.RaceSub = true
			plan = append(plan, sq, d)
		}
	}
	// C2. several goroutines call the same entry point on the same mesh at once: every caller must see the ideal
	// observation (nothing is shared between calls but the read-only input), race-free under -race
	for _, e := range entries {
		for _, nn := range []int{0, 1, 7, 33, 64} {
			for k, s := range []int{2, 3, runtime.NumCPU()} {
				d := instantiate(e, nn, s, 2)
				d.Conc, d.Mesh, d.RaceSub = 3+k%2, meshVariant(e, nn+k), true
				if k == 2 && nn == 33 {
					d.Default = true
				}
				if thorough {
					d.Reps, d.Gosched = 6, 1
				}
				plan = append(plan, d)
			}
		}
	}
	// C3. retained results: the attribute a Modify call returned is read back only after further calls of the
	// same entry point on other meshes of the same and of other sizes
	for _, e := range entries {
		if e.Entry != "modify" {
			continue
		}
		for _, nn := range []int{1, 5, 40, 100} {
			for k, s := range []int{1, 2, 7, runtime.NumCPU()} {
				d := instantiate(e, nn, s, 3)
				d.Retain, d.Mesh, d.RaceSub = 2, meshVariant(e, nn+k), k%2 == 1
				d.Default = k == 3
				plan = append(plan, d)
			}
		}
	}
	// D. sampled: larger element counts
	r := hx.NewRng(seed)
	for k := 0; k < n; k++ {
		e := hx.Pick(r, entries)
		var d desc
		if r.Chance(3, 5) {
			nn := r.Range(41, 160)
			d = instantiate(e, nn, poolFor(r, nn, 400), k)
			d.RaceSub = k%4 == 0 || thorough
		} else {
			nn := logUniform(r, 200, 2.0e6)
			d = instantiate(e, nn, poolFor(r, nn, 4096), k)
			d.Large = true
			d.RaceSub = (nn < 100000 && k%4 == 1) || (thorough && nn < 400000)
		}
		d.Salt = r.Intn(1000)
		mv, conc, retain := meshVariant(e, r.Intn(60)), 0, 0
		if r.Chance(1, 6) {
			conc = r.Range(2, 4)
		}
		if e.Entry == "modify" && r.Chance(1, 4) {
			retain = r.Range(1, 2)
		}
		if d.N < 50000 {
			// (the extra attributes, callers and calls multiply the memory traffic of a case: keep the largest
			// element counts on the plain mesh)
			d.Mesh, d.Conc, d.Retain = mv, conc, retain
		}
		if thorough {
			d.Procs = hx.Pick(r, []int{0, 1, 2, 16})
			d.Gosched = hx.Pick(r, []int{0, 1, 3})
			if !d.Large {
				d.Reps = 5
			}
		} else if r.Chance(1, 4) {
			d.Gosched = 1
		}
		if !d.Large {
			sq := d
			sq.Seq, sq.S, sq.RaceSub, sq.Reps, sq.Conc, sq.Retain = true, 1, false, 0, 0, 0
			plan = append(plan, sq)
		}
		plan = append(plan, d)
	}
	// E. marching
	for i, d := range fixedMarch() {
		// quick: the 8-block canvas is marched by the normal binary only (18 s under -race); its accumulation is
		// covered under -race by the accumulation-only items below
		d.RaceSub = thorough || i == 1
		plan = append(plan, d)
	}
	// canvases with several attributes, attributes introduced by a later field, marching an attribute other than the
	// default one (MarchOnAttribute / MarchOnAttributeParallel), canvases with 2 and 1/2 cubes per unit
	for i, d := range attrMarch(thorough) {
		d.RaceSub = thorough && i%3 == 0
		plan = append(plan, d)
	}
	// AddFieldParallel2 against AddField: 1-3 Float1 functions, one and many blocks, more jobs than workers, negative
	// chunks, a box ending on a chunk boundary, 2 cubes per unit; normal and -race binary
	for _, d := range add2Plan(thorough) {
		plan = append(plan, d)
	}
	// surfaces whose extremes lie in / next to the seam layer between two blocks
	for _, d := range seamPlan(thorough) {
		d.RaceSub = false
		plan = append(plan, d)
	}
	nrand := 3
	if thorough {
		nrand = 40
	}
	for k := 0; k < nrand; k++ {
		d := randomSeam(r)
		d.RaceSub = thorough && k%8 == 0
		plan = append(plan, d)
	}
	// sequences of operations on one canvas
	for axis := 0; axis < 3; axis++ {
		base := [3]int{0, 0, 0}
		if axis == 1 {
			base = [3]int{-100, -100, -100}
		}
		d := seamSequence(axis, []int{100, 0, -100}[axis], base, 1+axis/2, axis != 1)
		plan = append(plan, d)
		if thorough {
			for _, b := range []int{-100, 0, 100, 200} {
				d := seamSequence(axis, b, base, 1, b%200 == 0)
				d.Procs = []int{1, 2, 4, 0}[(b+100)/100]
				d.RaceSub = b == 100
				plan = append(plan, d)
			}
		}
	}
	nseq := 2
	if thorough {
		nseq = 30
	}
	for k := 0; k < nseq; k++ {
		plan = append(plan, randomSequence(r))
	}
	// more jobs than pool workers.  AddFieldParallel and marchFloat1Parallel start runtime.NumCPU() workers
	// (GOMAXPROCS does not change that): a tube along one axis is ONE field with one job per spanned chunk and
	// attribute, and every spanned block carries surface, so some worker takes a second job / block.
	// (For the mesh entry points the job count IS the pool size: 1..20 exhaustively and up to 4096 sampled,
	// i.e. below, at, above and far above both GOMAXPROCS and NumCPU.)
	ncpu := runtime.NumCPU()
	tube := func(axis, from, chunks int) fieldDesc {
		f := fieldDesc{R: 3.5, Tube: axis + 1}
		for a := 0; a < 3; a++ {
			f.C[a] = 50
			f.Lo[a], f.Hi[a] = 50-7, 50+7
		}
		f.Lo[axis], f.Hi[axis] = from*100+6, (from+chunks)*100-6
		f.C[axis] = (f.Lo[axis] + f.Hi[axis]) / 2
		return f
	}
	many := func(axis, from, chunks, nfun, procs int) desc {
		return desc{Entry: "march", NFun: nfun, Cutoff: 0, Procs: procs, Fields: []fieldDesc{tube(axis, from, chunks)}}
	}
	{
		// > : marched, values compared (few OS threads keep finished block meshes waiting in the result channel)
		d := many(2, -(ncpu+4)/2, ncpu+4, 1, 2)
		plan = append(plan, d)
		// the same under -race, parallel variants only
		d.ParOnly, d.RaceSub, d.Procs = true, true, 0
		plan = append(plan, d)
		// >> : accumulation only, 2 attributes x (NumCPU+1) chunks jobs, both binaries
		d = many(0, -3, ncpu+1, 2, 0)
		d.NoMarch, d.RaceSub = true, true
		plan = append(plan, d)
	}
	if thorough {
		for k, chunks := range []int{ncpu, ncpu + 1, ncpu + 8, 2*ncpu + 8} {
			d := many(k%3, -chunks/2, chunks, 1, []int{1, 2, 4, 0}[k])
			plan = append(plan, d)
			d.ParOnly, d.RaceSub, d.Procs = true, true, 0
			plan = append(plan, d)
		}
		d := many(1, -ncpu, 2*ncpu, 2, 0)
		d.NoMarch, d.RaceSub = true, true
		plan = append(plan, d)
	}
	// accumulation only, repeated on fresh canvases (cheap; the -race binary needs the chunk allocations of
	// several workers to overlap with each other and with the dispatcher): three attributes over two blocks,
	// one attribute over eight and over twelve unallocated blocks
	for _, d := range []desc{
		{Entry: "march", NFun: 3, Cutoff: surfaceOffset, NoMarch: true, Reps: 3, Fields: []fieldDesc{sphereField([3]int{85, 10, 10}, [3]int{115, 40, 40}, 21)}},
		{Entry: "march", NFun: 1, Cutoff: surfaceOffset, NoMarch: true, Reps: 2, Fields: []fieldDesc{sphereField([3]int{85, 85, 85}, [3]int{115, 115, 115}, 21)}},
		{Entry: "march", NFun: 1, Cutoff: surfaceOffset, NoMarch: true, Reps: 2, Fields: []fieldDesc{sphereField([3]int{-20, 90, 90}, [3]int{110, 110, 110}, 21)}},
	} {
		d.RaceSub = true
		plan = append(plan, d)
	}
	if thorough {
		for k := 0; k < 24; k++ {
			d := randomMarch(r)
			d.Procs = hx.Pick(r, []int{0, 1, 2, 16})
			d.RaceSub = k%3 == 0
			plan = append(plan, d)
		}
		for _, p := range []int{1, 2} {
			for i, d := range fixedMarch() {
				if i == 1 || i == 2 {
					d.Procs, d.Reps = p, 2
					d.RaceSub = true
					plan = append(plan, d)
				}
			}
		}
	}
	return plan
}

// a "panic" item exercises the entry kind named in Of
func panicEntry(d desc) desc {
	e := d
	e.Entry = d.Of
	return e
}

// ---------------------------------------------------------------- worker mode
var (
	fRaceBin = flag.String("racebin", "", "the same harness built with -race")
	fWorker  = flag.Bool("worker", false, "internal: execute plan items")
	fWRace   = flag.Bool("wrace", false, "internal: worker runs the race subset and only reports verdicts")
	fWFrom   = flag.Int("wfrom", 0, "internal: first plan index")
	fWTo     = flag.Int("wto", 0, "internal: end of the plan slice (exclusive; 0 = whole plan)")
	fWRes    = flag.String("wres", "", "internal: result file (json lines)")
	fOne     = flag.String("one", "", "internal: execute this single description (json)")
)

func workerMain(run *hx.Run) {
	var plan []desc
	if *fOne != "" {
		var d desc
		if err := json.Unmarshal([]byte(*fOne), &d); err != nil {
			fmt.Fprintln(os.Stderr, "bad -one:", err)
			os.Exit(2)
		}
		if *fWRace {
			d.RaceSub = true
		}
		plan = []desc{d}
	} else {
		plan = buildPlan(run.Tier, run.Seed, run.N)
	}
	f, err := os.OpenFile(*fWRes, os.O_CREATE|os.O_APPEND|os.O_WRONLY, 0o644)
	if err != nil {
		fmt.Fprintln(os.Stderr, err)
		os.Exit(2)
	}
	w := bufio.NewWriterSize(f, 1<<20)
	enc := json.NewEncoder(w)
	end := len(plan)
	if *fWTo > 0 && *fWTo < end {
		end = *fWTo
	}
	for i := *fWFrom; i < end; i++ {
		d := plan[i]
		if *fWRace && !d.RaceSub {
			continue
		}
		if d.ParOnly && !*fWRace && *fOne == "" {
			continue // executed by the -race worker only
		}
		if d.Entry == "march" || i%64 == 0 {
			w.Flush() // bound what a crash can lose; the marker below names the case that was running
		}
		fmt.Fprintf(os.Stderr, "@@BEGIN %d\n", i)
		if d.Entry == "panic" {
			e := panicEntry(d)
			if *fWRace {
				fmt.Fprintf(os.Stderr, "@@END %d\n", i)
				continue
			}
			res := wresult{Idx: i, Cases: []wcase{panicCase(e)}, Counts: map[string]int{"executions": 1}}
			enc.Encode(res)
		} else if *fWRace {
			differ := executeRace(d)
			enc.Encode(wresult{Idx: i, Differ: differ})
		} else {
			res := execute(d)
			res.Idx = i
			enc.Encode(res)
		}
		fmt.Fprintf(os.Stderr, "@@END %d\n", i)
	}
	w.Flush()
	f.Close()
	fmt.Fprintln(os.Stderr, "@@DONE")
}

// ---------------------------------------------------------------- parent
type childReport struct {
	results map[int]wresult
	crashes map[int]string // plan index -> what the process printed when it died
	races   map[int]string // plan index -> first race report
	allrace map[int][]string
	nraces  map[int]int
	ran     int
	failed  string // the child could not be driven to the end
}

var (
	sliceMu    sync.Mutex
	sliceTimes []string
)

var reMarker = regexp.MustCompile(`^@@(BEGIN|END|DONE)\s*(\d*)`)

func driveChild(bin string, race bool, run *hx.Run, one string, planLen int, deadline time.Duration) childReport {
	return driveSlice(bin, race, run, one, 0, planLen, deadline)
}

// drive a child over the plan slice [from0, planLen)
func driveSlice(bin string, race bool, run *hx.Run, one string, from0, planLen int, deadline time.Duration) childReport {
	rep := childReport{results: map[int]wresult{}, crashes: map[int]string{}, races: map[int]string{}, nraces: map[int]int{}, allrace: map[int][]string{}}
	tag := fmt.Sprintf("w%d", from0)
	if race {
		tag = fmt.Sprintf("wrace%d", from0)
	}
	resFile := filepath.Join(run.OutDir, tag+"-results.jsonl")
	os.Remove(resFile)
	from := from0
	for attempt := 0; attempt < 8; attempt++ {
		args := []string{"-worker", "-wfrom", strconv.Itoa(from), "-wto", strconv.Itoa(planLen), "-wres", resFile, "-tier", run.Tier,
			"-seed", strconv.FormatUint(run.Seed, 10), "-n", strconv.Itoa(run.N), "-out", run.OutDir}
		if race {
			args = append(args, "-wrace")
		}
		if one != "" {
			args = append(args, "-one", one)
		}
		ctx, cancel := context.WithTimeout(context.Background(), deadline)
		cmd := exec.CommandContext(ctx, bin, args...)
		cmd.Env = append(os.Environ(), "GORACE=halt_on_error=0 history_size=2", "GOTRACEBACK=single")
		var stderr bytes.Buffer
		cmd.Stderr = &stderr
		err := cmd.Run()
		timedOut := ctx.Err() != nil
		cancel()
		// parse markers and race reports
		cur, lastBegun, done := -1, -1, false
		var block []string
		inBlock := false
		var tail []string
		for _, line := range strings.Split(stderr.String(), "\n") {
			if m := reMarker.FindStringSubmatch(line); m != nil {
				k, _ := strconv.Atoi(m[2])
				switch m[1] {
				case "BEGIN":
					cur, lastBegun = k, k
					tail = tail[:0]
				case "END":
					cur = -1
					rep.ran++
				case "DONE":
					done = true
				}
				continue
			}
			if len(tail) < 60 {
				tail = append(tail, line)
			}
			if strings.HasPrefix(line, "==================") {
				if inBlock {
					at := cur
					if at < 0 {
						at = lastBegun
					}
					if strings.Contains(strings.Join(block, "\n"), "DATA RACE") {
						rep.nraces[at]++
						if len(rep.allrace[at]) < 16 {
							rep.allrace[at] = append(rep.allrace[at], strings.Join(block, "\n"))
						}
						if _, ok := rep.races[at]; !ok {
							if len(block) > 40 {
								block = block[:40]
							}
							rep.races[at] = strings.Join(block, "\n")
						}
					}
					block, inBlock = nil, false
				} else {
					inBlock = true
				}
				continue
			}
			if inBlock {
				block = append(block, line)
			}
		}
		if done {
			break
		}
		// the child died: attribute to the case that was running
		if lastBegun < 0 || (one == "" && lastBegun < from) {
			rep.failed = fmt.Sprintf("worker exited without running a case: %v\n%s", err, lastLines(stderr.String(), 30))
			break
		}
		msg := strings.Join(tail, "\n")
		if timedOut {
			msg = fmt.Sprintf("no result after %s (deadlock or livelock)\n", deadline) + msg
		}
		rep.crashes[lastBegun] = msg
		from = lastBegun + 1
		if one != "" || from >= planLen {
			break
		}
		if attempt == 7 {
			rep.failed = "worker crashed on more than 8 cases; remaining cases not executed"
		}
	}
	// results
	if f, err := os.Open(resFile); err == nil {
		sc := bufio.NewScanner(f)
		sc.Buffer(make([]byte, 1<<20), 1<<28)
		for sc.Scan() {
			var r wresult
			if json.Unmarshal(sc.Bytes(), &r) == nil {
				rep.results[r.Idx] = r
			}
		}
		f.Close()
	}
	return rep
}

func lastLines(s string, n int) string {
	ls := strings.Split(strings.TrimRight(s, "\n"), "\n")
	if len(ls) > n {
		ls = ls[len(ls)-n:]
	}
	return strings.Join(ls, "\n")
}

func firstLines(s string, n int) string {
	ls := strings.Split(s, "\n")
	if len(ls) > n {
		ls = ls[:n]
	}
	return strings.Join(ls, "\n")
}

func main() {
	run := hx.ParseFlags("C10", "Check.C10")
	if *fWorker {
		workerMain(run)
		return
	}
	self, _ := os.Executable()
	// generous: a kill is attributed to the running case, so it must only happen on a real hang
	deadline := 25 * time.Minute
	if run.Tier == "thorough" {
		deadline = 50 * time.Minute
	}

	// replay / corpus inputs: single descriptions
	for _, in := range run.Inputs() {
		var d desc
		if err := json.Unmarshal(in.Raw, &d); err != nil {
			fmt.Fprintln(os.Stderr, "bad input", in.From, err)
			continue
		}
		one, _ := json.Marshal(d)
		if d.Race {
			if *fRaceBin == "" {
				run.Add(hx.Case{Kind: "race", Desc: d, Coq: "CRace 0 0", Key: d.key(), GoFail: "no -race binary available for a race replay"})
				continue
			}
			rep := driveChild(*fRaceBin, true, run, string(one), 1, deadline)
			addRace(run, d, 0, rep)
			run.Add(hx.Case{Kind: "race-summary", Desc: d, Coq: fmt.Sprintf("CRace %d 0", rep.ran), Key: "race-summary", GoFail: rep.failed})
		} else {
			rep := driveChild(self, false, run, string(one), 1, deadline)
			addPlain(run, d, 0, rep)
			if rep.failed != "" {
				run.Add(hx.Case{Kind: "worker", Desc: d, Coq: "CRace 0 0", Key: "worker-failed", GoFail: rep.failed})
			}
		}
	}
	if run.Replay != "" {
		run.Finish()
		return
	}

	plan := buildPlan(run.Tier, run.Seed, run.N)
	// The plan is cut into slices that run side by side in separate children: the mesh cases, and the (slow,
	// partly single-threaded) marching cases in `parts` pieces, for the normal and for the -race binary.
	split := len(plan)
	for i, d := range plan {
		if d.Entry == "march" {
			split = i
			break
		}
	}
	weight := func(d desc) int { // rough cost of a marching item in block marches
		switch {
		case d.NoMarch:
			return 1 + d.Reps
		case len(d.Ops) > 0:
			w := 0
			for _, op := range d.Ops {
				if op.Op == "march" {
					w += 2
				}
			}
			return w
		case len(d.Fields) > 0 && d.Fields[0].Tube > 0:
			if d.ParOnly {
				return 8
			}
			return 30 // sequential march of NumCPU+4 blocks plus the parallel one on two OS threads
		case d.Seam:
			if len(d.Fields) >= 6 {
				return 4
			}
			return 2
		case len(d.Fields) == 1 && d.Fields[0].Hi[0]-d.Fields[0].Lo[0] == 30 && d.Fields[0].Lo[1] == 85:
			return 9 // the 8-block canvas
		}
		return 4
	}
	cuts := func(race bool, parts int) []int { // boundaries that spread the marching items evenly by estimated cost
		total := 0
		for i := split; i < len(plan); i++ {
			if (!race || plan[i].RaceSub) && (race || !plan[i].ParOnly) {
				total += weight(plan[i])
			}
		}
		out := []int{0, split}
		cur, p := 0, 1
		for i := split; i < len(plan); i++ {
			if (!race || plan[i].RaceSub) && (race || !plan[i].ParOnly) {
				w := weight(plan[i])
				if race {
					w *= 2
				}
				if cur > 0 && p < parts && (cur+w)*parts > total*23/20*map[bool]int{false: 1, true: 2}[race] && i > out[len(out)-1] {
					out = append(out, i)
					p++
					cur = 0
				}
				cur += w
			}
		}
		return append(out, len(plan))
	}
	merge := func(dst *childReport, src childReport) {
		for k, v := range src.results {
			dst.results[k] = v
		}
		for k, v := range src.crashes {
			dst.crashes[k] = v
		}
		for k, v := range src.races {
			dst.races[k] = v
		}
		for k, v := range src.nraces {
			dst.nraces[k] += v
		}
		for k, v := range src.allrace {
			dst.allrace[k] = v
		}
		dst.ran += src.ran
		if dst.failed == "" {
			dst.failed = src.failed
		}
	}
	t0 := time.Now()
	runSlices := func(bin string, race bool, parts int) childReport {
		c := cuts(race, parts)
		ch := make(chan childReport, len(c))
		for k := 0; k+1 < len(c); k++ {
			go func(from, to int) {
				r := driveSlice(bin, race, run, "", from, to, deadline)
				sliceMu.Lock()
				sliceTimes = append(sliceTimes, fmt.Sprintf("%s[%d,%d)=%.1fs", map[bool]string{false: "n", true: "race"}[race], from, to, time.Since(t0).Seconds()))
				sliceMu.Unlock()
				ch <- r
			}(c[k], c[k+1])
		}
		total := childReport{results: map[int]wresult{}, crashes: map[int]string{}, races: map[int]string{}, nraces: map[int]int{}, allrace: map[int][]string{}}
		for k := 0; k+1 < len(c); k++ {
			merge(&total, <-ch)
		}
		return total
	}
	raceCh := make(chan childReport, 1)
	if *fRaceBin != "" {
		go func() { raceCh <- runSlices(*fRaceBin, true, 3) }()
	}
	rep := runSlices(self, false, 5)
	run.Extra["wall_s_normal_workers"] = math.Round(time.Since(t0).Seconds()*10) / 10
	for i, d := range plan {
		addPlain(run, d, i, rep)
	}
	if rep.failed != "" {
		run.Add(hx.Case{Kind: "worker", Desc: map[string]string{"problem": rep.failed}, Coq: "CRace 0 0", Key: "worker-failed", GoFail: rep.failed})
	}
	nsub := 0
	for _, d := range plan {
		if d.RaceSub && d.Entry != "panic" {
			nsub++
		}
	}
	if *fRaceBin != "" {
		rrep := <-raceCh
		run.Extra["wall_s_all_workers"] = math.Round(time.Since(t0).Seconds()*10) / 10
		total := 0
		for i, d := range plan {
			if d.RaceSub {
				total += addRace(run, d, i, rrep)
			}
		}
		sum := hx.Case{Kind: "race-summary", Desc: map[string]interface{}{"executed_under_race": rrep.ran, "race_subset": nsub, "reports": total},
			Coq: fmt.Sprintf("CRace %d 0", rrep.ran), Key: "race-summary", Nontriv: rrep.ran > 0}
		if rrep.failed != "" {
			sum.GoFail = "-race worker: " + rrep.failed
		} else if rrep.ran < nsub-len(rrep.crashes) {
			sum.GoFail = fmt.Sprintf("-race worker executed %d of %d cases", rrep.ran, nsub)
		}
		run.Add(sum)
		run.Extra["race_cases_executed"] = rrep.ran
		run.Extra["race_reports"] = total
	} else {
		run.Extra["race_cases_executed"] = 0
		run.Extra["race_note"] = "no -racebin given: race detection not run"
	}
	run.Extra["slice_done_at"] = sliceTimes
	run.Extra["plan_items"] = len(plan)
	run.Extra["gomaxprocs_default"] = runtime.NumCPU()
	run.Finish()
}

func kindOf(d desc) string {
	if d.Large {
		return "large"
	}
	return d.Entry
}

func addPlain(run *hx.Run, d desc, i int, rep childReport) {
	if d.ParOnly {
		if _, ok := rep.results[i]; !ok {
			return // a -race-only item
		}
	}
	if msg, ok := rep.crashes[i]; ok {
		dd := d
		run.Add(hx.Case{Kind: kindOf(d), Desc: dd, Coq: "CRace 1 0", Key: d.key(), Nontriv: true,
			GoFail: "the process died while executing this case (panic in a worker goroutine of the code under test?):\n" + firstLines(msg, 25)})
		run.Count("crash")
		return
	}
	r, ok := rep.results[i]
	if !ok {
		// never lose a case silently: a plan item without result and without crash record is a harness failure
		run.Add(hx.Case{Kind: kindOf(d), Desc: d, Coq: "CRace 0 0", Key: d.key(),
			GoFail: "harness: no result was recorded for this case (worker lost its output?) " + rep.failed})
		run.Count("missing-result")
		return
	}
	for k, v := range r.Counts {
		run.Dist[k] += v
	}
	for _, w := range r.Cases {
		c := hx.Case{Kind: w.Kind, Desc: d, Coq: w.Coq, Nontriv: w.Nontriv, Key: d.key(), GoFail: w.GoFail, FailKey: w.FailKey}
		run.Add(c)
	}
	if len(r.Cases) > 1 {
		run.Count("schedule-dependent-observations")
	}
	if d.Entry != "march" && d.Entry != "panic" && !d.Seq {
		s := effectiveS(d)
		switch {
		case d.N < s:
			run.Count("shape:n<s")
		case s > 0 && d.N%s != 0:
			run.Count("shape:s-does-not-divide-n")
		default:
			run.Count("shape:s-divides-n")
		}
	}
}

// race verdicts for plan item i: a case only when there is something to report
func addRace(run *hx.Run, d desc, i int, rep childReport) int {
	dd := d
	dd.Race = true
	if msg, ok := rep.crashes[i]; ok {
		run.Add(hx.Case{Kind: "race", Desc: dd, Coq: "CRace 1 0", Key: "race:" + d.key(), Nontriv: true,
			GoFail: "the -race process died while executing this case:\n" + firstLines(msg, 25)})
		return 0
	}
	n := rep.nraces[i]
	if n > 0 {
		dr := dd
		dr.Report = firstLines(rep.races[i], 30)
		run.Add(hx.Case{Kind: "race", Desc: dr, Coq: fmt.Sprintf("CRace 1 %d", n), Key: "race:" + d.key(), Nontriv: true,
			FailKey: raceFailKey(d, rep.allrace[i])})
		run.Count("race-report")
	}
	if r, ok := rep.results[i]; ok && r.Differ != "" {
		run.Add(hx.Case{Kind: "race", Desc: dd, Coq: "CRace 1 0", Key: "race:" + d.key(), Nontriv: true, GoFail: r.Differ})
	}
	return n
}

// Structural key of a known race: set only when EVERY report of the case has the known shape.
// getSection (value receiver) copies the canvas in the dispatching goroutine of AddFieldParallel while pool
// workers append to float1Data in chunkIndex_atomic; needs >= 2 Float1 functions
// (fixes/C10-addfieldparallel-getsection-race).
func raceFailKey(d desc, reports []string) string {
	if d.Entry != "march" || d.NFun < 2 || len(reports) == 0 {
		return ""
	}
	for _, r := range reports {
		parts := strings.SplitN(r, "\n\n", 3)
		if len(parts) < 2 {
			return ""
		}
		a, b := parts[0], parts[1]
		if strings.Contains(b, "chunkIndex_atomic") {
			a, b = b, a
		}
		// a: the append under the mutex; b: the copy made by the dispatcher (getSection may be inlined)
		if !strings.Contains(a, "chunkIndex_atomic") || !strings.Contains(b, "main goroutine") ||
			!strings.Contains(b, ".AddFieldParallel()") || strings.Contains(b, "addFloat1Range") {
			return ""
		}
	}
	return "marching:addfieldparallel-getsection-copies-canvas"
}
