package main

// marching canvas: AddField vs AddFieldParallel (chunk tables read back through reflection) and
// March vs MarchParallel (triangles as sorted weld-cell key triples).

import (
	"fmt"
	"math"
	"os"
	"reflect"
	"sort"
	"strings"
	"unsafe"

	"verif/harness/hx"

	"github.com/EliCDavis/polyform/math/geometry"
	"github.com/EliCDavis/polyform/math/sample"
	"github.com/EliCDavis/polyform/modeling"
	"github.com/EliCDavis/polyform/modeling/marching"
	"github.com/EliCDavis/vector/vector3"
)

// one field: integer domain box [Lo, Hi] (cubesPerUnit = 1), sphere of radius R (or R2/2) around C; the field
// value is |p-c| - r + Off.  Off = 7.25 with cutoff 7.25 puts the never-written cells (0) INSIDE the surface,
// Off = 0 with cutoff 0 puts them outside (the usual signed-distance set-up).
type fieldDesc struct {
	Lo  [3]int  `json:"lo"`
	Hi  [3]int  `json:"hi"`
	C   [3]int  `json:"c"`
	R2  int     `json:"r2,omitempty"`
	R   float64 `json:"r,omitempty"`
	Off float64 `json:"off"`
	// Tube = 1, 2, 3: instead of a sphere, an (infinite) cylinder of radius r along the x, y, z axis through C,
	// cut off by the domain box: one field whose surface runs through every block it spans
	Tube int `json:"tube,omitempty"`
	// NFun > 0: this field carries the attributes 0 .. NFun-1 instead of the case's nfun (a later field may
	// introduce an attribute the canvas did not hold before)
	NFun int `json:"nfun,omitempty"`
}

func (f fieldDesc) nfun(def int) int {
	if f.NFun > 0 {
		return f.NFun
	}
	return def
}

const surfaceOffset = 7.25 // field value on the sphere; |p-c| = r - 7.25 has no solution on integer p, so no cell is 0

func attrOf(k int) string {
	if k == 0 {
		return modeling.PositionAttribute
	}
	return fmt.Sprintf("a%d", k)
}

func (f fieldDesc) field(nfun int) marching.Field {
	nfun = f.nfun(nfun)
	lo := vector3.New(float64(f.Lo[0]), float64(f.Lo[1]), float64(f.Lo[2]))
	hi := vector3.New(float64(f.Hi[0]), float64(f.Hi[1]), float64(f.Hi[2]))
	c := vector3.New(float64(f.C[0]), float64(f.C[1]), float64(f.C[2]))
	r := float64(f.R2) / 2
	if f.R != 0 {
		r = f.R
	}
	off := f.Off
	fns := map[string]sample.Vec3ToFloat{}
	for k := 0; k < nfun; k++ {
		if k == 0 {
			if f.Tube > 0 {
				ax := f.Tube - 1
				fns[attrOf(0)] = func(p vector3.Float64) float64 {
					d := p.Sub(c)
					switch ax {
					case 0:
						d = d.SetX(0)
					case 1:
						d = d.SetY(0)
					default:
						d = d.SetZ(0)
					}
					return d.Length() - r + off
				}
			} else {
				fns[attrOf(0)] = func(p vector3.Float64) float64 { return p.Distance(c) - r + off }
			}
		} else {
			kk := float64(k)
			fns[attrOf(k)] = func(p vector3.Float64) float64 { return p.X() + 2*p.Y() + 3*p.Z() + kk + 0.5 }
		}
	}
	return marching.Field{
		Domain:          geometry.NewAABB(lo.Add(hi).Scale(0.5), hi.Sub(lo)),
		Float1Functions: fns,
	}
}

// fieldBounds of canvas.go for an integer domain and cpu cubes per unit (1, or a power of two: the products are exact)
func (f fieldDesc) box(cpu float64) (mn, mx [3]int) {
	for k := 0; k < 3; k++ {
		mn[k] = int(math.Floor(float64(f.Lo[k])*cpu)) - 1
		mx[k] = int(math.Ceil(float64(f.Hi[k])*cpu)) + 1
	}
	return
}

// number of attributes of the canvas: the largest function count of a field
func (d desc) maxNFun() int {
	n := d.NFun
	for _, f := range d.Fields {
		if f.NFun > n {
			n = f.NFun
		}
	}
	for _, op := range d.Ops {
		if op.Field != nil && op.Field.NFun > n {
			n = op.Field.NFun
		}
	}
	return n
}

func (d desc) cpu() float64 {
	if d.CPU > 0 {
		return d.CPU
	}
	return 1
}

type chunkRow struct {
	attr    int
	pos     [3]int
	nonzero int64
	data    []float64
}

// the canvas' chunk table: (attribute, chunk position) -> cell array, sorted by attribute, x, y, z
func readCanvas(c *marching.MarchingCanvas, nattr int) []chunkRow {
	v := reflect.ValueOf(c).Elem()
	sections := v.FieldByName("sections")
	f1 := v.FieldByName("float1Data")
	var rows []chunkRow
	it := sections.MapRange()
	for it.Next() {
		name := it.Key().String()
		a := -1
		for k := 0; k < nattr+1; k++ {
			if attrOf(k) == name {
				a = k
			}
		}
		if a < 0 {
			a = 1000
		}
		posmap := it.Value().Elem().FieldByName("positions")
		pit := posmap.MapRange()
		for pit.Next() {
			k := pit.Key()
			idx := int(pit.Value().Int())
			row := chunkRow{attr: a, pos: [3]int{int(k.Field(0).Int()), int(k.Field(1).Int()), int(k.Field(2).Int())}}
			if idx >= 0 && idx < f1.Len() {
				ch := f1.Index(idx)
				if ch.Len() > 0 {
					row.data = unsafe.Slice((*float64)(ch.UnsafePointer()), ch.Len())
				}
			}
			for _, x := range row.data {
				if x != 0 {
					row.nonzero++
				}
			}
			rows = append(rows, row)
		}
	}
	sort.Slice(rows, func(i, j int) bool {
		a, b := rows[i], rows[j]
		if a.attr != b.attr {
			return a.attr < b.attr
		}
		for k := 0; k < 3; k++ {
			if a.pos[k] != b.pos[k] {
				return a.pos[k] < b.pos[k]
			}
		}
		return false
	})
	return rows
}

func rowsCoq(rows []chunkRow) string {
	items := make([]string, len(rows))
	for i, r := range rows {
		items[i] = fmt.Sprintf("(%d%%nat,(%s,%s,%s),%s)", r.attr, hx.CoqZ(int64(r.pos[0])), hx.CoqZ(int64(r.pos[1])), hx.CoqZ(int64(r.pos[2])), hx.CoqZ(r.nonzero))
	}
	return "[" + strings.Join(items, ";") + "]"
}

func canvasEqual(a, b []chunkRow) bool {
	if len(a) != len(b) {
		return false
	}
	for i := range a {
		if a[i].attr != b[i].attr || a[i].pos != b[i].pos || len(a[i].data) != len(b[i].data) {
			return false
		}
		for k, x := range a[i].data {
			if math.Float64bits(x) != math.Float64bits(b[i].data[k]) {
				return false
			}
		}
	}
	return true
}

type triKey [9]int

// triangles of a marched mesh as sorted triples of weld-cell keys (the rounding WeldByFloat3Attribute uses)
func triKeys(m modeling.Mesh, attr string, cpu float64) []triKey {
	if !m.HasFloat3Attribute(attr) {
		return nil
	}
	pos := m.Float3Attribute(attr)
	idx := m.Indices()
	var out []triKey
	for t := 0; t+2 < idx.Len(); t += 3 {
		var k triKey
		for c := 0; c < 3; c++ {
			// weldDecimalPlaces of canvas.go; the weld happens in cell units: scale back (cpu is a power of two, exact)
			vi := modeling.Vector3ToInt(pos.At(idx.At(t+c)).Scale(cpu), 4)
			k[3*c], k[3*c+1], k[3*c+2] = vi.X, vi.Y, vi.Z
		}
		out = append(out, k)
	}
	sort.Slice(out, func(i, j int) bool {
		for c := 0; c < 9; c++ {
			if out[i][c] != out[j][c] {
				return out[i][c] < out[j][c]
			}
		}
		return false
	})
	return out
}

type marchOutcome struct {
	coq       string
	tris      int
	blocks    int
	canvasEq  bool
	marchEq   bool
	seqPanic  string
	parPanic  string
	detail    string
	seqRows   int
	keysEqual bool
}

func marchMesh(f func() modeling.Mesh) (m modeling.Mesh, panicked string) {
	defer func() {
		if r := recover(); r != nil {
			panicked = fmt.Sprint(r)
		}
	}()
	return f(), ""
}

func runMarch(d desc) marchOutcome {
	if d.ParOnly {
		return runMarchParOnly(d)
	}
	seqC := marching.NewMarchingCanvas(d.cpu())
	parC := marching.NewMarchingCanvas(d.cpu())
	var addPanicS, addPanicP string
	for _, f := range d.Fields {
		func() {
			defer func() {
				if r := recover(); r != nil {
					addPanicS = fmt.Sprint(r)
				}
			}()
			seqC.AddField(f.field(d.NFun))
		}()
		func() {
			defer func() {
				if r := recover(); r != nil {
					addPanicP = fmt.Sprint(r)
				}
			}()
			if d.Add2 {
				parC.AddFieldParallel2(f.field(d.NFun))
			} else {
				parC.AddFieldParallel(f.field(d.NFun))
			}
		}()
	}
	sr, pr := readCanvas(seqC, d.maxNFun()), readCanvas(parC, d.maxNFun())
	var o marchOutcome
	o.canvasEq = canvasEqual(sr, pr) && addPanicS == addPanicP
	o.seqRows = len(sr)
	for _, r := range sr {
		if r.attr == d.MAttr {
			o.blocks++
		}
	}
	if d.NoMarch {
		o.marchEq = true
		o.coq = marchCoq(d, sr, pr, o)
		return o
	}
	sm, sp := marchMesh(func() modeling.Mesh { return marchSeq(seqC, d.MAttr, d.Cutoff) })
	pm, pp := marchMesh(func() modeling.Mesh { return marchPar(parC, d.MAttr, d.Cutoff) })
	o.seqPanic, o.parPanic = sp, pp
	o.marchEq = (sp == "") == (pp == "")
	if os.Getenv("C10_DEBUG") != "" {
		fmt.Fprintf(os.Stderr, "march: sequential panic %q, parallel panic %q\n", sp, pp)
	}
	if sp == "" && pp == "" {
		sk, pk := triKeys(sm, attrOf(d.MAttr), d.cpu()), triKeys(pm, attrOf(d.MAttr), d.cpu())
		o.tris = len(sk)
		if len(sk) != len(pk) {
			o.marchEq = false
			o.detail = fmt.Sprintf("triangle count: sequential %d, parallel %d", len(sk), len(pk))
		} else {
			for i := range sk {
				if sk[i] != pk[i] {
					o.marchEq = false
					o.detail = fmt.Sprintf("triangle multiset differs at sorted position %d", i)
					break
				}
			}
		}
	} else if !o.marchEq {
		o.detail = fmt.Sprintf("sequential panic %q, parallel panic %q", sp, pp)
	}
	o.coq = marchCoq(d, sr, pr, o)
	return o
}

// March / MarchParallel for the default attribute, MarchOnAttribute[Parallel] for the others
func marchSeq(c *marching.MarchingCanvas, attr int, cutoff float64) modeling.Mesh {
	if attr == 0 {
		return c.March(cutoff)
	}
	return c.MarchOnAttribute(attrOf(attr), cutoff)
}
func marchPar(c *marching.MarchingCanvas, attr int, cutoff float64) modeling.Mesh {
	if attr == 0 {
		return c.MarchParallel(cutoff)
	}
	return c.MarchOnAttributeParallel(attrOf(attr), cutoff)
}

func marchCoq(d desc, sr, pr []chunkRow, o marchOutcome) string {
	boxes := make([]string, len(d.Fields))
	for i, f := range d.Fields {
		mn, mx := f.box(d.cpu())
		boxes[i] = fmt.Sprintf("(%d%%nat,((%s,%s,%s),(%s,%s,%s)))", f.nfun(d.NFun), hx.CoqZ(int64(mn[0])), hx.CoqZ(int64(mn[1])), hx.CoqZ(int64(mn[2])),
			hx.CoqZ(int64(mx[0])), hx.CoqZ(int64(mx[1])), hx.CoqZ(int64(mx[2])))
	}
	return fmt.Sprintf("CMarch [%s] %d%%nat %s %s %s %s", strings.Join(boxes, ";"), d.NFun, rowsCoq(sr), rowsCoq(pr),
		hx.CoqBool(o.canvasEq), hx.CoqBool(o.marchEq))
}

// only the parallel variants (for the -race binary, where a sequential march of 20 blocks costs ~40 s): the
// verdict comes from the race detector
func runMarchParOnly(d desc) marchOutcome {
	parC := marching.NewMarchingCanvas(d.cpu())
	for _, f := range d.Fields {
		if d.Add2 {
			parC.AddFieldParallel2(f.field(d.NFun))
		} else {
			parC.AddFieldParallel(f.field(d.NFun))
		}
	}
	var o marchOutcome
	o.canvasEq = true
	a, ap := marchMesh(func() modeling.Mesh { return marchPar(parC, d.MAttr, d.Cutoff) })
	o.marchEq = true
	if ap == "" {
		o.tris = len(triKeys(a, attrOf(d.MAttr), d.cpu()))
	}
	pr := readCanvas(parC, d.maxNFun())
	o.coq = marchCoq(d, pr, pr, o)
	return o
}

// ---- operation sequences on ONE canvas ------------------------------------------------------------------
// (AddField | AddFieldParallel)*, (MarchParallel)(cutoff), more fields, march again ... After EVERY march the
// canvas under test (parallel variants) is compared with a FRESH canvas built by sequential AddField of the same
// fields in the same order and marched sequentially: chunk tables bitwise, triangle multisets.
type opDesc struct {
	Op     string     `json:"op"` // "add" | "march"
	Field  *fieldDesc `json:"field,omitempty"`
	Par    bool       `json:"par,omitempty"`  // add: AddFieldParallel on the canvas under test (else AddField)
	Par2   bool       `json:"par2,omitempty"` // add: AddFieldParallel2 on the canvas under test
	Cutoff float64    `json:"cutoff"`
}

func runSequence(d desc) []marchOutcome {
	test := marching.NewMarchingCanvas(d.cpu())
	var added []fieldDesc
	var outs []marchOutcome
	// meshes returned by MarchParallel, kept until the end of the sequence: a retained result must not change
	type kept struct {
		mesh modeling.Mesh
		keys []triKey
		out  int
	}
	var retained []kept
	step := 0
	for _, op := range d.Ops {
		switch op.Op {
		case "add":
			if op.Field == nil {
				continue
			}
			f := *op.Field
			added = append(added, f)
			func() {
				defer func() { recover() }()
				if op.Par2 {
					test.AddFieldParallel2(f.field(d.NFun))
				} else if op.Par {
					test.AddFieldParallel(f.field(d.NFun))
				} else {
					test.AddField(f.field(d.NFun))
				}
			}()
		case "march":
			fresh := marching.NewMarchingCanvas(d.cpu())
			for _, f := range added {
				func() {
					defer func() { recover() }()
					fresh.AddField(f.field(d.NFun))
				}()
			}
			sr, pr := readCanvas(fresh, d.maxNFun()), readCanvas(test, d.maxNFun())
			var o marchOutcome
			o.canvasEq = canvasEqual(sr, pr)
			for _, r := range sr {
				if r.attr == 0 {
					o.blocks++
				}
			}
			sm, sp := marchMesh(func() modeling.Mesh { return fresh.March(op.Cutoff) })
			pm, pp := marchMesh(func() modeling.Mesh { return test.MarchParallel(op.Cutoff) })
			o.seqPanic, o.parPanic = sp, pp
			o.marchEq = (sp == "") == (pp == "")
			if sp == "" && pp == "" {
				sk, pk := triKeys(sm, attrOf(0), d.cpu()), triKeys(pm, attrOf(0), d.cpu())
				retained = append(retained, kept{mesh: pm, keys: pk, out: len(outs)})
				o.tris = len(sk)
				if len(sk) != len(pk) {
					o.marchEq = false
				} else {
					for i := range sk {
						if sk[i] != pk[i] {
							o.marchEq = false
							break
						}
					}
				}
				if !o.marchEq {
					diff := 0
					seen := map[triKey]int{}
					for _, k := range sk {
						seen[k]++
					}
					for _, k := range pk {
						seen[k]--
					}
					for _, v := range seen {
						if v != 0 {
							diff++
						}
					}
					o.detail = fmt.Sprintf("march #%d of the sequence (cutoff %g): sequential march of a fresh canvas has %d triangles, MarchParallel on the edited canvas %d; %d triangle keys differ",
						step, op.Cutoff, len(sk), len(pk), diff)
				}
			} else if !o.marchEq {
				o.detail = fmt.Sprintf("march #%d: sequential panic %q, parallel panic %q", step, sp, pp)
			}
			if !o.canvasEq && o.detail == "" {
				o.detail = fmt.Sprintf("march #%d: chunk tables differ", step)
			}
			dd := d
			dd.Fields = added
			o.coq = marchCoq(dd, sr, pr, o)
			outs = append(outs, o)
			step++
		}
	}
	for _, k := range retained {
		again := triKeys(k.mesh, attrOf(0), d.cpu())
		same := len(again) == len(k.keys)
		for i := 0; same && i < len(again); i++ {
			same = again[i] == k.keys[i]
		}
		if !same && outs[k.out].marchEq {
			o := outs[k.out]
			o.marchEq = false
			o.detail = fmt.Sprintf("march #%d: the mesh MarchParallel returned changed while later operations ran on the canvas", k.out)
			o.coq = strings.TrimSuffix(o.coq, " true") + " false"
			outs[k.out] = o
		}
	}
	return outs
}
