// Scene descriptions (replayable), construction of the polyform scene, and rendering of the scene as
// the Coq model input (Formats/Gltf.v [scene]).
package main

import (
	"encoding/json"
	"fmt"
	"image/color"
	"math"
	"sort"
	"strings"

	"verif/harness/hx"

	"github.com/EliCDavis/polyform/formats/gltf"
	"github.com/EliCDavis/polyform/math/quaternion"
	"github.com/EliCDavis/polyform/math/trs"
	"github.com/EliCDavis/polyform/modeling"
	"github.com/EliCDavis/vector/vector2"
	"github.com/EliCDavis/vector/vector3"
	"github.com/EliCDavis/vector/vector4"
)

// fl is a float64 that survives JSON (NaN as a string).
type fl float64

func (f fl) MarshalJSON() ([]byte, error) {
	if math.IsNaN(float64(f)) {
		return []byte(`"nan"`), nil
	}
	return json.Marshal(float64(f))
}
func (f *fl) UnmarshalJSON(b []byte) error {
	if string(b) == `"nan"` {
		*f = fl(math.NaN())
		return nil
	}
	var x float64
	if err := json.Unmarshal(b, &x); err != nil {
		return err
	}
	*f = fl(x)
	return nil
}

type runDesc struct {
	N int  `json:"n"` // number of consecutive vertices carrying this value
	V []fl `json:"v"`
}
// sliceRef: elements Off .. Off+Len-1 of backing array number Pool.  Two inputs that refer to the same pool
// share that backing array in the Go scene (sub-slices: prefix, suffix, overlapping, identical), so the
// description distinguishes "same array", "overlapping views of one array" and "equal by value".
type sliceRef struct {
	Pool int `json:"pool"`
	Off  int `json:"off"`
	Len  int `json:"len"`
}
type attrDesc struct {
	Name string    `json:"name"`
	K    int       `json:"k"` // 2, 3 or 4
	Runs []runDesc `json:"runs"`
	Ref  *sliceRef `json:"ref,omitempty"` // data = AttrPool[Pool] elements Off..Off+Len (Runs ignored)
}
type meshDesc struct {
	Point  bool       `json:"point"`
	Attrs  []attrDesc `json:"attrs"`
	Idx    []int      `json:"idx"`
	IdxRef *sliceRef  `json:"idx_ref,omitempty"` // indices = IdxPool[Pool][Off:Off+Len] (Idx ignored)
}
type samplerDesc struct {
	Name                   string `json:"name"`
	Mag, Min, WrapS, WrapT int
}
type texDesc struct {
	URI       string `json:"uri"`
	Sampler   int    `json:"sampler"`   // index into Samplers, -1: none
	Transform int    `json:"transform"` // 0 none, 1 KHR_texture_transform, 2 ... and required
	ExtShared bool   `json:"ext_shared,omitempty"` // the extension value is == to that of every other ExtShared texture with the same Transform
}
type extDesc struct {
	Kind string `json:"kind"`
	F    []fl   `json:"f"`   // scalar factors
	Tex  []int  `json:"tex"` // texture slots of this kind in declaration order, -1: absent
}
type matDesc struct {
	Name       string     `json:"name"`
	Pbr        bool       `json:"pbr"`
	BaseColor  *[4]uint16 `json:"base_color"`
	BaseTex    int        `json:"base_tex"`
	MRTex      int        `json:"mr_tex"`
	Metallic   *fl        `json:"metallic"`
	Roughness  *fl        `json:"roughness"`
	Exts       []int      `json:"exts"` // indices into Exts pool
	NormalTex  int        `json:"normal_tex"`
	NormalSc   *fl        `json:"normal_scale"`
	OccTex     int        `json:"occ_tex"`
	OccSt      *fl        `json:"occ_strength"`
	Emissive   *[4]uint16 `json:"emissive"`
	AlphaMode  string     `json:"alpha_mode"` // "" none
	AlphaCut   *fl        `json:"alpha_cutoff"`
	SameValues int        `json:"-"`
	// Extras of the material: 0 nil, -1 an empty (non-nil) map, k > 0 the map {"id": k} (a fresh map per material:
	// equal extras under different map values); the class under deep equality is max(Extras, 0)
	Extras int `json:"extras,omitempty"`
}

func extrasClass(e int) int {
	if e < 0 {
		return 0
	}
	return e
}
type instDesc struct {
	T [3]fl `json:"t"`
	R [4]fl `json:"r"` // x y z w
	S [3]fl `json:"s"`
}
type modelDesc struct {
	Name     string     `json:"name"`
	Mesh     int        `json:"mesh"`
	Material int        `json:"material"` // -1 none
	T        *[3]fl     `json:"t"`
	R        *[4]fl     `json:"r"`
	S        *[3]fl     `json:"s"`
	Inst     []instDesc `json:"inst"`
	InstRef  *sliceRef  `json:"inst_ref,omitempty"` // GpuInstances = InstPool[Pool][Off:Off+Len] (Inst ignored)
	SameAs   *int       `json:"same_as,omitempty"`  // this entry of Models is the same PolyformModel value as entry SameAs (< own index)
}
type lightDesc struct {
	Type      string     `json:"type"`
	Color     *[4]uint16 `json:"color"`
	Range     *fl        `json:"range"`
	Intensity *fl        `json:"intensity"`
	Pos       [3]fl      `json:"pos"`
}
type sceneDesc struct {
	Meshes    []meshDesc    `json:"meshes"`
	Samplers  []samplerDesc `json:"samplers"`
	Textures  []texDesc     `json:"textures"`
	Exts      []extDesc     `json:"exts"`
	Materials []matDesc     `json:"materials"`
	Models    []modelDesc   `json:"models"`
	Lights    []lightDesc   `json:"lights"`
	AttrPool  []attrDesc    `json:"attr_pool,omitempty"` // backing arrays of attribute data
	IdxPool   [][]int       `json:"idx_pool,omitempty"`  // backing arrays of indices
	InstPool  [][]instDesc  `json:"inst_pool,omitempty"` // backing arrays of GPU instances
	// how the documents are produced (invisible to the specification: the scene is the same):
	//   ""         gltf.WriteBinary / gltf.WriteText, a fresh writer each
	//   "reuse"    ONE Writer: WriteGLB, then ToGLTF(base64) -> text, then WriteGLB again; the text and the SECOND GLB are judged
	//   "split"    ONE Writer, AddScene(models[:Split]) then AddScene(models[Split:] + lights)
	//   "addlight" ONE Writer, AddScene(models) then AddLight for every light
	Via   string `json:"via,omitempty"`
	Split int    `json:"split,omitempty"`
}

// sliceRuns is the run-length description of elements off..off+n of the sequence runs describes
func sliceRuns(runs []runDesc, off, n int) []runDesc {
	var out []runDesc
	for _, r := range runs {
		if n == 0 {
			break
		}
		if off >= r.N {
			off -= r.N
			continue
		}
		k := r.N - off
		if k > n {
			k = n
		}
		out = append(out, runDesc{N: k, V: r.V})
		off = 0
		n -= k
	}
	return out
}

// resolveDesc materialises every reference: the by-value scene the writer has to reproduce (what the model
// and the oracles are given); aliasing is only in the Go scene built from the unresolved description.
func resolveDesc(d sceneDesc) sceneDesc {
	r := d
	r.Meshes = make([]meshDesc, len(d.Meshes))
	for i, m := range d.Meshes {
		nm := m
		nm.Attrs = make([]attrDesc, len(m.Attrs))
		for j, a := range m.Attrs {
			if a.Ref != nil {
				p := d.AttrPool[a.Ref.Pool]
				a = attrDesc{Name: a.Name, K: p.K, Runs: sliceRuns(p.Runs, a.Ref.Off, a.Ref.Len)}
			}
			nm.Attrs[j] = a
		}
		if m.IdxRef != nil {
			nm.Idx = append([]int{}, d.IdxPool[m.IdxRef.Pool][m.IdxRef.Off:m.IdxRef.Off+m.IdxRef.Len]...)
			nm.IdxRef = nil
		}
		r.Meshes[i] = nm
	}
	r.Models = make([]modelDesc, len(d.Models))
	for i, mo := range d.Models {
		if mo.SameAs != nil {
			r.Models[i] = r.Models[*mo.SameAs]
			continue
		}
		if mo.InstRef != nil {
			mo.Inst = append([]instDesc{}, d.InstPool[mo.InstRef.Pool][mo.InstRef.Off:mo.InstRef.Off+mo.InstRef.Len]...)
			mo.InstRef = nil
		}
		r.Models[i] = mo
	}
	r.AttrPool, r.IdxPool, r.InstPool = nil, nil, nil
	return r
}

// texture slots of each material extension in the order ToMaterialExtensionData hands them to AddTexture
var extSlots = map[string][]string{
	"specgloss":    {"diffuseTexture", "specularGlossinessTexture"},
	"transmission": {"transmissionTexture"},
	"volume":       {"thicknessTexture"},
	"specular":     {"specularTexture", "specularColorTexture"},
	"clearcoat":    {"clearcoatTexture", "clearcoatRoughnessTexture"},
	"iridescence":  {"iridescenceTexture", "iridescenceThicknessTexture"},
	"sheen":        {"sheenColorTexture", "sheenRoughnessTexture"},
	"anisotropy":   {"anisotropyTexture"},
	"ior":          {},
	"unlit":        {},
	"dispersion":   {},
	"emissive":     {},
}
var extIDs = map[string]string{
	"specgloss": "KHR_materials_pbrSpecularGlossiness", "transmission": "KHR_materials_transmission",
	"volume": "KHR_materials_volume", "specular": "KHR_materials_specular", "clearcoat": "KHR_materials_clearcoat",
	"iridescence": "KHR_materials_iridescence", "sheen": "KHR_materials_sheen", "anisotropy": "KHR_materials_anisotropy",
	"ior": "KHR_materials_ior", "unlit": "KHR_materials_unlit", "dispersion": "KHR_materials_dispersion",
	"emissive": "KHR_materials_emissive_strength",
}

// ---------------------------------------------------------------- building the polyform scene
type built struct {
	scene    gltf.PolyformScene
	meshes   []*modeling.Mesh
	textures []*gltf.PolyformTexture
	exts     []gltf.MaterialExtension
	extClass []int // class of exts[i] under Go's ==
}

func (a attrDesc) count() int {
	n := 0
	for _, r := range a.Runs {
		n += r.N
	}
	return n
}

func rgba64(c *[4]uint16) color.Color {
	if c == nil {
		return nil
	}
	return color.RGBA64{R: c[0], G: c[1], B: c[2], A: c[3]}
}
func fptr(f *fl) *float64 {
	if f == nil {
		return nil
	}
	x := float64(*f)
	return &x
}
func fat(f []fl, i int) float64 {
	if i < len(f) {
		return float64(f[i])
	}
	return 0
}

func vec4s(runs []runDesc) []vector4.Float64 {
	var data []vector4.Float64
	for _, r := range runs {
		for i := 0; i < r.N; i++ {
			data = append(data, vector4.New(float64(r.V[0]), float64(r.V[1]), float64(r.V[2]), float64(r.V[3])))
		}
	}
	return data
}
func vec3s(runs []runDesc) []vector3.Float64 {
	var data []vector3.Float64
	for _, r := range runs {
		for i := 0; i < r.N; i++ {
			data = append(data, vector3.New(float64(r.V[0]), float64(r.V[1]), float64(r.V[2])))
		}
	}
	return data
}
func vec2s(runs []runDesc) []vector2.Float64 {
	var data []vector2.Float64
	for _, r := range runs {
		for i := 0; i < r.N; i++ {
			data = append(data, vector2.New(float64(r.V[0]), float64(r.V[1])))
		}
	}
	return data
}
func toTRS(in instDesc) trs.TRS {
	return trs.New(
		vector3.New(float64(in.T[0]), float64(in.T[1]), float64(in.T[2])),
		quaternion.New(vector3.New(float64(in.R[0]), float64(in.R[1]), float64(in.R[2])), float64(in.R[3])),
		vector3.New(float64(in.S[0]), float64(in.S[1]), float64(in.S[2])))
}

// equality classes of texture extension values of the scene built last (build and the Coq rendering of one
// description always run back to back)
var texExtCls [][]int

func build(d sceneDesc) built {
	var b built
	sharedOff := vector2.New(0.5, 0.25)
	var texExtVals []gltf.TextureExtension
	texExtCls = nil
	// backing arrays: built once, handed out as sub-slices
	pool4, pool3, pool2 := map[int][]vector4.Float64{}, map[int][]vector3.Float64{}, map[int][]vector2.Float64{}
	for i, p := range d.AttrPool {
		switch p.K {
		case 4:
			pool4[i] = vec4s(p.Runs)
		case 3:
			pool3[i] = vec3s(p.Runs)
		case 2:
			pool2[i] = vec2s(p.Runs)
		}
	}
	idxPool := make([][]int, len(d.IdxPool))
	for i, p := range d.IdxPool {
		idxPool[i] = append([]int{}, p...)
	}
	instPool := make([][]trs.TRS, len(d.InstPool))
	for i, p := range d.InstPool {
		for _, in := range p {
			instPool[i] = append(instPool[i], toTRS(in))
		}
	}
	for _, md := range d.Meshes {
		topo := modeling.TriangleTopology
		if md.Point {
			topo = modeling.PointTopology
		}
		idx := append([]int{}, md.Idx...)
		if r := md.IdxRef; r != nil {
			idx = idxPool[r.Pool][r.Off : r.Off+r.Len]
		}
		m := modeling.NewMesh(topo, idx)
		for _, a := range md.Attrs {
			k := a.K
			if a.Ref != nil {
				k = d.AttrPool[a.Ref.Pool].K
			}
			switch k {
			case 4:
				data := vec4s(a.Runs)
				if r := a.Ref; r != nil {
					data = pool4[r.Pool][r.Off : r.Off+r.Len]
				}
				m = m.SetFloat4Attribute(a.Name, data)
			case 3:
				data := vec3s(a.Runs)
				if r := a.Ref; r != nil {
					data = pool3[r.Pool][r.Off : r.Off+r.Len]
				}
				m = m.SetFloat3Attribute(a.Name, data)
			case 2:
				data := vec2s(a.Runs)
				if r := a.Ref; r != nil {
					data = pool2[r.Pool][r.Off : r.Off+r.Len]
				}
				m = m.SetFloat2Attribute(a.Name, data)
			}
		}
		mm := m
		b.meshes = append(b.meshes, &mm)
	}
	samplers := make([]*gltf.Sampler, len(d.Samplers))
	for i, s := range d.Samplers {
		sp := &gltf.Sampler{MagFilter: gltf.SamplerMagFilter(s.Mag), MinFilter: gltf.SamplerMinFilter(s.Min),
			WrapS: gltf.SamplerWrap(s.WrapS), WrapT: gltf.SamplerWrap(s.WrapT)}
		sp.Name = s.Name
		samplers[i] = sp
	}
	for _, t := range d.Textures {
		pt := &gltf.PolyformTexture{URI: t.URI}
		if t.Sampler >= 0 {
			pt.Sampler = samplers[t.Sampler]
		}
		if t.Transform > 0 {
			off := &sharedOff
			if !t.ExtShared {
				o := vector2.New(0.5, 0.25)
				off = &o
			}
			pt.Extensions = []gltf.TextureExtension{gltf.PolyformTextureTransform{Required: t.Transform == 2, Offset: off}}
		}
		// equality classes of the extension values under Go's == (what PolyformTexture.equal evaluates)
		var cls []int
		for _, e := range pt.Extensions {
			c := len(texExtVals)
			for j, y := range texExtVals {
				if y == e {
					c = j
					break
				}
			}
			if c == len(texExtVals) {
				texExtVals = append(texExtVals, e)
			}
			cls = append(cls, c)
		}
		texExtCls = append(texExtCls, cls)
		b.textures = append(b.textures, pt)
	}
	tex := func(i int) *gltf.PolyformTexture {
		if i < 0 {
			return nil
		}
		return b.textures[i]
	}
	for _, e := range d.Exts {
		t := func(i int) *gltf.PolyformTexture {
			if i < len(e.Tex) {
				return tex(e.Tex[i])
			}
			return nil
		}
		var x gltf.MaterialExtension
		switch e.Kind {
		case "specgloss":
			g := fat(e.F, 0)
			x = gltf.PolyformPbrSpecularGlossiness{DiffuseTexture: t(0), SpecularGlossinessTexture: t(1), GlossinessFactor: &g}
		case "transmission":
			x = gltf.PolyformTransmission{Factor: fat(e.F, 0), Texture: t(0)}
		case "volume":
			x = gltf.PolyformVolume{ThicknessFactor: fat(e.F, 0), ThicknessTexture: t(0)}
		case "specular":
			x = gltf.PolyformSpecular{Texture: t(0), ColorTexture: t(1), ColorFactor: color.RGBA{R: 10, G: 20, B: 30, A: 255}}
		case "clearcoat":
			x = gltf.PolyformClearcoat{ClearcoatFactor: fat(e.F, 0), ClearcoatTexture: t(0), ClearcoatRoughnessFactor: fat(e.F, 1), ClearcoatRoughnessTexture: t(1)}
		case "iridescence":
			x = gltf.PolyformIridescence{IridescenceFactor: fat(e.F, 0), IridescenceTexture: t(0), IridescenceThicknessTexture: t(1)}
		case "sheen":
			x = gltf.PolyformSheen{SheenColorTexture: t(0), SheenRoughnessFactor: fat(e.F, 0), SheenRoughnessTexture: t(1)}
		case "anisotropy":
			x = gltf.PolyformAnisotropy{AnisotropyStrength: fat(e.F, 0), AnisotropyRotation: fat(e.F, 1), AnisotropyTexture: t(0)}
		case "ior":
			v := fat(e.F, 0)
			x = gltf.PolyformIndexOfRefraction{IOR: &v}
		case "unlit":
			x = gltf.PolyformUnlit{}
		case "dispersion":
			x = gltf.PolyformDispersion{Dispersion: fat(e.F, 0)}
		default:
			v := fat(e.F, 0)
			x = gltf.PolyformEmissiveStrength{EmissiveStrength: &v}
		}
		cls := len(b.exts)
		for j, y := range b.exts {
			if y == x { // Go's interface equality: exactly what PolyformMaterial.equal evaluates
				cls = b.extClass[j]
				break
			}
		}
		b.exts = append(b.exts, x)
		b.extClass = append(b.extClass, cls)
	}
	mats := make([]*gltf.PolyformMaterial, len(d.Materials))
	for i, m := range d.Materials {
		pm := &gltf.PolyformMaterial{Name: m.Name, AlphaCutoff: fptr(m.AlphaCut), EmissiveFactor: rgba64(m.Emissive)}
		if m.Pbr {
			pm.PbrMetallicRoughness = &gltf.PolyformPbrMetallicRoughness{
				BaseColorFactor: rgba64(m.BaseColor), BaseColorTexture: tex(m.BaseTex),
				MetallicFactor: fptr(m.Metallic), RoughnessFactor: fptr(m.Roughness), MetallicRoughnessTexture: tex(m.MRTex),
			}
		}
		for _, ei := range m.Exts {
			pm.Extensions = append(pm.Extensions, b.exts[ei])
		}
		if m.NormalTex >= 0 {
			pm.NormalTexture = &gltf.PolyformNormal{PolyformTexture: tex(m.NormalTex), Scale: fptr(m.NormalSc)}
		}
		if m.OccTex >= 0 {
			pm.OcclusionTexture = &gltf.PolyformOcclusion{PolyformTexture: tex(m.OccTex), Strength: fptr(m.OccSt)}
		}
		if m.AlphaMode != "" {
			am := gltf.MaterialAlphaMode(m.AlphaMode)
			pm.AlphaMode = &am
		}
		if m.Extras > 0 {
			pm.Extras = map[string]any{"id": m.Extras}
		} else if m.Extras < 0 {
			pm.Extras = map[string]any{}
		}
		mats[i] = pm
	}
	for _, mo := range d.Models {
		if mo.SameAs != nil {
			b.scene.Models = append(b.scene.Models, b.scene.Models[*mo.SameAs]) // the same value: every pointer and slice shared
			continue
		}
		pm := gltf.PolyformModel{Name: mo.Name, Mesh: b.meshes[mo.Mesh]}
		if mo.Material >= 0 {
			pm.Material = mats[mo.Material]
		}
		if mo.T != nil {
			v := vector3.New(float64(mo.T[0]), float64(mo.T[1]), float64(mo.T[2]))
			pm.Translation = &v
		}
		if mo.R != nil {
			q := quaternion.New(vector3.New(float64(mo.R[0]), float64(mo.R[1]), float64(mo.R[2])), float64(mo.R[3]))
			pm.Rotation = &q
		}
		if mo.S != nil {
			v := vector3.New(float64(mo.S[0]), float64(mo.S[1]), float64(mo.S[2]))
			pm.Scale = &v
		}
		if r := mo.InstRef; r != nil {
			if r.Len > 0 {
				pm.GpuInstances = instPool[r.Pool][r.Off : r.Off+r.Len]
			}
		} else {
			for _, in := range mo.Inst {
				pm.GpuInstances = append(pm.GpuInstances, toTRS(in))
			}
		}
		b.scene.Models = append(b.scene.Models, pm)
	}
	for _, l := range d.Lights {
		b.scene.Lights = append(b.scene.Lights, gltf.KHR_LightsPunctual{
			Type: gltf.KHR_LightsPunctualType(l.Type), Color: rgba64(l.Color), Range: fptr(l.Range), Intensity: fptr(l.Intensity),
			Position: vector3.New(float64(l.Pos[0]), float64(l.Pos[1]), float64(l.Pos[2])),
		})
	}
	return b
}

// ---------------------------------------------------------------- expected stored image of an attribute
func isByteAttr(name string) bool { return name == modeling.JointAttribute }

// word is what the format stores for component x of attribute name: the float32 bit pattern, or the byte
func word(name string, x fl) uint32 {
	if isByteAttr(name) {
		return uint32(uint8(float64(x)))
	}
	return math.Float32bits(float32(float64(x)))
}
func f32(x fl) uint32 { return math.Float32bits(float32(float64(x))) }
func f64(x fl) uint64 { return math.Float64bits(float64(x)) }

// ---------------------------------------------------------------- Coq rendering of the scene
func cstr(s string) string { return hx.CoqString(s) + "%string" }
func cN(x uint64) string   { return fmt.Sprintf("%d", x) }
func cOpt(ok bool, v string) string {
	if !ok {
		return "None"
	}
	return "(Some " + v + ")"
}
func cList(items []string) string { return "[" + strings.Join(items, ";") + "]" }
func cOptF64(f *fl) string {
	if f == nil {
		return "None"
	}
	return "(Some " + cN(f64(*f)) + ")"
}
func cColor(c *[4]uint16) string {
	if c == nil {
		return "None"
	}
	return fmt.Sprintf("(Some [%d;%d;%d;%d])", c[0], c[1], c[2], c[3])
}
func cF64s(xs []fl) string {
	it := make([]string, len(xs))
	for i, x := range xs {
		it[i] = cN(f64(x))
	}
	return cList(it)
}
func cF32s(xs []fl) string {
	it := make([]string, len(xs))
	for i, x := range xs {
		it[i] = cN(uint64(f32(x)))
	}
	return cList(it)
}

func coqVdata(a attrDesc) string {
	it := make([]string, len(a.Runs))
	for i, r := range a.Runs {
		ws := make([]string, len(r.V))
		for j, x := range r.V {
			ws[j] = cN(uint64(word(a.Name, x)))
		}
		it[i] = fmt.Sprintf("(%d,%s)", r.N, cList(ws))
	}
	return cList(it)
}

func coqMesh(id int, m meshDesc) string {
	byK := map[int][]attrDesc{}
	for _, a := range m.Attrs {
		byK[a.K] = append(byK[a.K], a)
	}
	part := func(k int) string {
		as := byK[k]
		sort.Slice(as, func(i, j int) bool { return as[i].Name < as[j].Name }) // the order Float<k>Attributes() reports
		it := make([]string, len(as))
		for i, a := range as {
			it[i] = fmt.Sprintf("(%s,%s)", cstr(a.Name), coqVdata(a))
		}
		return cList(it)
	}
	return fmt.Sprintf("{| me_ptr := %d; me_point := %s; me_v4 := %s; me_v3 := %s; me_v2 := %s; me_idx := %s; me_v1len := 0 |}",
		id, hx.CoqBool(m.Point), part(4), part(3), part(2), hx.CoqListN(m.Idx))
}

func coqSampler(s samplerDesc) string {
	return fmt.Sprintf("{| gs_name := %s; gs_mag := %d; gs_min := %d; gs_ws := %d; gs_wt := %d |}", cstr(s.Name), s.Mag, s.Min, s.WrapS, s.WrapT)
}

func coqTex(d sceneDesc, i int) string {
	t := d.Textures[i]
	samp := "None"
	if t.Sampler >= 0 {
		samp = "(Some " + coqSampler(d.Samplers[t.Sampler]) + ")"
	}
	exts := "[]"
	if t.Transform > 0 {
		exts = fmt.Sprintf("[(%s,%s)]", cstr("KHR_texture_transform"), hx.CoqBool(t.Transform == 2))
	}
	cls := []int{}
	if i < len(texExtCls) {
		cls = texExtCls[i]
	}
	return fmt.Sprintf("{| tx_ptr := %d; tx_uri := %s; tx_samp := %s; tx_exts := %s; tx_xcls := %s |}", i, cstr(t.URI), samp, exts, hx.CoqListN(cls))
}
func coqOptTex(d sceneDesc, i int) string {
	if i < 0 {
		return "None"
	}
	return "(Some " + coqTex(d, i) + ")"
}

func coqMat(d sceneDesc, b built, i int) string {
	m := d.Materials[i]
	pbr := "None"
	if m.Pbr {
		pbr = fmt.Sprintf("(Some {| pb_color := %s; pb_tex := %s; pb_metal := %s; pb_rough := %s; pb_mrtex := %s |})",
			cColor(m.BaseColor), coqOptTex(d, m.BaseTex), cOptF64(m.Metallic), cOptF64(m.Roughness), coqOptTex(d, m.MRTex))
	}
	exts := make([]string, len(m.Exts))
	for j, ei := range m.Exts {
		e := d.Exts[ei]
		var slots []string
		for k, name := range extSlots[e.Kind] {
			if k < len(e.Tex) && e.Tex[k] >= 0 {
				slots = append(slots, fmt.Sprintf("(%s,%s)", cstr(name), coqTex(d, e.Tex[k])))
			}
		}
		exts[j] = fmt.Sprintf("{| mx_id := %s; mx_class := %d; mx_texs := %s |}", cstr(extIDs[e.Kind]), b.extClass[ei], cList(slots))
	}
	nt, ot := "None", "None"
	if m.NormalTex >= 0 {
		nt = fmt.Sprintf("(Some (%s,%s))", coqTex(d, m.NormalTex), cOptF64(m.NormalSc))
	}
	if m.OccTex >= 0 {
		ot = fmt.Sprintf("(Some (%s,%s))", coqTex(d, m.OccTex), cOptF64(m.OccSt))
	}
	return fmt.Sprintf("{| pm_ptr := %d; pm_name := %s; pm_pbr := %s; pm_exts := %s; pm_normal := %s; pm_occ := %s; pm_emissive := %s; pm_alpha := %s; pm_cutoff := %s; pm_extras := %d |}",
		i, cstr(m.Name), pbr, cList(exts), nt, ot, cColor(m.Emissive), cOpt(m.AlphaMode != "", cstr(m.AlphaMode)), cOptF64(m.AlphaCut), extrasClass(m.Extras))
}

func coqScene(d sceneDesc, b built) string {
	models := make([]string, len(d.Models))
	for i, mo := range d.Models {
		mat := "None"
		if mo.Material >= 0 {
			mat = "(Some " + coqMat(d, b, mo.Material) + ")"
		}
		t, r, s := "None", "None", "None"
		if mo.T != nil {
			t = "(Some " + cF64s(mo.T[:]) + ")"
		}
		if mo.R != nil {
			r = "(Some " + cF64s(mo.R[:]) + ")"
		}
		if mo.S != nil {
			s = "(Some " + cF64s(mo.S[:]) + ")"
		}
		inst := make([]string, len(mo.Inst))
		for j, in := range mo.Inst {
			inst[j] = fmt.Sprintf("{| in_t := %s; in_s := %s; in_r := %s |}", cF32s(in.T[:]), cF32s(in.S[:]), cF32s(in.R[:]))
		}
		models[i] = fmt.Sprintf("{| mo_name := %s; mo_mesh := %s; mo_mat := %s; mo_t := %s; mo_r := %s; mo_s := %s; mo_inst := %s |}",
			cstr(mo.Name), coqMesh(mo.Mesh, d.Meshes[mo.Mesh]), mat, t, r, s, cList(inst))
	}
	lights := make([]string, len(d.Lights))
	for i, l := range d.Lights {
		lights[i] = fmt.Sprintf("{| li_type := %s; li_color := %s; li_range := %s; li_intensity := %s; li_pos := %s |}",
			cstr(l.Type), cColor(l.Color), cOptF64(l.Range), cOptF64(l.Intensity), cF64s(l.Pos[:]))
	}
	return fmt.Sprintf("{| sc_models := %s;\n sc_lights := %s |}", strings.Join([]string{"[" + strings.Join(models, ";\n  ") + "]"}, ""), cList(lights))
}
