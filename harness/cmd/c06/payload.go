// Go-side payload oracle: decodes every accessor a model's primitive references from the buffer (own
// decoder, nothing from the gltf package) and compares it with the float32 / byte / index image of the
// scene description; also re-computes the declared bounds from the stored data.  For scenes whose
// payload is too long to hand to Coq this is the only payload check; for the others it runs in addition.
package main

import (
	"encoding/binary"
	"fmt"
	"math"
)

func compSize(c int) int {
	switch c {
	case 5120, 5121:
		return 1
	case 5122, 5123:
		return 2
	case 5125, 5126:
		return 4
	}
	return 0
}

// decodeAcc returns count*k component words of accessor ai (tightly packed)
func decodeAcc(s summary, p []byte, ai int) ([]uint32, sAcc, error) {
	if ai < 0 || ai >= len(s.Accs) {
		return nil, sAcc{}, fmt.Errorf("accessor %d does not exist", ai)
	}
	a := s.Accs[ai]
	if a.View == nil || *a.View < 0 || *a.View >= len(s.Views) {
		return nil, a, fmt.Errorf("accessor %d: no such buffer view", ai)
	}
	v := s.Views[*a.View]
	sz := compSize(a.Comp)
	if sz == 0 || a.K == 0 || a.Count < 0 || a.Off < 0 || v.Off < 0 || v.Len < 0 {
		return nil, a, fmt.Errorf("accessor %d: bad component type / type / count", ai)
	}
	n := a.Count * a.K
	if a.Off+n*sz > v.Len || v.Off+v.Len > len(p) {
		return nil, a, fmt.Errorf("accessor %d: %d bytes at %d do not fit view (offset %d, length %d, buffer %d)", ai, n*sz, a.Off, v.Off, v.Len, len(p))
	}
	out := make([]uint32, n)
	b := p[v.Off+a.Off:]
	for i := range out {
		switch sz {
		case 1:
			out[i] = uint32(b[i])
		case 2:
			out[i] = uint32(binary.LittleEndian.Uint16(b[2*i:]))
		default:
			out[i] = binary.LittleEndian.Uint32(b[4*i:])
		}
	}
	return out, a, nil
}

func gltfAttrName(n string) string {
	switch n {
	case "Position":
		return "POSITION"
	case "Color":
		return "COLOR_0"
	case "Joint":
		return "JOINTS_0"
	case "Weight":
		return "WEIGHTS_0"
	case "TexCoord":
		return "TEXCOORD_0"
	case "Normal":
		return "NORMAL"
	}
	return n
}

// bounds declared by accessor a against the words stored for it
func checkBounds(ai int, a sAcc, words []uint32) string {
	if !a.HasMin && !a.HasMax {
		return ""
	}
	if len(a.Min) != a.K || len(a.Max) != a.K {
		return fmt.Sprintf("accessor %d: min/max have %d/%d entries for %d components", ai, len(a.Min), len(a.Max), a.K)
	}
	val := func(w uint32) float64 {
		if a.Comp == 5126 {
			return float64(math.Float32frombits(w))
		}
		return float64(w)
	}
	for j := 0; j < a.K; j++ {
		lo, hi := math.MaxFloat64, -math.MaxFloat64
		for e := 0; e < a.Count; e++ {
			nan := false
			for c := 0; c < a.K; c++ {
				if math.IsNaN(val(words[e*a.K+c])) {
					nan = true
				}
			}
			if nan {
				continue
			}
			x := val(words[e*a.K+j])
			// -0 orders below +0
			if x < lo || (x == lo && math.Signbit(x) && !math.Signbit(lo)) {
				lo = x
			}
			if x > hi || (x == hi && !math.Signbit(x) && math.Signbit(hi)) {
				hi = x
			}
		}
		if math.Float64bits(a.Min[j]) != math.Float64bits(lo) || math.Float64bits(a.Max[j]) != math.Float64bits(hi) {
			return fmt.Sprintf("accessor %d component %d: declared [%v, %v], stored data span [%v, %v]", ai, j, a.Min[j], a.Max[j], lo, hi)
		}
	}
	return ""
}

func checkImage(s summary, p []byte, ai int, what string, comp, k int, runs []runDesc, name string) string {
	words, a, err := decodeAcc(s, p, ai)
	if err != nil {
		return what + ": " + err.Error()
	}
	n := 0
	for _, r := range runs {
		n += r.N
	}
	if a.Comp != comp || a.K != k || a.Count != n {
		return fmt.Sprintf("%s: accessor %d is (%d, K=%d, count %d), want (%d, K=%d, count %d)", what, ai, a.Comp, a.K, a.Count, comp, k, n)
	}
	e := 0
	for _, r := range runs {
		want := make([]uint32, k)
		for c := 0; c < k; c++ {
			want[c] = word(name, r.V[c])
		}
		for i := 0; i < r.N; i++ {
			for c := 0; c < k; c++ {
				if words[e*k+c] != want[c] {
					return fmt.Sprintf("%s: element %d component %d stores %d, the model's image is %d", what, e, c, words[e*k+c], want[c])
				}
			}
			e++
		}
	}
	return checkBounds(ai, a, words)
}

func checkPayload(d sceneDesc, s summary, p []byte) string {
	live := liveModels(d)
	if len(s.Nodes) < len(live) {
		return "" // structural failure, reported by the Coq checker
	}
	for j, mo := range live {
		nd := s.Nodes[j]
		if nd.Mesh == nil || *nd.Mesh < 0 || *nd.Mesh >= len(s.Meshes) || len(s.Meshes[*nd.Mesh].Prims) != 1 {
			return ""
		}
		pr := s.Meshes[*nd.Mesh].Prims[0]
		m := d.Meshes[mo.Mesh]
		nv := -1
		for _, a := range m.Attrs {
			nv = a.count()
			ai, ok := pr.Attrs[gltfAttrName(a.Name)]
			if !ok {
				return fmt.Sprintf("model %d: attribute %s missing", j, a.Name)
			}
			comp := 5126
			if isByteAttr(a.Name) {
				comp = 5121
			}
			if msg := checkImage(s, p, ai, fmt.Sprintf("model %d attribute %s", j, a.Name), comp, a.K, a.Runs, a.Name); msg != "" {
				return msg
			}
		}
		if pr.Idx == nil {
			return fmt.Sprintf("model %d: primitive without indices", j)
		}
		words, a, err := decodeAcc(s, p, *pr.Idx)
		if err != nil {
			return fmt.Sprintf("model %d indices: %v", j, err)
		}
		if a.K != 1 || a.Count != len(m.Idx) || (a.Comp != 5121 && a.Comp != 5123 && a.Comp != 5125) {
			return fmt.Sprintf("model %d indices: accessor (%d, K=%d, count %d) for %d indices", j, a.Comp, a.K, a.Count, len(m.Idx))
		}
		restart := uint32(1)<<(8*compSize(a.Comp)) - 1
		if a.Comp == 5125 {
			restart = math.MaxUint32
		}
		for i, w := range words {
			if int(w) != m.Idx[i] {
				return fmt.Sprintf("model %d: index %d stored as %d, mesh has %d", j, i, w, m.Idx[i])
			}
			if nv >= 0 && int(w) >= nv {
				return fmt.Sprintf("model %d: index %d = %d is not below the vertex count %d", j, i, w, nv)
			}
			if w == restart {
				return fmt.Sprintf("model %d: index %d is the reserved maximum of component type %d", j, i, a.Comp)
			}
		}
		if len(mo.Inst) > 0 {
			if nd.Inst == nil {
				return fmt.Sprintf("model %d: instances missing", j)
			}
			for _, part := range []struct {
				key string
				k   int
				get func(instDesc) []fl
			}{{"TRANSLATION", 3, func(i instDesc) []fl { return i.T[:] }}, {"SCALE", 3, func(i instDesc) []fl { return i.S[:] }}, {"ROTATION", 4, func(i instDesc) []fl { return i.R[:] }}} {
				ai, ok := nd.Inst[part.key]
				if !ok {
					return fmt.Sprintf("model %d: instance attribute %s missing", j, part.key)
				}
				runs := make([]runDesc, len(mo.Inst))
				for i, in := range mo.Inst {
					runs[i] = runDesc{N: 1, V: part.get(in)}
				}
				if msg := checkImage(s, p, ai, fmt.Sprintf("model %d instances %s", j, part.key), 5126, part.k, runs, ""); msg != "" {
					return msg
				}
			}
		}
	}
	// every accessor that declares bounds: they are the bounds of what is stored
	for ai := range s.Accs {
		words, a, err := decodeAcc(s, p, ai)
		if err != nil {
			return err.Error()
		}
		if msg := checkBounds(ai, a, words); msg != "" {
			return msg
		}
	}
	return ""
}
