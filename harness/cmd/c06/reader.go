// Independent reader: GLB framing parsed by hand, JSON through encoding/json into generic maps, the
// base64 data URI decoded; the result is the structural summary (Formats/Gltf.v [summary]) + payload.
// Nothing here uses the gltf package.
package main

import (
	"bytes"
	"encoding/base64"
	"encoding/binary"
	"encoding/json"
	"fmt"
	"math"
	"sort"
	"strings"

	"verif/harness/hx"
)

type glbInfo struct {
	Magic, Version, Total, Actual uint32
	Chunks                        [][3]uint32 // declared length, type, bytes present
	JSONLen                       int
	PadOK                         bool
	JSON, Bin                     []byte // JSON without trailing spaces; BIN chunk data as stored (padded)
}

func parseGLB(b []byte) (glbInfo, error) {
	var g glbInfo
	if len(b) < 12 {
		return g, fmt.Errorf("short GLB header")
	}
	g.Magic = binary.LittleEndian.Uint32(b[0:])
	g.Version = binary.LittleEndian.Uint32(b[4:])
	g.Total = binary.LittleEndian.Uint32(b[8:])
	g.Actual = uint32(len(b))
	g.PadOK = true
	off := 12
	for k := 0; off+8 <= len(b); k++ {
		l := binary.LittleEndian.Uint32(b[off:])
		t := binary.LittleEndian.Uint32(b[off+4:])
		off += 8
		avail := len(b) - off
		n := int(l)
		if n > avail {
			n = avail
		}
		data := b[off : off+n]
		g.Chunks = append(g.Chunks, [3]uint32{l, t, uint32(n)})
		if k == 0 {
			trim := bytes.TrimRight(data, " ")
			g.JSON = trim
			g.JSONLen = len(trim)
		} else if k == 1 {
			g.Bin = data
		}
		off += n
	}
	if off != len(b) {
		return g, fmt.Errorf("trailing bytes after the last chunk")
	}
	if len(g.Chunks) == 0 {
		return g, fmt.Errorf("no chunk")
	}
	return g, nil
}

// ---- summary
type sView struct{ Buf, Off, Len, Target int }
type sAcc struct {
	View                *int
	Off, Comp, K, Count int
	Min, Max            []float64
	HasMin, HasMax      bool
}
type sTexInfo struct {
	Index int
	Exts  []string
}
type sPrim struct {
	Attrs          map[string]int
	Idx, Mat, Mode *int
}
type sMesh struct {
	Name  string
	Prims []sPrim
}
type sNode struct {
	Name    string
	Mesh    *int
	T, R, S []float64
	Inst    map[string]int
	Light   *int
	Exts    []string
}
type sSamp struct {
	Name                   string
	Mag, Min, WrapS, WrapT int
}
type sTex struct {
	Source, Sampler *int
	Exts            []string
}
type sSlot struct {
	Name  string
	Info  sTexInfo
	Extra *float64
}
type sMat struct {
	Name      string
	Color     []float64
	Metal     *float64
	Rough     *float64
	Emissive  []float64
	Alpha     *string
	Cutoff    *float64
	Slots     []sSlot
	Exts      []string
	FloatFail string
	Extras    int // class of the "extras" object: 0 absent, k for {"id": k}, -1 anything else
}
type sLight struct {
	Type             string
	Color            []float64
	Range, Intensity *float64
}
type summary struct {
	Buffers  []int
	URI      string
	Views    []sView
	Accs     []sAcc
	Meshes   []sMesh
	Nodes    []sNode
	Scenes   [][]int
	Scene    int
	Mats     []sMat
	Texs     []sTex
	Images   []string
	Samplers []sSamp
	Lights   []sLight
	Used     []string
	Req      []string
	RootExts []string
	Version  string // asset.version
}

type obj = map[string]any

func gInt(m obj, k string) (int, bool) {
	v, ok := m[k]
	if !ok {
		return 0, false
	}
	n, ok := v.(json.Number)
	if !ok {
		return 0, false
	}
	i, err := n.Int64()
	if err != nil {
		return 0, false
	}
	return int(i), true
}
func gIntD(m obj, k string) int { i, _ := gInt(m, k); return i }

// gReq reads a property the glTF schema REQUIRES: a document that omits it is not loadable, so the absence is
// rendered as -1 (a huge natural on the Coq side: out of every range) instead of the schema default
func gReq(m obj, k string) int {
	if i, ok := gInt(m, k); ok {
		return i
	}
	return -1
}
func gIntP(m obj, k string) *int {
	if i, ok := gInt(m, k); ok {
		return &i
	}
	return nil
}
func gStr(m obj, k string) string { s, _ := m[k].(string); return s }
func gArr(m obj, k string) []any  { a, _ := m[k].([]any); return a }
func gObj(m obj, k string) obj    { o, _ := m[k].(obj); return o }
func gF(v any) float64 {
	n, _ := v.(json.Number)
	f, _ := n.Float64()
	return f
}
func gFP(m obj, k string) *float64 {
	if v, ok := m[k]; ok {
		f := gF(v)
		return &f
	}
	return nil
}
func gFs(m obj, k string) ([]float64, bool) {
	v, ok := m[k]
	if !ok {
		return nil, false
	}
	a, _ := v.([]any)
	out := make([]float64, len(a))
	for i, x := range a {
		out[i] = gF(x)
	}
	return out, true
}
func keys(m obj) []string {
	out := make([]string, 0, len(m))
	for k := range m {
		out = append(out, k)
	}
	sort.Strings(out)
	return out
}
func intMap(m obj) map[string]int {
	out := map[string]int{}
	for k := range m {
		out[k] = gIntD(m, k)
	}
	return out
}

func typeK(t string) int {
	switch t {
	case "SCALAR":
		return 1
	case "VEC2":
		return 2
	case "VEC3":
		return 3
	case "VEC4":
		return 4
	case "MAT2":
		return 4
	case "MAT3":
		return 9
	case "MAT4":
		return 16
	}
	return 0
}

func texInfo(o obj) sTexInfo {
	return sTexInfo{Index: gReq(o, "index"), Exts: keys(gObj(o, "extensions"))}
}

func readDoc(js []byte) (summary, error) {
	var s summary
	dec := json.NewDecoder(bytes.NewReader(js))
	dec.UseNumber()
	var root obj
	if err := dec.Decode(&root); err != nil {
		return s, err
	}
	s.Version = gStr(gObj(root, "asset"), "version")
	for _, b := range gArr(root, "buffers") {
		bo, _ := b.(obj)
		s.Buffers = append(s.Buffers, gReq(bo, "byteLength"))
		s.URI = gStr(bo, "uri")
	}
	for _, v := range gArr(root, "bufferViews") {
		o, _ := v.(obj)
		s.Views = append(s.Views, sView{gReq(o, "buffer"), gIntD(o, "byteOffset"), gReq(o, "byteLength"), gIntD(o, "target")})
	}
	for _, v := range gArr(root, "accessors") {
		o, _ := v.(obj)
		a := sAcc{View: gIntP(o, "bufferView"), Off: gIntD(o, "byteOffset"), Comp: gReq(o, "componentType"),
			K: typeK(gStr(o, "type")), Count: gReq(o, "count")}
		a.Min, a.HasMin = gFs(o, "min")
		a.Max, a.HasMax = gFs(o, "max")
		s.Accs = append(s.Accs, a)
	}
	for _, v := range gArr(root, "meshes") {
		o, _ := v.(obj)
		m := sMesh{Name: gStr(o, "name")}
		for _, pv := range gArr(o, "primitives") {
			po, _ := pv.(obj)
			m.Prims = append(m.Prims, sPrim{Attrs: intMap(gObj(po, "attributes")), Idx: gIntP(po, "indices"), Mat: gIntP(po, "material"), Mode: gIntP(po, "mode")})
		}
		s.Meshes = append(s.Meshes, m)
	}
	for _, v := range gArr(root, "nodes") {
		o, _ := v.(obj)
		n := sNode{Name: gStr(o, "name"), Mesh: gIntP(o, "mesh")}
		n.T, _ = gFs(o, "translation")
		n.R, _ = gFs(o, "rotation")
		n.S, _ = gFs(o, "scale")
		ext := gObj(o, "extensions")
		n.Exts = keys(ext)
		if gi, ok := ext["EXT_mesh_gpu_instancing"].(obj); ok {
			n.Inst = intMap(gObj(gi, "attributes"))
		}
		if li, ok := ext["KHR_lights_punctual"].(obj); ok {
			n.Light = gIntP(li, "light")
		}
		s.Nodes = append(s.Nodes, n)
	}
	for _, v := range gArr(root, "scenes") {
		o, _ := v.(obj)
		var roots []int
		for _, r := range gArr(o, "nodes") {
			n, _ := r.(json.Number)
			i, _ := n.Int64()
			roots = append(roots, int(i))
		}
		s.Scenes = append(s.Scenes, roots)
	}
	s.Scene = gIntD(root, "scene")
	for _, v := range gArr(root, "materials") {
		o, _ := v.(obj)
		m := sMat{Name: gStr(o, "name"), Cutoff: gFP(o, "alphaCutoff")}
		if a, ok := o["alphaMode"].(string); ok {
			m.Alpha = &a
		}
		m.Emissive, _ = gFs(o, "emissiveFactor")
		if pbr, ok := o["pbrMetallicRoughness"].(obj); ok {
			m.Color, _ = gFs(pbr, "baseColorFactor")
			m.Metal, m.Rough = gFP(pbr, "metallicFactor"), gFP(pbr, "roughnessFactor")
			for _, slot := range []string{"baseColorTexture", "metallicRoughnessTexture"} {
				if t, ok := pbr[slot].(obj); ok {
					m.Slots = append(m.Slots, sSlot{Name: slot, Info: texInfo(t)})
				}
			}
		}
		if t, ok := o["normalTexture"].(obj); ok {
			m.Slots = append(m.Slots, sSlot{Name: "normalTexture", Info: texInfo(t), Extra: gFP(t, "scale")})
		}
		if t, ok := o["occlusionTexture"].(obj); ok {
			m.Slots = append(m.Slots, sSlot{Name: "occlusionTexture", Info: texInfo(t), Extra: gFP(t, "strength")})
		}
		if ex, ok := o["extras"]; ok {
			m.Extras = -1
			if eo, isObj := ex.(obj); isObj && len(eo) == 1 {
				if k, ok := gInt(eo, "id"); ok && k > 0 {
					m.Extras = k
				}
			}
		}
		ext := gObj(o, "extensions")
		m.Exts = keys(ext)
		for _, ek := range m.Exts {
			eo, _ := ext[ek].(obj)
			for _, fk := range keys(eo) {
				if t, ok := eo[fk].(obj); ok {
					if _, isTex := t["index"]; isTex {
						m.Slots = append(m.Slots, sSlot{Name: ek + "/" + fk, Info: texInfo(t)})
					}
				}
			}
		}
		s.Mats = append(s.Mats, m)
	}
	for _, v := range gArr(root, "textures") {
		o, _ := v.(obj)
		s.Texs = append(s.Texs, sTex{Source: gIntP(o, "source"), Sampler: gIntP(o, "sampler"), Exts: keys(gObj(o, "extensions"))})
	}
	for _, v := range gArr(root, "images") {
		o, _ := v.(obj)
		s.Images = append(s.Images, gStr(o, "uri"))
	}
	for _, v := range gArr(root, "samplers") {
		o, _ := v.(obj)
		s.Samplers = append(s.Samplers, sSamp{gStr(o, "name"), gIntD(o, "magFilter"), gIntD(o, "minFilter"), gIntD(o, "wrapS"), gIntD(o, "wrapT")})
	}
	rext := gObj(root, "extensions")
	s.RootExts = keys(rext)
	if lp, ok := rext["KHR_lights_punctual"].(obj); ok {
		for _, v := range gArr(lp, "lights") {
			o, _ := v.(obj)
			l := sLight{Type: gStr(o, "type"), Range: gFP(o, "range"), Intensity: gFP(o, "intensity")}
			l.Color, _ = gFs(o, "color")
			s.Lights = append(s.Lights, l)
		}
	}
	for _, v := range gArr(root, "extensionsUsed") {
		x, _ := v.(string)
		s.Used = append(s.Used, x)
	}
	for _, v := range gArr(root, "extensionsRequired") {
		x, _ := v.(string)
		s.Req = append(s.Req, x)
	}
	return s, nil
}

func decodeURI(uri string) ([]byte, error) {
	const p = "data:application/octet-stream;base64,"
	if !strings.HasPrefix(uri, p) {
		return nil, fmt.Errorf("buffer uri is not a base64 data uri")
	}
	return base64.StdEncoding.DecodeString(uri[len(p):])
}

// ---- Coq rendering
func mmv(d float64) string {
	switch {
	case d == math.MaxFloat64:
		return "MHi"
	case d == -math.MaxFloat64:
		return "MLo"
	case float64(float32(d)) == d && !math.IsInf(d, 0):
		return fmt.Sprintf("MF %d", math.Float32bits(float32(d)))
	}
	return "MOther"
}
func mmvs(xs []float64) string {
	it := make([]string, len(xs))
	for i, x := range xs {
		it[i] = mmv(x)
	}
	return cList(it)
}
// absent renders a negative or missing number: larger than every table and every buffer of a test scene (so every
// range check of the Coq checker fails on it), small enough for N.to_nat in nth_error (a 2^32 or 2^64 literal would
// make vm_compute build a unary number of that size and never come back)
const absent = "1000003"

func cOptI(p *int) string {
	if p == nil {
		return "None"
	}
	if *p < 0 || *p > 1000003 {
		return "(Some " + absent + ")" // certainly dangling
	}
	return fmt.Sprintf("(Some %d)", *p)
}
func nn(i int) string { // summary integers are naturals; a negative (or absent required) number is rendered out of range
	if i < 0 {
		return absent
	}
	return fmt.Sprintf("%d", i)
}
func cAmap(m map[string]int) string {
	ks := make([]string, 0, len(m))
	for k := range m {
		ks = append(ks, k)
	}
	sort.Strings(ks)
	it := make([]string, len(ks))
	for i, k := range ks {
		it[i] = fmt.Sprintf("(%s,%s)", cstr(k), nn(m[k]))
	}
	return cList(it)
}
func cStrs(xs []string) string {
	it := make([]string, len(xs))
	for i, x := range xs {
		it[i] = cstr(x)
	}
	return cList(it)
}
func cOptF64s(xs []float64) string {
	if xs == nil {
		return "None"
	}
	it := make([]string, len(xs))
	for i, x := range xs {
		it[i] = cN(math.Float64bits(x))
	}
	return "(Some " + cList(it) + ")"
}
func cOptF64p(p *float64) string {
	if p == nil {
		return "None"
	}
	return "(Some " + cN(math.Float64bits(*p)) + ")"
}

// thousandths: the writer emits colours as roundFloat(x, 3); any other number is reported
func millis(xs []float64, fail *string) string {
	it := make([]string, len(xs))
	for i, x := range xs {
		k := math.Round(x * 1000)
		if math.Abs(x-k/1000) > 1e-12 || k < 0 {
			*fail = fmt.Sprintf("colour component %v is not a non-negative multiple of 0.001", x)
			k = 999999
		}
		it[i] = fmt.Sprintf("%d", int64(k))
	}
	return cList(it)
}

func coqViews(vs []sView) string {
	it := make([]string, len(vs))
	for i, v := range vs {
		it[i] = fmt.Sprintf("{| v_buf := %s; v_off := %s; v_len := %s; v_target := %s |}", nn(v.Buf), nn(v.Off), nn(v.Len), nn(v.Target))
	}
	return cList(it)
}
func coqAccs(as []sAcc) string {
	it := make([]string, len(as))
	for i, a := range as {
		it[i] = fmt.Sprintf("{| a_view := %s; a_off := %s; a_comp := %s; a_k := %d; a_count := %s; a_min := %s; a_max := %s |}",
			cOptI(a.View), nn(a.Off), nn(a.Comp), a.K, nn(a.Count), mmvs(a.Min), mmvs(a.Max))
	}
	return cList(it)
}
func coqTexInfo(t sTexInfo) string {
	return fmt.Sprintf("{| ti_index := %s; ti_exts := %s |}", nn(t.Index), cStrs(t.Exts))
}

func coqSummary(s summary, fail *string) string {
	meshes := make([]string, len(s.Meshes))
	for i, m := range s.Meshes {
		ps := make([]string, len(m.Prims))
		for j, p := range m.Prims {
			ps[j] = fmt.Sprintf("{| gp_attrs := %s; gp_idx := %s; gp_mat := %s; gp_mode := %s |}", cAmap(p.Attrs), cOptI(p.Idx), cOptI(p.Mat), cOptI(p.Mode))
		}
		meshes[i] = fmt.Sprintf("{| gm_name := %s; gm_prims := %s |}", cstr(m.Name), cList(ps))
	}
	nodes := make([]string, len(s.Nodes))
	for i, n := range s.Nodes {
		inst := "None"
		if n.Inst != nil {
			inst = "(Some " + cAmap(n.Inst) + ")"
		}
		nodes[i] = fmt.Sprintf("{| gn_name := %s; gn_mesh := %s; gn_t := %s; gn_r := %s; gn_s := %s; gn_inst := %s; gn_light := %s; gn_exts := %s |}",
			cstr(n.Name), cOptI(n.Mesh), cOptF64s(n.T), cOptF64s(n.R), cOptF64s(n.S), inst, cOptI(n.Light), cStrs(n.Exts))
	}
	scenes := make([]string, len(s.Scenes))
	for i, r := range s.Scenes {
		it := make([]string, len(r))
		for j, x := range r {
			it[j] = nn(x)
		}
		scenes[i] = cList(it)
	}
	mats := make([]string, len(s.Mats))
	for i, m := range s.Mats {
		slots := make([]string, len(m.Slots))
		for j, sl := range m.Slots {
			slots[j] = fmt.Sprintf("(%s,(%s,%s))", cstr(sl.Name), coqTexInfo(sl.Info), cOptF64p(sl.Extra))
		}
		em := "None"
		if m.Emissive != nil {
			em = "(Some " + millis(m.Emissive, fail) + ")"
		}
		al := "None"
		if m.Alpha != nil {
			al = "(Some " + cstr(*m.Alpha) + ")"
		}
		mats[i] = fmt.Sprintf("{| gmt_name := %s; gmt_color := %s; gmt_metal := %s; gmt_rough := %s; gmt_emissive := %s; gmt_alpha := %s; gmt_cutoff := %s; gmt_texs := %s; gmt_exts := %s; gmt_extras := %s |}",
			cstr(m.Name), millis(m.Color, fail), cOptF64p(m.Metal), cOptF64p(m.Rough), em, al, cOptF64p(m.Cutoff), cList(slots), cStrs(m.Exts), nn(m.Extras))
	}
	texs := make([]string, len(s.Texs))
	for i, t := range s.Texs {
		texs[i] = fmt.Sprintf("{| gt_source := %s; gt_sampler := %s; gt_exts := %s |}", cOptI(t.Source), cOptI(t.Sampler), cStrs(t.Exts))
	}
	samps := make([]string, len(s.Samplers))
	for i, x := range s.Samplers {
		samps[i] = coqSampler(samplerDesc{x.Name, x.Mag, x.Min, x.WrapS, x.WrapT})
	}
	lights := make([]string, len(s.Lights))
	for i, l := range s.Lights {
		col := "None"
		if l.Color != nil {
			col = "(Some " + millis(l.Color, fail) + ")"
		}
		lights[i] = fmt.Sprintf("{| gl_type := %s; gl_color := %s; gl_range := %s; gl_intensity := %s |}", cstr(l.Type), col, cOptF64p(l.Range), cOptF64p(l.Intensity))
	}
	bufs := make([]string, len(s.Buffers))
	for i, b := range s.Buffers {
		bufs[i] = nn(b)
	}
	return fmt.Sprintf("{| s_buffers := %s; s_views := %s;\n s_accs := %s;\n s_meshes := %s; s_nodes := %s; s_scenes := %s; s_scene := %s;\n s_mats := %s; s_texs := %s; s_images := %s; s_samplers := %s; s_lights := %s; s_used := %s; s_req := %s; s_root_exts := %s; s_version := %s |}",
		cList(bufs), coqViews(s.Views), coqAccs(s.Accs), cList(meshes), cList(nodes), cList(scenes), nn(s.Scene),
		cList(mats), cList(texs), cStrs(s.Images), cList(samps), cList(lights), cStrs(s.Used), cStrs(s.Req), cStrs(s.RootExts), cstr(s.Version))
}

func coqGlb(g glbInfo) string {
	ch := make([]string, len(g.Chunks))
	for i, c := range g.Chunks {
		ch[i] = fmt.Sprintf("(%d,%d,%d)", c[0], c[1], c[2])
	}
	return fmt.Sprintf("{| g_magic := %d; g_version := %d; g_total := %d; g_actual := %d; g_chunks := %s; g_json_len := %d; g_pad_ok := %s |}",
		g.Magic, g.Version, g.Total, g.Actual, cList(ch), g.JSONLen, hx.CoqBool(g.PadOK))
}

func coqObs(s summary, payload []byte, withPayload bool, g *glbInfo, fail *string) string {
	p := "None"
	if withPayload {
		p = "(Some " + hx.CoqListN(payload) + ")"
	}
	gl := "None"
	if g != nil {
		gl = "(Some " + coqGlb(*g) + ")"
	}
	return fmt.Sprintf("{| o_sum := %s;\n o_payload := %s; o_bin_len := %d; o_glb := %s |}", coqSummary(s, fail), p, len(payload), gl)
}
