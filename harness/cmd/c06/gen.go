// Scene generators: fixed corner cases and the random stream (every choice from the one PRNG).
package main

import (
	"math"

	"verif/harness/hx"
)

func fp(x float64) *fl { v := fl(x); return &v }

// ---------------------------------------------------------------- attribute values
// float64 values at the edges of the float32 image: float32 denormal, below the smallest denormal (rounds to
// +0 / -0), near the largest finite float32, 2^24+1 (ties to even), a float64 denormal, -0
var edgeVals = []float64{1e-40, -1e-40, 1e-46, -1e-46, 3e38, -3.4e38, 16777217, -16777219, 5e-324, math.Copysign(0, -1), 0, 1.0000000596046448, 0.1}

// mode: 0 mixed, 1 negative only, 2 tenths (not float32 values), 3 constant, 4 with NaN / -0 (K = 2, 3 only),
// 5 edge values of the float32 conversion (no NaN: every K)
func genComp(r *hx.Rng, mode int) fl {
	switch mode {
	case 5:
		if r.Chance(2, 3) {
			return fl(hx.Pick(r, edgeVals))
		}
	case 1:
		return fl(-float64(r.Range(1, 4000)) / 8)
	case 2:
		return fl(float64(r.Range(-30, 30)) / 10)
	case 4:
		switch r.Intn(6) {
		case 0:
			return fl(math.NaN())
		case 1:
			return fl(math.Copysign(0, -1))
		case 2:
			return 0
		}
	}
	switch r.Intn(6) {
	case 0:
		return fl(r.Range(-5, 5))
	case 1:
		return fl(float64(r.Range(-1000, 1000)) / 10)
	case 2:
		return fl((r.Float() - 0.5) * 1e6)
	case 3:
		return fl((r.Float() - 0.5) * 1e-6)
	case 4:
		return fl(r.Range(0, 1))
	}
	return fl(r.Float()*2 - 1)
}

func genAttr(r *hx.Rng, name string, k, nv int, rle bool) attrDesc {
	a := attrDesc{Name: name, K: k}
	mode := r.Intn(6)
	if k == 4 && mode == 4 {
		mode = 0 // a NaN in a VEC4 attribute makes the writer declare NaN bounds, which encoding/json refuses
	}
	vec := func() []fl {
		v := make([]fl, k)
		for i := range v {
			if name == "Joint" {
				v[i] = fl(r.Intn(256))
			} else {
				v[i] = genComp(r, mode)
			}
		}
		return v
	}
	if mode == 3 {
		c := vec()
		if rle {
			a.Runs = []runDesc{{N: nv, V: c}}
		} else {
			for i := 0; i < nv; i++ {
				a.Runs = append(a.Runs, runDesc{N: 1, V: c})
			}
		}
		return a
	}
	if !rle {
		for i := 0; i < nv; i++ {
			a.Runs = append(a.Runs, runDesc{N: 1, V: vec()})
		}
		return a
	}
	// long runs: a handful of distinct values, extremes at the ends
	left := nv
	for left > 0 {
		n := left
		if len(a.Runs) < 5 && left > 1 {
			switch r.Intn(3) {
			case 0:
				n = 1
			case 1:
				n = 1 + r.Intn(left)
			default:
				n = 1 + r.Intn(min(left, 7))
			}
		}
		a.Runs = append(a.Runs, runDesc{N: n, V: vec()})
		left -= n
	}
	return a
}

var smallCounts = []int{1, 1, 2, 3, 3, 4, 5, 6, 7, 9, 12}
var bigCounts = []int{65534, 65535, 65535, 65536, 65536, 65537, 65537, 70001}

// element counts around the block sizes a writer might stage its output in (powers of two and their neighbours)
var mediumCounts = []int{255, 256, 257, 511, 512, 1023, 1024, 1024, 1025, 2048, 2048, 3072, 4095, 4096, 4097, 8192, 16384, 32768}

// the pool genMesh draws "big" vertex counts from (switched by the caller for the medium-size stream)
var bigPool = bigCounts

func genMesh(r *hx.Rng, big bool) meshDesc {
	var m meshDesc
	m.Point = r.Chance(1, 3)
	nv := hx.Pick(r, smallCounts)
	if big {
		nv = hx.Pick(r, bigPool)
	}
	if !big && r.Chance(1, 25) {
		nv = 0
	}
	type cand struct {
		name string
		k    int
		p    int // chance in 8
	}
	cands := []cand{{"Position", 3, 7}, {"Normal", 3, 3}, {"TexCoord", 2, 3}, {"Color", 4, 2}, {"Joint", 4, 1}, {"Weight", 4, 1}, {"Foo", 3, 1}, {"Bar", 2, 1}, {"Color", 3, 1}}
	if big {
		cands = []cand{{"Position", 3, 7}, {"TexCoord", 2, 2}, {"Joint", 4, 2}, {"Normal", 3, 1}}
	}
	seen := map[string]bool{}
	if nv > 0 {
		for _, c := range cands {
			if r.Chance(c.p, 8) && !seen[c.name] {
				seen[c.name] = true
				m.Attrs = append(m.Attrs, genAttr(r, c.name, c.k, nv, big))
			}
		}
	}
	if len(m.Attrs) == 0 {
		nv = 0
	}
	// indices
	m.Idx = []int{}
	if nv > 0 {
		n := r.Range(0, 7)
		if r.Chance(1, 10) {
			n = 0 // empty mesh: the model is skipped
		}
		if !m.Point {
			n *= 3
		} else if n > 0 {
			n = r.Range(1, 14)
		}
		for i := 0; i < n; i++ {
			switch {
			case big && i == 0:
				m.Idx = append(m.Idx, nv-1)
			case big && r.Chance(1, 2):
				m.Idx = append(m.Idx, nv-1-r.Intn(4))
			default:
				m.Idx = append(m.Idx, r.Intn(nv))
			}
		}
	}
	return m
}

// ---------------------------------------------------------------- materials, textures
var uris = []string{"a.png", "b.png", "c.jpg", "tex/d.png", "A.png", "tex/a.png"}
var names = []string{"", "m", "n", "steel", "m"}

func genColor(r *hx.Rng) *[4]uint16 {
	if r.Chance(1, 3) {
		return nil
	}
	pick := func() uint16 {
		switch r.Intn(5) {
		case 0:
			return 0
		case 1:
			return 65535
		case 2:
			return uint16(r.Intn(65536))
		case 3:
			return uint16(r.Intn(256)) * 257
		}
		return 32768
	}
	a := pick()
	c := [4]uint16{pick(), pick(), pick(), a}
	return &c
}
func genOptF(r *hx.Rng) *fl {
	switch r.Intn(5) {
	case 0:
		return nil
	case 1:
		return fp(0)
	case 2:
		return fp(1)
	case 3:
		return fp(0.5)
	}
	return fp(float64(r.Range(0, 100)) / 100)
}

var extKinds = []string{"specgloss", "transmission", "volume", "specular", "clearcoat", "iridescence", "sheen", "anisotropy", "ior", "unlit", "dispersion", "emissive"}

func genMaterial(r *hx.Rng, d *sceneDesc) matDesc {
	tex := func(p int) int {
		if len(d.Textures) == 0 || !r.Chance(p, 8) {
			return -1
		}
		return r.Intn(len(d.Textures))
	}
	m := matDesc{Name: hx.Pick(r, names), Pbr: r.Chance(3, 4), BaseTex: -1, MRTex: -1, NormalTex: -1, OccTex: -1}
	if m.Pbr {
		m.BaseColor = genColor(r)
		m.BaseTex, m.MRTex = tex(4), tex(2)
		m.Metallic, m.Roughness = genOptF(r), genOptF(r)
	}
	if len(d.Exts) > 0 {
		for i, n := 0, r.Intn(3); i < n; i++ {
			e := r.Intn(len(d.Exts))
			dup := false
			for _, x := range m.Exts {
				if d.Exts[x].Kind == d.Exts[e].Kind {
					dup = true
				}
			}
			if !dup {
				m.Exts = append(m.Exts, e)
			}
		}
	}
	if m.NormalTex = tex(3); m.NormalTex >= 0 {
		m.NormalSc = genOptF(r)
	}
	if m.OccTex = tex(2); m.OccTex >= 0 {
		m.OccSt = genOptF(r)
	}
	if r.Chance(1, 3) {
		m.Emissive = genColor(r)
	}
	switch r.Intn(6) {
	case 0:
		m.AlphaMode = "OPAQUE"
	case 1:
		m.AlphaMode = "BLEND"
	case 2, 3:
		m.AlphaMode = "MASK"
		if r.Chance(2, 3) {
			m.AlphaCut = fp(float64(r.Range(0, 10)) / 10)
		}
	}
	if r.Chance(1, 40) {
		m.AlphaCut = fp(0.5) // most likely without MASK: the writers refuse the scene
	}
	if r.Chance(1, 4) {
		m.Extras = hx.Pick(r, []int{1, 2, 3, -1})
	}
	return m
}

// mutate one field of a by-value copy of a material (or none: an equal-by-value duplicate)
func perturb(r *hx.Rng, m matDesc, d *sceneDesc) matDesc {
	m.Exts = append([]int{}, m.Exts...)
	otherTex := func(cur int) int {
		if len(d.Textures) == 0 {
			return cur
		}
		return r.Intn(len(d.Textures))
	}
	// a texture slot of the copy refers to a texture that differs from the original's only in the extension
	// list / the extension value / the sampler name (fix 31c30a5: PolyformTexture.equal)
	texVariant := func(cur int) int {
		if cur < 0 {
			return cur
		}
		t := d.Textures[cur]
		switch r.Intn(4) {
		case 0:
			t.Transform = (t.Transform + 1 + r.Intn(2)) % 3
		case 1:
			t.ExtShared = !t.ExtShared
			if t.Transform == 0 {
				t.Transform = 1
			}
		case 2:
			if t.Sampler >= 0 {
				sm := d.Samplers[t.Sampler]
				sm.Name += "'"
				d.Samplers = append(d.Samplers, sm)
				t.Sampler = len(d.Samplers) - 1
			} else {
				t.Transform = 1 - min(t.Transform, 1)
			}
		default: // same everything under another pointer: still equal
		}
		d.Textures = append(d.Textures, t)
		return len(d.Textures) - 1
	}
	switch r.Intn(17) {
	case 15, 16: // same material, other extras (fix fd7cca0)
		m.Extras = hx.Pick(r, []int{0, 1, 2, 3, -1})
	case 12:
		if m.Pbr {
			m.BaseTex = texVariant(m.BaseTex)
		}
	case 13:
		m.NormalTex = texVariant(m.NormalTex)
	case 14:
		if m.Pbr {
			m.MRTex = texVariant(m.MRTex)
		}
		m.OccTex = texVariant(m.OccTex)
	case 0, 1, 2: // exact duplicate under a different pointer
	case 3:
		m.Name = hx.Pick(r, names)
	case 4:
		m.NormalTex = otherTex(m.NormalTex)
	case 5:
		m.OccTex = otherTex(m.OccTex)
	case 6:
		if m.Pbr {
			m.BaseTex = otherTex(m.BaseTex)
		}
	case 7:
		if m.Pbr {
			m.Roughness = genOptF(r)
		}
	case 8:
		m.Emissive = genColor(r)
	case 9:
		if m.NormalTex >= 0 {
			m.NormalSc = genOptF(r)
		}
	case 10:
		if m.Pbr {
			m.BaseColor = genColor(r)
		}
	case 11:
		if len(d.Exts) > 0 {
			m.Exts = []int{r.Intn(len(d.Exts))}
		}
	}
	return m
}

func genScene(r *hx.Rng, big bool) sceneDesc {
	var d sceneDesc
	nm := r.Range(1, 3)
	if big {
		nm = r.Range(1, 2)
	}
	for i := 0; i < nm; i++ {
		d.Meshes = append(d.Meshes, genMesh(r, big && i == 0))
	}
	for i, n := 0, r.Intn(3); i < n; i++ {
		d.Samplers = append(d.Samplers, samplerDesc{Name: hx.Pick(r, []string{"", "s", "t"}),
			Mag: hx.Pick(r, []int{0, 9728, 9729}), Min: hx.Pick(r, []int{0, 9728, 9987}),
			WrapS: hx.Pick(r, []int{0, 33071, 10497}), WrapT: hx.Pick(r, []int{0, 33648, 10497})})
	}
	for i, n := 0, r.Intn(5); i < n; i++ {
		t := texDesc{URI: hx.Pick(r, uris), Sampler: -1}
		if len(d.Samplers) > 0 && r.Chance(1, 2) {
			t.Sampler = r.Intn(len(d.Samplers))
		}
		if r.Chance(1, 4) {
			t.Transform = r.Range(1, 2)
			t.ExtShared = r.Chance(1, 2)
		}
		d.Textures = append(d.Textures, t)
	}
	for i, n := 0, r.Intn(4); i < n; i++ {
		e := extDesc{Kind: hx.Pick(r, extKinds), F: []fl{fl(float64(r.Range(0, 8)) / 4), fl(float64(r.Range(0, 8)) / 8)}}
		if r.Chance(1, 3) && i > 0 {
			e = d.Exts[r.Intn(i)] // same kind and values under another Go value
			e.Tex = append([]int{}, e.Tex...)
			e.F = append([]fl{}, e.F...)
		} else {
			for range extSlots[e.Kind] {
				t := -1
				if len(d.Textures) > 0 && r.Chance(1, 2) {
					t = r.Intn(len(d.Textures))
				}
				e.Tex = append(e.Tex, t)
			}
		}
		d.Exts = append(d.Exts, e)
	}
	for i, n := 0, r.Intn(5); i < n; i++ {
		if i > 0 && r.Chance(1, 2) {
			d.Materials = append(d.Materials, perturb(r, d.Materials[r.Intn(i)], &d))
		} else {
			d.Materials = append(d.Materials, genMaterial(r, &d))
		}
	}
	nmo := r.Range(1, 6)
	if big {
		nmo = r.Range(1, 3)
	}
	vec3 := func() *[3]fl { return &[3]fl{genComp(r, 0), genComp(r, 2), genComp(r, 0)} }
	// node transforms: now and then the identity / zero (a value a writer might be tempted to drop), -0, float64 edge values
	trs3 := func(unit fl) *[3]fl {
		switch r.Intn(6) {
		case 0:
			return &[3]fl{unit, unit, unit}
		case 1:
			e := []fl{fl(math.Copysign(0, -1)), 5e-324, 1e308, -1e-300, unit, 0.1}
			return &[3]fl{hx.Pick(r, e), hx.Pick(r, e), hx.Pick(r, e)}
		}
		return vec3()
	}
	for i := 0; i < nmo; i++ {
		mo := modelDesc{Name: hx.Pick(r, []string{"", "a", "b", "model"}), Mesh: r.Intn(len(d.Meshes)), Material: -1}
		if i > 0 && r.Chance(1, 3) {
			mo.Mesh = d.Models[r.Intn(i)].Mesh // repeated mesh pointer
		}
		if len(d.Materials) > 0 && r.Chance(3, 4) {
			mo.Material = r.Intn(len(d.Materials))
		}
		if r.Chance(1, 3) {
			mo.T = trs3(0)
		}
		if r.Chance(1, 4) {
			mo.R = &[4]fl{genComp(r, 2), genComp(r, 2), genComp(r, 2), genComp(r, 0)}
			if r.Chance(1, 4) {
				mo.R = &[4]fl{0, 0, 0, 1}
			}
		}
		if r.Chance(1, 4) {
			mo.S = trs3(1)
		}
		if r.Chance(1, 5) {
			for k, n := 0, r.Range(1, 3); k < n; k++ {
				in := instDesc{T: *vec3(), S: *vec3(), R: [4]fl{genComp(r, 2), genComp(r, 2), genComp(r, 1), genComp(r, 0)}}
				if r.Chance(1, 3) {
					in = instDesc{T: [3]fl{genComp(r, 5), genComp(r, 5), genComp(r, 4)}, S: [3]fl{1, genComp(r, 5), 1}, R: [4]fl{0, genComp(r, 5), 0, 1}}
				}
				mo.Inst = append(mo.Inst, in)
			}
		}
		d.Models = append(d.Models, mo)
	}
	if r.Chance(2, 3) {
		alias(r, &d)
	}
	for i, n := 0, r.Intn(6)-3; i < n; i++ {
		l := lightDesc{Type: hx.Pick(r, []string{"", "point", "spot", "directional"}), Color: genColor(r), Pos: *trs3(0)}
		if r.Chance(1, 2) {
			l.Range = genOptF(r)
		}
		if r.Chance(1, 2) {
			l.Intensity = fp(float64(r.Range(0, 50)) / 4)
		}
		d.Lights = append(d.Lights, l)
	}
	// how the documents are produced: mostly the two package-level writers, sometimes one Writer used twice or filled
	// by several calls (state carried between calls of the public API)
	switch r.Intn(10) {
	case 0:
		d.Via = "reuse"
	case 1:
		d.Via, d.Split = "split", r.Intn(len(d.Models)+1)
	case 2:
		if len(d.Lights) > 0 {
			d.Via = "addlight"
		}
	}
	return d
}

// fixDesc keeps a replayed description within its own index ranges
func fixDesc(d *sceneDesc) {
	clamp := func(i *int, n int) {
		if *i >= n {
			*i = -1
		}
	}
	for i := range d.Textures {
		clamp(&d.Textures[i].Sampler, len(d.Samplers))
	}
	for i := range d.Materials {
		m := &d.Materials[i]
		for _, p := range []*int{&m.BaseTex, &m.MRTex, &m.NormalTex, &m.OccTex} {
			clamp(p, len(d.Textures))
		}
	}
	okRef := func(r *sliceRef, n func(int) int, pools int) bool {
		return r != nil && r.Pool >= 0 && r.Pool < pools && r.Off >= 0 && r.Len >= 0 && r.Off+r.Len <= n(r.Pool)
	}
	for i := range d.Meshes {
		m := &d.Meshes[i]
		for j := range m.Attrs {
			if a := &m.Attrs[j]; a.Ref != nil && !okRef(a.Ref, func(p int) int { return d.AttrPool[p].count() }, len(d.AttrPool)) {
				a.Ref = nil
			}
		}
		if m.IdxRef != nil && !okRef(m.IdxRef, func(p int) int { return len(d.IdxPool[p]) }, len(d.IdxPool)) {
			m.IdxRef = nil
		}
	}
	var ms []modelDesc
	for _, mo := range d.Models {
		if mo.SameAs != nil && (*mo.SameAs < 0 || *mo.SameAs >= len(ms)) {
			mo.SameAs = nil
		}
		if mo.InstRef != nil && !okRef(mo.InstRef, func(p int) int { return len(d.InstPool[p]) }, len(d.InstPool)) {
			mo.InstRef = nil
		}
		if mo.Mesh >= 0 && mo.Mesh < len(d.Meshes) {
			clamp(&mo.Material, len(d.Materials))
			ms = append(ms, mo)
		}
	}
	d.Models = ms
}

// ---------------------------------------------------------------- aliasing between slice-typed inputs
func genInst(r *hx.Rng) instDesc {
	v := func() [3]fl { return [3]fl{genComp(r, 0), genComp(r, 2), genComp(r, 0)} }
	return instDesc{T: v(), S: v(), R: [4]fl{genComp(r, 2), genComp(r, 2), genComp(r, 1), genComp(r, 0)}}
}

// pickRef chooses a view of a backing array of length n: prefix, suffix, inner window or the whole array
func pickRef(r *hx.Rng, pool, n, minLen int) *sliceRef {
	if n < minLen || n == 0 {
		return nil
	}
	l := minLen + r.Intn(n-minLen+1)
	if l == 0 {
		l = 1
	}
	switch r.Intn(4) {
	case 0:
		return &sliceRef{Pool: pool, Off: 0, Len: l} // prefix
	case 1:
		return &sliceRef{Pool: pool, Off: n - l, Len: l} // suffix
	case 2:
		return &sliceRef{Pool: pool, Off: 0, Len: n} // whole
	}
	return &sliceRef{Pool: pool, Off: r.Intn(n - l + 1), Len: l}
}

// alias rewrites some slice-typed inputs of a generated scene into views of shared backing arrays
func alias(r *hx.Rng, d *sceneDesc) {
	// GPU instances: one or two placement arrays; models take prefixes / suffixes / windows / the same view, or an
	// equal-by-value private copy
	if r.Chance(2, 3) {
		for p, np := 0, r.Range(1, 2); p < np; p++ {
			var arr []instDesc
			for i, n := 0, r.Range(2, 6); i < n; i++ {
				arr = append(arr, genInst(r))
			}
			d.InstPool = append(d.InstPool, arr)
		}
		var last *sliceRef
		for i := range d.Models {
			mo := &d.Models[i]
			if mo.SameAs != nil || !r.Chance(1, 2) {
				continue
			}
			p := r.Intn(len(d.InstPool))
			ref := pickRef(r, p, len(d.InstPool[p]), 1)
			if last != nil && r.Chance(1, 4) {
				c := *last
				ref = &c // identical view
			}
			if last != nil && r.Chance(1, 4) {
				ref = &sliceRef{Pool: last.Pool, Off: last.Off, Len: 1 + r.Intn(len(d.InstPool[last.Pool])-last.Off)} // same start, other length
			}
			if r.Chance(1, 5) {
				mo.Inst = append([]instDesc{}, d.InstPool[ref.Pool][ref.Off:ref.Off+ref.Len]...) // equal by value, own array
				mo.InstRef = nil
			} else {
				mo.Inst, mo.InstRef = nil, ref
			}
			last = ref
		}
	}
	// attribute data: float attributes of small meshes become views of one array per arity
	if r.Chance(1, 2) {
		pools := map[int]int{}
		for _, k := range []int{3, 2, 4} {
			if r.Chance(2, 3) {
				pools[k] = len(d.AttrPool)
				d.AttrPool = append(d.AttrPool, genAttr(r, "pool", k, r.Range(6, 14), false))
			}
		}
		for i := range d.Meshes {
			m := &d.Meshes[i]
			if len(m.Attrs) == 0 {
				continue
			}
			nv := m.Attrs[0].count()
			off := -1
			for j := range m.Attrs {
				a := &m.Attrs[j]
				p, ok := pools[a.K]
				if !ok || a.Name == "Joint" || nv == 0 || nv > d.AttrPool[p].count() || r.Chance(1, 3) {
					continue
				}
				if off < 0 || r.Chance(1, 2) {
					off = r.Intn(d.AttrPool[p].count() - nv + 1)
					if r.Chance(1, 2) {
						off = 0
					}
				}
				if off+nv > d.AttrPool[p].count() {
					off = 0
				}
				a.Ref, a.Runs = &sliceRef{Pool: p, Off: off, Len: nv}, nil
			}
		}
	}
	// indices: meshes with at least 3 vertices index through views of one array of small indices
	if r.Chance(1, 2) {
		var arr []int
		for i, n := 0, 3*r.Range(2, 5); i < n; i++ {
			arr = append(arr, r.Intn(3))
		}
		d.IdxPool = append(d.IdxPool, arr)
		for i := range d.Meshes {
			m := &d.Meshes[i]
			if len(m.Attrs) == 0 || len(m.Idx) == 0 || r.Chance(1, 2) {
				continue
			}
			nv := m.Attrs[0].count()
			if m.Attrs[0].Ref != nil {
				nv = m.Attrs[0].Ref.Len
			}
			if nv < 3 {
				continue
			}
			l := 3 * r.Range(1, len(arr)/3)
			off := 0
			if r.Chance(1, 2) {
				off = r.Intn(len(arr) - l + 1)
			}
			m.IdxRef, m.Idx = &sliceRef{Pool: 0, Off: off, Len: l}, nil
		}
	}
	// the same PolyformModel value twice in the model list
	if len(d.Models) > 1 && r.Chance(1, 4) {
		i := r.Range(1, len(d.Models)-1)
		j := r.Intn(i)
		if d.Models[j].SameAs == nil {
			d.Models[i] = modelDesc{SameAs: &j, Mesh: d.Models[j].Mesh, Material: d.Models[j].Material}
		}
	}
}

// ---------------------------------------------------------------- fixed scenes
func posAttr(vs ...[3]float64) attrDesc {
	a := attrDesc{Name: "Position", K: 3}
	for _, v := range vs {
		a.Runs = append(a.Runs, runDesc{N: 1, V: []fl{fl(v[0]), fl(v[1]), fl(v[2])}})
	}
	return a
}
func plainMat(name string) matDesc {
	return matDesc{Name: name, Pbr: true, BaseTex: -1, MRTex: -1, NormalTex: -1, OccTex: -1}
}

func fixedScenes() []sceneDesc {
	tri := meshDesc{Attrs: []attrDesc{posAttr([3]float64{0, 0, 0}, [3]float64{1, 0, 0}, [3]float64{0, 1, 0})}, Idx: []int{0, 1, 2}}
	quad := meshDesc{Attrs: []attrDesc{
		posAttr([3]float64{0, 0, 0}, [3]float64{1, 0, 0}, [3]float64{0, 1, 0}, [3]float64{1, 1, 0}),
		{Name: "TexCoord", K: 2, Runs: []runDesc{{1, []fl{0, 0}}, {1, []fl{1, 0}}, {1, []fl{0, 1}}, {1, []fl{1, 1}}}}},
		Idx: []int{0, 1, 2, 2, 1, 3}}
	neg := meshDesc{Point: true, Attrs: []attrDesc{posAttr([3]float64{-0.1, -2.5, -7}, [3]float64{-3, -0.3, -9})}, Idx: []int{0, 1}}
	m := func(mesh, mat int) modelDesc { return modelDesc{Name: "a", Mesh: mesh, Material: mat} }
	var out []sceneDesc
	// 0: nothing to write: no buffer, no BIN chunk
	out = append(out, sceneDesc{Meshes: []meshDesc{{Idx: []int{}}}, Models: []modelDesc{m(0, -1)}})
	// 1: one triangle (three u16 indices: 42 bytes)
	out = append(out, sceneDesc{Meshes: []meshDesc{tri}, Models: []modelDesc{m(0, -1)}})
	// 2: one triangle then a second mesh: float view at offset 42 (known finding gltf:unaligned-view)
	out = append(out, sceneDesc{Meshes: []meshDesc{tri, quad}, Models: []modelDesc{m(0, -1), m(1, -1)}})
	// 3: two triangles: aligned
	out = append(out, sceneDesc{Meshes: []meshDesc{quad}, Models: []modelDesc{m(0, -1)}})
	// 4: negative-only, non-float32 coordinates
	out = append(out, sceneDesc{Meshes: []meshDesc{neg}, Models: []modelDesc{m(0, -1)}})
	// 5: same mesh pointer three times: twice with the same material, once with another
	out = append(out, sceneDesc{Meshes: []meshDesc{quad}, Materials: []matDesc{plainMat("x"), plainMat("y")},
		Models: []modelDesc{m(0, 0), m(0, 0), m(0, 1)}})
	// 6: materials equal by value under two pointers / differing only in the normal texture (fix 74566f1)
	ma, mb, mc := plainMat("x"), plainMat("x"), plainMat("x")
	ma.NormalTex, mb.NormalTex, mc.NormalTex = 0, 1, 0
	out = append(out, sceneDesc{Meshes: []meshDesc{quad, tri},
		Textures:  []texDesc{{URI: "a.png", Sampler: -1}, {URI: "b.png", Sampler: -1}},
		Materials: []matDesc{ma, mb, mc},
		Models:    []modelDesc{m(0, 0), m(0, 1), m(1, 2), m(1, 0)}})
	// 7: occlusion texture differs
	oa, ob := plainMat("o"), plainMat("o")
	oa.OccTex, ob.OccTex = 0, 1
	out = append(out, sceneDesc{Meshes: []meshDesc{quad},
		Textures:  []texDesc{{URI: "a.png", Sampler: -1}, {URI: "b.png", Sampler: -1}},
		Materials: []matDesc{oa, ob}, Models: []modelDesc{m(0, 0), m(0, 1)}})
	// 8: instances, TRS, lights
	inst := modelDesc{Name: "i", Mesh: 0, Material: -1, T: &[3]fl{1, 2, 3}, R: &[4]fl{0, 0, 0, 1}, S: &[3]fl{2, 2, 2},
		Inst: []instDesc{{T: [3]fl{0, 0, 0}, R: [4]fl{0, 0, 0, 1}, S: [3]fl{1, 1, 1}}, {T: [3]fl{-1, 0.1, 5}, R: [4]fl{0, 1, 0, 0}, S: [3]fl{1, 2, 3}}}}
	out = append(out, sceneDesc{Meshes: []meshDesc{tri}, Models: []modelDesc{inst},
		Lights: []lightDesc{{Type: "", Pos: [3]fl{0, 5, 0}}, {Type: "spot", Color: &[4]uint16{65535, 0, 32768, 65535}, Range: fp(10), Intensity: fp(2.5), Pos: [3]fl{1, 1, 1}}}})
	// 9: JOINTS_0 bytes (4 bytes per vertex, 3 vertices: 12) then float weights; odd byte counts
	out = append(out, sceneDesc{Meshes: []meshDesc{{Point: true, Attrs: []attrDesc{
		{Name: "Joint", K: 4, Runs: []runDesc{{3, []fl{1, 2, 3, 255}}}},
		{Name: "Weight", K: 4, Runs: []runDesc{{3, []fl{0.25, 0.25, 0.25, 0.25}}}},
		posAttr([3]float64{0, 0, 0}, [3]float64{1, 0, 0}, [3]float64{0, 1, 0})}, Idx: []int{2, 1, 0}}},
		Models: []modelDesc{m(0, -1)}})
	// 10: alphaCutoff without MASK: refused
	bad := plainMat("bad")
	bad.AlphaCut = fp(0.5)
	out = append(out, sceneDesc{Meshes: []meshDesc{tri}, Materials: []matDesc{bad}, Models: []modelDesc{m(0, 0)}})
	// 11-13: the index width boundary, last vertex referenced
	for _, nv := range []int{65535, 65536, 65537} {
		out = append(out, sceneDesc{Meshes: []meshDesc{{Attrs: []attrDesc{{Name: "Position", K: 3,
			Runs: []runDesc{{N: nv - 2, V: []fl{0.1, -0.2, 0.3}}, {N: 1, V: []fl{-5, 7, 0}}, {N: 1, V: []fl{9, -9, 0.7}}}}},
			Idx: []int{0, nv - 2, nv - 1}}}, Models: []modelDesc{m(0, -1)}})
	}
	// 14: NaN position skipped by the bounds, -0
	out = append(out, sceneDesc{Meshes: []meshDesc{{Point: true, Attrs: []attrDesc{{Name: "Position", K: 3, Runs: []runDesc{
		{1, []fl{fl(math.NaN()), 100, 100}}, {1, []fl{fl(math.Copysign(0, -1)), 0, 1}}, {1, []fl{0, fl(math.Copysign(0, -1)), 2}}}}}, Idx: []int{0, 1, 2}}},
		Models: []modelDesc{m(0, -1)}})
	// 15: texture transform extension (required), shared texture pointer across two materials, sampler de-duplication
	ta, tb := plainMat("t1"), plainMat("t2")
	ta.BaseTex, tb.BaseTex, tb.MRTex = 0, 0, 1
	out = append(out, sceneDesc{Meshes: []meshDesc{quad},
		Samplers:  []samplerDesc{{Name: "s", Mag: 9729, Min: 9987, WrapS: 10497, WrapT: 10497}},
		Textures:  []texDesc{{URI: "a.png", Sampler: 0, Transform: 2}, {URI: "a.png", Sampler: 0}},
		Materials: []matDesc{ta, tb}, Models: []modelDesc{m(0, 0), m(0, 1)}})
	// 16: LOD set-up: one placement array, the detailed mesh uses placements[:2], the coarse mesh all five, a third
	// model the last three (views of one backing array that start at the same / at another element)
	var place []instDesc
	for i := 0; i < 5; i++ {
		place = append(place, instDesc{T: [3]fl{fl(i), fl(2 * i), 0.5}, R: [4]fl{0, 0, 0, 1}, S: [3]fl{1, fl(i + 1), 1}})
	}
	lod := func(mesh, off, n int) modelDesc {
		return modelDesc{Name: "lod", Mesh: mesh, Material: -1, InstRef: &sliceRef{Pool: 0, Off: off, Len: n}}
	}
	out = append(out, sceneDesc{Meshes: []meshDesc{quad, tri}, InstPool: [][]instDesc{place},
		Models: []modelDesc{lod(0, 0, 2), lod(1, 0, 5), lod(1, 2, 3), lod(0, 0, 2)}})
	// 17: two meshes whose Position data are a prefix and a window of one array, sharing one index array; the same
	// model value listed twice
	zero := 0
	pool := posAttr([3]float64{0, 0, 0}, [3]float64{1, 0, 0}, [3]float64{0, 1, 0}, [3]float64{1, 1, 0}, [3]float64{2, 2, -1}, [3]float64{-3, 0.1, 7})
	out = append(out, sceneDesc{AttrPool: []attrDesc{pool}, IdxPool: [][]int{{0, 1, 2, 2, 1, 0}},
		Meshes: []meshDesc{
			{Attrs: []attrDesc{{Name: "Position", K: 3, Ref: &sliceRef{Pool: 0, Off: 0, Len: 3}}}, IdxRef: &sliceRef{Pool: 0, Off: 0, Len: 3}},
			{Attrs: []attrDesc{{Name: "Position", K: 3, Ref: &sliceRef{Pool: 0, Off: 2, Len: 4}}}, IdxRef: &sliceRef{Pool: 0, Off: 0, Len: 6}},
			{Attrs: []attrDesc{{Name: "Position", K: 3, Ref: &sliceRef{Pool: 0, Off: 0, Len: 3}}}, IdxRef: &sliceRef{Pool: 0, Off: 3, Len: 3}}},
		Models: []modelDesc{m(0, -1), m(1, -1), {SameAs: &zero}, m(2, -1)}})
	// 18-23: one Writer used for several documents / filled by several calls: the scenes 5, 6, 8, 15, 8, 2 again
	for _, v := range []struct {
		i     int
		via   string
		split int
	}{{5, "reuse", 0}, {6, "split", 2}, {8, "addlight", 0}, {15, "split", 1}, {8, "reuse", 0}, {2, "split", 1}} {
		d := out[v.i]
		d.Via, d.Split = v.via, v.split
		out = append(out, d)
	}
	// 24: node transforms that are the identity, lights at the origin, an instance at the identity
	ident := modelDesc{Name: "id", Mesh: 0, Material: -1, T: &[3]fl{0, 0, 0}, R: &[4]fl{0, 0, 0, 1}, S: &[3]fl{1, 1, 1},
		Inst: []instDesc{{T: [3]fl{0, 0, 0}, R: [4]fl{0, 0, 0, 1}, S: [3]fl{1, 1, 1}}}}
	out = append(out, sceneDesc{Meshes: []meshDesc{tri}, Models: []modelDesc{ident, m(0, -1)},
		Lights: []lightDesc{{Type: "point", Pos: [3]fl{0, 0, 0}}, {Type: "directional", Pos: [3]fl{fl(math.Copysign(0, -1)), 0, 0}}}})
	// 25: image URIs that differ only in case / directory; the same texture in two slots of one material
	ua, ub := plainMat("u"), plainMat("u")
	ua.BaseTex, ua.MRTex, ua.NormalTex, ub.BaseTex, ub.OccTex = 0, 0, 1, 2, 1
	out = append(out, sceneDesc{Meshes: []meshDesc{quad},
		Textures:  []texDesc{{URI: "a.png", Sampler: -1}, {URI: "A.png", Sampler: -1}, {URI: "tex/a.png", Sampler: -1}},
		Materials: []matDesc{ua, ub}, Models: []modelDesc{m(0, 0), m(0, 1)}})
	// 26: scene 15 with the two textures in the other order: the plain texture is stored first, the texture with the
	// (required) KHR_texture_transform is de-duplicated onto it afterwards
	tc, td := plainMat("t1"), plainMat("t2")
	tc.BaseTex, td.BaseTex, td.NormalTex = 0, 1, 1
	out = append(out, sceneDesc{Meshes: []meshDesc{quad},
		Samplers:  []samplerDesc{{Name: "s", Mag: 9729, Min: 9987, WrapS: 10497, WrapT: 10497}},
		Textures:  []texDesc{{URI: "a.png", Sampler: 0}, {URI: "a.png", Sampler: 0, Transform: 2}},
		Materials: []matDesc{tc, td}, Models: []modelDesc{m(0, 0), m(0, 1)}})
	// 27: materials that differ only in their extras ({"id": 1} / {"id": 2} / {"id": 1} again under another map / none / empty map)
	e1, e2, e3, e4, e5 := plainMat("x"), plainMat("x"), plainMat("x"), plainMat("x"), plainMat("x")
	e1.Extras, e2.Extras, e3.Extras, e5.Extras = 1, 2, 1, -1
	out = append(out, sceneDesc{Meshes: []meshDesc{quad}, Materials: []matDesc{e1, e2, e3, e4, e5},
		Models: []modelDesc{m(0, 0), m(0, 1), m(0, 2), m(0, 3), m(0, 4)}})
	// 28: 1024 GPU instances (an element count that is a whole number of 1024-element blocks), then a second model
	var many []instDesc
	for i := 0; i < 1024; i++ {
		many = append(many, instDesc{T: [3]fl{fl(i % 7), fl(i / 7), 0.25}, R: [4]fl{0, 0, 0, 1}, S: [3]fl{1, 1, fl(1 + i%3)}})
	}
	out = append(out, sceneDesc{Meshes: []meshDesc{tri, quad}, Models: []modelDesc{{Name: "many", Mesh: 0, Material: -1, Inst: many}, m(1, -1)}})
	return out
}
