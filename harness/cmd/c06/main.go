// C06 harness: glTF / GLB writer.  Generated scenes go through gltf.WriteBinary and gltf.WriteText; an
// independent reader (reader.go) extracts the document structure and the payload; both are rendered as
// Coq cases for Check/C06.v (model comparison + the property checker on the implementation's output).
package main

import (
	"bytes"
	"encoding/json"
	"fmt"
	"math"
	"runtime"
	"strings"

	"verif/harness/hx"

	"github.com/EliCDavis/polyform/formats/gltf"
)

// payloads longer than this are judged on the Go side (payload.go) and only the structure goes to Coq
const coqPayloadMax = 2600

type writeResult struct {
	out   []byte
	err   error
	crash string
}

func guarded(f func(*bytes.Buffer) error) (res writeResult) {
	var buf bytes.Buffer
	defer func() {
		if rec := recover(); rec != nil {
			if re, ok := rec.(runtime.Error); ok {
				res.crash = re.Error()
			}
			res.err = fmt.Errorf("panic: %v", rec)
		}
		res.out = buf.Bytes()
	}()
	res.err = f(&buf)
	return
}

func liveModels(d sceneDesc) []modelDesc {
	var out []modelDesc
	for _, mo := range d.Models {
		m := d.Meshes[mo.Mesh]
		n := len(m.Idx)
		if !m.Point {
			n /= 3
		}
		if n > 0 {
			out = append(out, mo)
		}
	}
	return out
}

func descKey(d sceneDesc) string {
	b, _ := json.Marshal(d)
	return string(b)
}

type docs struct {
	sc       string
	key      string
	live     bool
	glb, txt writeResult
	g        glbInfo
	sg, st   summary
	pg, pt   []byte // payloads
	fail     string
	failKey  string
	rejected bool
	rd       sceneDesc
}

func (x *docs) setFail(key, msg string) {
	if x.fail == "" {
		x.fail, x.failKey = msg, key
	}
}

// observe writes the scene with both writers and reads the documents back.
func observe(d sceneDesc) *docs {
	b := build(d)
	rd := resolveDesc(d) // the by-value scene: what the model and the oracles judge against
	x := &docs{sc: coqScene(rd, b), key: descKey(d), live: len(liveModels(rd)) > 0, rd: rd}
	x.glb, x.txt = writeVia(d, b.scene, x)
	if x.glb.crash != "" || x.txt.crash != "" {
		x.setFail("gltf:crash", "writer panicked: "+x.glb.crash+" "+x.txt.crash)
	}
	if x.glb.err != nil || x.txt.err != nil {
		x.rejected = true
		return x
	}
	var err error
	if x.g, err = parseGLB(x.glb.out); err != nil {
		x.setFail("gltf:glb-unparsable", err.Error())
	}
	if x.sg, err = readDoc(x.g.JSON); err != nil {
		x.setFail("gltf:json-unparsable", "GLB JSON chunk: "+err.Error())
	}
	x.pg = x.g.Bin
	// padding bytes: spaces after the JSON text, zeros after the buffer
	if n := len(x.g.JSON); n == 0 || x.g.JSON[n-1] != '}' {
		x.g.PadOK = false
	}
	if len(x.sg.Buffers) == 1 && x.sg.Buffers[0] >= 0 && x.sg.Buffers[0] <= len(x.pg) {
		for _, c := range x.pg[x.sg.Buffers[0]:] {
			if c != 0 {
				x.g.PadOK = false
			}
		}
	}
	if x.st, err = readDoc(x.txt.out); err != nil {
		x.setFail("gltf:json-unparsable", ".gltf: "+err.Error())
	}
	if len(x.st.Buffers) > 0 {
		if x.pt, err = decodeURI(x.st.URI); err != nil {
			x.setFail("gltf:buffer-uri", err.Error())
		}
	}
	if x.sg.URI != "" {
		x.setFail("gltf:buffer-uri", "GLB buffer 0 has a uri")
	}
	return x
}

// textOf is what gltf.WriteText does with a writer that already exists
func textOf(w *gltf.Writer, out *bytes.Buffer) error {
	js, err := json.MarshalIndent(w.ToGLTF(gltf.BufferEmbeddingStrategy_Base64Encode), "", "    ")
	if err != nil {
		return err
	}
	_, err = out.Write(js)
	return err
}

// writeVia produces the two documents the way d.Via says (public API of formats/gltf only)
func writeVia(d sceneDesc, sc gltf.PolyformScene, x *docs) (glb, txt writeResult) {
	fill := func(w *gltf.Writer) error {
		switch d.Via {
		case "split":
			k := d.Split
			if k < 0 || k > len(sc.Models) {
				k = len(sc.Models)
			}
			if err := w.AddScene(gltf.PolyformScene{Models: sc.Models[:k]}); err != nil {
				return err
			}
			return w.AddScene(gltf.PolyformScene{Models: sc.Models[k:], Lights: sc.Lights})
		case "addlight":
			if err := w.AddScene(gltf.PolyformScene{Models: sc.Models}); err != nil {
				return err
			}
			for _, l := range sc.Lights {
				w.AddLight(l)
			}
			return nil
		}
		return w.AddScene(sc)
	}
	switch d.Via {
	case "reuse":
		var w *gltf.Writer
		first := guarded(func(out *bytes.Buffer) error {
			var err error
			if w, err = gltf.NewWriterFromScene(sc); err != nil {
				return err
			}
			return w.WriteGLB(out)
		})
		if first.err != nil || w == nil {
			return first, first
		}
		txt = guarded(func(out *bytes.Buffer) error { return textOf(w, out) })
		glb = guarded(func(out *bytes.Buffer) error { return w.WriteGLB(out) })
		// writing a document must not change the writer: same container length, same BIN chunk both times
		// (the JSON text may list extensionsUsed in another order: map iteration)
		if glb.err == nil {
			g1, e1 := parseGLB(first.out)
			g2, e2 := parseGLB(glb.out)
			if e1 != nil || e2 != nil || len(first.out) != len(glb.out) || !bytes.Equal(g1.Bin, g2.Bin) {
				x.setFail("gltf:writer-reuse", fmt.Sprintf("second WriteGLB of one Writer differs from the first: %d vs %d bytes, BIN %d vs %d bytes",
					len(glb.out), len(first.out), len(g2.Bin), len(g1.Bin)))
			}
		}
		return glb, txt
	case "split", "addlight":
		glb = guarded(func(out *bytes.Buffer) error {
			w := gltf.NewWriter()
			if err := fill(w); err != nil {
				return err
			}
			return w.WriteGLB(out)
		})
		txt = guarded(func(out *bytes.Buffer) error {
			w := gltf.NewWriter()
			if err := fill(w); err != nil {
				return err
			}
			return textOf(w, out)
		})
		return glb, txt
	}
	glb = guarded(func(out *bytes.Buffer) error { return gltf.WriteBinary(sc, out) })
	txt = guarded(func(out *bytes.Buffer) error { return gltf.WriteText(sc, out) })
	return glb, txt
}

// checkExtras: the material entry node j's primitive refers to carries the extras of model j's material (fix fd7cca0:
// materials that differ only in their extras used to be merged)
func checkExtras(d sceneDesc, s summary) string {
	live := liveModels(d)
	if len(s.Nodes) < len(live) {
		return ""
	}
	for j, mo := range live {
		nd := s.Nodes[j]
		if mo.Material < 0 || nd.Mesh == nil || *nd.Mesh < 0 || *nd.Mesh >= len(s.Meshes) || len(s.Meshes[*nd.Mesh].Prims) != 1 {
			continue
		}
		mi := s.Meshes[*nd.Mesh].Prims[0].Mat
		if mi == nil || *mi < 0 || *mi >= len(s.Mats) {
			continue // reported by the Coq checker
		}
		if want, got := extrasClass(d.Materials[mo.Material].Extras), s.Mats[*mi].Extras; want != got {
			return fmt.Sprintf("model %d: its material has extras class %d, the material entry %d it refers to has %d", j, want, *mi, got)
		}
	}
	return ""
}

func sceneCase(d sceneDesc) hx.Case {
	x := observe(d)
	c := hx.Case{Kind: "scene", Desc: d, Nontriv: x.live, Key: "s|" + x.key}
	if x.rejected {
		c.Coq = fmt.Sprintf("CReject %s %s %s", x.sc, hx.CoqBool(x.glb.err != nil), hx.CoqBool(x.txt.err != nil))
		c.GoFail, c.FailKey = x.fail, x.failKey
		return c
	}
	big := len(x.pg) > coqPayloadMax || len(x.pt) > coqPayloadMax
	// payload judged here as well (for big scenes this is the only payload oracle)
	if msg := checkPayload(x.rd, x.sg, x.pg); msg != "" {
		x.setFail("gltf:payload", "GLB: "+msg)
	}
	if msg := checkPayload(x.rd, x.st, x.pt); msg != "" {
		x.setFail("gltf:payload", ".gltf: "+msg)
	}
	if msg := checkExtras(x.rd, x.sg); msg != "" {
		x.setFail("gltf:material-extras-merged", "GLB: "+msg)
	}
	if msg := checkExtras(x.rd, x.st); msg != "" {
		x.setFail("gltf:material-extras-merged", ".gltf: "+msg)
	}
	if big && !bytes.Equal(x.pt, x.pg[:min(len(x.pt), len(x.pg))]) {
		x.setFail("gltf:payload", "the two containers carry different buffers")
	}
	var cf string
	og := coqObs(x.sg, x.pg, !big, &x.g, &cf)
	ot := coqObs(x.st, x.pt, !big, nil, &cf)
	if cf != "" {
		x.setFail("gltf:colour-rounding", cf)
	}
	c.Coq = fmt.Sprintf("CScene %s\n (%s)\n (%s)", x.sc, og, ot)
	c.GoFail, c.FailKey = x.fail, x.failKey
	return c
}

// alignCase: component alignment of every accessor, separately (known finding gltf:unaligned-view)
func alignCase(d sceneDesc) (hx.Case, bool) {
	x := observe(d)
	c := hx.Case{Kind: "align", Desc: d, Nontriv: x.live, Key: "a|" + x.key, FailKey: "gltf:unaligned-view"}
	if x.rejected || len(x.sg.Accs) == 0 {
		return c, false
	}
	views, accs := x.sg.Views, x.sg.Accs
	c.Coq = fmt.Sprintf("CAlign %s %s", coqViews(views), coqAccs(stripBounds(accs)))
	if coqViews(x.st.Views) != coqViews(views) || coqAccs(stripBounds(x.st.Accs)) != coqAccs(stripBounds(accs)) {
		// the text container lays the buffer out differently: judge it too (never seen; the scene case reports it)
		c.Coq = fmt.Sprintf("CAlign %s %s", coqViews(append(append([]sView{}, views...), x.st.Views...)),
			coqAccs(stripBounds(append(append([]sAcc{}, accs...), shiftViews(x.st.Accs, len(views))...))))
	}
	return c, true
}

func stripBounds(as []sAcc) []sAcc {
	out := make([]sAcc, len(as))
	for i, a := range as {
		a.Min, a.Max = nil, nil
		out[i] = a
	}
	return out
}
func shiftViews(as []sAcc, k int) []sAcc {
	out := make([]sAcc, len(as))
	for i, a := range as {
		if a.View != nil {
			v := *a.View + k
			a.View = &v
		}
		out[i] = a
	}
	return out
}

// glbCase: the container byte for byte (small scenes only)
func glbCase(d sceneDesc) (hx.Case, bool) {
	x := observe(d)
	c := hx.Case{Kind: "glb", Desc: d, Nontriv: true, Key: "g|" + x.key}
	if x.rejected || len(x.glb.out) > 3000 {
		return c, false
	}
	bin := x.pg
	if len(x.sg.Buffers) == 1 && x.sg.Buffers[0] >= 0 && x.sg.Buffers[0] <= len(bin) {
		bin = bin[:x.sg.Buffers[0]]
	}
	c.Coq = fmt.Sprintf("CGlb %s %s %s", hx.CoqListN(x.g.JSON), hx.CoqListN(bin), hx.CoqListN(x.glb.out))
	c.GoFail, c.FailKey = x.fail, x.failKey
	return c, true
}

func main() {
	run := hx.ParseFlags("C06", "Check.C06")
	for _, in := range run.Inputs() {
		var d sceneDesc
		if err := json.Unmarshal(in.Raw, &d); err != nil {
			continue
		}
		fixDesc(&d)
		switch in.Kind {
		case "align":
			if c, ok := alignCase(d); ok {
				run.Add(c)
			}
		case "glb":
			if c, ok := glbCase(d); ok {
				run.Add(c)
			}
		default:
			run.Add(sceneCase(d))
		}
	}
	if run.Replay != "" {
		run.Finish()
		return
	}
	r := hx.NewRng(run.Seed)
	add := func(d sceneDesc, tag string) {
		c := sceneCase(d)
		run.Add(c)
		run.Count("scene:" + tag)
		if strings.HasPrefix(c.Coq, "CReject") {
			run.Count("scene:rejected")
		}
		run.Count(fmt.Sprintf("scene:models=%d", len(d.Models)))
		if d.Via != "" {
			run.Count("via:" + d.Via)
		}
		starts := map[[2]int]map[int]bool{}
		for _, mo := range d.Models {
			if mo.SameAs != nil {
				run.Count("alias:same-model-value-twice")
			}
			if r := mo.InstRef; r != nil {
				k := [2]int{r.Pool, r.Off}
				if starts[k] == nil {
					starts[k] = map[int]bool{}
				}
				starts[k][r.Len] = true
			}
		}
		for _, ls := range starts {
			if len(ls) > 1 {
				run.Count("alias:instances-same-start-different-length")
			}
		}
		if len(d.InstPool) > 0 {
			run.Count("alias:instance-views")
		}
		if len(d.AttrPool) > 0 {
			run.Count("alias:attribute-views")
		}
		if len(d.IdxPool) > 0 {
			run.Count("alias:index-views")
		}
		if a, ok := alignCase(d); ok {
			run.Add(a)
		}
	}
	// fixed corner cases
	for i, d := range fixedScenes() {
		add(d, "fixed")
		if i < 6 {
			if c, ok := glbCase(d); ok {
				run.Add(c)
			}
		}
	}
	nBig := 4
	if run.Tier == "thorough" {
		nBig = 24
	}
	for i := 0; i < nBig; i++ {
		add(genScene(r, true), "big")
	}
	// medium sizes: vertex counts at and around powers of two (256 ... 32768), run-length encoded like the big ones
	bigPool = mediumCounts
	for i := 0; i < nBig+2; i++ {
		add(genScene(r, true), "medium")
	}
	bigPool = bigCounts
	nGlb := 0
	for i := 0; i < run.N; i++ {
		d := genScene(r, false)
		add(d, "generated")
		if nGlb < 10+run.N/40 && i%3 == 0 {
			if c, ok := glbCase(d); ok {
				run.Add(c)
				nGlb++
			}
		}
	}
	run.Extra["payload_to_coq_max_bytes"] = coqPayloadMax
	run.Finish()
}

func min(a, b int) int {
	if a < b {
		return a
	}
	return b
}

var _ = math.Pi
