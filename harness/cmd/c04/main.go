// C04 harness: PLY write/read round trip.  Every case is one mesh and one writer configuration; polyform
// writes it in ASCII, little- and big-endian, an independent tokenizer (plyx.FileCoq) turns each file into
// a Coq plyfile term, ply.ReadMesh reads each file back.  Check/C04.v compares with the writer model, the
// reader model and the direct oracle.
package main

import (
	"bytes"
	"encoding/json"
	"fmt"
	"io"
	"math"
	"math/big"
	"os"
	"runtime"
	"sort"
	"strings"
	"testing/iotest"
	"time"

	"verif/harness/hx"
	"verif/harness/internal/plyx"

	"github.com/EliCDavis/polyform/formats/ply"
	"github.com/EliCDavis/polyform/modeling"
	"github.com/EliCDavis/vector/vector2"
	"github.com/EliCDavis/vector/vector3"
	"github.com/EliCDavis/vector/vector4"
)

type Attr struct {
	Dim  int         `json:"dim"`
	Name string      `json:"name"`
	Rows [][]float64 `json:"rows"`
}
type Writer struct {
	Dim   int      `json:"dim"`
	Attr  string   `json:"attr"`
	Names []string `json:"names"`
	Type  string   `json:"type"`
	Ptr   bool     `json:"ptr,omitempty"`
}
type Desc struct {
	Topo    string   `json:"topo"` // point | triangle
	N       int      `json:"n"`
	Idx     []int    `json:"idx"`
	Attrs   []Attr   `json:"attrs"`
	Kind    string   `json:"kind"` // default | default-nounspec | custom
	Writers []Writer `json:"writers,omitempty"`
	Unspec  bool     `json:"unspec"`
	// how the written file is handed to ply.ReadMesh: "" (bytes.Reader), onebyte, half, dataerr, chunk (short reads)
	Via string `json:"via,omitempty"`
	// material of the mesh: "" none, "-" a material without texture, else the colour texture URI (TextureFile comment)
	Texture string `json:"texture,omitempty"`
}

var tyOf = map[string]ply.ScalarPropertyType{"char": ply.Char, "uchar": ply.UChar, "short": ply.Short, "ushort": ply.UShort,
	"int": ply.Int, "uint": ply.UInt, "float": ply.Float, "double": ply.Double}
var coqTy = map[string]string{"char": "Char", "uchar": "UChar", "short": "Short", "ushort": "UShort",
	"int": "Int", "uint": "UInt", "float": "Float", "double": "Double"}

func defaultTable() []Writer {
	return []Writer{
		{3, "Position", []string{"x", "y", "z"}, "float", false},
		{3, "Normal", []string{"nx", "ny", "nz"}, "float", false},
		{3, "Color", []string{"red", "green", "blue"}, "uchar", false},
		{3, "FDC", []string{"f_dc_0", "f_dc_1", "f_dc_2"}, "float", true},
		{1, "Opacity", []string{"opacity"}, "float", true},
		{3, "Scale", []string{"scale_0", "scale_1", "scale_2"}, "float", true},
		{4, "Rotation", []string{"rot_0", "rot_1", "rot_2", "rot_3"}, "float", true},
	}
}

func buildMesh(d Desc) modeling.Mesh {
	topo := modeling.PointTopology
	if d.Topo == "triangle" {
		topo = modeling.TriangleTopology
	}
	m := modeling.NewMesh(topo, append([]int(nil), d.Idx...))
	for _, a := range d.Attrs {
		switch a.Dim {
		case 1:
			v := make([]float64, len(a.Rows))
			for i, r := range a.Rows {
				v[i] = r[0]
			}
			m = m.SetFloat1Attribute(a.Name, v)
		case 2:
			v := make([]vector2.Float64, len(a.Rows))
			for i, r := range a.Rows {
				v[i] = vector2.New(r[0], r[1])
			}
			m = m.SetFloat2Attribute(a.Name, v)
		case 3:
			v := make([]vector3.Float64, len(a.Rows))
			for i, r := range a.Rows {
				v[i] = vector3.New(r[0], r[1], r[2])
			}
			m = m.SetFloat3Attribute(a.Name, v)
		case 4:
			v := make([]vector4.Float64, len(a.Rows))
			for i, r := range a.Rows {
				v[i] = vector4.New(r[0], r[1], r[2], r[3])
			}
			m = m.SetFloat4Attribute(a.Name, v)
		}
	}
	return m
}

func propertyWriters(ws []Writer) []ply.PropertyWriter {
	var out []ply.PropertyWriter
	for _, w := range ws {
		t := tyOf[w.Type]
		switch w.Dim {
		case 1:
			p := ply.Vector1PropertyWriter{ModelAttribute: w.Attr, PlyProperty: w.Names[0], Type: t}
			if w.Ptr {
				out = append(out, &p)
			} else {
				out = append(out, p)
			}
		case 2:
			p := ply.Vector2PropertyWriter{ModelAttribute: w.Attr, PlyPropertyX: w.Names[0], PlyPropertyY: w.Names[1], Type: t}
			if w.Ptr {
				out = append(out, &p)
			} else {
				out = append(out, p)
			}
		case 3:
			p := ply.Vector3PropertyWriter{ModelAttribute: w.Attr, PlyPropertyX: w.Names[0], PlyPropertyY: w.Names[1], PlyPropertyZ: w.Names[2], Type: t}
			if w.Ptr {
				out = append(out, &p)
			} else {
				out = append(out, p)
			}
		case 4:
			p := ply.Vector4PropertyWriter{ModelAttribute: w.Attr, PlyPropertyX: w.Names[0], PlyPropertyY: w.Names[1], PlyPropertyZ: w.Names[2], PlyPropertyW: w.Names[3], Type: t}
			if w.Ptr {
				out = append(out, &p)
			} else {
				out = append(out, p)
			}
		}
	}
	return out
}

// writeOne runs the implementation's writer; class: file | declared | crash
func writeOne(d Desc, m modeling.Mesh, f ply.Format) (data []byte, class string, msg string) {
	var buf bytes.Buffer
	class = "file"
	func() {
		defer func() {
			if rec := recover(); rec != nil {
				if _, isRt := rec.(runtime.Error); isRt {
					class, msg = "crash", fmt.Sprint(rec)
				} else {
					class, msg = "declared", fmt.Sprint(rec)
				}
			}
		}()
		var err error
		if d.Kind == "default" {
			err = ply.Write(&buf, m, f)
		} else {
			err = ply.MeshWriter{Format: f, Properties: propertyWriters(tableOf(d)), WriteUnspecifiedProperties: d.Unspec}.Write(m, &buf)
		}
		if err != nil {
			class, msg = "declared", err.Error()
		}
	}()
	return buf.Bytes(), class, msg
}

func strsCoq(xs []string) string {
	it := make([]string, len(xs))
	for i, x := range xs {
		it[i] = hx.CoqString(x)
	}
	return "[" + strings.Join(it, ";") + "]%string"
}

func optsCoq(d Desc) string {
	switch d.Kind {
	case "default":
		return "default_opts"
	case "default-nounspec":
		return "{| o_writers := default_writers; o_unspec := false |}"
	}
	it := make([]string, len(d.Writers))
	for i, w := range d.Writers {
		it[i] = fmt.Sprintf("{| pw_dim := %d%%nat; pw_attr := %s%%string; pw_names := %s; pw_ty := %s |}", w.Dim, hx.CoqString(w.Attr), strsCoq(w.Names), coqTy[w.Type])
	}
	return fmt.Sprintf("{| o_writers := [%s]; o_unspec := %s |}", strings.Join(it, "; "), hx.CoqBool(d.Unspec))
}

func f32w(x float64) uint32 { return math.Float32bits(float32(x)) }

// attributes in the order Mesh.Float{4,3,2,1}Attributes() report them within a dimension (sorted by name)
func sortedAttrs(d Desc) []Attr {
	as := append([]Attr(nil), d.Attrs...)
	sort.SliceStable(as, func(i, j int) bool {
		if as[i].Dim != as[j].Dim {
			return as[i].Dim > as[j].Dim
		}
		return as[i].Name < as[j].Name
	})
	return as
}

// valueCoq renders a mesh value in the model's value domain (Formats/PlyWrite.v): a float32-exact value as its
// float32 word; any other integer of the int32 range as 2^32 + (z + 2^31); any other float64 as 2^64 + its bits
func valueCoq(x float64) string {
	if float64(float32(x)) == x {
		return fmt.Sprint(f32w(x))
	}
	if x == math.Trunc(x) && x >= -2147483648 && x <= 2147483647 {
		return fmt.Sprint(uint64(1)<<32 + uint64(int64(x)+2147483648))
	}
	v := new(big.Int).Lsh(big.NewInt(1), 64)
	return v.Add(v, new(big.Int).SetUint64(math.Float64bits(x))).String()
}

// wideAllowed: values outside float32 are only meaningful for attributes every claiming writer stores as int
// (integers of the int32 range) or double; everything else goes through float32 / byte storage
func wideAllowed(d Desc, a Attr, x float64) bool {
	claimed := false
	for _, w := range tableOf(d) {
		if w.Dim == a.Dim && w.Attr == a.Name {
			claimed = true
			switch w.Type {
			case "double":
			case "int":
				if x != math.Trunc(x) || x < -2147483648 || x > 2147483647 {
					return false
				}
			default:
				return false
			}
		}
	}
	return claimed && !(a.Dim == 2 && a.Name == "TexCoord" && d.Topo == "triangle")
}

func meshCoq(d Desc) string {
	as := sortedAttrs(d)
	it := make([]string, len(as))
	for i, a := range as {
		rows := make([]string, len(a.Rows))
		for k, r := range a.Rows {
			ws := make([]string, len(r))
			for j, x := range r {
				ws[j] = valueCoq(x)
			}
			rows[k] = "[" + strings.Join(ws, ";") + "]"
		}
		it[i] = fmt.Sprintf("{| wa_dim := %d%%nat; wa_name := %s%%string; wa_rows := [%s] |}", a.Dim, hx.CoqString(a.Name), strings.Join(rows, ";"))
	}
	topo := "TPoint"
	if d.Topo == "triangle" {
		topo = "TTriangle"
	}
	return fmt.Sprintf("{| w_topo := %s; w_idx := %s; w_n := %d%%nat; w_attrs := [%s] |}", topo, hx.CoqListNat(d.Idx), d.N, strings.Join(it, ";\n   "))
}

var readerGroups = [][]string{{"x", "y", "z"}, {"px", "py", "pz"}, {"posx", "posy", "posz"}, {"nx", "ny", "nz"},
	{"normalx", "normaly", "normalz"}, {"red", "green", "blue", "alpha"}, {"r", "g", "b", "a"},
	{"diffuse_red", "diffuse_green", "diffuse_blue", "diffuse_alpha"}, {"s", "t"}, {"f_dc_0", "f_dc_1", "f_dc_2"},
	{"scale_0", "scale_1", "scale_2"}, {"rot_0", "rot_1", "rot_2", "rot_3"}}

// recognisedGroup: the reader turns properties with these names into one vector attribute (the colour groups also
// without their alpha); everything else is read property by property through Vector1PropertyReader
func recognisedGroup(names []string) bool {
	eq := func(a, b []string) bool {
		if len(a) != len(b) {
			return false
		}
		for i := range a {
			if a[i] != b[i] {
				return false
			}
		}
		return true
	}
	for _, g := range readerGroups {
		if eq(g, names) || (len(g) == 4 && g[3][len(g[3])-1] == 'a' && eq(g[:3], names)) {
			return true
		}
	}
	return false
}

// carriedProps counts the attributes of d for which the configuration writes vertex properties
func carriedProps(d Desc) int {
	n := 0
	for _, a := range d.Attrs {
		named := false
		for _, w := range tableOf(d) {
			if w.Dim == a.Dim && w.Attr == a.Name {
				named = true
			}
		}
		unspec := d.Kind == "default" || (d.Kind == "custom" && d.Unspec)
		if named || (unspec && !(a.Dim == 2 && a.Name == "TexCoord" && d.Topo == "triangle")) {
			n++
		}
	}
	return n
}

// effective table of a description (for the fail-key rule only)
func tableOf(d Desc) []Writer {
	if d.Kind == "custom" {
		return d.Writers
	}
	return defaultTable()
}

func hasAttr(d Desc, dim int, name string) bool {
	for _, a := range d.Attrs {
		if a.Dim == dim && a.Name == name {
			return true
		}
	}
	return false
}

// chunkReader hands out the data in short reads of varying length (a legal io.Reader)
type chunkReader struct {
	r    io.Reader
	k, m uint64
}

func (c *chunkReader) Read(p []byte) (int, error) {
	c.k = c.k*6364136223846793005 + 1442695040888963407
	n := int((c.k>>33)%c.m) + 1
	if n > len(p) {
		n = len(p)
	}
	return c.r.Read(p[:n])
}

func viaReader(data []byte, via string) io.Reader {
	var r io.Reader = bytes.NewReader(data)
	switch via {
	case "onebyte":
		return iotest.OneByteReader(r)
	case "half":
		return iotest.HalfReader(r)
	case "dataerr":
		return iotest.DataErrReader(r)
	case "chunk":
		return &chunkReader{r: r, k: uint64(len(data)), m: 61}
	case "bigchunk":
		return &chunkReader{r: r, k: uint64(len(data)), m: 8191}
	}
	return r
}

func readVia(data []byte, via string) plyx.Outcome {
	if via == "" {
		return plyx.SafeRead(data)
	}
	return plyx.Guard(5*time.Second, func() (*modeling.Mesh, error) { return ply.ReadMesh(viaReader(data, via)) })
}

// stripTextureComment removes `comment TextureFile ...` header lines (written for a mesh with a textured material;
// the model's header has the single `Created with` comment)
func stripTextureComment(data []byte) []byte {
	end := bytes.Index(data, []byte("end_header\n"))
	if end < 0 {
		return data
	}
	var out []byte
	for _, l := range bytes.SplitAfter(data[:end], []byte("\n")) {
		if !bytes.HasPrefix(l, []byte("comment TextureFile ")) {
			out = append(out, l...)
		}
	}
	return append(out, data[end:]...)
}

// a file of another mesh, read again between reading a case's files and looking at the returned meshes: results
// must not share storage with later calls
var decoyFile []byte

func decoyRead() {
	if decoyFile != nil {
		plyx.SafeRead(decoyFile)
	}
}

func withMaterial(m modeling.Mesh, tex string) modeling.Mesh {
	switch tex {
	case "":
		return m
	case "-":
		return m.SetMaterial(modeling.Material{Name: "plain"})
	}
	uri := tex
	return m.SetMaterial(modeling.Material{Name: "textured", ColorTextureURI: &uri})
}

// writtenNames: the PLY vertex property names the configuration writes for d, in file order (a replica of
// MeshWriter.Write's table walk: qualifying writers, then the unspecified loops by dimension 4,3,2,1 with TexCoord's
// special case).  PLY property names must be unique within an element: a description whose configuration writes one
// name twice (a user attribute called x next to Position, s or t next to a point cloud's TexCoord, one attribute name
// in two dimensions that both reach the unspecified loop: Position x3 and Position x4 under a custom table give
// Position_0..2 twice) is outside the property's quantifier ("well-formed mesh") and is never generated.
func writtenNames(d Desc) []string {
	var names []string
	claimed := map[string]bool{}
	for _, w := range tableOf(d) {
		if hasAttr(d, w.Dim, w.Attr) {
			names = append(names, w.Names...)
			claimed[fmt.Sprintf("%d/%s", w.Dim, w.Attr)] = true
		}
	}
	if d.Kind == "default" || (d.Kind == "custom" && d.Unspec) {
		for _, a := range sortedAttrs(d) {
			if claimed[fmt.Sprintf("%d/%s", a.Dim, a.Name)] {
				continue
			}
			switch {
			case a.Dim == 2 && a.Name == "TexCoord":
				if d.Topo != "triangle" {
					names = append(names, "s", "t")
				}
			case a.Dim == 1:
				names = append(names, a.Name)
			default:
				for j := 0; j < a.Dim; j++ {
					names = append(names, fmt.Sprintf("%s_%d", a.Name, j))
				}
			}
		}
	}
	return names
}

func duplicateName(d Desc) string {
	seen := map[string]bool{}
	for _, n := range writtenNames(d) {
		if seen[n] {
			return n
		}
		seen[n] = true
	}
	return ""
}

func makeCase(d Desc) []hx.Case {
	if n := duplicateName(d); n != "" {
		fmt.Fprintf(os.Stderr, "c04: description writes the property name %q twice: outside the property's domain, skipped\n", n)
		return nil
	}
	c := hx.Case{Kind: "mesh", Desc: d}
	var classes [3]string
	if d.Kind != "custom" {
		d.Writers = nil
		d.Unspec = d.Kind == "default"
	}
	m := withMaterial(buildMesh(d), d.Texture)
	var wres, outs [3]string
	var files [3][]byte
	var wclass, wmsg [3]string
	var read [3]plyx.Outcome
	// first everything the implementation does (three writes, three reads, one unrelated read), then the rendering:
	// a result that shares storage with a later call would have changed by then
	for k, f := range []ply.Format{ply.ASCII, ply.BinaryLittleEndian, ply.BinaryBigEndian} {
		files[k], wclass[k], wmsg[k] = writeOne(d, m, f)
		if wclass[k] == "file" {
			read[k] = readVia(files[k], d.Via)
		}
	}
	decoyRead()
	for k := range files {
		switch wclass[k] {
		case "file":
			file, ok := plyx.FileCoq(stripTextureComment(files[k]))
			if !ok {
				c.GoFail = "written file has no parsable header"
				c.FailKey = "ply:write-no-header"
				file = "{| pf_header := []; pf_body := BodyBin [] |}"
			}
			wres[k] = "(WFile " + file + ")"
			out := read[k]
			outs[k] = plyx.OutcomeCoq(out)
			classes[k] = out.Class
			if os.Getenv("VERIF_DEBUG") != "" {
				fmt.Fprintf(os.Stderr, "fmt %d: read %s %s\n", k, out.Class, out.Msg)
			}
			if out.Class == "hang" {
				c.GoFail = "ReadMesh hangs on a file polyform wrote"
				c.FailKey = "ply:read-hang"
			}
		case "declared":
			wres[k], outs[k] = "WDeclared", "ODeclared"
			if os.Getenv("VERIF_DEBUG") != "" {
				fmt.Fprintf(os.Stderr, "fmt %d: write declared: %s\n", k, wmsg[k])
			}
		default:
			wres[k], outs[k] = "WCrash", "OCrash"
			if os.Getenv("VERIF_DEBUG") != "" {
				fmt.Fprintf(os.Stderr, "fmt %d: write crash: %s\n", k, wmsg[k])
			}
		}
	}
	if wclass[2] == "file" && len(files[2]) < 1<<16 {
		decoyFile = files[2]
	}
	// sanity of the generator itself: float32-exact values only
	for _, a := range d.Attrs {
		for _, r := range a.Rows {
			for _, x := range r {
				if math.IsNaN(x) || math.IsInf(x, 0) || (float64(float32(x)) != x && !wideAllowed(d, a, x)) {
					c.GoFail = fmt.Sprintf("harness: value %v of %s is not float32-exact", x, a.Name)
					c.FailKey = "harness:generator"
				}
			}
		}
	}
	// Known findings, both ASCII-only.  The key is set only when the observation has the recorded signature;
	// the binary encodings of the same mesh are judged separately by a companion CWbin case without a key, so
	// every other failure on these meshes is still reported as a violation.
	known := ""
	// (a) a configuration that writes no vertex property at all for n >= 1 vertices: the ASCII file has no
	// vertex lines, ply.ReadMesh reports an error on it and reads both binary files
	if d.N >= 1 && carriedProps(d) == 0 && classes == [3]string{"declared", "mesh", "mesh"} {
		known = "ply:ascii-vertex-without-properties"
	}
	// (b) an 8-bit scalar property (uchar writer whose names are not a reader group): ASCII reads it raw
	if d.N >= 1 && classes == [3]string{"mesh", "mesh", "mesh"} {
		for _, w := range tableOf(d) {
			if w.Type == "uchar" && hasAttr(d, w.Dim, w.Attr) && !recognisedGroup(w.Names) {
				known = "ply:ascii-uchar-scalar-raw"
			}
		}
	}
	if known != "" && c.FailKey == "" {
		c.FailKey = known
	}
	c.Coq = fmt.Sprintf("CW %s\n %s\n %s\n %s\n %s\n %s\n %s\n %s", optsCoq(d), meshCoq(d), wres[0], wres[1], wres[2], outs[0], outs[1], outs[2])
	c.Nontriv = d.N >= 1 && len(d.Attrs) >= 1
	kb, _ := json.Marshal(d)
	c.Key = string(kb)
	if known == "" {
		return []hx.Case{c}
	}
	b := hx.Case{Kind: "mesh-bin", Desc: c.Desc, Nontriv: c.Nontriv, Key: "bin|" + c.Key, GoFail: c.GoFail}
	if c.GoFail != "" {
		b.FailKey = c.FailKey
	}
	b.Coq = fmt.Sprintf("CWbin %s\n %s\n %s\n %s\n %s\n %s", optsCoq(d), meshCoq(d), wres[1], wres[2], outs[1], outs[2])
	return []hx.Case{c, b}
}

// ---------------- generators ----------------
func f32(x float64) float64 { return float64(float32(x)) }

func genCoord(r *hx.Rng) float64 {
	switch r.Intn(10) {
	case 0:
		return float64(r.Range(-5, 5))
	case 1:
		return float64(r.Range(-4000, 4000)) / 8
	case 2:
		return f32((r.Float() - 0.5) * 200)
	case 3:
		return f32((r.Float() - 0.5) * 1e-3)
	case 4:
		return math.Copysign(0, -1)
	case 5:
		return f32(Pick64(r, floatSpecials))
	case 6:
		return float64(r.Range(-100000, 100000))
	default:
		return f32(r.Float()*2 - 1)
	}
}
func Pick64(r *hx.Rng, xs []float64) float64 { return xs[r.Intn(len(xs))] }

// magnitudes at the edges of the number-text path (all converted with float32()): beyond int32 / int64 / uint64, the
// largest and smallest normal and denormal float32, whole numbers with many digits, values that print with exponents in
// other formats
var floatSpecials = []float64{1e20, -1e20, 1e-20, 3.4e38, -3.4028234663852886e38, 1.5e-45, -1.5e-45, 1.1754942e-38, 1.17549435e-38, -1e-38,
	16777216, 16777217, 2147483648, -2147483648, 4294967296, 9223372036854775808, -9223372036854775808, 9223371487098961920,
	18446744073709551616, 1e19, 1e30, -1e30, 1e15, 123456789012, 1e-7, 0.1, 5e-324}

func genUnit(r *hx.Rng) float64 {
	switch r.Intn(8) {
	case 0:
		return 0
	case 1:
		return 1
	case 2:
		return f32(float64(r.Intn(256)) / 255)
	case 3:
		return f32((float64(r.Intn(255)) + 0.5) / 255) // rounding boundary (as float32, just above or below)
	case 4:
		return float64(r.Intn(5)) / 4
	case 5:
		return f32(r.Float() * 1e-3)
	default:
		return f32(r.Float())
	}
}

var userNames = []string{"Intensity", "Class", "quality", "Foo", "bar2", "Weight", "Joint", "a_b", "Zeta", "confidence", "Color", "Position", "TexCoord2"}

type known struct {
	dim  int
	name string
}

var recognised = []known{{3, "Position"}, {3, "Normal"}, {3, "Color"}, {2, "TexCoord"}, {3, "FDC"}, {1, "Opacity"}, {3, "Scale"}, {4, "Rotation"}}

func genRows(r *hx.Rng, n, dim int, unit, integral bool) [][]float64 {
	rows := make([][]float64, n)
	for i := range rows {
		rows[i] = make([]float64, dim)
		for j := range rows[i] {
			switch {
			case unit:
				rows[i][j] = genUnit(r)
			case integral:
				rows[i][j] = float64(r.Range(-70000, 70000))
				if r.Chance(1, 6) {
					rows[i][j] = float64(r.Range(-16777216, 16777216))
				}
			default:
				rows[i][j] = genCoord(r)
			}
		}
	}
	return rows
}

// genNoProps: a well-formed mesh whose configuration writes no vertex property (known finding
// ply:ascii-vertex-without-properties): a triangle mesh carrying only TexCoord, or unspecified properties off
// with only user-named attributes
func genNoProps(r *hx.Rng) Desc {
	var d Desc
	d.N = r.Range(1, 6)
	if r.Bool() {
		d.Topo = "triangle"
		nt := r.Range(1, 4)
		d.Idx = make([]int, 3*nt)
		for i := range d.Idx {
			d.Idx[i] = r.Intn(d.N)
		}
		d.Attrs = []Attr{{2, "TexCoord", genRows(r, d.N, 2, false, false)}}
		d.Kind, d.Unspec = "default", true
	} else {
		if r.Bool() {
			d.Topo = "point"
			d.Idx = make([]int, d.N)
			for i := range d.Idx {
				d.Idx[i] = i
			}
		} else {
			d.Topo = "triangle"
			d.Idx = make([]int, 3*r.Range(0, 3))
			for i := range d.Idx {
				d.Idx[i] = r.Intn(d.N)
			}
		}
		dim := r.Range(1, 4)
		d.Attrs = []Attr{{dim, hx.Pick(r, []string{"Intensity", "Class", "quality", "Foo"}), genRows(r, d.N, dim, false, false)}}
		d.Kind = "default-nounspec"
	}
	return d
}

// size limits of generated meshes (smaller in the quick tier: evaluation cost is dominated by parsing numerals)
var maxVerts, maxTris = 12, 10

// reader groups by the attribute they produce: user-named attributes whose property names are members of these
// groups are claimed by the reader only when the whole group is present (with one type); a lone member stays a scalar
type family struct {
	dim    int
	attr   string
	groups [][]string
}

var families = []family{
	{3, "Position", [][]string{{"x", "y", "z"}, {"px", "py", "pz"}, {"posx", "posy", "posz"}}},
	{3, "Normal", [][]string{{"nx", "ny", "nz"}, {"normalx", "normaly", "normalz"}}},
	{3, "Color", [][]string{{"red", "green", "blue", "alpha"}, {"r", "g", "b", "a"}, {"diffuse_red", "diffuse_green", "diffuse_blue", "diffuse_alpha"}}},
	{2, "TexCoord", [][]string{{"s", "t"}}},
	{3, "FDC", [][]string{{"f_dc_0", "f_dc_1", "f_dc_2"}}},
	{1, "Opacity", [][]string{{"opacity"}}},
	{3, "Scale", [][]string{{"scale_0", "scale_1", "scale_2"}}},
	{4, "Rotation", [][]string{{"rot_0", "rot_1", "rot_2", "rot_3"}}},
}

// genReservedUsers adds user-named attributes whose PLY property names are component names of the reader's
// groups: lone members ("t", "alpha", "px", "scale_0" ...), complete groups spelled as user scalars ("s"+"t",
// "r"+"g"+"b" ...), vector attributes whose suffixed names are such members ("rot" x 4 = rot_0..rot_3, "scale" x 2),
// and names differing only in case ("X", "Alpha").  A family is only used when the mesh does not carry its native
// attribute (no duplicate property names, no two groups for one attribute).
func genReservedUsers(r *hx.Rng, d *Desc, used map[string]bool, prop map[string]bool) bool {
	added := false
	add := func(dim int, name string) {
		var pn []string
		if dim == 1 {
			pn = []string{name}
		} else {
			for j := 0; j < dim; j++ {
				pn = append(pn, fmt.Sprintf("%s_%d", name, j))
			}
		}
		key := fmt.Sprintf("%d/%s", dim, name)
		if used[key] {
			return
		}
		for _, p := range pn {
			if prop[p] {
				return
			}
		}
		for _, p := range pn {
			prop[p] = true
		}
		used[key] = true
		d.Attrs = append(d.Attrs, Attr{dim, name, genRows(r, d.N, dim, false, false)})
		added = true
	}
	free := []family{}
	for _, f := range families {
		native := hasAttr(*d, f.dim, f.attr) || (f.attr == "Color" && hasAttr(*d, 4, "Color")) || (f.attr == "TexCoord" && hasAttr(*d, 2, "TexCoord"))
		if !native {
			free = append(free, f)
		}
	}
	for k := r.Range(1, 2); k > 0 && len(free) > 0; k-- {
		fi := r.Intn(len(free))
		f := free[fi]
		free = append(free[:fi:fi], free[fi+1:]...)
		g := hx.Pick(r, f.groups)
		switch r.Intn(4) {
		case 0: // one lone member
			add(1, hx.Pick(r, g))
		case 1: // all members but one, or the complete group, as scalars
			skip := r.Intn(len(g) + 1)
			for j, n := range g {
				if j != skip {
					add(1, n)
				}
			}
		case 2: // a vector attribute whose suffixed names are members (complete or short by one component)
			if strings.HasSuffix(g[0], "_0") {
				dim := len(g)
				if r.Bool() && dim > 2 {
					dim--
				}
				add(dim, strings.TrimSuffix(g[0], "_0"))
			} else {
				add(1, g[len(g)-1])
			}
		default: // differs only in case: never a member
			n := hx.Pick(r, g)
			add(1, strings.ToUpper(n[:1])+n[1:])
			if r.Bool() {
				add(1, strings.ToUpper(n))
			}
		}
	}
	return added
}

// genDesc draws descriptions until the configuration writes every property name once (see writtenNames)
func genDesc(r *hx.Rng) Desc {
	for {
		if d := genDescRaw(r); duplicateName(d) == "" {
			return d
		}
	}
}

func genDescRaw(r *hx.Rng) Desc {
	if r.Chance(3, 100) {
		return genNoProps(r)
	}
	var d Desc
	d.N = r.Range(1, maxVerts)
	if r.Chance(1, 12) {
		d.N = 1
	}
	if r.Chance(9, 20) {
		d.Topo = "point"
		d.Idx = make([]int, d.N)
		for i := range d.Idx {
			d.Idx[i] = i
		}
	} else {
		d.Topo = "triangle"
		nt := r.Range(0, maxTris)
		if r.Chance(1, 10) {
			nt = 0
		}
		shape := r.Intn(5)
		if shape == 1 || shape == 4 { // unwelded; 4: as many corners as vertices, but not the identity
			if nt == 0 {
				nt = 1
			}
			d.N = 3 * nt
		}
		d.Idx = make([]int, 3*nt)
		hi := d.N
		if shape == 2 && d.N > 1 { // unreferenced vertices at the end
			hi = 1 + r.Intn(d.N-1)
		}
		for i := range d.Idx {
			switch shape {
			case 1:
				d.Idx[i] = i
			default:
				d.Idx[i] = r.Intn(hi)
			}
		}
		if shape == 3 && len(d.Idx) >= 3 { // degenerate triangle
			d.Idx[1] = d.Idx[0]
		}
		if shape == 4 && r.Bool() { // reordered corners (e.g. after a winding flip)
			copy(d.Idx, r.Perm(len(d.Idx)))
		}
	}
	// attributes
	used := map[string]bool{}
	pPos := 9
	for _, k := range recognised {
		p := 3
		if k.name == "Position" {
			p = pPos
		}
		if r.Chance(p, 10) && !(k.name != "Position" && k.name != "Normal" && k.name != "Color" && k.name != "TexCoord" && r.Chance(1, 2)) {
			d.Attrs = append(d.Attrs, Attr{k.dim, k.name, genRows(r, d.N, k.dim, k.name == "Color", false)})
			used[fmt.Sprintf("%d/%s", k.dim, k.name)] = true
		}
	}
	nu := r.Intn(4)
	if r.Chance(1, 2) {
		nu = 0
	}
	prop := map[string]bool{}
	for i := 0; i < nu; i++ {
		name := hx.Pick(r, userNames)
		dim := r.Range(1, 4)
		key := fmt.Sprintf("%d/%s", dim, name)
		isRec := false
		for _, k := range recognised {
			if k.dim == dim && k.name == name {
				isRec = true
			}
		}
		if used[key] || isRec {
			continue
		}
		// property names must stay distinct
		var pn []string
		if dim == 1 {
			pn = []string{name}
		} else {
			for j := 0; j < dim; j++ {
				pn = append(pn, fmt.Sprintf("%s_%d", name, j))
			}
		}
		clash := false
		for _, p := range pn {
			if prop[p] {
				clash = true
			}
		}
		if clash {
			continue
		}
		for _, p := range pn {
			prop[p] = true
		}
		used[key] = true
		d.Attrs = append(d.Attrs, Attr{dim, name, genRows(r, d.N, dim, false, false)})
	}
	reservedUser := false
	if r.Chance(1, 5) {
		reservedUser = genReservedUsers(r, &d, used, prop)
	}
	onlyTex := len(d.Attrs) == 1 && d.Attrs[0].Name == "TexCoord" && d.Attrs[0].Dim == 2 && d.Topo == "triangle"
	if len(d.Attrs) == 0 || onlyTex {
		d.Attrs = append(d.Attrs, Attr{3, "Position", genRows(r, d.N, 3, false, false)})
	}
	if reservedUser { // written by the unspecified loop of ply.Write (custom tables may use other spellings of the groups)
		d.Kind, d.Unspec = "default", true
		return d
	}
	// writer configuration
	switch k := r.Intn(100); {
	case k < 55:
		d.Kind, d.Unspec = "default", true
	case k < 62:
		d.Kind = "default-nounspec"
	default:
		d.Kind = "custom"
		if r.Chance(3, 5) {
			genSystematic(r, &d)
		} else {
			genCustom(r, &d)
		}
	}
	if r.Chance(1, 3) {
		d.Via = hx.Pick(r, []string{"onebyte", "half", "dataerr", "chunk"})
	}
	if r.Chance(1, 6) {
		d.Texture = hx.Pick(r, []string{"-", "tex.png", "dir/my texture.jpg"})
	}
	// every configuration must write at least one vertex property (see carriedProps)
	if carriedProps(d) == 0 {
		if hasAttr(d, 3, "Position") {
			d.Kind, d.Unspec, d.Writers = "default", true, nil
		} else {
			integral := false
			for _, w := range tableOf(d) {
				if w.Dim == 3 && w.Attr == "Position" && w.Type == "int" {
					integral = true
				}
			}
			d.Attrs = append(d.Attrs, Attr{3, "Position", genRows(r, d.N, 3, false, integral)})
		}
	}
	return d
}

// spellings of the recognised attributes on the reading side
var spellings = map[string][][]string{
	"3/Position": {{"x", "y", "z"}, {"px", "py", "pz"}, {"posx", "posy", "posz"}},
	"3/Normal":   {{"nx", "ny", "nz"}, {"normalx", "normaly", "normalz"}},
	"3/Color":    {{"red", "green", "blue"}, {"r", "g", "b"}, {"diffuse_red", "diffuse_green", "diffuse_blue"}},
	"4/Color":    {{"red", "green", "blue", "alpha"}, {"r", "g", "b", "a"}},
	"2/TexCoord": {{"s", "t"}},
	"3/FDC":      {{"f_dc_0", "f_dc_1", "f_dc_2"}},
	"1/Opacity":  {{"opacity"}},
	"3/Scale":    {{"scale_0", "scale_1", "scale_2"}},
	"4/Rotation": {{"rot_0", "rot_1", "rot_2", "rot_3"}},
}

var intLimits = []float64{16777215, 16777216, 16777217, -16777217, 33554433, 1000000007, 2147483647, -2147483648, -2147483647, 0, 1, -1, 255, 65536}
var wideDoubles = []float64{0.1, 1.0 / 3, -2.5e-10, 123456789.125, 16777217, 2147483648.5, 1e100, -1e-100, 4.9e-324, 1.7976931348623157e308, 3.141592653589793}

// bytes b for which float64(b)*(1/255.) == float64(b)/255.: vector2.DivByConstant multiplies by the reciprocal
// while the reader model (Formats/PlyRead.v) divides as the Vector1/3/4 readers do; one unit in the last place
// apart otherwise (see notes/C04.md)
var exactRecip = func() []int {
	var out []int
	for b := 0; b < 256; b++ {
		if float64(b)*(1.0/255.) == float64(b)/255. {
			out = append(out, b)
		}
	}
	return out
}()

func genTyped(r *hx.Rng, n, dim int, ty string, narrow bool) [][]float64 {
	rows := make([][]float64, n)
	for i := range rows {
		rows[i] = make([]float64, dim)
		for j := range rows[i] {
			switch ty {
			case "uchar":
				if dim == 2 {
					rows[i][j] = f32(float64(hx.Pick(r, exactRecip)) / 255)
				} else {
					rows[i][j] = genUnit(r)
				}
			case "int":
				switch {
				case narrow:
					rows[i][j] = float64(r.Range(-16777216, 16777216))
				case r.Chance(1, 2):
					rows[i][j] = hx.Pick(r, intLimits)
				case r.Chance(1, 2):
					rows[i][j] = float64(int32(uint32(r.U64())))
				default:
					rows[i][j] = float64(r.Range(-70000, 70000))
				}
			case "double":
				if !narrow && r.Chance(1, 2) {
					rows[i][j] = hx.Pick(r, wideDoubles)
				} else if !narrow && r.Chance(1, 3) {
					rows[i][j] = (r.Float() - 0.5) * 1e6
				} else {
					rows[i][j] = genCoord(r)
				}
			default:
				rows[i][j] = genCoord(r)
			}
		}
	}
	return rows
}

// genSystematic: one explicit property writer per attribute (most of them), of every storage type the binary
// writers implement (uchar, int, float, double), under a recognised spelling or fresh names, pointer or value;
// the attribute's values are drawn for the type, limits included
func genSystematic(r *hx.Rng, d *Desc) {
	d.Unspec = r.Bool()
	if r.Chance(1, 4) && !hasAttr(*d, 4, "Color") && !hasAttr(*d, 3, "Color") {
		d.Attrs = append(d.Attrs, Attr{4, "Color", nil})
	}
	var tab []Writer
	for _, k := range r.Perm(len(d.Attrs)) {
		a := &d.Attrs[k]
		if a.Rows != nil && r.Chance(1, 6) {
			continue // left to the unspecified loop (or dropped)
		}
		ty := hx.Pick(r, []string{"float", "float", "double", "double", "int", "int", "uchar"})
		w := Writer{Dim: a.Dim, Attr: a.Name, Type: ty, Ptr: r.Bool()}
		sp := spellings[fmt.Sprintf("%d/%s", a.Dim, a.Name)]
		if a.Dim == 4 && a.Name == "Color" && hasAttr(*d, 3, "Color") {
			sp = nil
		}
		fresh := sp == nil || r.Chance(1, 4)
		if ty == "uchar" && sp != nil && len(sp[0]) > 1 && !r.Chance(1, 5) {
			fresh = false // an 8-bit property outside a recognised group is the known finding: keep it rare
		}
		if fresh {
			for j := 0; j < a.Dim; j++ {
				w.Names = append(w.Names, fmt.Sprintf("u%s%dd%d", strings.ToLower(a.Name), a.Dim, j))
			}
		} else {
			w.Names = hx.Pick(r, sp)
		}
		narrow := a.Dim == 2 && a.Name == "TexCoord" && d.Topo == "triangle"
		a.Rows = genTyped(r, d.N, a.Dim, ty, narrow)
		tab = append(tab, w)
	}
	for k := range d.Attrs {
		if d.Attrs[k].Rows == nil { // the 4-component colour was skipped: give it float data for the unspecified loop
			d.Attrs[k].Rows = genRows(r, d.N, 4, false, false)
		}
	}
	d.Writers = tab
}

func setRows(d *Desc, dim int, name string, rows [][]float64) {
	for i := range d.Attrs {
		if d.Attrs[i].Dim == dim && d.Attrs[i].Name == name {
			d.Attrs[i].Rows = rows
		}
	}
}

func genCustom(r *hx.Rng, d *Desc) {
	d.Unspec = r.Chance(2, 3)
	tab := defaultTable()
	for i := range tab {
		tab[i].Ptr = r.Bool()
	}
	switch r.Intn(6) {
	case 0: // splat table (types.go): no colour writer, unspecified off
		tab = []Writer{tab[0], tab[1], tab[3], tab[5], tab[6], tab[4]}
		d.Unspec = false
	case 1: // some float properties as double
		for i := range tab {
			if tab[i].Type == "float" && r.Chance(1, 2) {
				tab[i].Type = "double"
			}
		}
	case 2: // integer typed property on integral data
		for i := range tab {
			if tab[i].Type == "float" && tab[i].Attr != "Position" && hasAttr(*d, tab[i].Dim, tab[i].Attr) && r.Chance(1, 2) {
				tab[i].Type = "int"
				setRows(d, tab[i].Dim, tab[i].Attr, genRows(r, d.N, tab[i].Dim, false, true))
			}
		}
		if r.Chance(1, 2) {
			tab[0].Type = "int"
			setRows(d, 3, "Position", genRows(r, d.N, 3, false, true))
		}
	case 3: // other recognised spellings
		if r.Bool() {
			tab[0].Names = []string{"px", "py", "pz"}
		} else {
			tab[0].Names = []string{"posx", "posy", "posz"}
		}
		if r.Bool() {
			tab[1].Names = []string{"normalx", "normaly", "normalz"}
		}
		switch r.Intn(3) {
		case 0:
			tab[2].Names = []string{"r", "g", "b"}
		case 1:
			tab[2].Names = []string{"diffuse_red", "diffuse_green", "diffuse_blue"}
		}
		if r.Bool() {
			tab[2].Type = "float"
		}
	case 4: // a user attribute through an explicit writer, fresh names or unit-range bytes
		for _, a := range d.Attrs {
			if isUser(a) && r.Chance(2, 3) {
				w := Writer{Dim: a.Dim, Attr: a.Name, Type: "float", Ptr: r.Bool()}
				for j := 0; j < a.Dim; j++ {
					w.Names = append(w.Names, fmt.Sprintf("u%s%dd%d", strings.ToLower(a.Name), a.Dim, j))
				}
				if a.Dim >= 2 && r.Chance(1, 3) {
					w.Type = "uchar"
					setRows(d, a.Dim, a.Name, genRows(r, d.N, a.Dim, true, false))
				}
				tab = append(tab, w)
			}
		}
		if r.Bool() {
			tab = append([]Writer{tab[2]}, append(tab[:2:2], tab[3:]...)...) // colour first
		}
	case 5: // 8-bit scalar: the known finding (ASCII reads it raw)
		if r.Chance(1, 2) {
			tab[4].Type = "uchar"
			if hasAttr(*d, 1, "Opacity") {
				setRows(d, 1, "Opacity", genRows(r, d.N, 1, true, false))
			} else {
				d.Attrs = append(d.Attrs, Attr{1, "Opacity", genRows(r, d.N, 1, true, false)})
			}
		} else {
			tab[4].Type = "double"
		}
	}
	d.Writers = tab
}

func isUser(a Attr) bool {
	for _, k := range recognised {
		if k.dim == a.Dim && k.name == a.Name {
			return false
		}
	}
	return true
}

func corner() []Desc {
	quadPos := [][]float64{{0, 0, 0}, {1, 0, 0}, {1, 1, 0}, {0, 1, 0}}
	quadUV := [][]float64{{0, 0}, {1, 0}, {1, 1}, {0, 0.25}}
	out := []Desc{
		{Topo: "point", N: 0, Idx: []int{}, Kind: "default"},
		{Topo: "triangle", N: 0, Idx: []int{}, Kind: "default"},
		{Topo: "point", N: 1, Idx: []int{0}, Kind: "default", Attrs: []Attr{{3, "Position", [][]float64{{1, 2, 3}}}}},
		// fix 26522c7: welded quad with texture coordinates
		{Topo: "triangle", N: 4, Idx: []int{0, 1, 2, 0, 2, 3}, Kind: "default",
			Attrs: []Attr{{3, "Position", quadPos}, {2, "TexCoord", quadUV}}},
		// welded, unreferenced vertex 4, colours on rounding boundaries, user attributes of every dimension
		{Topo: "triangle", N: 5, Idx: []int{3, 1, 0, 2, 1, 3}, Kind: "default",
			Attrs: []Attr{{3, "Position", append(append([][]float64{}, quadPos...), []float64{9, 9, 9})},
				{3, "Color", [][]float64{{0, 1, 0.5}, {f32(0.5 / 255), f32(1.5 / 255), f32(254.5 / 255)}, {0.25, 0.75, f32(127.5 / 255)}, {f32(1.0 / 255), f32(2.0 / 255), f32(0.1)}, {0, 0, 0}}},
				{2, "TexCoord", append(append([][]float64{}, quadUV...), []float64{0.5, 0.5})},
				{1, "Intensity", [][]float64{{1}, {-2}, {0.5}, {f32(1e20)}, {math.Copysign(0, -1)}}},
				{2, "Foo", [][]float64{{1, 2}, {3, 4}, {5, 6}, {7, 8}, {9, 10}}},
				{4, "Weight", [][]float64{{1, 2, 3, 4}, {5, 6, 7, 8}, {9, 10, 11, 12}, {13, 14, 15, 16}, {17, 18, 19, 20}}}}},
		// triangle mesh without faces
		{Topo: "triangle", N: 2, Idx: []int{}, Kind: "default", Attrs: []Attr{{3, "Position", [][]float64{{1, 2, 3}, {4, 5, 6}}}, {2, "TexCoord", [][]float64{{0, 1}, {1, 0}}}}},
		// splat point cloud through the default writer
		{Topo: "point", N: 2, Idx: []int{0, 1}, Kind: "default", Attrs: []Attr{{3, "Position", [][]float64{{1, 2, 3}, {4, 5, 6}}},
			{3, "FDC", [][]float64{{0.5, 0.25, 0.125}, {1, 1, 1}}}, {1, "Opacity", [][]float64{{0.5}, {-1.5}}},
			{3, "Scale", [][]float64{{1, 1, 1}, {2, 2, 2}}}, {4, "Rotation", [][]float64{{1, 0, 0, 0}, {0.5, 0.5, 0.5, 0.5}}}}},
	}
	// 8-bit scalar: known finding ply:ascii-uchar-scalar-raw
	tab := defaultTable()
	tab[4].Type = "uchar"
	out = append(out, Desc{Topo: "point", N: 2, Idx: []int{0, 1}, Kind: "custom", Writers: tab, Unspec: true,
		Attrs: []Attr{{3, "Position", [][]float64{{1, 2, 3}, {4, 5, 6}}}, {1, "Opacity", [][]float64{{f32(128.0 / 255)}, {1}}}}})
	// as many corners as vertices but not the identity (winding flip of an unwelded mesh): the reader must still
	// gather the attributes through the indices
	out = append(out, Desc{Topo: "triangle", N: 6, Idx: []int{0, 2, 1, 3, 5, 4}, Kind: "default",
		Attrs: []Attr{{3, "Position", [][]float64{{0, 0, 0}, {1, 0, 0}, {1, 1, 0}, {0, 1, 0}, {2, 2, 2}, {3, 3, 3}}},
			{2, "TexCoord", [][]float64{{0, 0}, {1, 0}, {1, 1}, {0, 0.25}, {0.5, 0.5}, {0.75, 0.125}}}}})
	// user scalars named like lone members of the reader's groups ("t" without "s", "alpha" without the colours,
	// "px", "scale_0") next to a complete group spelled as user scalars (r g b) and a vector attribute "rot" x 3
	out = append(out, Desc{Topo: "point", N: 2, Idx: []int{0, 1}, Kind: "default",
		Attrs: []Attr{{3, "Position", [][]float64{{1, 2, 3}, {4, 5, 6}}}, {1, "t", [][]float64{{0.5}, {-1}}}, {1, "alpha", [][]float64{{0.25}, {2}}},
			{1, "px", [][]float64{{7}, {8}}}, {1, "scale_0", [][]float64{{9}, {10}}}, {1, "r", [][]float64{{0.125}, {1}}}, {1, "g", [][]float64{{0.5}, {0}}},
			{1, "b", [][]float64{{0.75}, {0.25}}}, {3, "rot", [][]float64{{1, 0, 0}, {0, 1, 0}}}, {1, "X", [][]float64{{11}, {12}}}}})
	// custom tables: texture coordinates claimed per vertex (s, t) on a textured quad; int / double storage at the
	// limits of the types
	out = append(out,
		Desc{Topo: "triangle", N: 4, Idx: []int{0, 1, 2, 0, 2, 3}, Kind: "custom", Unspec: false,
			Writers: []Writer{{3, "Position", []string{"x", "y", "z"}, "float", false}, {2, "TexCoord", []string{"s", "t"}, "float", true}},
			Attrs:   []Attr{{3, "Position", quadPos}, {2, "TexCoord", quadUV}}},
		Desc{Topo: "point", N: 3, Idx: []int{0, 1, 2}, Kind: "custom", Unspec: true,
			Writers: []Writer{{3, "Position", []string{"x", "y", "z"}, "int", false}, {1, "id", []string{"id"}, "int", false},
				{1, "time", []string{"time"}, "double", true}, {3, "Normal", []string{"nx", "ny", "nz"}, "double", false}},
			Attrs: []Attr{{3, "Position", [][]float64{{16777217, -16777219, 5}, {20000001, 33554435, -7}, {2147483647, -2147483648, 0}}},
				{1, "id", [][]float64{{16777217}, {1000000007}, {-33554433}}},
				{1, "time", [][]float64{{0.1}, {1.0 / 3}, {1e100}}},
				{3, "Normal", [][]float64{{0.1, -2.5e-10, 123456789.125}, {0, 1, 0}, {16777217, 0.5, 2147483648.5}}}}})
	{
		// point cloud with texture coordinates (fix ad4b3e5: written per vertex as s, t); a mesh whose only
		// attribute is TexCoord writes no vertex property (known finding ply:ascii-vertex-without-properties)
		out = append(out,
			Desc{Topo: "point", N: 2, Idx: []int{0, 1}, Kind: "default", Attrs: []Attr{{3, "Position", [][]float64{{1, 2, 3}, {4, 5, 6}}}, {2, "TexCoord", [][]float64{{0, 1}, {1, 0}}}}},
			Desc{Topo: "triangle", N: 3, Idx: []int{0, 1, 2}, Kind: "default", Attrs: []Attr{{2, "TexCoord", [][]float64{{0, 1}, {1, 0}, {1, 1}}}}})
	}
	// the number-text path at the edges of the float32 range: beyond int32 / int64 / uint64, largest and smallest
	// normal and denormal magnitudes, -0, in a scalar, a vector and per-corner texture coordinates; read through short reads
	big := func(x float64) float64 { return float64(float32(x)) }
	out = append(out,
		Desc{Topo: "point", N: 4, Idx: []int{0, 1, 2, 3}, Kind: "default", Via: "onebyte", Texture: "tex.png",
			Attrs: []Attr{{3, "Position", [][]float64{{big(1e20), big(-1e30), 9223372036854775808}, {-9223372036854775808, 18446744073709551616, big(3.4028234663852886e38)},
				{big(1.5e-45), big(-1.1754942e-38), big(1.17549435e-38)}, {math.Copysign(0, -1), 9223371487098961920, big(1e19)}}},
				{1, "Opacity", [][]float64{{big(1e30)}, {-9223372036854775808}, {big(-1.5e-45)}, {4294967296}}},
				{1, "Intensity", [][]float64{{9223372036854775808}, {big(-3.4028234663852886e38)}, {big(1e-38)}, {2147483648}}},
				{2, "TexCoord", [][]float64{{big(1e20), 9223372036854775808}, {big(-1e30), big(1.5e-45)}, {0.5, math.Copysign(0, -1)}, {18446744073709551616, 1}}},
				{4, "Weight", [][]float64{{1, big(1e25), -9223372036854775808, 0}, {big(1e-30), 2, 3, 4}, {5, 6, 7, big(-1e19)}, {big(1e38), 9, 10, 11}}}}},
		Desc{Topo: "triangle", N: 3, Idx: []int{0, 1, 2, 2, 1, 0}, Kind: "default", Via: "chunk",
			Attrs: []Attr{{3, "Position", [][]float64{{0, 0, big(1e20)}, {1, 0, 9223372036854775808}, {0, 1, big(-1e30)}}},
				{3, "Normal", [][]float64{{big(1e-40), 0, 1}, {0, big(-1e19), 1}, {18446744073709551616, 0, 1}}},
				{2, "TexCoord", [][]float64{{9223372036854775808, big(-1e20)}, {big(1e30), big(1.5e-45)}, {-9223372036854775808, big(3.4e38)}}}}})
	return out
}

func main() {
	run := hx.ParseFlags("C04", "Check.C04")
	for _, in := range run.Inputs() {
		if in.Kind == "big" {
			var b BigDesc
			if err := json.Unmarshal(in.Raw, &b); err == nil {
				run.Add(bigCase(b))
			}
			continue
		}
		var d Desc
		if err := json.Unmarshal(in.Raw, &d); err == nil && d.Topo != "" {
			for _, c := range makeCase(d) {
				run.Add(c)
			}
		}
	}
	if run.Replay != "" {
		run.Finish()
		return
	}
	for _, d := range corner() {
		for _, c := range makeCase(d) {
			run.Add(c)
		}
	}
	if run.Tier == "quick" {
		maxVerts, maxTris = 8, 6
	}
	r := hx.NewRng(run.Seed)
	// large synthetic meshes, spread between the generated cases (one evaluation shard each)
	bigs := bigFamily(r.Fork(), run.Tier)
	every := run.N/(len(bigs)+1) + 1
	for i := 0; i < run.N; i++ {
		if i%every == 0 && len(bigs) > 0 {
			b := bigs[0]
			bigs = bigs[1:]
			run.Add(bigCase(b))
			run.Count(fmt.Sprintf("big:tri=%v", b.Tri))
		}
		d := genDesc(r)
		cs := makeCase(d)
		c := cs[0]
		run.Count("topo:" + d.Topo)
		run.Count("writer:" + d.Kind)
		run.Count(fmt.Sprintf("attrs:%d", len(d.Attrs)))
		if hasAttr(d, 2, "TexCoord") {
			run.Count("with-texcoord")
		}
		if d.Via != "" {
			run.Count("read-via:" + d.Via)
		}
		if d.Texture != "" {
			run.Count("with-material")
		}
		if hasAttr(d, 3, "Color") {
			run.Count("with-colour")
		}
		for _, a := range d.Attrs {
			if isUser(a) {
				run.Count("with-user-attribute")
				break
			}
		}
		if d.Topo == "triangle" {
			seen := map[int]bool{}
			for _, i := range d.Idx {
				seen[i] = true
			}
			if len(seen) < d.N {
				run.Count("tri:unreferenced-vertices")
			}
			if len(d.Idx) == 0 {
				run.Count("tri:no-faces")
			}
		}
		if c.FailKey != "" {
			run.Count("failkey:" + c.FailKey)
		}
		if d.Topo == "point" && hasAttr(d, 2, "TexCoord") {
			run.Count("point:with-texcoord")
		}
		for _, x := range cs {
			run.Add(x)
		}
	}
	for _, b := range bigs {
		run.Add(bigCase(b))
		run.Count(fmt.Sprintf("big:tri=%v", b.Tri))
	}
	run.Finish()
}
