package main

// Large synthetic meshes: vertex / face counts just past internal block limits (4 KiB, 8 KiB, 32 KiB, 64 KiB of
// binary vertex or face records; 65536 vertices) with values over the whole finite float32 range.  A case carries
// only its parameters; Check/C04.v derives the same mesh from them (svali, cseli, bidxi) and judges lengths, the
// header lines and order-sensitive fingerprints of what polyform wrote and read back.

import (
	"fmt"
	"math"
	"strconv"
	"strings"

	"verif/harness/hx"
	"verif/harness/internal/plyx"

	"github.com/EliCDavis/polyform/formats/ply"
	"github.com/EliCDavis/polyform/modeling"
)

type BigDesc struct {
	Tri    bool   `json:"tri"`
	N      int    `json:"n"`
	NF     int    `json:"nf"`
	Mask   int    `json:"mask"`
	Seed   int    `json:"seed"`
	Unspec bool   `json:"unspec"`
	Via    string `json:"via,omitempty"` // how the file reaches ply.ReadMesh (see Desc.Via)
}

const fpMask = 1<<63 - 1

type fpState struct{ h1, h2 uint64 }

func (f *fpState) add(x uint64) {
	f.h1 = (f.h1*1000003 + x + 1) & fpMask
	f.h2 = (f.h2*998244353 + x + 1) & fpMask
}
func (f *fpState) f64(x float64) {
	b := math.Float64bits(x)
	f.add(b >> 32)
	f.add(b & 0xffffffff)
}
func (f fpState) coq() string { return fmt.Sprintf("(%d,%d)%%Z", f.h1, f.h2) }

func svali(seed, i, k uint64) uint32 {
	v := 13*i + 7*k + seed
	e := (v + v/255) % 255
	var mant uint64
	switch (v / 3) % 4 {
	case 0:
		mant = 0
	case 1:
		mant = (v * 2654435761) % 8388608
	case 2:
		mant = 4194304
	default:
		mant = v%7 + 1
	}
	return uint32(((v/2)%2)<<31 + e<<23 + mant)
}
func cseli(seed, i, k uint64) uint64 { return (13*i + 7*k + seed) % 5 }
func bidxi(n, seed, c uint64) uint64 { return (7919*c + seed + c/3) % n }

var bigUniverse = []struct {
	bit, dim int
	name     string
}{{5, 4, "Rotation"}, {2, 3, "Color"}, {1, 3, "Normal"}, {0, 3, "Position"}, {7, 2, "Foo"}, {3, 2, "TexCoord"}, {6, 1, "Intensity"}, {4, 1, "Opacity"}}

var bigColours = []float64{0, 0.25, 0.5, 0.75, 1}

func bigToDesc(b BigDesc) Desc {
	d := Desc{Topo: "point", N: b.N, Kind: "default", Unspec: true}
	if !b.Unspec {
		d.Kind, d.Unspec = "default-nounspec", false
	}
	if b.Tri {
		d.Topo = "triangle"
		d.Idx = make([]int, 3*b.NF)
		for c := range d.Idx {
			d.Idx[c] = int(bidxi(uint64(b.N), uint64(b.Seed), uint64(c)))
		}
	} else {
		d.Idx = make([]int, b.N)
		for i := range d.Idx {
			d.Idx[i] = i
		}
	}
	for _, u := range bigUniverse {
		if b.Mask>>u.bit&1 == 0 {
			continue
		}
		rows := make([][]float64, b.N)
		for i := range rows {
			rows[i] = make([]float64, u.dim)
			for j := range rows[i] {
				if u.bit == 2 {
					rows[i][j] = bigColours[cseli(uint64(b.Seed), uint64(i), uint64(j))]
				} else {
					rows[i][j] = float64(math.Float32frombits(svali(uint64(b.Seed), uint64(i), uint64(10*u.bit+j))))
				}
			}
		}
		d.Attrs = append(d.Attrs, Attr{u.dim, u.name, rows})
	}
	return d
}

func bigFileCoq(b BigDesc, data []byte) (string, bool) {
	hdr, format, body, ok := plyx.Split(data)
	if !ok {
		return "", false
	}
	hl := make([]string, len(hdr))
	for i, l := range hdr {
		hl[i] = strsCoq(l)
	}
	var fp fpState
	length := len(body)
	vmin, vmax, fmin, fmax := 0, 0, 0, 0
	if format == "ascii" {
		lines := strings.Split(string(body), "\n")
		if len(lines) > 0 && lines[len(lines)-1] == "" {
			lines = lines[:len(lines)-1]
		}
		length = len(lines)
		first := [2]bool{true, true}
		for li, l := range lines {
			fs := plyx.Fields(strings.TrimSuffix(l, "\r"))
			k := len(fs)
			if li < b.N {
				if first[0] || k < vmin {
					vmin = k
				}
				if first[0] || k > vmax {
					vmax = k
				}
				first[0] = false
			} else {
				if first[1] || k < fmin {
					fmin = k
				}
				if first[1] || k > fmax {
					fmax = k
				}
				first[1] = false
			}
			fp.add(uint64(k))
			for _, t := range fs {
				f, ferr := strconv.ParseFloat(t, 64)
				z, zerr := strconv.ParseInt(t, 10, 32)
				switch {
				case ferr != nil:
					fp.add(3)
				case zerr == nil:
					fp.add(1)
					fp.add(uint64(z + 2147483648))
					fp.f64(f)
				default:
					fp.add(2)
					fp.f64(f)
				}
			}
		}
	} else {
		for _, x := range body {
			fp.add(uint64(x))
		}
	}
	return fmt.Sprintf("(BFile {| bf_header := [%s]; bf_len := %d; bf_fp := %s; bf_vtoks := (%d,%d); bf_ftoks := (%d,%d) |})",
		strings.Join(hl, ";\n  "), length, fp.coq(), vmin, vmax, fmin, fmax), true
}

func bigOutCoq(o plyx.Outcome) string {
	switch o.Class {
	case "declared":
		return "BDeclared"
	case "crash":
		return "BCrash"
	case "hang":
		return "BHang"
	}
	m := o.Mesh
	var ifp fpState
	idx := m.Indices()
	for i := 0; i < idx.Len(); i++ {
		v := idx.At(i)
		if v < 0 {
			v = 0
		}
		ifp.add(uint64(v))
	}
	var s1, s2 uint64
	attrs := plyx.Attrs(m)
	for _, a := range attrs {
		var h fpState
		h.add(uint64(a.Dim))
		for i := 0; i < len(a.Name); i++ {
			h.add(uint64(a.Name[i]))
		}
		h.add(uint64(len(a.Rows)))
		for _, r := range a.Rows {
			for _, x := range r {
				h.f64(x)
			}
		}
		s1 = (s1 + h.h1) & fpMask
		s2 = (s2 + h.h2) & fpMask
	}
	tri := "false"
	if m.Topology() == modeling.TriangleTopology {
		tri = "true"
	}
	return fmt.Sprintf("(BMesh %s %d %s %d (%d,%d)%%Z)", tri, idx.Len(), ifp.coq(), len(attrs), s1, s2)
}

func bigCase(b BigDesc) hx.Case {
	c := hx.Case{Kind: "big", Desc: b, Nontriv: b.N >= 1 && b.Mask != 0, Key: fmt.Sprintf("big|%+v", b)}
	d := bigToDesc(b)
	if n := duplicateName(d); n != "" {
		c.GoFail, c.FailKey = "harness: big description writes "+n+" twice", "harness:generator"
	}
	m := buildMesh(d)
	var ws, outs [3]string
	var files [3][]byte
	var wclass [3]string
	var read [3]plyx.Outcome
	for k, f := range []ply.Format{ply.ASCII, ply.BinaryLittleEndian, ply.BinaryBigEndian} {
		files[k], wclass[k], _ = writeOne(d, m, f)
		if wclass[k] == "file" {
			read[k] = readVia(files[k], b.Via)
		}
	}
	decoyRead()
	for k := range files {
		switch wclass[k] {
		case "file":
			file, ok := bigFileCoq(b, files[k])
			if !ok {
				c.GoFail, c.FailKey = "written file has no parsable header", "ply:write-no-header"
				file = "(BFile {| bf_header := []; bf_len := 0; bf_fp := (0,0)%Z; bf_vtoks := (0,0); bf_ftoks := (0,0) |})"
			}
			ws[k] = file
			outs[k] = bigOutCoq(read[k])
			if read[k].Class == "hang" {
				c.GoFail, c.FailKey = "ReadMesh hangs on a file polyform wrote", "ply:read-hang"
			}
		case "declared":
			ws[k], outs[k] = "BWDeclared", "BDeclared"
		default:
			ws[k], outs[k] = "BWCrash", "BCrash"
		}
	}
	tri, un := "false", "false"
	if b.Tri {
		tri = "true"
	}
	if b.Unspec {
		un = "true"
	}
	c.Coq = fmt.Sprintf("CBig {| bp_tri := %s; bp_n := %d; bp_nf := %d; bp_mask := %d; bp_seed := %d; bp_unspec := %s |}\n %s\n %s\n %s\n %s\n %s\n %s",
		tri, b.N, b.NF, b.Mask, b.Seed, un, ws[0], ws[1], ws[2], outs[0], outs[1], outs[2])
	return c
}

// bytes of one binary vertex record for an attribute mask (ply.Write's table, unspecified properties on)
func bigRowSize(mask int, tri bool) int {
	sz := 0
	for _, u := range bigUniverse {
		if mask>>u.bit&1 == 0 {
			continue
		}
		switch {
		case u.bit == 2:
			sz += 3
		case u.bit == 3 && tri:
		default:
			sz += 4 * u.dim
		}
	}
	return sz
}

// bigFamily: the systematic size family.  quick draws a rotating subset, thorough takes all of it.
func bigFamily(r *hx.Rng, tier string) []BigDesc {
	var out []BigDesc
	seed := func() int { return r.Intn(1000) }
	pointMasks := []int{1, 1 | 4, 1 | 2, 16, 1 | 32, 1 | 8, 1 | 64 | 128, 255}
	blocks := []int{4096, 8192, 32768, 65536}
	// (a) binary vertex records crossing a block: first record straddling / starting past the block, and one more
	for _, blk := range blocks {
		for _, mk := range pointMasks {
			rs := bigRowSize(mk, false)
			for _, extra := range []int{1, 2} {
				out = append(out, BigDesc{Tri: false, N: blk/rs + extra, Mask: mk, Seed: seed(), Unspec: true})
			}
		}
	}
	// (b) vertex counts around 2^16 and 2^16 + 2^8
	for _, n := range []int{65535, 65536, 65537, 65793} {
		out = append(out, BigDesc{Tri: false, N: n, Mask: 1, Seed: seed(), Unspec: true})
	}
	out = append(out, BigDesc{Tri: false, N: 65537, Mask: 16, Seed: seed(), Unspec: false})
	// (c) face records crossing a block (13 bytes, 38 with texture coordinates), few and many vertices,
	// corner count = vertex count, face count = vertex count
	for _, blk := range blocks {
		out = append(out,
			BigDesc{Tri: true, N: 50, NF: blk/13 + 2, Mask: 1, Seed: seed(), Unspec: true},
			BigDesc{Tri: true, N: 50, NF: blk/38 + 2, Mask: 1 | 8, Seed: seed(), Unspec: true},
			BigDesc{Tri: true, N: blk/12 + 1, NF: blk/38 + 2, Mask: 1 | 8 | 4, Seed: seed(), Unspec: true})
	}
	// (d) vertex indices beyond 2^16 (few faces over many vertices), with and without per-corner texture coordinates
	out = append(out,
		BigDesc{Tri: true, N: 65537 + 300, NF: 50, Mask: 1, Seed: seed(), Unspec: true},
		BigDesc{Tri: true, N: 70001, NF: 64, Mask: 1 | 8, Seed: seed(), Unspec: true})
	out = append(out,
		BigDesc{Tri: true, N: 3 * 1726, NF: 1726, Mask: 1 | 8, Seed: seed(), Unspec: true},
		BigDesc{Tri: true, N: 5463, NF: 5463, Mask: 1 | 2, Seed: seed(), Unspec: false},
		BigDesc{Tri: true, N: 5463, NF: 0, Mask: 1 | 8 | 64, Seed: seed(), Unspec: true},
		BigDesc{Tri: true, N: 400, NF: 300, Mask: 255, Seed: seed(), Unspec: true},
		BigDesc{Tri: false, N: 300, Mask: 255, Seed: seed(), Unspec: false})
	for i := range out {
		if r.Chance(1, 3) {
			out[i].Via = hx.Pick(r, []string{"bigchunk", "chunk", "half", "dataerr"})
		}
	}
	if tier != "quick" {
		return out
	}
	// quick: the 64 KiB class for two rotating masks, one smaller block, 2^16 + 1 vertices, the face classes
	var q []BigDesc
	pick := func(pred func(BigDesc) bool, k int) {
		var c []BigDesc
		for _, b := range out {
			if pred(b) {
				c = append(c, b)
			}
		}
		for ; k > 0 && len(c) > 0; k-- {
			i := r.Intn(len(c))
			q = append(q, c[i])
			c = append(c[:i:i], c[i+1:]...)
		}
	}
	big := func(b BigDesc) int { return b.N * bigRowSize(b.Mask, b.Tri) }
	pick(func(b BigDesc) bool { return !b.Tri && b.Mask == 1 && big(b) > 65536 && b.N < 6000 }, 1)
	pick(func(b BigDesc) bool { return !b.Tri && b.Mask != 1 && big(b) > 65536 && b.N < 20000 }, 2)
	pick(func(b BigDesc) bool { return !b.Tri && big(b) < 40000 && b.N <= 400 }, 1)
	pick(func(b BigDesc) bool { return !b.Tri && b.N >= 65535 }, 1)
	pick(func(b BigDesc) bool { return b.Tri && b.NF*13 > 65536 && b.Mask == 1 }, 1)
	pick(func(b BigDesc) bool { return b.Tri && b.Mask&8 != 0 && b.NF*38 > 65536 && b.NF < 1800 }, 1)
	pick(func(b BigDesc) bool { return b.Tri && b.N <= 400 && b.NF <= 400 }, 1)
	pick(func(b BigDesc) bool { return b.Tri && b.N > 65536 }, 2)
	return q
}
