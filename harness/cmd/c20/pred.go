// C20 harness, predicate stream: the exported predicates of bowyer_watson.go on their own —
// Triangle.InsideCircumcircle, Triangle.CounterClockwise, Triangle.Edges — on integer points whose
// float64 evaluation is exact (coordinate differences <= 5000, common offset up to 2^40), including the
// boundary configurations: fourth point exactly on the circle (rectangles, reflected points), three
// points on a line, both windings, repeated corners.  Check/C20.v compares the answers with the model's
// in_circb / ccwb / edges and judges them by an independent oracle (distance to the circle's centre).
package main

import (
	"fmt"

	"verif/harness/hx"

	"github.com/EliCDavis/polyform/modeling/triangulation"
	"github.com/EliCDavis/vector/vector2"
)

type predDesc struct {
	A, B, C, P [2]int64
	Shift      int
	T          [3]int
}

func runPred(run *hx.Run, d predDesc) {
	mk := func(p [2]int64) vector2.Float64 {
		return vector2.New(ldexp(float64(p[0]), d.Shift), ldexp(float64(p[1]), d.Shift))
	}
	pts := []vector2.Float64{mk(d.A), mk(d.B), mk(d.C)}
	c := hx.Case{Kind: "pred", Desc: d, Nontriv: true}
	c.Key = fmt.Sprint("pred", d)
	var inside, ccw bool
	var es []triangulation.Edge
	func() {
		defer func() {
			if e := recover(); e != nil {
				c.GoFail = fmt.Sprint("Crash: ", e)
			}
		}()
		t := triangulation.Triangle{0, 1, 2}
		inside = t.InsideCircumcircle(mk(d.P), pts)
		ccw = t.CounterClockwise(pts)
		es = triangulation.Triangle{d.T[0], d.T[1], d.T[2]}.Edges()
	}()
	z := func(p [2]int64) string { return fmt.Sprintf("(%d,%d)%%Z", p[0], p[1]) }
	el := "["
	for i, e := range es {
		if i > 0 {
			el += ";"
		}
		el += fmt.Sprintf("(%d,%d)", e[0], e[1])
	}
	el += "]%nat"
	c.Coq = fmt.Sprintf("CPred %s %s %s %s %s %s (%d,%d,%d)%%nat %s", z(d.A), z(d.B), z(d.C), z(d.P),
		hx.CoqBool(inside), hx.CoqBool(ccw), d.T[0], d.T[1], d.T[2], el)
	run.Count("pred")
	run.Add(c)
}

func genPred(r *hx.Rng) predDesc {
	rnd := func(lim int) [2]int64 { return [2]int64{int64(r.Intn(lim)), int64(r.Intn(lim))} }
	lim := hx.Pick(r, []int{4, 12, 100, 2500})
	a, b, c := rnd(lim), rnd(lim), rnd(lim)
	p := rnd(lim)
	switch r.Intn(8) {
	case 0: // rectangle: the fourth corner is exactly on the circle
		w, h := int64(1+r.Intn(lim)), int64(1+r.Intn(lim))
		b, c, p = [2]int64{a[0] + w, a[1]}, [2]int64{a[0] + w, a[1] + h}, [2]int64{a[0], a[1] + h}
	case 1: // p is a corner
		p = hx.Pick(r, [][2]int64{a, b, c})
	case 2: // collinear corners
		k := int64(r.Intn(5)) - 2
		c = [2]int64{a[0] + k*(b[0]-a[0]), a[1] + k*(b[1]-a[1])}
	case 3: // p next to a rectangle's fourth corner: one unit inside / outside
		w, h := int64(2+r.Intn(lim)), int64(2+r.Intn(lim))
		b, c = [2]int64{a[0] + w, a[1]}, [2]int64{a[0] + w, a[1] + h}
		p = [2]int64{a[0] + int64(r.Intn(3)) - 1, a[1] + h + int64(r.Intn(3)) - 1}
	case 4: // a flat triangle and a far point
		b = [2]int64{a[0] + 2000, a[1] + int64(r.Intn(3))}
		c = [2]int64{a[0] + 1000, a[1] + 1 + int64(r.Intn(2))}
		p = [2]int64{a[0] + int64(r.Intn(2000)), a[1] - int64(r.Intn(2400))}
	}
	if r.Bool() { // the other winding
		b, c = c, b
	}
	d := predDesc{A: a, B: b, C: c, P: p, T: [3]int{r.Intn(300), r.Intn(300), r.Intn(300)}}
	if r.Chance(2, 3) { // common offset and scale: differences stay exact
		mag := uint(r.Range(0, 40))
		ox, oy := int64(r.U64()%(1<<mag))*int64(1-2*r.Intn(2)), int64(r.U64()%(1<<mag))*int64(1-2*r.Intn(2))
		for _, q := range []*[2]int64{&d.A, &d.B, &d.C, &d.P} {
			q[0] += ox
			q[1] += oy
		}
		d.Shift = r.Range(-20, 20)
	}
	return d
}
