// C20 harness, "wide" inputs: integer coordinates far beyond the 127/254 grid (up to about 2^20), used
// for sparse, very thin near-collinear sets at many aspect ratios, directions and scales — the regime
// in which the finite super triangle leaves input points without any triangle.
//
// The static bound of exactOK (every float64 operation exact) does not hold there.  Instead the input
// is accepted only if the float64 run is FAITHFUL: an exact (big integer) shadow run of the algorithm
// is performed and, for every in-circle / orientation test that run makes, the float64 evaluation of
// the reference expression must have the same sign with a wide safety margin (|value| > 2^-40 * the
// sum of the absolute values of its terms; the rounding error of any evaluation order is below 2^-48
// of that sum) and the exact value must not be zero.  The set of tests does not depend on the map
// iteration order (every triangle of the current triangulation is tested against the new point, every
// boundary edge against the new point), so the implementation makes exactly these tests and, each
// having the exact sign, returns exactly the triangle set of the rational model.  The filter uses its
// own copy of the expressions, never the code under test.  Coordinates (after the offset) stay below
// 2^50, hence all coordinate differences and the super triangle (half integers) are exact.
package main

import (
	"fmt"
	"math"
	"math/big"
	"sort"

	"verif/harness/hx"
)

func absI(v int64) int64 {
	if v < 0 {
		return -v
	}
	return v
}

// incircleSign: sign of the in-circle determinant, int64 when that is exact, big integers otherwise
func incircleSign(a, b, c, p P) int {
	ax, ay := a.x-p.x, a.y-p.y
	bx, by := b.x-p.x, b.y-p.y
	cx, cy := c.x-p.x, c.y-p.y
	const lim = 1 << 13
	if absI(ax) < lim && absI(ay) < lim && absI(bx) < lim && absI(by) < lim && absI(cx) < lim && absI(cy) < lim {
		return sign64((ax*ax+ay*ay)*(bx*cy-cx*by) - (bx*bx+by*by)*(ax*cy-cx*ay) + (cx*cx+cy*cy)*(ax*by-bx*ay))
	}
	bi := big.NewInt
	mul := func(x, y *big.Int) *big.Int { return new(big.Int).Mul(x, y) }
	sub := func(x, y *big.Int) *big.Int { return new(big.Int).Sub(x, y) }
	add := func(x, y *big.Int) *big.Int { return new(big.Int).Add(x, y) }
	Ax, Ay, Bx, By, Cx, Cy := bi(ax), bi(ay), bi(bx), bi(by), bi(cx), bi(cy)
	det := add(sub(mul(add(mul(Ax, Ax), mul(Ay, Ay)), sub(mul(Bx, Cy), mul(Cx, By))),
		mul(add(mul(Bx, Bx), mul(By, By)), sub(mul(Ax, Cy), mul(Cx, Ay)))),
		mul(add(mul(Cx, Cx), mul(Cy, Cy)), sub(mul(Ax, By), mul(Bx, Ay))))
	return det.Sign()
}

// orientSign: coordinates below 2^30 in absolute value keep the int64 expression exact
func orientSign(a, b, c P) int { return sign64(orient(a, b, c)) }

func extent(ps []P) int64 {
	x0, y0, x1, y1 := bbox(ps)
	if x1-x0 > y1-y0 {
		return x1 - x0
	}
	return y1 - y0
}

// generalPositionWide: brute force, for the small wide sets
func generalPositionWide(ps []P) bool {
	n := len(ps)
	for i := 0; i < n; i++ {
		for j := i + 1; j < n; j++ {
			if ps[i] == ps[j] {
				return false
			}
			for k := j + 1; k < n; k++ {
				if orient(ps[i], ps[j], ps[k]) == 0 {
					return false
				}
				for l := k + 1; l < n; l++ {
					if incircleSign(ps[i], ps[j], ps[k], ps[l]) == 0 {
						return false
					}
				}
			}
		}
	}
	return true
}

// ---- the float64 reference expressions with their safety margin
const margin = 1.0 / (1 << 40)

var faithfulWhy string // why the last faithful() call refused (diagnostics only)

func incircleFloat(a, b, c, p [2]float64) (sign int, robust bool) {
	ax, ay := a[0]-p[0], a[1]-p[1]
	bx, by := b[0]-p[0], b[1]-p[1]
	cx, cy := c[0]-p[0], c[1]-p[1]
	det := (ax*ax+ay*ay)*(bx*cy-cx*by) - (bx*bx+by*by)*(ax*cy-cx*ay) + (cx*cx+cy*cy)*(ax*by-bx*ay)
	A := math.Abs
	perm := (ax*ax+ay*ay)*(A(bx*cy)+A(cx*by)) + (bx*bx+by*by)*(A(ax*cy)+A(cx*ay)) + (cx*cx+cy*cy)*(A(ax*by)+A(bx*ay))
	switch {
	case det > margin*perm:
		return 1, true
	case det < -margin*perm:
		return -1, true
	}
	return 0, false
}

func orientFloat(a, b, c [2]float64) (sign int, robust bool) {
	l, r := (b[0]-a[0])*(c[1]-a[1]), (c[0]-a[0])*(b[1]-a[1])
	det := l - r
	perm := math.Abs(l) + math.Abs(r)
	switch {
	case det > margin*perm:
		return 1, true
	case det < -margin*perm:
		return -1, true
	}
	return 0, false
}

// faithful: exact shadow run of bowyerWatson (set semantics) on the grid points, cross-checking every
// predicate against its float64 evaluation.  Also returns, for the distribution counters, whether the
// run leaves an input point without any triangle although triangles remain, and the largest cavity
// (number of bad triangles of one insertion = degree of the point when inserted).
func faithful(ps []P) (ok bool, orphan bool, maxCavity int) {
	n := len(ps)
	sv := superVerts2(ps) // doubled coordinates
	Q := make([]P, n+3)   // doubled
	F := make([][2]float64, n+3)
	for i, p := range ps {
		Q[i] = P{2 * p.x, 2 * p.y}
		F[i] = [2]float64{float64(p.x), float64(p.y)}
	}
	for k := 0; k < 3; k++ {
		Q[n+k] = sv[k]
		F[n+k] = [2]float64{float64(sv[k].x) / 2, float64(sv[k].y) / 2}
	}
	type tri = [3]int
	cur := []tri{{n, n + 1, n + 2}}
	has := func(ts []tri, t tri) bool {
		for _, u := range ts {
			if u == t {
				return true
			}
		}
		return false
	}
	edgesOf := func(t tri) [3][2]int { return [3][2]int{{t[0], t[1]}, {t[1], t[2]}, {t[2], t[0]}} }
	for i := 0; i < n; i++ {
		var bad, keep []tri
		for _, t := range cur {
			e := incircleSign(Q[t[0]], Q[t[1]], Q[t[2]], Q[i])
			f, robust := incircleFloat(F[t[0]], F[t[1]], F[t[2]], F[i])
			if e == 0 || !robust || f != e {
				faithfulWhy = fmt.Sprintf("incircle tri=%v pt=%d exact=%d float=%d robust=%v", t, i, e, f, robust)
				return false, false, 0
			}
			if e < 0 {
				bad = append(bad, t)
			} else {
				keep = append(keep, t)
			}
		}
		cur = keep
		if len(bad) > maxCavity {
			maxCavity = len(bad)
		}
		for ti, t := range bad {
			for _, e := range edgesOf(t) {
				shared := false
				for oi, o := range bad {
					if oi == ti {
						continue
					}
					for _, f := range edgesOf(o) {
						if (e[0] == f[0] && e[1] == f[1]) || (e[0] == f[1] && e[1] == f[0]) {
							shared = true
						}
					}
				}
				if shared || e[0] == i || e[1] == i {
					continue
				}
				o := orientSign(Q[e[0]], Q[e[1]], Q[i])
				f, robust := orientFloat(F[e[0]], F[e[1]], F[i])
				if o == 0 || !robust || f != o {
					faithfulWhy = fmt.Sprintf("orient edge=%v pt=%d exact=%d float=%d robust=%v", e, i, o, f, robust)
					return false, false, 0
				}
				nt := tri{e[0], e[1], i}
				if o > 0 {
					nt = tri{e[0], i, e[1]}
				}
				if !has(cur, nt) {
					cur = append(cur, nt)
				}
			}
		}
	}
	used := make([]bool, n)
	left := 0
	for _, t := range cur {
		if t[0] < n && t[1] < n && t[2] < n {
			left++
			used[t[0]], used[t[1]], used[t[2]] = true, true, true
		}
	}
	for _, u := range used {
		if !u && left > 0 {
			orphan = true
		}
	}
	return true, orphan, maxCavity
}

// wideOK: the replacement of exactOK for wide inputs
func wideOK(d desc) bool {
	ps := gridPts(d)
	x0, y0, x1, y1 := bbox(ps)
	const lim = int64(1) << 50
	for _, v := range []int64{x0 + d.OffX, x1 + d.OffX, y0 + d.OffY, y1 + d.OffY} {
		if v > lim || v < -lim {
			return false
		}
	}
	if d.Shift < -20 || d.Shift > 20 || extent(ps) > 1<<21 {
		return false
	}
	ok, _, _ := faithful(ps)
	return ok
}

// ---- generator: n points along a direction, spread sideways by a few units
var sliverDirs = [][2]int64{{1, 0}, {0, 1}, {4, 3}, {3, 4}, {-3, 4}, {1, 1}, {1, -1}, {5, -2}, {1, -7}, {12, 5}, {-7, 2}}

func genSliver(r *hx.Rng) desc {
	for {
		n := r.Range(4, 12)
		dir := hx.Pick(r, sliverDirs)
		T := int64(1) << uint(r.Range(5, 16)) // length in steps of dir
		w := int64(r.Range(1, 4))             // sideways spread in steps of the normal
		if r.Chance(1, 5) {
			w = int64(r.Range(5, 40)) // fatter bands as well
		}
		var ps []P
		seenT := map[int64]bool{}
		for tries := 0; len(ps) < n && tries < 400; tries++ {
			t := int64(r.U64() % uint64(T+1))
			if seenT[t] {
				continue
			}
			s := int64(r.Intn(int(2*w+1))) - w
			p := P{t*dir[0] - s*dir[1], t*dir[1] + s*dir[0]}
			if !generalPositionWide(append(append([]P(nil), ps...), p)) {
				continue
			}
			seenT[t] = true
			ps = append(ps, p)
		}
		if len(ps) < 4 {
			continue
		}
		x0, y0, _, _ := bbox(ps)
		d := desc{Model: true, Wide: true, Gen: "sliver"}
		for _, i := range r.Perm(len(ps)) {
			d.Pts = append(d.Pts, [2]int64{ps[i].x - x0, ps[i].y - y0})
		}
		if r.Chance(1, 4) { // insertion in order along the line as well
			sort.Slice(d.Pts, func(a, b int) bool {
				return d.Pts[a][0]*dir[0]+d.Pts[a][1]*dir[1] < d.Pts[b][0]*dir[0]+d.Pts[b][1]*dir[1]
			})
		}
		if r.Chance(2, 3) {
			d.Shift = r.Range(-20, 20)
			if r.Bool() {
				mag := uint(r.Range(0, 40))
				d.OffX = int64(r.U64()%(1<<mag)) * int64(1-2*r.Intn(2))
				d.OffY = int64(r.U64()%(1<<mag)) * int64(1-2*r.Intn(2))
			}
		}
		if wideOK(d) {
			return d
		}
	}
}

// ---- generator: a grid input with exactly repeated points (outside the statement's "distinct points";
// judged on vertex identity, attribute lengths and the four conjuncts only — see notes/C20.md)
func genDup(r *hx.Rng) desc {
	d := genDesc(r, r.Range(3, 20), true)
	d.Dup = true
	d.Gen = "dup-" + d.Gen
	k := r.Range(1, 3)
	for j := 0; j < k; j++ {
		src := d.Pts[r.Intn(len(d.Pts))]
		at := r.Intn(len(d.Pts) + 1)
		d.Pts = append(d.Pts[:at], append([][2]int64{src}, d.Pts[at:]...)...)
	}
	return d
}

func dedupe(ps []P) []P {
	seen := map[P]bool{}
	var out []P
	for _, p := range ps {
		if !seen[p] {
			seen[p] = true
			out = append(out, p)
		}
	}
	return out
}

// ---- generator: wheels.  k points in convex position (circle, ellipse or parabola arc, slightly
// perturbed), optionally a nested inner ring, and 1-3 hub points near the centre inserted last (or
// first, or in the middle): the hub's cavity is (almost) the whole triangulation of the ring, so one
// insertion removes and re-fans up to k-2 triangles — cavity sizes the other streams never reach.
func okToAdd(ps []P, p P) bool {
	n := len(ps)
	for i := 0; i < n; i++ {
		if ps[i] == p {
			return false
		}
		for j := i + 1; j < n; j++ {
			if orient(ps[i], ps[j], p) == 0 {
				return false
			}
			for k := j + 1; k < n; k++ {
				if incircleSign(ps[i], ps[j], ps[k], p) == 0 {
					return false
				}
			}
		}
	}
	return true
}

func genWheel(r *hx.Rng, maxK int) desc {
	for {
		k := r.Range(8, 28)
		if r.Chance(1, 2) {
			k = r.Range(18, maxK)
		}
		R := float64(r.Range(150, 3900))
		ax, by := R, R
		shape := r.Intn(4)
		switch shape {
		case 1: // ellipse
			by = R * (0.3 + 0.7*r.Float())
		case 2:
			ax = R * (0.3 + 0.7*r.Float())
		}
		pert := int64(r.Range(0, 3))
		if r.Chance(1, 3) {
			pert = int64(R / float64(r.Range(20, 80)))
		}
		jit := func() int64 {
			if pert == 0 {
				return 0
			}
			return int64(r.Intn(int(2*pert+1))) - pert
		}
		var ring []P
		ringAt := func(k int, ax, by float64, into []P, all []P) []P {
			phase := r.Float()
			for i := 0; i < k; i++ {
				for tries := 0; tries < 30; tries++ {
					th := 2 * math.Pi * (float64(i) + phase + 0.3*(r.Float()-0.5)) / float64(k)
					var p P
					if shape == 3 { // parabola arc, closed by its chord: still convex position
						x := (2*(float64(i)+0.5*r.Float())/float64(k) - 1) * ax
						p = P{int64(math.Round(x)) + jit(), int64(math.Round(x*x/ax)) + jit()}
					} else {
						p = P{int64(math.Round(ax*math.Cos(th))) + jit(), int64(math.Round(by*math.Sin(th))) + jit()}
					}
					if okToAdd(append(append([]P(nil), all...), into...), p) {
						into = append(into, p)
						break
					}
				}
			}
			return into
		}
		ring = ringAt(k, ax, by, nil, nil)
		var inner []P
		if shape != 3 && r.Chance(1, 3) { // nested ring
			f := 0.3 + 0.4*r.Float()
			inner = ringAt(r.Range(5, k), ax*f, by*f, nil, ring)
		}
		// hubs near the centre (for the parabola: inside the arc, near its axis)
		cx, cy := 0.0, 0.0
		if shape == 3 {
			cy = ax * 0.5
		}
		var hubs []P
		nh := r.Range(1, 3)
		for len(hubs) < nh {
			rad := math.Min(ax, by) / float64(r.Range(6, 40))
			p := P{int64(math.Round(cx + rad*(2*r.Float()-1))), int64(math.Round(cy + rad*(2*r.Float()-1)))}
			if okToAdd(append(append(append([]P(nil), ring...), inner...), hubs...), p) {
				hubs = append(hubs, p)
			}
		}
		rest := append(append([]P(nil), ring...), inner...)
		if r.Chance(1, 2) { // random insertion order of the rim (else: around the ring)
			q := make([]P, len(rest))
			for i, j := range r.Perm(len(rest)) {
				q[i] = rest[j]
			}
			rest = q
		}
		var ps []P
		name := "wheel-hub-last"
		switch r.Intn(4) {
		case 0:
			name = "wheel-hub-first"
			ps = append(append(ps, hubs...), rest...)
		case 1:
			name = "wheel-hub-middle"
			m := len(rest) / 2
			ps = append(append(append(ps, rest[:m]...), hubs...), rest[m:]...)
		default:
			ps = append(append(ps, rest...), hubs...)
		}
		x0, y0, _, _ := bbox(ps)
		d := desc{Model: len(ps) <= 44, Wide: true, Gen: name}
		for _, p := range ps {
			d.Pts = append(d.Pts, [2]int64{p.x - x0, p.y - y0})
		}
		if r.Chance(2, 3) {
			d.Shift = r.Range(-20, 20)
			if r.Bool() {
				mag := uint(r.Range(0, 36))
				d.OffX = int64(r.U64()%(1<<mag)) * int64(1-2*r.Intn(2))
				d.OffY = int64(r.U64()%(1<<mag)) * int64(1-2*r.Intn(2))
			}
		}
		if len(ps) >= 4 && wideOK(d) {
			return d
		}
	}
}
