// C20 harness, round 4b.
//
// SIZE LADDER (runRung): inputs of about 1100, 2100 and 4200 points — a jittered lattice inserted in scan
// order, or a uniform cloud — integer coordinates below 2^14.  The certified checker in Coq is far too
// expensive at these sizes, so these rungs are JUDGED BY THE GO ORACLE below, not by Coq (Coq only sees
// vertex identity: Position, attribute lengths, the caller's slice — constructor CBig):
//   - admission: an exact replay of the algorithm (set semantics) in which every in-circle / orientation
//     test is evaluated by the harness' own float64 reference expression and must be ROBUST (|value| >
//     2^-40 * sum of |terms|; the rounding error of any evaluation order is below 2^-48 of that sum, the
//     inputs of the expression — differences of integers / half integers below 2^53 — are exact), so
//     its sign is the exact sign and non-zero; the implementation makes the same tests and must return
//     exactly the replay's triangle set;
//   - property, directly on what the implementation returned, exact int64 arithmetic (all products
//     below 2^62 for coordinates below 2^14): indices in range, one winding with non-zero area, no two
//     triangles on the same three vertices, no directed edge used twice, and for ALL triangle / point
//     pairs (brute force) no input point strictly inside — and none on — a circumcircle.  Mutually empty
//     circles with a common winding imply disjoint interiors (the argument of the Coq lemma dt_disjoint).
// Not decided for the rungs: "no three input points collinear / no four concyclic" over all O(n^3..4)
// tuples — only that no predicate of the run and no (output triangle, point) pair is degenerate.
//
// NEAR-COLLINEAR STREAM (genNearLine): a point c at distance 1..3 grid units from the line through a, b
// with |ab| = 2^20..2^45 units (relative offsets 1e-6..3e-14, all coordinates integers, so the exact
// model sees the same input), the edge ab on the hull or in the interior, followed by points across
// the thin triangle (a,b,c) that force its re-triangulation.  Admitted by the big-integer faithful run.
package main

import (
	"fmt"
	"math"
	"sort"

	"verif/harness/hx"
)

// ---------------------------------------------------------------- size ladder
type rungDesc struct {
	Pts  [][2]int64 `json:"pts"`
	Gen  string     `json:"gen"`
	Rung bool       `json:"rung"`
}

func genRung(r *hx.Rng, n int, lattice bool) rungDesc {
	d := rungDesc{Rung: true}
	seen := map[[2]int64]bool{}
	if lattice {
		d.Gen = "rung-lattice-scan"
		side := int(math.Ceil(math.Sqrt(float64(n))))
		step := int64(16000 / side)
		jit := step / 3
		for y := 0; y < side && len(d.Pts) < n; y++ {
			for x := 0; x < side && len(d.Pts) < n; x++ {
				xx := x
				if y%2 == 1 { // boustrophedon: consecutive insertions are neighbours
					xx = side - 1 - x
				}
				p := [2]int64{int64(xx)*step + jit + int64(r.Intn(int(2*jit+1))) - jit, int64(y)*step + jit + int64(r.Intn(int(2*jit+1))) - jit}
				if !seen[p] {
					seen[p] = true
					d.Pts = append(d.Pts, p)
				}
			}
		}
		return d
	}
	d.Gen = "rung-uniform"
	for len(d.Pts) < n {
		p := [2]int64{int64(r.Intn(16000)), int64(r.Intn(16000))}
		if !seen[p] {
			seen[p] = true
			d.Pts = append(d.Pts, p)
		}
	}
	return d
}

// exactRun: the algorithm with robust float64 predicates (see the file comment); ok=false when some
// predicate is not robust.  Returns the triangles without super-triangle vertices.
func exactRun(ps []P) (tris [][3]int, ok bool) {
	n := len(ps)
	sv := superVerts2(ps)
	F := make([][2]float64, n+3)
	for i, p := range ps {
		F[i] = [2]float64{float64(p.x), float64(p.y)}
	}
	for k := 0; k < 3; k++ {
		F[n+k] = [2]float64{float64(sv[k].x) / 2, float64(sv[k].y) / 2}
	}
	type tri = [3]int
	cur := make([]tri, 0, 2*n+8)
	cur = append(cur, tri{n, n + 1, n + 2})
	var bad []tri
	for i := 0; i < n; i++ {
		bad = bad[:0]
		keep := cur[:0]
		for _, t := range cur {
			s, robust := incircleFloat(F[t[0]], F[t[1]], F[t[2]], F[i])
			if !robust {
				return nil, false
			}
			if s < 0 {
				bad = append(bad, t)
			} else {
				keep = append(keep, t)
			}
		}
		cur = keep
		for ti, t := range bad {
			for _, e := range [3][2]int{{t[0], t[1]}, {t[1], t[2]}, {t[2], t[0]}} {
				shared := false
				for oi, o := range bad {
					if oi == ti {
						continue
					}
					for _, f := range [3][2]int{{o[0], o[1]}, {o[1], o[2]}, {o[2], o[0]}} {
						if (e[0] == f[0] && e[1] == f[1]) || (e[0] == f[1] && e[1] == f[0]) {
							shared = true
						}
					}
				}
				if shared || e[0] == i || e[1] == i {
					continue
				}
				s, robust := orientFloat(F[e[0]], F[e[1]], F[i])
				if !robust {
					return nil, false
				}
				nt := tri{e[0], e[1], i}
				if s > 0 {
					nt = tri{e[0], i, e[1]}
				}
				cur = append(cur, nt) // distinct boundary edges give distinct triangles
			}
		}
	}
	for _, t := range cur {
		if t[0] < n && t[1] < n && t[2] < n {
			tris = append(tris, t)
		}
	}
	return tris, true
}

// rungOracle: the four conjuncts on the implementation's output, exact int64 (coordinates below 2^14)
func rungOracle(ps []P, tris [][3]int) string {
	n := len(ps)
	sign := 0
	vsets := map[[3]int]bool{}
	dir := map[[2]int]bool{}
	for _, t := range tris {
		for _, v := range t {
			if v < 0 || v >= n {
				return fmt.Sprintf("triangle %v: index outside the input", t)
			}
		}
		o := sign64(orient(ps[t[0]], ps[t[1]], ps[t[2]]))
		if o == 0 || (sign != 0 && o != sign) {
			return fmt.Sprintf("triangle %v: zero area or winding differs from the other triangles", t)
		}
		sign = o
		if vs := vset(t); vsets[vs] {
			return fmt.Sprintf("two triangles on the vertices %v", vs)
		} else {
			vsets[vs] = true
		}
		for _, e := range [3][2]int{{t[0], t[1]}, {t[1], t[2]}, {t[2], t[0]}} {
			if dir[e] {
				return fmt.Sprintf("directed edge %v belongs to two triangles (overlap)", e)
			}
			dir[e] = true
		}
	}
	for _, t := range tris {
		a, b, c := ps[t[0]], ps[t[1]], ps[t[2]]
		for j, p := range ps {
			if j == t[0] || j == t[1] || j == t[2] {
				continue
			}
			ax, ay, bx, by, cx, cy := a.x-p.x, a.y-p.y, b.x-p.x, b.y-p.y, c.x-p.x, c.y-p.y
			det := (ax*ax+ay*ay)*(bx*cy-cx*by) - (bx*bx+by*by)*(ax*cy-cx*ay) + (cx*cx+cy*cy)*(ax*by-bx*ay)
			if sign64(det)*sign >= 0 { // orient*det > 0 <=> strictly inside;  det == 0 <=> on the circle
				if det == 0 {
					return fmt.Sprintf("input point %d lies on the circumcircle of triangle %v (degenerate input?)", j, t)
				}
				return fmt.Sprintf("input point %d lies strictly inside the circumcircle of triangle %v", j, t)
			}
		}
	}
	return ""
}

func runRung(run *hx.Run, d rungDesc) {
	ps := make([]P, len(d.Pts))
	for i, p := range d.Pts {
		ps[i] = P{p[0], p[1]}
		if p[0] < 0 || p[1] < 0 || p[0] >= 1<<14 || p[1] >= 1<<14 {
			return
		}
	}
	want, ok := exactRun(ps)
	if !ok {
		run.Count("rung:skipped(a predicate of the run is not robust)")
		return
	}
	o := runImpl(desc{Pts: d.Pts, Spare: 3})
	c := hx.Case{Kind: "rung", Desc: d, Nontriv: true, Key: fmt.Sprint("rung", d.Gen, len(ps), d.Pts[0], d.Pts[len(d.Pts)-1])}
	switch {
	case o.crash != "":
		c.GoFail = "Crash: " + o.crash
	default:
		if why := rungOracle(ps, o.tris); why != "" {
			c.GoFail = why + " [judged by the harness' exact integer oracle]"
		} else {
			a, b := sortedSet(o.tris), sortedSet(want)
			mirrored := make([][3]int, len(o.tris))
			for i, t := range o.tris {
				mirrored[i] = [3]int{t[0], t[2], t[1]}
			}
			if fmt.Sprint(a) != fmt.Sprint(b) && fmt.Sprint(sortedSet(mirrored)) != fmt.Sprint(b) {
				c.GoFail = fmt.Sprintf("triangle set differs from the exact run of the algorithm: %d vs %d triangles", len(a), len(b))
			}
		}
	}
	// vertex identity goes through Coq (cheap): Position, attribute lengths, the caller's slice
	z2 := func(v [][2]float64) string {
		s := "["
		for i, p := range v {
			if i > 0 {
				s += ";"
			}
			s += fmt.Sprintf("(%d,%d)", int64(p[0]), int64(p[1]))
		}
		return s + "]%Z"
	}
	pts := "["
	for i, p := range d.Pts {
		if i > 0 {
			pts += ";"
		}
		pts += fmt.Sprintf("(%d,%d)", p[0], p[1])
	}
	pts += "]%Z"
	pos := "["
	for i, p := range o.pos {
		if i > 0 {
			pos += ";"
		}
		if p[0] != math.Trunc(p[0]) || p[1] != math.Trunc(p[1]) || p[2] != math.Trunc(p[2]) {
			c.GoFail = fmt.Sprintf("Position %d = %v is not an input point", i, p)
		}
		pos += fmt.Sprintf("(%d,%d,%d)", int64(p[0]), int64(p[1]), int64(p[2]))
	}
	pos += "]%Z"
	c.Coq = fmt.Sprintf("CBig %s %s %s %s", pts, pos, hx.CoqListNat(o.alens), z2(o.after))
	run.Count("gen:" + d.Gen)
	run.Count(fmt.Sprintf("rung:%d-points(judged by the Go oracle)", (len(ps)+50)/100*100))
	run.Add(c)
}

// ---------------------------------------------------------------- near-collinear triples
func wideOKBig(d desc) bool {
	ps := gridPts(d)
	x0, y0, x1, y1 := bbox(ps)
	S := x1 - x0
	if y1-y0 > S {
		S = y1 - y0
	}
	// every coordinate and the super triangle (half units, 20.5*S beyond the box) below 2^52
	for _, v := range []int64{x0 + d.OffX, x1 + d.OffX, y0 + d.OffY, y1 + d.OffY} {
		if absI(v) > 1<<50 {
			return false
		}
	}
	if S > 1<<46 || d.Shift < -20 || d.Shift > 20 {
		return false
	}
	ok, _, _ := faithful(ps)
	return ok
}

func gpBig(ps []P, p P) bool {
	n := len(ps)
	for i := 0; i < n; i++ {
		if ps[i] == p {
			return false
		}
		for j := i + 1; j < n; j++ {
			if orient(ps[i], ps[j], p) == 0 {
				return false
			}
			for k := j + 1; k < n; k++ {
				if incircleSign(ps[i], ps[j], ps[k], p) == 0 {
					return false
				}
			}
		}
	}
	return true
}

var nearDirs = [][2]int64{{1, 0}, {0, 1}, {1, 1}, {1, -1}, {2, 1}, {-1, 2}}

// genClosePair: 5-9 points spread over an extent of 2^28..2^38 units, two (sometimes three) of them only
// 1-4 units apart: the later one lies within 1e-8..1e-11 of the LINE through every long edge at the
// earlier one (relative to the edge length) without being on it, so the fan triangles over those edges
// are legitimately thin.  More points follow and re-triangulate across them.
func genClosePair(r *hx.Rng) desc {
	for {
		k := uint(r.Range(28, 38))
		L := int64(1) << k
		var all []P
		try := func(p P) bool {
			if p.x >= 0 && p.y >= 0 && p.x <= L && p.y <= L && gpBig(all, p) {
				all = append(all, p)
				return true
			}
			return false
		}
		rnd := func(hi int64) int64 { return int64(r.U64() % uint64(hi+1)) }
		nb := r.Range(4, 7)
		for tries := 0; len(all) < nb && tries < 100; tries++ {
			try(P{rnd(L), rnd(L)})
		}
		if len(all) < 4 {
			continue
		}
		near := func(v P) P {
			for {
				dx, dy := int64(r.Intn(9))-4, int64(r.Intn(9))-4
				if dx != 0 || dy != 0 {
					return P{v.x + dx, v.y + dy}
				}
			}
		}
		v := all[r.Intn(len(all))]
		pairs := 0
		for tries := 0; pairs < 1+r.Intn(2) && tries < 40; tries++ {
			if try(near(v)) {
				pairs++
			}
		}
		if pairs == 0 {
			continue
		}
		for tries := 0; tries < 40 && len(all) < nb+pairs+r.Range(0, 2); tries++ {
			try(P{rnd(L), rnd(L)})
		}
		var ps []P
		for _, j := range r.Perm(len(all)) {
			ps = append(ps, all[j])
		}
		x0, y0, _, _ := bbox(ps)
		d := desc{Model: true, Wide: true, Gen: "close-pair"}
		for _, p := range ps {
			d.Pts = append(d.Pts, [2]int64{p.x - x0, p.y - y0})
		}
		if r.Chance(1, 2) {
			d.Shift = r.Range(-20, 20)
		}
		if wideOKBig(d) {
			return d
		}
	}
}

func genNearLine(r *hx.Rng) desc {
	if r.Bool() {
		return genClosePair(r)
	}
	for {
		dir := hx.Pick(r, nearDirs)
		k := uint(r.Range(20, 44))
		L := int64(1) << k
		mk := func(t, s int64) P { return P{t*dir[0] - s*dir[1], t*dir[1] + s*dir[0]} }
		var all []P
		try := func(p P) bool {
			if gpBig(all, p) {
				all = append(all, p)
				return true
			}
			return false
		}
		rnd := func(lo, hi int64) int64 { return lo + int64(r.U64()%uint64(hi-lo+1)) }
		// the edge: the whole extent (|ab| = L) or a short piece of it (|ab| = L / 2^1..20)
		short := uint(0)
		if r.Bool() {
			short = uint(r.Range(1, int(k)-8))
		}
		e := L >> short
		a0 := rnd(0, L-e)
		a, b := mk(a0, 0), mk(a0+e, int64(r.Intn(2)))
		try(a)
		try(b)
		// c: 1..3 units off the line ab, between a and b; sometimes a second one
		side := int64(1 - 2*r.Intn(2))
		var cs []P
		for tries := 0; len(cs) < 1+r.Intn(2) && tries < 20; tries++ {
			c := mk(a0+rnd(e/8, 7*e/8), side*int64(r.Range(1, 3)))
			if try(c) {
				cs = append(cs, c)
			}
		}
		if len(cs) == 0 {
			continue
		}
		all = all[:2] // a, b stay; the others are re-added in insertion order
		// body points on c's side (ab on the hull) or on both sides (ab interior)
		hull := r.Bool()
		var body, cross []P
		nb := r.Range(2, 5)
		for tries := 0; len(body) < nb && tries < 100; tries++ {
			h := side * rnd(e/4, 2*e)
			if !hull && r.Bool() {
				h = -h
			}
			p := mk(a0+rnd(-e/2, e+e/2), h)
			if try(p) {
				body = append(body, p)
			}
		}
		for _, c := range cs {
			try(c)
		}
		// crossers: on the far side of ab from c, close to the edge (inside the huge circle of (a,b,c)) or far
		nc := r.Range(1, 3)
		for tries := 0; len(cross) < nc && tries < 100; tries++ {
			depth := rnd(1, e/4)
			if r.Bool() {
				depth = rnd(1, 1+e>>uint(r.Range(4, 20)))
			}
			p := mk(a0+rnd(e/10, 9*e/10), -side*depth)
			if try(p) {
				cross = append(cross, p)
			}
		}
		if len(cross) == 0 {
			continue
		}
		var ps []P
		name := "near-line-interior"
		if hull {
			name = "near-line-hull"
		}
		if r.Chance(1, 4) {
			name += "-random-order"
			for _, j := range r.Perm(len(all)) {
				ps = append(ps, all[j])
			}
		} else { // a, b and the body first, then c, then the crossers
			pre := append([]P{a, b}, body...)
			for _, j := range r.Perm(len(pre)) {
				ps = append(ps, pre[j])
			}
			ps = append(append(ps, cs...), cross...)
		}
		x0, y0, _, _ := bbox(ps)
		d := desc{Model: true, Wide: true, Gen: name}
		for _, p := range ps {
			d.Pts = append(d.Pts, [2]int64{p.x - x0, p.y - y0})
		}
		if r.Chance(1, 2) {
			d.Shift = r.Range(-20, 20)
		}
		if wideOKBig(d) {
			return d
		}
	}
}

var _ = sort.Ints
